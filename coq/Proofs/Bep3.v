(* Lemmas and proofs about Model/Bep3.v *)
From Kava Require Import Base.Prelude Model.Bep3.

Local Open Scope Z_scope.

(** * Decidable equalities *)

Lemma id_eqb_spec (a b : id) : reflect (a = b) (id_eqb a b).
Proof.
  destruct a as [[a1 a2] a3], b as [[b1 b2] b3]. unfold id_eqb.
  destruct (Nat.eqb_spec a1 b1); cbn [andb]; [|constructor; congruence].
  destruct (Nat.eqb_spec a2 b2); cbn [andb]; [|constructor; congruence].
  destruct (Nat.eqb_spec a3 b3); constructor; congruence.
Qed.

Lemma id_eqb_refl a : id_eqb a a = true.
Proof. destruct (id_eqb_spec a a); congruence. Qed.

Lemma ent_eqb_spec (a b : Z * id) : reflect (a = b) (ent_eqb a b).
Proof.
  destruct a as [h i], b as [h' i']. unfold ent_eqb. cbn [fst snd].
  destruct (Z.eqb_spec h h'); cbn [andb]; [|constructor; congruence].
  destruct (id_eqb_spec i i'); constructor; congruence.
Qed.

Lemma status_eqb_spec a b : reflect (a = b) (status_eqb a b).
Proof. destruct a, b; cbn; constructor; congruence. Qed.

(** * The swap table *)

Lemma lookup_set_same i v l : lookup i (set_swap i v l) = Some v.
Proof.
  induction l as [|[j w] r IH]; cbn [set_swap lookup].
  - rewrite id_eqb_refl. reflexivity.
  - destruct (id_eqb_spec i j) as [->|N]; cbn [lookup].
    + rewrite id_eqb_refl. reflexivity.
    + destruct (id_eqb_spec i j); [congruence|]. exact IH.
Qed.

Lemma lookup_set_other i j v l : i <> j -> lookup j (set_swap i v l) = lookup j l.
Proof.
  intros N. induction l as [|[k w] r IH]; cbn [set_swap lookup].
  - destruct (id_eqb_spec j i); [congruence|reflexivity].
  - destruct (id_eqb_spec i k) as [->|N2]; cbn [lookup].
    + destruct (id_eqb_spec j k); [congruence|reflexivity].
    + destruct (id_eqb_spec j k); [reflexivity|exact IH].
Qed.

Lemma lookup_set i j v l : lookup j (set_swap i v l) = if id_eqb j i then Some v else lookup j l.
Proof.
  destruct (id_eqb_spec j i) as [->|N].
  - apply lookup_set_same.
  - apply lookup_set_other. congruence.
Qed.

Lemma lookup_none_notin i l : lookup i l = None <-> ~ In i (map fst l).
Proof.
  induction l as [|[j w] r IH]; cbn [lookup map fst In].
  - tauto.
  - destruct (id_eqb_spec i j) as [->|N].
    + split; [discriminate|]. intros H; exfalso; apply H; left; reflexivity.
    + rewrite IH. split.
      * intros H [E|H1]; [congruence|tauto].
      * intros H H1. apply H. right. exact H1.
Qed.

Lemma lookup_some_in i w l : lookup i l = Some w -> In i (map fst l).
Proof.
  intros H. destruct (in_dec (fun a b => reflect_dec _ _ (id_eqb_spec a b)) i (map fst l)) as [I|N]; [exact I|].
  apply lookup_none_notin in N. congruence.
Qed.

Lemma lookup_del_other i j l : i <> j -> lookup j (del_swap i l) = lookup j l.
Proof.
  intros N. induction l as [|[k w] r IH]; cbn [del_swap lookup]; [reflexivity|].
  destruct (id_eqb_spec i k) as [->|N2]; cbn [lookup].
  - destruct (id_eqb_spec j k); [congruence|reflexivity].
  - destruct (id_eqb_spec j k); [reflexivity|exact IH].
Qed.

Lemma lookup_del_same i l : NoDup (map fst l) -> lookup i (del_swap i l) = None.
Proof.
  induction l as [|[k w] r IH]; cbn [del_swap lookup map fst]; intros ND; [reflexivity|].
  inversion ND as [|? ? Hn ND']; subst.
  destruct (id_eqb_spec i k) as [->|N2]; cbn [lookup].
  - apply lookup_none_notin. exact Hn.
  - destruct (id_eqb_spec i k); [congruence|]. apply IH. exact ND'.
Qed.

Lemma lookup_del i j l : NoDup (map fst l) ->
  lookup j (del_swap i l) = if id_eqb j i then None else lookup j l.
Proof.
  intros ND. destruct (id_eqb_spec j i) as [->|N].
  - apply lookup_del_same. exact ND.
  - apply lookup_del_other. congruence.
Qed.

Lemma keys_set_in i v l j : In j (map fst (set_swap i v l)) -> j = i \/ In j (map fst l).
Proof.
  induction l as [|[k w] r IH]; cbn [set_swap map fst In].
  - intros [E|[]]. left. congruence.
  - destruct (id_eqb_spec i k) as [->|N]; cbn [map fst In].
    + intros [E|H]; [left; congruence|right; right; exact H].
    + intros [E|H]; [right; left; exact E|]. destruct (IH H); [left|right; right]; assumption.
Qed.

Lemma keys_set_nodup i v l : NoDup (map fst l) -> NoDup (map fst (set_swap i v l)).
Proof.
  induction l as [|[k w] r IH]; cbn [set_swap map fst]; intros ND.
  - constructor; [intros []|constructor].
  - inversion ND as [|? ? Hn ND']; subst.
    destruct (id_eqb_spec i k) as [->|N]; cbn [map fst].
    + constructor; assumption.
    + constructor; [|apply IH; exact ND'].
      intros H. apply keys_set_in in H. destruct H; [congruence|contradiction].
Qed.

Lemma keys_del_in i l j : In j (map fst (del_swap i l)) -> In j (map fst l).
Proof.
  induction l as [|[k w] r IH]; cbn [del_swap map fst In]; [tauto|].
  destruct (id_eqb_spec i k) as [->|N]; cbn [map fst In].
  - intros H. right. exact H.
  - intros [E|H]; [left; exact E|right; apply IH; exact H].
Qed.

Lemma keys_del_nodup i l : NoDup (map fst l) -> NoDup (map fst (del_swap i l)).
Proof.
  induction l as [|[k w] r IH]; cbn [del_swap map fst]; intros ND; [constructor|].
  inversion ND as [|? ? Hn ND']; subst.
  destruct (id_eqb_spec i k) as [->|N]; cbn [map fst]; [exact ND'|].
  constructor; [|apply IH; exact ND'].
  intros H. apply keys_del_in in H. contradiction.
Qed.

(** sums over the table *)

Lemma ssum_set_new f i v l : lookup i l = None -> ssum f (set_swap i v l) = ssum f l + f v.
Proof.
  induction l as [|[k w] r IH]; cbn [set_swap lookup ssum fold_right snd]; intros H.
  - lia.
  - destruct (id_eqb_spec i k); [discriminate|]. cbn [ssum fold_right snd].
    fold (ssum f (set_swap i v r)). fold (ssum f r). rewrite IH by exact H. lia.
Qed.

Lemma ssum_set_upd f i v w l : lookup i l = Some w -> ssum f (set_swap i v l) = ssum f l - f w + f v.
Proof.
  induction l as [|[k u] r IH]; cbn [set_swap lookup ssum fold_right snd]; intros H; [discriminate|].
  destruct (id_eqb_spec i k).
  - inversion H; subst. cbn [ssum fold_right snd]. lia.
  - cbn [ssum fold_right snd]. fold (ssum f (set_swap i v r)). fold (ssum f r). rewrite IH by exact H. lia.
Qed.

Lemma ssum_del f i w l : lookup i l = Some w -> ssum f (del_swap i l) = ssum f l - f w.
Proof.
  induction l as [|[k u] r IH]; cbn [del_swap lookup ssum fold_right snd]; intros H; [discriminate|].
  destruct (id_eqb_spec i k).
  - inversion H; subst. fold (ssum f r). lia.
  - cbn [ssum fold_right snd]. fold (ssum f (del_swap i r)). fold (ssum f r). rewrite IH by exact H. lia.
Qed.

Lemma in_lookup i w l : NoDup (map fst l) -> In (i, w) l -> lookup i l = Some w.
Proof.
  induction l as [|[k u] r IH]; cbn [lookup map fst In]; intros ND H; [contradiction|].
  inversion ND as [|? ? Hn ND']; subst.
  destruct H as [E|H].
  - inversion E; subst. rewrite id_eqb_refl. reflexivity.
  - destruct (id_eqb_spec i k) as [->|N].
    + exfalso. apply Hn. change k with (fst (k, w)). apply in_map. exact H.
    + apply IH; assumption.
Qed.

Lemma ssum_nonneg f l : (forall p, In p l -> 0 <= f (snd p)) -> 0 <= ssum f l.
Proof.
  induction l as [|p r IH]; cbn [ssum fold_right]; intros H; [lia|].
  fold (ssum f r). pose proof (H p (or_introl eq_refl)).
  assert (0 <= ssum f r) by (apply IH; intros q Hq; apply H; right; exact Hq). lia.
Qed.

Lemma ssum_ge f i w l : (forall p, In p l -> 0 <= f (snd p)) -> lookup i l = Some w -> f w <= ssum f l.
Proof.
  induction l as [|[k u] r IH]; cbn [lookup ssum fold_right snd]; intros Hp H; [discriminate|].
  fold (ssum f r).
  assert (Hr : forall p, In p r -> 0 <= f (snd p)) by (intros q Hq; apply Hp; right; exact Hq).
  destruct (id_eqb_spec i k).
  - inversion H; subst. pose proof (ssum_nonneg f r Hr). lia.
  - pose proof (Hp (k, u) (or_introl eq_refl)) as H0. cbn [snd] in H0.
    pose proof (IH Hr H). lia.
Qed.

(** * The height indexes *)

Lemma ix_mem_in x l : ix_mem x l = true <-> In x l.
Proof.
  unfold ix_mem. rewrite existsb_exists. split.
  - intros (y & Hy & E). destruct (ent_eqb_spec x y); [subst; exact Hy|discriminate].
  - intros H. exists x. split; [exact H|]. destruct (ent_eqb_spec x x); congruence.
Qed.

Lemma ix_add_in x l y : In y (ix_add x l) <-> y = x \/ In y l.
Proof.
  unfold ix_add. destruct (ix_mem x l) eqn:E.
  - apply ix_mem_in in E. split; [tauto|]. intros [->|H]; assumption.
  - cbn [In]. split; intros [H|H]; auto.
Qed.

Lemma ix_add_nodup x l : NoDup l -> NoDup (ix_add x l).
Proof.
  intros ND. unfold ix_add. destruct (ix_mem x l) eqn:E; [exact ND|].
  constructor; [|exact ND]. intros H. apply ix_mem_in in H. congruence.
Qed.

Lemma ix_del_in x l y : In y (ix_del x l) <-> y <> x /\ In y l.
Proof.
  unfold ix_del. rewrite filter_In. destruct (ent_eqb_spec x y) as [->|N]; cbn [negb].
  - split; [intros [_ H]; discriminate|intros [H _]; congruence].
  - split; intros [H1 H2]; split; auto.
Qed.

Lemma ix_del_nodup x l : NoDup l -> NoDup (ix_del x l).
Proof. intros ND. unfold ix_del. apply NoDup_filter. exact ND. Qed.

(** * The invariant *)

Lemma find_asset_denom d l a : find_asset d l = Some a -> a_denom a = d.
Proof.
  induction l as [|b r IH]; cbn [find_asset]; [discriminate|].
  destruct (Nat.eqb_spec (a_denom b) d); [intros H; inversion H; subst; reflexivity|exact IH].
Qed.

(* Params.Validate (min swap amount positive); the module account is in keeper.Maccs *)
Definition env_wf (e : env) : Prop :=
  e_macc e (e_mod e) = true /\
  forall d a, find_asset d (e_assets e) = Some a -> 1 <= a_min a.

(* the module account has no key: it is never the sender of a message *)
Definition op_ok (e : env) (o : op) : Prop :=
  match o with
  | Create _ _ _ sender _ _ _ _ => sender <> e_mod e
  | _ => True
  end.

Definition rec_ok (e : env) (n : nat) (i : id) (w : swap) : Prop :=
  i = sw_id w /\ 0 < sw_amt w /\ (sw_serial w < n)%nat /\
  sw_recip w <> e_mod e /\
  (sw_dir w = Outgoing -> sw_sender w <> e_mod e) /\
  exists a, find_asset (sw_denom w) (e_assets e) = Some a /\
    (sw_dir w = Incoming -> sw_sender w = a_deputy a) /\
    (sw_dir w = Outgoing -> sw_sender w <> a_deputy a /\ sw_recip w = a_deputy a).

Lemma rec_ok_mono e n m i w : (n <= m)%nat -> rec_ok e n i w -> rec_ok e m i w.
Proof. unfold rec_ok. intros L (A & B & C & D). repeat split; try assumption; try tauto. lia. Qed.

Lemma rec_ok_with_status e n i w st c : rec_ok e n i w -> rec_ok e n i (with_status w st c).
Proof. unfold rec_ok, with_status, sw_id. cbn. tauto. Qed.

(* the tables and the ghost log *)
Record InvT (e : env) (sw : list (id * swap)) (bb lt : list (Z * id)) (n : nat) (lg : list pay) : Prop := {
  t_keys : NoDup (map fst sw);
  t_rec : forall i w, lookup i sw = Some w -> rec_ok e n i w;
  t_serial : forall i j w1 w2, lookup i sw = Some w1 -> lookup j sw = Some w2 ->
             sw_serial w1 = sw_serial w2 -> i = j;
  t_bb_nodup : NoDup bb;
  t_bb : forall h i, In (h, i) bb <->
         exists w, lookup i sw = Some w /\ sw_status w = Open /\ sw_expire w = h;
  t_lt_nodup : NoDup lt;
  t_lt : forall h i, In (h, i) lt <->
         exists w, lookup i sw = Some w /\ sw_status w = Completed /\ sw_closed w + LONGTERM = h;
  t_log_nodup : NoDup (map p_serial lg);
  t_log_lt : forall q, In q lg -> (p_serial q < n)%nat;
  t_log_done : forall i w, lookup i sw = Some w ->
               (sw_status w = Completed <-> In (sw_serial w) (map p_serial lg))
}.

(* counters, custody, limits, for one denom *)
Definition cnt_ok (e : env) (sw : list (id * swap)) (lg : list pay) (sp : supply) (bm bs : Z) (d : nat) : Prop :=
  sp_inc sp = ssum (wt d Incoming) sw /\
  sp_out sp = ssum (wt d Outgoing) sw /\
  bm = sp_out sp /\
  sp_out sp <= sp_cur sp /\ 0 <= sp_tl sp /\
  sp_cur sp = e_cur0 e d + lsum ClaimIn d lg - lsum ClaimOut d lg /\
  bs = e_bsup0 e d + lsum ClaimIn d lg - lsum ClaimOut d lg /\
  (forall a, find_asset d (e_assets e) = Some a ->
     sp_cur sp + sp_inc sp <= a_limit a /\
     (a_tlimited a = true -> sp_tl sp + sp_inc sp <= a_tlimit a)).

Definition InvC (e : env) (s : state) : Prop :=
  forall d, cnt_ok e (s_swaps s) (g_log s) (s_sup s d) (s_bal s (e_mod e) d) (s_bsup s d) d.

Definition Inv (e : env) (s : state) : Prop :=
  InvT e (s_swaps s) (s_byblock s) (s_longterm s) (g_next s) (g_log s) /\ InvC e s.

(** ** Table transitions *)

Lemma ent_eq_inv (h h' : Z) (i i' : id) : (h, i) = (h', i') -> h = h' /\ i = i'.
Proof. intros H; inversion H; auto. Qed.

Lemma T_insert e sw bb lt n lg i w :
  InvT e sw bb lt n lg -> lookup i sw = None -> rec_ok e (S n) i w ->
  sw_status w = Open -> sw_serial w = n ->
  InvT e (set_swap i w sw) (ix_add (sw_expire w, i) bb) lt (S n) lg.
Proof.
  intros [K R S BN B LN L GN GL GD] Hn Hr Ho Hs.
  constructor.
  - apply keys_set_nodup. exact K.
  - intros j u. rewrite lookup_set. destruct (id_eqb_spec j i) as [->|N].
    + intros E; inversion E; subst. exact Hr.
    + intros E. apply rec_ok_mono with n; [lia|]. apply R. exact E.
  - intros j1 j2 u1 u2. rewrite !lookup_set.
    destruct (id_eqb_spec j1 i) as [->|N1], (id_eqb_spec j2 i) as [->|N2]; intros E1 E2 Es.
    + reflexivity.
    + inversion E1; subst. apply R in E2. destruct E2 as (_ & _ & Lt & _). lia.
    + inversion E2; subst. apply R in E1. destruct E1 as (_ & _ & Lt & _). lia.
    + eapply S; eassumption.
  - apply ix_add_nodup. exact BN.
  - intros h j. rewrite ix_add_in, B. split.
    + intros [E|(u & E1 & E2 & E3)].
      * apply ent_eq_inv in E. destruct E as [-> ->]. exists w. rewrite lookup_set_same. auto.
      * exists u. rewrite lookup_set. destruct (id_eqb_spec j i) as [->|N]; [congruence|]. auto.
    + intros (u & E1 & E2 & E3). rewrite lookup_set in E1. destruct (id_eqb_spec j i) as [->|N].
      * inversion E1; subst. left. reflexivity.
      * right. exists u. auto.
  - exact LN.
  - intros h j. rewrite L. split; intros (u & E1 & E2 & E3).
    + exists u. rewrite lookup_set. destruct (id_eqb_spec j i) as [->|N]; [congruence|]. auto.
    + rewrite lookup_set in E1. destruct (id_eqb_spec j i) as [->|N].
      * inversion E1; subst. congruence.
      * exists u. auto.
  - exact GN.
  - intros q Hq. apply GL in Hq. lia.
  - intros j u. rewrite lookup_set. destruct (id_eqb_spec j i) as [->|N].
    + intros E; inversion E; subst. split; [congruence|].
      intros Hin. apply in_map_iff in Hin. destruct Hin as (q & Eq & Hq). apply GL in Hq. lia.
    + apply GD.
Qed.

Lemma T_close e sw bb lt n lg i w h k to (drop : bool) :
  InvT e sw bb lt n lg -> lookup i sw = Some w ->
  (drop = true /\ sw_status w = Open) \/ (drop = false /\ sw_status w = Expired) ->
  InvT e (set_swap i (with_status w Completed h) sw)
         (if drop then ix_del (sw_expire w, i) bb else bb)
         (ix_add (h + LONGTERM, i) lt) n
         (mkPay (sw_serial w) k (sw_denom w) (sw_amt w) to :: lg).
Proof.
  intros [K R S BN B LN L GN GL GD] Hw Hst.
  assert (Hnc : sw_status w <> Completed) by (destruct Hst as [[_ E]|[_ E]]; rewrite E; discriminate).
  constructor.
  - apply keys_set_nodup. exact K.
  - intros j u. rewrite lookup_set. destruct (id_eqb_spec j i) as [->|N].
    + intros E; inversion E; subst. apply rec_ok_with_status. apply R. exact Hw.
    + apply R.
  - intros j1 j2 u1 u2. rewrite !lookup_set.
    destruct (id_eqb_spec j1 i) as [->|N1], (id_eqb_spec j2 i) as [->|N2]; intros E1 E2 Es.
    + reflexivity.
    + inversion E1; subst. cbn [with_status sw_serial] in Es. eapply S; eassumption.
    + inversion E2; subst. cbn [with_status sw_serial] in Es. eapply S; eassumption.
    + eapply S; eassumption.
  - destruct drop; [apply ix_del_nodup|]; exact BN.
  - intros h' j.
    assert (Hold : In (h', j) bb <-> (exists u, lookup j (set_swap i (with_status w Completed h) sw) = Some u /\ sw_status u = Open /\ sw_expire u = h') \/ (j = i /\ sw_status w = Open /\ sw_expire w = h')).
    { rewrite B. split.
      - intros (u & E1 & E2 & E3). destruct (id_eqb_spec j i) as [->|N].
        + right. rewrite Hw in E1. inversion E1; subst. auto.
        + left. exists u. rewrite lookup_set_other by congruence. auto.
      - intros [(u & E1 & E2 & E3)|(-> & E2 & E3)].
        + rewrite lookup_set in E1. destruct (id_eqb_spec j i) as [->|N].
          * inversion E1; subst. cbn in E2. discriminate.
          * exists u. auto.
        + exists w. auto. }
    destruct Hst as [[-> Ho]|[-> He]].
    + rewrite ix_del_in, Hold. split.
      * intros [Hne [H|(-> & _ & E3)]]; [exact H|]. subst. congruence.
      * intros H. split; [|left; exact H]. destruct H as (u & E1 & E2 & E3).
        intros E. apply ent_eq_inv in E. destruct E as [_ ->]. rewrite lookup_set_same in E1.
        inversion E1; subst. cbn in E2. discriminate.
    + rewrite Hold. split; [|intros H; left; exact H].
      intros [H|(-> & E2 & _)]; [exact H|congruence].
  - apply ix_add_nodup. exact LN.
  - intros h' j. rewrite ix_add_in, L. split.
    + intros [E|(u & E1 & E2 & E3)].
      * apply ent_eq_inv in E. destruct E as [-> ->]. eexists. rewrite lookup_set_same. split; [reflexivity|]. cbn. auto.
      * destruct (id_eqb_spec j i) as [->|N]; [congruence|]. exists u. rewrite lookup_set_other by congruence. auto.
    + intros (u & E1 & E2 & E3). rewrite lookup_set in E1. destruct (id_eqb_spec j i) as [->|N].
      * injection E1 as <-. cbn in E3. left. rewrite <- E3. reflexivity.
      * right. exists u. auto.
  - cbn [map p_serial]. constructor; [|exact GN]. intros Hin. apply (GD i w Hw) in Hin. contradiction.
  - intros q [<-|Hq]; [|apply GL; exact Hq]. cbn [p_serial]. apply R in Hw. destruct Hw as (_ & _ & Lt & _). exact Lt.
  - intros j u. rewrite lookup_set. cbn [map p_serial In]. destruct (id_eqb_spec j i) as [->|N].
    + intros E; inversion E; subst. cbn. split; auto.
    + intros E. rewrite (GD j u E). split; [auto|]. intros [Es|H]; [|exact H].
      exfalso. apply N. symmetry. eapply S; eassumption.
Qed.

Lemma T_expire e sw bb lt n lg i w :
  InvT e sw bb lt n lg -> lookup i sw = Some w -> sw_status w = Open ->
  InvT e (set_swap i (with_status w Expired (sw_closed w)) sw) (ix_del (sw_expire w, i) bb) lt n lg.
Proof.
  intros [K R S BN B LN L GN GL GD] Hw Ho.
  constructor.
  - apply keys_set_nodup. exact K.
  - intros j u. rewrite lookup_set. destruct (id_eqb_spec j i) as [->|N].
    + intros E; inversion E; subst. apply rec_ok_with_status. apply R. exact Hw.
    + apply R.
  - intros j1 j2 u1 u2. rewrite !lookup_set.
    destruct (id_eqb_spec j1 i) as [->|N1], (id_eqb_spec j2 i) as [->|N2]; intros E1 E2 Es.
    + reflexivity.
    + inversion E1; subst. cbn [with_status sw_serial] in Es. eapply S; eassumption.
    + inversion E2; subst. cbn [with_status sw_serial] in Es. eapply S; eassumption.
    + eapply S; eassumption.
  - apply ix_del_nodup. exact BN.
  - intros h' j. rewrite ix_del_in, B. split.
    + intros [Hne (u & E1 & E2 & E3)]. destruct (id_eqb_spec j i) as [->|N].
      * exfalso. apply Hne. rewrite Hw in E1. inversion E1; subst. reflexivity.
      * exists u. rewrite lookup_set_other by congruence. auto.
    + intros (u & E1 & E2 & E3). rewrite lookup_set in E1. destruct (id_eqb_spec j i) as [->|N].
      * inversion E1; subst. cbn in E2. discriminate.
      * split; [intros E; apply ent_eq_inv in E; tauto|]. exists u. auto.
  - exact LN.
  - intros h' j. rewrite L. split; intros (u & E1 & E2 & E3).
    + destruct (id_eqb_spec j i) as [->|N]; [congruence|]. exists u. rewrite lookup_set_other by congruence. auto.
    + rewrite lookup_set in E1. destruct (id_eqb_spec j i) as [->|N].
      * inversion E1; subst. cbn in E2. discriminate.
      * exists u. auto.
  - exact GN.
  - exact GL.
  - intros j u. rewrite lookup_set. destruct (id_eqb_spec j i) as [->|N].
    + intros E; inversion E; subst. cbn [with_status sw_status sw_serial].
      rewrite <- (GD i w Hw). rewrite Ho. split; discriminate.
    + apply GD.
Qed.

Lemma T_delete e sw bb lt n lg i w :
  InvT e sw bb lt n lg -> lookup i sw = Some w -> sw_status w = Completed ->
  InvT e (del_swap i sw) bb (ix_del (sw_closed w + LONGTERM, i) lt) n lg.
Proof.
  intros [K R S BN B LN L GN GL GD] Hw Hc.
  assert (Hl : forall j u, lookup j (del_swap i sw) = Some u -> j <> i /\ lookup j sw = Some u).
  { intros j u. rewrite lookup_del by exact K. destruct (id_eqb_spec j i); [discriminate|auto]. }
  constructor.
  - apply keys_del_nodup. exact K.
  - intros j u E. apply Hl in E. apply (R j). tauto.
  - intros j1 j2 u1 u2 E1 E2. apply Hl in E1. apply Hl in E2. eapply S; tauto.
  - exact BN.
  - intros h' j. rewrite B. split; intros (u & E1 & E2 & E3).
    + destruct (id_eqb_spec j i) as [->|N]; [congruence|]. exists u. rewrite lookup_del_other by congruence. auto.
    + apply Hl in E1. exists u. tauto.
  - apply ix_del_nodup. exact LN.
  - intros h' j. rewrite ix_del_in, L. split.
    + intros [Hne (u & E1 & E2 & E3)]. destruct (id_eqb_spec j i) as [->|N].
      * exfalso. apply Hne. rewrite Hw in E1. inversion E1; subst. reflexivity.
      * exists u. rewrite lookup_del_other by congruence. auto.
    + intros (u & E1 & E2 & E3). apply Hl in E1. destruct E1 as [N E1].
      split; [intros E; apply ent_eq_inv in E; tauto|]. exists u. auto.
  - exact GN.
  - exact GL.
  - intros j u E. apply Hl in E. apply (GD j). tauto.
Qed.

(** * Shapes of successful operations *)

Ltac sproj := cbn [s_height s_time s_prev s_swaps s_byblock s_longterm s_sup s_bal s_bsup g_next g_log
                   set_sup set_bal set_bsup set_tables set_ghost set_clock set_prev] in *.

Definition send_bal (f : nat -> nat -> Z) (from to d : nat) (x : Z) : nat -> nat -> Z :=
  upd2 (upd2 f from d (f from d - x)) to d (upd2 f from d (f from d - x) to d + x).

Lemma send_bal_at f from to d x a d' :
  send_bal f from to d x a d' =
  f a d' - (if Nat.eqb a from && Nat.eqb d' d then x else 0) + (if Nat.eqb a to && Nat.eqb d' d then x else 0).
Proof.
  unfold send_bal, upd2.
  repeat match goal with
  | |- context [Nat.eqb ?p ?q] => destruct (Nat.eqb_spec p q); subst
  end; cbn [andb]; try lia; try congruence.
Qed.

Lemma bank_send_shape s f t d x s1 : bank_send s f t d x = Some s1 ->
  0 < x <= s_bal s f d /\
  s1 = mkState (s_height s) (s_time s) (s_prev s) (s_swaps s) (s_byblock s) (s_longterm s)
               (s_sup s) (send_bal (s_bal s) f t d x) (s_bsup s) (g_next s) (g_log s).
Proof.
  unfold bank_send. destruct (Z.ltb_spec 0 x); cbn [andb]; [|discriminate].
  destruct (Z.leb_spec x (s_bal s f d)); [|discriminate].
  intros E; inversion E; subst. split; [lia|]. reflexivity.
Qed.

Definition new_swap (s : state) (h : nat) (ts span : Z) (sender recip soc d : nat) (x : Z)
                    (cross : bool) (dir : direction) : swap :=
  mkSwap d x h ((s_height s + span) mod U64) ts sender recip soc 0 Open cross dir (g_next s).

Lemma create_shape e s h ts span sender recip soc coins cross s' :
  create e s h ts span sender recip soc coins cross = Ok s' tt ->
  exists d x a dir sp bal',
    coins = [(d, x)] /\ lookup (h, sender, soc) (s_swaps s) = None /\ e_macc e recip = false /\
    find_asset d (e_assets e) = Some a /\ a_active a = true /\ a_min a <= x <= a_max a /\
    ((s_time s - 900 * SEC) / SEC <= ts < (s_time s + 1800 * SEC) / SEC) /\
    ((dir = Incoming /\ sender = a_deputy a /\ recip <> a_deputy a /\
      inc_incoming a (s_sup s d) x = Some sp /\ bal' = s_bal s) \/
     (dir = Outgoing /\ sender <> a_deputy a /\ recip = a_deputy a /\
      a_minlock a <= span <= a_maxlock a /\ a_fee a + a_min a < x /\
      inc_outgoing (s_sup s d) x = Some sp /\ 0 < x <= s_bal s sender d /\
      bal' = send_bal (s_bal s) sender (e_mod e) d x)) /\
    s' = mkState (s_height s) (s_time s) (s_prev s)
           (set_swap (h, sender, soc) (new_swap s h ts span sender recip soc d x cross dir) (s_swaps s))
           (ix_add ((s_height s + span) mod U64, (h, sender, soc)) (s_byblock s)) (s_longterm s)
           (upd (s_sup s) d sp) bal' (s_bsup s) (S (g_next s)) (g_log s).
Proof.
  unfold create.
  destruct (lookup (h, sender, soc) (s_swaps s)) eqn:El; [discriminate|].
  destruct (e_macc e recip) eqn:Em; [discriminate|].
  destruct coins as [|[d x] [|c2 r]]; try discriminate.
  destruct (find_asset d (e_assets e)) as [a|] eqn:Ea; [|discriminate].
  destruct (a_active a) eqn:Eact; cbn [negb]; [|discriminate].
  destruct (Z.ltb_spec x (a_min a)); cbn [orb]; [discriminate|].
  destruct (Z.ltb_spec (a_max a) x); cbn [orb]; [discriminate|].
  destruct (Z.ltb_spec ts ((s_time s - 900 * SEC) / SEC)); cbn [orb]; [discriminate|].
  destruct (Z.leb_spec ((s_time s + 1800 * SEC) / SEC) ts); cbn [orb]; [discriminate|].
  destruct (Z.ltb_spec (U64 - 1 - s_height s) span) as [Hwrap|Hwrap]; [discriminate|].
  destruct (Nat.eqb_spec sender (a_deputy a)) as [Es|Es];
  destruct (Nat.eqb_spec recip (a_deputy a)) as [Er|Er]; try discriminate.
  - (* incoming *)
    destruct (inc_incoming a (s_sup s d) x) as [sp|] eqn:Ei; [|discriminate].
    intros E; inversion E; subst s'; clear E. sproj.
    exists d, x, a, Incoming, sp, (s_bal s). repeat split; try assumption; try lia.
    left. repeat split; assumption.
  - (* outgoing *)
    destruct (Z.ltb_spec span (a_minlock a)); cbn [orb]; [discriminate|].
    destruct (Z.ltb_spec (a_maxlock a) span); cbn [orb]; [discriminate|].
    destruct (Z.leb_spec x (a_fee a + a_min a)); [discriminate|].
    destruct (inc_outgoing (s_sup s d) x) as [sp|] eqn:Eo; [|discriminate].
    destruct (bank_send (set_sup s d sp) sender (e_mod e) d x) as [s1|] eqn:Eb; [|discriminate].
    apply bank_send_shape in Eb. destruct Eb as [Hx ->]. sproj.
    intros E; inversion E; subst s'; clear E. sproj.
    exists d, x, a, Outgoing, sp, (send_bal (s_bal s) sender (e_mod e) d x).
    repeat split; try assumption; try lia.
    right. repeat split; try assumption; try lia.
Qed.

(* the expiry height never wraps around uint64: a create whose height span would overflow
   is refused (fix of keeper/swap.go), so the stored expiry is the plain sum and lies
   strictly after the creation height whenever the span is positive *)
Lemma create_expiry_no_wrap e s h ts span sender recip soc coins cross s' :
  create e s h ts span sender recip soc coins cross = Ok s' tt ->
  s_height s + span <= U64 - 1.
Proof.
  unfold create.
  destruct (lookup (h, sender, soc) (s_swaps s)); [discriminate|].
  destruct (e_macc e recip); [discriminate|].
  destruct coins as [|[d x] [|c2 r]]; try discriminate.
  destruct (find_asset d (e_assets e)) as [a|]; [|discriminate].
  destruct (negb (a_active a)); [discriminate|].
  destruct ((x <? a_min a) || (a_max a <? x)); [discriminate|].
  destruct ((ts <? (s_time s - 900 * SEC) / SEC) || ((s_time s + 1800 * SEC) / SEC <=? ts)); [discriminate|].
  destruct (Z.ltb_spec (U64 - 1 - s_height s) span) as [Hw|Hw]; [discriminate|].
  intros _. lia.
Qed.

Lemma create_wrapping_span_refused e s h ts span sender recip soc coins cross :
  U64 - 1 < s_height s + span ->
  create e s h ts span sender recip soc coins cross = Err.
Proof.
  intros Hw.
  destruct (create e s h ts span sender recip soc coins cross) as [s' []| |] eqn:E; [|reflexivity|].
  - apply create_expiry_no_wrap in E. lia.
  - exfalso. revert E. unfold create.
    destruct (lookup (h, sender, soc) (s_swaps s)); [discriminate|].
    destruct (e_macc e recip); [discriminate|].
    destruct coins as [|[d x] [|c2 r]]; try discriminate.
    destruct (find_asset d (e_assets e)) as [a|]; [|discriminate].
    destruct (negb (a_active a)); [discriminate|].
    destruct ((x <? a_min a) || (a_max a <? x)); [discriminate|].
    destruct ((ts <? (s_time s - 900 * SEC) / SEC) || ((s_time s + 1800 * SEC) / SEC <=? ts)); [discriminate|].
    destruct (U64 - 1 - s_height s <? span); [discriminate|].
    repeat match goal with |- context [match ?x with _ => _ end] => destruct x end; discriminate.
Qed.


(* the state after closing swap [i] (record [w]) from a state whose tables are those of [s] *)
Definition closed_state (s : state) (i : id) (w : swap) (k : paykind) (to : nat) (drop : bool)
                        (sup' : nat -> supply) (bal' : nat -> nat -> Z) (bsup' : nat -> Z) : state :=
  mkState (s_height s) (s_time s) (s_prev s)
          (set_swap i (with_status w Completed (s_height s)) (s_swaps s))
          (if drop then ix_del (sw_expire w, i) (s_byblock s) else s_byblock s)
          (ix_add (s_height s + LONGTERM, i) (s_longterm s))
          sup' bal' bsup' (g_next s)
          (mkPay (sw_serial w) k (sw_denom w) (sw_amt w) to :: g_log s).

Lemma claim_shape e s from i secret s' :
  claim e s from i secret = Ok s' tt ->
  exists w, lookup i (s_swaps s) = Some w /\ sw_status w = Open /\
    e_hash e secret (sw_ts w) = sw_hash w /\
    let d := sw_denom w in let x := sw_amt w in
    ((sw_dir w = Incoming /\ exists sp1 a sp2,
        dec_incoming (s_sup s d) x = Some sp1 /\ find_asset d (e_assets e) = Some a /\
        inc_current a sp1 x = Some sp2 /\ e_blocked e (sw_recip w) = false /\ 0 < x /\
        s' = closed_state s i w ClaimIn (sw_recip w) true (upd (s_sup s) d sp2)
               (send_bal (upd2 (s_bal s) (e_mod e) d (s_bal s (e_mod e) d + x)) (e_mod e) (sw_recip w) d x)
               (upd (s_bsup s) d (s_bsup s d + x))) \/
     (sw_dir w = Outgoing /\ exists sp1 sp2,
        dec_outgoing (s_sup s d) x = Some sp1 /\ dec_current sp1 x = Some sp2 /\
        0 < x <= s_bal s (e_mod e) d /\
        s' = closed_state s i w ClaimOut (e_mod e) true (upd (s_sup s) d sp2)
               (upd2 (s_bal s) (e_mod e) d (s_bal s (e_mod e) d - x))
               (upd (s_bsup s) d (s_bsup s d - x)))).
Proof.
  unfold claim.
  destruct (lookup i (s_swaps s)) as [w|] eqn:El; [|discriminate].
  destruct (status_eqb_spec (sw_status w) Open) as [Eo|Eo]; cbn [negb]; [|discriminate].
  destruct (id_eqb_spec (e_hash e secret (sw_ts w), sw_sender w, sw_soc w) (sw_id w)) as [Eh|Eh]; cbn [negb]; [|discriminate].
  unfold sw_id in Eh. inversion Eh as [Eh'].
  intros H. exists w. split; [reflexivity|]. split; [exact Eo|]. split; [exact Eh'|]. cbv zeta.
  destruct (sw_dir w) eqn:Ed.
  - left. split; [reflexivity|].
    destruct (dec_incoming (s_sup s (sw_denom w)) (sw_amt w)) as [sp1|] eqn:E1; [|discriminate].
    destruct (find_asset (sw_denom w) (e_assets e)) as [a|] eqn:Ea; [|discriminate].
    destruct (inc_current a sp1 (sw_amt w)) as [sp2|] eqn:E2; [|discriminate].
    unfold bank_m2a in H. destruct (e_blocked e (sw_recip w)) eqn:Eb; [discriminate|].
    match type of H with context [bank_send ?S ?F ?T ?D ?X] => destruct (bank_send S F T D X) as [s2|] eqn:Es; [|discriminate] end.
    apply bank_send_shape in Es. destruct Es as [Hx ->]. unfold bank_mint in *. sproj.
    inversion H; subst s'; clear H.
    exists sp1, a, sp2. repeat split; try assumption; try lia.
  - right. split; [reflexivity|].
    destruct (dec_outgoing (s_sup s (sw_denom w)) (sw_amt w)) as [sp1|] eqn:E1; [|discriminate].
    destruct (dec_current sp1 (sw_amt w)) as [sp2|] eqn:E2; [|discriminate].
    unfold bank_burn in H. sproj.
    destruct (Z.ltb_spec 0 (sw_amt w)); cbn [andb] in H; [|discriminate].
    destruct (Z.leb_spec (sw_amt w) (s_bal s (e_mod e) (sw_denom w))); [|discriminate].
    inversion H; subst s'; clear H.
    exists sp1, sp2. repeat split; try assumption; try lia.
Qed.

Lemma refund_shape e s from i s' :
  refund e s from i = Ok s' tt ->
  exists w, lookup i (s_swaps s) = Some w /\ sw_status w = Expired /\
    let d := sw_denom w in let x := sw_amt w in
    ((sw_dir w = Incoming /\ exists sp1,
        dec_incoming (s_sup s d) x = Some sp1 /\
        s' = closed_state s i w RefundIn (e_mod e) false (upd (s_sup s) d sp1) (s_bal s) (s_bsup s)) \/
     (sw_dir w = Outgoing /\ exists sp1,
        dec_outgoing (s_sup s d) x = Some sp1 /\ e_blocked e (sw_sender w) = false /\
        0 < x <= s_bal s (e_mod e) d /\
        s' = closed_state s i w RefundOut (sw_sender w) false (upd (s_sup s) d sp1)
               (send_bal (s_bal s) (e_mod e) (sw_sender w) d x) (s_bsup s))).
Proof.
  unfold refund.
  destruct (lookup i (s_swaps s)) as [w|] eqn:El; [|discriminate].
  destruct (status_eqb_spec (sw_status w) Expired) as [Eo|Eo]; cbn [negb]; [|discriminate].
  intros H. exists w. split; [reflexivity|]. split; [exact Eo|]. cbv zeta.
  destruct (sw_dir w) eqn:Ed.
  - left. split; [reflexivity|].
    destruct (dec_incoming (s_sup s (sw_denom w)) (sw_amt w)) as [sp1|] eqn:E1; [|discriminate].
    inversion H; subst s'; clear H. exists sp1. split; [reflexivity|]. reflexivity.
  - right. split; [reflexivity|].
    destruct (dec_outgoing (s_sup s (sw_denom w)) (sw_amt w)) as [sp1|] eqn:E1; [|discriminate].
    unfold bank_m2a in H. destruct (e_blocked e (sw_sender w)) eqn:Eb; [discriminate|].
    match type of H with context [bank_send ?S ?F ?T ?D ?X] => destruct (bank_send S F T D X) as [s2|] eqn:Es; [|discriminate] end.
    apply bank_send_shape in Es. destruct Es as [Hx ->]. sproj.
    inversion H; subst s'; clear H.
    exists sp1. repeat split; try assumption; try lia.
Qed.

(** * Counters *)

Lemma wt_completed d dir w h : wt d dir (with_status w Completed h) = 0.
Proof. unfold wt, live. cbn. rewrite Bool.andb_false_r. reflexivity. Qed.

Lemma wt_done d dir w : sw_status w = Completed -> wt d dir w = 0.
Proof. intros E. unfold wt, live. rewrite E. cbn. rewrite Bool.andb_false_r. reflexivity. Qed.

Lemma wt_val d dir w : sw_status w <> Completed ->
  wt d dir w = if Nat.eqb (sw_denom w) d && dir_eqb (sw_dir w) dir then sw_amt w else 0.
Proof.
  intros N. unfold wt, live. destruct (status_eqb_spec (sw_status w) Completed); [contradiction|].
  cbn [negb]. rewrite Bool.andb_true_r. reflexivity.
Qed.

Lemma wt_expired d dir w c : sw_status w = Open -> wt d dir (with_status w Expired c) = wt d dir w.
Proof. intros E. unfold wt, live. rewrite E. cbn. reflexivity. Qed.

Lemma wt_nonneg d dir w : 0 < sw_amt w -> 0 <= wt d dir w.
Proof. intros H. unfold wt. destruct (_ && _); lia. Qed.

Lemma lsum_cons k d q l :
  lsum k d (q :: l) = (if paykind_eqb (p_kind q) k && Nat.eqb (p_denom q) d then p_amt q else 0) + lsum k d l.
Proof. reflexivity. Qed.

Lemma inc_incoming_some a sp x sp' : inc_incoming a sp x = Some sp' ->
  sp' = mkSup (sp_inc sp + x) (sp_out sp) (sp_cur sp) (sp_tl sp) (sp_elapsed sp) /\
  sp_cur sp + sp_inc sp + x <= a_limit a /\
  (a_tlimited a = true -> sp_tl sp + sp_inc sp + x <= a_tlimit a).
Proof.
  unfold inc_incoming. destruct (Z.ltb_spec (a_limit a) (sp_cur sp + sp_inc sp + x)); [discriminate|].
  destruct (a_tlimited a); cbn [andb].
  - destruct (Z.ltb_spec (a_tlimit a) (sp_tl sp + sp_inc sp + x)); [discriminate|].
    intros E; inversion E. split; [reflexivity|]. split; [lia|intros _; lia].
  - intros E; inversion E. split; [reflexivity|]. split; [lia|discriminate].
Qed.

Lemma dec_incoming_some sp x sp' : dec_incoming sp x = Some sp' ->
  sp' = mkSup (sp_inc sp - x) (sp_out sp) (sp_cur sp) (sp_tl sp) (sp_elapsed sp) /\ x <= sp_inc sp.
Proof.
  unfold dec_incoming. destruct (Z.ltb_spec (sp_inc sp - x) 0); [discriminate|].
  intros E; inversion E. split; [reflexivity|lia].
Qed.

Lemma inc_outgoing_some sp x sp' : inc_outgoing sp x = Some sp' ->
  sp' = mkSup (sp_inc sp) (sp_out sp + x) (sp_cur sp) (sp_tl sp) (sp_elapsed sp) /\ sp_out sp + x <= sp_cur sp.
Proof.
  unfold inc_outgoing. destruct (Z.ltb_spec (sp_cur sp) (sp_out sp + x)); [discriminate|].
  intros E; inversion E. split; [reflexivity|lia].
Qed.

Lemma dec_outgoing_some sp x sp' : dec_outgoing sp x = Some sp' ->
  sp' = mkSup (sp_inc sp) (sp_out sp - x) (sp_cur sp) (sp_tl sp) (sp_elapsed sp) /\ x <= sp_out sp.
Proof.
  unfold dec_outgoing. destruct (Z.ltb_spec (sp_out sp - x) 0); [discriminate|].
  intros E; inversion E. split; [reflexivity|lia].
Qed.

Lemma inc_current_some a sp x sp' : inc_current a sp x = Some sp' ->
  sp' = mkSup (sp_inc sp) (sp_out sp) (sp_cur sp + x) (if a_tlimited a then sp_tl sp + x else sp_tl sp) (sp_elapsed sp) /\
  sp_cur sp + x <= a_limit a /\ (a_tlimited a = true -> sp_tl sp + x <= a_tlimit a).
Proof.
  unfold inc_current. destruct (Z.ltb_spec (a_limit a) (sp_cur sp + x)); [discriminate|].
  destruct (a_tlimited a).
  - destruct (Z.ltb_spec (a_tlimit a) (sp_tl sp + x)); [discriminate|].
    intros E; inversion E. split; [reflexivity|]. split; [lia|intros _; lia].
  - intros E; inversion E. split; [reflexivity|]. split; [lia|discriminate].
Qed.

Lemma dec_current_some sp x sp' : dec_current sp x = Some sp' ->
  sp' = mkSup (sp_inc sp) (sp_out sp) (sp_cur sp - x) (sp_tl sp) (sp_elapsed sp) /\ x <= sp_cur sp.
Proof.
  unfold dec_current. destruct (Z.ltb_spec (sp_cur sp - x) 0); [discriminate|].
  intros E; inversion E. split; [reflexivity|lia].
Qed.

Lemma upd_at {A} (f : nat -> A) d v d' : upd f d v d' = if Nat.eqb d' d then v else f d'.
Proof. reflexivity. Qed.

Lemma upd2_at {A} (f : nat -> nat -> A) a d v a' d' :
  upd2 f a d v a' d' = if Nat.eqb a' a && Nat.eqb d' d then v else f a' d'.
Proof. reflexivity. Qed.

(** * Every operation preserves the invariant *)

Lemma create_inv e s h ts span sender recip soc coins cross s' :
  env_wf e -> sender <> e_mod e -> Inv e s ->
  create e s h ts span sender recip soc coins cross = Ok s' tt -> Inv e s'.
Proof.
  intros [Wm Wa] Hs [IT IC] H.
  apply create_shape in H.
  destruct H as (d & x & a & dir & sp & bal' & -> & Hl & Hm & Ha & Hact & Hx & Hts & Hd & ->).
  set (i := (h, sender, soc)) in *.
  set (w := new_swap s h ts span sender recip soc d x cross dir) in *.
  assert (Hmin : 1 <= a_min a) by (eapply Wa; exact Ha).
  assert (Hrm : recip <> e_mod e) by (intros ->; congruence).
  split.
  - sproj. change ((s_height s + span) mod U64) with (sw_expire w).
    apply T_insert; try assumption; try reflexivity.
    unfold rec_ok, w, new_swap, sw_id; cbn. repeat split; try lia; try assumption; try (intros _; exact Hs).
    exists a. split; [exact Ha|].
      destruct Hd as [(-> & E1 & E2 & _)|(-> & E1 & E2 & _)]; split; intros E; try discriminate; auto.
  - intros d0. specialize (IC d0). unfold cnt_ok in *. sproj.
    destruct IC as (C1 & C2 & C3 & C4 & C5 & C6 & C7 & C8).
    rewrite !(ssum_set_new _ i w _ Hl).
    assert (Hwo : sw_status w <> Completed) by (unfold w, new_swap; cbn; discriminate).
    rewrite !(wt_val _ _ w Hwo). unfold w at 1 2 3 4 5 6, new_swap; cbn [sw_denom sw_dir sw_amt].
    rewrite upd_at.
    destruct (Nat.eqb_spec d d0) as [<-|Nd].
    + rewrite Nat.eqb_refl.
      destruct Hd as [(-> & E1 & E2 & Ei & ->)|(-> & E1 & E2 & Hsp & Hfee & Eo & Hb & ->)]; cbn [dir_eqb andb].
      * apply inc_incoming_some in Ei. destruct Ei as (-> & L1 & L2). cbn [sp_inc sp_out sp_cur sp_tl].
        repeat (split; [lia|]).
        intros a0 Ha0. rewrite Ha in Ha0. injection Ha0 as <-. split; [lia|]. intros Et. apply L2 in Et. lia.
      * apply inc_outgoing_some in Eo. destruct Eo as (-> & L1). cbn [sp_inc sp_out sp_cur sp_tl].
        rewrite send_bal_at. rewrite !Nat.eqb_refl.
        destruct (Nat.eqb_spec (e_mod e) sender); [congruence|]. cbn [andb].
        repeat (split; [lia|]). exact C8.
    + destruct (Nat.eqb_spec d0 d); [congruence|]. cbn [andb].
      assert (Eb : bal' (e_mod e) d0 = s_bal s (e_mod e) d0).
      { destruct Hd as [(_ & _ & _ & _ & ->)|(_ & _ & _ & _ & _ & _ & _ & ->)]; [reflexivity|].
        rewrite send_bal_at. destruct (Nat.eqb_spec d0 d); [congruence|]. rewrite !Bool.andb_false_r. lia. }
      rewrite Eb. repeat (split; [lia|]). exact C8.
Qed.

Lemma close_sums sw i w h d0 dir :
  lookup i sw = Some w -> sw_status w <> Completed ->
  ssum (wt d0 dir) (set_swap i (with_status w Completed h) sw) =
  ssum (wt d0 dir) sw - (if Nat.eqb (sw_denom w) d0 && dir_eqb (sw_dir w) dir then sw_amt w else 0).
Proof.
  intros Hl Hn. rewrite (ssum_set_upd _ _ _ _ _ Hl), wt_completed, (wt_val _ _ _ Hn). lia.
Qed.

Lemma closed_InvT e s i w k to drop sup' bal' bsup' :
  InvT e (s_swaps s) (s_byblock s) (s_longterm s) (g_next s) (g_log s) ->
  lookup i (s_swaps s) = Some w ->
  (drop = true /\ sw_status w = Open) \/ (drop = false /\ sw_status w = Expired) ->
  let s' := closed_state s i w k to drop sup' bal' bsup' in
  InvT e (s_swaps s') (s_byblock s') (s_longterm s') (g_next s') (g_log s').
Proof. intros IT Hl Hd. unfold closed_state. sproj. apply T_close; assumption. Qed.

Ltac simp_eqb :=
  rewrite ?Nat.eqb_refl; cbn [andb dir_eqb paykind_eqb sp_inc sp_out sp_cur sp_tl sp_elapsed];
  rewrite ?Bool.andb_false_r, ?Bool.andb_true_r; cbn [andb].

Ltac cnt_start IC d0 Hl Hn :=
  intros d0; specialize (IC d0); unfold cnt_ok, closed_state in *; sproj;
  destruct IC as (C1 & C2 & C3 & C4 & C5 & C6 & C7 & C8);
  rewrite !(close_sums _ _ _ _ _ _ Hl Hn), !lsum_cons; cbn [p_kind p_denom p_amt paykind_eqb andb];
  rewrite ?upd_at.

Lemma claim_inv e s from i secret s' :
  env_wf e -> Inv e s -> claim e s from i secret = Ok s' tt -> Inv e s'.
Proof.
  intros We [IT IC] H. apply claim_shape in H.
  destruct H as (w & Hl & Ho & Hh & H). cbv zeta in H.
  assert (Hn : sw_status w <> Completed) by (rewrite Ho; discriminate).
  pose proof (t_rec _ _ _ _ _ _ IT i w Hl) as (_ & Hx & _ & Hrm & Hsm & _).
  destruct H as [(Ed & sp1 & a & sp2 & E1 & Ea & E2 & Eb & _ & ->)|(Ed & sp1 & sp2 & E1 & E2 & Hb & ->)].
  - split; [apply closed_InvT; auto|].
    cnt_start IC d0 Hl Hn. rewrite Ed. cbn [dir_eqb].
    apply dec_incoming_some in E1. destruct E1 as (-> & L1).
    apply inc_current_some in E2. destruct E2 as (-> & L2 & L3). cbn [sp_inc sp_out sp_cur sp_tl] in *.
    rewrite send_bal_at, upd2_at. simp_eqb.
    destruct (Nat.eqb_spec (e_mod e) (sw_recip w)); [congruence|]. simp_eqb.
    destruct (Nat.eqb_spec (sw_denom w) d0) as [<-|Nd].
    + simp_eqb.
      repeat (split; [destruct (a_tlimited a); lia|]).
      intros a0 Ha0. rewrite Ea in Ha0. injection Ha0 as <-.
      specialize (C8 a Ea). destruct (a_tlimited a); split; try lia; intros; try discriminate; lia.
    + destruct (Nat.eqb_spec d0 (sw_denom w)); [congruence|]. simp_eqb.
      repeat (split; [lia|]). exact C8.
  - split; [apply closed_InvT; auto|].
    cnt_start IC d0 Hl Hn. rewrite Ed. cbn [dir_eqb].
    apply dec_outgoing_some in E1. destruct E1 as (-> & L1).
    apply dec_current_some in E2. destruct E2 as (-> & L2). cbn [sp_inc sp_out sp_cur sp_tl] in *.
    rewrite upd2_at. simp_eqb.
    destruct (Nat.eqb_spec (sw_denom w) d0) as [<-|Nd].
    + simp_eqb.
      repeat (split; [lia|]).
      intros a0 Ha0. specialize (C8 a0 Ha0). split; [lia|]. intros Et. apply C8 in Et. lia.
    + destruct (Nat.eqb_spec d0 (sw_denom w)); [congruence|]. simp_eqb.
      repeat (split; [lia|]). exact C8.
Qed.

Lemma refund_inv e s from i s' :
  env_wf e -> Inv e s -> refund e s from i = Ok s' tt -> Inv e s'.
Proof.
  intros We [IT IC] H. apply refund_shape in H.
  destruct H as (w & Hl & Ho & H). cbv zeta in H.
  assert (Hn : sw_status w <> Completed) by (rewrite Ho; discriminate).
  pose proof (t_rec _ _ _ _ _ _ IT i w Hl) as (_ & Hx & _ & Hrm & Hsm & _).
  destruct H as [(Ed & sp1 & E1 & ->)|(Ed & sp1 & E1 & Eb & Hb & ->)].
  - split; [apply closed_InvT; auto|].
    cnt_start IC d0 Hl Hn. rewrite Ed. cbn [dir_eqb].
    apply dec_incoming_some in E1. destruct E1 as (-> & L1). cbn [sp_inc sp_out sp_cur sp_tl] in *.
    destruct (Nat.eqb_spec (sw_denom w) d0) as [<-|Nd].
    + simp_eqb.
      repeat (split; [lia|]).
      intros a0 Ha0. specialize (C8 a0 Ha0). split; [lia|]. intros Et. apply C8 in Et. lia.
    + destruct (Nat.eqb_spec d0 (sw_denom w)); [congruence|]. simp_eqb.
      repeat (split; [lia|]). exact C8.
  - split; [apply closed_InvT; auto|].
    cnt_start IC d0 Hl Hn. rewrite Ed. cbn [dir_eqb].
    apply dec_outgoing_some in E1. destruct E1 as (-> & L1). cbn [sp_inc sp_out sp_cur sp_tl] in *.
    rewrite send_bal_at. simp_eqb.
    specialize (Hsm Ed). destruct (Nat.eqb_spec (e_mod e) (sw_sender w)); [congruence|]. simp_eqb.
    destruct (Nat.eqb_spec (sw_denom w) d0) as [<-|Nd].
    + simp_eqb.
      repeat (split; [lia|]).
      intros a0 Ha0. specialize (C8 a0 Ha0). split; [lia|]. intros Et. apply C8 in Et. lia.
    + destruct (Nat.eqb_spec d0 (sw_denom w)); [congruence|]. simp_eqb.
      repeat (split; [lia|]). exact C8.
Qed.

(** ** BeginBlocker *)

(* what one or several ticks of UpdateTimeBasedSupplyLimits may do to a supply record *)
Definition tick_rel (sp sp' : supply) : Prop :=
  sp_inc sp' = sp_inc sp /\ sp_out sp' = sp_out sp /\ sp_cur sp' = sp_cur sp /\
  (sp_tl sp' = sp_tl sp \/ sp_tl sp' = 0).

Lemma tick_rel_refl sp : tick_rel sp sp.
Proof. unfold tick_rel. auto. Qed.

Lemma tick_rel_trans a b c : tick_rel a b -> tick_rel b c -> tick_rel a c.
Proof. unfold tick_rel. intros (A1 & A2 & A3 & A4) (B1 & B2 & B3 & B4). repeat split; try congruence. destruct A4 as [A4|A4], B4 as [B4|B4]; [left; congruence|right; exact B4|right; congruence|right; exact B4]. Qed.

Lemma tick_supply_rel a sp dt : tick_rel sp (tick_supply a sp dt).
Proof. unfold tick_rel, tick_supply. destruct (_ && _); cbn; auto. Qed.

(* states that differ only in clock, previous block time and ticked supplies *)
Definition same_but_sup (s s1 : state) : Prop :=
  s_swaps s1 = s_swaps s /\ s_byblock s1 = s_byblock s /\ s_longterm s1 = s_longterm s /\
  s_bal s1 = s_bal s /\ s_bsup s1 = s_bsup s /\ g_next s1 = g_next s /\ g_log s1 = g_log s /\
  forall d, tick_rel (s_sup s d) (s_sup s1 d).

Lemma tick_fold_same dt l : forall s,
  let s1 := fold_left (fun st a => set_sup st (a_denom a) (tick_supply a (s_sup st (a_denom a)) dt)) l s in
  same_but_sup s s1 /\ s_height s1 = s_height s /\ s_time s1 = s_time s /\ s_prev s1 = s_prev s.
Proof.
  induction l as [|a r IH]; intros s; cbn [fold_left].
  - unfold same_but_sup. repeat split; auto.
  - cbv zeta in IH. specialize (IH (set_sup s (a_denom a) (tick_supply a (s_sup s (a_denom a)) dt))).
    destruct IH as ((A1 & A2 & A3 & A4 & A5 & A6 & A7 & A8) & B1 & B2 & B3). sproj.
    split; [|repeat split; assumption].
    unfold same_but_sup. do 7 (split; [assumption|]).
    intros d. eapply tick_rel_trans; [|apply A8]. rewrite upd_at.
    destruct (Nat.eqb d (a_denom a)) eqn:E; [|apply tick_rel_refl].
    apply Nat.eqb_eq in E. subst d. apply tick_supply_rel.
Qed.

Lemma update_time_limits_same e s : same_but_sup s (update_time_limits e s) /\ s_height (update_time_limits e s) = s_height s.
Proof.
  unfold update_time_limits. destruct (e_assets e) as [|a r] eqn:Ea.
  - split; [|reflexivity]. unfold same_but_sup. repeat split; auto.
  - pose proof (tick_fold_same (s_time s - s_prev s) (a :: r) s) as H. cbv zeta in H.
    destruct H as ((A1 & A2 & A3 & A4 & A5 & A6 & A7 & A8) & B1 & B2 & B3).
    unfold same_but_sup. sproj. split; [|assumption]. do 7 (split; [assumption|]). exact A8.
Qed.

Lemma same_but_sup_inv e s s1 : same_but_sup s s1 -> Inv e s -> Inv e s1.
Proof.
  intros (A1 & A2 & A3 & A4 & A5 & A6 & A7 & A8) [IT IC]. split.
  - rewrite A1, A2, A3, A6, A7. exact IT.
  - intros d. specialize (IC d). specialize (A8 d). unfold cnt_ok in *.
    rewrite A1, A4, A5, A7. destruct A8 as (T1 & T2 & T3 & T4).
    destruct IC as (C1 & C2 & C3 & C4 & C5 & C6 & C7 & C8).
    rewrite T1, T2, T3. repeat (split; [first [assumption|lia]|]).
    intros a Ha. specialize (C8 a Ha). split; [lia|]. intros Et. apply C8 in Et. lia.
Qed.

Lemma set_clock_inv e s h t : Inv e s -> Inv e (set_clock s h t).
Proof. intros [IT IC]. split; sproj; assumption. Qed.

(* what the loops of UpdateExpiredAtomicSwaps / DeleteClosed... leave unchanged *)
Definition same_but_tables (s s1 : state) : Prop :=
  s_height s1 = s_height s /\ s_time s1 = s_time s /\ s_prev s1 = s_prev s /\ s_sup s1 = s_sup s /\
  s_bal s1 = s_bal s /\ s_bsup s1 = s_bsup s /\ g_next s1 = g_next s /\ g_log s1 = g_log s.

Lemma same_but_tables_refl s : same_but_tables s s.
Proof. unfold same_but_tables. repeat split. Qed.

Lemma same_but_tables_trans a b c : same_but_tables a b -> same_but_tables b c -> same_but_tables a c.
Proof. unfold same_but_tables. intros (A1&A2&A3&A4&A5&A6&A7&A8) (B1&B2&B3&B4&B5&B6&B7&B8). repeat split; congruence. Qed.

Lemma expire_one_inv e s h i :
  Inv e s -> In (h, i) (s_byblock s) ->
  exists w, lookup i (s_swaps s) = Some w /\ sw_status w = Open /\ sw_expire w = h /\
    expire_one s (h, i) = set_tables s (set_swap i (with_status w Expired (sw_closed w)) (s_swaps s))
                                     (ix_del (h, i) (s_byblock s)) (s_longterm s) /\
    Inv e (expire_one s (h, i)).
Proof.
  intros [IT IC] Hin. apply (t_bb _ _ _ _ _ _ IT) in Hin. destruct Hin as (w & Hl & Ho & He).
  exists w. split; [exact Hl|]. split; [exact Ho|]. split; [exact He|].
  assert (Eq : expire_one s (h, i) = set_tables s (set_swap i (with_status w Expired (sw_closed w)) (s_swaps s))
                                     (ix_del (h, i) (s_byblock s)) (s_longterm s)).
  { unfold expire_one. cbn [snd]. rewrite Hl, He. reflexivity. }
  split; [exact Eq|]. rewrite Eq. split.
  - sproj. rewrite <- He. apply T_expire; assumption.
  - intros d. specialize (IC d). unfold cnt_ok in *. sproj.
    rewrite !(ssum_set_upd _ _ _ _ _ Hl), !(wt_expired _ _ _ _ Ho).
    replace (ssum (wt d Incoming) (s_swaps s) - wt d Incoming w + wt d Incoming w) with (ssum (wt d Incoming) (s_swaps s)) by lia.
    replace (ssum (wt d Outgoing) (s_swaps s) - wt d Outgoing w + wt d Outgoing w) with (ssum (wt d Outgoing) (s_swaps s)) by lia.
    exact IC.
Qed.

Lemma expire_fold_inv e : forall l s,
  Inv e s -> NoDup l -> (forall x, In x l -> In x (s_byblock s)) ->
  Inv e (fold_left expire_one l s) /\ same_but_tables s (fold_left expire_one l s).
Proof.
  induction l as [|[h i] r IH]; intros s I ND Hall; cbn [fold_left].
  - split; [exact I|apply same_but_tables_refl].
  - inversion ND as [|? ? Hn ND']; subst.
    destruct (expire_one_inv e s h i I (Hall _ (or_introl eq_refl))) as (w & Hl & Ho & He & Eq & I1).
    destruct (IH (expire_one s (h, i)) I1 ND') as [I2 S2].
    + intros x Hx. rewrite Eq. sproj. apply ix_del_in. split; [intros ->; contradiction|].
      apply Hall. right. exact Hx.
    + split; [exact I2|]. eapply same_but_tables_trans; [|exact S2].
      rewrite Eq. unfold same_but_tables. sproj. repeat split.
Qed.

Lemma update_expired_inv e s : Inv e s -> Inv e (update_expired s) /\ same_but_tables s (update_expired s).
Proof.
  intros I. unfold update_expired. apply expire_fold_inv; [exact I| |].
  - apply NoDup_filter. destruct I as [IT _]. exact (t_bb_nodup _ _ _ _ _ _ IT).
  - intros x Hx. apply filter_In in Hx. tauto.
Qed.

Lemma delete_one_inv e s h i :
  Inv e s -> In (h, i) (s_longterm s) ->
  exists w, lookup i (s_swaps s) = Some w /\ sw_status w = Completed /\ sw_closed w + LONGTERM = h /\
    delete_one s (h, i) = set_tables s (del_swap i (s_swaps s)) (s_byblock s) (ix_del (h, i) (s_longterm s)) /\
    Inv e (delete_one s (h, i)).
Proof.
  intros [IT IC] Hin. apply (t_lt _ _ _ _ _ _ IT) in Hin. destruct Hin as (w & Hl & Ho & He).
  exists w. split; [exact Hl|]. split; [exact Ho|]. split; [exact He|].
  assert (Eq : delete_one s (h, i) = set_tables s (del_swap i (s_swaps s)) (s_byblock s) (ix_del (h, i) (s_longterm s))).
  { unfold delete_one. cbn [snd]. rewrite Hl, He. reflexivity. }
  split; [exact Eq|]. rewrite Eq. split.
  - sproj. rewrite <- He. apply T_delete; assumption.
  - intros d. specialize (IC d). unfold cnt_ok in *. sproj.
    rewrite !(ssum_del _ _ _ _ Hl), !(wt_done _ _ _ Ho). rewrite !Z.sub_0_r. exact IC.
Qed.

Lemma delete_fold_inv e : forall l s,
  Inv e s -> NoDup l -> (forall x, In x l -> In x (s_longterm s)) ->
  Inv e (fold_left delete_one l s) /\ same_but_tables s (fold_left delete_one l s).
Proof.
  induction l as [|[h i] r IH]; intros s I ND Hall; cbn [fold_left].
  - split; [exact I|apply same_but_tables_refl].
  - inversion ND as [|? ? Hn ND']; subst.
    destruct (delete_one_inv e s h i I (Hall _ (or_introl eq_refl))) as (w & Hl & Ho & He & Eq & I1).
    destruct (IH (delete_one s (h, i)) I1 ND') as [I2 S2].
    + intros x Hx. rewrite Eq. sproj. apply ix_del_in. split; [intros ->; contradiction|].
      apply Hall. right. exact Hx.
    + split; [exact I2|]. eapply same_but_tables_trans; [|exact S2].
      rewrite Eq. unfold same_but_tables. sproj. repeat split.
Qed.

Lemma delete_closed_inv e s : Inv e s -> Inv e (delete_closed s) /\ same_but_tables s (delete_closed s).
Proof.
  intros I. unfold delete_closed. apply delete_fold_inv; [exact I| |].
  - apply NoDup_filter. destruct I as [IT _]. exact (t_lt_nodup _ _ _ _ _ _ IT).
  - intros x Hx. apply filter_In in Hx. tauto.
Qed.

Lemma begin_block_inv e s h t : Inv e s -> Inv e (begin_block e s h t).
Proof.
  intros I. unfold begin_block.
  apply delete_closed_inv. apply update_expired_inv.
  eapply same_but_sup_inv; [apply update_time_limits_same|]. apply set_clock_inv. exact I.
Qed.

Theorem step_inv e s o s' : env_wf e -> op_ok e o -> Inv e s -> step e s o = Ok s' tt -> Inv e s'.
Proof.
  intros We Ho I H. destruct o as [h ts span sender recip soc coins cross|from i secret|from i|h t]; cbn [step op_ok] in *.
  - eapply create_inv; eassumption.
  - eapply claim_inv; eassumption.
  - eapply refund_inv; eassumption.
  - inversion H; subst. apply begin_block_inv. exact I.
Qed.

Lemma step'_inv e s o : env_wf e -> op_ok e o -> Inv e s -> Inv e (step' e s o).
Proof.
  intros We Ho I. unfold step'. destruct (step e s o) as [s' []| |] eqn:E; try exact I.
  eapply step_inv; eassumption.
Qed.

Theorem run_inv e ops : forall s, env_wf e -> Forall (op_ok e) ops -> Inv e s -> Inv e (run e s ops).
Proof.
  induction ops as [|o r IH]; intros s We Hf I; cbn [run fold_left]; [exact I|].
  inversion Hf; subst. apply IH; try assumption. apply step'_inv; assumption.
Qed.

(** * Consequences stated on reachable states *)

Definition live_out_sum (s : state) (d : nat) : Z := ssum (wt d Outgoing) (s_swaps s).
Definition live_in_sum (s : state) (d : nat) : Z := ssum (wt d Incoming) (s_swaps s).

Lemma inv_custody e s d : Inv e s -> s_bal s (e_mod e) d = live_out_sum s d.
Proof. intros [_ IC]. destruct (IC d) as (_ & C2 & C3 & _). unfold live_out_sum. congruence. Qed.

Lemma inv_counters e s d : Inv e s ->
  sp_inc (s_sup s d) = live_in_sum s d /\
  sp_out (s_sup s d) = live_out_sum s d /\
  sp_cur (s_sup s d) = e_cur0 e d + lsum ClaimIn d (g_log s) - lsum ClaimOut d (g_log s) /\
  s_bsup s d - sp_cur (s_sup s d) = e_bsup0 e d - e_cur0 e d.
Proof.
  intros [_ IC]. destruct (IC d) as (C1 & C2 & C3 & C4 & C5 & C6 & C7 & C8).
  unfold live_in_sum, live_out_sum. repeat split; try assumption. lia.
Qed.

Lemma inv_limits e s d a : Inv e s -> find_asset d (e_assets e) = Some a ->
  sp_cur (s_sup s d) + sp_inc (s_sup s d) <= a_limit a /\
  (a_tlimited a = true -> sp_tl (s_sup s d) + sp_inc (s_sup s d) <= a_tlimit a) /\
  0 <= sp_out (s_sup s d) <= sp_cur (s_sup s d) /\ 0 <= sp_inc (s_sup s d) /\ 0 <= sp_tl (s_sup s d).
Proof.
  intros [IT IC] Ha. destruct (IC d) as (C1 & C2 & C3 & C4 & C5 & C6 & C7 & C8).
  destruct (C8 a Ha) as [L1 L2].
  assert (Hp : forall dir p, In p (s_swaps s) -> 0 <= wt d dir (snd p)).
  { intros dir [j u] Hp. cbn [snd]. apply wt_nonneg.
    apply in_lookup in Hp; [|exact (t_keys _ _ _ _ _ _ IT)].
    destruct (t_rec _ _ _ _ _ _ IT j u Hp) as (_ & Hx & _). exact Hx. }
  pose proof (ssum_nonneg (wt d Incoming) (s_swaps s) (Hp Incoming)).
  pose proof (ssum_nonneg (wt d Outgoing) (s_swaps s) (Hp Outgoing)).
  repeat split; try assumption; lia.
Qed.

Lemma inv_indexes e s : Inv e s ->
  (forall h i, In (h, i) (s_byblock s) <->
     exists w, lookup i (s_swaps s) = Some w /\ sw_status w = Open /\ sw_expire w = h) /\
  (forall h i, In (h, i) (s_longterm s) <->
     exists w, lookup i (s_swaps s) = Some w /\ sw_status w = Completed /\ sw_closed w + LONGTERM = h) /\
  NoDup (s_byblock s) /\ NoDup (s_longterm s) /\ NoDup (map fst (s_swaps s)).
Proof. intros [IT _]. destruct IT. repeat split; try assumption; try apply t_bb0; try apply t_lt0. Qed.

Lemma inv_paid_once e s : Inv e s ->
  NoDup (map p_serial (g_log s)) /\
  (forall i w, lookup i (s_swaps s) = Some w ->
     (sw_status w = Completed <-> In (sw_serial w) (map p_serial (g_log s)))) /\
  (forall i j w1 w2, lookup i (s_swaps s) = Some w1 -> lookup j (s_swaps s) = Some w2 ->
     sw_serial w1 = sw_serial w2 -> i = j) /\
  (forall i w, lookup i (s_swaps s) = Some w -> (sw_serial w < g_next s)%nat) /\
  (forall q, In q (g_log s) -> (p_serial q < g_next s)%nat).
Proof.
  intros [IT _]. destruct IT.
  split; [assumption|]. split; [exact t_log_done0|]. split; [exact t_serial0|]. split; [|exact t_log_lt0].
  intros i w H. destruct (t_rec0 i w H) as (_ & _ & L & _). exact L.
Qed.

Lemma inv_roles e s i w : Inv e s -> lookup i (s_swaps s) = Some w ->
  i = sw_id w /\ 0 < sw_amt w /\
  exists a, find_asset (sw_denom w) (e_assets e) = Some a /\
    (sw_dir w = Incoming -> sw_sender w = a_deputy a) /\
    (sw_dir w = Outgoing -> sw_sender w <> a_deputy a /\ sw_recip w = a_deputy a).
Proof. intros [IT _] H. destruct (t_rec _ _ _ _ _ _ IT i w H) as (A & B & _ & _ & _ & C). auto. Qed.

(* an initial state without swaps *)
Lemma inv_init e s :
  s_swaps s = [] -> s_byblock s = [] -> s_longterm s = [] -> g_log s = [] ->
  (forall d, let sp := s_sup s d in
     sp_inc sp = 0 /\ sp_out sp = 0 /\ s_bal s (e_mod e) d = 0 /\ 0 <= sp_cur sp /\ 0 <= sp_tl sp /\
     sp_cur sp = e_cur0 e d /\ s_bsup s d = e_bsup0 e d /\
     forall a, find_asset d (e_assets e) = Some a ->
       sp_cur sp <= a_limit a /\ (a_tlimited a = true -> sp_tl sp <= a_tlimit a)) ->
  Inv e s.
Proof.
  intros E1 E2 E3 E4 H. split.
  - rewrite E1, E2, E3, E4. constructor; cbn [lookup map In]; try (constructor; fail); try discriminate; try contradiction.
    + intros h i. split; [intros []|intros (w & D & _); discriminate].
    + intros h i. split; [intros []|intros (w & D & _); discriminate].
  - intros d. specialize (H d). cbv zeta in H. destruct H as (A1 & A2 & A3 & A4 & A5 & A6 & A7 & A8).
    unfold cnt_ok. rewrite E1, E4. cbn [ssum fold_right lsum]. repeat (split; [lia|]).
    intros a Ha. destruct (A8 a Ha) as [B1 B2]. split; [lia|]. intros Et. apply B2 in Et. lia.
Qed.

(** * Gates and exact movement of funds, per operation *)

Lemma claim_gate e s from i secret s' :
  claim e s from i secret = Ok s' tt ->
  exists w, lookup i (s_swaps s) = Some w /\ sw_status w = Open /\ e_hash e secret (sw_ts w) = sw_hash w /\
    lookup i (s_swaps s') = Some (with_status w Completed (s_height s)).
Proof.
  intros H. apply claim_shape in H. destruct H as (w & Hl & Ho & Hh & H). cbv zeta in H.
  exists w. repeat split; try assumption.
  destruct H as [(_ & ? & ? & ? & _ & _ & _ & _ & _ & ->)|(_ & ? & ? & _ & _ & _ & ->)];
    unfold closed_state; sproj; apply lookup_set_same.
Qed.

Lemma refund_gate e s from i s' :
  refund e s from i = Ok s' tt ->
  exists w, lookup i (s_swaps s) = Some w /\ sw_status w = Expired /\
    lookup i (s_swaps s') = Some (with_status w Completed (s_height s)).
Proof.
  intros H. apply refund_shape in H. destruct H as (w & Hl & Ho & H). cbv zeta in H.
  exists w. repeat split; try assumption.
  destruct H as [(_ & ? & _ & ->)|(_ & ? & _ & _ & _ & ->)];
    unfold closed_state; sproj; apply lookup_set_same.
Qed.

Lemma create_roles e s h ts span sender recip soc coins cross s' :
  create e s h ts span sender recip soc coins cross = Ok s' tt ->
  exists d x a w, coins = [(d, x)] /\ find_asset d (e_assets e) = Some a /\
    lookup (h, sender, soc) (s_swaps s) = None /\
    lookup (h, sender, soc) (s_swaps s') = Some w /\
    sw_status w = Open /\ sw_amt w = x /\ sw_denom w = d /\ sw_sender w = sender /\ sw_recip w = recip /\
    sw_hash w = h /\ sw_ts w = ts /\ sw_expire w = (s_height s + span) mod U64 /\ sw_serial w = g_next s /\
    (sw_dir w = Incoming <-> sender = a_deputy a) /\
    (sw_dir w = Outgoing -> recip = a_deputy a) /\
    g_log s' = g_log s.
Proof.
  intros H. apply create_shape in H.
  destruct H as (d & x & a & dir & sp & bal' & -> & Hl & Hm & Ha & Hact & Hx & Hts & Hd & ->).
  exists d, x, a, (new_swap s h ts span sender recip soc d x cross dir). sproj.
  rewrite lookup_set_same. unfold new_swap; cbn.
  repeat split; try assumption; try reflexivity.
  - intros ->. destruct Hd as [(_ & E & _)|(D & _)]; [exact E|discriminate].
  - intros E. destruct Hd as [(D & _)|(D & N & _)]; [exact D|contradiction].
  - intros ->. destruct Hd as [(D & _)|(_ & _ & E & _)]; [discriminate|exact E].
Qed.

(* exact movement of funds *)
Definition delta (f g : nat -> nat -> Z) (a d : nat) : Z := g a d - f a d.

Lemma create_funds e s h ts span sender recip soc coins cross s' :
  sender <> e_mod e ->
  create e s h ts span sender recip soc coins cross = Ok s' tt ->
  exists d x a, coins = [(d, x)] /\ find_asset d (e_assets e) = Some a /\ s_bsup s' = s_bsup s /\
    forall b d', s_bal s' b d' = s_bal s b d'
       - (if Nat.eqb sender (a_deputy a) then 0 else if Nat.eqb b sender && Nat.eqb d' d then x else 0)
       + (if Nat.eqb sender (a_deputy a) then 0 else if Nat.eqb b (e_mod e) && Nat.eqb d' d then x else 0).
Proof.
  intros Hs H. apply create_shape in H.
  destruct H as (d & x & a & dir & sp & bal' & -> & Hl & Hm & Ha & Hact & Hx & Hts & Hd & ->).
  exists d, x, a. sproj. repeat split; try assumption.
  intros b d'. destruct Hd as [(_ & -> & _ & _ & ->)|(_ & N & _ & _ & _ & _ & _ & ->)].
  - rewrite Nat.eqb_refl. lia.
  - destruct (Nat.eqb_spec sender (a_deputy a)); [contradiction|]. apply send_bal_at.
Qed.

Lemma claim_funds e s from i secret s' :
  Inv e s -> claim e s from i secret = Ok s' tt ->
  exists w, lookup i (s_swaps s) = Some w /\
    let d := sw_denom w in let x := sw_amt w in
    match sw_dir w with
    | Incoming =>
        (forall b d', s_bal s' b d' = s_bal s b d' + (if Nat.eqb b (sw_recip w) && Nat.eqb d' d then x else 0)) /\
        (forall d', s_bsup s' d' = s_bsup s d' + (if Nat.eqb d' d then x else 0))
    | Outgoing =>
        (forall b d', s_bal s' b d' = s_bal s b d' - (if Nat.eqb b (e_mod e) && Nat.eqb d' d then x else 0)) /\
        (forall d', s_bsup s' d' = s_bsup s d' - (if Nat.eqb d' d then x else 0))
    end /\
    g_log s' = mkPay (sw_serial w) (match sw_dir w with Incoming => ClaimIn | Outgoing => ClaimOut end) d x
                     (match sw_dir w with Incoming => sw_recip w | Outgoing => e_mod e end) :: g_log s.
Proof.
  intros [IT _] H. apply claim_shape in H. destruct H as (w & Hl & Ho & Hh & H). cbv zeta in H.
  exists w. split; [exact Hl|]. cbv zeta.
  pose proof (t_rec _ _ _ _ _ _ IT i w Hl) as (_ & Hx & _ & Hrm & _).
  destruct H as [(Ed & sp1 & a & sp2 & _ & _ & _ & _ & _ & ->)|(Ed & sp1 & sp2 & _ & _ & _ & ->)];
    rewrite Ed; unfold closed_state; sproj.
  - split; [|reflexivity]. split.
    + intros b d'. rewrite send_bal_at, upd2_at.
      repeat match goal with |- context [Nat.eqb ?p ?q] => destruct (Nat.eqb_spec p q); subst end;
        cbn [andb]; try lia; try congruence.
    + intros d'. rewrite upd_at. destruct (Nat.eqb_spec d' (sw_denom w)); subst; lia.
  - split; [|reflexivity]. split.
    + intros b d'. rewrite upd2_at.
      repeat match goal with |- context [Nat.eqb ?p ?q] => destruct (Nat.eqb_spec p q); subst end;
        cbn [andb]; try lia; try congruence.
    + intros d'. rewrite upd_at. destruct (Nat.eqb_spec d' (sw_denom w)); subst; lia.
Qed.

Lemma refund_funds e s from i s' :
  Inv e s -> refund e s from i = Ok s' tt ->
  exists w, lookup i (s_swaps s) = Some w /\
    let d := sw_denom w in let x := sw_amt w in
    s_bsup s' = s_bsup s /\
    match sw_dir w with
    | Incoming => s_bal s' = s_bal s
    | Outgoing =>
        forall b d', s_bal s' b d' = s_bal s b d' - (if Nat.eqb b (e_mod e) && Nat.eqb d' d then x else 0)
                                      + (if Nat.eqb b (sw_sender w) && Nat.eqb d' d then x else 0)
    end /\
    g_log s' = mkPay (sw_serial w) (match sw_dir w with Incoming => RefundIn | Outgoing => RefundOut end) d x
                     (match sw_dir w with Incoming => e_mod e | Outgoing => sw_sender w end) :: g_log s.
Proof.
  intros [IT _] H. apply refund_shape in H. destruct H as (w & Hl & Ho & H). cbv zeta in H.
  exists w. split; [exact Hl|]. cbv zeta.
  destruct H as [(Ed & sp1 & _ & ->)|(Ed & sp1 & _ & _ & _ & ->)];
    rewrite Ed; unfold closed_state; sproj.
  - repeat split.
  - split; [reflexivity|]. split; [|reflexivity]. intros b d'. apply send_bal_at.
Qed.

Lemma begin_block_funds e s h t :
  Inv e s ->
  let s' := begin_block e s h t in
  s_bal s' = s_bal s /\ s_bsup s' = s_bsup s /\ g_log s' = g_log s /\ g_next s' = g_next s /\
  forall d, tick_rel (s_sup s d) (s_sup s' d).
Proof.
  intros I. cbv zeta. unfold begin_block.
  pose proof (set_clock_inv e s h t I) as I0.
  pose proof (update_time_limits_same e (set_clock s h t)) as [(A1 & A2 & A3 & A4 & A5 & A6 & A7 & A8) _].
  pose proof (same_but_sup_inv e _ _ (proj1 (update_time_limits_same e (set_clock s h t))) I0) as I1.
  destruct (update_expired_inv e _ I1) as [I2 (B1 & B2 & B3 & B4 & B5 & B6 & B7 & B8)].
  destruct (delete_closed_inv e _ I2) as [I3 (C1 & C2 & C3 & C4 & C5 & C6 & C7 & C8)].
  sproj. do 4 (split; [congruence|]).
  intros d. rewrite C4, B4. apply A8.
Qed.

Lemma step_err_same e s o : (forall s' u, step e s o <> Ok s' u) -> step' e s o = s.
Proof.
  intros H. unfold step'. destruct (step e s o) as [s' u| |] eqn:E; auto.
  exfalso. exact (H s' u eq_refl).
Qed.

Lemma step_no_panic e s o : step e s o <> Panic.
Proof.
  destruct o as [h ts span sender recip soc coins cross|from i secret|from i|h t]; cbn [step]; try discriminate.
  - unfold create.
    repeat match goal with
    | |- context [match ?x with _ => _ end] => destruct x; try discriminate
    end.
  - unfold claim.
    repeat match goal with
    | |- context [match ?x with _ => _ end] => destruct x; try discriminate
    end.
  - unfold refund.
    repeat match goal with
    | |- context [match ?x with _ => _ end] => destruct x; try discriminate
    end.
Qed.

(** * Life cycle *)

Definition expired_of (w : swap) : swap := with_status w Expired (sw_closed w).

Lemma expire_fold_lookup e : forall l s,
  Inv e s -> NoDup l -> (forall x, In x l -> In x (s_byblock s)) ->
  forall j, match lookup j (s_swaps s) with
  | None => lookup j (s_swaps (fold_left expire_one l s)) = None
  | Some u =>
      (In (sw_expire u, j) l /\ sw_status u = Open ->
         lookup j (s_swaps (fold_left expire_one l s)) = Some (expired_of u)) /\
      (~ (In (sw_expire u, j) l /\ sw_status u = Open) ->
         lookup j (s_swaps (fold_left expire_one l s)) = Some u)
  end.
Proof.
  induction l as [|[h i] r IH]; intros s I ND Hall j; cbn [fold_left].
  - destruct (lookup j (s_swaps s)) as [u|]; [|reflexivity]. split; [intros [[] _]|reflexivity].
  - inversion ND as [|? ? Hn ND']; subst.
    destruct (expire_one_inv e s h i I (Hall _ (or_introl eq_refl))) as (w & Hl & Ho & He & Eq & I1).
    assert (Hall' : forall x, In x r -> In x (s_byblock (expire_one s (h, i)))).
    { intros x Hx. rewrite Eq. sproj. apply ix_del_in. split; [intros ->; contradiction|].
      apply Hall. right. exact Hx. }
    specialize (IH (expire_one s (h, i)) I1 ND' Hall' j).
    assert (Esw : s_swaps (expire_one s (h, i)) = set_swap i (with_status w Expired (sw_closed w)) (s_swaps s))
      by (rewrite Eq; reflexivity).
    rewrite Esw in IH. rewrite lookup_set in IH.
    destruct (id_eqb_spec j i) as [->|N].
    + rewrite Hl. destruct IH as [_ IH2]. split.
      * intros _. apply IH2. intros [_ D]. cbn in D. discriminate.
      * intros D. exfalso. apply D. split; [left; rewrite He; reflexivity|exact Ho].
    + destruct (lookup j (s_swaps s)) as [u|]; [|exact IH]. destruct IH as [IH1 IH2]. split.
      * intros [[E|Hin] Hu]; [inversion E; congruence|]. apply IH1. auto.
      * intros D. apply IH2. intros [Hin Hu]. apply D. split; [right; exact Hin|exact Hu].
Qed.

Lemma update_expired_lookup e s j : Inv e s ->
  lookup j (s_swaps (update_expired s)) =
  match lookup j (s_swaps s) with
  | None => None
  | Some u => if status_eqb (sw_status u) Open && (sw_expire u <=? s_height s)
              then Some (expired_of u) else Some u
  end.
Proof.
  intros I. unfold update_expired.
  assert (ND : NoDup (filter (fun x : Z * id => fst x <=? s_height s) (s_byblock s))).
  { apply NoDup_filter. destruct I as [IT _]. exact (t_bb_nodup _ _ _ _ _ _ IT). }
  assert (Hall : forall x, In x (filter (fun x : Z * id => fst x <=? s_height s) (s_byblock s)) -> In x (s_byblock s)).
  { intros x Hx. apply filter_In in Hx. tauto. }
  pose proof (expire_fold_lookup e _ s I ND Hall j) as H.
  destruct (lookup j (s_swaps s)) as [u|] eqn:El; [|exact H].
  destruct H as [H1 H2].
  destruct (status_eqb_spec (sw_status u) Open) as [Eo|Eo]; cbn [andb].
  - destruct (Z.leb_spec (sw_expire u) (s_height s)) as [Le|Gt].
    + apply H1. split; [|exact Eo]. apply filter_In. cbn [fst]. split; [|apply Z.leb_le; exact Le].
      destruct I as [IT _]. apply (t_bb _ _ _ _ _ _ IT). exists u. auto.
    + apply H2. intros [Hin _]. apply filter_In in Hin. cbn [fst] in Hin. destruct Hin as [_ Hle].
      apply Z.leb_le in Hle. lia.
  - apply H2. intros [_ E]. contradiction.
Qed.

Lemma delete_fold_lookup e : forall l s,
  Inv e s -> NoDup l -> (forall x, In x l -> In x (s_longterm s)) ->
  forall j, match lookup j (s_swaps s) with
  | None => lookup j (s_swaps (fold_left delete_one l s)) = None
  | Some u =>
      (In (sw_closed u + LONGTERM, j) l /\ sw_status u = Completed ->
         lookup j (s_swaps (fold_left delete_one l s)) = None) /\
      (~ (In (sw_closed u + LONGTERM, j) l /\ sw_status u = Completed) ->
         lookup j (s_swaps (fold_left delete_one l s)) = Some u)
  end.
Proof.
  induction l as [|[h i] r IH]; intros s I ND Hall j; cbn [fold_left].
  - destruct (lookup j (s_swaps s)) as [u|]; [|reflexivity]. split; [intros [[] _]|reflexivity].
  - inversion ND as [|? ? Hn ND']; subst.
    destruct (delete_one_inv e s h i I (Hall _ (or_introl eq_refl))) as (w & Hl & Ho & He & Eq & I1).
    assert (Hall' : forall x, In x r -> In x (s_longterm (delete_one s (h, i)))).
    { intros x Hx. rewrite Eq. sproj. apply ix_del_in. split; [intros ->; contradiction|].
      apply Hall. right. exact Hx. }
    specialize (IH (delete_one s (h, i)) I1 ND' Hall' j).
    assert (Esw : s_swaps (delete_one s (h, i)) = del_swap i (s_swaps s)) by (rewrite Eq; reflexivity).
    rewrite Esw in IH.
    assert (K : NoDup (map fst (s_swaps s))) by (destruct I as [IT _]; exact (t_keys _ _ _ _ _ _ IT)).
    rewrite (lookup_del _ _ _ K) in IH.
    destruct (id_eqb_spec j i) as [E|N].
    + subst j. rewrite Hl. split.
      * intros _. exact IH.
      * intros D. exfalso. apply D. split; [left; rewrite He; reflexivity|exact Ho].
    + destruct (lookup j (s_swaps s)) as [u|]; [|exact IH]. destruct IH as [IH1 IH2]. split.
      * intros [[E|Hin] Hu]; [inversion E; congruence|]. apply IH1. auto.
      * intros D. apply IH2. intros [Hin Hu]. apply D. split; [right; exact Hin|exact Hu].
Qed.

Lemma delete_closed_lookup e s j : Inv e s ->
  lookup j (s_swaps (delete_closed s)) =
  match lookup j (s_swaps s) with
  | None => None
  | Some u => if status_eqb (sw_status u) Completed && (sw_closed u + LONGTERM <=? s_height s)
              then None else Some u
  end.
Proof.
  intros I. unfold delete_closed.
  assert (ND : NoDup (filter (fun x : Z * id => fst x <=? s_height s) (s_longterm s))).
  { apply NoDup_filter. destruct I as [IT _]. exact (t_lt_nodup _ _ _ _ _ _ IT). }
  assert (Hall : forall x, In x (filter (fun x : Z * id => fst x <=? s_height s) (s_longterm s)) -> In x (s_longterm s)).
  { intros x Hx. apply filter_In in Hx. tauto. }
  pose proof (delete_fold_lookup e _ s I ND Hall j) as H.
  destruct (lookup j (s_swaps s)) as [u|] eqn:El; [|exact H].
  destruct H as [H1 H2].
  destruct (status_eqb_spec (sw_status u) Completed) as [Eo|Eo]; cbn [andb].
  - destruct (Z.leb_spec (sw_closed u + LONGTERM) (s_height s)) as [Le|Gt].
    + apply H1. split; [|exact Eo]. apply filter_In. cbn [fst]. split; [|apply Z.leb_le; exact Le].
      destruct I as [IT _]. apply (t_lt _ _ _ _ _ _ IT). exists u. auto.
    + apply H2. intros [Hin _]. apply filter_In in Hin. cbn [fst] in Hin. destruct Hin as [_ Hle].
      apply Z.leb_le in Hle. lia.
  - apply H2. intros [_ E]. contradiction.
Qed.

(* the exact effect of BeginBlocker at height h on every swap *)
Lemma begin_block_lookup e s h t j : Inv e s ->
  lookup j (s_swaps (begin_block e s h t)) =
  match lookup j (s_swaps s) with
  | None => None
  | Some u =>
      if status_eqb (sw_status u) Open && (sw_expire u <=? h) then Some (expired_of u)
      else if status_eqb (sw_status u) Completed && (sw_closed u + LONGTERM <=? h) then None
      else Some u
  end.
Proof.
  intros I. unfold begin_block.
  pose proof (set_clock_inv e s h t I) as I0.
  destruct (update_time_limits_same e (set_clock s h t)) as [SS Hh].
  pose proof (same_but_sup_inv e _ _ SS I0) as I1.
  destruct SS as (A1 & _).
  destruct (update_expired_inv e _ I1) as [I2 (B1 & _)].
  rewrite (delete_closed_lookup e _ j I2), (update_expired_lookup e _ j I1).
  rewrite B1, Hh, A1. sproj.
  destruct (lookup j (s_swaps s)) as [u|]; [|reflexivity].
  destruct (status_eqb_spec (sw_status u) Open) as [Eo|Eo]; cbn [andb].
  - destruct (sw_expire u <=? h); cbn [expired_of with_status sw_status status_eqb andb]; [reflexivity|].
    rewrite Eo. reflexivity.
  - reflexivity.
Qed.

(* allowed changes of the record stored under one id by one operation *)
Inductive sw_change (e : env) (s : state) (o : op) (i : id) : option swap -> option swap -> Prop :=
| ch_same x : sw_change e s o i x x
| ch_create w h ts span sender recip soc coins cross :
    o = Create h ts span sender recip soc coins cross -> i = (h, sender, soc) ->
    sw_status w = Open -> sw_closed w = 0 -> sw_id w = i ->
    sw_change e s o i None (Some w)
| ch_claim w from secret :
    o = Claim from i secret -> sw_status w = Open -> e_hash e secret (sw_ts w) = sw_hash w ->
    sw_change e s o i (Some w) (Some (with_status w Completed (s_height s)))
| ch_refund w from :
    o = Refund from i -> sw_status w = Expired ->
    sw_change e s o i (Some w) (Some (with_status w Completed (s_height s)))
| ch_expire w h t :
    o = BeginBlock h t -> sw_status w = Open -> sw_expire w <= h ->
    sw_change e s o i (Some w) (Some (with_status w Expired (sw_closed w)))
| ch_delete w h t :
    o = BeginBlock h t -> sw_status w = Completed -> sw_closed w + LONGTERM <= h ->
    sw_change e s o i (Some w) None.

Theorem lifecycle e s o s' : Inv e s -> step e s o = Ok s' tt ->
  forall i, sw_change e s o i (lookup i (s_swaps s)) (lookup i (s_swaps s')).
Proof.
  intros I H j.
  destruct o as [h ts span sender recip soc coins cross|from i secret|from i|h t]; cbn [step] in H.
  - apply create_shape in H.
    destruct H as (d & x & a & dir & sp & bal' & -> & Hl & Hm & Ha & Hact & Hx & Hts & Hd & ->). sproj.
    rewrite lookup_set. destruct (id_eqb_spec j (h, sender, soc)) as [->|N]; [|constructor].
    rewrite Hl. eapply ch_create; try reflexivity.
  - apply claim_shape in H. destruct H as (w & Hl & Ho & Hh & H). cbv zeta in H.
    assert (E : s_swaps s' = set_swap i (with_status w Completed (s_height s)) (s_swaps s)).
    { destruct H as [(_ & ? & ? & ? & _ & _ & _ & _ & _ & ->)|(_ & ? & ? & _ & _ & _ & ->)]; reflexivity. }
    rewrite E, lookup_set. destruct (id_eqb_spec j i) as [->|N]; [|constructor].
    rewrite Hl. eapply ch_claim; eauto.
  - apply refund_shape in H. destruct H as (w & Hl & Ho & H). cbv zeta in H.
    assert (E : s_swaps s' = set_swap i (with_status w Completed (s_height s)) (s_swaps s)).
    { destruct H as [(_ & ? & _ & ->)|(_ & ? & _ & _ & _ & ->)]; reflexivity. }
    rewrite E, lookup_set. destruct (id_eqb_spec j i) as [->|N]; [|constructor].
    rewrite Hl. eapply ch_refund; eauto.
  - inversion H; subst s'. rewrite (begin_block_lookup e s h t j I).
    destruct (lookup j (s_swaps s)) as [u|]; [|constructor].
    destruct (status_eqb_spec (sw_status u) Open) as [Eo|Eo]; cbn [andb].
    + destruct (Z.leb_spec (sw_expire u) h).
      * eapply ch_expire; eauto.
      * rewrite Eo. cbn. constructor.
    + destruct (status_eqb_spec (sw_status u) Completed) as [Ec|Ec]; cbn [andb]; [|constructor].
      destruct (Z.leb_spec (sw_closed u + LONGTERM) h); [|constructor].
      eapply ch_delete; eauto.
Qed.

(** * Refunds only after the expiry height (block heights do not decrease) *)

Definition op_mono (s : state) (o : op) : Prop :=
  match o with BeginBlock h _ => s_height s <= h | _ => True end.

Definition InvH (s : state) : Prop :=
  forall i w, lookup i (s_swaps s) = Some w -> sw_status w = Expired -> sw_expire w <= s_height s.

Lemma begin_block_height e s h t : Inv e s -> s_height (begin_block e s h t) = h.
Proof.
  intros I. unfold begin_block.
  pose proof (set_clock_inv e s h t I) as I0.
  destruct (update_time_limits_same e (set_clock s h t)) as [SS Hh].
  pose proof (same_but_sup_inv e _ _ SS I0) as I1.
  destruct (update_expired_inv e _ I1) as [I2 (B1 & _)].
  destruct (delete_closed_inv e _ I2) as [I3 (C1 & _)].
  rewrite C1, B1, Hh. reflexivity.
Qed.

Lemma step_height e s o s' : Inv e s -> step e s o = Ok s' tt ->
  s_height s' = match o with BeginBlock h _ => h | _ => s_height s end.
Proof.
  intros I H.
  destruct o as [h ts span sender recip soc coins cross|from i secret|from i|h t]; cbn [step] in H.
  - apply create_shape in H.
    destruct H as (d & x & a & dir & sp & bal' & _ & _ & _ & _ & _ & _ & _ & _ & ->). reflexivity.
  - apply claim_shape in H. destruct H as (w & _ & _ & _ & H). cbv zeta in H.
    destruct H as [(_ & ? & ? & ? & _ & _ & _ & _ & _ & ->)|(_ & ? & ? & _ & _ & _ & ->)]; reflexivity.
  - apply refund_shape in H. destruct H as (w & _ & _ & H). cbv zeta in H.
    destruct H as [(_ & ? & _ & ->)|(_ & ? & _ & _ & _ & ->)]; reflexivity.
  - inversion H; subst. apply begin_block_height. exact I.
Qed.

Lemma step_invH e s o s' : Inv e s -> InvH s -> op_mono s o -> step e s o = Ok s' tt -> InvH s'.
Proof.
  intros I IH Hm H j w' Hl He.
  pose proof (lifecycle e s o s' I H j) as C.
  pose proof (step_height e s o s' I H) as Eh.
  rewrite Hl in C. inversion C; subst.
  - (* unchanged *)
    match goal with E : lookup j (s_swaps s) = Some w' |- _ => specialize (IH j w' E He) end.
    destruct o; cbn [op_mono] in Hm; rewrite Eh; lia.
  - congruence.
  - cbn in He. discriminate.
  - cbn in He. discriminate.
  - cbn [with_status sw_expire] in *. rewrite Eh. assumption.
Qed.

(* histories in which the module account never signs and block heights do not decrease *)
Fixpoint hist_ok (e : env) (s : state) (ops : list op) : Prop :=
  match ops with
  | [] => True
  | o :: r => op_ok e o /\ op_mono s o /\ hist_ok e (step' e s o) r
  end.

Theorem run_inv_height e ops : forall s, env_wf e -> hist_ok e s ops -> Inv e s -> InvH s ->
  Inv e (run e s ops) /\ InvH (run e s ops).
Proof.
  induction ops as [|o r IH]; intros s We Hh I IHt; cbn [run fold_left]; [split; assumption|].
  destruct Hh as (Ho & Hm & Hr).
  apply IH; try assumption.
  - apply step'_inv; assumption.
  - unfold step'. destruct (step e s o) as [s' []| |] eqn:E; try exact IHt.
    eapply step_invH; eassumption.
Qed.

Lemma refund_after_expiry e s from i s' : InvH s -> refund e s from i = Ok s' tt ->
  exists w, lookup i (s_swaps s) = Some w /\ sw_status w = Expired /\ sw_expire w <= s_height s.
Proof.
  intros IH H. apply refund_gate in H. destruct H as (w & Hl & He & _).
  exists w. split; [exact Hl|]. split; [exact He|]. apply (IH i w Hl He).
Qed.

(** * The gates do not get stuck: an open swap can be claimed with a preimage, an expired
      swap can be refunded (given that the bank does not block the receiving account) *)

Lemma live_weight_le e s i w dir : Inv e s -> lookup i (s_swaps s) = Some w ->
  wt (sw_denom w) dir w <= ssum (wt (sw_denom w) dir) (s_swaps s).
Proof.
  intros [IT _] Hl. apply ssum_ge with i; [|exact Hl].
  intros [j u] Hp. cbn [snd]. apply wt_nonneg.
  apply in_lookup in Hp; [|exact (t_keys _ _ _ _ _ _ IT)].
  destruct (t_rec _ _ _ _ _ _ IT j u Hp) as (_ & Hx & _). exact Hx.
Qed.

Lemma claim_succeeds e s from i secret w :
  Inv e s -> lookup i (s_swaps s) = Some w -> sw_status w = Open ->
  e_hash e secret (sw_ts w) = sw_hash w ->
  (sw_dir w = Incoming -> e_blocked e (sw_recip w) = false) ->
  exists s', claim e s from i secret = Ok s' tt.
Proof.
  intros I Hl Ho Hh Hb. pose proof I as [IT IC].
  destruct (t_rec _ _ _ _ _ _ IT i w Hl) as (_ & Hx & _ & _ & _ & a & Ha & _).
  assert (Hn : sw_status w <> Completed) by (rewrite Ho; discriminate).
  pose proof (IC (sw_denom w)) as (C1 & C2 & C3 & C4 & C5 & C6 & C7 & C8).
  destruct (C8 a Ha) as [L1 L2].
  unfold claim. rewrite Hl, Ho. cbn [status_eqb negb].
  rewrite Hh. unfold sw_id. rewrite id_eqb_refl. cbn [negb].
  destruct (sw_dir w) eqn:Ed.
  - pose proof (live_weight_le e s i w Incoming I Hl) as G. rewrite (wt_val _ _ _ Hn), Ed, Nat.eqb_refl in G. cbn in G.
    unfold dec_incoming. destruct (Z.ltb_spec (sp_inc (s_sup s (sw_denom w)) - sw_amt w) 0); [lia|].
    rewrite Ha. unfold inc_current. cbn [sp_cur sp_tl sp_inc].
    destruct (Z.ltb_spec (a_limit a) (sp_cur (s_sup s (sw_denom w)) + sw_amt w)); [lia|].
    assert (Hsend : forall sp2, exists s', match bank_m2a e (bank_mint (set_sup s (sw_denom w) sp2) (e_mod e) (sw_denom w) (sw_amt w)) (sw_recip w) (sw_denom w) (sw_amt w) with
        | Some s2 => Ok (close_swap s2 i w ClaimIn (sw_recip w) true) tt | None => Err end = Ok s' tt).
    { intros sp2. unfold bank_m2a. rewrite (Hb eq_refl). unfold bank_send, bank_mint. sproj.
      rewrite upd2_at, !Nat.eqb_refl. cbn [andb].
      destruct (Z.ltb_spec 0 (sw_amt w)); [|lia]. cbn [andb].
      pose proof (ssum_nonneg (wt (sw_denom w) Outgoing) (s_swaps s)) as Gp.
      destruct (Z.leb_spec (sw_amt w) (s_bal s (e_mod e) (sw_denom w) + sw_amt w)).
      - eexists; reflexivity.
      - exfalso. assert (0 <= ssum (wt (sw_denom w) Outgoing) (s_swaps s)); [|lia].
        apply Gp. intros [j u] Hp. cbn [snd]. apply wt_nonneg.
        apply in_lookup in Hp; [|exact (t_keys _ _ _ _ _ _ IT)].
        destruct (t_rec _ _ _ _ _ _ IT j u Hp) as (_ & Hxx & _). exact Hxx. }
    destruct (a_tlimited a) eqn:Et.
    + specialize (L2 eq_refl).
      destruct (Z.ltb_spec (a_tlimit a) (sp_tl (s_sup s (sw_denom w)) + sw_amt w)); [lia|]. apply Hsend.
    + apply Hsend.
  - pose proof (live_weight_le e s i w Outgoing I Hl) as G. rewrite (wt_val _ _ _ Hn), Ed, Nat.eqb_refl in G. cbn in G.
    unfold dec_outgoing. destruct (Z.ltb_spec (sp_out (s_sup s (sw_denom w)) - sw_amt w) 0); [lia|].
    unfold dec_current. cbn [sp_cur sp_out].
    destruct (Z.ltb_spec (sp_cur (s_sup s (sw_denom w)) - sw_amt w) 0); [lia|].
    unfold bank_burn. sproj.
    destruct (Z.ltb_spec 0 (sw_amt w)); [|lia]. cbn [andb].
    destruct (Z.leb_spec (sw_amt w) (s_bal s (e_mod e) (sw_denom w))); [|lia].
    eexists; reflexivity.
Qed.

Lemma refund_succeeds e s from i w :
  Inv e s -> lookup i (s_swaps s) = Some w -> sw_status w = Expired ->
  (sw_dir w = Outgoing -> e_blocked e (sw_sender w) = false) ->
  exists s', refund e s from i = Ok s' tt.
Proof.
  intros I Hl Ho Hb. pose proof I as [IT IC].
  destruct (t_rec _ _ _ _ _ _ IT i w Hl) as (_ & Hx & _).
  assert (Hn : sw_status w <> Completed) by (rewrite Ho; discriminate).
  pose proof (IC (sw_denom w)) as (C1 & C2 & C3 & C4 & C5 & C6 & C7 & C8).
  unfold refund. rewrite Hl, Ho. cbn [status_eqb negb].
  destruct (sw_dir w) eqn:Ed.
  - pose proof (live_weight_le e s i w Incoming I Hl) as G. rewrite (wt_val _ _ _ Hn), Ed, Nat.eqb_refl in G. cbn in G.
    unfold dec_incoming. destruct (Z.ltb_spec (sp_inc (s_sup s (sw_denom w)) - sw_amt w) 0); [lia|].
    eexists; reflexivity.
  - pose proof (live_weight_le e s i w Outgoing I Hl) as G. rewrite (wt_val _ _ _ Hn), Ed, Nat.eqb_refl in G. cbn in G.
    unfold dec_outgoing. destruct (Z.ltb_spec (sp_out (s_sup s (sw_denom w)) - sw_amt w) 0); [lia|].
    unfold bank_m2a. rewrite (Hb eq_refl). unfold bank_send. sproj.
    destruct (Z.ltb_spec 0 (sw_amt w)); [|lia]. cbn [andb].
    destruct (Z.leb_spec (sw_amt w) (s_bal s (e_mod e) (sw_denom w))); [|lia].
    eexists; reflexivity.
Qed.

(** * The boolean invariant evaluated by the checker is implied by the invariant *)

Lemma nodup_b_true {A} (eqb : A -> A -> bool) (l : list A) :
  (forall a b, reflect (a = b) (eqb a b)) -> NoDup l -> nodup_b eqb l = true.
Proof.
  intros R. induction l as [|x r IH]; intros ND; cbn [nodup_b]; [reflexivity|].
  inversion ND as [|? ? Hn ND']; subst. rewrite (IH ND'), Bool.andb_true_r.
  destruct (existsb (eqb x) r) eqn:E; [|reflexivity].
  apply existsb_exists in E. destruct E as (y & Hy & Ey). destruct (R x y); [subst; contradiction|discriminate].
Qed.

Lemma serials_nodup (l : list (id * swap)) :
  NoDup (map fst l) ->
  (forall i j w1 w2, lookup i l = Some w1 -> lookup j l = Some w2 -> sw_serial w1 = sw_serial w2 -> i = j) ->
  NoDup (map (fun p => sw_serial (snd p)) l).
Proof.
  intros K S.
  assert (S' : forall i j w1 w2, In (i, w1) l -> In (j, w2) l -> sw_serial w1 = sw_serial w2 -> i = j).
  { intros i j w1 w2 H1 H2. apply S; apply in_lookup; assumption. }
  clear S. induction l as [|[k u] r IH]; cbn [map]; [constructor|].
  inversion K as [|? ? Hn K']; subst. constructor.
  - intros Hin. apply in_map_iff in Hin. destruct Hin as ([j w2] & Es & Hj). cbn [snd] in Es.
    assert (k = j) by (eapply S'; [left; reflexivity|right; exact Hj|symmetry; exact Es]). subst j.
    apply Hn. change k with (fst (k, w2)). apply in_map. exact Hj.
  - apply IH; [exact K'|]. intros i j w1 w2 H1 H2. apply S'; right; assumption.
Qed.

Lemma existsb_serial_in n (lg : list pay) :
  existsb (fun q => Nat.eqb (p_serial q) n) lg = true <-> In n (map p_serial lg).
Proof.
  rewrite existsb_exists, in_map_iff. split.
  - intros (q & Hq & E). apply Nat.eqb_eq in E. exists q. auto.
  - intros (q & E & Hq). exists q. split; [exact Hq|]. apply Nat.eqb_eq. exact E.
Qed.

Theorem inv_b_complete e s : Inv e s -> inv_b e s = true.
Proof.
  intros [IT IC]. destruct IT as [K R S BN B LN L GN GL GD].
  unfold inv_b. repeat (apply andb_true_intro; split).
  - apply nodup_b_true; [exact id_eqb_spec|exact K].
  - apply nodup_b_true; [exact Nat.eqb_spec|]. apply serials_nodup; assumption.
  - apply nodup_b_true; [exact Nat.eqb_spec|exact GN].
  - apply nodup_b_true; [exact ent_eqb_spec|exact BN].
  - apply nodup_b_true; [exact ent_eqb_spec|exact LN].
  - apply forallb_forall. intros [i w] Hin. apply in_lookup in Hin; [|exact K].
    destruct (R i w Hin) as (Ei & Hx & Ls & _ & _ & a & Ha & Hi & Ho).
    unfold swap_wf_b. repeat (apply andb_true_intro; split).
    + rewrite <- Ei. apply id_eqb_refl.
    + apply Z.ltb_lt. exact Hx.
    + apply Nat.ltb_lt. exact Ls.
    + rewrite Ha. destruct (sw_dir w).
      * apply Nat.eqb_eq. auto.
      * destruct (Ho eq_refl) as [N E]. apply andb_true_intro. split; [|apply Nat.eqb_eq; exact E].
        destruct (Nat.eqb_spec (sw_sender w) (a_deputy a)); [contradiction|reflexivity].
    + destruct (sw_status w) eqn:Es; [| |reflexivity].
      * apply ix_mem_in. apply B. exists w. auto.
      * apply andb_true_intro. split.
        -- apply ix_mem_in. apply L. exists w. auto.
        -- apply existsb_serial_in. apply (GD i w Hin). exact Es.
    + destruct (sw_status w) eqn:Es; [|reflexivity|].
      * destruct (existsb _ (g_log s)) eqn:E; [|reflexivity].
        apply existsb_serial_in in E. apply (GD i w Hin) in E. congruence.
      * destruct (existsb _ (g_log s)) eqn:E; [|reflexivity].
        apply existsb_serial_in in E. apply (GD i w Hin) in E. congruence.
  - apply forallb_forall. intros [h i] Hin. cbn [fst snd]. apply B in Hin. destruct Hin as (w & Hl & Ho & He).
    rewrite Hl, Ho, He. cbn. apply Z.eqb_refl.
  - apply forallb_forall. intros [h i] Hin. cbn [fst snd]. apply L in Hin. destruct Hin as (w & Hl & Ho & He).
    rewrite Hl, Ho, He. cbn. apply Z.eqb_refl.
  - apply forallb_forall. intros q Hq. apply Nat.ltb_lt. apply GL. exact Hq.
  - apply forallb_forall. intros d _. specialize (IC d). unfold cnt_ok in IC.
    destruct IC as (C1 & C2 & C3 & C4 & C5 & C6 & C7 & C8).
    repeat (apply andb_true_intro; split); try (apply Z.eqb_eq; assumption); try (apply Z.leb_le; assumption).
    destruct (find_asset d (e_assets e)) as [a|] eqn:Ea; [|reflexivity].
    destruct (C8 a eq_refl) as [L1 L2]. apply andb_true_intro. split; [apply Z.leb_le; exact L1|].
    destruct (a_tlimited a); cbn [negb orb]; [|reflexivity]. apply Z.leb_le. apply L2. reflexivity.
Qed.

(** * Time-limited accounting: the exact effect of UpdateTimeBasedSupplyLimits *)

Lemma tick_fold_sup dt : forall l s d,
  NoDup (map a_denom l) ->
  s_sup (fold_left (fun st a => set_sup st (a_denom a) (tick_supply a (s_sup st (a_denom a)) dt)) l s) d =
  match find_asset d l with
  | Some a => tick_supply a (s_sup s d) dt
  | None => s_sup s d
  end.
Proof.
  induction l as [|a r IH]; intros s d ND; cbn [fold_left find_asset map]; [reflexivity|].
  cbn [map] in ND. inversion ND as [|? ? Hn ND']; subst.
  rewrite IH by exact ND'. cbn [set_sup s_sup]. rewrite upd_at.
  destruct (Nat.eqb_spec (a_denom a) d) as [E|N].
  - subst d. rewrite Nat.eqb_refl.
    destruct (find_asset (a_denom a) r) as [b|] eqn:Eb; [|reflexivity].
    exfalso. apply Hn. pose proof (find_asset_denom _ _ _ Eb) as Ed. rewrite <- Ed.
    clear - Eb. induction r as [|c r IH]; cbn [find_asset] in Eb; [discriminate|].
    destruct (Nat.eqb (a_denom c) (a_denom a)); [inversion Eb; subst; left; reflexivity|right; apply IH; exact Eb].
  - destruct (Nat.eqb_spec d (a_denom a)); [congruence|]. reflexivity.
Qed.

Lemma begin_block_supply e s h t d :
  Inv e s -> NoDup (map a_denom (e_assets e)) -> e_assets e <> [] ->
  let s' := begin_block e s h t in
  s_prev s' = t /\
  s_sup s' d = match find_asset d (e_assets e) with
               | Some a => tick_supply a (s_sup s d) (t - s_prev s)
               | None => s_sup s d
               end.
Proof.
  intros I ND Hne. cbv zeta. unfold begin_block.
  pose proof (set_clock_inv e s h t I) as I0.
  pose proof (same_but_sup_inv e _ _ (proj1 (update_time_limits_same e (set_clock s h t))) I0) as I1.
  destruct (update_expired_inv e _ I1) as [I2 (B1 & B2 & B3 & B4 & _)].
  destruct (delete_closed_inv e _ I2) as [I3 (C1 & C2 & C3 & C4 & _)].
  rewrite C3, C4, B3, B4.
  unfold update_time_limits. destruct (e_assets e) as [|a r] eqn:Ea; [contradiction|].
  cbn [set_prev s_prev s_sup set_clock s_time].
  split; [reflexivity|].
  rewrite <- Ea in *. rewrite (tick_fold_sup _ _ _ d ND). reflexivity.
Qed.

Lemma claim_supply e s from i secret s' :
  claim e s from i secret = Ok s' tt ->
  exists w, lookup i (s_swaps s) = Some w /\
    let d := sw_denom w in let x := sw_amt w in let sp := s_sup s d in
    (forall d', d' <> d -> s_sup s' d' = s_sup s d') /\
    match sw_dir w with
    | Incoming => exists a, find_asset d (e_assets e) = Some a /\
        s_sup s' d = mkSup (sp_inc sp - x) (sp_out sp) (sp_cur sp + x)
                           (if a_tlimited a then sp_tl sp + x else sp_tl sp) (sp_elapsed sp) /\
        sp_cur sp + x <= a_limit a /\ (a_tlimited a = true -> sp_tl sp + x <= a_tlimit a)
    | Outgoing =>
        s_sup s' d = mkSup (sp_inc sp) (sp_out sp - x) (sp_cur sp - x) (sp_tl sp) (sp_elapsed sp)
    end.
Proof.
  intros H. apply claim_shape in H. destruct H as (w & Hl & _ & _ & H). cbv zeta in H.
  exists w. split; [exact Hl|]. cbv zeta.
  destruct H as [(Ed & sp1 & a & sp2 & E1 & Ea & E2 & _ & _ & ->)|(Ed & sp1 & sp2 & E1 & E2 & _ & ->)];
    rewrite Ed; unfold closed_state; cbn [s_sup].
  - split; [intros d' N; rewrite upd_at; destruct (Nat.eqb_spec d' (sw_denom w)); [contradiction|reflexivity]|].
    exists a. split; [exact Ea|]. rewrite upd_at, Nat.eqb_refl.
    apply dec_incoming_some in E1. destruct E1 as (-> & _).
    apply inc_current_some in E2. destruct E2 as (-> & L1 & L2). cbn [sp_inc sp_out sp_cur sp_tl sp_elapsed] in *.
    repeat split; assumption.
  - split; [intros d' N; rewrite upd_at; destruct (Nat.eqb_spec d' (sw_denom w)); [contradiction|reflexivity]|].
    rewrite upd_at, Nat.eqb_refl.
    apply dec_outgoing_some in E1. destruct E1 as (-> & _).
    apply dec_current_some in E2. destruct E2 as (-> & _). reflexivity.
Qed.

(** * The hypotheses checked on every recorded history *)

Lemma env_wf_b_sound e : env_wf_b e = true -> env_wf e.
Proof.
  unfold env_wf_b, env_wf. intros H. apply andb_prop in H. destruct H as [H1 H2]. split; [exact H1|].
  intros d a Ha. rewrite forallb_forall in H2.
  assert (Hin : In a (e_assets e)).
  { clear H2. induction (e_assets e) as [|b r IH]; cbn [find_asset] in Ha; [discriminate|].
    destruct (Nat.eqb (a_denom b) d); [inversion Ha; subst; left; reflexivity|right; apply IH; exact Ha]. }
  apply H2 in Hin. apply Z.leb_le in Hin. exact Hin.
Qed.

Lemma op_ok_b_sound e s o : op_ok_b e s o = true -> op_ok e o /\ op_mono s o.
Proof.
  destruct o as [h ts span sender recip soc coins cross|from i secret|from i|h t]; cbn [op_ok_b op_ok op_mono]; intros H.
  - split; [|exact I]. destruct (Nat.eqb_spec sender (e_mod e)); [discriminate|assumption].
  - split; exact I.
  - split; exact I.
  - split; [exact I|]. apply Z.leb_le. exact H.
Qed.

(** * The message level *)

Lemma op_ok_as_msg e o : op_ok e o -> op_ok e (as_msg o).
Proof. destruct o; cbn; auto. Qed.

(* a message that succeeds is the keeper call it makes (with crossChain = true) *)
Lemma msg_step_ok e s o s' u : msg_step e s o = Ok s' u ->
  msg_validate_basic o = true /\ step e s (as_msg o) = Ok s' u.
Proof. unfold msg_step. destruct (msg_validate_basic o); [auto|discriminate]. Qed.

(* a message refused by ValidateBasic fails and changes nothing *)
Lemma msg_step_refused e s o : msg_validate_basic o = false -> msg_step e s o = Err /\ msg_step' e s o = s.
Proof. intros V. unfold msg_step', msg_step. rewrite V. auto. Qed.

Lemma msg_step'_cases e s o : msg_step' e s o = s \/ msg_step' e s o = step' e s (as_msg o).
Proof.
  unfold msg_step', msg_step, step'. destruct (msg_validate_basic o); [right; reflexivity|left; reflexivity].
Qed.

Lemma msg_step'_inv e s o : env_wf e -> op_ok e o -> Inv e s -> Inv e (msg_step' e s o).
Proof.
  intros W O I. destruct (msg_step'_cases e s o) as [-> | ->]; [exact I|].
  apply step'_inv; [exact W|apply op_ok_as_msg; exact O|exact I].
Qed.

(* histories mixing keeper calls and messages *)
Definition mixed_step' (e : env) (s : state) (mo : bool * op) : state :=
  if fst mo then msg_step' e s (snd mo) else step' e s (snd mo).
Definition mixed_run (e : env) (s : state) (l : list (bool * op)) : state := fold_left (mixed_step' e) l s.

Theorem mixed_run_inv e l : forall s, env_wf e -> Forall (fun mo => op_ok e (snd mo)) l -> Inv e s -> Inv e (mixed_run e s l).
Proof.
  induction l as [|[m o] l IH]; intros s W F I; cbn [mixed_run fold_left]; [exact I|].
  inversion F as [|? ? O F']; subst. cbn [snd] in O. apply IH; try assumption.
  unfold mixed_step'. cbn [fst snd]. destruct m; [apply msg_step'_inv|apply step'_inv]; assumption.
Qed.

(* what ValidateBasic adds to the keeper's own checks: a swap created by a
   message has a positive height span (the keeper alone accepts an incoming
   swap with span 0, which expires in the block it is created in) *)
Lemma msg_create_span_positive e s h ts span sender recip soc coins cross s' u :
  msg_step e s (Create h ts span sender recip soc coins cross) = Ok s' u -> 0 < span /\ 0 < ts.
Proof.
  intros H. apply msg_step_ok in H. destruct H as (V & _). cbn [msg_validate_basic] in V.
  apply andb_true_iff in V. destruct V as (V & _). apply andb_true_iff in V. destruct V as (A & B).
  apply Z.ltb_lt in A. apply Z.ltb_lt in B. auto.
Qed.
