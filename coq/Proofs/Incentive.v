(* Lemmas and proofs about Model/Accumulator.v and Model/Incentive.v *)
From Coq Require Import Permutation.
From Kava Require Import Base.Prelude Base.Dec Model.Accumulator Model.Incentive.
Local Open Scope Z_scope.

Ltac sproj := cbn [now g_time g_idx tot sh has_claim u_idx rew macc bal integral due nsync claimed emitted accslack drift overshare emitted_x].

(** * Finite sums *)

Lemma sN_ext n f g : (forall k, (k < n)%nat -> f k = g k) -> sumN n f = sumN n g.
Proof.
  induction n as [|n IH]; intros H; cbn [sumN]; [reflexivity|].
  rewrite IH by (intros; apply H; lia). rewrite H by lia. reflexivity.
Qed.

Lemma sN_add n f g : sumN n (fun k => f k + g k) = sumN n f + sumN n g.
Proof. induction n as [|n IH]; cbn [sumN]; [reflexivity|]. rewrite IH. lia. Qed.

Lemma sN_scale n c f : sumN n (fun k => c * f k) = c * sumN n f.
Proof. induction n as [|n IH]; cbn [sumN]; [lia|]. rewrite IH. lia. Qed.

Lemma sN_zero n f : (forall k, (k < n)%nat -> f k = 0) -> sumN n f = 0.
Proof.
  induction n as [|n IH]; intros H; cbn [sumN]; [reflexivity|].
  rewrite IH by (intros; apply H; lia). rewrite H by lia. reflexivity.
Qed.

Lemma sN_le n f g : (forall k, (k < n)%nat -> f k <= g k) -> sumN n f <= sumN n g.
Proof.
  induction n as [|n IH]; intros H; cbn [sumN]; [lia|].
  specialize (IH ltac:(intros; apply H; lia)). specialize (H n ltac:(lia)). lia.
Qed.

Lemma sN_nonneg n f : (forall k, (k < n)%nat -> 0 <= f k) -> 0 <= sumN n f.
Proof.
  intros H. rewrite <- (sN_zero n (fun _ => 0)) by reflexivity. apply sN_le. exact H.
Qed.

Lemma sN_upd_below f a v : forall k, (k <= a)%nat ->
  sumN k (fun x => if Nat.eqb x a then v else f x) = sumN k f.
Proof.
  intros k Hk. apply sN_ext. intros x Hx. destruct (Nat.eqb_spec x a); [lia|reflexivity].
Qed.

Lemma sN_upd n f a v : (a < n)%nat ->
  sumN n (fun x => if Nat.eqb x a then v else f x) = sumN n f - f a + v.
Proof.
  induction n as [|n IH]; intros H; [lia|].
  cbn [sumN]. destruct (Nat.eqb_spec n a) as [->|Hne].
  - rewrite sN_upd_below by lia. lia.
  - rewrite IH by lia. lia.
Qed.

Lemma sN_swap n m (f : nat -> nat -> Z) :
  sumN n (fun i => sumN m (fun j => f i j)) = sumN m (fun j => sumN n (fun i => f i j)).
Proof.
  induction n as [|n IH]; cbn [sumN].
  - symmetry. apply sN_zero. reflexivity.
  - rewrite IH. rewrite <- sN_add. reflexivity.
Qed.

(* roundings add up: n roundings, each off by at most B/2 *)
Lemma sN_round_bound n A B f g :
  (forall k, (k < n)%nat -> 2 * Z.abs (f k * A - g k) <= B) ->
  2 * Z.abs (sumN n f * A - sumN n g) <= Z.of_nat n * B.
Proof.
  induction n as [|n IH]; intros H; cbn [sumN]; [cbn; lia|].
  specialize (IH ltac:(intros; apply H; lia)). specialize (H n ltac:(lia)).
  rewrite Nat2Z.inj_succ. lia.
Qed.

(** * Accumulator arithmetic *)

Lemma NS_pos : 0 < NS. Proof. reflexivity. Qed.

Lemma secs_of_ns_0 : secs_of_ns 0 = 0. Proof. reflexivity. Qed.

Lemma secs_of_ns_bounds d : 0 <= d ->
  0 <= secs_of_ns d /\ 2 * d - NS <= 2 * (secs_of_ns d * NS) <= 2 * d + NS.
Proof.
  intros Hd. unfold secs_of_ns.
  pose proof (Z.div_mod d NS ltac:(unfold NS; lia)) as E.
  pose proof (Z.mod_pos_bound d NS NS_pos) as B.
  assert (0 <= d / NS) by (apply Z.div_pos; [lia|apply NS_pos]).
  set (q := d / NS) in *. set (r := d mod NS) in *.
  destruct (Z.ltb_spec (2 * r) NS); [lia|].
  destruct (Z.ltb_spec NS (2 * r)); [lia|].
  destruct (Z.even q); lia.
Qed.

(* whole seconds: exact *)
Lemma secs_of_ns_whole k : 0 <= k -> secs_of_ns (k * NS) = k.
Proof.
  intros Hk. unfold secs_of_ns. rewrite Z.mod_mul by (unfold NS; lia).
  rewrite Z.div_mul by (unfold NS; lia). reflexivity.
Qed.

(* getTimeElapsedWithinLimits = length of [a,b] /\ [lmin,lmax] *)
Lemma elapsed_within_spec a b lmin lmax : a <= b -> lmin <= lmax ->
  elapsed_within a b lmin lmax = Some (Z.max 0 (Z.min b lmax - Z.max a lmin)).
Proof.
  intros Hab Hl. unfold elapsed_within.
  destruct (Z.ltb_spec b a); [lia|]. destruct (Z.ltb_spec lmax lmin); [lia|].
  destruct (Z.ltb_spec lmax a); destruct (Z.ltb_spec b lmin); cbn [orb]; f_equal; lia.
Qed.

Lemma elapsed_within_none_iff a b lmin lmax :
  elapsed_within a b lmin lmax = None <-> (b < a \/ lmax < lmin).
Proof.
  unfold elapsed_within.
  destruct (Z.ltb_spec b a); [split; [lia|reflexivity]|].
  destruct (Z.ltb_spec lmax lmin); [split; [lia|reflexivity]|].
  destruct (_ || _); split; try discriminate; lia.
Qed.

(* consecutive accumulations count disjoint pieces that add up: no reward time is
   counted twice or lost, whatever the partition into blocks *)
Lemma elapsed_within_additive a t1 t2 lmin lmax d1 d2 d :
  a <= t1 -> t1 <= t2 -> lmin <= lmax ->
  elapsed_within a t1 lmin lmax = Some d1 ->
  elapsed_within (Z.min lmax t1) t2 lmin lmax = Some d2 ->
  elapsed_within a t2 lmin lmax = Some d ->
  d1 + d2 = d.
Proof.
  intros H1 H2 H3.
  rewrite !elapsed_within_spec by lia. intros E1 E2 E. inversion E1; inversion E2; inversion E. lia.
Qed.

Lemma index_increment_nonneg rate secs T : 0 <= rate -> 0 <= secs -> 0 < T ->
  0 <= index_increment rate secs T.
Proof.
  intros Hr Hs HT. unfold index_increment. apply dec_quo_nonneg; [|exact HT].
  apply dec_mul_nonneg; unfold dec_of_int, PREC; lia.
Qed.

Lemma dec_mul_of_ints r s : 0 <= r -> 0 <= s -> dec_mul (dec_of_int r) (dec_of_int s) = r * s * PREC.
Proof.
  intros Hr Hs. unfold dec_mul, dec_of_int.
  replace (r * PREC * (s * PREC)) with ((r * s * PREC) * PREC) by ring.
  apply chop_round_exact. unfold PREC. nia.
Qed.

(* the index increment times the total is the emitted reward, up to half a unit
   of the 18th decimal of the index upward and one and a half downward *)
Lemma index_increment_bounds rate secs T : 0 <= rate -> 0 <= secs -> 0 < T ->
  let q := index_increment rate secs T in
  2 * (q * T) <= 2 * (rate * secs) * PREC * PREC + T /\
  2 * (rate * secs) * PREC * PREC - 3 * T <= 2 * (q * T).
Proof.
  intros Hr Hs HT q. unfold q, index_increment. rewrite dec_mul_of_ints by lia.
  set (a := rate * secs * PREC).
  assert (Ha : 0 <= a) by (unfold a, PREC; nia).
  pose proof (dec_quo_bounds a T Ha HT) as B. cbv zeta in B.
  set (x := dec_quo a T) in *.
  pose proof (Z.div_mod (a * PREC * PREC) T ltac:(lia)) as E.
  pose proof (Z.mod_pos_bound (a * PREC * PREC) T HT) as M.
  set (t := a * PREC * PREC / T) in *. set (m := (a * PREC * PREC) mod T) in *.
  assert (P1 : 0 < PREC) by reflexivity.
  replace (2 * (rate * secs) * PREC * PREC) with (2 * (a * PREC)) by (unfold a; ring).
  split.
  - (* 2 x P <= 2 t + P and t T <= a P^2 *)
    assert (2 * (x * T) * PREC <= (2 * (a * PREC) + T) * PREC) by nia.
    nia.
  - assert ((2 * (a * PREC) - 3 * T) * PREC <= 2 * (x * T) * PREC) by nia.
    nia.
Qed.

Lemma new_reward_nonneg rate T dur : 0 <= rate -> 0 <= dur -> 0 <= new_reward rate T dur.
Proof.
  intros Hr Hd. unfold new_reward.
  destruct (Z.leb_spec T 0); [lia|].
  destruct (Z.leb_spec (secs_of_ns dur) 0); [lia|].
  apply index_increment_nonneg; lia.
Qed.

Lemma new_reward_zero_dur rate T : new_reward rate T 0 = 0.
Proof. unfold new_reward. rewrite secs_of_ns_0. destruct (T <=? 0); reflexivity. Qed.

Lemma emitted_of_nonneg rate T dur : 0 <= rate -> 0 <= dur -> 0 <= emitted_of rate T dur.
Proof.
  intros Hr Hd. unfold emitted_of. destruct (Z.leb_spec T 0); [lia|].
  destruct (Z.leb_spec (secs_of_ns dur) 0); [lia|]. nia.
Qed.

(* per accumulation: increment * total <= emitted + total/2 (units 10^36) *)
Lemma new_reward_bound rate T dur : 0 <= rate -> 0 <= dur -> 0 <= T ->
  2 * (new_reward rate T dur * T) <=
  2 * emitted_of rate T dur * PREC * PREC + (if 0 <? emitted_of rate T dur then T else 0).
Proof.
  intros Hr Hd HT. unfold new_reward, emitted_of.
  destruct (Z.leb_spec T 0); [cbn; lia|].
  destruct (Z.leb_spec (secs_of_ns dur) 0); [cbn; lia|].
  destruct (Z.eq_dec rate 0) as [->|Hne].
  - replace (index_increment 0 (secs_of_ns dur) T) with 0; [cbn; lia|].
    unfold index_increment, dec_of_int, dec_mul, dec_quo. cbn [Z.mul]. reflexivity.
  - destruct (Z.ltb_spec 0 (rate * secs_of_ns dur)); [|nia].
    pose proof (index_increment_bounds rate (secs_of_ns dur) T ltac:(lia) ltac:(lia) ltac:(lia)) as [B _].
    lia.
Qed.

(** * Window: what one accumulation counts *)

Lemma accumulate_time pd prev idx T t tm idx' :
  accumulate pd prev idx T t = Some (tm, idx') -> tm = Z.min (p_end pd) t.
Proof.
  unfold accumulate. destruct (elapsed_within _ _ _ _); intros H; inversion H. reflexivity.
Qed.

(* no accrual for time before the start of the period *)
Lemma accumulate_before_start pd prev idx T t tm idx' :
  prev <= t -> p_start pd <= p_end pd -> t <= p_start pd ->
  accumulate pd prev idx T t = Some (tm, idx') -> forall d, idx' d = idx d.
Proof.
  intros H1 H2 H3. unfold accumulate. rewrite elapsed_within_spec by lia.
  intros H; inversion H; subst. intros d.
  replace (Z.max 0 _) with 0 by lia. rewrite new_reward_zero_dur. lia.
Qed.

(* no accrual for time after the end of the period *)
Lemma accumulate_after_end pd prev idx T t tm idx' :
  prev <= t -> p_start pd <= p_end pd -> p_end pd <= prev ->
  accumulate pd prev idx T t = Some (tm, idx') -> forall d, idx' d = idx d.
Proof.
  intros H1 H2 H3. unfold accumulate. rewrite elapsed_within_spec by lia.
  intros H; inversion H; subst. intros d.
  replace (Z.max 0 _) with 0 by lia. rewrite new_reward_zero_dur. lia.
Qed.

(* inside the window the counted duration is exactly the overlap, the increment is
   index_increment rate (whole seconds) total *)
Lemma accumulate_spec pd prev idx T t :
  prev <= t -> p_start pd <= p_end pd ->
  accumulate pd prev idx T t =
  Some (Z.min (p_end pd) t,
        fun d => idx d + new_reward (p_rate pd d) T
                           (Z.max 0 (Z.min t (p_end pd) - Z.max prev (p_start pd)))).
Proof.
  intros H1 H2. unfold accumulate. rewrite elapsed_within_spec by lia. reflexivity.
Qed.

(** * The reward machine: well-formed environments and the invariant *)

Record env_wf (e : env) : Prop := {
  wf_order : forall p pd, periods e p = Some pd -> p_start pd <= p_end pd;
  wf_rate : forall p pd d, periods e p = Some pd -> 0 <= p_rate pd d
}.

Record Inv (e : env) (st : state) : Prop := {
  I_time : forall p x, g_time st p = Some x -> x <= now st;
  I_idx : forall u p d, 0 <= u_idx st u p d <= g_idx st p d;
  I_sh : forall u p, 0 <= sh st u p;
  I_tot : forall p, 0 <= tot st p;
  I_noclaim : forall u, has_claim st u = false -> forall p, sh st u p = 0;
  I_rew : forall u d, 0 <= rew st u d;
  (* exactness: what was synchronised (unrounded) plus what is still unsynchronised
     is the sum over all accumulations of index increment * shares held then *)
  I_exact : forall u d, due st u d + phi e st u d = integral st u d + drift st u d;
  (* the claim differs from the unrounded amount by half a unit (and half an
     18th decimal) per rounding *)
  I_round : forall u d,
    2 * Z.abs ((rew st u d + claimed st u d) * (PREC * PREC) - due st u d)
    <= nsync st u d * (PREC * PREC + PREC);
  I_nsync : forall u d, 0 <= nsync st u d
}.

Lemma sync_reward_zero s : sync_reward 0 s = 0.
Proof. unfold sync_reward, dec_round_int, dec_mul. cbn [Z.mul]. reflexivity. Qed.

Lemma sync_reward_nonneg dI s : 0 <= dI -> 0 <= s -> 0 <= sync_reward dI s.
Proof.
  intros H1 H2. unfold sync_reward, dec_round_int. apply chop_round_nonneg. apply dec_mul_nonneg; assumption.
Qed.

Lemma sync_reward_bounds dI s :
  2 * Z.abs (sync_reward dI s * (PREC * PREC) - dI * s) <= PREC * PREC + PREC.
Proof.
  unfold sync_reward, dec_round_int, dec_mul.
  pose proof (chop_round_bounds (dI * s)) as B1.
  pose proof (chop_round_bounds (chop_round (dI * s))) as B2.
  set (x := dI * s) in *. set (m := chop_round x) in *. set (c := chop_round m) in *.
  unfold PREC in *. lia.
Qed.

(* integer shares (swap): Mul is exact, only RoundInt rounds *)
Lemma sync_reward_int_shares dI k : sync_reward dI (dec_of_int k) = chop_round (dI * k).
Proof.
  unfold sync_reward, dec_round_int, dec_mul, dec_of_int. f_equal.
  replace (dI * (k * PREC)) with ((dI * k) * PREC) by ring.
  unfold chop_round.
  destruct (Z.ltb_spec (dI * k * PREC) 0) as [Hn|Hn].
  - replace (- (dI * k * PREC)) with ((- (dI * k)) * PREC) by ring.
    unfold chop_round_pos. rewrite Z.mod_mul, Z.div_mul by (unfold PREC; lia). cbn [Z.eqb]. lia.
  - unfold chop_round_pos. rewrite Z.mod_mul, Z.div_mul by (unfold PREC; lia). reflexivity.
Qed.

Lemma phi_nonneg e st u d : Inv e st -> 0 <= phi e st u d.
Proof.
  intros I. unfold phi. apply sN_nonneg. intros p _.
  pose proof (I_idx e st I u p d). pose proof (I_sh e st I u p). nia.
Qed.

Lemma sync_ok_true e st u p : Inv e st -> sync_ok e st u p = true.
Proof.
  intros I. unfold sync_ok. apply forallb_forall. intros d _.
  apply Z.leb_le. apply (I_idx e st I u p d).
Qed.

Lemma pool_dur_some e st t p : env_wf e -> Inv e st -> now st <= t ->
  exists dur, pool_dur e st t p = Some dur /\ 0 <= dur.
Proof.
  intros W I Ht. unfold pool_dur. destruct (periods e p) as [pd|] eqn:Ep.
  - pose proof (wf_order e W p pd Ep).
    assert (Hp : (match g_time st p with Some x => x | None => t end) <= t).
    { destruct (g_time st p) as [x|] eqn:Eg; [|lia]. pose proof (I_time e st I p x Eg). lia. }
    rewrite elapsed_within_spec by lia. eexists. split; [reflexivity|lia].
  - exists 0. split; [reflexivity|lia].
Qed.

Lemma pool_inc_nonneg e st t p d : env_wf e -> Inv e st -> now st <= t -> 0 <= pool_inc e st t p d.
Proof.
  intros W I Ht. unfold pool_inc, pool_val. destruct (periods e p) as [pd|] eqn:Ep; [|lia].
  destruct (pool_dur_some e st t p W I Ht) as [dur [E Hd]]. rewrite E.
  apply new_reward_nonneg; [apply (wf_rate e W p pd d Ep)|exact Hd].
Qed.

Lemma pool_bound e st t p d : env_wf e -> Inv e st -> now st <= t ->
  2 * (pool_inc e st t p d * tot st p) <= 2 * pool_emit e st t p d * PREC * PREC + pool_slack e st t p d.
Proof.
  intros W I Ht. unfold pool_inc, pool_emit, pool_slack, pool_val.
  destruct (periods e p) as [pd|] eqn:Ep; [|lia].
  destruct (pool_dur_some e st t p W I Ht) as [dur [E Hd]]. rewrite E.
  apply new_reward_bound; [apply (wf_rate e W p pd d Ep)|exact Hd|apply (I_tot e st I)].
Qed.

Lemma block_no_panic e st t : env_wf e -> Inv e st -> block e st t <> Panic.
Proof.
  intros W I. unfold block. destruct (Z.ltb_spec t (now st)); [discriminate|].
  destruct (existsb _ _) eqn:Ex; [|discriminate].
  apply existsb_exists in Ex. destruct Ex as [p [_ Hp]].
  destruct (pool_dur_some e st t p W I ltac:(lia)) as [dur [E _]]. rewrite E in Hp. discriminate.
Qed.

Lemma block_inv e st t st' : env_wf e -> Inv e st -> block e st t = Ok st' tt -> Inv e st'.
Proof.
  intros W I H. unfold block in H. destruct (Z.ltb_spec t (now st)); [discriminate|].
  destruct (existsb _ _); [discriminate|]. inversion H; subst st'; clear H.
  constructor; sproj.
  - intros p x. destruct (periods e p) as [pd|] eqn:Ep.
    + intros Hx; inversion Hx. lia.
    + intros Hx. pose proof (I_time e st I p x Hx). lia.
  - intros u p d. pose proof (I_idx e st I u p d). pose proof (pool_inc_nonneg e st t p d W I ltac:(lia)). lia.
  - apply (I_sh e st I).
  - apply (I_tot e st I).
  - apply (I_noclaim e st I).
  - apply (I_rew e st I).
  - intros u d. pose proof (I_exact e st I u d) as E. unfold phi in *; sproj.
    rewrite (sN_ext (npools e) _ (fun p => (g_idx st p d - u_idx st u p d) * sh st u p + pool_inc e st t p d * sh st u p))
      by (intros; ring).
    rewrite sN_add. lia.
  - apply (I_round e st I).
  - apply (I_nsync e st I).
Qed.

Lemma change_no_panic e st u p s' T' : Inv e st -> change e st u p s' T' <> Panic.
Proof.
  intros I. unfold change. destruct (negb _); [discriminate|]. destruct (_ || _); [discriminate|].
  destruct (_ =? 0); [discriminate|]. destruct (has_claim st u); [|discriminate].
  rewrite (sync_ok_true e st u p I). discriminate.
Qed.

Lemma change_inv e st u p s' T' st' : Inv e st -> change e st u p s' T' = Ok st' tt -> Inv e st'.
Proof.
  intros I H. unfold change in H.
  destruct (in_range e u p) eqn:Er; cbn [negb] in H; [|discriminate].
  destruct (Z.ltb_spec s' 0); cbn [orb] in H; [discriminate|].
  destruct (Z.ltb_spec T' 0); [discriminate|].
  unfold in_range in Er. apply andb_prop in Er. destruct Er as [_ Hp]. apply Nat.ltb_lt in Hp.
  destruct (Z.eqb_spec (sh st u p) 0) as [Hold|Hold].
  - (* AfterPoolDepositCreated *)
    inversion H; subst st'; clear H. unfold set_shares, init_claim. constructor; sproj.
    + apply (I_time e st I).
    + intros u' p' d. pose proof (I_idx e st I u' p' d). pose proof (I_idx e st I u p d).
      destruct (Nat.eqb_spec u' u) as [->|]; destruct (Nat.eqb_spec p' p) as [->|]; cbn [andb]; lia.
    + intros u' p'. pose proof (I_sh e st I u' p'). destruct (Nat.eqb u' u && Nat.eqb p' p); lia.
    + intros p'. pose proof (I_tot e st I p'). destruct (Nat.eqb p' p); lia.
    + intros u'. destruct (Nat.eqb_spec u' u); [discriminate|]. intros Hc p'. cbn [andb].
      apply (I_noclaim e st I u' Hc).
    + apply (I_rew e st I).
    + intros u' d. rewrite <- (I_exact e st I u' d). f_equal. unfold phi; sproj. apply sN_ext. intros q _.
      destruct (Nat.eqb_spec u' u) as [->|]; cbn [andb]; [|reflexivity].
      destruct (Nat.eqb_spec q p) as [->|]; [|reflexivity]. rewrite Hold. ring.
    + apply (I_round e st I).
    + apply (I_nsync e st I).
  - destruct (has_claim st u) eqn:Hc.
    + (* BeforePoolDepositModified *)
      rewrite (sync_ok_true e st u p I) in H. inversion H; subst st'; clear H.
      unfold set_shares, sync_pool. constructor; sproj.
      * apply (I_time e st I).
      * intros u' p' d. pose proof (I_idx e st I u' p' d). pose proof (I_idx e st I u p d).
        destruct (Nat.eqb_spec u' u) as [->|]; destruct (Nat.eqb_spec p' p) as [->|]; cbn [andb]; lia.
      * intros u' p'. pose proof (I_sh e st I u' p'). destruct (Nat.eqb u' u && Nat.eqb p' p); lia.
      * intros p'. pose proof (I_tot e st I p'). destruct (Nat.eqb p' p); lia.
      * intros u' Hc' p'. destruct (Nat.eqb_spec u' u) as [->|]; [congruence|]. cbn [andb].
        apply (I_noclaim e st I u' Hc').
      * intros u' d. destruct (Nat.eqb u' u); [|apply (I_rew e st I)].
        pose proof (I_rew e st I u d). pose proof (I_idx e st I u p d). pose proof (I_sh e st I u p).
        pose proof (sync_reward_nonneg (g_idx st p d - u_idx st u p d) (sh st u p) ltac:(lia) ltac:(lia)). lia.
      * intros u' d. rewrite <- (I_exact e st I u' d). unfold phi; sproj.
        destruct (Nat.eqb_spec u' u) as [->|Hne].
        -- rewrite (sN_ext (npools e) _
               (fun q => if Nat.eqb q p then 0 else (g_idx st q d - u_idx st u q d) * sh st u q)).
           ++ rewrite sN_upd by exact Hp. lia.
           ++ intros q _. cbn [andb]. destruct (Nat.eqb_spec q p) as [->|]; [ring|reflexivity].
        -- f_equal.
      * intros u' d. destruct (Nat.eqb_spec u' u) as [->|]; [|apply (I_round e st I)].
        pose proof (I_round e st I u d) as R.
        pose proof (sync_reward_bounds (g_idx st p d - u_idx st u p d) (sh st u p)) as B.
        set (c := sync_reward _ _) in *. unfold PREC in *. lia.
      * intros u' d. pose proof (I_nsync e st I u' d). pose proof (I_nsync e st I u d).
        destruct (Nat.eqb u' u); lia.
    + exfalso. apply Hold. apply (I_noclaim e st I u Hc).
Qed.

Lemma set_total_inv e st p T' st' : Inv e st -> set_total e st p T' = Ok st' tt -> Inv e st'.
Proof.
  intros I H. unfold set_total in H. destruct (negb _); cbn [orb] in H; [discriminate|].
  destruct (Z.ltb_spec T' 0); [discriminate|]. inversion H; subst st'; clear H.
  constructor; sproj; try apply I.
  intros p'. pose proof (I_tot e st I p'). destruct (Nat.eqb p' p); lia.
Qed.

Lemma revalue_inv e st u p s' st' : Inv e st -> revalue e st u p s' = Ok st' tt -> Inv e st'.
Proof.
  intros I H. unfold revalue in H.
  destruct (in_range e u p) eqn:Er; cbn [negb] in H; [|discriminate].
  destruct (Z.ltb_spec s' 0); [discriminate|].
  destruct (negb (has_claim st u) && negb (s' =? 0)) eqn:Hc; [discriminate|].
  unfold in_range in Er. apply andb_prop in Er. destruct Er as [_ Hp]. apply Nat.ltb_lt in Hp.
  inversion H; subst st'; clear H. constructor; sproj.
  - apply (I_time e st I).
  - apply (I_idx e st I).
  - intros u' p'. pose proof (I_sh e st I u' p'). destruct (Nat.eqb u' u && Nat.eqb p' p); lia.
  - apply (I_tot e st I).
  - intros u' Hc' p'. destruct (Nat.eqb_spec u' u) as [->|]; cbn [andb]; [|apply (I_noclaim e st I u' Hc')].
    destruct (Nat.eqb_spec p' p) as [->|]; [|apply (I_noclaim e st I u Hc')].
    rewrite Hc' in Hc. cbn [negb andb] in Hc. destruct (Z.eqb_spec s' 0); [assumption|discriminate].
  - apply (I_rew e st I).
  - intros u' d. pose proof (I_exact e st I u' d) as E. unfold phi in *; sproj.
    destruct (Nat.eqb_spec u' u) as [->|Hne]; [|exact E].
    rewrite (sN_ext (npools e) _
           (fun q => if Nat.eqb q p then (g_idx st p d - u_idx st u p d) * s'
                     else (g_idx st q d - u_idx st u q d) * sh st u q)).
    + rewrite sN_upd by exact Hp. lia.
    + intros q _. cbn [andb]. destruct (Nat.eqb_spec q p) as [->|]; reflexivity.
  - apply (I_round e st I).
  - apply (I_nsync e st I).
Qed.

(** the bkava accumulation *)

Lemma dec_quo_zero T : dec_quo 0 T = 0.
Proof. unfold dec_quo. cbn [Z.mul]. destruct T; reflexivity. Qed.

Lemma bk_rate_nonneg rate v V : 0 <= rate -> 0 <= v -> 0 <= V -> 0 <= bk_rate rate v V.
Proof.
  intros Hr Hv HV. unfold bk_rate. destruct (Z.eqb_spec V 0); [lia|].
  apply dec_quo_nonneg; [apply dec_mul_nonneg; unfold dec_of_int, PREC; nia|unfold dec_of_int, PREC; lia].
Qed.

Lemma bk_persec_nonneg r dur : 0 <= r -> 0 <= dur -> 0 <= bk_persec r dur.
Proof.
  intros Hr Hd. unfold bk_persec. cbv zeta. destruct (Z.leb_spec (secs_of_ns dur) 0); [lia|].
  apply dec_mul_nonneg; [exact Hr|unfold dec_of_int, PREC; lia].
Qed.

Lemma bk_rewards_nonneg r dur stk : 0 <= r -> 0 <= dur -> 0 <= stk -> 0 <= bk_rewards r dur stk.
Proof.
  intros Hr Hd Hs. unfold bk_rewards. pose proof (bk_persec_nonneg r dur Hr Hd). unfold dec_of_int, PREC. lia.
Qed.

Lemma bk_increment_nonneg rw T : 0 <= rw -> 0 <= bk_increment rw T.
Proof.
  intros H. unfold bk_increment. destruct (Z.leb_spec T 0); [lia|]. apply dec_quo_nonneg; lia.
Qed.

Lemma bk_emitted_nonneg rw T : 0 <= rw -> 0 <= bk_emitted rw T.
Proof. intros H. unfold bk_emitted. destruct (T <=? 0); lia. Qed.

(* per bkava accumulation: increment * total <= rewards + total/2 (units 10^36) *)
Lemma bk_bound rw T : 0 <= rw -> 0 <= T ->
  2 * (bk_increment rw T * T) <= 2 * bk_emitted rw T * PREC + (if 0 <? bk_emitted rw T then T else 0).
Proof.
  intros Hr HT. unfold bk_increment, bk_emitted. destruct (Z.leb_spec T 0); [cbn; lia|].
  destruct (Z.eq_dec rw 0) as [->|Hne]; [rewrite dec_quo_zero; cbn; lia|].
  destruct (Z.ltb_spec 0 rw); [|lia].
  pose proof (dec_quo_bounds rw T Hr ltac:(lia)) as B. cbv zeta in B.
  set (x := dec_quo rw T) in *.
  pose proof (Z.div_mod (rw * PREC * PREC) T ltac:(lia)) as E.
  pose proof (Z.mod_pos_bound (rw * PREC * PREC) T ltac:(lia)) as M.
  set (t := rw * PREC * PREC / T) in *. set (m := (rw * PREC * PREC) mod T) in *.
  assert (P1 : 0 < PREC) by reflexivity.
  assert (2 * (x * T) * PREC <= (2 * (rw * PREC) + T) * PREC) by nia.
  nia.
Qed.

Lemma period_ok_spec nd pd : period_ok nd pd = true ->
  p_start pd <= p_end pd /\ forall d, (d < nd)%nat -> 0 <= p_rate pd d.
Proof.
  unfold period_ok. intros H. apply andb_prop in H. destruct H as [H1 H2]. split; [apply Z.leb_le; exact H1|].
  intros d Hd. rewrite forallb_forall in H2. apply Z.leb_le. apply H2. apply in_seq. lia.
Qed.

(* what a successful bkava accumulation established about its arguments *)
Lemma bk_acc_ok e st p pd v V stk st' : Inv e st -> bk_acc e st p pd v V stk = Ok st' tt ->
  exists dur, (p < npools e)%nat /\ periods e p = None /\ 0 <= dur /\
  (forall d, 0 <= bk_rw e st p pd v V stk dur d) /\
  (forall d, (d < ndenoms e)%nat -> 0 <= stk d) /\
  st' = let rw := bk_rw e st p pd v V stk dur in
        let inc := fun d => bk_increment (rw d) (tot st p) in
        mkState (now st)
            (fun p' => if Nat.eqb p' p then Some (Z.min (p_end pd) (now st)) else g_time st p')
            (fun p' d => if Nat.eqb p' p then g_idx st p d + inc d else g_idx st p' d)
            (tot st) (sh st) (has_claim st) (u_idx st) (rew st)
            (fun d => macc st d + (if Nat.ltb d (ndenoms e) then stk d else 0))
            (bal st)
            (fun u d => integral st u d + inc d * sh st u p)
            (due st) (nsync st) (claimed st) (emitted st)
            (fun d => accslack st d + (if 0 <? bk_emitted (rw d) (tot st p) then tot st p else 0))
            (drift st)
            (fun d => overshare st d + inc d * excess e st p)
            (fun d => emitted_x st d + bk_emitted (rw d) (tot st p)).
Proof.
  intros I H. unfold bk_acc in H.
  destruct (Nat.ltb_spec p (npools e)) as [Hp|]; cbn [negb] in H; [|discriminate].
  destruct (periods e p) eqn:Ep; [discriminate|].
  destruct (period_ok (ndenoms e) pd) eqn:Pk; cbn [negb orb] in H; [|discriminate].
  destruct (Z.ltb_spec v 0); cbn [orb] in H; [discriminate|].
  destruct (Z.ltb_spec V v); cbn [orb] in H; [discriminate|].
  destruct (existsb _ _) eqn:Ex; [discriminate|].
  destruct (period_ok_spec _ _ Pk) as [Ho Hr].
  assert (Hprev : (match g_time st p with Some x => x | None => now st end) <= now st).
  { destruct (g_time st p) as [x|] eqn:Eg; [apply (I_time e st I p x Eg)|lia]. }
  rewrite elapsed_within_spec in H by lia.
  inversion H; subst st'; clear H.
  assert (Hs : forall d, (d < ndenoms e)%nat -> 0 <= stk d).
  { intros d Hd. destruct (Z.ltb_spec (stk d) 0) as [Hn|]; [|lia]. exfalso.
    assert (existsb (fun d => stk d <? 0) (seq 0 (ndenoms e)) = true); [|congruence].
    apply existsb_exists. exists d. split; [apply in_seq; lia|apply Z.ltb_lt; exact Hn]. }
  eexists. repeat split; try eassumption.
  - apply Z.le_max_l.
  - intros d. unfold bk_rw. destruct (Nat.ltb_spec d (ndenoms e)); [|lia].
    apply bk_rewards_nonneg; [apply bk_rate_nonneg; try lia; apply Hr; assumption|apply Z.le_max_l|apply Hs; assumption].
Qed.

Lemma bk_acc_inv e st p pd v V stk st' : Inv e st -> bk_acc e st p pd v V stk = Ok st' tt -> Inv e st'.
Proof.
  intros I H. destruct (bk_acc_ok _ _ _ _ _ _ _ _ I H) as [dur [Hp [Ep [Hd [Hrw [Hs ->]]]]]].
  cbv zeta. set (rw := bk_rw e st p pd v V stk dur) in *.
  assert (Hinc : forall d, 0 <= bk_increment (rw d) (tot st p)) by (intros; apply bk_increment_nonneg; apply Hrw).
  constructor; sproj.
  - intros p' x. destruct (Nat.eqb_spec p' p); [intros Hx; inversion Hx; lia|apply (I_time e st I)].
  - intros u p' d. pose proof (I_idx e st I u p' d). pose proof (I_idx e st I u p d). specialize (Hinc d).
    destruct (Nat.eqb_spec p' p) as [->|]; lia.
  - apply (I_sh e st I).
  - apply (I_tot e st I).
  - apply (I_noclaim e st I).
  - apply (I_rew e st I).
  - intros u d. pose proof (I_exact e st I u d) as E. unfold phi in *; sproj.
    rewrite (sN_ext (npools e) _
           (fun q => if Nat.eqb q p then (g_idx st p d - u_idx st u p d) * sh st u p + bk_increment (rw d) (tot st p) * sh st u p
                     else (g_idx st q d - u_idx st u q d) * sh st u q)).
    + rewrite sN_upd by exact Hp. lia.
    + intros q _. destruct (Nat.eqb_spec q p) as [->|]; [ring|reflexivity].
  - apply (I_round e st I).
  - apply (I_nsync e st I).
Qed.

Lemma sync_all_inv e st u : Inv e st -> Inv e (sync_all e st u).
Proof.
  intros I. unfold sync_all. constructor; sproj.
  - apply (I_time e st I).
  - intros u' p d. pose proof (I_idx e st I u' p d). destruct (Nat.eqb u' u && Nat.ltb p (npools e)); lia.
  - apply (I_sh e st I).
  - apply (I_tot e st I).
  - apply (I_noclaim e st I).
  - intros u' d. destruct (Nat.eqb u' u); [|apply (I_rew e st I)].
    pose proof (I_rew e st I u d).
    assert (0 <= sumN (npools e) (fun p => sync_reward (g_idx st p d - u_idx st u p d) (sh st u p))); [|lia].
    apply sN_nonneg. intros p _. pose proof (I_idx e st I u p d). pose proof (I_sh e st I u p).
    apply sync_reward_nonneg; lia.
  - intros u' d. rewrite <- (I_exact e st I u' d). unfold phi; sproj.
    destruct (Nat.eqb_spec u' u) as [->|Hne].
    + rewrite (sN_zero (npools e) (fun p => (g_idx st p d - (if true && Nat.ltb p (npools e) then g_idx st p d else u_idx st u p d)) * sh st u p)).
      * lia.
      * intros p Hp. apply Nat.ltb_lt in Hp. rewrite Hp. cbn [andb]. ring.
    + f_equal.
  - intros u' d. destruct (Nat.eqb_spec u' u) as [->|]; [|apply (I_round e st I)].
    pose proof (I_round e st I u d) as R.
    pose proof (sN_round_bound (npools e) (PREC * PREC) (PREC * PREC + PREC)
                  (fun p => sync_reward (g_idx st p d - u_idx st u p d) (sh st u p))
                  (fun p => (g_idx st p d - u_idx st u p d) * sh st u p)
                  ltac:(intros; apply sync_reward_bounds)) as B.
    set (C := sumN _ (fun p => sync_reward _ _)) in *. set (X := sumN _ (fun p => _ * _)) in *.
    unfold PREC in *. lia.
  - intros u' d. pose proof (I_nsync e st I u' d). pose proof (I_nsync e st I u d).
    destruct (Nat.eqb u' u); lia.
Qed.

Lemma claim_no_panic e st u d m : Inv e st -> 0 <= match m with Some x => x | None => 0 end ->
  claim e st u d m <> Panic.
Proof.
  intros I Hm. unfold claim. destruct m as [m|]; [|discriminate].
  destruct (negb _); [discriminate|]. destruct (_ <? _); [discriminate|].
  destruct (negb (has_claim st u)); [discriminate|].
  assert (F : forallb (sync_ok e st u) (seq 0 (npools e)) = true).
  { apply forallb_forall. intros p _. apply sync_ok_true. exact I. }
  rewrite F. cbn [negb].
  pose proof (I_rew e (sync_all e st u) (sync_all_inv e st u I) u d) as Hr.
  assert (0 <= dec_round_int (dec_mul (dec_of_int (rew (sync_all e st u) u d)) m)).
  { unfold dec_round_int. apply chop_round_nonneg. apply dec_mul_nonneg; [unfold dec_of_int, PREC; lia|exact Hm]. }
  destruct (Z.ltb_spec (dec_round_int (dec_mul (dec_of_int (rew (sync_all e st u) u d)) m)) 0); [lia|].
  destruct (_ =? 0); [discriminate|]. destruct (_ <? _); discriminate.
Qed.

Lemma claim_inv e st u d m st' : Inv e st -> claim e st u d m = Ok st' tt -> Inv e st'.
Proof.
  intros I H. unfold claim in H. destruct m as [m|]; [|discriminate].
  destruct (negb _); [discriminate|]. destruct (_ <? _); [discriminate|].
  destruct (negb (has_claim st u)); [discriminate|]. destruct (negb _); [discriminate|].
  pose proof (sync_all_inv e st u I) as J.
  assert (Ec : claimed (sync_all e st u) = claimed st) by reflexivity.
  remember (sync_all e st u) as st1 eqn:E1. clear E1.
  destruct (_ <? 0); [discriminate|]. destruct (_ =? 0); [discriminate|].
  destruct (_ <? _); [discriminate|].
  inversion H; subst st'; clear H.
  constructor; sproj; try apply J.
  - intros u' d'. pose proof (I_rew e _ J u' d'). destruct (Nat.eqb u' u && Nat.eqb d' d); lia.
  - intros u' d'. pose proof (I_round e _ J u' d') as R. rewrite Ec in R.
    destruct (Nat.eqb_spec u' u) as [->|]; cbn [andb]; [|exact R].
    destruct (Nat.eqb_spec d' d) as [->|]; [|exact R].
    replace (0 + (claimed st u d + rew st1 u d)) with (rew st1 u d + claimed st u d) by lia.
    exact R.
Qed.

Lemma step_inv e st o st' : env_wf e -> Inv e st -> step e st o = Ok st' tt -> Inv e st'.
Proof.
  intros W I H. destruct o as [t|u p s' T'|p T'|u d m|ok|u p s'|p pd v V stk]; cbn [step] in H.
  - eapply block_inv; eassumption.
  - eapply change_inv; eassumption.
  - eapply set_total_inv; eassumption.
  - eapply claim_inv; eassumption.
  - destruct ok; [inversion H; subst; exact I|discriminate].
  - eapply revalue_inv; eassumption.
  - eapply bk_acc_inv; eassumption.
Qed.

Lemma step'_inv e st o : env_wf e -> Inv e st -> Inv e (step' e st o).
Proof.
  intros W I. unfold step'. destruct (step e st o) as [s' []| |] eqn:E; [|exact I|exact I].
  eapply step_inv; eassumption.
Qed.

Lemma run_inv e ops : forall st, env_wf e -> Inv e st -> Inv e (run e st ops).
Proof.
  induction ops as [|o ops IH]; intros st W I; [exact I|].
  cbn [run fold_left]. apply IH; [exact W|]. apply step'_inv; assumption.
Qed.

Lemma init_inv e t0 m0 gt0 tot0 : (forall p x, gt0 p = Some x -> x <= t0) -> (forall p, 0 <= tot0 p) ->
  Inv e (init t0 m0 gt0 tot0).
Proof.
  intros H HT. unfold init. constructor; sproj; try (intros; lia); try (intros; reflexivity).
  - exact H.
  - exact HT.
  - intros u d. unfold phi; sproj. rewrite sN_zero; [reflexivity|]. intros; ring.
Qed.

(** * Accrued rewards only move when time is accumulated *)

Lemma pending_ext e st1 st2 u d :
  rew st1 u d = rew st2 u d ->
  (forall p, (p < npools e)%nat ->
     sync_reward (g_idx st1 p d - u_idx st1 u p d) (sh st1 u p) =
     sync_reward (g_idx st2 p d - u_idx st2 u p d) (sh st2 u p)) ->
  pending e st1 u d = pending e st2 u d.
Proof. intros H1 H2. unfold pending. rewrite H1. f_equal. apply sN_ext. exact H2. Qed.

(* what GetSynchronizedClaim reports for u is not changed by any position
   change (another user's or u's own), any change of a total, any message that
   changes no position, nor by another user's claim or revalue *)
Lemma pending_preserved e st o st' u d :
  Inv e st -> step e st o = Ok st' tt ->
  match o with Block _ | BkAcc _ _ _ _ _ => False | Claim v _ _ | Revalue v _ _ => v <> u | _ => True end ->
  pending e st' u d = pending e st u d.
Proof.
  intros I H Ho. destruct o as [t|v p s' T'|p T'|v d0 m|ok|v p s'|p pd v V stk]; cbn [step] in H; [contradiction| | | | | |contradiction].
  - (* Change *)
    unfold change in H.
    destruct (in_range e v p) eqn:Er; cbn [negb] in H; [|discriminate].
    destruct (_ || _); [discriminate|].
    unfold in_range in Er. apply andb_prop in Er. destruct Er as [_ Hp]. apply Nat.ltb_lt in Hp.
    destruct (Z.eqb_spec (sh st v p) 0) as [Hold|Hold].
    + inversion H; subst st'; clear H. unfold pending, set_shares, init_claim; sproj.
      f_equal. apply sN_ext. intros q _.
      destruct (Nat.eqb_spec u v) as [->|]; cbn [andb]; [|reflexivity].
      destruct (Nat.eqb_spec q p) as [->|]; [|reflexivity].
      rewrite Z.sub_diag, sync_reward_zero, Hold.
      unfold sync_reward, dec_round_int, dec_mul. rewrite Z.mul_0_r. reflexivity.
    + destruct (has_claim st v) eqn:Hc.
      * rewrite (sync_ok_true e st v p I) in H. inversion H; subst st'; clear H.
        unfold pending, set_shares, sync_pool; sproj.
        destruct (Nat.eqb_spec u v) as [->|Hne].
        -- rewrite (sN_ext (npools e) _
              (fun q => if Nat.eqb q p then 0 else sync_reward (g_idx st q d - u_idx st v q d) (sh st v q))).
           ++ rewrite sN_upd by exact Hp. lia.
           ++ intros q _. cbn [andb]. destruct (Nat.eqb_spec q p) as [->|]; [|reflexivity].
              rewrite Z.sub_diag. apply sync_reward_zero.
        -- reflexivity.
      * exfalso. apply Hold. apply (I_noclaim e st I v Hc).
  - (* SetTotal *)
    unfold set_total in H. destruct (_ || _); [discriminate|]. inversion H; subst st'; clear H. reflexivity.
  - (* Claim by another user *)
    unfold claim in H. destruct m as [m|]; [|discriminate].
    destruct (negb _); [discriminate|]. destruct (_ <? _); [discriminate|].
    destruct (negb (has_claim st v)); [discriminate|]. destruct (negb _); [discriminate|].
    destruct (_ <? 0); [discriminate|]. destruct (_ =? 0); [discriminate|].
    destruct (_ <? _); [discriminate|].
    inversion H; subst st'; clear H. unfold pending, sync_all; sproj.
    destruct (Nat.eqb_spec u v) as [->|Hne]; [congruence|]. cbn [andb]. reflexivity.
  - destruct ok; [inversion H; subst; reflexivity|discriminate].
  - (* Revalue of another user *)
    unfold revalue in H. destruct (negb _); [discriminate|]. destruct (_ <? _); [discriminate|].
    destruct (_ && _); [discriminate|]. inversion H; subst st'; clear H. unfold pending; sproj.
    f_equal. apply sN_ext. intros q _. destruct (Nat.eqb_spec u v) as [->|Hne]; [congruence|]. reflexivity.
Qed.

(* a revalue moves the user's own unsynchronised reward by the accrued index
   difference times the change of shares (re-rounded), and nothing else *)
Lemma pending_revalue e st u p s' st' d :
  revalue e st u p s' = Ok st' tt ->
  pending e st' u d = pending e st u d
     - sync_reward (g_idx st p d - u_idx st u p d) (sh st u p)
     + sync_reward (g_idx st p d - u_idx st u p d) s'.
Proof.
  intros H. unfold revalue in H.
  destruct (in_range e u p) eqn:Er; cbn [negb] in H; [|discriminate].
  destruct (_ <? _); [discriminate|]. destruct (_ && _); [discriminate|].
  unfold in_range in Er. apply andb_prop in Er. destruct Er as [_ Hp]. apply Nat.ltb_lt in Hp.
  inversion H; subst st'; clear H. unfold pending; sproj. rewrite Nat.eqb_refl.
  rewrite (sN_ext (npools e) _
         (fun q => if Nat.eqb q p then sync_reward (g_idx st p d - u_idx st u p d) s'
                   else sync_reward (g_idx st q d - u_idx st u q d) (sh st u q))).
  - rewrite sN_upd by exact Hp. lia.
  - intros q _. cbn [andb]. destruct (Nat.eqb_spec q p) as [->|]; reflexivity.
Qed.

(* ... which is within one rounding of (index difference) * (change of shares) *)
Lemma pending_revalue_bound e st u p s' st' d :
  revalue e st u p s' = Ok st' tt ->
  Z.abs ((pending e st' u d - pending e st u d) * (PREC * PREC)
         - (g_idx st p d - u_idx st u p d) * (s' - sh st u p)) <= PREC * PREC + PREC.
Proof.
  intros H. rewrite (pending_revalue e st u p s' st' d H).
  pose proof (sync_reward_bounds (g_idx st p d - u_idx st u p d) (sh st u p)) as B1.
  pose proof (sync_reward_bounds (g_idx st p d - u_idx st u p d) s') as B2.
  set (a := sync_reward _ (sh st u p)) in *. set (b := sync_reward _ s') in *.
  set (dI := g_idx st p d - u_idx st u p d) in *. unfold PREC in *. lia.
Qed.

(* a block moves u's accrued reward only through the global indexes and u's own
   shares: nobody else's position enters *)
Lemma pending_block e st t st' u d :
  block e st t = Ok st' tt ->
  pending e st' u d =
  rew st u d + sumN (npools e) (fun p =>
    sync_reward (g_idx st p d + pool_inc e st t p d - u_idx st u p d) (sh st u p)).
Proof.
  intros H. unfold block in H. destruct (_ <? _); [discriminate|]. destruct (existsb _ _); [discriminate|].
  inversion H; subst st'; clear H. reflexivity.
Qed.

(** * Claims *)

Definition pay_of (amt m : Z) : Z := dec_round_int (dec_mul (dec_of_int amt) m).

Lemma rew_sync_all e st u d : rew (sync_all e st u) u d = pending e st u d.
Proof. unfold sync_all, pending; sproj. rewrite Nat.eqb_refl. reflexivity. Qed.

Lemma pending_zero_after_sync e st u d' :
  pending e (sync_all e st u) u d' = rew (sync_all e st u) u d'.
Proof.
  unfold pending. rewrite (sN_zero (npools e)); [lia|].
  intros p Hp. unfold sync_all; sproj. rewrite Nat.eqb_refl. apply Nat.ltb_lt in Hp. rewrite Hp. cbn [andb].
  rewrite Z.sub_diag. apply sync_reward_zero.
Qed.

Lemma rew_sync_all_other e st u v d : v <> u -> rew (sync_all e st u) v d = rew st v d.
Proof. intros H. unfold sync_all; sproj. destruct (Nat.eqb_spec v u); [congruence|reflexivity]. Qed.

Lemma pending_sync_all_self e st u d : pending e (sync_all e st u) u d = pending e st u d.
Proof. rewrite pending_zero_after_sync. apply rew_sync_all. Qed.

Lemma pending_sync_all_other e st u v d : v <> u -> pending e (sync_all e st u) v d = pending e st v d.
Proof.
  intros H. unfold pending, sync_all; sproj. destruct (Nat.eqb_spec v u); [congruence|]. cbn [andb]. reflexivity.
Qed.

Lemma pending_congr e st1 st2 v d :
  g_idx st2 = g_idx st1 -> u_idx st2 = u_idx st1 -> sh st2 = sh st1 ->
  pending e st2 v d = rew st2 v d + pending e st1 v d - rew st1 v d.
Proof. intros H1 H2 H3. unfold pending. rewrite H1, H2, H3. lia. Qed.

(* a successful claim pays exactly RoundInt(accrued * multiplier) out of the
   incentive account to the owner, zeroes that denom of the claim, keeps the
   (synchronised) rewards of the other denoms and touches nobody else *)
Lemma claim_exact e st u d m st' :
  claim e st u d (Some m) = Ok st' tt ->
  let pay := pay_of (pending e st u d) m in
  0 < pay /\ pay <= macc st d /\ now st <= claim_end e /\
  bal st' u d = bal st u d + pay /\
  macc st' d = macc st d - pay /\
  rew st' u d = 0 /\ pending e st' u d = 0 /\
  (forall d', d' <> d -> pending e st' u d' = pending e st u d' /\ bal st' u d' = bal st u d' /\ macc st' d' = macc st d') /\
  (forall v d', v <> u -> pending e st' v d' = pending e st v d' /\ bal st' v d' = bal st v d' /\ rew st' v d' = rew st v d') /\
  sh st' = sh st /\ g_idx st' = g_idx st /\ tot st' = tot st.
Proof.
  intros H pay. unfold claim in H.
  destruct (negb _); [discriminate|]. destruct (Z.ltb_spec (claim_end e) (now st)); [discriminate|].
  destruct (negb (has_claim st u)); [discriminate|]. destruct (negb _); [discriminate|].
  rewrite rew_sync_all in H. fold (pay_of (pending e st u d) m) in H. fold pay in H.
  destruct (Z.ltb_spec pay 0); [discriminate|]. destruct (Z.eqb_spec pay 0); [discriminate|].
  destruct (Z.ltb_spec (macc st d) pay); [discriminate|].
  pose proof (fun d' => pending_sync_all_self e st u d') as PS.
  pose proof (fun v d' (Hv : v <> u) => pending_sync_all_other e st u v d' Hv) as PO.
  pose proof (fun d' => rew_sync_all e st u d') as RS.
  pose proof (fun v d' (Hv : v <> u) => rew_sync_all_other e st u v d' Hv) as RO.
  assert (E1 : sh (sync_all e st u) = sh st) by reflexivity.
  assert (E2 : g_idx (sync_all e st u) = g_idx st) by reflexivity.
  assert (E3 : tot (sync_all e st u) = tot st) by reflexivity.
  remember (sync_all e st u) as st1 eqn:Es. clear Es.
  inversion H; subst st'; clear H. sproj. rewrite !Nat.eqb_refl. cbn [andb].
  repeat split; try assumption; try lia.
  - rewrite (pending_congr e st1) by reflexivity. sproj. rewrite !Nat.eqb_refl. cbn [andb]. rewrite PS, RS. lia.
  - rewrite (pending_congr e st1) by reflexivity. sproj.
    destruct (Nat.eqb_spec d' d); [congruence|]. rewrite Bool.andb_false_r. rewrite PS. lia.
  - destruct (Nat.eqb_spec d' d); [congruence|]. reflexivity.
  - destruct (Nat.eqb_spec d' d); [congruence|]. reflexivity.
  - rewrite (pending_congr e st1) by reflexivity. sproj.
    destruct (Nat.eqb_spec v u); [congruence|]. cbn [andb]. rewrite PO by assumption. lia.
  - destruct (Nat.eqb_spec v u); [congruence|]. reflexivity.
  - destruct (Nat.eqb_spec v u); [congruence|]. cbn [andb]. apply RO. assumption.
Qed.

(* an immediate second claim of the same denom is refused, whatever the multiplier *)
Lemma second_claim_refused e st u d m st' m2 :
  claim e st u d (Some m) = Ok st' tt -> claim e st' u d m2 = Err.
Proof.
  intros H. pose proof (claim_exact e st u d m st' H) as [_ [_ [_ [_ [_ [_ [Hz _]]]]]]].
  unfold claim. destruct m2 as [m2|]; [|reflexivity].
  destruct (negb _); [reflexivity|]. destruct (_ <? _); [reflexivity|].
  destruct (negb (has_claim st' u)); [reflexivity|].
  destruct (negb _) eqn:Ok1.
  - (* the sync cannot panic: every user index of u equals the global one *)
    exfalso. apply Bool.negb_true_iff in Ok1.
    assert (F : forallb (sync_ok e st' u) (seq 0 (npools e)) = true); [|congruence].
    apply forallb_forall. intros p Hp. apply in_seq in Hp.
    unfold claim in H.
    destruct (negb _); [discriminate|]. destruct (_ <? _); [discriminate|].
    destruct (negb (has_claim st u)); [discriminate|]. destruct (negb _); [discriminate|].
    destruct (_ <? 0); [discriminate|]. destruct (_ =? 0); [discriminate|]. destruct (_ <? _); [discriminate|].
    inversion H; subst st'. unfold sync_ok, sync_all; sproj. apply forallb_forall. intros d' _.
    rewrite Nat.eqb_refl. destruct (Nat.ltb_spec p (npools e)); [|lia]. cbn [andb]. apply Z.leb_refl.
  - rewrite rew_sync_all, Hz.
    replace (dec_round_int (dec_mul (dec_of_int 0) m2)) with 0 by reflexivity. reflexivity.
Qed.

Lemma claim_after_deadline_refused e st u d m : claim_end e < now st -> claim e st u d m = Err.
Proof.
  intros H. unfold claim. destruct m as [m|]; [|reflexivity].
  destruct (negb _); [reflexivity|]. destruct (Z.ltb_spec (claim_end e) (now st)); [reflexivity|lia].
Qed.

(** * The claim is the integral, up to the stated roundings *)

(* for every user and reward denom, in every state satisfying the invariant:
   (synchronised claim + already claimed) * 10^36 is within
   (roundings so far + one per pool) * (10^36 + 10^18) / 2 of the exact integral *)
Lemma pending_is_integral e st u d : Inv e st ->
  2 * Z.abs ((pending e st u d + claimed st u d) * (PREC * PREC) - (integral st u d + drift st u d))
  <= (nsync st u d + Z.of_nat (npools e)) * (PREC * PREC + PREC).
Proof.
  intros I. pose proof (sync_all_inv e st u I) as J.
  pose proof (I_round e _ J u d) as R. pose proof (I_exact e _ J u d) as E.
  rewrite rew_sync_all in R.
  assert (P0 : phi e (sync_all e st u) u d = 0).
  { unfold phi. apply sN_zero. intros p Hp. unfold sync_all; sproj. rewrite Nat.eqb_refl.
    apply Nat.ltb_lt in Hp. rewrite Hp. cbn [andb]. ring. }
  rewrite P0 in E.
  replace (claimed (sync_all e st u) u d) with (claimed st u d) in R by reflexivity.
  replace (integral (sync_all e st u) u d) with (integral st u d) in E by reflexivity.
  replace (drift (sync_all e st u) u d) with (drift st u d) in E by reflexivity.
  replace (nsync (sync_all e st u) u d) with (nsync st u d + Z.of_nat (npools e)) in R
    by (unfold sync_all; sproj; rewrite Nat.eqb_refl; reflexivity).
  lia.
Qed.

(** * Never over-distributed *)

(* the emission bound on the exact integrals holds along EVERY history, with the
   explicit term [overshare] for accumulations at which the users' shares
   exceeded the total the accumulation divided by *)
Definition OverInv (e : env) (st : state) : Prop :=
  forall d, 0 <= overshare st d /\
            2 * sumN (nusers e) (fun u => integral st u d)
            <= 2 * emitted st d * (PREC * PREC) + 2 * emitted_x st d * PREC + accslack st d
               + 2 * overshare st d.

Lemma excess_nonneg e st p : 0 <= excess e st p.
Proof. unfold excess. apply Z.le_max_l. Qed.

Lemma shares_le_tot_excess e st p : shares_sum e st p <= tot st p + excess e st p.
Proof. unfold excess. lia. Qed.

Lemma block_over e st t st' : env_wf e -> Inv e st ->
  OverInv e st -> block e st t = Ok st' tt -> OverInv e st'.
Proof.
  intros W I O H. unfold block in H. destruct (Z.ltb_spec t (now st)); [discriminate|].
  destruct (existsb _ _); [discriminate|]. inversion H; subst st'; clear H.
  intros d. destruct (O d) as [O0 O1]. sproj.
  assert (N : 0 <= sumN (npools e) (fun p => pool_inc e st t p d * excess e st p)).
  { apply sN_nonneg. intros p _. pose proof (pool_inc_nonneg e st t p d W I ltac:(lia)).
    pose proof (excess_nonneg e st p). nia. }
  split; [lia|].
  rewrite sN_add.
  rewrite (sN_swap (nusers e) (npools e) (fun u p => pool_inc e st t p d * sh st u p)).
  assert (B : 2 * sumN (npools e) (fun p => sumN (nusers e) (fun u => pool_inc e st t p d * sh st u p))
              <= sumN (npools e) (fun p => 2 * pool_emit e st t p d * PREC * PREC + pool_slack e st t p d
                                           + 2 * (pool_inc e st t p d * excess e st p))).
  { rewrite <- sN_scale. apply sN_le. intros p Hp. rewrite sN_scale.
    pose proof (pool_bound e st t p d W I ltac:(lia)) as PB.
    pose proof (pool_inc_nonneg e st t p d W I ltac:(lia)) as PN.
    pose proof (shares_le_tot_excess e st p) as S. unfold shares_sum in S.
    assert (pool_inc e st t p d * sumN (nusers e) (fun u => sh st u p)
            <= pool_inc e st t p d * tot st p + pool_inc e st t p d * excess e st p) by nia.
    lia. }
  rewrite !sN_add in B.
  rewrite (sN_ext (npools e) (fun p => 2 * pool_emit e st t p d * PREC * PREC)
             (fun p => (2 * PREC * PREC) * pool_emit e st t p d)) in B by (intros; ring).
  rewrite !sN_scale in B. lia.
Qed.

Lemma bk_acc_over e st p pd v V stk st' : Inv e st ->
  OverInv e st -> bk_acc e st p pd v V stk = Ok st' tt -> OverInv e st'.
Proof.
  intros I O H. destruct (bk_acc_ok _ _ _ _ _ _ _ _ I H) as [dur [Hp [Ep [Hd [Hrw [Hs ->]]]]]].
  cbv zeta. set (rw := bk_rw e st p pd v V stk dur) in *.
  intros d. destruct (O d) as [O0 O1]. sproj.
  pose proof (bk_increment_nonneg (rw d) (tot st p) (Hrw d)) as PN.
  pose proof (excess_nonneg e st p) as EN.
  split; [nia|].
  rewrite sN_add.
  rewrite (sN_scale (nusers e) (bk_increment (rw d) (tot st p)) (fun u => sh st u p)).
  fold (shares_sum e st p).
  pose proof (bk_bound (rw d) (tot st p) (Hrw d) (I_tot e st I p)) as BB.
  pose proof (shares_le_tot_excess e st p) as S.
  assert (bk_increment (rw d) (tot st p) * shares_sum e st p
          <= bk_increment (rw d) (tot st p) * tot st p + bk_increment (rw d) (tot st p) * excess e st p) by nia.
  lia.
Qed.

Lemma step_over e st o st' : env_wf e -> Inv e st ->
  OverInv e st -> step e st o = Ok st' tt -> OverInv e st'.
Proof.
  intros W I O H. destruct o as [t|u p s' T'|p T'|u d m|ok|u p s'|p pd v V stk]; cbn [step] in H.
  - eapply block_over; eassumption.
  - unfold change in H. destruct (negb _); [discriminate|]. destruct (_ || _); [discriminate|].
    destruct (_ =? 0); [inversion H; subst; exact O|].
    destruct (has_claim st u); [|inversion H; subst; exact O].
    destruct (sync_ok e st u p); [inversion H; subst; exact O|discriminate].
  - unfold set_total in H. destruct (_ || _); [discriminate|]. inversion H; subst; exact O.
  - unfold claim in H. destruct m as [m|]; [|discriminate].
    destruct (negb _); [discriminate|]. destruct (_ <? _); [discriminate|].
    destruct (negb (has_claim st u)); [discriminate|]. destruct (negb _); [discriminate|].
    destruct (_ <? 0); [discriminate|]. destruct (_ =? 0); [discriminate|]. destruct (_ <? _); [discriminate|].
    inversion H; subst; exact O.
  - destruct ok; [inversion H; subst; exact O|discriminate].
  - unfold revalue in H. destruct (negb _); [discriminate|]. destruct (_ <? _); [discriminate|].
    destruct (_ && _); [discriminate|]. inversion H; subst; exact O.
  - eapply bk_acc_over; eassumption.
Qed.

Lemma run_over e ops : forall st, env_wf e -> Inv e st -> OverInv e st ->
  OverInv e (run e st ops) /\ Inv e (run e st ops).
Proof.
  induction ops as [|o ops IH]; intros st W I O; [split; assumption|].
  cbn [run fold_left]. apply IH; try assumption.
  - apply step'_inv; assumption.
  - unfold step' in *. destruct (step e st o) as [s' []| |] eqn:E; [|exact O|exact O].
    eapply step_over; eassumption.
Qed.

(* total ever credited (still in claims + already claimed), and even what
   GetSynchronizedClaim would report on top, never exceeds the emission by more
   than the rounding slack, the overshare and the revalue drift *)
Lemma credited_le_emission e st d : Inv e st -> OverInv e st ->
  2 * sumN (nusers e) (fun u => pending e st u d + claimed st u d) * (PREC * PREC)
  <= 2 * emitted st d * (PREC * PREC) + 2 * emitted_x st d * PREC + accslack st d
     + 2 * overshare st d + 2 * sumN (nusers e) (fun u => drift st u d)
     + sumN (nusers e) (fun u => nsync st u d + Z.of_nat (npools e)) * (PREC * PREC + PREC).
Proof.
  intros I O. destruct (O d) as [_ O1].
  assert (B : sumN (nusers e) (fun u => 2 * ((pending e st u d + claimed st u d) * (PREC * PREC)))
              <= sumN (nusers e) (fun u => 2 * integral st u d + 2 * drift st u d
                                           + (nsync st u d + Z.of_nat (npools e)) * (PREC * PREC + PREC))).
  { apply sN_le. intros u _. pose proof (pending_is_integral e st u d I). lia. }
  rewrite !sN_add, !sN_scale in B.
  rewrite (sN_ext (nusers e) (fun u => (pending e st u d + claimed st u d) * (PREC * PREC))
             (fun u => (PREC * PREC) * (pending e st u d + claimed st u d))) in B by (intros; ring).
  rewrite sN_scale in B.
  rewrite (sN_ext (nusers e) (fun u => (nsync st u d + Z.of_nat (npools e)) * (PREC * PREC + PREC))
             (fun u => (PREC * PREC + PREC) * (nsync st u d + Z.of_nat (npools e)))) in B by (intros; ring).
  rewrite sN_scale in B. lia.
Qed.

(** the side-condition: sum of the users' shares <= total whenever time is accumulated *)
Definition side (e : env) (st : state) (o : op) : Prop :=
  match o with
  | Block _ => forall p, (p < npools e)%nat -> shares_sum e st p <= tot st p
  | BkAcc p _ _ _ _ => (p < npools e)%nat -> shares_sum e st p <= tot st p
  | _ => True
  end.

Fixpoint sides_ok (e : env) (st : state) (ops : list op) : Prop :=
  match ops with
  | [] => True
  | o :: r => side e st o /\ sides_ok e (step' e st o) r
  end.

Lemma excess_zero e st p : shares_sum e st p <= tot st p -> excess e st p = 0.
Proof. unfold excess. lia. Qed.

(* under the side-condition nothing is ever added to [overshare] *)
Lemma step_overshare e st o st' d : Inv e st -> side e st o -> step e st o = Ok st' tt ->
  overshare st' d = overshare st d.
Proof.
  intros I S H. destruct o as [t|u p s' T'|p T'|u d0 m|ok|u p s'|p pd v V stk]; cbn [step] in H; cbn [side] in S.
  - unfold block in H. destruct (_ <? _); [discriminate|]. destruct (existsb _ _); [discriminate|].
    inversion H; subst st'; clear H. sproj. rewrite sN_zero; [lia|].
    intros p Hp. rewrite (excess_zero e st p (S p Hp)). lia.
  - unfold change in H. destruct (negb _); [discriminate|]. destruct (_ || _); [discriminate|].
    destruct (_ =? 0); [inversion H; subst; reflexivity|].
    destruct (has_claim st u); [|inversion H; subst; reflexivity].
    destruct (sync_ok e st u p); [inversion H; subst; reflexivity|discriminate].
  - unfold set_total in H. destruct (_ || _); [discriminate|]. inversion H; subst; reflexivity.
  - unfold claim in H. destruct m as [m|]; [|discriminate].
    destruct (negb _); [discriminate|]. destruct (_ <? _); [discriminate|].
    destruct (negb (has_claim st u)); [discriminate|]. destruct (negb _); [discriminate|].
    destruct (_ <? 0); [discriminate|]. destruct (_ =? 0); [discriminate|]. destruct (_ <? _); [discriminate|].
    inversion H; subst; reflexivity.
  - destruct ok; [inversion H; subst; reflexivity|discriminate].
  - unfold revalue in H. destruct (negb _); [discriminate|]. destruct (_ <? _); [discriminate|].
    destruct (_ && _); [discriminate|]. inversion H; subst; reflexivity.
  - destruct (bk_acc_ok _ _ _ _ _ _ _ _ I H) as [dur [Hp [Ep [Hd [Hrw [Hs ->]]]]]]. cbv zeta. sproj.
    rewrite (excess_zero e st p (S Hp)). lia.
Qed.

Lemma run_overshare e ops : forall st d, env_wf e -> Inv e st -> sides_ok e st ops ->
  overshare (run e st ops) d = overshare st d.
Proof.
  induction ops as [|o ops IH]; intros st d W I S; [reflexivity|].
  cbn [run fold_left]. destruct S as [S1 S2]. fold (run e (step' e st o) ops).
  rewrite IH; [|exact W|apply step'_inv; assumption|exact S2].
  unfold step'. destruct (step e st o) as [s' []| |] eqn:E; [|reflexivity|reflexivity].
  eapply step_overshare; eassumption.
Qed.

(* [drift] moves only in a revalue of that user, by (index difference) * (change of shares) *)
Lemma drift_step e st o st' u d : step e st o = Ok st' tt ->
  drift st' u d = drift st u d
    + match o with
      | Revalue v p s' => if Nat.eqb u v then (g_idx st p d - u_idx st u p d) * (s' - sh st u p) else 0
      | _ => 0
      end.
Proof.
  intros H. destruct o as [t|v p s' T'|p T'|v d0 m|ok|v p s'|p pd v V stk]; cbn [step] in H.
  - unfold block in H. destruct (_ <? _); [discriminate|]. destruct (existsb _ _); [discriminate|].
    inversion H; subst; sproj; lia.
  - unfold change in H. destruct (negb _); [discriminate|]. destruct (_ || _); [discriminate|].
    destruct (_ =? 0); [inversion H; subst; unfold set_shares, init_claim; sproj; lia|].
    destruct (has_claim st v); [|inversion H; subst; unfold set_shares; sproj; lia].
    destruct (sync_ok e st v p); [inversion H; subst; unfold set_shares, sync_pool; sproj; lia|discriminate].
  - unfold set_total in H. destruct (_ || _); [discriminate|]. inversion H; subst; sproj; lia.
  - unfold claim in H. destruct m as [m|]; [|discriminate].
    destruct (negb _); [discriminate|]. destruct (_ <? _); [discriminate|].
    destruct (negb (has_claim st v)); [discriminate|]. destruct (negb _); [discriminate|].
    destruct (_ <? 0); [discriminate|]. destruct (_ =? 0); [discriminate|]. destruct (_ <? _); [discriminate|].
    inversion H; subst; sproj; lia.
  - destruct ok; [inversion H; subst; lia|discriminate].
  - unfold revalue in H. destruct (negb _); [discriminate|]. destruct (_ <? _); [discriminate|].
    destruct (_ && _); [discriminate|]. inversion H; subst st'; clear H. sproj.
    destruct (Nat.eqb_spec u v) as [->|]; lia.
  - unfold bk_acc in H. destruct (negb _); [discriminate|]. destruct (periods e p); [discriminate|].
    destruct (_ || _); [discriminate|]. destruct (elapsed_within _ _ _ _); [|discriminate].
    inversion H; subst; sproj; lia.
Qed.

(** sources whose total is exactly the sum of the user shares (swap) satisfy the
    side-condition by construction *)
Definition ExactTot (e : env) (st : state) : Prop :=
  forall p, (p < npools e)%nat -> shares_sum e st p = tot st p.

Definition exact_op (st : state) (o : op) : Prop :=
  match o with
  | Change u p s' T' => T' = tot st p - sh st u p + s'
  | SetTotal p T' => T' = tot st p
  | Revalue u p s' => s' = sh st u p
  | _ => True
  end.

Fixpoint exact_ops (e : env) (st : state) (ops : list op) : Prop :=
  match ops with
  | [] => True
  | o :: r => exact_op st o /\ exact_ops e (step' e st o) r
  end.

Lemma shares_sum_set e st u p s T q : (u < nusers e)%nat ->
  shares_sum e (set_shares st u p s T) q =
  if Nat.eqb q p then shares_sum e st p - sh st u p + s else shares_sum e st q.
Proof.
  intros Hu. unfold shares_sum, set_shares; sproj. destruct (Nat.eqb_spec q p) as [->|Hne].
  - rewrite (sN_ext (nusers e) _ (fun u' => if Nat.eqb u' u then s else sh st u' p)).
    + apply (sN_upd (nusers e) (fun u' => sh st u' p) u s Hu).
    + intros u' _. rewrite Bool.andb_true_r. reflexivity.
  - apply sN_ext. intros u' _. rewrite Bool.andb_false_r. reflexivity.
Qed.

Lemma step_exact e st o st' : ExactTot e st -> exact_op st o -> step e st o = Ok st' tt -> ExactTot e st'.
Proof.
  intros X Eo H. destruct o as [t|u p s' T'|p T'|u d m|ok|u p s'|p pd v V stk]; cbn [step] in H; cbn [exact_op] in Eo.
  - unfold block in H. destruct (_ <? _); [discriminate|]. destruct (existsb _ _); [discriminate|].
    inversion H; subst; exact X.
  - unfold change in H. destruct (in_range e u p) eqn:Er; cbn [negb] in H; [|discriminate].
    destruct (_ || _); [discriminate|].
    unfold in_range in Er. apply andb_prop in Er. destruct Er as [Hu Hp]. apply Nat.ltb_lt in Hu.
    assert (G : forall s0, sh s0 = sh st -> tot s0 = tot st -> ExactTot e (set_shares s0 u p s' T')).
    { intros s0 E1 E2 q Hq. rewrite shares_sum_set by exact Hu.
      unfold shares_sum. rewrite E1. fold (shares_sum e st p). fold (shares_sum e st q).
      unfold set_shares; sproj. rewrite E2.
      destruct (Nat.eqb_spec q p) as [->|]; [rewrite (X p Hq); lia|apply (X q Hq)]. }
    destruct (_ =? 0); [inversion H; subst; apply G; reflexivity|].
    destruct (has_claim st u); [|inversion H; subst; apply G; reflexivity].
    destruct (sync_ok e st u p); [inversion H; subst; apply G; reflexivity|discriminate].
  - unfold set_total in H. destruct (_ || _); [discriminate|]. inversion H; subst st'; clear H.
    intros q Hq. unfold shares_sum; sproj. fold (shares_sum e st q). rewrite (X q Hq).
    destruct (Nat.eqb_spec q p) as [->|]; [lia|reflexivity].
  - unfold claim in H. destruct m as [m|]; [|discriminate].
    destruct (negb _); [discriminate|]. destruct (_ <? _); [discriminate|].
    destruct (negb (has_claim st u)); [discriminate|]. destruct (negb _); [discriminate|].
    destruct (_ <? 0); [discriminate|]. destruct (_ =? 0); [discriminate|]. destruct (_ <? _); [discriminate|].
    inversion H; subst; exact X.
  - destruct ok; [inversion H; subst; exact X|discriminate].
  - unfold revalue in H. destruct (negb _); [discriminate|]. destruct (_ <? _); [discriminate|].
    destruct (_ && _); [discriminate|]. inversion H; subst st'; clear H.
    intros q Hq. sproj. rewrite <- (X q Hq). unfold shares_sum; sproj. apply sN_ext. intros u' _.
    destruct (Nat.eqb_spec u' u) as [->|]; cbn [andb]; [|reflexivity].
    destruct (Nat.eqb_spec q p) as [->|]; [exact Eo|reflexivity].
  - unfold bk_acc in H. destruct (negb _); [discriminate|]. destruct (periods e p); [discriminate|].
    destruct (_ || _); [discriminate|]. destruct (elapsed_within _ _ _ _); [|discriminate].
    inversion H; subst; exact X.
Qed.

Lemma exact_sides e ops : forall st, ExactTot e st -> exact_ops e st ops -> sides_ok e st ops.
Proof.
  induction ops as [|o ops IH]; intros st X E; [exact Logic.I|].
  destruct E as [E1 E2]. split.
  - destruct o; cbn [side]; try exact Logic.I; intros; rewrite X by assumption; lia.
  - apply IH; [|exact E2]. unfold step'. destruct (step e st o) as [s' []| |] eqn:Es; [|exact X|exact X].
    eapply step_exact; eassumption.
Qed.

(** * Window, at the level of the machine *)

Lemma block_accrual_time e st t st' p pd :
  block e st t = Ok st' tt -> periods e p = Some pd ->
  g_time st' p = Some (Z.min (p_end pd) t) /\ now st' = t.
Proof.
  intros H Ep. unfold block in H. destruct (_ <? _); [discriminate|]. destruct (existsb _ _); [discriminate|].
  inversion H; subst st'; clear H. sproj. rewrite Ep. split; reflexivity.
Qed.

Lemma block_index e st t st' p d :
  block e st t = Ok st' tt -> g_idx st' p d = g_idx st p d + pool_inc e st t p d.
Proof.
  intros H. unfold block in H. destruct (_ <? _); [discriminate|]. destruct (existsb _ _); [discriminate|].
  inversion H; subst st'; clear H. reflexivity.
Qed.

Lemma pool_inc_spec e st t p pd d : env_wf e -> Inv e st -> now st <= t -> periods e p = Some pd ->
  pool_inc e st t p d =
  new_reward (p_rate pd d) (tot st p)
    (Z.max 0 (Z.min t (p_end pd) - Z.max (match g_time st p with Some x => x | None => t end) (p_start pd))).
Proof.
  intros W I Ht Ep. unfold pool_inc, pool_val, pool_dur. rewrite Ep.
  pose proof (wf_order e W p pd Ep).
  assert (Hp : (match g_time st p with Some x => x | None => t end) <= t).
  { destruct (g_time st p) as [x|] eqn:Eg; [|lia]. pose proof (I_time e st I p x Eg). lia. }
  rewrite elapsed_within_spec by lia. reflexivity.
Qed.

(* no accrual before the start, after the end, without a period, without shares *)
Lemma block_no_accrual e st t st' p d : env_wf e -> Inv e st -> block e st t = Ok st' tt ->
  (periods e p = None \/
   (exists pd, periods e p = Some pd /\
      (t <= p_start pd \/ (exists x, g_time st p = Some x /\ p_end pd <= x) \/ g_time st p = None
       \/ tot st p <= 0 \/ p_rate pd d = 0))) ->
  g_idx st' p d = g_idx st p d.
Proof.
  intros W I H C. rewrite (block_index e st t st' p d H).
  assert (Ht : now st <= t).
  { unfold block in H. destruct (Z.ltb_spec t (now st)); [discriminate|lia]. }
  destruct C as [Ep|[pd [Ep C]]].
  - unfold pool_inc, pool_val. rewrite Ep. lia.
  - rewrite (pool_inc_spec e st t p pd d W I Ht Ep).
    pose proof (wf_order e W p pd Ep).
    destruct C as [C|[[x [Eg C]]|[Eg|[C|C]]]].
    + replace (Z.max 0 _) with 0; [rewrite new_reward_zero_dur; lia|].
      destruct (g_time st p); lia.
    + rewrite Eg. pose proof (I_time e st I p x Eg).
      replace (Z.max 0 _) with 0 by lia. rewrite new_reward_zero_dur. lia.
    + rewrite Eg. replace (Z.max 0 _) with 0 by lia. rewrite new_reward_zero_dur. lia.
    + unfold new_reward. destruct (Z.leb_spec (tot st p) 0); lia.
    + rewrite C. unfold new_reward. destruct (_ <=? 0); [lia|]. destruct (_ <=? 0); [lia|].
      unfold index_increment, dec_of_int, dec_mul, dec_quo. cbn [Z.mul]. cbn. lia.
Qed.

(* two consecutive blocks count exactly the reward time one block spanning both
   would count: nothing twice, nothing lost (in nanoseconds; each block then
   rounds its own piece to whole seconds) *)
Lemma blocks_additive e st t1 st1 t2 p x d1 d2 dd :
  env_wf e -> Inv e st -> block e st t1 = Ok st1 tt -> t1 <= t2 ->
  g_time st p = Some x ->
  pool_dur e st t1 p = Some d1 -> pool_dur e st1 t2 p = Some d2 -> pool_dur e st t2 p = Some dd ->
  d1 + d2 = dd.
Proof.
  intros W I H Ht Eg E1 E2 E.
  assert (Hn : now st <= t1).
  { unfold block in H. destruct (Z.ltb_spec t1 (now st)); [discriminate|lia]. }
  unfold pool_dur in *. destruct (periods e p) as [pd|] eqn:Ep.
  - destruct (block_accrual_time e st t1 st1 p pd H Ep) as [G _]. rewrite G in E2. rewrite Eg in E1, E.
    pose proof (I_time e st I p x Eg). pose proof (wf_order e W p pd Ep).
    eapply elapsed_within_additive; [| | |exact E1|exact E2|exact E]; lia.
  - inversion E1; inversion E2; inversion E. lia.
Qed.

(** * Meaning of the history variables *)

(* [integral] moves only when time is accumulated (block, bkava accumulation), by
   (index increment) * (shares held) per pool *)
Lemma integral_step e st o st' u d : step e st o = Ok st' tt ->
  integral st' u d = integral st u d
    + sumN (npools e) (fun p => (g_idx st' p d - g_idx st p d) * sh st u p)
  /\ emitted st' d = emitted st d
    + match o with Block t => sumN (npools e) (fun p => pool_emit e st t p d) | _ => 0 end.
Proof.
  intros H. destruct o as [t|v p s' T'|p T'|v d0 m|ok|v p s'|p pd v V stk]; cbn [step] in H.
  - unfold block in H. destruct (_ <? _); [discriminate|]. destruct (existsb _ _); [discriminate|].
    inversion H; subst st'; clear H. sproj. split; [|reflexivity]. f_equal. apply sN_ext. intros p _. ring.
  - unfold change in H. destruct (negb _); [discriminate|]. destruct (_ || _); [discriminate|].
    assert (Z0 : sumN (npools e) (fun p0 => (g_idx st p0 d - g_idx st p0 d) * sh st u p0) = 0)
      by (apply sN_zero; intros; ring).
    destruct (_ =? 0); [inversion H; subst; unfold set_shares, init_claim; sproj; lia|].
    destruct (has_claim st v); [|inversion H; subst; unfold set_shares; sproj; lia].
    destruct (sync_ok e st v p); [inversion H; subst; unfold set_shares, sync_pool; sproj; lia|discriminate].
  - unfold set_total in H. destruct (_ || _); [discriminate|]. inversion H; subst; sproj.
    rewrite sN_zero by (intros; ring). lia.
  - unfold claim in H. destruct m as [m|]; [|discriminate].
    destruct (negb _); [discriminate|]. destruct (_ <? _); [discriminate|].
    destruct (negb (has_claim st v)); [discriminate|]. destruct (negb _); [discriminate|].
    destruct (_ <? 0); [discriminate|]. destruct (_ =? 0); [discriminate|]. destruct (_ <? _); [discriminate|].
    inversion H; subst; sproj. rewrite sN_zero by (intros; ring). lia.
  - destruct ok; [inversion H; subst|discriminate]. rewrite sN_zero by (intros; ring). lia.
  - unfold revalue in H. destruct (negb _); [discriminate|]. destruct (_ <? _); [discriminate|].
    destruct (_ && _); [discriminate|]. inversion H; subst; sproj. rewrite sN_zero by (intros; ring). lia.
  - unfold bk_acc in H. destruct (Nat.ltb_spec p (npools e)) as [Hp|]; cbn [negb] in H; [|discriminate].
    destruct (periods e p); [discriminate|].
    destruct (_ || _); [discriminate|]. destruct (elapsed_within _ _ _ _) as [dur|]; [|discriminate].
    inversion H; subst st'; clear H. sproj. split; [|lia]. f_equal.
    set (inc := bk_increment _ _).
    rewrite (sN_ext (npools e) _ (fun q => if Nat.eqb q p then inc * sh st u p else 0)).
    + rewrite (sN_upd (npools e) (fun _ => 0) p (inc * sh st u p) Hp). rewrite sN_zero by reflexivity. lia.
    + intros q _. destruct (Nat.eqb_spec q p) as [->|]; ring.
Qed.

(* the emission the module counts for one pool in one block: rate * whole seconds of
   the overlap of [previous accrual, block time] with the period, when there are shares *)
Lemma pool_emit_spec e st t p pd d : env_wf e -> Inv e st -> now st <= t -> periods e p = Some pd ->
  pool_emit e st t p d =
  let dur := Z.max 0 (Z.min t (p_end pd) - Z.max (match g_time st p with Some x => x | None => t end) (p_start pd)) in
  if (tot st p <=? 0) || (secs_of_ns dur <=? 0) then 0 else p_rate pd d * secs_of_ns dur.
Proof.
  intros W I Ht Ep. unfold pool_emit, pool_val, pool_dur. rewrite Ep.
  pose proof (wf_order e W p pd Ep).
  assert (Hp : (match g_time st p with Some x => x | None => t end) <= t).
  { destruct (g_time st p) as [x|] eqn:Eg; [|lia]. pose proof (I_time e st I p x Eg). lia. }
  rewrite elapsed_within_spec by lia. cbv zeta. unfold emitted_of.
  destruct (_ <=? 0); [reflexivity|]. destruct (_ <=? 0); reflexivity.
Qed.

Lemma step_no_panic e st o : env_wf e -> Inv e st ->
  match o with Claim _ _ (Some m) => 0 <= m | _ => True end -> step e st o <> Panic.
Proof.
  intros W I Hm. destruct o as [t|u p s' T'|p T'|u d m|ok|u p s'|p pd v V stk]; cbn [step].
  - apply block_no_panic; assumption.
  - apply change_no_panic; assumption.
  - unfold set_total. destruct (_ || _); discriminate.
  - apply claim_no_panic; [assumption|]. destruct m; [exact Hm|lia].
  - destruct ok; discriminate.
  - unfold revalue. destruct (negb _); [discriminate|]. destruct (_ <? _); [discriminate|].
    destruct (_ && _); discriminate.
  - unfold bk_acc. destruct (negb _); [discriminate|]. destruct (periods e p); [discriminate|].
    destruct (period_ok (ndenoms e) pd) eqn:Pk; cbn [negb orb]; [|discriminate].
    destruct (_ || _); [discriminate|].
    destruct (period_ok_spec _ _ Pk) as [Ho _].
    assert (Hprev : (match g_time st p with Some x => x | None => now st end) <= now st).
    { destruct (g_time st p) as [x|] eqn:Eg; [apply (I_time e st I p x Eg)|lia]. }
    rewrite elapsed_within_spec by lia. discriminate.
Qed.

Lemma init_over e t0 m0 gt0 tot0 : OverInv e (init t0 m0 gt0 tot0).
Proof. intros d. unfold init; sproj. rewrite sN_zero by reflexivity. lia. Qed.

(* the emission bound for EVERY history from the initial state: explicit terms for
   the accumulations at which the users' shares exceeded the total ([overshare])
   and for the revalues ([drift]) *)
Lemma no_over_distribution_all e t0 m0 gt0 tot0 ops d :
  env_wf e -> (forall p x, gt0 p = Some x -> x <= t0) -> (forall p, 0 <= tot0 p) ->
  let st := run e (init t0 m0 gt0 tot0) ops in
  2 * sumN (nusers e) (fun u => pending e st u d + claimed st u d) * (PREC * PREC)
  <= 2 * emitted st d * (PREC * PREC) + 2 * emitted_x st d * PREC + accslack st d
     + 2 * overshare st d + 2 * sumN (nusers e) (fun u => drift st u d)
     + sumN (nusers e) (fun u => nsync st u d + Z.of_nat (npools e)) * (PREC * PREC + PREC).
Proof.
  intros W G GT st.
  destruct (run_over e ops (init t0 m0 gt0 tot0) W (init_inv e t0 m0 gt0 tot0 G GT) (init_over e t0 m0 gt0 tot0)) as [O I].
  apply credited_le_emission; assumption.
Qed.

(* the bound, from the initial state, for every history whose blocks see
   sum of shares <= total *)
Lemma no_over_distribution e t0 m0 gt0 tot0 ops d :
  env_wf e -> (forall p x, gt0 p = Some x -> x <= t0) -> (forall p, 0 <= tot0 p) ->
  sides_ok e (init t0 m0 gt0 tot0) ops ->
  let st := run e (init t0 m0 gt0 tot0) ops in
  2 * sumN (nusers e) (fun u => pending e st u d + claimed st u d) * (PREC * PREC)
  <= 2 * emitted st d * (PREC * PREC) + 2 * emitted_x st d * PREC + accslack st d
     + 2 * sumN (nusers e) (fun u => drift st u d)
     + sumN (nusers e) (fun u => nsync st u d + Z.of_nat (npools e)) * (PREC * PREC + PREC).
Proof.
  intros W G GT S st.
  pose proof (no_over_distribution_all e t0 m0 gt0 tot0 ops d W G GT) as B. cbv zeta in B. fold st in B.
  pose proof (run_overshare e ops (init t0 m0 gt0 tot0) d W (init_inv e t0 m0 gt0 tot0 G GT) S) as Z0.
  fold st in Z0. replace (overshare (init t0 m0 gt0 tot0) d) with 0 in Z0 by reflexivity. lia.
Qed.

(** * Histories without revalues / without bkava accumulations *)

Definition is_revalue (o : op) : bool := match o with Revalue _ _ _ => true | _ => false end.
Definition is_bkacc (o : op) : bool := match o with BkAcc _ _ _ _ _ => true | _ => false end.

Lemma run_no_revalue e ops : forall st u d, forallb (fun o => negb (is_revalue o)) ops = true ->
  drift (run e st ops) u d = drift st u d.
Proof.
  induction ops as [|o ops IH]; intros st u d F; [reflexivity|].
  cbn [forallb] in F. apply andb_prop in F. destruct F as [F1 F2].
  cbn [run fold_left]. fold (run e (step' e st o) ops). rewrite IH by exact F2.
  unfold step'. destruct (step e st o) as [s' []| |] eqn:E; [|reflexivity|reflexivity].
  rewrite (drift_step e st o s' u d E). destruct o; try lia. discriminate.
Qed.

(* [emitted_x] moves only in a bkava accumulation *)
Lemma emitted_x_step e st o st' d : step e st o = Ok st' tt -> is_bkacc o = false ->
  emitted_x st' d = emitted_x st d.
Proof.
  intros H N. destruct o as [t|v p s' T'|p T'|v d0 m|ok|v p s'|p pd v V stk]; cbn [step] in H; [| | | | | |discriminate].
  - unfold block in H. destruct (_ <? _); [discriminate|]. destruct (existsb _ _); [discriminate|].
    inversion H; subst; reflexivity.
  - unfold change in H. destruct (negb _); [discriminate|]. destruct (_ || _); [discriminate|].
    destruct (_ =? 0); [inversion H; subst; reflexivity|].
    destruct (has_claim st v); [|inversion H; subst; reflexivity].
    destruct (sync_ok e st v p); [inversion H; subst; reflexivity|discriminate].
  - unfold set_total in H. destruct (_ || _); [discriminate|]. inversion H; subst; reflexivity.
  - unfold claim in H. destruct m as [m|]; [|discriminate].
    destruct (negb _); [discriminate|]. destruct (_ <? _); [discriminate|].
    destruct (negb (has_claim st v)); [discriminate|]. destruct (negb _); [discriminate|].
    destruct (_ <? 0); [discriminate|]. destruct (_ =? 0); [discriminate|]. destruct (_ <? _); [discriminate|].
    inversion H; subst; reflexivity.
  - destruct ok; [inversion H; subst; reflexivity|discriminate].
  - unfold revalue in H. destruct (negb _); [discriminate|]. destruct (_ <? _); [discriminate|].
    destruct (_ && _); [discriminate|]. inversion H; subst; reflexivity.
Qed.

Lemma run_no_bkacc e ops : forall st d, forallb (fun o => negb (is_bkacc o)) ops = true ->
  emitted_x (run e st ops) d = emitted_x st d.
Proof.
  induction ops as [|o ops IH]; intros st d F; [reflexivity|].
  cbn [forallb] in F. apply andb_prop in F. destruct F as [F1 F2].
  cbn [run fold_left]. fold (run e (step' e st o) ops). rewrite IH by exact F2.
  unfold step'. destruct (step e st o) as [s' []| |] eqn:E; [|reflexivity|reflexivity].
  apply (emitted_x_step e st o s' d E). destruct (is_bkacc o); [discriminate|reflexivity].
Qed.

(** * The bkava vaults: proportional split and accumulation *)

Lemma bk_rate_is_index_increment rate v V : V <> 0 ->
  bk_rate rate v V = index_increment rate v (dec_of_int V).
Proof. intros H. unfold bk_rate, index_increment. destruct (Z.eqb_spec V 0); [contradiction|reflexivity]. Qed.

(* each part is the pro rata share rate * v / V of the period's rate, within half a
   unit of the 18th decimal upward and one and a half downward *)
Lemma bk_rate_pro_rata rate v V : 0 <= rate -> 0 <= v -> 0 < V ->
  let q := bk_rate rate v V in
  2 * (q * V) <= 2 * (rate * v) * PREC + V /\ 2 * (rate * v) * PREC - 3 * V <= 2 * (q * V).
Proof.
  intros Hr Hv HV q. unfold q. rewrite bk_rate_is_index_increment by lia.
  assert (P1 : 0 < PREC) by reflexivity.
  pose proof (index_increment_bounds rate v (dec_of_int V) Hr Hv ltac:(unfold dec_of_int; nia)) as [B1 B2].
  cbv zeta in B1, B2. unfold dec_of_int in *. set (x := index_increment rate v (V * PREC)) in *.
  split; nia.
Qed.

Lemma bk_rate_zero_value rate V : bk_rate rate 0 V = 0.
Proof.
  unfold bk_rate. destruct (V =? 0); [reflexivity|].
  unfold dec_mul, dec_of_int. rewrite Z.mul_0_l, Z.mul_0_r. apply dec_quo_zero.
Qed.

(* the parts never sum to more than the whole rate, up to half a unit of the 18th
   decimal per part: for ANY list of vault values whose sum is at most the total
   derivative value *)
Lemma bk_split_sum rate V vs : 0 <= rate -> 0 < V -> Forall (fun v => 0 <= v) vs -> zsum vs <= V ->
  2 * zsum (map (fun v => bk_rate rate v V) vs) <= 2 * rate * PREC + Z.of_nat (length vs).
Proof.
  intros Hr HV F S.
  assert (G : 2 * (zsum (map (fun v => bk_rate rate v V) vs) * V)
              <= 2 * (rate * zsum vs) * PREC + Z.of_nat (length vs) * V).
  { clear S. induction F as [|v vs Hv F IH]; [cbn [map zsum fold_right length Z.of_nat]; lia|].
    cbn [map zsum fold_right length]. fold (zsum (map (fun v => bk_rate rate v V) vs)). fold (zsum vs).
    rewrite Nat2Z.inj_succ.
    pose proof (bk_rate_pro_rata rate v V Hr Hv HV) as [B _]. cbv zeta in B. lia. }
  assert (P1 : 0 < PREC) by reflexivity.
  assert (rate * zsum vs <= rate * V) by nia.
  assert (2 * (zsum (map (fun v => bk_rate rate v V) vs) * V) <= (2 * rate * PREC + Z.of_nat (length vs)) * V) by nia.
  nia.
Qed.

(* the split does not depend on the order in which the vault denoms are visited:
   a vault's rate is a function of its own value and of the total only *)
Lemma bk_split_order rate V (vs vs' : list Z) : Permutation vs vs' ->
  Permutation (map (fun v => bk_rate rate v V) vs) (map (fun v => bk_rate rate v V) vs').
Proof. apply Permutation_map. Qed.

(* what one bkava accumulation does to the vault's index, accrual time and the module account *)
Lemma bk_acc_spec e st p pd v V stk st' : Inv e st -> bk_acc e st p pd v V stk = Ok st' tt ->
  let dur := Z.max 0 (Z.min (now st) (p_end pd)
                      - Z.max (match g_time st p with Some x => x | None => now st end) (p_start pd)) in
  g_time st' p = Some (Z.min (p_end pd) (now st)) /\
  (forall d, (d < ndenoms e)%nat ->
     g_idx st' p d = g_idx st p d
       + bk_increment (bk_rewards (bk_rate (p_rate pd d) v V) dur (stk d)) (tot st p) /\
     macc st' d = macc st d + stk d) /\
  (forall q d, q <> p -> g_idx st' q d = g_idx st q d /\ g_time st' q = g_time st q) /\
  sh st' = sh st /\ tot st' = tot st /\ rew st' = rew st /\ u_idx st' = u_idx st /\ now st' = now st.
Proof.
  intros I H. unfold bk_acc in H.
  destruct (Nat.ltb_spec p (npools e)) as [Hp|]; cbn [negb] in H; [|discriminate].
  destruct (periods e p) eqn:Ep; [discriminate|].
  destruct (period_ok (ndenoms e) pd) eqn:Pk; cbn [negb orb] in H; [|discriminate].
  destruct (_ || _); [discriminate|].
  destruct (period_ok_spec _ _ Pk) as [Ho _].
  assert (Hprev : (match g_time st p with Some x => x | None => now st end) <= now st).
  { destruct (g_time st p) as [x|] eqn:Eg; [apply (I_time e st I p x Eg)|lia]. }
  rewrite elapsed_within_spec in H by lia.
  inversion H; subst st'; clear H. cbv zeta. sproj. rewrite Nat.eqb_refl.
  repeat split; try reflexivity.
  - unfold bk_rw. apply Nat.ltb_lt in H. rewrite H. reflexivity.
  - apply Nat.ltb_lt in H. rewrite H. reflexivity.
  - destruct (Nat.eqb_spec q p); [contradiction|reflexivity].
  - destruct (Nat.eqb_spec q p); [contradiction|reflexivity].
Qed.

(** * Parameter changes *)

Record XInv (xs : xstate) : Prop := {
  X_wf : env_wf (x_env xs);
  X_inv : Inv (x_env xs) (x_st xs);
  X_over : OverInv (x_env xs) (x_st xs)
}.

Lemma Inv_params e pds cend st : Inv e st -> Inv (with_params e pds cend) st.
Proof. intros I. constructor; apply I. Qed.

Lemma raw_ok_spec r : raw_ok r = true ->
  p_start (of_raw r) <= p_end (of_raw r) /\ forall d, 0 <= p_rate (of_raw r) d.
Proof.
  destruct r as [[a b] rates]. cbn [raw_ok of_raw]. intros H. apply andb_prop in H. destruct H as [H1 H2].
  split; [apply Z.leb_le; exact H1|]. intros d. unfold mk_period, p_rate, nthZ.
  rewrite forallb_forall in H2. destruct (nth_in_or_default d rates 0) as [Hin|Hd]; [|rewrite Hd; lia].
  apply Z.leb_le. apply H2. exact Hin.
Qed.

Lemma with_params_wf e pds cend :
  forallb (fun r => match r with Some r => raw_ok r | None => true end) pds = true ->
  env_wf (with_params e pds cend).
Proof.
  intros F. rewrite forallb_forall in F.
  assert (G : forall p r, nth p pds None = Some r -> raw_ok r = true).
  { intros p r E. destruct (nth_in_or_default p pds None) as [Hin|Hd]; [|congruence].
    specialize (F _ Hin). rewrite E in F. exact F. }
  constructor; cbn [with_params periods].
  - intros p pd E. destruct (nth p pds None) as [r|] eqn:En; [|discriminate].
    inversion E; subst. apply (raw_ok_spec r (G p r En)).
  - intros p pd d E. destruct (nth p pds None) as [r|] eqn:En; [|discriminate].
    inversion E; subst. apply (raw_ok_spec r (G p r En)).
Qed.

Lemma xstep_inv xs o xs' : XInv xs -> xstep xs o = Ok xs' tt -> XInv xs'.
Proof.
  intros [W I V] H. destruct o as [o|pds cend]; cbn [xstep] in H.
  - destruct (step (x_env xs) (x_st xs) o) as [s' []| |] eqn:E; try discriminate.
    inversion H; subst xs'; clear H. constructor; cbn [x_env x_st].
    + exact W.
    + eapply step_inv; eassumption.
    + eapply step_over; eassumption.
  - destruct (forallb _ pds) eqn:F; [|discriminate]. inversion H; subst xs'; clear H.
    constructor; cbn [x_env x_st].
    + apply with_params_wf. exact F.
    + apply Inv_params. exact I.
    + exact V.
Qed.

Lemma xrun_inv ops : forall xs, XInv xs -> XInv (xrun xs ops).
Proof.
  induction ops as [|o ops IH]; intros xs X; [exact X|].
  cbn [xrun fold_left]. apply IH. unfold xstep'.
  destruct (xstep xs o) as [s' []| |] eqn:E; [|exact X|exact X]. eapply xstep_inv; eassumption.
Qed.

Lemma xinit_inv e t0 m0 gt0 tot0 : env_wf e -> (forall p x, gt0 p = Some x -> x <= t0) -> (forall p, 0 <= tot0 p) ->
  XInv (mkX e (init t0 m0 gt0 tot0)).
Proof. intros W G GT. constructor; cbn [x_env x_st]; [exact W|apply init_inv; assumption|apply init_over]. Qed.

(* replacing the reward periods and the claim end changes nothing in the state:
   no claim, no index, no accrual time, no synchronised reward of anybody *)
Lemma set_params_keeps_rewards xs pds cend xs' : xstep xs (SetParams pds cend) = Ok xs' tt ->
  x_st xs' = x_st xs /\
  (forall u d, pending (x_env xs') (x_st xs') u d = pending (x_env xs) (x_st xs) u d) /\
  nusers (x_env xs') = nusers (x_env xs) /\ npools (x_env xs') = npools (x_env xs) /\
  ndenoms (x_env xs') = ndenoms (x_env xs).
Proof.
  cbn [xstep]. destruct (forallb _ pds); [|discriminate]. intros H. inversion H; subst xs'; clear H.
  cbn [x_env x_st]. repeat split.
Qed.

(* a refused parameter change leaves everything as it was *)
Lemma xstep_failed xs o : (forall s' u, xstep xs o <> Ok s' u) -> xstep' xs o = xs.
Proof.
  intros H. unfold xstep'. destruct (xstep xs o) as [s' u| |] eqn:E; auto. exfalso. exact (H s' u eq_refl).
Qed.

(** * Meaning of [overshare]; what a position change synchronises with *)

(* [overshare] moves only when time is accumulated, by (index increment) * (what the
   users' shares exceed the pool total by) *)
Lemma overshare_step e st o st' d : Inv e st -> step e st o = Ok st' tt ->
  overshare st' d = overshare st d
    + match o with
      | Block t => sumN (npools e) (fun p => (g_idx st' p d - g_idx st p d) * excess e st p)
      | BkAcc p _ _ _ _ => (g_idx st' p d - g_idx st p d) * excess e st p
      | _ => 0
      end.
Proof.
  intros I H. destruct o as [t|v p s' T'|p T'|v d0 m|ok|v p s'|p pd v V stk]; cbn [step] in H.
  - unfold block in H. destruct (_ <? _); [discriminate|]. destruct (existsb _ _); [discriminate|].
    inversion H; subst st'; clear H. sproj. f_equal. apply sN_ext. intros p _. f_equal. lia.
  - unfold change in H. destruct (negb _); [discriminate|]. destruct (_ || _); [discriminate|].
    destruct (_ =? 0); [inversion H; subst; unfold set_shares, init_claim; sproj; lia|].
    destruct (has_claim st v); [|inversion H; subst; unfold set_shares; sproj; lia].
    destruct (sync_ok e st v p); [inversion H; subst; unfold set_shares, sync_pool; sproj; lia|discriminate].
  - unfold set_total in H. destruct (_ || _); [discriminate|]. inversion H; subst; sproj; lia.
  - unfold claim in H. destruct m as [m|]; [|discriminate].
    destruct (negb _); [discriminate|]. destruct (_ <? _); [discriminate|].
    destruct (negb (has_claim st v)); [discriminate|]. destruct (negb _); [discriminate|].
    destruct (_ <? 0); [discriminate|]. destruct (_ =? 0); [discriminate|]. destruct (_ <? _); [discriminate|].
    inversion H; subst; sproj; lia.
  - destruct ok; [inversion H; subst; lia|discriminate].
  - unfold revalue in H. destruct (negb _); [discriminate|]. destruct (_ <? _); [discriminate|].
    destruct (_ && _); [discriminate|]. inversion H; subst; sproj; lia.
  - destruct (bk_acc_ok _ _ _ _ _ _ _ _ I H) as [dur [Hp [Ep [Hd [Hrw [Hs ->]]]]]]. cbv zeta. sproj.
    rewrite Nat.eqb_refl. f_equal. f_equal. lia.
Qed.

(* a position change of a user who holds shares synchronises the claim with the
   shares RECORDED since the user's previous synchronisation (the hook runs before
   the source touches the position, interest synchronisation included), then records
   the new shares and total; the index difference is consumed *)
Lemma change_spec e st u p s' T' st' : change e st u p s' T' = Ok st' tt -> sh st u p <> 0 ->
  has_claim st u = true ->
  (forall d, rew st' u d = rew st u d + sync_reward (g_idx st p d - u_idx st u p d) (sh st u p)
             /\ u_idx st' u p d = g_idx st p d) /\
  sh st' u p = s' /\ tot st' p = T' /\ g_idx st' = g_idx st /\
  (forall v d, v <> u -> rew st' v d = rew st v d) /\
  (forall v q, (v <> u \/ q <> p) -> sh st' v q = sh st v q /\ forall d, u_idx st' v q d = u_idx st v q d).
Proof.
  intros H Hold Hc. unfold change in H.
  destruct (negb _); [discriminate|]. destruct (_ || _); [discriminate|].
  destruct (Z.eqb_spec (sh st u p) 0); [contradiction|]. rewrite Hc in H.
  destruct (sync_ok e st u p); [|discriminate]. inversion H; subst st'; clear H.
  unfold set_shares, sync_pool; sproj. rewrite !Nat.eqb_refl. cbn [andb].
  repeat split; try reflexivity.
  - intros v d Hv. destruct (Nat.eqb_spec v u); [contradiction|reflexivity].
  - destruct H as [Hv|Hq].
    + destruct (Nat.eqb_spec v u); [contradiction|reflexivity].
    + destruct (Nat.eqb_spec q p); [contradiction|]. rewrite Bool.andb_false_r. reflexivity.
  - intros d. destruct H as [Hv|Hq].
    + destruct (Nat.eqb_spec v u); [contradiction|reflexivity].
    + destruct (Nat.eqb_spec q p); [contradiction|]. rewrite Bool.andb_false_r. reflexivity.
Qed.

(* the bkava vaults can be accumulated in any order: for two different vaults the
   indexes, accrual times and the module account end up the same (the keeper sorts
   the vault denoms only to make the order of its store writes deterministic) *)
Lemma bk_acc_commute e st p q pd v1 v2 V stk1 stk2 st1 st2 st1' st2' :
  Inv e st -> p <> q ->
  bk_acc e st p pd v1 V stk1 = Ok st1 tt -> bk_acc e st1 q pd v2 V stk2 = Ok st2 tt ->
  bk_acc e st q pd v2 V stk2 = Ok st1' tt -> bk_acc e st1' p pd v1 V stk1 = Ok st2' tt ->
  (forall r d, (d < ndenoms e)%nat -> g_idx st2 r d = g_idx st2' r d) /\
  (forall r, g_time st2 r = g_time st2' r) /\
  (forall d, (d < ndenoms e)%nat -> macc st2 d = macc st2' d) /\
  sh st2 = sh st2' /\ tot st2 = tot st2' /\ rew st2 = rew st2' /\ u_idx st2 = u_idx st2' /\ now st2 = now st2'.
Proof.
  intros I Hpq A1 A2 B1 B2.
  pose proof (bk_acc_inv _ _ _ _ _ _ _ _ I A1) as I1.
  pose proof (bk_acc_inv _ _ _ _ _ _ _ _ I B1) as I1'.
  destruct (bk_acc_spec _ _ _ _ _ _ _ _ I A1) as [T1 [G1 [O1 [S1 [To1 [R1 [U1 N1]]]]]]].
  destruct (bk_acc_spec _ _ _ _ _ _ _ _ I1 A2) as [T2 [G2 [O2 [S2 [To2 [R2 [U2 N2]]]]]]].
  destruct (bk_acc_spec _ _ _ _ _ _ _ _ I B1) as [T1' [G1' [O1' [S1' [To1' [R1' [U1' N1']]]]]]].
  destruct (bk_acc_spec _ _ _ _ _ _ _ _ I1' B2) as [T2' [G2' [O2' [S2' [To2' [R2' [U2' N2']]]]]]].
  cbv zeta in *.
  assert (Hqp : q <> p) by (intro; apply Hpq; congruence).
  repeat split; try congruence.
  - intros r d Hd. destruct (Nat.eq_dec r p) as [->|Hrp].
    + (* vault p *)
      destruct (O2 p d Hpq) as [E2 _]. rewrite E2. destruct (G1 d Hd) as [E1 _]. rewrite E1.
      destruct (G2' d Hd) as [E2' _]. rewrite E2'. destruct (O1' p d Hpq) as [E1' Et']. rewrite E1', Et', N1', To1'. reflexivity.
    + destruct (Nat.eq_dec r q) as [->|Hrq].
      * destruct (G2 d Hd) as [E2 _]. rewrite E2. destruct (O1 q d Hqp) as [E1 Et]. rewrite E1, Et, N1, To1.
        destruct (O2' q d Hqp) as [E2' _]. rewrite E2'. destruct (G1' d Hd) as [E1' _]. rewrite E1'. reflexivity.
      * destruct (O2 r d Hrq) as [E2 _]. destruct (O1 r d Hrp) as [E1 _].
        destruct (O2' r d Hrp) as [E2' _]. destruct (O1' r d Hrq) as [E1' _]. congruence.
  - intros r. destruct (Nat.eq_dec r p) as [->|Hrp].
    + destruct (O2 p 0%nat Hpq) as [_ E2]. rewrite E2, T1, T2', N1'. reflexivity.
    + destruct (Nat.eq_dec r q) as [->|Hrq].
      * destruct (O2' q 0%nat Hqp) as [_ E2']. rewrite E2', T1', T2, N1. reflexivity.
      * destruct (O2 r 0%nat Hrq) as [_ E2]. destruct (O1 r 0%nat Hrp) as [_ E1].
        destruct (O2' r 0%nat Hrp) as [_ E2']. destruct (O1' r 0%nat Hrq) as [_ E1']. congruence.
  - intros d Hd. destruct (G2 d Hd) as [_ M2]. destruct (G1 d Hd) as [_ M1].
    destruct (G2' d Hd) as [_ M2']. destruct (G1' d Hd) as [_ M1']. lia.
Qed.
