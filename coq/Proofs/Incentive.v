(* Lemmas and proofs about Model/Accumulator.v and Model/Incentive.v *)
From Kava Require Import Base.Prelude Base.Dec Model.Accumulator Model.Incentive.
Local Open Scope Z_scope.

Ltac sproj := cbn [now g_time g_idx tot sh has_claim u_idx rew macc bal integral due nsync claimed emitted accslack].

(** * Finite sums *)

Lemma sN_ext n f g : (forall k, (k < n)%nat -> f k = g k) -> sumN n f = sumN n g.
Proof.
  induction n as [|n IH]; intros H; cbn [sumN]; [reflexivity|].
  rewrite IH by (intros; apply H; lia). rewrite H by lia. reflexivity.
Qed.

Lemma sN_add n f g : sumN n (fun k => f k + g k) = sumN n f + sumN n g.
Proof. induction n as [|n IH]; cbn [sumN]; [reflexivity|]. rewrite IH. lia. Qed.

Lemma sN_scale n c f : sumN n (fun k => c * f k) = c * sumN n f.
Proof. induction n as [|n IH]; cbn [sumN]; [lia|]. rewrite IH. lia. Qed.

Lemma sN_zero n f : (forall k, (k < n)%nat -> f k = 0) -> sumN n f = 0.
Proof.
  induction n as [|n IH]; intros H; cbn [sumN]; [reflexivity|].
  rewrite IH by (intros; apply H; lia). rewrite H by lia. reflexivity.
Qed.

Lemma sN_le n f g : (forall k, (k < n)%nat -> f k <= g k) -> sumN n f <= sumN n g.
Proof.
  induction n as [|n IH]; intros H; cbn [sumN]; [lia|].
  specialize (IH ltac:(intros; apply H; lia)). specialize (H n ltac:(lia)). lia.
Qed.

Lemma sN_nonneg n f : (forall k, (k < n)%nat -> 0 <= f k) -> 0 <= sumN n f.
Proof.
  intros H. rewrite <- (sN_zero n (fun _ => 0)) by reflexivity. apply sN_le. exact H.
Qed.

Lemma sN_upd_below f a v : forall k, (k <= a)%nat ->
  sumN k (fun x => if Nat.eqb x a then v else f x) = sumN k f.
Proof.
  intros k Hk. apply sN_ext. intros x Hx. destruct (Nat.eqb_spec x a); [lia|reflexivity].
Qed.

Lemma sN_upd n f a v : (a < n)%nat ->
  sumN n (fun x => if Nat.eqb x a then v else f x) = sumN n f - f a + v.
Proof.
  induction n as [|n IH]; intros H; [lia|].
  cbn [sumN]. destruct (Nat.eqb_spec n a) as [->|Hne].
  - rewrite sN_upd_below by lia. lia.
  - rewrite IH by lia. lia.
Qed.

Lemma sN_swap n m (f : nat -> nat -> Z) :
  sumN n (fun i => sumN m (fun j => f i j)) = sumN m (fun j => sumN n (fun i => f i j)).
Proof.
  induction n as [|n IH]; cbn [sumN].
  - symmetry. apply sN_zero. reflexivity.
  - rewrite IH. rewrite <- sN_add. reflexivity.
Qed.

(* roundings add up: n roundings, each off by at most B/2 *)
Lemma sN_round_bound n A B f g :
  (forall k, (k < n)%nat -> 2 * Z.abs (f k * A - g k) <= B) ->
  2 * Z.abs (sumN n f * A - sumN n g) <= Z.of_nat n * B.
Proof.
  induction n as [|n IH]; intros H; cbn [sumN]; [cbn; lia|].
  specialize (IH ltac:(intros; apply H; lia)). specialize (H n ltac:(lia)).
  rewrite Nat2Z.inj_succ. lia.
Qed.

(** * Accumulator arithmetic *)

Lemma NS_pos : 0 < NS. Proof. reflexivity. Qed.

Lemma secs_of_ns_0 : secs_of_ns 0 = 0. Proof. reflexivity. Qed.

Lemma secs_of_ns_bounds d : 0 <= d ->
  0 <= secs_of_ns d /\ 2 * d - NS <= 2 * (secs_of_ns d * NS) <= 2 * d + NS.
Proof.
  intros Hd. unfold secs_of_ns.
  pose proof (Z.div_mod d NS ltac:(unfold NS; lia)) as E.
  pose proof (Z.mod_pos_bound d NS NS_pos) as B.
  assert (0 <= d / NS) by (apply Z.div_pos; [lia|apply NS_pos]).
  set (q := d / NS) in *. set (r := d mod NS) in *.
  destruct (Z.ltb_spec (2 * r) NS); [lia|].
  destruct (Z.ltb_spec NS (2 * r)); [lia|].
  destruct (Z.even q); lia.
Qed.

(* whole seconds: exact *)
Lemma secs_of_ns_whole k : 0 <= k -> secs_of_ns (k * NS) = k.
Proof.
  intros Hk. unfold secs_of_ns. rewrite Z.mod_mul by (unfold NS; lia).
  rewrite Z.div_mul by (unfold NS; lia). reflexivity.
Qed.

(* getTimeElapsedWithinLimits = length of [a,b] /\ [lmin,lmax] *)
Lemma elapsed_within_spec a b lmin lmax : a <= b -> lmin <= lmax ->
  elapsed_within a b lmin lmax = Some (Z.max 0 (Z.min b lmax - Z.max a lmin)).
Proof.
  intros Hab Hl. unfold elapsed_within.
  destruct (Z.ltb_spec b a); [lia|]. destruct (Z.ltb_spec lmax lmin); [lia|].
  destruct (Z.ltb_spec lmax a); destruct (Z.ltb_spec b lmin); cbn [orb]; f_equal; lia.
Qed.

Lemma elapsed_within_none_iff a b lmin lmax :
  elapsed_within a b lmin lmax = None <-> (b < a \/ lmax < lmin).
Proof.
  unfold elapsed_within.
  destruct (Z.ltb_spec b a); [split; [lia|reflexivity]|].
  destruct (Z.ltb_spec lmax lmin); [split; [lia|reflexivity]|].
  destruct (_ || _); split; try discriminate; lia.
Qed.

(* consecutive accumulations count disjoint pieces that add up: no reward time is
   counted twice or lost, whatever the partition into blocks *)
Lemma elapsed_within_additive a t1 t2 lmin lmax d1 d2 d :
  a <= t1 -> t1 <= t2 -> lmin <= lmax ->
  elapsed_within a t1 lmin lmax = Some d1 ->
  elapsed_within (Z.min lmax t1) t2 lmin lmax = Some d2 ->
  elapsed_within a t2 lmin lmax = Some d ->
  d1 + d2 = d.
Proof.
  intros H1 H2 H3.
  rewrite !elapsed_within_spec by lia. intros E1 E2 E. inversion E1; inversion E2; inversion E. lia.
Qed.

Lemma index_increment_nonneg rate secs T : 0 <= rate -> 0 <= secs -> 0 < T ->
  0 <= index_increment rate secs T.
Proof.
  intros Hr Hs HT. unfold index_increment. apply dec_quo_nonneg; [|exact HT].
  apply dec_mul_nonneg; unfold dec_of_int, PREC; lia.
Qed.

Lemma dec_mul_of_ints r s : 0 <= r -> 0 <= s -> dec_mul (dec_of_int r) (dec_of_int s) = r * s * PREC.
Proof.
  intros Hr Hs. unfold dec_mul, dec_of_int.
  replace (r * PREC * (s * PREC)) with ((r * s * PREC) * PREC) by ring.
  apply chop_round_exact. unfold PREC. nia.
Qed.

(* the index increment times the total is the emitted reward, up to half a unit
   of the 18th decimal of the index upward and one and a half downward *)
Lemma index_increment_bounds rate secs T : 0 <= rate -> 0 <= secs -> 0 < T ->
  let q := index_increment rate secs T in
  2 * (q * T) <= 2 * (rate * secs) * PREC * PREC + T /\
  2 * (rate * secs) * PREC * PREC - 3 * T <= 2 * (q * T).
Proof.
  intros Hr Hs HT q. unfold q, index_increment. rewrite dec_mul_of_ints by lia.
  set (a := rate * secs * PREC).
  assert (Ha : 0 <= a) by (unfold a, PREC; nia).
  pose proof (dec_quo_bounds a T Ha HT) as B. cbv zeta in B.
  set (x := dec_quo a T) in *.
  pose proof (Z.div_mod (a * PREC * PREC) T ltac:(lia)) as E.
  pose proof (Z.mod_pos_bound (a * PREC * PREC) T HT) as M.
  set (t := a * PREC * PREC / T) in *. set (m := (a * PREC * PREC) mod T) in *.
  assert (P1 : 0 < PREC) by reflexivity.
  replace (2 * (rate * secs) * PREC * PREC) with (2 * (a * PREC)) by (unfold a; ring).
  split.
  - (* 2 x P <= 2 t + P and t T <= a P^2 *)
    assert (2 * (x * T) * PREC <= (2 * (a * PREC) + T) * PREC) by nia.
    nia.
  - assert ((2 * (a * PREC) - 3 * T) * PREC <= 2 * (x * T) * PREC) by nia.
    nia.
Qed.

Lemma new_reward_nonneg rate T dur : 0 <= rate -> 0 <= dur -> 0 <= new_reward rate T dur.
Proof.
  intros Hr Hd. unfold new_reward.
  destruct (Z.leb_spec T 0); [lia|].
  destruct (Z.leb_spec (secs_of_ns dur) 0); [lia|].
  apply index_increment_nonneg; lia.
Qed.

Lemma new_reward_zero_dur rate T : new_reward rate T 0 = 0.
Proof. unfold new_reward. rewrite secs_of_ns_0. destruct (T <=? 0); reflexivity. Qed.

Lemma emitted_of_nonneg rate T dur : 0 <= rate -> 0 <= dur -> 0 <= emitted_of rate T dur.
Proof.
  intros Hr Hd. unfold emitted_of. destruct (Z.leb_spec T 0); [lia|].
  destruct (Z.leb_spec (secs_of_ns dur) 0); [lia|]. nia.
Qed.

(* per accumulation: increment * total <= emitted + total/2 (units 10^36) *)
Lemma new_reward_bound rate T dur : 0 <= rate -> 0 <= dur -> 0 <= T ->
  2 * (new_reward rate T dur * T) <=
  2 * emitted_of rate T dur * PREC * PREC + (if 0 <? emitted_of rate T dur then T else 0).
Proof.
  intros Hr Hd HT. unfold new_reward, emitted_of.
  destruct (Z.leb_spec T 0); [cbn; lia|].
  destruct (Z.leb_spec (secs_of_ns dur) 0); [cbn; lia|].
  destruct (Z.eq_dec rate 0) as [->|Hne].
  - replace (index_increment 0 (secs_of_ns dur) T) with 0; [cbn; lia|].
    unfold index_increment, dec_of_int, dec_mul, dec_quo. cbn [Z.mul]. reflexivity.
  - destruct (Z.ltb_spec 0 (rate * secs_of_ns dur)); [|nia].
    pose proof (index_increment_bounds rate (secs_of_ns dur) T ltac:(lia) ltac:(lia) ltac:(lia)) as [B _].
    lia.
Qed.

(** * Window: what one accumulation counts *)

Lemma accumulate_time pd prev idx T t tm idx' :
  accumulate pd prev idx T t = Some (tm, idx') -> tm = Z.min (p_end pd) t.
Proof.
  unfold accumulate. destruct (elapsed_within _ _ _ _); intros H; inversion H. reflexivity.
Qed.

(* no accrual for time before the start of the period *)
Lemma accumulate_before_start pd prev idx T t tm idx' :
  prev <= t -> p_start pd <= p_end pd -> t <= p_start pd ->
  accumulate pd prev idx T t = Some (tm, idx') -> forall d, idx' d = idx d.
Proof.
  intros H1 H2 H3. unfold accumulate. rewrite elapsed_within_spec by lia.
  intros H; inversion H; subst. intros d.
  replace (Z.max 0 _) with 0 by lia. rewrite new_reward_zero_dur. lia.
Qed.

(* no accrual for time after the end of the period *)
Lemma accumulate_after_end pd prev idx T t tm idx' :
  prev <= t -> p_start pd <= p_end pd -> p_end pd <= prev ->
  accumulate pd prev idx T t = Some (tm, idx') -> forall d, idx' d = idx d.
Proof.
  intros H1 H2 H3. unfold accumulate. rewrite elapsed_within_spec by lia.
  intros H; inversion H; subst. intros d.
  replace (Z.max 0 _) with 0 by lia. rewrite new_reward_zero_dur. lia.
Qed.

(* inside the window the counted duration is exactly the overlap, the increment is
   index_increment rate (whole seconds) total *)
Lemma accumulate_spec pd prev idx T t :
  prev <= t -> p_start pd <= p_end pd ->
  accumulate pd prev idx T t =
  Some (Z.min (p_end pd) t,
        fun d => idx d + new_reward (p_rate pd d) T
                           (Z.max 0 (Z.min t (p_end pd) - Z.max prev (p_start pd)))).
Proof.
  intros H1 H2. unfold accumulate. rewrite elapsed_within_spec by lia. reflexivity.
Qed.

(** * The reward machine: well-formed environments and the invariant *)

Record env_wf (e : env) : Prop := {
  wf_order : forall p pd, periods e p = Some pd -> p_start pd <= p_end pd;
  wf_rate : forall p pd d, periods e p = Some pd -> 0 <= p_rate pd d
}.

Record Inv (e : env) (st : state) : Prop := {
  I_time : forall p x, g_time st p = Some x -> x <= now st;
  I_idx : forall u p d, 0 <= u_idx st u p d <= g_idx st p d;
  I_sh : forall u p, 0 <= sh st u p;
  I_tot : forall p, 0 <= tot st p;
  I_noclaim : forall u, has_claim st u = false -> forall p, sh st u p = 0;
  I_rew : forall u d, 0 <= rew st u d;
  (* exactness: what was synchronised (unrounded) plus what is still unsynchronised
     is the sum over all accumulations of index increment * shares held then *)
  I_exact : forall u d, due st u d + phi e st u d = integral st u d;
  (* the claim differs from the unrounded amount by half a unit (and half an
     18th decimal) per rounding *)
  I_round : forall u d,
    2 * Z.abs ((rew st u d + claimed st u d) * (PREC * PREC) - due st u d)
    <= nsync st u d * (PREC * PREC + PREC);
  I_nsync : forall u d, 0 <= nsync st u d
}.

Lemma sync_reward_zero s : sync_reward 0 s = 0.
Proof. unfold sync_reward, dec_round_int, dec_mul. cbn [Z.mul]. reflexivity. Qed.

Lemma sync_reward_nonneg dI s : 0 <= dI -> 0 <= s -> 0 <= sync_reward dI s.
Proof.
  intros H1 H2. unfold sync_reward, dec_round_int. apply chop_round_nonneg. apply dec_mul_nonneg; assumption.
Qed.

Lemma sync_reward_bounds dI s :
  2 * Z.abs (sync_reward dI s * (PREC * PREC) - dI * s) <= PREC * PREC + PREC.
Proof.
  unfold sync_reward, dec_round_int, dec_mul.
  pose proof (chop_round_bounds (dI * s)) as B1.
  pose proof (chop_round_bounds (chop_round (dI * s))) as B2.
  set (x := dI * s) in *. set (m := chop_round x) in *. set (c := chop_round m) in *.
  unfold PREC in *. lia.
Qed.

(* integer shares (swap): Mul is exact, only RoundInt rounds *)
Lemma sync_reward_int_shares dI k : sync_reward dI (dec_of_int k) = chop_round (dI * k).
Proof.
  unfold sync_reward, dec_round_int, dec_mul, dec_of_int. f_equal.
  replace (dI * (k * PREC)) with ((dI * k) * PREC) by ring.
  unfold chop_round.
  destruct (Z.ltb_spec (dI * k * PREC) 0) as [Hn|Hn].
  - replace (- (dI * k * PREC)) with ((- (dI * k)) * PREC) by ring.
    unfold chop_round_pos. rewrite Z.mod_mul, Z.div_mul by (unfold PREC; lia). cbn [Z.eqb]. lia.
  - unfold chop_round_pos. rewrite Z.mod_mul, Z.div_mul by (unfold PREC; lia). reflexivity.
Qed.

Lemma phi_nonneg e st u d : Inv e st -> 0 <= phi e st u d.
Proof.
  intros I. unfold phi. apply sN_nonneg. intros p _.
  pose proof (I_idx e st I u p d). pose proof (I_sh e st I u p). nia.
Qed.

Lemma sync_ok_true e st u p : Inv e st -> sync_ok e st u p = true.
Proof.
  intros I. unfold sync_ok. apply forallb_forall. intros d _.
  apply Z.leb_le. apply (I_idx e st I u p d).
Qed.

Lemma pool_dur_some e st t p : env_wf e -> Inv e st -> now st <= t ->
  exists dur, pool_dur e st t p = Some dur /\ 0 <= dur.
Proof.
  intros W I Ht. unfold pool_dur. destruct (periods e p) as [pd|] eqn:Ep.
  - pose proof (wf_order e W p pd Ep).
    assert (Hp : (match g_time st p with Some x => x | None => t end) <= t).
    { destruct (g_time st p) as [x|] eqn:Eg; [|lia]. pose proof (I_time e st I p x Eg). lia. }
    rewrite elapsed_within_spec by lia. eexists. split; [reflexivity|lia].
  - exists 0. split; [reflexivity|lia].
Qed.

Lemma pool_inc_nonneg e st t p d : env_wf e -> Inv e st -> now st <= t -> 0 <= pool_inc e st t p d.
Proof.
  intros W I Ht. unfold pool_inc, pool_val. destruct (periods e p) as [pd|] eqn:Ep; [|lia].
  destruct (pool_dur_some e st t p W I Ht) as [dur [E Hd]]. rewrite E.
  apply new_reward_nonneg; [apply (wf_rate e W p pd d Ep)|exact Hd].
Qed.

Lemma pool_bound e st t p d : env_wf e -> Inv e st -> now st <= t ->
  2 * (pool_inc e st t p d * tot st p) <= 2 * pool_emit e st t p d * PREC * PREC + pool_slack e st t p d.
Proof.
  intros W I Ht. unfold pool_inc, pool_emit, pool_slack, pool_val.
  destruct (periods e p) as [pd|] eqn:Ep; [|lia].
  destruct (pool_dur_some e st t p W I Ht) as [dur [E Hd]]. rewrite E.
  apply new_reward_bound; [apply (wf_rate e W p pd d Ep)|exact Hd|apply (I_tot e st I)].
Qed.

Lemma block_no_panic e st t : env_wf e -> Inv e st -> block e st t <> Panic.
Proof.
  intros W I. unfold block. destruct (Z.ltb_spec t (now st)); [discriminate|].
  destruct (existsb _ _) eqn:Ex; [|discriminate].
  apply existsb_exists in Ex. destruct Ex as [p [_ Hp]].
  destruct (pool_dur_some e st t p W I ltac:(lia)) as [dur [E _]]. rewrite E in Hp. discriminate.
Qed.

Lemma block_inv e st t st' : env_wf e -> Inv e st -> block e st t = Ok st' tt -> Inv e st'.
Proof.
  intros W I H. unfold block in H. destruct (Z.ltb_spec t (now st)); [discriminate|].
  destruct (existsb _ _); [discriminate|]. inversion H; subst st'; clear H.
  constructor; sproj.
  - intros p x. destruct (periods e p) as [pd|] eqn:Ep.
    + intros Hx; inversion Hx. lia.
    + intros Hx. pose proof (I_time e st I p x Hx). lia.
  - intros u p d. pose proof (I_idx e st I u p d). pose proof (pool_inc_nonneg e st t p d W I ltac:(lia)). lia.
  - apply (I_sh e st I).
  - apply (I_tot e st I).
  - apply (I_noclaim e st I).
  - apply (I_rew e st I).
  - intros u d. rewrite <- (I_exact e st I u d). unfold phi; sproj.
    rewrite <- Z.add_assoc, <- sN_add. f_equal. apply sN_ext. intros p _. ring.
  - apply (I_round e st I).
  - apply (I_nsync e st I).
Qed.

Lemma change_no_panic e st u p s' T' : Inv e st -> change e st u p s' T' <> Panic.
Proof.
  intros I. unfold change. destruct (negb _); [discriminate|]. destruct (_ || _); [discriminate|].
  destruct (_ =? 0); [discriminate|]. destruct (has_claim st u); [|discriminate].
  rewrite (sync_ok_true e st u p I). discriminate.
Qed.

Lemma change_inv e st u p s' T' st' : Inv e st -> change e st u p s' T' = Ok st' tt -> Inv e st'.
Proof.
  intros I H. unfold change in H.
  destruct (in_range e u p) eqn:Er; cbn [negb] in H; [|discriminate].
  destruct (Z.ltb_spec s' 0); cbn [orb] in H; [discriminate|].
  destruct (Z.ltb_spec T' 0); [discriminate|].
  unfold in_range in Er. apply andb_prop in Er. destruct Er as [_ Hp]. apply Nat.ltb_lt in Hp.
  destruct (Z.eqb_spec (sh st u p) 0) as [Hold|Hold].
  - (* AfterPoolDepositCreated *)
    inversion H; subst st'; clear H. unfold set_shares, init_claim. constructor; sproj.
    + apply (I_time e st I).
    + intros u' p' d. pose proof (I_idx e st I u' p' d). pose proof (I_idx e st I u p d).
      destruct (Nat.eqb_spec u' u) as [->|]; destruct (Nat.eqb_spec p' p) as [->|]; cbn [andb]; lia.
    + intros u' p'. pose proof (I_sh e st I u' p'). destruct (Nat.eqb u' u && Nat.eqb p' p); lia.
    + intros p'. pose proof (I_tot e st I p'). destruct (Nat.eqb p' p); lia.
    + intros u'. destruct (Nat.eqb_spec u' u); [discriminate|]. intros Hc p'. cbn [andb].
      apply (I_noclaim e st I u' Hc).
    + apply (I_rew e st I).
    + intros u' d. rewrite <- (I_exact e st I u' d). f_equal. unfold phi; sproj. apply sN_ext. intros q _.
      destruct (Nat.eqb_spec u' u) as [->|]; cbn [andb]; [|reflexivity].
      destruct (Nat.eqb_spec q p) as [->|]; [|reflexivity]. rewrite Hold. ring.
    + apply (I_round e st I).
    + apply (I_nsync e st I).
  - destruct (has_claim st u) eqn:Hc.
    + (* BeforePoolDepositModified *)
      rewrite (sync_ok_true e st u p I) in H. inversion H; subst st'; clear H.
      unfold set_shares, sync_pool. constructor; sproj.
      * apply (I_time e st I).
      * intros u' p' d. pose proof (I_idx e st I u' p' d). pose proof (I_idx e st I u p d).
        destruct (Nat.eqb_spec u' u) as [->|]; destruct (Nat.eqb_spec p' p) as [->|]; cbn [andb]; lia.
      * intros u' p'. pose proof (I_sh e st I u' p'). destruct (Nat.eqb u' u && Nat.eqb p' p); lia.
      * intros p'. pose proof (I_tot e st I p'). destruct (Nat.eqb p' p); lia.
      * intros u' Hc' p'. destruct (Nat.eqb_spec u' u) as [->|]; [congruence|]. cbn [andb].
        apply (I_noclaim e st I u' Hc').
      * intros u' d. destruct (Nat.eqb u' u); [|apply (I_rew e st I)].
        pose proof (I_rew e st I u d). pose proof (I_idx e st I u p d). pose proof (I_sh e st I u p).
        pose proof (sync_reward_nonneg (g_idx st p d - u_idx st u p d) (sh st u p) ltac:(lia) ltac:(lia)). lia.
      * intros u' d. rewrite <- (I_exact e st I u' d). unfold phi; sproj.
        destruct (Nat.eqb_spec u' u) as [->|Hne].
        -- rewrite (sN_ext (npools e) _
               (fun q => if Nat.eqb q p then 0 else (g_idx st q d - u_idx st u q d) * sh st u q)).
           ++ rewrite sN_upd by exact Hp. lia.
           ++ intros q _. cbn [andb]. destruct (Nat.eqb_spec q p) as [->|]; [ring|reflexivity].
        -- f_equal.
      * intros u' d. destruct (Nat.eqb_spec u' u) as [->|]; [|apply (I_round e st I)].
        pose proof (I_round e st I u d) as R.
        pose proof (sync_reward_bounds (g_idx st p d - u_idx st u p d) (sh st u p)) as B.
        set (c := sync_reward _ _) in *. unfold PREC in *. lia.
      * intros u' d. pose proof (I_nsync e st I u' d). pose proof (I_nsync e st I u d).
        destruct (Nat.eqb u' u); lia.
    + exfalso. apply Hold. apply (I_noclaim e st I u Hc).
Qed.

Lemma set_total_inv e st p T' st' : Inv e st -> set_total e st p T' = Ok st' tt -> Inv e st'.
Proof.
  intros I H. unfold set_total in H. destruct (negb _); cbn [orb] in H; [discriminate|].
  destruct (Z.ltb_spec T' 0); [discriminate|]. inversion H; subst st'; clear H.
  constructor; sproj; try apply I.
  intros p'. pose proof (I_tot e st I p'). destruct (Nat.eqb p' p); lia.
Qed.

Lemma sync_all_inv e st u : Inv e st -> Inv e (sync_all e st u).
Proof.
  intros I. unfold sync_all. constructor; sproj.
  - apply (I_time e st I).
  - intros u' p d. pose proof (I_idx e st I u' p d). destruct (Nat.eqb u' u && Nat.ltb p (npools e)); lia.
  - apply (I_sh e st I).
  - apply (I_tot e st I).
  - apply (I_noclaim e st I).
  - intros u' d. destruct (Nat.eqb u' u); [|apply (I_rew e st I)].
    pose proof (I_rew e st I u d).
    assert (0 <= sumN (npools e) (fun p => sync_reward (g_idx st p d - u_idx st u p d) (sh st u p))); [|lia].
    apply sN_nonneg. intros p _. pose proof (I_idx e st I u p d). pose proof (I_sh e st I u p).
    apply sync_reward_nonneg; lia.
  - intros u' d. rewrite <- (I_exact e st I u' d). unfold phi; sproj.
    destruct (Nat.eqb_spec u' u) as [->|Hne].
    + rewrite (sN_zero (npools e) (fun p => (g_idx st p d - (if true && Nat.ltb p (npools e) then g_idx st p d else u_idx st u p d)) * sh st u p)).
      * lia.
      * intros p Hp. apply Nat.ltb_lt in Hp. rewrite Hp. cbn [andb]. ring.
    + f_equal.
  - intros u' d. destruct (Nat.eqb_spec u' u) as [->|]; [|apply (I_round e st I)].
    pose proof (I_round e st I u d) as R.
    pose proof (sN_round_bound (npools e) (PREC * PREC) (PREC * PREC + PREC)
                  (fun p => sync_reward (g_idx st p d - u_idx st u p d) (sh st u p))
                  (fun p => (g_idx st p d - u_idx st u p d) * sh st u p)
                  ltac:(intros; apply sync_reward_bounds)) as B.
    set (C := sumN _ (fun p => sync_reward _ _)) in *. set (X := sumN _ (fun p => _ * _)) in *.
    unfold PREC in *. lia.
  - intros u' d. pose proof (I_nsync e st I u' d). pose proof (I_nsync e st I u d).
    destruct (Nat.eqb u' u); lia.
Qed.

Lemma claim_no_panic e st u d m : Inv e st -> 0 <= match m with Some x => x | None => 0 end ->
  claim e st u d m <> Panic.
Proof.
  intros I Hm. unfold claim. destruct m as [m|]; [|discriminate].
  destruct (negb _); [discriminate|]. destruct (_ <? _); [discriminate|].
  destruct (negb (has_claim st u)); [discriminate|].
  assert (F : forallb (sync_ok e st u) (seq 0 (npools e)) = true).
  { apply forallb_forall. intros p _. apply sync_ok_true. exact I. }
  rewrite F. cbn [negb].
  pose proof (I_rew e (sync_all e st u) (sync_all_inv e st u I) u d) as Hr.
  assert (0 <= dec_round_int (dec_mul (dec_of_int (rew (sync_all e st u) u d)) m)).
  { unfold dec_round_int. apply chop_round_nonneg. apply dec_mul_nonneg; [unfold dec_of_int, PREC; lia|exact Hm]. }
  destruct (Z.ltb_spec (dec_round_int (dec_mul (dec_of_int (rew (sync_all e st u) u d)) m)) 0); [lia|].
  destruct (_ =? 0); [discriminate|]. destruct (_ <? _); discriminate.
Qed.

Lemma claim_inv e st u d m st' : Inv e st -> claim e st u d m = Ok st' tt -> Inv e st'.
Proof.
  intros I H. unfold claim in H. destruct m as [m|]; [|discriminate].
  destruct (negb _); [discriminate|]. destruct (_ <? _); [discriminate|].
  destruct (negb (has_claim st u)); [discriminate|]. destruct (negb _); [discriminate|].
  pose proof (sync_all_inv e st u I) as J.
  assert (Ec : claimed (sync_all e st u) = claimed st) by reflexivity.
  remember (sync_all e st u) as st1 eqn:E1. clear E1.
  destruct (_ <? 0); [discriminate|]. destruct (_ =? 0); [discriminate|].
  destruct (_ <? _); [discriminate|].
  inversion H; subst st'; clear H.
  constructor; sproj; try apply J.
  - intros u' d'. pose proof (I_rew e _ J u' d'). destruct (Nat.eqb u' u && Nat.eqb d' d); lia.
  - intros u' d'. pose proof (I_round e _ J u' d') as R. rewrite Ec in R.
    destruct (Nat.eqb_spec u' u) as [->|]; cbn [andb]; [|exact R].
    destruct (Nat.eqb_spec d' d) as [->|]; [|exact R].
    replace (0 + (claimed st u d + rew st1 u d)) with (rew st1 u d + claimed st u d) by lia.
    exact R.
Qed.

Lemma step_inv e st o st' : env_wf e -> Inv e st -> step e st o = Ok st' tt -> Inv e st'.
Proof.
  intros W I H. destruct o as [t|u p s' T'|p T'|u d m|ok]; cbn [step] in H.
  - eapply block_inv; eassumption.
  - eapply change_inv; eassumption.
  - eapply set_total_inv; eassumption.
  - eapply claim_inv; eassumption.
  - destruct ok; [inversion H; subst; exact I|discriminate].
Qed.

Lemma step'_inv e st o : env_wf e -> Inv e st -> Inv e (step' e st o).
Proof.
  intros W I. unfold step'. destruct (step e st o) as [s' []| |] eqn:E; [|exact I|exact I].
  eapply step_inv; eassumption.
Qed.

Lemma run_inv e ops : forall st, env_wf e -> Inv e st -> Inv e (run e st ops).
Proof.
  induction ops as [|o ops IH]; intros st W I; [exact I|].
  cbn [run fold_left]. apply IH; [exact W|]. apply step'_inv; assumption.
Qed.

Lemma init_inv e t0 m0 gt0 tot0 : (forall p x, gt0 p = Some x -> x <= t0) -> (forall p, 0 <= tot0 p) ->
  Inv e (init t0 m0 gt0 tot0).
Proof.
  intros H HT. unfold init. constructor; sproj; try (intros; lia); try (intros; reflexivity).
  - exact H.
  - exact HT.
  - intros u d. unfold phi; sproj. rewrite sN_zero; [reflexivity|]. intros; ring.
Qed.

(** * Accrued rewards only move when time is accumulated *)

Lemma pending_ext e st1 st2 u d :
  rew st1 u d = rew st2 u d ->
  (forall p, (p < npools e)%nat ->
     sync_reward (g_idx st1 p d - u_idx st1 u p d) (sh st1 u p) =
     sync_reward (g_idx st2 p d - u_idx st2 u p d) (sh st2 u p)) ->
  pending e st1 u d = pending e st2 u d.
Proof. intros H1 H2. unfold pending. rewrite H1. f_equal. apply sN_ext. exact H2. Qed.

(* what GetSynchronizedClaim reports for u is not changed by any position
   change (another user's or u's own), any change of a total, any message that
   changes no position, nor by another user's claim *)
Lemma pending_preserved e st o st' u d :
  Inv e st -> step e st o = Ok st' tt ->
  match o with Block _ => False | Claim v _ _ => v <> u | _ => True end ->
  pending e st' u d = pending e st u d.
Proof.
  intros I H Ho. destruct o as [t|v p s' T'|p T'|v d0 m|ok]; cbn [step] in H; [contradiction| | | |].
  - (* Change *)
    unfold change in H.
    destruct (in_range e v p) eqn:Er; cbn [negb] in H; [|discriminate].
    destruct (_ || _); [discriminate|].
    unfold in_range in Er. apply andb_prop in Er. destruct Er as [_ Hp]. apply Nat.ltb_lt in Hp.
    destruct (Z.eqb_spec (sh st v p) 0) as [Hold|Hold].
    + inversion H; subst st'; clear H. unfold pending, set_shares, init_claim; sproj.
      f_equal. apply sN_ext. intros q _.
      destruct (Nat.eqb_spec u v) as [->|]; cbn [andb]; [|reflexivity].
      destruct (Nat.eqb_spec q p) as [->|]; [|reflexivity].
      rewrite Z.sub_diag, sync_reward_zero, Hold.
      unfold sync_reward, dec_round_int, dec_mul. rewrite Z.mul_0_r. reflexivity.
    + destruct (has_claim st v) eqn:Hc.
      * rewrite (sync_ok_true e st v p I) in H. inversion H; subst st'; clear H.
        unfold pending, set_shares, sync_pool; sproj.
        destruct (Nat.eqb_spec u v) as [->|Hne].
        -- rewrite (sN_ext (npools e) _
              (fun q => if Nat.eqb q p then 0 else sync_reward (g_idx st q d - u_idx st v q d) (sh st v q))).
           ++ rewrite sN_upd by exact Hp. lia.
           ++ intros q _. cbn [andb]. destruct (Nat.eqb_spec q p) as [->|]; [|reflexivity].
              rewrite Z.sub_diag. apply sync_reward_zero.
        -- reflexivity.
      * exfalso. apply Hold. apply (I_noclaim e st I v Hc).
  - (* SetTotal *)
    unfold set_total in H. destruct (_ || _); [discriminate|]. inversion H; subst st'; clear H. reflexivity.
  - (* Claim by another user *)
    unfold claim in H. destruct m as [m|]; [|discriminate].
    destruct (negb _); [discriminate|]. destruct (_ <? _); [discriminate|].
    destruct (negb (has_claim st v)); [discriminate|]. destruct (negb _); [discriminate|].
    destruct (_ <? 0); [discriminate|]. destruct (_ =? 0); [discriminate|].
    destruct (_ <? _); [discriminate|].
    inversion H; subst st'; clear H. unfold pending, sync_all; sproj.
    destruct (Nat.eqb_spec u v) as [->|Hne]; [congruence|]. cbn [andb]. reflexivity.
  - destruct ok; [inversion H; subst; reflexivity|discriminate].
Qed.

(* a block moves u's accrued reward only through the global indexes and u's own
   shares: nobody else's position enters *)
Lemma pending_block e st t st' u d :
  block e st t = Ok st' tt ->
  pending e st' u d =
  rew st u d + sumN (npools e) (fun p =>
    sync_reward (g_idx st p d + pool_inc e st t p d - u_idx st u p d) (sh st u p)).
Proof.
  intros H. unfold block in H. destruct (_ <? _); [discriminate|]. destruct (existsb _ _); [discriminate|].
  inversion H; subst st'; clear H. reflexivity.
Qed.

(** * Claims *)

Definition pay_of (amt m : Z) : Z := dec_round_int (dec_mul (dec_of_int amt) m).

Lemma rew_sync_all e st u d : rew (sync_all e st u) u d = pending e st u d.
Proof. unfold sync_all, pending; sproj. rewrite Nat.eqb_refl. reflexivity. Qed.

Lemma pending_zero_after_sync e st u d' :
  pending e (sync_all e st u) u d' = rew (sync_all e st u) u d'.
Proof.
  unfold pending. rewrite (sN_zero (npools e)); [lia|].
  intros p Hp. unfold sync_all; sproj. rewrite Nat.eqb_refl. apply Nat.ltb_lt in Hp. rewrite Hp. cbn [andb].
  rewrite Z.sub_diag. apply sync_reward_zero.
Qed.

Lemma rew_sync_all_other e st u v d : v <> u -> rew (sync_all e st u) v d = rew st v d.
Proof. intros H. unfold sync_all; sproj. destruct (Nat.eqb_spec v u); [congruence|reflexivity]. Qed.

Lemma pending_sync_all_self e st u d : pending e (sync_all e st u) u d = pending e st u d.
Proof. rewrite pending_zero_after_sync. apply rew_sync_all. Qed.

Lemma pending_sync_all_other e st u v d : v <> u -> pending e (sync_all e st u) v d = pending e st v d.
Proof.
  intros H. unfold pending, sync_all; sproj. destruct (Nat.eqb_spec v u); [congruence|]. cbn [andb]. reflexivity.
Qed.

Lemma pending_congr e st1 st2 v d :
  g_idx st2 = g_idx st1 -> u_idx st2 = u_idx st1 -> sh st2 = sh st1 ->
  pending e st2 v d = rew st2 v d + pending e st1 v d - rew st1 v d.
Proof. intros H1 H2 H3. unfold pending. rewrite H1, H2, H3. lia. Qed.

(* a successful claim pays exactly RoundInt(accrued * multiplier) out of the
   incentive account to the owner, zeroes that denom of the claim, keeps the
   (synchronised) rewards of the other denoms and touches nobody else *)
Lemma claim_exact e st u d m st' :
  claim e st u d (Some m) = Ok st' tt ->
  let pay := pay_of (pending e st u d) m in
  0 < pay /\ pay <= macc st d /\ now st <= claim_end e /\
  bal st' u d = bal st u d + pay /\
  macc st' d = macc st d - pay /\
  rew st' u d = 0 /\ pending e st' u d = 0 /\
  (forall d', d' <> d -> pending e st' u d' = pending e st u d' /\ bal st' u d' = bal st u d' /\ macc st' d' = macc st d') /\
  (forall v d', v <> u -> pending e st' v d' = pending e st v d' /\ bal st' v d' = bal st v d' /\ rew st' v d' = rew st v d') /\
  sh st' = sh st /\ g_idx st' = g_idx st /\ tot st' = tot st.
Proof.
  intros H pay. unfold claim in H.
  destruct (negb _); [discriminate|]. destruct (Z.ltb_spec (claim_end e) (now st)); [discriminate|].
  destruct (negb (has_claim st u)); [discriminate|]. destruct (negb _); [discriminate|].
  rewrite rew_sync_all in H. fold (pay_of (pending e st u d) m) in H. fold pay in H.
  destruct (Z.ltb_spec pay 0); [discriminate|]. destruct (Z.eqb_spec pay 0); [discriminate|].
  destruct (Z.ltb_spec (macc st d) pay); [discriminate|].
  pose proof (fun d' => pending_sync_all_self e st u d') as PS.
  pose proof (fun v d' (Hv : v <> u) => pending_sync_all_other e st u v d' Hv) as PO.
  pose proof (fun d' => rew_sync_all e st u d') as RS.
  pose proof (fun v d' (Hv : v <> u) => rew_sync_all_other e st u v d' Hv) as RO.
  assert (E1 : sh (sync_all e st u) = sh st) by reflexivity.
  assert (E2 : g_idx (sync_all e st u) = g_idx st) by reflexivity.
  assert (E3 : tot (sync_all e st u) = tot st) by reflexivity.
  remember (sync_all e st u) as st1 eqn:Es. clear Es.
  inversion H; subst st'; clear H. sproj. rewrite !Nat.eqb_refl. cbn [andb].
  repeat split; try assumption; try lia.
  - rewrite (pending_congr e st1) by reflexivity. sproj. rewrite !Nat.eqb_refl. cbn [andb]. rewrite PS, RS. lia.
  - rewrite (pending_congr e st1) by reflexivity. sproj.
    destruct (Nat.eqb_spec d' d); [congruence|]. rewrite Bool.andb_false_r. rewrite PS. lia.
  - destruct (Nat.eqb_spec d' d); [congruence|]. reflexivity.
  - destruct (Nat.eqb_spec d' d); [congruence|]. reflexivity.
  - rewrite (pending_congr e st1) by reflexivity. sproj.
    destruct (Nat.eqb_spec v u); [congruence|]. cbn [andb]. rewrite PO by assumption. lia.
  - destruct (Nat.eqb_spec v u); [congruence|]. reflexivity.
  - destruct (Nat.eqb_spec v u); [congruence|]. cbn [andb]. apply RO. assumption.
Qed.

(* an immediate second claim of the same denom is refused, whatever the multiplier *)
Lemma second_claim_refused e st u d m st' m2 :
  claim e st u d (Some m) = Ok st' tt -> claim e st' u d m2 = Err.
Proof.
  intros H. pose proof (claim_exact e st u d m st' H) as [_ [_ [_ [_ [_ [_ [Hz _]]]]]]].
  unfold claim. destruct m2 as [m2|]; [|reflexivity].
  destruct (negb _); [reflexivity|]. destruct (_ <? _); [reflexivity|].
  destruct (negb (has_claim st' u)); [reflexivity|].
  destruct (negb _) eqn:Ok1.
  - (* the sync cannot panic: every user index of u equals the global one *)
    exfalso. apply Bool.negb_true_iff in Ok1.
    assert (F : forallb (sync_ok e st' u) (seq 0 (npools e)) = true); [|congruence].
    apply forallb_forall. intros p Hp. apply in_seq in Hp.
    unfold claim in H.
    destruct (negb _); [discriminate|]. destruct (_ <? _); [discriminate|].
    destruct (negb (has_claim st u)); [discriminate|]. destruct (negb _); [discriminate|].
    destruct (_ <? 0); [discriminate|]. destruct (_ =? 0); [discriminate|]. destruct (_ <? _); [discriminate|].
    inversion H; subst st'. unfold sync_ok, sync_all; sproj. apply forallb_forall. intros d' _.
    rewrite Nat.eqb_refl. destruct (Nat.ltb_spec p (npools e)); [|lia]. cbn [andb]. apply Z.leb_refl.
  - rewrite rew_sync_all, Hz.
    replace (dec_round_int (dec_mul (dec_of_int 0) m2)) with 0 by reflexivity. reflexivity.
Qed.

Lemma claim_after_deadline_refused e st u d m : claim_end e < now st -> claim e st u d m = Err.
Proof.
  intros H. unfold claim. destruct m as [m|]; [|reflexivity].
  destruct (negb _); [reflexivity|]. destruct (Z.ltb_spec (claim_end e) (now st)); [reflexivity|lia].
Qed.

(** * The claim is the integral, up to the stated roundings *)

(* for every user and reward denom, in every state satisfying the invariant:
   (synchronised claim + already claimed) * 10^36 is within
   (roundings so far + one per pool) * (10^36 + 10^18) / 2 of the exact integral *)
Lemma pending_is_integral e st u d : Inv e st ->
  2 * Z.abs ((pending e st u d + claimed st u d) * (PREC * PREC) - integral st u d)
  <= (nsync st u d + Z.of_nat (npools e)) * (PREC * PREC + PREC).
Proof.
  intros I. pose proof (sync_all_inv e st u I) as J.
  pose proof (I_round e _ J u d) as R. pose proof (I_exact e _ J u d) as E.
  rewrite rew_sync_all in R.
  assert (P0 : phi e (sync_all e st u) u d = 0).
  { unfold phi. apply sN_zero. intros p Hp. unfold sync_all; sproj. rewrite Nat.eqb_refl.
    apply Nat.ltb_lt in Hp. rewrite Hp. cbn [andb]. ring. }
  rewrite P0 in E.
  replace (claimed (sync_all e st u) u d) with (claimed st u d) in R by reflexivity.
  replace (integral (sync_all e st u) u d) with (integral st u d) in E by reflexivity.
  replace (nsync (sync_all e st u) u d) with (nsync st u d + Z.of_nat (npools e)) in R
    by (unfold sync_all; sproj; rewrite Nat.eqb_refl; reflexivity).
  lia.
Qed.

(** * Never over-distributed *)

Definition side (e : env) (st : state) (o : op) : Prop :=
  match o with
  | Block _ => forall p, (p < npools e)%nat -> shares_sum e st p <= tot st p
  | _ => True
  end.

Fixpoint sides_ok (e : env) (st : state) (ops : list op) : Prop :=
  match ops with
  | [] => True
  | o :: r => side e st o /\ sides_ok e (step' e st o) r
  end.

Definition OverInv (e : env) (st : state) : Prop :=
  forall d, 2 * sumN (nusers e) (fun u => integral st u d)
            <= 2 * emitted st d * (PREC * PREC) + accslack st d.

Lemma block_over e st t st' : env_wf e -> Inv e st -> side e st (Block t) ->
  OverInv e st -> block e st t = Ok st' tt -> OverInv e st'.
Proof.
  intros W I S O H. unfold block in H. destruct (Z.ltb_spec t (now st)); [discriminate|].
  destruct (existsb _ _); [discriminate|]. inversion H; subst st'; clear H.
  intros d. specialize (O d). sproj.
  rewrite sN_add.
  rewrite (sN_swap (nusers e) (npools e) (fun u p => pool_inc e st t p d * sh st u p)).
  assert (B : 2 * sumN (npools e) (fun p => sumN (nusers e) (fun u => pool_inc e st t p d * sh st u p))
              <= sumN (npools e) (fun p => 2 * pool_emit e st t p d * PREC * PREC + pool_slack e st t p d)).
  { rewrite <- sN_scale. apply sN_le. intros p Hp. rewrite sN_scale.
    pose proof (pool_bound e st t p d W I ltac:(lia)) as PB.
    pose proof (pool_inc_nonneg e st t p d W I ltac:(lia)) as PN.
    specialize (S p Hp). unfold shares_sum in S.
    assert (pool_inc e st t p d * sumN (nusers e) (fun u => sh st u p) <= pool_inc e st t p d * tot st p) by nia.
    lia. }
  rewrite sN_add in B.
  rewrite (sN_ext (npools e) (fun p => 2 * pool_emit e st t p d * PREC * PREC)
             (fun p => (2 * PREC * PREC) * pool_emit e st t p d)) in B by (intros; ring).
  rewrite sN_scale in B. lia.
Qed.

Lemma step_over e st o st' : env_wf e -> Inv e st -> side e st o ->
  OverInv e st -> step e st o = Ok st' tt -> OverInv e st'.
Proof.
  intros W I S O H. destruct o as [t|u p s' T'|p T'|u d m|ok]; cbn [step] in H.
  - eapply block_over; eassumption.
  - unfold change in H. destruct (negb _); [discriminate|]. destruct (_ || _); [discriminate|].
    destruct (_ =? 0); [inversion H; subst; exact O|].
    destruct (has_claim st u); [|inversion H; subst; exact O].
    destruct (sync_ok e st u p); [inversion H; subst; exact O|discriminate].
  - unfold set_total in H. destruct (_ || _); [discriminate|]. inversion H; subst; exact O.
  - unfold claim in H. destruct m as [m|]; [|discriminate].
    destruct (negb _); [discriminate|]. destruct (_ <? _); [discriminate|].
    destruct (negb (has_claim st u)); [discriminate|]. destruct (negb _); [discriminate|].
    destruct (_ <? 0); [discriminate|]. destruct (_ =? 0); [discriminate|]. destruct (_ <? _); [discriminate|].
    inversion H; subst; exact O.
  - destruct ok; [inversion H; subst; exact O|discriminate].
Qed.

Lemma run_over e ops : forall st, env_wf e -> Inv e st -> OverInv e st -> sides_ok e st ops ->
  OverInv e (run e st ops) /\ Inv e (run e st ops).
Proof.
  induction ops as [|o ops IH]; intros st W I O S; [split; assumption|].
  cbn [run fold_left]. destruct S as [S1 S2]. apply IH; try assumption.
  - apply step'_inv; assumption.
  - unfold step' in *. destruct (step e st o) as [s' []| |] eqn:E; [|exact O|exact O].
    eapply step_over; eassumption.
Qed.

(* total ever credited (still in claims + already claimed), and even what
   GetSynchronizedClaim would report on top, never exceeds the emission by more
   than the rounding slack *)
Lemma credited_le_emission e st d : Inv e st -> OverInv e st ->
  2 * sumN (nusers e) (fun u => pending e st u d + claimed st u d) * (PREC * PREC)
  <= 2 * emitted st d * (PREC * PREC) + accslack st d
     + sumN (nusers e) (fun u => nsync st u d + Z.of_nat (npools e)) * (PREC * PREC + PREC).
Proof.
  intros I O. specialize (O d).
  assert (B : sumN (nusers e) (fun u => 2 * ((pending e st u d + claimed st u d) * (PREC * PREC)))
              <= sumN (nusers e) (fun u => 2 * integral st u d + (nsync st u d + Z.of_nat (npools e)) * (PREC * PREC + PREC))).
  { apply sN_le. intros u _. pose proof (pending_is_integral e st u d I). lia. }
  rewrite sN_add, !sN_scale in B.
  rewrite (sN_ext (nusers e) (fun u => (pending e st u d + claimed st u d) * (PREC * PREC))
             (fun u => (PREC * PREC) * (pending e st u d + claimed st u d))) in B by (intros; ring).
  rewrite sN_scale in B.
  rewrite (sN_ext (nusers e) (fun u => (nsync st u d + Z.of_nat (npools e)) * (PREC * PREC + PREC))
             (fun u => (PREC * PREC + PREC) * (nsync st u d + Z.of_nat (npools e)))) in B by (intros; ring).
  rewrite sN_scale in B. lia.
Qed.

(** sources whose total is exactly the sum of the user shares (swap) satisfy the
    side-condition by construction *)
Definition ExactTot (e : env) (st : state) : Prop :=
  forall p, (p < npools e)%nat -> shares_sum e st p = tot st p.

Definition exact_op (st : state) (o : op) : Prop :=
  match o with
  | Change u p s' T' => T' = tot st p - sh st u p + s'
  | SetTotal p T' => T' = tot st p
  | _ => True
  end.

Fixpoint exact_ops (e : env) (st : state) (ops : list op) : Prop :=
  match ops with
  | [] => True
  | o :: r => exact_op st o /\ exact_ops e (step' e st o) r
  end.

Lemma shares_sum_set e st u p s T q : (u < nusers e)%nat ->
  shares_sum e (set_shares st u p s T) q =
  if Nat.eqb q p then shares_sum e st p - sh st u p + s else shares_sum e st q.
Proof.
  intros Hu. unfold shares_sum, set_shares; sproj. destruct (Nat.eqb_spec q p) as [->|Hne].
  - rewrite (sN_ext (nusers e) _ (fun u' => if Nat.eqb u' u then s else sh st u' p)).
    + apply (sN_upd (nusers e) (fun u' => sh st u' p) u s Hu).
    + intros u' _. rewrite Bool.andb_true_r. reflexivity.
  - apply sN_ext. intros u' _. rewrite Bool.andb_false_r. reflexivity.
Qed.

Lemma step_exact e st o st' : ExactTot e st -> exact_op st o -> step e st o = Ok st' tt -> ExactTot e st'.
Proof.
  intros X Eo H. destruct o as [t|u p s' T'|p T'|u d m|ok]; cbn [step] in H; cbn [exact_op] in Eo.
  - unfold block in H. destruct (_ <? _); [discriminate|]. destruct (existsb _ _); [discriminate|].
    inversion H; subst; exact X.
  - unfold change in H. destruct (in_range e u p) eqn:Er; cbn [negb] in H; [|discriminate].
    destruct (_ || _); [discriminate|].
    unfold in_range in Er. apply andb_prop in Er. destruct Er as [Hu Hp]. apply Nat.ltb_lt in Hu.
    assert (G : forall s0, sh s0 = sh st -> tot s0 = tot st -> ExactTot e (set_shares s0 u p s' T')).
    { intros s0 E1 E2 q Hq. rewrite shares_sum_set by exact Hu.
      unfold shares_sum. rewrite E1. fold (shares_sum e st p). fold (shares_sum e st q).
      unfold set_shares; sproj. rewrite E2.
      destruct (Nat.eqb_spec q p) as [->|]; [rewrite (X p Hq); lia|apply (X q Hq)]. }
    destruct (_ =? 0); [inversion H; subst; apply G; reflexivity|].
    destruct (has_claim st u); [|inversion H; subst; apply G; reflexivity].
    destruct (sync_ok e st u p); [inversion H; subst; apply G; reflexivity|discriminate].
  - unfold set_total in H. destruct (_ || _); [discriminate|]. inversion H; subst st'; clear H.
    intros q Hq. unfold shares_sum; sproj. fold (shares_sum e st q). rewrite (X q Hq).
    destruct (Nat.eqb_spec q p) as [->|]; [lia|reflexivity].
  - unfold claim in H. destruct m as [m|]; [|discriminate].
    destruct (negb _); [discriminate|]. destruct (_ <? _); [discriminate|].
    destruct (negb (has_claim st u)); [discriminate|]. destruct (negb _); [discriminate|].
    destruct (_ <? 0); [discriminate|]. destruct (_ =? 0); [discriminate|]. destruct (_ <? _); [discriminate|].
    inversion H; subst; exact X.
  - destruct ok; [inversion H; subst; exact X|discriminate].
Qed.

Lemma exact_sides e ops : forall st, ExactTot e st -> exact_ops e st ops -> sides_ok e st ops.
Proof.
  induction ops as [|o ops IH]; intros st X E; [exact Logic.I|].
  destruct E as [E1 E2]. split.
  - destruct o; cbn [side]; try exact Logic.I. intros p Hp. rewrite (X p Hp). lia.
  - apply IH; [|exact E2]. unfold step'. destruct (step e st o) as [s' []| |] eqn:Es; [|exact X|exact X].
    eapply step_exact; eassumption.
Qed.

(** * Window, at the level of the machine *)

Lemma block_accrual_time e st t st' p pd :
  block e st t = Ok st' tt -> periods e p = Some pd ->
  g_time st' p = Some (Z.min (p_end pd) t) /\ now st' = t.
Proof.
  intros H Ep. unfold block in H. destruct (_ <? _); [discriminate|]. destruct (existsb _ _); [discriminate|].
  inversion H; subst st'; clear H. sproj. rewrite Ep. split; reflexivity.
Qed.

Lemma block_index e st t st' p d :
  block e st t = Ok st' tt -> g_idx st' p d = g_idx st p d + pool_inc e st t p d.
Proof.
  intros H. unfold block in H. destruct (_ <? _); [discriminate|]. destruct (existsb _ _); [discriminate|].
  inversion H; subst st'; clear H. reflexivity.
Qed.

Lemma pool_inc_spec e st t p pd d : env_wf e -> Inv e st -> now st <= t -> periods e p = Some pd ->
  pool_inc e st t p d =
  new_reward (p_rate pd d) (tot st p)
    (Z.max 0 (Z.min t (p_end pd) - Z.max (match g_time st p with Some x => x | None => t end) (p_start pd))).
Proof.
  intros W I Ht Ep. unfold pool_inc, pool_val, pool_dur. rewrite Ep.
  pose proof (wf_order e W p pd Ep).
  assert (Hp : (match g_time st p with Some x => x | None => t end) <= t).
  { destruct (g_time st p) as [x|] eqn:Eg; [|lia]. pose proof (I_time e st I p x Eg). lia. }
  rewrite elapsed_within_spec by lia. reflexivity.
Qed.

(* no accrual before the start, after the end, without a period, without shares *)
Lemma block_no_accrual e st t st' p d : env_wf e -> Inv e st -> block e st t = Ok st' tt ->
  (periods e p = None \/
   (exists pd, periods e p = Some pd /\
      (t <= p_start pd \/ (exists x, g_time st p = Some x /\ p_end pd <= x) \/ g_time st p = None
       \/ tot st p <= 0 \/ p_rate pd d = 0))) ->
  g_idx st' p d = g_idx st p d.
Proof.
  intros W I H C. rewrite (block_index e st t st' p d H).
  assert (Ht : now st <= t).
  { unfold block in H. destruct (Z.ltb_spec t (now st)); [discriminate|lia]. }
  destruct C as [Ep|[pd [Ep C]]].
  - unfold pool_inc, pool_val. rewrite Ep. lia.
  - rewrite (pool_inc_spec e st t p pd d W I Ht Ep).
    pose proof (wf_order e W p pd Ep).
    destruct C as [C|[[x [Eg C]]|[Eg|[C|C]]]].
    + replace (Z.max 0 _) with 0; [rewrite new_reward_zero_dur; lia|].
      destruct (g_time st p); lia.
    + rewrite Eg. pose proof (I_time e st I p x Eg).
      replace (Z.max 0 _) with 0 by lia. rewrite new_reward_zero_dur. lia.
    + rewrite Eg. replace (Z.max 0 _) with 0 by lia. rewrite new_reward_zero_dur. lia.
    + unfold new_reward. destruct (Z.leb_spec (tot st p) 0); lia.
    + rewrite C. unfold new_reward. destruct (_ <=? 0); [lia|]. destruct (_ <=? 0); [lia|].
      unfold index_increment, dec_of_int, dec_mul, dec_quo. cbn [Z.mul]. cbn. lia.
Qed.

(* two consecutive blocks count exactly the reward time one block spanning both
   would count: nothing twice, nothing lost (in nanoseconds; each block then
   rounds its own piece to whole seconds) *)
Lemma blocks_additive e st t1 st1 t2 p x d1 d2 dd :
  env_wf e -> Inv e st -> block e st t1 = Ok st1 tt -> t1 <= t2 ->
  g_time st p = Some x ->
  pool_dur e st t1 p = Some d1 -> pool_dur e st1 t2 p = Some d2 -> pool_dur e st t2 p = Some dd ->
  d1 + d2 = dd.
Proof.
  intros W I H Ht Eg E1 E2 E.
  assert (Hn : now st <= t1).
  { unfold block in H. destruct (Z.ltb_spec t1 (now st)); [discriminate|lia]. }
  unfold pool_dur in *. destruct (periods e p) as [pd|] eqn:Ep.
  - destruct (block_accrual_time e st t1 st1 p pd H Ep) as [G _]. rewrite G in E2. rewrite Eg in E1, E.
    pose proof (I_time e st I p x Eg). pose proof (wf_order e W p pd Ep).
    eapply elapsed_within_additive; [| | |exact E1|exact E2|exact E]; lia.
  - inversion E1; inversion E2; inversion E. lia.
Qed.

(** * Meaning of the history variables *)

(* [integral] moves only in a block, by (index increment) * (shares held) per pool *)
Lemma integral_step e st o st' u d : step e st o = Ok st' tt ->
  integral st' u d = integral st u d
    + sumN (npools e) (fun p => (g_idx st' p d - g_idx st p d) * sh st u p)
  /\ emitted st' d = emitted st d
    + match o with Block t => sumN (npools e) (fun p => pool_emit e st t p d) | _ => 0 end.
Proof.
  intros H. destruct o as [t|v p s' T'|p T'|v d0 m|ok]; cbn [step] in H.
  - unfold block in H. destruct (_ <? _); [discriminate|]. destruct (existsb _ _); [discriminate|].
    inversion H; subst st'; clear H. sproj. split; [|reflexivity]. f_equal. apply sN_ext. intros p _. ring.
  - unfold change in H. destruct (negb _); [discriminate|]. destruct (_ || _); [discriminate|].
    assert (Z0 : sumN (npools e) (fun p0 => (g_idx st p0 d - g_idx st p0 d) * sh st u p0) = 0)
      by (apply sN_zero; intros; ring).
    destruct (_ =? 0); [inversion H; subst; unfold set_shares, init_claim; sproj; lia|].
    destruct (has_claim st v); [|inversion H; subst; unfold set_shares; sproj; lia].
    destruct (sync_ok e st v p); [inversion H; subst; unfold set_shares, sync_pool; sproj; lia|discriminate].
  - unfold set_total in H. destruct (_ || _); [discriminate|]. inversion H; subst; sproj.
    rewrite sN_zero by (intros; ring). lia.
  - unfold claim in H. destruct m as [m|]; [|discriminate].
    destruct (negb _); [discriminate|]. destruct (_ <? _); [discriminate|].
    destruct (negb (has_claim st v)); [discriminate|]. destruct (negb _); [discriminate|].
    destruct (_ <? 0); [discriminate|]. destruct (_ =? 0); [discriminate|]. destruct (_ <? _); [discriminate|].
    inversion H; subst; sproj. rewrite sN_zero by (intros; ring). lia.
  - destruct ok; [inversion H; subst|discriminate]. rewrite sN_zero by (intros; ring). lia.
Qed.

(* the emission the module counts for one pool in one block: rate * whole seconds of
   the overlap of [previous accrual, block time] with the period, when there are shares *)
Lemma pool_emit_spec e st t p pd d : env_wf e -> Inv e st -> now st <= t -> periods e p = Some pd ->
  pool_emit e st t p d =
  let dur := Z.max 0 (Z.min t (p_end pd) - Z.max (match g_time st p with Some x => x | None => t end) (p_start pd)) in
  if (tot st p <=? 0) || (secs_of_ns dur <=? 0) then 0 else p_rate pd d * secs_of_ns dur.
Proof.
  intros W I Ht Ep. unfold pool_emit, pool_val, pool_dur. rewrite Ep.
  pose proof (wf_order e W p pd Ep).
  assert (Hp : (match g_time st p with Some x => x | None => t end) <= t).
  { destruct (g_time st p) as [x|] eqn:Eg; [|lia]. pose proof (I_time e st I p x Eg). lia. }
  rewrite elapsed_within_spec by lia. cbv zeta. unfold emitted_of.
  destruct (_ <=? 0); [reflexivity|]. destruct (_ <=? 0); reflexivity.
Qed.

Lemma step_no_panic e st o : env_wf e -> Inv e st ->
  match o with Claim _ _ (Some m) => 0 <= m | _ => True end -> step e st o <> Panic.
Proof.
  intros W I Hm. destruct o as [t|u p s' T'|p T'|u d m|ok]; cbn [step].
  - apply block_no_panic; assumption.
  - apply change_no_panic; assumption.
  - unfold set_total. destruct (_ || _); discriminate.
  - apply claim_no_panic; [assumption|]. destruct m; [exact Hm|lia].
  - destruct ok; discriminate.
Qed.

Lemma init_over e t0 m0 gt0 tot0 : OverInv e (init t0 m0 gt0 tot0).
Proof. intros d. unfold init; sproj. rewrite sN_zero by reflexivity. lia. Qed.

(* the bound, from the initial state, for every history whose blocks see
   sum of shares <= total *)
Lemma no_over_distribution e t0 m0 gt0 tot0 ops d :
  env_wf e -> (forall p x, gt0 p = Some x -> x <= t0) -> (forall p, 0 <= tot0 p) ->
  sides_ok e (init t0 m0 gt0 tot0) ops ->
  let st := run e (init t0 m0 gt0 tot0) ops in
  2 * sumN (nusers e) (fun u => pending e st u d + claimed st u d) * (PREC * PREC)
  <= 2 * emitted st d * (PREC * PREC) + accslack st d
     + sumN (nusers e) (fun u => nsync st u d + Z.of_nat (npools e)) * (PREC * PREC + PREC).
Proof.
  intros W G GT S st.
  destruct (run_over e ops (init t0 m0 gt0 tot0) W (init_inv e t0 m0 gt0 tot0 G GT) (init_over e t0 m0 gt0 tot0) S) as [O I].
  apply credited_le_emission; assumption.
Qed.
