(* The correspondence checker of Model/Incentive.v ([check_history] / [mismatches]) evaluates
   RE-TABULATED model states ([retab] after every operation, for vm_compute speed).  The
   property theorems are about the plain [step] / [run] / [xstep] / [xrun].  This file proves
   that the two agree:

     - [steq e s s']: the states agree on every in-range index (users < nusers e, pools <
       npools e, reward denoms < ndenoms e) of every component (19 components);
     - [retab_steq]: retab e s ≈ s;
     - [step_steq] / [xstep_xeq]: every operation maps ≈ states to ≈ states, with the same
       outcome class (the machine reads in-range indexes only);
     - [project_steq], [inv_b_steq]: the compared projection and the boolean invariant are
       equal on ≈ states;
     - [check_history_plain]: the same checker WITHOUT any retab, defined with xstep only
       (its successful multi-operation steps are [xrun], lemma [xstep_list_plain_xrun]);
     - [check_history_retab_eq_plain]: check_history h = check_history_plain h for every
       history, hence [mismatches_retab_eq_plain].

   What retab drops: the values of the components at OUT-OF-RANGE indexes (they become
   0 / None / false).  No operation, projection or invariant reads them, which is what the
   congruence lemmas establish.  No functional extensionality is used. *)
From Kava Require Import Base.Prelude Base.Dec Model.Accumulator Model.Incentive Proofs.RetabCommon.
Local Open Scope Z_scope.

Record steq_n (nu np nd : nat) (s s' : state) : Prop := mkSteq {
  q_now : now s = now s';
  q_gtime : ext1 np (g_time s) (g_time s');
  q_gidx : ext2 np nd (g_idx s) (g_idx s');
  q_tot : ext1 np (tot s) (tot s');
  q_sh : ext2 nu np (sh s) (sh s');
  q_hc : ext1 nu (has_claim s) (has_claim s');
  q_uidx : ext3 nu np nd (u_idx s) (u_idx s');
  q_rew : ext2 nu nd (rew s) (rew s');
  q_macc : ext1 nd (macc s) (macc s');
  q_bal : ext2 nu nd (bal s) (bal s');
  q_integral : ext2 nu nd (integral s) (integral s');
  q_due : ext2 nu nd (due s) (due s');
  q_nsync : ext2 nu nd (nsync s) (nsync s');
  q_claimed : ext2 nu nd (claimed s) (claimed s');
  q_emitted : ext1 nd (emitted s) (emitted s');
  q_accslack : ext1 nd (accslack s) (accslack s');
  q_drift : ext2 nu nd (drift s) (drift s');
  q_overshare : ext1 nd (overshare s) (overshare s');
  q_emitted_x : ext1 nd (emitted_x s) (emitted_x s')
}.

(* the equivalence the environment fixes: it depends on the three bounds only *)
Definition steq (e : env) : state -> state -> Prop := steq_n (nusers e) (npools e) (ndenoms e).

Lemma steq_refl e s : steq e s s.
Proof. constructor; try red; intros; reflexivity. Qed.

Lemma steq_sym e s s' : steq e s s' -> steq e s' s.
Proof.
  intros [ ]. constructor; try red; intros; symmetry;
    match goal with H : _ |- _ => apply H; assumption end.
Qed.

Lemma steq_trans e s1 s2 s3 : steq e s1 s2 -> steq e s2 s3 -> steq e s1 s3.
Proof.
  intros A B. destruct A, B. constructor; try red; intros.
  all: etransitivity; [match goal with H : _ |- _ => apply H; assumption end|];
       match goal with H : _ |- _ => apply H; assumption end.
Qed.

Lemma steq_bounds e e' s s' :
  nusers e' = nusers e -> npools e' = npools e -> ndenoms e' = ndenoms e ->
  steq e s s' -> steq e' s s'.
Proof. unfold steq. intros -> -> ->. exact (fun H => H). Qed.

(** * retab e s ≈ s *)

Lemma tab1_in {A} (dflt : A) n f i : (i < n)%nat -> tab1 dflt n f i = f i.
Proof. intros H. unfold tab1. apply nth_map_seq, H. Qed.

Lemma tab2_in n m f i j : (i < n)%nat -> (j < m)%nat -> tab2 n m f i j = f i j.
Proof.
  intros Hi Hj. unfold tab2.
  rewrite (nth_map_seq [] n (fun i => map (f i) (seq 0 m)) i Hi).
  apply nth_map_seq, Hj.
Qed.

Lemma tab3_in n m k f i j x : (i < n)%nat -> (j < m)%nat -> (x < k)%nat -> tab3 n m k f i j x = f i j x.
Proof.
  intros Hi Hj Hx. unfold tab3.
  rewrite (nth_map_seq [] n (fun i => map (fun j => map (f i j) (seq 0 k)) (seq 0 m)) i Hi).
  rewrite (nth_map_seq [] m (fun j => map (f i j) (seq 0 k)) j Hj).
  apply nth_map_seq, Hx.
Qed.

Theorem retab_steq e s : steq e (retab e s) s.
Proof.
  constructor; unfold retab; cbn; try red; intros;
    first [ reflexivity | apply tab1_in; assumption | apply tab2_in; assumption | apply tab3_in; assumption ].
Qed.

(* what retab drops: every component reads 0 / None / false outside the range *)
Lemma tab1_out {A} (dflt : A) n f i : (n <= i)%nat -> tab1 dflt n f i = dflt.
Proof. intros H. unfold tab1. apply nth_overflow. rewrite map_length, seq_length. exact H. Qed.

(* on ≈ states the tabulation is the same state (Leibniz) *)
Lemma tab1_ext {A} (dflt : A) n f g : ext1 n f g -> tab1 dflt n f = tab1 dflt n g.
Proof. intros H. unfold tab1. rewrite (map_seq_ext n f g H). reflexivity. Qed.
Lemma tab2_ext n m f g : ext2 n m f g -> tab2 n m f = tab2 n m g.
Proof.
  intros H. unfold tab2.
  rewrite (map_seq_ext n (fun i => map (f i) (seq 0 m)) (fun i => map (g i) (seq 0 m))); [reflexivity|].
  intros i Hi. apply map_seq_ext. intros j Hj. apply H; assumption.
Qed.
Lemma tab3_ext n m k f g : ext3 n m k f g -> tab3 n m k f = tab3 n m k g.
Proof.
  intros H. unfold tab3.
  rewrite (map_seq_ext n (fun i => map (fun j => map (f i j) (seq 0 k)) (seq 0 m))
                         (fun i => map (fun j => map (g i j) (seq 0 k)) (seq 0 m))); [reflexivity|].
  intros i Hi. apply map_seq_ext. intros j Hj. apply map_seq_ext. intros x Hx. apply H; assumption.
Qed.

Theorem retab_canonical e s s' : steq e s s' -> retab e s = retab e s'.
Proof.
  intros [ ]. unfold retab. cbv zeta.
  repeat match goal with
         | H : ext1 ?n ?f ?g |- _ => rewrite (tab1_ext _ n f g H); clear H
         | H : ext2 ?n ?m ?f ?g |- _ => rewrite (tab2_ext n m f g H); clear H
         | H : ext3 ?n ?m ?k ?f ?g |- _ => rewrite (tab3_ext n m k f g H); clear H
         end.
  match goal with H : now _ = now _ |- _ => rewrite H end. reflexivity.
Qed.

Lemma orel_class {S} (R : S -> S -> Prop) r r' : orel R r r' -> class_of r = class_of r'.
Proof. destruct r, r'; cbn; intros H; try reflexivity; contradiction. Qed.

(** * congruence of every operation *)

Ltac ir := (assumption || lia).
Ltac rw1 :=
  match goal with
  | Hx : ext1 _ ?f _ |- context [?f ?i] => rewrite (Hx i) by ir
  | Hx : ext2 _ _ ?f _ |- context [?f ?i ?j] => rewrite (Hx i j) by ir
  | Hx : ext3 _ _ _ ?f _ |- context [?f ?i ?j ?k] => rewrite (Hx i j k) by ir
  end.
Ltac rw := repeat rw1.
Ltac open Q :=
  let Q' := fresh "Q" in
  pose proof Q as Q';
  destruct Q' as [Qnow Qgt Qgi Qtot Qsh Qhc Qui Qrew Qmacc Qbal Qint Qdue Qns Qcl Qem Qas Qdr Qov Qex].
Ltac ltb :=
  repeat match goal with
         | H : (_ && _)%bool = true |- _ => apply andb_prop in H; destruct H
         | H : Nat.ltb _ _ = true |- _ => apply Nat.ltb_lt in H
         | H : Nat.eqb _ _ = true |- _ => apply Nat.eqb_eq in H; subst
         end.

Ltac fields :=
  constructor; cbn; try red; intros;
  try match goal with H : now _ = now _ |- _ => rewrite H end; rw; try reflexivity.

Section Cong.
Variables (e : env) (s s' : state).
Hypothesis Q : steq e s s'.

Lemma pool_dur_eq t p : (p < npools e)%nat -> pool_dur e s t p = pool_dur e s' t p.
Proof. intros Hp. open Q. unfold pool_dur. rw. reflexivity. Qed.

Lemma pool_val_eq f t p d : (p < npools e)%nat -> pool_val f e s t p d = pool_val f e s' t p d.
Proof. intros Hp. open Q. unfold pool_val. rewrite (pool_dur_eq t p Hp). rw. reflexivity. Qed.

Lemma shares_sum_eq p : (p < npools e)%nat -> shares_sum e s p = shares_sum e s' p.
Proof. intros Hp. open Q. unfold shares_sum. apply sumN_ext_in. intros. rw. reflexivity. Qed.

Lemma excess_eq p : (p < npools e)%nat -> excess e s p = excess e s' p.
Proof. intros Hp. open Q. unfold excess. rewrite (shares_sum_eq p Hp). rw. reflexivity. Qed.

Lemma block_steq t : orel (steq e) (block e s t) (block e s' t).
Proof.
  open Q. unfold block. rewrite Qnow. destruct (t <? now s'); [exact I|].
  rewrite (existsb_seq_ext (npools e) _
             (fun p => match pool_dur e s' t p with None => true | Some _ => false end))
    by (intros; rewrite pool_dur_eq by assumption; reflexivity).
  destruct (existsb _ _); [exact I|].
  cbn. fields; unfold pool_inc, pool_emit, pool_slack; rw; try reflexivity.
  - rewrite pool_val_eq by assumption. reflexivity.
  - f_equal. apply sumN_ext_in. intros. rewrite pool_val_eq by assumption. rw. reflexivity.
  - f_equal. apply sumN_ext_in. intros. rewrite pool_val_eq by assumption. reflexivity.
  - f_equal. apply sumN_ext_in. intros. rewrite pool_val_eq by assumption. reflexivity.
  - f_equal. apply sumN_ext_in. intros. rewrite pool_val_eq, excess_eq by assumption. reflexivity.
Qed.

Lemma sync_ok_eq u p : (u < nusers e)%nat -> (p < npools e)%nat -> sync_ok e s u p = sync_ok e s' u p.
Proof. intros Hu Hp. open Q. unfold sync_ok. apply forallb_seq_ext. intros. rw. reflexivity. Qed.

Lemma pending_eq u d : (u < nusers e)%nat -> (d < ndenoms e)%nat -> pending e s u d = pending e s' u d.
Proof.
  intros Hu Hd. open Q. unfold pending. rw. f_equal. apply sumN_ext_in. intros. rw. reflexivity.
Qed.

Lemma synced_eq u d : (u < nusers e)%nat -> (d < ndenoms e)%nat -> synced e s u d = synced e s' u d.
Proof. intros Hu Hd. open Q. unfold synced. rw. rewrite pending_eq by assumption. reflexivity. Qed.

Lemma phi_eq u d : (u < nusers e)%nat -> (d < ndenoms e)%nat -> phi e s u d = phi e s' u d.
Proof. intros Hu Hd. open Q. unfold phi. apply sumN_ext_in. intros. rw. reflexivity. Qed.

Lemma sync_pool_steq u p x : (u < nusers e)%nat -> (p < npools e)%nat ->
  steq e (sync_pool s u p x) (sync_pool s' u p x).
Proof.
  intros Hu Hp. open Q. fields.
  all: destruct (Nat.eqb_spec i u); subst; cbn [andb]; rw; reflexivity.
Qed.

Lemma init_claim_steq u p : (u < nusers e)%nat -> (p < npools e)%nat ->
  steq e (init_claim s u p) (init_claim s' u p).
Proof.
  intros Hu Hp. open Q. fields.
Qed.

Lemma set_shares_steq u p x T : steq e (set_shares s u p x T) (set_shares s' u p x T).
Proof. open Q. fields. Qed.

Lemma sync_all_steq u : (u < nusers e)%nat -> steq e (sync_all e s u) (sync_all e s' u).
Proof.
  intros Hu. open Q. fields.
  all: destruct (Nat.eqb_spec i u); subst; [|reflexivity].
  all: f_equal; apply sumN_ext_in; intros; rw; reflexivity.
Qed.

End Cong.

Lemma change_steq e s s' u p x T : steq e s s' -> orel (steq e) (change e s u p x T) (change e s' u p x T).
Proof.
  intros Q. open Q. unfold change, in_range.
  destruct (Nat.ltb u (nusers e) && Nat.ltb p (npools e))%bool eqn:Hr; cbn [negb]; [|exact I].
  ltb. destruct ((x <? 0) || (T <? 0))%bool; [exact I|].
  rw. destruct (sh s' u p =? 0).
  - cbn. apply set_shares_steq, init_claim_steq; assumption.
  - destruct (has_claim s' u).
    + rewrite (sync_ok_eq e s s' Q u p) by assumption.
      destruct (sync_ok e s' u p); [|exact I].
      cbn. apply set_shares_steq, sync_pool_steq; assumption.
    + cbn. apply set_shares_steq, Q.
Qed.

Lemma set_total_steq e s s' p T : steq e s s' -> orel (steq e) (set_total e s p T) (set_total e s' p T).
Proof.
  intros Q. open Q. unfold set_total.
  destruct (negb (Nat.ltb p (npools e)) || (T <? 0))%bool; [exact I|].
  cbn. fields.
Qed.

Lemma revalue_steq e s s' u p x : steq e s s' -> orel (steq e) (revalue e s u p x) (revalue e s' u p x).
Proof.
  intros Q. open Q. unfold revalue, in_range.
  destruct (Nat.ltb u (nusers e) && Nat.ltb p (npools e))%bool eqn:Hr; cbn [negb]; [|exact I].
  ltb. destruct (x <? 0); [exact I|].
  rw. destruct (negb (has_claim s' u) && negb (x =? 0))%bool; [exact I|].
  cbn. fields.
Qed.

Lemma bk_acc_steq e s s' p pd v V stk : steq e s s' ->
  orel (steq e) (bk_acc e s p pd v V stk) (bk_acc e s' p pd v V stk).
Proof.
  intros Q. open Q. unfold bk_acc.
  destruct (Nat.ltb p (npools e)) eqn:Hp; cbn [negb]; [|exact I]. ltb.
  destruct (periods e p); [exact I|].
  destruct (_ || _ || _ || _)%bool; [exact I|].
  rw. rewrite Qnow. destruct (elapsed_within _ _ _ _) as [dur|]; [|exact I].
  rewrite (excess_eq e s s' Q p Hp).
  cbn. fields; unfold bk_rw; rw; try reflexivity.
Qed.

Lemma claim_steq e s s' u d m : steq e s s' -> orel (steq e) (claim e s u d m) (claim e s' u d m).
Proof.
  intros Q. open Q. unfold claim. destruct m as [m|]; [|exact I].
  destruct (Nat.ltb u (nusers e) && Nat.ltb d (ndenoms e))%bool eqn:Hr; cbn [negb]; [|exact I].
  ltb. rewrite Qnow. destruct (claim_end e <? now s'); [exact I|].
  rw. destruct (has_claim s' u); cbn [negb]; [|exact I].
  rewrite (forallb_seq_ext (npools e) (sync_ok e s u) (sync_ok e s' u))
    by (intros; apply sync_ok_eq; assumption).
  destruct (forallb _ _); cbn [negb]; [|exact I].
  pose proof (sync_all_steq e s s' Q u ltac:(assumption)) as Q1.
  cbv zeta.
  assert (Hrew : rew (sync_all e s u) u d = rew (sync_all e s' u) u d)
    by (apply (q_rew _ _ _ _ _ Q1); assumption).
  rewrite Hrew.
  destruct (_ <? 0); [exact I|]. destruct (_ =? 0); [exact I|].
  rw. destruct (macc s' d <? _); [exact I|].
  cbn [orel].
  destruct Q1 as [Rnow Rgt Rgi Rtot Rsh Rhc Rui Rrew Rmacc Rbal Rint Rdue Rns Rcl Rem Ras Rdr Rov Rex].
  constructor; cbn [now g_time g_idx tot sh has_claim u_idx rew macc bal integral due nsync claimed
                    emitted accslack drift overshare emitted_x]; try assumption.
  all: try red; intros; rw; try reflexivity.
  all: destruct (Nat.eqb i u && Nat.eqb j d)%bool; [reflexivity|]; first [apply Rrew | apply Rcl]; assumption.
Qed.

Theorem step_steq e s s' o : steq e s s' -> orel (steq e) (step e s o) (step e s' o).
Proof.
  intros Q. destruct o; cbn [step].
  - apply block_steq, Q.
  - apply change_steq, Q.
  - apply set_total_steq, Q.
  - apply claim_steq, Q.
  - destruct ok; [exact Q|exact I].
  - apply revalue_steq, Q.
  - apply bk_acc_steq, Q.
Qed.

Corollary step_class_steq e s s' o : steq e s s' -> class_of (step e s o) = class_of (step e s' o).
Proof. intros Q. apply (orel_class (steq e)), step_steq, Q. Qed.

Corollary step'_steq e s s' o : steq e s s' -> steq e (step' e s o) (step' e s' o).
Proof.
  intros Q. unfold step'. pose proof (step_steq e s s' o Q) as H.
  destruct (step e s o), (step e s' o); cbn in H; try contradiction; assumption.
Qed.

Corollary run_steq e ops : forall s s', steq e s s' -> steq e (run e s ops) (run e s' ops).
Proof.
  unfold run. induction ops as [|o ops IH]; intros s s' Q; cbn [fold_left]; [exact Q|].
  apply IH, step'_steq, Q.
Qed.

(** * the compared projection and the boolean invariant *)

Theorem project_steq e s s' : steq e s s' -> project e s = project e s'.
Proof.
  intros Q. open Q. unfold project. cbv zeta. rewrite Qnow.
  f_equal. f_equal; [|f_equal].
  - apply flat_map_seq_ext. intros p Hp. rw. apply f_equal.
    apply map_seq_ext. intros. rw. reflexivity.
  - apply flat_map_seq_ext. intros u Hu. rw. apply f_equal. f_equal; [|f_equal; [|f_equal]].
    + apply flat_map_seq_ext. intros p Hp. rw. apply f_equal.
      apply map_seq_ext. intros. rw. reflexivity.
    + apply map_seq_ext. intros. rw. reflexivity.
    + apply map_seq_ext. intros. apply synced_eq; assumption.
    + apply map_seq_ext. intros. rw. reflexivity.
  - apply map_seq_ext. intros. rw. reflexivity.
Qed.

Theorem inv_b_steq e s s' : steq e s s' -> inv_b e s = inv_b e s'.
Proof.
  intros Q. open Q. unfold inv_b. cbv zeta. apply (f_equal2 andb); [apply (f_equal2 andb)|].
  - apply forallb_seq_ext. intros u Hu. apply (f_equal2 andb).
    + apply forallb_seq_ext. intros p Hp. rw. apply f_equal.
      apply forallb_seq_ext. intros. rw. reflexivity.
    + apply forallb_seq_ext. intros d Hd. rw. rewrite (phi_eq e s s' Q u d) by assumption. reflexivity.
  - apply forallb_seq_ext. intros p Hp. rewrite (shares_sum_eq e s s' Q p) by assumption. rw. reflexivity.
  - apply forallb_seq_ext. intros d Hd. rw.
    rewrite (sumN_ext_in (nusers e) (fun u => integral s u d) (fun u => integral s' u d))
      by (intros; rw; reflexivity).
    reflexivity.
Qed.

(** * the extended machine (parameter changes) *)

Definition xeq (xs xs' : xstate) : Prop :=
  x_env xs = x_env xs' /\ steq (x_env xs) (x_st xs) (x_st xs').

Lemma xeq_refl xs : xeq xs xs.
Proof. split; [reflexivity|apply steq_refl]. Qed.

Lemma xeq_retab xs : xeq (mkX (x_env xs) (retab (x_env xs) (x_st xs))) xs.
Proof. split; [reflexivity|]. cbn. apply retab_steq. Qed.

Lemma xeq_trans a b c : xeq a b -> xeq b c -> xeq a c.
Proof.
  intros [E1 Q1] [E2 Q2]. split; [congruence|].
  eapply steq_trans; [exact Q1|]. rewrite E1. exact Q2.
Qed.

Theorem xstep_xeq xs xs' o : xeq xs xs' -> orel xeq (xstep xs o) (xstep xs' o).
Proof.
  intros [E Q]. destruct o as [o|pds cend]; cbn [xstep].
  - rewrite <- E. pose proof (step_steq (x_env xs) (x_st xs) (x_st xs') o Q) as H.
    destruct (step (x_env xs) (x_st xs) o), (step (x_env xs) (x_st xs') o); cbn in H |- *;
      try contradiction; try exact I.
    split; [reflexivity|exact H].
  - destruct (forallb _ pds); [|exact I].
    cbn. split; cbn; [rewrite E; reflexivity|].
    eapply steq_bounds; [| | |exact Q]; reflexivity.
Qed.

(** * the plain checker: no re-tabulation anywhere, xstep only *)

Fixpoint xstep_list_plain (xs : xstate) (os : list xop) : outcome xstate unit :=
  match os with
  | [] => Ok xs tt
  | o :: r =>
      match xstep xs o with
      | Ok xs1 _ => xstep_list_plain xs1 r
      | Err => Err
      | Panic => Panic
      end
  end.

(* a successful multi-operation step is the plain run of its operations *)
Lemma xstep_list_plain_xrun os : forall xs xs1 u, xstep_list_plain xs os = Ok xs1 u -> xs1 = xrun xs os.
Proof.
  induction os as [|o os IH]; intros xs xs1 u H; cbn in H.
  - inversion H. reflexivity.
  - unfold xrun. cbn [fold_left]. unfold xstep' at 2.
    destruct (xstep xs o) as [xs2 ?| |]; try discriminate. apply (IH _ _ _ H).
Qed.

(* and it succeeds exactly when every operation of the list succeeds in sequence *)
Lemma xstep_list_plain_ok os : forall xs,
  class_of (xstep_list_plain xs os) = ROk <->
  (forall k, (k < length os)%nat ->
     class_of (xstep (xrun xs (firstn k os)) (nth k os (O (Other true)))) = ROk).
Proof.
  induction os as [|o os IH]; intros xs; cbn [xstep_list_plain length].
  - split; [intros _ k Hk; lia|reflexivity].
  - split.
    + intros H k Hk. destruct (xstep xs o) as [xs2 u| |] eqn:E; try discriminate.
      destruct k as [|k]; cbn [firstn nth].
      * unfold xrun. cbn. rewrite E. reflexivity.
      * unfold xrun. cbn [fold_left]. unfold xstep' at 2. rewrite E.
        apply (proj1 (IH xs2) H k). lia.
    + intros H. pose proof (H 0%nat ltac:(lia)) as H0. cbn in H0.
      destruct (xstep xs o) as [xs2 u| |] eqn:E; try discriminate.
      apply (IH xs2). intros k Hk. specialize (H (S k) ltac:(lia)).
      cbn [firstn nth] in H. unfold xrun in H. cbn [fold_left] in H. unfold xstep' at 2 in H.
      rewrite E in H. exact H.
Qed.

Fixpoint first_mismatch_plain (xs : xstate) (shadow : list Z) (h : list (list xop * obs)) (i : nat) : option nat :=
  match h with
  | [] => None
  | (os, ob) :: r =>
      let res := xstep_list_plain xs os in
      let xs1 := match res with Ok s1 _ => s1 | _ => xs end in
      let shadow' := apply_obs shadow ob in
      if rclass_eqb (class_of res) (o_class ob)
         && list_eqb Z.eqb (project (x_env xs1) (x_st xs1)) shadow'
         && inv_b (x_env xs1) (x_st xs1)
      then first_mismatch_plain xs1 shadow' r (S i)
      else Some i
  end.

Definition check_history_plain (h : history) : option nat :=
  let s0 := init (h_t0 h) (nthZ (h_macc h))
                 (fun p => let x := nth p (h_gtime h) (-1) in if x <? 0 then None else Some x)
                 (nthZ (h_tot h)) in
  if inv_b (h_env h) s0 && list_eqb Z.eqb (project (h_env h) s0) (h_init h)
  then first_mismatch_plain (mkX (h_env h) s0) (h_init h) (h_steps h) 0
  else Some 0%nat.

Fixpoint mismatches_plain_from (i : nat) (hs : list history) : list (nat * nat) :=
  match hs with
  | [] => []
  | h :: r =>
      match check_history_plain h with
      | None => mismatches_plain_from (S i) r
      | Some k => (i, k) :: mismatches_plain_from (S i) r
      end
  end.
Definition mismatches_plain := mismatches_plain_from 0.

(** * the retabulated checker computes the plain one *)

Lemma xstep_list_xeq os : forall xs xs', xeq xs xs' ->
  orel xeq (xstep_list xs os) (xstep_list_plain xs' os).
Proof.
  induction os as [|o os IH]; intros xs xs' X; cbn [xstep_list xstep_list_plain].
  - exact X.
  - pose proof (xstep_xeq xs xs' o X) as H.
    destruct (xstep xs o) as [a ?| |], (xstep xs' o) as [a' ?| |]; cbn in H; try contradiction; try exact I.
    apply IH. eapply xeq_trans; [apply xeq_retab|exact H].
Qed.

Lemma first_mismatch_retab_eq_plain h : forall xs xs' shadow i, xeq xs xs' ->
  first_mismatch xs shadow h i = first_mismatch_plain xs' shadow h i.
Proof.
  induction h as [|[os ob] h IH]; intros xs xs' shadow i X; cbn [first_mismatch first_mismatch_plain]; [reflexivity|].
  cbv zeta.
  pose proof (xstep_list_xeq os xs xs' X) as H.
  set (res := xstep_list xs os) in *. set (res' := xstep_list_plain xs' os) in *.
  assert (Hc : class_of res = class_of res') by (apply (orel_class xeq), H).
  set (xs1 := match res with Ok s1 _ => s1 | _ => xs end).
  set (xs1' := match res' with Ok s1 _ => s1 | _ => xs' end).
  assert (X1 : xeq xs1 xs1').
  { subst xs1 xs1'. destruct res, res'; cbn in H; try contradiction; assumption. }
  assert (X2 : xeq (mkX (x_env xs1) (retab (x_env xs1) (x_st xs1))) xs1')
    by (eapply xeq_trans; [apply xeq_retab|exact X1]).
  destruct X2 as [E2 Q2]. cbn [x_env x_st] in E2, Q2.
  rewrite Hc.
  rewrite (project_steq _ _ _ Q2), (inv_b_steq _ _ _ Q2), E2.
  destruct (_ && _ && _)%bool; [|reflexivity].
  apply IH. rewrite E2 in Q2. split; cbn [x_env x_st]; [reflexivity|exact Q2].
Qed.

Theorem check_history_retab_eq_plain h : check_history h = check_history_plain h.
Proof.
  unfold check_history, check_history_plain. cbv zeta.
  destruct (_ && _)%bool; [|reflexivity].
  apply first_mismatch_retab_eq_plain, xeq_refl.
Qed.

Lemma mismatches_from_retab_eq_plain hs : forall i, mismatches_from i hs = mismatches_plain_from i hs.
Proof.
  induction hs as [|h hs IH]; intros i; cbn [mismatches_from mismatches_plain_from]; [reflexivity|].
  rewrite check_history_retab_eq_plain, !IH. reflexivity.
Qed.

Theorem mismatches_retab_eq_plain hs : mismatches hs = mismatches_plain hs.
Proof. apply mismatches_from_retab_eq_plain. Qed.

(* the verdict the harness requires ([M = []]) in terms of the plain checker *)
Corollary mismatches_nil_iff_plain hs :
  mismatches hs = [] <-> forall h, In h hs -> check_history_plain h = None.
Proof.
  rewrite mismatches_retab_eq_plain. unfold mismatches_plain. generalize 0%nat.
  induction hs as [|h hs IH]; intros i; cbn [mismatches_plain_from].
  - split; [intros _ h []|reflexivity].
  - destruct (check_history_plain h) eqn:E.
    + split; [discriminate|]. intros H. specialize (H h (or_introl eq_refl)). congruence.
    + rewrite IH. split.
      * intros H h' [<-|Hin]; [exact E|apply H, Hin].
      * intros H h' Hin. apply H. right. exact Hin.
Qed.
