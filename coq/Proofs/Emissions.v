(* Lemmas and proofs about Model/Emissions.v *)
From Kava Require Import Base.Prelude Base.Dec Model.Emissions.
Local Open Scope Z_scope.

Lemma NS_pos : 0 < NS. Proof. reflexivity. Qed.

(** * calculateStakingRewards in closed form *)

Definition acc_of (gap rate err : Z) : Z := (gap * rate) / NS + err.

Lemma calc_closed now last err rate pool :
  0 <= now - last -> 0 <= rate -> 0 <= err -> 0 <= pool ->
  calc_staking_rewards now last err rate (dec_of_int pool) =
    let acc0 := acc_of (now - last) rate err in
    if pool * PREC <? acc0 then (pool, 0) else (acc0 / PREC, acc0 mod PREC).
Proof.
  intros Hg Hr He Hp. unfold calc_staking_rewards, acc_of.
  set (gap := now - last) in *.
  assert (Hmul : dec_mul (dec_of_int gap) rate = gap * rate).
  { unfold dec_mul, dec_of_int. replace (gap * PREC * rate) with ((gap * rate) * PREC) by ring.
    apply chop_round_exact. nia. }
  rewrite Hmul. unfold dec_quo_int, dec_add.
  rewrite Z.quot_div_nonneg by (unfold NS; nia).
  assert (Hq : 0 <= gap * rate / NS) by (apply Z.div_pos; [nia|apply NS_pos]).
  cbv zeta. change (dec_of_int pool) with (pool * PREC).
  destruct (Z.ltb_spec (pool * PREC) (gap * rate / NS + err)) as [Hc|Hc].
  - unfold dec_trunc_dec, dec_trunc_int, dec_sub.
    rewrite Z.quot_mul by (unfold PREC; lia). rewrite Z.quot_mul by (unfold PREC; lia).
    f_equal. lia.
  - set (a := gap * rate / NS + err) in *.
    unfold dec_trunc_dec, dec_trunc_int, dec_sub.
    rewrite Z.quot_mul by (unfold PREC; lia).
    rewrite Z.quot_div_nonneg by (unfold PREC; lia).
    f_equal. pose proof (Z.div_mod a PREC ltac:(unfold PREC; lia)). lia.
Qed.

(* the arithmetic of one payout *)
Lemma pay_arith gap rate err pool :
  0 <= gap -> 0 <= rate -> 0 <= err < PREC -> 0 <= pool ->
  let acc0 := acc_of gap rate err in
  let capped := pool * PREC <? acc0 in
  let paid := if capped then pool else acc0 / PREC in
  let e' := if capped then 0 else acc0 mod PREC in
  let rm := (gap * rate) mod NS in
  let loss := if capped then NS * (acc0 - pool * PREC) else 0 in
  0 <= paid <= pool /\ 0 <= e' < PREC /\ 0 <= rm < NS /\ 0 <= loss /\
  NS * (PREC * paid + e') + rm + loss = NS * err + gap * rate.
Proof.
  intros Hg Hr He Hp. cbv zeta. unfold acc_of.
  pose proof (Z.div_mod (gap * rate) NS ltac:(unfold NS; lia)) as E1.
  pose proof (Z.mod_pos_bound (gap * rate) NS NS_pos) as B1.
  assert (0 <= gap * rate / NS) by (apply Z.div_pos; [nia|apply NS_pos]).
  set (q := gap * rate / NS) in *. set (rm := (gap * rate) mod NS) in *.
  destruct (Z.ltb_spec (pool * PREC) (q + err)) as [Hc|Hc].
  - unfold NS, PREC in *. repeat split; lia.
  - pose proof (Z.div_mod (q + err) PREC ltac:(unfold PREC; lia)) as E2.
    pose proof (Z.mod_pos_bound (q + err) PREC PREC_pos) as B2.
    assert (0 <= (q + err) / PREC) by (apply Z.div_pos; [lia|apply PREC_pos]).
    assert ((q + err) / PREC <= pool).
    { apply Z.div_le_upper_bound; [apply PREC_pos|]. lia. }
    unfold NS, PREC in *. repeat split; lia.
Qed.

(** * invariant *)

Definition Inv (s : state) : Prop :=
  0 <= sr_err s < PREC /\ 0 <= c_rate s /\ 0 <= c_upg_rate s /\ 0 <= pool s /\
  0 <= sr_last s /\ 0 <= c_upg s /\ 0 <= kd_prev s /\ (sr_last s = 0 -> sr_err s = 0).

(* the invariant together with "the stored times are not after the clock" *)
Definition InvT (now : Z) (s : state) : Prop :=
  Inv s /\ sr_last s <= now /\ kd_prev s <= now.

Lemma inv_b_iff s : inv_b s = true <-> Inv s.
Proof.
  unfold inv_b, Inv. rewrite !andb_true_iff, orb_true_iff, negb_true_iff.
  rewrite !Z.leb_le, !Z.ltb_lt, !Z.eqb_eq, Z.eqb_neq. split.
  - intros H. repeat split; try lia.
  - intros H. repeat split; try lia. destruct (Z.eq_dec (sr_last s) 0); [right|left]; lia.
Qed.

(** * one payout *)

Definition pay_of (t : Z) (s : state) : payrec :=
  let gap := t - sr_last s in
  let acc0 := acc_of gap (c_rate s) (sr_err s) in
  let capped := pool s * PREC <? acc0 in
  mkPay gap (c_rate s) (pool s) (sr_err s)
        (if capped then pool s else acc0 / PREC) (if capped then 0 else acc0 mod PREC).

Definition pay_good (r : payrec) : Prop :=
  0 <= p_gap r /\ 0 <= p_rate r /\ 0 <= p_err0 r < PREC /\
  0 <= p_paid r <= p_pool r /\ 0 <= p_err1 r < PREC /\ 0 <= p_rem r < NS /\ 0 <= p_loss r /\
  (p_capped r = false -> p_loss r = 0) /\
  NS * (PREC * p_paid r + p_err1 r) + p_rem r + p_loss r = NS * p_err0 r + p_gap r * p_rate r.

Lemma pay_of_good t s : Inv s -> sr_last s <= t -> pay_good (pay_of t s).
Proof.
  intros (He & Hr & _ & Hp & _) Ht.
  pose proof (pay_arith (t - sr_last s) (c_rate s) (sr_err s) (pool s) ltac:(lia) Hr He Hp) as A.
  cbv zeta in A. destruct A as (A1 & A2 & A3 & A4 & A5).
  unfold pay_good, p_rem, p_loss, p_capped, p_acc0, pay_of. cbn [p_gap p_rate p_pool p_err0 p_paid p_err1].
  rewrite Z.quot_div_nonneg by (unfold NS; nia). fold (acc_of (t - sr_last s) (c_rate s) (sr_err s)).
  repeat split; try lia.
  destruct (pool s * PREC <? acc_of (t - sr_last s) (c_rate s) (sr_err s)); [discriminate|reflexivity].
Qed.

Lemma payout_eq t s : Inv s -> sr_last s <= t ->
  payout t s =
    if sr_last s =? 0 then Ok (set_sr s t (sr_err s)) None
    else let r := pay_of t s in
         Ok (set_sr (set_bank s (pool s - p_paid r) (sink s + p_paid r) (kdbal s) (supply s)) t (p_err1 r)) (Some r).
Proof.
  intros HI Ht. pose proof (pay_of_good t s HI Ht) as G.
  destruct HI as (He & Hr & _ & Hp & _).
  unfold payout. destruct (sr_last s =? 0).
  - unfold valid_sr. destruct (Z.leb_spec 0 (sr_err s)); [|lia]. destruct (Z.ltb_spec (sr_err s) PREC); [|lia]. reflexivity.
  - rewrite calc_closed by lia. cbv zeta.
    unfold pay_good, pay_of in G. cbn [p_gap p_rate p_pool p_err0 p_paid p_err1] in G.
    unfold pay_of. cbn [p_paid p_err1].
    destruct (pool s * PREC <? acc_of (t - sr_last s) (c_rate s) (sr_err s)).
    + destruct (Z.ltb_spec (pool s) 0); [lia|]. destruct (Z.ltb_spec (pool s) (pool s)); [lia|].
      unfold valid_sr. cbn. reflexivity.
    + destruct G as (_ & _ & _ & G4 & G5 & _).
      destruct (Z.ltb_spec (acc_of (t - sr_last s) (c_rate s) (sr_err s) / PREC) 0); [lia|].
      destruct (Z.ltb_spec (pool s) (acc_of (t - sr_last s) (c_rate s) (sr_err s) / PREC)); [lia|].
      unfold valid_sr.
      destruct (Z.leb_spec 0 (acc_of (t - sr_last s) (c_rate s) (sr_err s) mod PREC)); [|lia].
      destruct (Z.ltb_spec (acc_of (t - sr_last s) (c_rate s) (sr_err s) mod PREC) PREC); [|lia].
      reflexivity.
Qed.

(** * frame lemmas for the kavadist stage *)

Lemma kavadist_frame t s s' w : kavadist_bb t s = Ok s' w ->
  sr_last s' = sr_last s /\ sr_err s' = sr_err s /\ c_rate s' = c_rate s /\ c_upg s' = c_upg s /\
  c_upg_rate s' = c_upg_rate s /\ pool s' = pool s /\ sink s' = sink s /\
  m_min s' = m_min s /\ m_max s' = m_max s /\ d_tax s' = d_tax s /\
  kd_active s' = kd_active s /\ kd_periods s' = kd_periods s /\ kd_infra s' = kd_infra s /\
  (kd_active s = false -> s' = s /\ w = ([], [])) /\
  (kd_active s = true -> kd_prev s' = t).
Proof.
  unfold kavadist_bb. destruct (kd_active s) eqn:A; cbn [negb].
  - destruct (kd_prev s =? 0).
    + intros H; inversion H; subst. cbn. repeat split; try reflexivity; intros; discriminate.
    + destruct (mint_periods false t (kd_periods s) 0 (kd_prev s) (supply s)) as [[sup1 ws1]|]; [|discriminate].
      destruct (mint_periods true t (kd_infra s) 0 (kd_prev s) sup1) as [[sup2 ws2]|]; [|discriminate].
      intros H; inversion H; subst. cbn. repeat split; try reflexivity; intros; discriminate.
  - intros H; inversion H; subst. repeat split; try reflexivity; intros; try discriminate; auto.
Qed.

(* decomposition of one block into its stages *)
Lemma block_inv t m c s s' x : block t m c s = Ok s' x ->
  exists s2 pay s3 mm ws wsi,
    payout t (fst (check_disable t c s)) = Ok s2 pay /\
    mint_bb m s2 = (s3, mm) /\
    kavadist_bb t s3 = Ok s' (ws, wsi) /\
    x = OBlock (mkBout t (switch_due t s) (if switch_due t s then c else 0) pay mm ws wsi).
Proof.
  unfold block. intros H.
  assert (F : snd (check_disable t c s) = switch_due t s).
  { unfold check_disable. destruct (switch_due t s); reflexivity. }
  destruct (check_disable t c s) as [s1 fired] eqn:E. cbn [fst snd] in *. subst fired.
  destruct (payout t s1) as [s2 pay| |] eqn:P; try discriminate.
  destruct (mint_bb m s2) as [s3 mm] eqn:M.
  destruct (kavadist_bb t s3) as [s4 [ws wsi]| |] eqn:K; try discriminate.
  inversion H; subst. exists s2, pay, s3, mm, ws, wsi. auto.
Qed.

Lemma check_disable_inv t c s : Inv s -> 0 <= c -> Inv (fst (check_disable t c s)).
Proof.
  intros HI Hc. unfold check_disable. destruct (switch_due t s); cbn [fst]; [|exact HI].
  unfold Inv in *. cbn. lia.
Qed.

Lemma check_disable_last t c s : sr_last (fst (check_disable t c s)) = sr_last s /\
  sr_err (fst (check_disable t c s)) = sr_err s /\ kd_prev (fst (check_disable t c s)) = kd_prev s.
Proof. unfold check_disable. destruct (switch_due t s); cbn; auto. Qed.
