(* Lemmas and proofs about Model/Emissions.v *)
From Kava Require Import Base.Prelude Base.Dec Model.Emissions.
From Kava Require Export Proofs.EmissionsInfra.
Local Open Scope Z_scope.

(** * calculateStakingRewards in closed form *)

Definition acc_of (gap rate err : Z) : Z := (gap * rate) / NS + err.

Lemma calc_closed now last err rate pool :
  0 <= now - last -> 0 <= rate -> 0 <= err -> 0 <= pool ->
  calc_staking_rewards now last err rate (dec_of_int pool) =
    let acc0 := acc_of (now - last) rate err in
    if pool * PREC <? acc0 then (pool, 0) else (acc0 / PREC, acc0 mod PREC).
Proof.
  intros Hg Hr He Hp. unfold calc_staking_rewards, acc_of.
  set (gap := now - last) in *.
  assert (Hmul : dec_mul (dec_of_int gap) rate = gap * rate).
  { unfold dec_mul, dec_of_int. replace (gap * PREC * rate) with ((gap * rate) * PREC) by ring.
    apply chop_round_exact. nia. }
  rewrite Hmul. unfold dec_quo_int, dec_add.
  rewrite Z.quot_div_nonneg by (unfold NS; nia).
  assert (Hq : 0 <= gap * rate / NS) by (apply Z.div_pos; [nia|apply NS_pos]).
  cbv zeta. change (dec_of_int pool) with (pool * PREC).
  destruct (Z.ltb_spec (pool * PREC) (gap * rate / NS + err)) as [Hc|Hc].
  - unfold dec_trunc_dec, dec_trunc_int, dec_sub.
    rewrite Z.quot_mul by (unfold PREC; lia). rewrite Z.quot_mul by (unfold PREC; lia).
    f_equal. lia.
  - set (a := gap * rate / NS + err) in *.
    unfold dec_trunc_dec, dec_trunc_int, dec_sub.
    rewrite Z.quot_mul by (unfold PREC; lia).
    rewrite Z.quot_div_nonneg by (unfold PREC; lia).
    f_equal. pose proof (Z.div_mod a PREC ltac:(unfold PREC; lia)). lia.
Qed.

(* the arithmetic of one payout *)
Lemma pay_arith gap rate err pool :
  0 <= gap -> 0 <= rate -> 0 <= err < PREC -> 0 <= pool ->
  let acc0 := acc_of gap rate err in
  let capped := pool * PREC <? acc0 in
  let paid := if capped then pool else acc0 / PREC in
  let e' := if capped then 0 else acc0 mod PREC in
  let rm := (gap * rate) mod NS in
  let loss := if capped then NS * (acc0 - pool * PREC) else 0 in
  0 <= paid <= pool /\ 0 <= e' < PREC /\ 0 <= rm < NS /\ 0 <= loss /\
  NS * (PREC * paid + e') + rm + loss = NS * err + gap * rate.
Proof.
  intros Hg Hr He Hp. cbv zeta. unfold acc_of.
  pose proof (Z.div_mod (gap * rate) NS ltac:(unfold NS; lia)) as E1.
  pose proof (Z.mod_pos_bound (gap * rate) NS NS_pos) as B1.
  assert (0 <= gap * rate / NS) by (apply Z.div_pos; [nia|apply NS_pos]).
  set (q := gap * rate / NS) in *. set (rm := (gap * rate) mod NS) in *.
  destruct (Z.ltb_spec (pool * PREC) (q + err)) as [Hc|Hc].
  - unfold NS, PREC in *. repeat split; lia.
  - pose proof (Z.div_mod (q + err) PREC ltac:(unfold PREC; lia)) as E2.
    pose proof (Z.mod_pos_bound (q + err) PREC PREC_pos) as B2.
    assert (0 <= (q + err) / PREC) by (apply Z.div_pos; [lia|apply PREC_pos]).
    assert ((q + err) / PREC <= pool).
    { apply Z.div_le_upper_bound; [apply PREC_pos|]. lia. }
    unfold NS, PREC in *. repeat split; lia.
Qed.

(** * invariant *)

Definition Inv (s : state) : Prop :=
  0 <= sr_err s < PREC /\ 0 <= c_rate s /\ 0 <= c_upg_rate s /\ 0 <= pool s /\
  0 <= sr_last s /\ 0 <= c_upg s /\ 0 <= kd_prev s /\ (sr_last s = 0 -> sr_err s = 0) /\ 0 <= kdbal s.

(* the invariant together with "the stored times are not after the clock" *)
Definition InvT (now : Z) (s : state) : Prop :=
  Inv s /\ sr_last s <= now /\ kd_prev s <= now.

Lemma inv_b_iff s : inv_b s = true <-> Inv s.
Proof.
  unfold inv_b, Inv.
  destruct (Z.leb_spec 0 (sr_err s)); destruct (Z.ltb_spec (sr_err s) PREC);
  destruct (Z.leb_spec 0 (c_rate s)); destruct (Z.leb_spec 0 (c_upg_rate s));
  destruct (Z.leb_spec 0 (pool s)); destruct (Z.leb_spec 0 (sr_last s));
  destruct (Z.leb_spec 0 (c_upg s)); destruct (Z.leb_spec 0 (kd_prev s));
  destruct (Z.eqb_spec (sr_last s) 0); destruct (Z.eqb_spec (sr_err s) 0); destruct (Z.leb_spec 0 (kdbal s));
  cbn; split; intros HH; try discriminate; try reflexivity; try lia.
Qed.

(** * one payout *)

Definition pay_of (t : Z) (s : state) : payrec :=
  let gap := t - sr_last s in
  let acc0 := acc_of gap (c_rate s) (sr_err s) in
  let capped := pool s * PREC <? acc0 in
  mkPay gap (c_rate s) (pool s) (sr_err s)
        (if capped then pool s else acc0 / PREC) (if capped then 0 else acc0 mod PREC).

Definition pay_good (r : payrec) : Prop :=
  0 <= p_gap r /\ 0 <= p_rate r /\ 0 <= p_err0 r < PREC /\
  0 <= p_paid r <= p_pool r /\ 0 <= p_err1 r < PREC /\ 0 <= p_rem r < NS /\ 0 <= p_loss r /\
  (p_capped r = false -> p_loss r = 0) /\
  NS * (PREC * p_paid r + p_err1 r) + p_rem r + p_loss r = NS * p_err0 r + p_gap r * p_rate r.

Lemma pay_of_good t s : Inv s -> sr_last s <= t -> pay_good (pay_of t s).
Proof.
  intros (He & Hr & _ & Hp & _) Ht.
  pose proof (pay_arith (t - sr_last s) (c_rate s) (sr_err s) (pool s) ltac:(lia) Hr He Hp) as A.
  cbv zeta in A. destruct A as (A1 & A2 & A3 & A4 & A5).
  unfold pay_good, p_rem, p_loss, p_capped, p_acc0, pay_of. cbn [p_gap p_rate p_pool p_err0 p_paid p_err1].
  rewrite Z.quot_div_nonneg by (unfold NS; nia). fold (acc_of (t - sr_last s) (c_rate s) (sr_err s)).
  repeat split; try lia.
  destruct (pool s * PREC <? acc_of (t - sr_last s) (c_rate s) (sr_err s)); [discriminate|reflexivity].
Qed.

Lemma payout_eq t s : Inv s -> sr_last s <= t ->
  payout t s =
    if sr_last s =? 0 then Ok (set_sr s t (sr_err s)) None
    else let r := pay_of t s in
         Ok (set_sr (set_bank s (pool s - p_paid r) (sink s + p_paid r) (kdbal s) (supply s)) t (p_err1 r)) (Some r).
Proof.
  intros HI Ht. pose proof (pay_of_good t s HI Ht) as G.
  destruct HI as (He & Hr & _ & Hp & _).
  unfold payout. destruct (sr_last s =? 0).
  - unfold valid_sr. destruct (Z.leb_spec 0 (sr_err s)); [|lia]. destruct (Z.ltb_spec (sr_err s) PREC); [|lia]. reflexivity.
  - rewrite calc_closed by lia. cbv zeta.
    unfold pay_good, pay_of in G. cbn [p_gap p_rate p_pool p_err0 p_paid p_err1] in G.
    unfold pay_of. cbn [p_paid p_err1].
    destruct (pool s * PREC <? acc_of (t - sr_last s) (c_rate s) (sr_err s)).
    + destruct (Z.ltb_spec (pool s) 0); [lia|]. destruct (Z.ltb_spec (pool s) (pool s)); [lia|].
      unfold valid_sr. cbn. reflexivity.
    + destruct G as (_ & _ & _ & G4 & G5 & _).
      destruct (Z.ltb_spec (acc_of (t - sr_last s) (c_rate s) (sr_err s) / PREC) 0); [lia|].
      destruct (Z.ltb_spec (pool s) (acc_of (t - sr_last s) (c_rate s) (sr_err s) / PREC)); [lia|].
      unfold valid_sr.
      destruct (Z.leb_spec 0 (acc_of (t - sr_last s) (c_rate s) (sr_err s) mod PREC)); [|lia].
      destruct (Z.ltb_spec (acc_of (t - sr_last s) (c_rate s) (sr_err s) mod PREC) PREC); [|lia].
      reflexivity.
Qed.

Lemma kd_mint_some infl secs sup a : kd_mint infl secs sup = Some a ->
  0 <= secs /\ a = kd_amount infl secs sup /\ 0 <= a.
Proof.
  unfold kd_mint. destruct (Z.ltb_spec infl 0) as [L1|L1]; cbn [orb]; [discriminate|].
  destruct (Z.ltb_spec secs 0) as [L2|L2]; [discriminate|].
  destruct (Z.ltb_spec (kd_amount infl secs sup) 0) as [L3|L3]; [discriminate|].
  intros HS; inversion HS; subst. repeat split; lia.
Qed.

(* the coins minted for a list of windows are the growth of the supply *)
Lemma minted_cons w ws : minted (w :: ws) = w_amt w + minted ws.
Proof. reflexivity. Qed.

Lemma mint_periods_minted now : forall ps i prev sup sup' ws,
  mint_periods now ps i prev sup = Some (sup', ws) ->
  minted ws = sup' - sup /\ Forall (fun w => 0 <= w_amt w) ws.
Proof.
  induction ps as [|p r IH]; intros i prev sup sup' ws HM; cbn [mint_periods] in HM.
  - inversion HM; subst. split; [unfold minted; cbn; lia|constructor].
  - destruct (p_end p <? prev); [eapply IH; eassumption|].
    destruct (kd_case2 now prev p).
    + destruct (kd_mint (p_infl p) (unix (p_end p) - unix (Z.max prev (p_start p))) sup) as [a|] eqn:KM; [|discriminate].
      destruct (mint_periods now r (S i) (p_end p) (sup + a)) as [[sup2 ws2]|] eqn:R; [|discriminate].
      inversion HM; subst; clear HM. destruct (kd_mint_some _ _ _ _ KM) as (_ & _ & K3).
      destruct (IH _ _ _ _ _ R) as (I1 & I2). rewrite minted_cons. cbn [w_amt].
      split; [lia|constructor; [exact K3|exact I2]].
    + destruct (kd_case3 now prev p); [|eapply IH; eassumption].
      destruct (kd_mint (p_infl p) (unix now - unix prev) sup) as [a|] eqn:KM; [|discriminate].
      destruct (mint_periods now r (S i) prev (sup + a)) as [[sup2 ws2]|] eqn:R; [|discriminate].
      inversion HM; subst; clear HM. destruct (kd_mint_some _ _ _ _ KM) as (_ & _ & K3).
      destruct (IH _ _ _ _ _ R) as (I1 & I2). rewrite minted_cons. cbn [w_amt].
      split; [lia|constructor; [exact K3|exact I2]].
Qed.

Lemma minted_nonneg ws : Forall (fun w => 0 <= w_amt w) ws -> 0 <= minted ws.
Proof. induction 1 as [|w l Hw _ IH]; [unfold minted; cbn; lia|rewrite minted_cons; lia]. Qed.

(* the minting stage credits the kavadist account with exactly what it mints *)
Lemma kavadist_minted t s s' ws wsi : kavadist_bb t s = Ok s' (ws, wsi) ->
  0 <= minted ws /\ 0 <= minted wsi /\
  kdbal s' = kdbal s + minted ws + minted wsi /\ supply s' = supply s + minted ws + minted wsi /\
  kd_partners s' = kd_partners s /\ kd_cores s' = kd_cores s /\ users s' = users s /\
  ((kd_active s = false \/ kd_prev s = 0) -> wsi = []).
Proof.
  unfold kavadist_bb. destruct (kd_active s); cbn [negb].
  - destruct (Z.eqb_spec (kd_prev s) 0) as [Z0|NZ].
    + intros H; inversion H; subst. unfold minted. cbn. repeat split; lia.
    + destruct (mint_periods t (kd_periods s) 0 (kd_prev s) (supply s)) as [[sup1 ws1]|] eqn:M1; [|discriminate].
      destruct (mint_periods t (kd_infra s) 0 (kd_prev s) sup1) as [[sup2 ws2]|] eqn:M2; [|discriminate].
      intros H; inversion H; subst.
      destruct (mint_periods_minted _ _ _ _ _ _ _ M1) as (A1 & B1).
      destruct (mint_periods_minted _ _ _ _ _ _ _ M2) as (A2 & B2).
      pose proof (minted_nonneg _ B1). pose proof (minted_nonneg _ B2).
      cbn. repeat split; try lia; try (intros [X|X]; [discriminate|contradiction]).
  - intros H; inversion H; subst. unfold minted. cbn. repeat split; lia.
Qed.

Definition w_len (w : window) : Z := w_to w - w_from w.
Definition win_secs (ws : list window) : Z := zsum (map w_len ws).

Lemma win_secs_cons w ws : win_secs (w :: ws) = w_len w + win_secs ws.
Proof. reflexivity. Qed.

(* the elapsed time handed to the distribution is the total length of the
   windows minted in this call: the time that was minted for, nothing else *)
Lemma infra_elapsed_windows now : forall ps i prev sup sup' ws te,
  mint_periods now ps i prev sup = Some (sup', ws) ->
  infra_elapsed now ps prev te = te + win_secs ws.
Proof.
  induction ps as [|p r IH]; intros i prev sup sup' ws te HM; cbn [mint_periods infra_elapsed] in *.
  - inversion HM; subst. unfold win_secs, zsum. cbn. lia.
  - destruct (p_end p <? prev); [eapply IH; eassumption|].
    destruct (kd_case2 now prev p).
    + destruct (kd_mint (p_infl p) (unix (p_end p) - unix (Z.max prev (p_start p))) sup) as [a|]; [|discriminate].
      destruct (mint_periods now r (S i) (p_end p) (sup + a)) as [[sup2 ws2]|] eqn:R; [|discriminate].
      inversion HM; subst; clear HM. rewrite win_secs_cons. unfold w_len at 1. cbn [w_to w_from].
      rewrite (IH _ _ _ _ _ _ R). lia.
    + destruct (kd_case3 now prev p); [|eapply IH; eassumption].
      destruct (kd_mint (p_infl p) (unix now - unix prev) sup) as [a|]; [|discriminate].
      destruct (mint_periods now r (S i) prev (sup + a)) as [[sup2 ws2]|] eqn:R; [|discriminate].
      inversion HM; subst; clear HM. rewrite win_secs_cons. unfold w_len at 1. cbn [w_to w_from].
      rewrite (IH _ _ _ _ _ _ R). lia.
Qed.

(* MintPeriodInflation = minting stage, then the distribution of what the
   infrastructure periods minted *)
Lemma kavadist_full_inv t s s' ws wsi d : kavadist_full t s = Ok s' (ws, wsi, d) ->
  exists s1, kavadist_bb t s = Ok s1 (ws, wsi) /\ dist_good s1 s' d /\ d_coins d = minted wsi /\
    d_te d = win_secs wsi /\ (d_te d = 0 \/ d_te d = infra_elapsed t (kd_infra s) (kd_prev s) 0).
Proof.
  unfold kavadist_full. destruct (kavadist_bb t s) as [s1 [ws1 wsi1]| |] eqn:K; try discriminate.
  destruct (negb (kd_active s) || (kd_prev s =? 0)) eqn:G.
  - intros H; inversion H; subst. exists s'. split; [reflexivity|]. split; [apply dist_good_no_dist|].
    destruct (kavadist_minted _ _ _ _ _ K) as (_ & _ & _ & _ & _ & _ & _ & W).
    rewrite W; [split; [reflexivity|split; [reflexivity|left; reflexivity]]|].
    apply orb_true_iff in G. destruct G as [G|G]; [left; destruct (kd_active s); [discriminate|reflexivity]|right; apply Z.eqb_eq; exact G].
  - destruct (distribute (infra_elapsed t (kd_infra s) (kd_prev s) 0) (minted wsi1) s1) as [[s2 d2]|] eqn:D; [|discriminate].
    intros H; inversion H; subst. exists s1. split; [reflexivity|].
    destruct (distribute_facts _ _ _ _ _ D) as (E1 & E2 & GD). split; [exact GD|]. split; [exact E2|].
    split; [|right; exact E1].
    rewrite E1. apply orb_false_iff in G. destruct G as (G1 & G2). apply negb_false_iff in G1.
    revert K. unfold kavadist_bb. rewrite G1, G2. cbn [negb].
    destruct (mint_periods t (kd_periods s) 0 (kd_prev s) (supply s)) as [[sup1 ws1]|]; [|discriminate].
    destruct (mint_periods t (kd_infra s) 0 (kd_prev s) sup1) as [[sup2 ws2]|] eqn:M2; [|discriminate].
    intros K; inversion K; subst. rewrite (infra_elapsed_windows _ _ _ _ _ _ _ 0 M2). lia.
Qed.

(** * frame lemmas for the kavadist stage *)

Lemma kavadist_frame t s s' w : kavadist_bb t s = Ok s' w ->
  sr_last s' = sr_last s /\ sr_err s' = sr_err s /\ c_rate s' = c_rate s /\ c_upg s' = c_upg s /\
  c_upg_rate s' = c_upg_rate s /\ pool s' = pool s /\ sink s' = sink s /\
  m_min s' = m_min s /\ m_max s' = m_max s /\ d_tax s' = d_tax s /\
  kd_active s' = kd_active s /\ kd_periods s' = kd_periods s /\ kd_infra s' = kd_infra s /\
  (kd_active s = false -> s' = s /\ w = ([], [])) /\
  (kd_active s = true -> kd_prev s' = t).
Proof.
  unfold kavadist_bb. destruct (kd_active s) eqn:A; cbn [negb].
  - destruct (kd_prev s =? 0).
    + intros H; inversion H; subst. cbn. repeat split; try reflexivity; intros; discriminate.
    + destruct (mint_periods t (kd_periods s) 0 (kd_prev s) (supply s)) as [[sup1 ws1]|]; [|discriminate].
      destruct (mint_periods t (kd_infra s) 0 (kd_prev s) sup1) as [[sup2 ws2]|]; [|discriminate].
      intros H; inversion H; subst. cbn. repeat split; try reflexivity; intros; discriminate.
  - intros H; inversion H; subst. repeat split; try reflexivity; intros; try discriminate; auto.
Qed.

Lemma kavadist_full_frame t s s' ws wsi d : kavadist_full t s = Ok s' (ws, wsi, d) ->
  sr_last s' = sr_last s /\ sr_err s' = sr_err s /\ c_rate s' = c_rate s /\ c_upg s' = c_upg s /\
  c_upg_rate s' = c_upg_rate s /\ pool s' = pool s + dist_to_pool d /\ sink s' = sink s /\
  m_min s' = m_min s /\ m_max s' = m_max s /\ d_tax s' = d_tax s /\
  kd_active s' = kd_active s /\ kd_periods s' = kd_periods s /\ kd_infra s' = kd_infra s /\
  (kd_active s = false -> s' = s /\ ws = [] /\ wsi = [] /\ d = no_dist) /\
  (kd_active s = true -> kd_prev s' = t).
Proof.
  unfold kavadist_full. destruct (kavadist_bb t s) as [s1 [ws1 wsi1]| |] eqn:K; try discriminate.
  apply kavadist_frame in K.
  destruct K as (K1 & K2 & K3 & K4 & K5 & K6 & K7 & K8 & K9 & K10 & K11 & K12 & K13 & K14 & K15).
  destruct (negb (kd_active s) || (kd_prev s =? 0)) eqn:G.
  - intros H; inversion H; subst. unfold dist_to_pool, to_pool. cbn [no_dist d_partner d_core map zsum fold_right].
    repeat split; try assumption; try lia; destruct (K14 ltac:(assumption)) as (-> & E); inversion E; subst; auto.
  - destruct (distribute (infra_elapsed t (kd_infra s) (kd_prev s) 0) (minted wsi1) s1) as [[s2 d2]|] eqn:D; [|discriminate].
    intros H; inversion H; subst.
    destruct (distribute_facts _ _ _ _ _ D) as (_ & _ & (F & _ & _ & _ & P & _)).
    unfold frame in F. decompose [and] F. clear F.
    apply orb_false_iff in G. destruct G as (G1 & G2). apply negb_false_iff in G1.
    repeat split; try congruence; try lia.
    intros A. rewrite H11. auto.
Qed.

(* decomposition of one block into its stages *)
Lemma block_inv t m c s s' x : block t m c s = Ok s' x ->
  exists s2 pay s3 mm ws wsi d,
    payout t (fst (check_disable t c s)) = Ok s2 pay /\
    mint_bb m s2 = (s3, mm) /\
    kavadist_full t s3 = Ok s' (ws, wsi, d) /\
    x = OBlock (mkBout t (switch_due t s) (if switch_due t s then c else 0) pay mm ws wsi d).
Proof.
  unfold block. intros H.
  assert (F : snd (check_disable t c s) = switch_due t s).
  { unfold check_disable. destruct (switch_due t s); reflexivity. }
  destruct (check_disable t c s) as [s1 fired] eqn:E. cbn [fst snd] in *. subst fired.
  destruct (payout t s1) as [s2 pay| |] eqn:P; try discriminate.
  destruct (mint_bb m s2) as [s3 mm] eqn:M.
  destruct (kavadist_full t s3) as [s4 [[ws wsi] d]| |] eqn:K; try discriminate.
  inversion H; subst. exists s2, pay, s3, mm, ws, wsi, d. auto.
Qed.

Lemma check_disable_inv t c s : Inv s -> 0 <= c -> Inv (fst (check_disable t c s)).
Proof.
  intros HI Hc. unfold check_disable. destruct (switch_due t s); cbn [fst]; [|exact HI].
  unfold Inv in *. cbn. lia.
Qed.

Lemma check_disable_kdbal t c s : kdbal (fst (check_disable t c s)) = kdbal s.
Proof. unfold check_disable. destruct (switch_due t s); reflexivity. Qed.

Lemma check_disable_last t c s : sr_last (fst (check_disable t c s)) = sr_last s /\
  sr_err (fst (check_disable t c s)) = sr_err s /\ kd_prev (fst (check_disable t c s)) = kd_prev s.
Proof. unfold check_disable. destruct (switch_due t s); cbn; auto. Qed.

(** * facts about one successful step *)

Definition clock (now : Z) (o : op) : Z := match o with Block t _ _ => t | _ => now end.
Definition head_ok (now : Z) (o : op) : Prop :=
  match o with Block t m c => now <= t /\ 0 < t /\ 0 <= m /\ 0 <= c | _ => True end.

Lemma mono_cons now o r : mono now (o :: r) <-> head_ok now o /\ mono (clock now o) r.
Proof. destruct o; cbn; tauto. Qed.

Lemma InvT_weaken now now' s : InvT now s -> now <= now' -> InvT now' s.
Proof. unfold InvT. intros (H & A & B) L. split; [exact H|split; lia]. Qed.

Definition pay_ctx (s s' : state) (r : payrec) : Prop :=
  p_err0 r = sr_err s /\ p_gap r = sr_last s' - sr_last s /\
  p_rate r = c_rate s' /\ sr_last s <> 0.

Ltac fsimpl := cbn [sr_last sr_err c_rate c_upg c_upg_rate pool sink kdbal supply m_min m_max d_tax
  kd_active kd_prev kd_periods kd_infra kd_partners kd_cores users set_sr set_bank set_rate set_kd set_users
  p_gap p_rate p_pool p_err0 p_paid p_err1 fst snd zsum map fold_right flat_map app
  b_pay b_cons b_fired b_time b_mint b_ws b_wsi b_dist length filter] in *.

Lemma payout_frame t s s' p : payout t s = Ok s' p ->
  c_rate s' = c_rate s /\ c_upg s' = c_upg s /\ c_upg_rate s' = c_upg_rate s /\
  m_min s' = m_min s /\ m_max s' = m_max s /\ d_tax s' = d_tax s /\
  kd_active s' = kd_active s /\ kd_prev s' = kd_prev s /\ kd_periods s' = kd_periods s /\
  kd_infra s' = kd_infra s /\ supply s' = supply s /\ kdbal s' = kdbal s.
Proof.
  unfold payout. destruct (sr_last s =? 0).
  - destruct (valid_sr (sr_err s)); [|discriminate]. intros H; inversion H; subst. cbn. repeat split.
  - destruct (calc_staking_rewards t (sr_last s) (sr_err s) (c_rate s) (dec_of_int (pool s))) as [paid e'].
    destruct (paid <? 0); [discriminate|]. destruct (pool s <? paid); [discriminate|].
    destruct (valid_sr e'); cbn [negb]; [|discriminate].
    intros H; inversion H; subst. cbn. repeat split.
Qed.

Lemma block_facts now t m c s s' x :
  InvT now s -> head_ok now (Block t m c) -> block t m c s = Ok s' x ->
  InvT t s' /\
  Forall pay_good (pays [x]) /\
  NS * (PREC * paid_sum [x] + sr_err s') + rem_sum [x] + loss_sum [x] = NS * sr_err s + sched_sum [x] /\
  pool s' = pool s + adj_sum [x] - paid_sum [x] /\
  Forall (pay_ctx s s') (pays [x]) /\
  sr_last s' = t /\ (pays [x] = [] -> sr_last s = 0).
Proof.
  intros (HI & HL & HK) (Hn & Ht & Hm & Hc) HB.
  apply block_inv in HB. destruct HB as (s2 & pay & s3 & mm & ws & wsi & d & P & M & K & ->).
  pose proof (check_disable_inv t c s HI Hc) as HI1.
  destruct (check_disable_last t c s) as (L1 & L2 & L3).
  assert (Pool1 : pool (fst (check_disable t c s)) = pool s + (if switch_due t s then c else 0)).
  { unfold check_disable. destruct (switch_due t s); cbn [fst pool]; lia. }
  pose proof (check_disable_kdbal t c s) as KB1.
  set (s1 := fst (check_disable t c s)) in *.
  assert (KB2 : kdbal s2 = kdbal s1) by (apply payout_frame in P; apply P).
  unfold mint_bb in M. inversion M; subst s3 mm; clear M.
  assert (Hkb : 0 <= kdbal s' /\ 0 <= dist_to_pool d).
  { destruct (kavadist_full_inv _ _ _ _ _ _ K) as (s4 & KBB & GD & DC & _).
    destruct (kavadist_minted _ _ _ _ _ KBB) as (M1 & M2 & M3 & _).
    split; [|eapply dist_to_pool_nonneg; exact GD].
    destruct GD as (_ & _ & _ & _ & _ & _ & _ & G8 & _). apply G8. rewrite DC, M3. fsimpl.
    destruct HI as (_ & _ & _ & _ & _ & _ & _ & _ & HI9). lia. }
  destruct Hkb as (Hkb & Hdp).
  rewrite payout_eq in P by (try exact HI1; lia).
  apply kavadist_full_frame in K.
  destruct K as (K1 & K2 & K3 & K4 & K5 & K6 & K7 & K8 & K9 & K10 & K11 & K12 & K13 & K14 & K15).
  fsimpl.
  assert (Hkp : 0 <= kd_prev s' <= t).
  { destruct (kd_active s2) eqn:A.
    - rewrite (K15 eq_refl). lia.
    - destruct (K14 eq_refl) as (-> & _). fsimpl. destruct HI as (_ & _ & _ & _ & _ & _ & HI7 & _).
      destruct (sr_last s1 =? 0); inversion P; subst s2; fsimpl; lia. }
  unfold paid_sum, rem_sum, loss_sum, sched_sum, adj_sum, pays. fsimpl.
  destruct (Z.eqb_spec (sr_last s1) 0) as [Z0|NZ0].
  - inversion P; subst s2 pay; clear P. fsimpl.
    split; [|repeat split; try constructor; lia].
    unfold InvT, Inv in *. rewrite K1, K2, K3, K4, K5, K6. lia.
  - pose proof (pay_of_good t s1 HI1 ltac:(lia)) as G.
    assert (E1 : p_err0 (pay_of t s1) = sr_err s1) by reflexivity.
    assert (E2 : p_pool (pay_of t s1) = pool s1) by reflexivity.
    assert (E3 : p_gap (pay_of t s1) = t - sr_last s1) by reflexivity.
    assert (E4 : p_rate (pay_of t s1) = c_rate s1) by reflexivity.
    remember (pay_of t s1) as r eqn:Er. clear Er. cbv zeta in P.
    inversion P; subst s2 pay; clear P. fsimpl.
    assert (G' := G). destruct G' as (G1 & G2 & G3 & G4 & G5 & G6 & G7 & G8 & G9).
    split; [|repeat split; try (constructor; [|constructor])].
    + unfold InvT, Inv in *. rewrite K1, K2, K3, K4, K5, K6. lia.
    + exact G.
    + rewrite K2. lia.
    + rewrite K6. lia.
    + unfold pay_ctx. rewrite K1, K3. repeat split; try lia.
    + exact K1.
    + discriminate.
Qed.

(* a block in which the switch is not due leaves the switched parameters alone *)
Lemma block_nofire t m c s s' x : switch_due t s = false -> block t m c s = Ok s' x ->
  c_rate s' = c_rate s /\ c_upg s' = c_upg s /\ c_upg_rate s' = c_upg_rate s /\
  m_min s' = m_min s /\ m_max s' = m_max s /\ d_tax s' = d_tax s /\ kd_active s' = kd_active s /\
  (exists b, x = OBlock b /\ b_fired b = false /\ b_cons b = 0).
Proof.
  intros D HB. apply block_inv in HB. destruct HB as (s2 & pay & s3 & mm & ws & wsi & d & P & M & K & ->).
  unfold check_disable in P. rewrite D in *. cbn [fst] in P.
  apply payout_frame in P. apply kavadist_full_frame in K. unfold mint_bb in M. inversion M; subst s3 mm; clear M.
  fsimpl. destruct P as (P1 & P2 & P3 & P4 & P5 & P6 & P7 & _).
  destruct K as (_ & _ & K3 & K4 & K5 & _ & _ & K8 & K9 & K10 & K11 & _).
  repeat split; try congruence. eexists; repeat split.
Qed.

(* the block in which the switch is due *)
Lemma block_fire t m c s s' x : switch_due t s = true -> block t m c s = Ok s' x ->
  c_rate s' = c_upg_rate s /\ c_upg s' = 0 /\ c_upg_rate s' = c_upg_rate s /\
  m_min s' = 0 /\ m_max s' = 0 /\ d_tax s' = 0 /\ kd_active s' = false /\
  supply s' = supply s /\ kdbal s' = kdbal s /\
  (exists b, x = OBlock b /\ b_fired b = true /\ b_cons b = c /\ b_mint b = 0 /\ b_ws b = [] /\ b_wsi b = [] /\ b_dist b = no_dist).
Proof.
  intros D HB. apply block_inv in HB. destruct HB as (s2 & pay & s3 & mm & ws & wsi & d & P & M & K & ->).
  unfold check_disable in P. rewrite D in *. cbn [fst] in P.
  apply payout_frame in P. cbn [c_rate c_upg c_upg_rate m_min m_max d_tax kd_active kd_prev kd_periods kd_infra supply kdbal] in P.
  destruct P as (P1 & P2 & P3 & P4 & P5 & P6 & P7 & P8 & P9 & P10 & P11 & P12).
  unfold mint_bb in M. rewrite P5 in M. cbn [Z.eqb] in M. inversion M; subst s3 mm; clear M.
  apply kavadist_full_frame in K. fsimpl.
  destruct K as (_ & _ & K3 & K4 & K5 & _ & _ & K8 & K9 & K10 & K11 & _ & _ & K14 & _).
  destruct (K14 P7) as (-> & -> & -> & ->). fsimpl.
  repeat split; try congruence; try lia. eexists; repeat split.
Qed.

(** * additivity of the ghost sums *)

Lemma zsum_app l1 l2 : zsum (l1 ++ l2) = zsum l1 + zsum l2.
Proof. unfold zsum. induction l1 as [|a l1 IH]; cbn [app fold_right]; lia. Qed.

Lemma pays_cons x l : pays (x :: l) = pays [x] ++ pays l.
Proof. unfold pays. cbn [flat_map]. rewrite app_nil_r. reflexivity. Qed.
Lemma blocks_cons x l : blocks (x :: l) = blocks [x] ++ blocks l.
Proof. unfold blocks. cbn [flat_map]. rewrite app_nil_r. reflexivity. Qed.

Lemma paid_sum_cons x l : paid_sum (x :: l) = paid_sum [x] + paid_sum l.
Proof. unfold paid_sum. rewrite pays_cons, map_app, zsum_app. reflexivity. Qed.
Lemma sched_sum_cons x l : sched_sum (x :: l) = sched_sum [x] + sched_sum l.
Proof. unfold sched_sum. rewrite pays_cons, map_app, zsum_app. reflexivity. Qed.
Lemma rem_sum_cons x l : rem_sum (x :: l) = rem_sum [x] + rem_sum l.
Proof. unfold rem_sum. rewrite pays_cons, map_app, zsum_app. reflexivity. Qed.
Lemma loss_sum_cons x l : loss_sum (x :: l) = loss_sum [x] + loss_sum l.
Proof. unfold loss_sum. rewrite pays_cons, map_app, zsum_app. reflexivity. Qed.
Lemma adj_sum_cons x l : adj_sum (x :: l) = adj_sum [x] + adj_sum l.
Proof. unfold adj_sum, zsum. cbn [map fold_right]. lia. Qed.
Lemma npays_cons x l : npays (x :: l) = npays [x] + npays l.
Proof. unfold npays. rewrite pays_cons, app_length. lia. Qed.

(** * facts about any successful step *)

Lemma step_facts now s o s' x :
  InvT now s -> head_ok now o -> step s o = Ok s' x ->
  InvT (clock now o) s' /\
  Forall pay_good (pays [x]) /\
  NS * (PREC * paid_sum [x] + sr_err s') + rem_sum [x] + loss_sum [x] = NS * sr_err s + sched_sum [x] /\
  pool s' = pool s + adj_sum [x] - paid_sum [x] /\
  Forall (pay_ctx s s') (pays [x]) /\
  (pays [x] = [] -> sr_last s' = sr_last s \/ sr_last s = 0).
Proof.
  intros HT HO HS. destruct o; cbn [step clock] in *.
  - destruct (block_facts now t mint_o cons_o s s' x HT HO HS) as (A & B & C & D & E & F & G).
    refine (conj A (conj B (conj C (conj D (conj E _))))). intros Hp. right. exact (G Hp).
  - destruct (Z.ltb_spec (pool s + d) 0); [discriminate|]. inversion HS; subst.
    unfold paid_sum, rem_sum, loss_sum, sched_sum, adj_sum, pays. fsimpl.
    destruct HT as (HI & HL & HK). unfold InvT, Inv in *. fsimpl.
    repeat split; try constructor; try lia; try (left; reflexivity).
  - destruct (Z.ltb_spec r 0); [discriminate|]. inversion HS; subst.
    unfold paid_sum, rem_sum, loss_sum, sched_sum, adj_sum, pays. fsimpl.
    destruct HT as (HI & HL & HK). unfold InvT, Inv in *. fsimpl.
    repeat split; try constructor; try lia; try (left; reflexivity).
  - inversion HS; subst.
    unfold paid_sum, rem_sum, loss_sum, sched_sum, adj_sum, pays. fsimpl.
    destruct HT as (HI & HL & HK). unfold InvT, Inv in *. fsimpl.
    repeat split; try constructor; try lia; try (left; reflexivity).
  - destruct (calc_staking_rewards now0 last err rate pool_dec) as [paid e]. inversion HS; subst.
    unfold paid_sum, rem_sum, loss_sum, sched_sum, adj_sum, pays. fsimpl.
    destruct HT as (HI & HL & HK). unfold InvT, Inv in *.
    repeat split; try constructor; try lia; try (left; reflexivity).
  - unfold kd_direct in HS. destruct (mint_periods now0 ps 0 prev (supply s)) as [[sup' ws]|] eqn:MP; [|discriminate].
    inversion HS; subst.
    destruct (mint_periods_minted _ _ _ _ _ _ _ MP) as (MM & MN). pose proof (minted_nonneg _ MN).
    unfold paid_sum, rem_sum, loss_sum, sched_sum, adj_sum, pays. fsimpl.
    destruct HT as (HI & HL & HK). unfold InvT, Inv in *. fsimpl.
    repeat split; try constructor; try lia; try (left; reflexivity).
  - unfold kd_direct_infra in HS. destruct (mint_periods now0 ps 0 prev (supply s)) as [[sup' ws]|] eqn:MP; [|discriminate].
    inversion HS; subst.
    destruct (mint_periods_minted _ _ _ _ _ _ _ MP) as (MM & MN). pose proof (minted_nonneg _ MN).
    unfold paid_sum, rem_sum, loss_sum, sched_sum, adj_sum, pays. fsimpl.
    destruct HT as (HI & HL & HK). unfold InvT, Inv in *. fsimpl.
    repeat split; try constructor; try lia; try (left; reflexivity).
Qed.

(** * whole histories *)

Lemma clock_ge now o : head_ok now o -> now <= clock now o.
Proof. destruct o; cbn; lia. Qed.

Lemma run_facts ops : forall now s sf outs,
  InvT now s -> mono now ops -> run_outs s ops = (sf, outs) ->
  Inv sf /\ Forall pay_good (pays outs) /\
  NS * (PREC * paid_sum outs + sr_err sf) + rem_sum outs + loss_sum outs = NS * sr_err s + sched_sum outs /\
  pool sf = pool s + adj_sum outs - paid_sum outs.
Proof.
  induction ops as [|o r IH]; intros now s sf outs HT HM HR.
  - cbn in HR. inversion HR; subst. destruct HT as (HI & _).
    unfold paid_sum, rem_sum, loss_sum, sched_sum, adj_sum, pays. cbn [flat_map map zsum fold_right].
    repeat split; try constructor; try apply HI; lia.
  - apply mono_cons in HM. destruct HM as (HO & HM). cbn [run_outs] in HR.
    destruct (step s o) as [s' x| |] eqn:S.
    + destruct (run_outs s' r) as [sf' l] eqn:R. inversion HR; subst sf' outs; clear HR.
      destruct (step_facts now s o s' x HT HO S) as (A & B & C & D & _).
      destruct (IH _ _ _ _ A HM R) as (A' & B' & C' & D').
      rewrite pays_cons, paid_sum_cons, rem_sum_cons, loss_sum_cons, sched_sum_cons, adj_sum_cons.
      repeat split; try apply A'; try lia. apply Forall_app; split; assumption.
    + apply (IH (clock now o)); try assumption. apply (InvT_weaken now); [assumption|apply clock_ge; assumption].
    + apply (IH (clock now o)); try assumption. apply (InvT_weaken now); [assumption|apply clock_ge; assumption].
Qed.

Lemma sums_bounds l : Forall pay_good l ->
  0 <= zsum (map p_paid l) /\
  0 <= zsum (map p_rem l) <= (NS - 1) * Z.of_nat (length l) /\
  0 <= zsum (map p_loss l) /\
  0 <= zsum (map (fun r => p_gap r * p_rate r) l) /\
  (Forall (fun r => p_capped r = false) l -> zsum (map p_loss l) = 0) /\
  (Forall (fun r => p_rem r = 0) l -> zsum (map p_rem l) = 0).
Proof.
  induction 1 as [|r l G _ IH]; unfold zsum in *; cbn [map fold_right length].
  - repeat split; try lia; reflexivity.
  - destruct G as (G1 & G2 & G3 & G4 & G5 & G6 & G7 & G8 & G9).
    destruct IH as (I1 & I2 & I3 & I4 & I5 & I6).
    rewrite Nat2Z.inj_succ. repeat split; try nia.
    + intros F. inversion F; subst. rewrite (I5 H2), (G8 H1). lia.
    + intros F. inversion F; subst. rewrite (I6 H2), H1. lia.
Qed.

(* total paid never exceeds carried-in error + rate * elapsed (all scaled by 10^18 * 10^9) *)
Lemma staking_upper ops now s sf outs :
  InvT now s -> mono now ops -> run_outs s ops = (sf, outs) ->
  NS * PREC * paid_sum outs + NS * sr_err sf <= NS * sr_err s + sched_sum outs.
Proof.
  intros HT HM HR. destruct (run_facts ops now s sf outs HT HM HR) as (A & B & C & D).
  destruct (sums_bounds _ B) as (_ & S2 & S3 & _). unfold rem_sum, loss_sum in C. lia.
Qed.

Lemma staking_upper0 ops now s sf outs :
  InvT now s -> mono now ops -> run_outs s ops = (sf, outs) -> sr_err s = 0 ->
  NS * PREC * paid_sum outs <= sched_sum outs.
Proof.
  intros HT HM HR E. pose proof (staking_upper ops now s sf outs HT HM HR) as U.
  destruct (run_facts ops now s sf outs HT HM HR) as ((A & _) & _). rewrite E in U. unfold NS in *. lia.
Qed.

(* never above the pool balance *)
Lemma staking_pool ops now s sf outs :
  InvT now s -> mono now ops -> run_outs s ops = (sf, outs) ->
  Forall (fun r => 0 <= p_paid r <= p_pool r) (pays outs) /\
  0 <= pool sf /\ pool sf = pool s + adj_sum outs - paid_sum outs.
Proof.
  intros HT HM HR. destruct (run_facts ops now s sf outs HT HM HR) as (A & B & C & D).
  repeat split; try assumption.
  - eapply Forall_impl; [|exact B]. intros r G. apply G.
  - apply A.
Qed.

(* exact accounting when the pool never binds; the shortfall bound *)
Lemma staking_lower ops now s sf outs :
  InvT now s -> mono now ops -> run_outs s ops = (sf, outs) -> never_capped outs ->
  NS * sr_err s + sched_sum outs - NS * PREC * paid_sum outs = NS * sr_err sf + rem_sum outs /\
  NS * sr_err s + sched_sum outs - NS * PREC * paid_sum outs <= NS * (PREC - 1) + (NS - 1) * npays outs.
Proof.
  intros HT HM HR HC. destruct (run_facts ops now s sf outs HT HM HR) as (A & B & C & D).
  destruct (sums_bounds _ B) as (_ & S2 & _ & _ & S5 & _).
  unfold loss_sum in C. rewrite (S5 HC) in C. destruct A as (A & _).
  unfold rem_sum, npays in *. split; unfold NS in *; lia.
Qed.

Lemma staking_lower_strict ops now s sf outs :
  InvT now s -> mono now ops -> run_outs s ops = (sf, outs) -> never_capped outs ->
  Forall (fun r => (p_gap r * p_rate r) mod NS = 0) (pays outs) ->
  NS * sr_err s + sched_sum outs - NS * PREC * paid_sum outs < NS * PREC.
Proof.
  intros HT HM HR HC HD. destruct (staking_lower ops now s sf outs HT HM HR HC) as (E & _).
  destruct (run_facts ops now s sf outs HT HM HR) as ((A & _) & B & _).
  destruct (sums_bounds _ B) as (_ & _ & _ & _ & _ & S6).
  unfold rem_sum in E. rewrite (S6 HD) in E. unfold NS in *. lia.
Qed.

(* two ways of cutting the same scheduled amount into blocks *)
Lemma partition_independence ops1 ops2 now s sf1 outs1 sf2 outs2 :
  InvT now s -> mono now ops1 -> mono now ops2 ->
  run_outs s ops1 = (sf1, outs1) -> run_outs s ops2 = (sf2, outs2) ->
  never_capped outs1 -> never_capped outs2 -> sched_sum outs1 = sched_sum outs2 ->
  NS * PREC * Z.abs (paid_sum outs1 - paid_sum outs2) <=
    NS * (PREC - 1) + (NS - 1) * Z.max (npays outs1) (npays outs2).
Proof.
  intros HT M1 M2 R1 R2 C1 C2 E.
  destruct (staking_lower ops1 now s sf1 outs1 HT M1 R1 C1) as (E1 & _).
  destruct (staking_lower ops2 now s sf2 outs2 HT M2 R2 C2) as (E2 & _).
  destruct (run_facts ops1 now s sf1 outs1 HT M1 R1) as ((A1 & _) & B1 & _).
  destruct (run_facts ops2 now s sf2 outs2 HT M2 R2) as ((A2 & _) & B2 & _).
  destruct (sums_bounds _ B1) as (_ & S1 & _). destruct (sums_bounds _ B2) as (_ & S2 & _).
  unfold rem_sum, npays in *. unfold NS in *. lia.
Qed.

(** * steps other than blocks *)

Definition no_rate_change (o : op) : Prop := match o with SetRate _ => False | _ => True end.
Definition is_block (o : op) : bool := match o with Block _ _ _ => true | _ => false end.

Lemma nonblock_frame s o s' x : is_block o = false -> step s o = Ok s' x ->
  sr_last s' = sr_last s /\ sr_err s' = sr_err s /\ c_upg s' = c_upg s /\ c_upg_rate s' = c_upg_rate s /\
  m_min s' = m_min s /\ m_max s' = m_max s /\ d_tax s' = d_tax s /\ kd_prev s' = kd_prev s /\
  (no_rate_change o -> c_rate s' = c_rate s) /\
  (chain_op o -> supply s' = supply s /\ kdbal s' = kdbal s /\ (kd_active s = false -> kd_active s' = false)) /\
  blocks [x] = [] /\ pays [x] = [].
Proof.
  intros NB HS. destruct o; cbn [is_block step] in *; try discriminate.
  - destruct (pool s + d <? 0); [discriminate|]. inversion HS; subst. cbn. repeat split; auto.
  - destruct (r <? 0); [discriminate|]. inversion HS; subst. cbn. repeat split; auto. intros [].
  - inversion HS; subst. cbn. repeat split; auto; destruct b; cbn in *; try contradiction; auto.
  - destruct (calc_staking_rewards now last err rate pool_dec). inversion HS; subst. cbn. repeat split; auto; intros [].
  - unfold kd_direct in HS. destruct (mint_periods now ps 0 prev (supply s)) as [[? ?]|]; [|discriminate].
    inversion HS; subst. cbn. repeat split; auto; try contradiction; try (intros []).
  - unfold kd_direct_infra in HS. destruct (mint_periods now ps 0 prev (supply s)) as [[? ?]|]; [|discriminate].
    inversion HS; subst. cbn. repeat split; auto; try contradiction; try (intros []).
Qed.

Lemma switch_due_unarmed t s : c_upg s = 0 -> switch_due t s = false.
Proof. intros E. unfold switch_due. rewrite E. reflexivity. Qed.

(* with the trigger cleared and no rate update, the scheduled amount of a
   history is rate * (last accumulation time at the end - at the start) *)
Lemma sched_const ops : forall now s sf outs,
  InvT now s -> mono now ops -> Forall no_rate_change ops -> c_upg s = 0 -> sr_last s <> 0 ->
  run_outs s ops = (sf, outs) ->
  sched_sum outs = (sr_last sf - sr_last s) * c_rate s /\ sr_last s <= sr_last sf.
Proof.
  induction ops as [|o r IH]; intros now s sf outs HT HM HN HU HL HR.
  - cbn in HR. inversion HR; subst. unfold sched_sum, pays. cbn. lia.
  - apply mono_cons in HM. destruct HM as (HO & HM). inversion HN as [|? ? N1 N2]; subst. cbn [run_outs] in HR.
    destruct (step s o) as [s' x| |] eqn:S.
    + destruct (run_outs s' r) as [sf' l] eqn:R. inversion HR; subst sf' outs; clear HR.
      destruct (step_facts now s o s' x HT HO S) as (A & B & C & D & E & F).
      assert (P : c_upg s' = 0 /\ c_rate s' = c_rate s).
      { destruct (is_block o) eqn:IB.
        - destruct o; try discriminate. cbn [step] in S.
          destruct (block_nofire _ _ _ _ _ _ (switch_due_unarmed t s HU) S) as (P1 & P2 & _). split; congruence.
        - destruct (nonblock_frame s o s' x IB S) as (_ & _ & P3 & _ & _ & _ & _ & _ & P9 & _). split; [congruence|auto]. }
      destruct P as (P1 & P2).
      assert (Q : sched_sum [x] = (sr_last s' - sr_last s) * c_rate s /\ sr_last s <= sr_last s' /\ sr_last s' <> 0).
      { unfold sched_sum. destruct (pays [x]) as [|p [|p' l']] eqn:EP.
        - destruct (F eq_refl) as [F1|F1]; [|contradiction]. rewrite F1. cbn. lia.
        - inversion E as [|? ? E1 _]; subst. destruct E1 as (_ & E3 & E4 & _).
          inversion B as [|? ? B1 _]; subst. destruct B1 as (B1 & _).
          unfold zsum. cbn [map fold_right]. rewrite E3, E4, P2. split; [lia|]. split; [lia|].
          destruct HT as ((_ & _ & _ & _ & T5 & _) & _). lia.
        - exfalso. unfold pays in EP. cbn [flat_map] in EP. destruct x; try discriminate.
          destruct (b_pay b); discriminate. }
      destruct Q as (Q1 & Q2 & Q3).
      destruct (IH _ _ _ _ A HM N2 P1 Q3 R) as (I1 & I2).
      rewrite sched_sum_cons, Q1, I1, P2. split; lia.
    + apply (IH (clock now o)); try assumption. apply (InvT_weaken now); [assumption|apply clock_ge; assumption].
    + apply (IH (clock now o)); try assumption. apply (InvT_weaken now); [assumption|apply clock_ge; assumption].
Qed.

(** * the one-shot switch *)

Definition off (s : state) : Prop :=
  c_upg s = 0 /\ m_min s = 0 /\ m_max s = 0 /\ kd_active s = false.

Lemma fired_count_cons x l : fired_count (x :: l) = (fired_count [x] + fired_count l)%nat.
Proof. unfold fired_count. rewrite blocks_cons, filter_app, app_length. reflexivity. Qed.

(* a block with the trigger cleared, x/mint at zero and kavadist inactive creates no ukava *)
Lemma block_off_supply t m c s s' x : off s -> block t m c s = Ok s' x ->
  off s' /\ supply s' = supply s /\ kdbal s' = kdbal s /\ fired_count [x] = 0%nat.
Proof.
  intros (O1 & O2 & O3 & O4) HB.
  pose proof (block_nofire _ _ _ _ _ _ (switch_due_unarmed t s O1) HB) as (N1 & N2 & N3 & N4 & N5 & N6 & N7 & (b & -> & Fb & _)).
  apply block_inv in HB. destruct HB as (s2 & pay & s3 & mm & ws & wsi & d & P & M & K & E).
  unfold check_disable in P. rewrite (switch_due_unarmed t s O1) in P. cbn [fst] in P.
  apply payout_frame in P. destruct P as (P1 & P2 & P3 & P4 & P5 & P6 & P7 & P8 & P9 & P10 & P11 & P12).
  unfold mint_bb in M. rewrite P5, O3 in M. cbn [Z.eqb] in M. inversion M; subst s3 mm; clear M.
  apply kavadist_full_frame in K. destruct K as (_ & _ & _ & _ & _ & _ & _ & _ & _ & _ & _ & _ & _ & K14 & _).
  fsimpl. destruct (K14 ltac:(congruence)) as (-> & _). fsimpl.
  unfold off. fsimpl. repeat split; try congruence; try lia.
  unfold fired_count, blocks. cbn [flat_map app filter]. rewrite Fb. reflexivity.
Qed.

Lemma stays_off ops : forall s sf outs,
  Forall chain_op ops -> off s -> run_outs s ops = (sf, outs) ->
  off sf /\ supply sf = supply s /\ kdbal sf = kdbal s /\ fired_count outs = 0%nat.
Proof.
  induction ops as [|o r IH]; intros s sf outs HC HO HR.
  - cbn in HR. inversion HR; subst. repeat split; try apply HO.
  - inversion HC as [|? ? C1 C2]; subst. cbn [run_outs] in HR.
    destruct (step s o) as [s' x| |] eqn:S; try (eapply IH; eassumption).
    destruct (run_outs s' r) as [sf' l] eqn:R. inversion HR; subst sf' outs; clear HR.
    assert (Q : off s' /\ supply s' = supply s /\ kdbal s' = kdbal s /\ fired_count [x] = 0%nat).
    { destruct (is_block o) eqn:IB.
      - destruct o; try discriminate. cbn [step] in S. eapply block_off_supply; eassumption.
      - destruct (nonblock_frame s o s' x IB S) as (_ & _ & F3 & _ & F5 & F6 & _ & _ & _ & F10 & F11 & _).
        destruct (F10 C1) as (G1 & G2 & G3). destruct HO as (O1 & O2 & O3 & O4).
        unfold off, fired_count. rewrite F11. repeat split; try congruence; auto. }
    destruct Q as (Q1 & Q2 & Q3 & Q4).
    destruct (IH _ _ _ C2 Q1 R) as (I1 & I2 & I3 & I4).
    rewrite fired_count_cons, Q4, I4. repeat split; try apply I1; congruence.
Qed.

(* no operation of the model re-arms the trigger: it fires at most once in any history *)
Lemma upg_zero_never_fires ops : forall s sf outs,
  c_upg s = 0 -> run_outs s ops = (sf, outs) -> c_upg sf = 0 /\ fired_count outs = 0%nat.
Proof.
  induction ops as [|o r IH]; intros s sf outs HU HR.
  - cbn in HR. inversion HR; subst. auto.
  - cbn [run_outs] in HR.
    destruct (step s o) as [s' x| |] eqn:S; try (eapply IH; eassumption).
    destruct (run_outs s' r) as [sf' l] eqn:R. inversion HR; subst sf' outs; clear HR.
    assert (Q : c_upg s' = 0 /\ fired_count [x] = 0%nat).
    { destruct (is_block o) eqn:IB.
      - destruct o; try discriminate. cbn [step] in S.
        destruct (block_nofire _ _ _ _ _ _ (switch_due_unarmed t s HU) S) as (_ & N2 & _ & _ & _ & _ & _ & (b & -> & Fb & _)).
        split; [congruence|]. unfold fired_count, blocks. cbn [flat_map app filter]. rewrite Fb. reflexivity.
      - destruct (nonblock_frame s o s' x IB S) as (_ & _ & F3 & _ & _ & _ & _ & _ & _ & _ & F11 & _).
        unfold fired_count. rewrite F11. split; [congruence|reflexivity]. }
    destruct Q as (Q1 & Q2). destruct (IH _ _ _ Q1 R) as (I1 & I2).
    rewrite fired_count_cons, Q2, I2. auto.
Qed.

Lemma fires_at_most_once ops : forall s sf outs,
  run_outs s ops = (sf, outs) -> (fired_count outs <= 1)%nat.
Proof.
  induction ops as [|o r IH]; intros s sf outs HR.
  - cbn in HR. inversion HR; subst. cbn. lia.
  - cbn [run_outs] in HR.
    destruct (step s o) as [s' x| |] eqn:S; try (eapply IH; eassumption).
    destruct (run_outs s' r) as [sf' l] eqn:R. inversion HR; subst sf' outs; clear HR.
    rewrite fired_count_cons.
    destruct (is_block o) eqn:IB.
    + destruct o; try discriminate. cbn [step] in S.
      destruct (switch_due t s) eqn:D.
      * destruct (block_fire _ _ _ _ _ _ D S) as (_ & N2 & _ & _ & _ & _ & _ & _ & _ & (b & -> & Fb & _)).
        destruct (upg_zero_never_fires r s' sf l N2 R) as (_ & Z0). rewrite Z0.
        unfold fired_count, blocks. cbn [flat_map app filter]. rewrite Fb. cbn. lia.
      * destruct (block_nofire _ _ _ _ _ _ D S) as (_ & _ & _ & _ & _ & _ & _ & (b & -> & Fb & _)).
        specialize (IH _ _ _ R). unfold fired_count at 1, blocks. cbn [flat_map app filter]. rewrite Fb. cbn. lia.
    + destruct (nonblock_frame s o s' x IB S) as (_ & _ & _ & _ & _ & _ & _ & _ & _ & _ & F11 & _).
      specialize (IH _ _ _ R). unfold fired_count at 1. rewrite F11. cbn. lia.
Qed.

(** * kavadist windows *)

(* what is true of every window: inside the block interval (prev0, now], inside
   the period [Start, End], of non-negative length *)
Definition win_ok (now prev0 : Z) (w : window) : Prop :=
  prev0 <= w_prev w /\ w_from w = unix (w_prev w) /\ unix prev0 <= w_from w /\ w_from w <= w_to w /\
  w_to w <= unix now /\ w_to w <= unix (p_end (w_per w)) /\ 0 <= w_amt w /\
  unix (p_start (w_per w)) <= w_from w.

Lemma win_ok_weaken now p p' w : p <= p' -> win_ok now p' w -> win_ok now p w.
Proof.
  intros L (A & B & C & D). pose proof (unix_mono _ _ L). unfold win_ok. repeat split; try apply D; try lia.
Qed.

Lemma not_in_idx i ws : Forall (fun w => (S i <= w_idx w)%nat) ws -> ~ In i (map w_idx ws).
Proof.
  induction 1 as [|w l Hw _ IH]; cbn [map In]; [tauto|]. intros [E|E]; [lia|tauto].
Qed.

Lemma replay_cons sup w ws :
  replay_ws sup (w :: ws) = replay_ws (sup + kd_amount (p_infl (w_per w)) (w_to w - w_from w) sup) ws.
Proof. reflexivity. Qed.

Lemma mint_periods_windows now : forall ps i prev sup sup' ws,
  prev <= now -> mint_periods now ps i prev sup = Some (sup', ws) ->
  Forall (fun w => win_ok now prev w /\ In (w_per w) ps /\ (i <= w_idx w)%nat) ws /\
  NoDup (map w_idx ws) /\ sup' = replay_ws sup ws /\ sup <= sup'.
Proof.
  induction ps as [|p r IH]; intros i prev sup sup' ws Hpn HM; cbn [mint_periods] in HM.
  - inversion HM; subst. repeat split; try constructor; try lia.
  - assert (Lift : forall prev' sup1 ws1, prev <= prev' -> prev' <= now -> sup <= sup1 ->
              mint_periods now r (S i) prev' sup1 = Some (sup', ws1) ->
              Forall (fun w => win_ok now prev w /\ In (w_per w) (p :: r) /\ (i <= w_idx w)%nat) ws1 /\
              Forall (fun w => (S i <= w_idx w)%nat) ws1 /\ NoDup (map w_idx ws1) /\ sup' = replay_ws sup1 ws1 /\ sup <= sup').
    { intros prev' sup1 ws1 L1 L2 L3 HR. destruct (IH _ _ _ _ _ L2 HR) as (F & N & E & G).
      repeat split; try assumption; try lia.
      - eapply Forall_impl; [|exact F]. intros w (W1 & W2 & W3).
        split; [eapply win_ok_weaken; eassumption|split; [right; assumption|lia]].
      - eapply Forall_impl; [|exact F]. intros w (_ & _ & W3). exact W3. }
    destruct (Z.ltb_spec (p_end p) prev) as [C1|C1].
    { destruct (Lift prev sup ws ltac:(lia) Hpn ltac:(lia) HM) as (F & _ & N & E & G). repeat split; assumption. }
    unfold kd_case2, kd_case3 in HM.
    destruct (Z.ltb_spec prev (p_end p)) as [C2a|C2a]; destruct (Z.leb_spec (p_end p) now) as [C2b|C2b]; cbn [andb] in HM.
    + (* case 2 *)
      set (from := Z.max prev (p_start p)) in *.
      destruct (kd_mint (p_infl p) (unix (p_end p) - unix from) sup) as [a|] eqn:KM; [|discriminate].
      destruct (mint_periods now r (S i) (p_end p) (sup + a)) as [[sup2 ws2]|] eqn:R; [|discriminate].
      inversion HM; subst sup2 ws; clear HM.
      destruct (kd_mint_some _ _ _ _ KM) as (K1 & K2 & K3).
      destruct (Lift (p_end p) (sup + a) ws2 ltac:(lia) C2b ltac:(lia) R) as (F & F2 & N & E & G).
      assert (Hfrom : prev <= from /\ p_start p <= from) by (unfold from; lia).
      repeat split.
      * constructor; [|exact F]. unfold win_ok. cbn [w_per w_idx w_prev w_from w_to w_amt].
        pose proof (unix_mono _ _ (proj1 Hfrom)). pose proof (unix_mono _ _ (proj2 Hfrom)). pose proof (unix_mono _ _ C2b).
        repeat split; try lia; try (left; reflexivity).
      * cbn [map]. constructor; [apply not_in_idx; exact F2|exact N].
      * rewrite replay_cons. cbn [w_per w_to w_from]. rewrite <- K2. exact E.
      * lia.
    + (* End > now *)
      destruct (Z.leb_spec (p_start p) prev) as [C3a|C3a]; destruct (Z.ltb_spec now (p_end p)) as [C3b|C3b]; cbn [andb] in HM;
        try (destruct (Lift prev sup ws ltac:(lia) Hpn ltac:(lia) HM) as (F & _ & N & E & G); repeat split; assumption).
      destruct (kd_mint (p_infl p) (unix now - unix prev) sup) as [a|] eqn:KM; [|discriminate].
      destruct (mint_periods now r (S i) prev (sup + a)) as [[sup2 ws2]|] eqn:R; [|discriminate].
      inversion HM; subst sup2 ws; clear HM.
      destruct (kd_mint_some _ _ _ _ KM) as (K1 & K2 & K3).
      destruct (Lift prev (sup + a) ws2 ltac:(lia) Hpn ltac:(lia) R) as (F & F2 & N & E & G).
      repeat split.
      * constructor; [|exact F]. unfold win_ok. cbn [w_per w_idx w_prev w_from w_to w_amt].
        pose proof (unix_mono _ _ C3a). pose proof (unix_mono now (p_end p) ltac:(lia)).
        repeat split; try lia; try (left; reflexivity).
      * cbn [map]. constructor; [apply not_in_idx; exact F2|exact N].
      * rewrite replay_cons. cbn [w_per w_to w_from]. rewrite <- K2. exact E.
      * lia.
    + (* End = prev: neither case 2 nor (as End <= now) case 3 *)
      destruct (Z.leb_spec (p_start p) prev) as [C3a|C3a]; destruct (Z.ltb_spec now (p_end p)) as [C3b|C3b]; cbn [andb] in HM;
        try lia;
        try (destruct (Lift prev sup ws ltac:(lia) Hpn ltac:(lia) HM) as (F & _ & N & E & G); repeat split; assumption).
    + lia.
Qed.

Definition win_in (p t : Z) (w : window) : Prop :=
  unix p <= w_from w /\ w_from w <= w_to w /\ w_to w <= unix t.

Lemma win_ok_in now p w : win_ok now p w -> win_in p now w.
Proof. intros (A & B & C & D & E & _). unfold win_in. lia. Qed.

Lemma kavadist_windows t s s' ws wsi : 0 <= kd_prev s <= t -> kavadist_bb t s = Ok s' (ws, wsi) ->
  Forall (win_ok t (kd_prev s)) ws /\ Forall (win_ok t (kd_prev s)) wsi /\
  NoDup (map w_idx ws) /\ NoDup (map w_idx wsi) /\
  kd_prev s <= kd_prev s' <= t /\ (ws ++ wsi <> [] -> kd_prev s' = t) /\
  supply s' = replay_ws (replay_ws (supply s) ws) wsi /\ supply s <= supply s'.
Proof.
  intros Hp. unfold kavadist_bb. destruct (kd_active s); cbn [negb].
  - destruct (Z.eqb_spec (kd_prev s) 0) as [Z0|NZ].
    + intros H; inversion H; subst. cbn. repeat split; try constructor; try lia; try (intros C; contradiction).
    + destruct (mint_periods t (kd_periods s) 0 (kd_prev s) (supply s)) as [[sup1 ws1]|] eqn:M1; [|discriminate].
      destruct (mint_periods t (kd_infra s) 0 (kd_prev s) sup1) as [[sup2 ws2]|] eqn:M2; [|discriminate].
      intros H; inversion H; subst. fsimpl.
      destruct (mint_periods_windows _ _ _ _ _ _ _ (proj2 Hp) M1) as (F1 & N1 & E1 & G1).
      destruct (mint_periods_windows _ _ _ _ _ _ _ (proj2 Hp) M2) as (F2 & N2 & E2 & G2).
      repeat split; try assumption; try lia.
      * eapply Forall_impl; [|exact F1]. intros w W. apply W.
      * eapply Forall_impl; [|exact F2]. intros w W. apply W.
      * congruence.
  - intros H; inversion H; subst. cbn. repeat split; try constructor; try lia; try (intros C; contradiction).
Qed.

Lemma block_kd now t m c s s' x :
  InvT now s -> head_ok now (Block t m c) -> block t m c s = Ok s' x ->
  exists b, x = OBlock b /\
    Forall (win_ok t (kd_prev s)) (b_ws b) /\ Forall (win_ok t (kd_prev s)) (b_wsi b) /\
    NoDup (map w_idx (b_ws b)) /\ NoDup (map w_idx (b_wsi b)) /\
    kd_prev s <= kd_prev s' <= t /\ (b_ws b ++ b_wsi b <> [] -> kd_prev s' = t) /\
    supply s' = replay_ws (replay_ws (supply s + b_mint b) (b_ws b)) (b_wsi b).
Proof.
  intros (HI & HL & HK) (Hn & Ht & Hm & Hc) HB.
  apply block_inv in HB. destruct HB as (s2 & pay & s3 & mm & ws & wsi & d & P & M & K & ->).
  destruct (check_disable_last t c s) as (_ & _ & L3).
  assert (Sup1 : supply (fst (check_disable t c s)) = supply s).
  { unfold check_disable. destruct (switch_due t s); reflexivity. }
  apply payout_frame in P. destruct P as (_ & _ & _ & _ & _ & _ & _ & P8 & _ & _ & P11 & _).
  unfold mint_bb in M. inversion M; subst s3 mm; clear M.
  destruct HI as (_ & _ & _ & _ & _ & _ & HI7 & _).
  destruct (kavadist_full_inv _ _ _ _ _ _ K) as (s4 & KB & (FR & _) & _). clear K. rename KB into K.
  assert (FP : kd_prev s' = kd_prev s4) by apply FR.
  assert (FS : supply s' = supply s4) by apply FR. clear FR.
  apply kavadist_windows in K; fsimpl; [|lia].
  destruct K as (K1 & K2 & K3 & K4 & K5 & K6 & K7 & _).
  eexists; split; [reflexivity|]. fsimpl. rewrite P8, L3 in *. rewrite P11, Sup1 in K7. rewrite FP, FS.
  repeat split; try assumption; lia.
Qed.

Definition all_windows (l : list out) : list (list window) := map (fun b => b_ws b ++ b_wsi b) (blocks l).
Definition later (W W' : list window) : Prop := forall w w', In w W -> In w' W' -> w_to w <= w_from w'.

Lemma all_windows_cons x l : all_windows (x :: l) = all_windows [x] ++ all_windows l.
Proof. unfold all_windows. rewrite blocks_cons, map_app. reflexivity. Qed.

(* windows of different blocks never overlap: no second is minted twice *)
Lemma windows_ordered ops : forall now s sf outs,
  InvT now s -> mono now ops -> run_outs s ops = (sf, outs) ->
  Forall (Forall (fun w => unix (kd_prev s) <= w_from w)) (all_windows outs) /\
  ForallOrdPairs later (all_windows outs).
Proof.
  induction ops as [|o r IH]; intros now s sf outs HT HM HR.
  - cbn in HR. inversion HR; subst. split; constructor.
  - apply mono_cons in HM. destruct HM as (HO & HM). cbn [run_outs] in HR.
    destruct (step s o) as [s' x| |] eqn:S.
    + destruct (run_outs s' r) as [sf' l] eqn:R. inversion HR; subst sf' outs; clear HR.
      destruct (step_facts now s o s' x HT HO S) as (A & _).
      destruct (IH _ _ _ _ A HM R) as (I1 & I2).
      destruct (is_block o) eqn:IB.
      * destruct o; try discriminate. cbn [step clock] in *.
        destruct (block_kd now t mint_o cons_o s s' x HT HO S) as (b & -> & B1 & B2 & _ & _ & B5 & B6 & _).
        rewrite all_windows_cons. unfold all_windows at 1 3, blocks. cbn [flat_map app map].
        assert (W : Forall (win_ok t (kd_prev s)) (b_ws b ++ b_wsi b)) by (apply Forall_app; split; assumption).
        split.
        -- constructor.
           ++ eapply Forall_impl; [|exact W]. intros w Hw. apply Hw.
           ++ eapply Forall_impl; [|exact I1]. intros W' HW'. eapply Forall_impl; [|exact HW'].
              intros w Hw. cbv beta in Hw. pose proof (unix_mono _ _ (proj1 B5)). lia.
        -- constructor; [|exact I2].
           rewrite Forall_forall. intros W' HW' w w' Hw Hw'.
           rewrite Forall_forall in I1. specialize (I1 W' HW'). rewrite Forall_forall in I1. specialize (I1 w' Hw').
           rewrite Forall_forall in W. destruct (W w Hw) as (_ & _ & _ & _ & W5 & _).
           assert (NE : b_ws b ++ b_wsi b <> []) by (intros E; rewrite E in Hw; exact Hw).
           rewrite (B6 NE) in I1. lia.
      * destruct (nonblock_frame s o s' x IB S) as (_ & _ & _ & _ & _ & _ & _ & F8 & _ & _ & F11 & _).
        rewrite all_windows_cons. unfold all_windows at 1 3. rewrite F11. cbn [map app].
        rewrite F8 in I1. split; assumption.
    + eapply (IH (clock now o)); [apply (InvT_weaken now); [eassumption|apply clock_ge; assumption]|eassumption|eassumption].
    + eapply (IH (clock now o)); [apply (InvT_weaken now); [eassumption|apply clock_ge; assumption]|eassumption|eassumption].
Qed.

(** * kavadist does not panic on valid, non-deflationary schedules (zero amounts included) *)

Lemma rel_pow_fuel_ge b : 0 < b -> forall fuel x n z, b <= x -> b <= z -> b <= rel_pow_fuel fuel x n b z.
Proof.
  intros Hb. induction fuel as [|k IH]; intros x n z Hx Hz; cbn [rel_pow_fuel]; [exact Hz|].
  destruct (n / 2 =? 0); [exact Hz|].
  assert (X : b <= (x * x + b / 2) / b).
  { apply Z.div_le_lower_bound; [lia|]. assert (0 <= b / 2) by (apply Z.div_pos; lia). nia. }
  apply IH; [exact X|].
  destruct ((n / 2) mod 2 =? 0); [exact Hz|].
  apply Z.div_le_lower_bound; [lia|]. assert (0 <= b / 2) by (apply Z.div_pos; lia). nia.
Qed.

Lemma rel_pow_ge x n b : 0 < b -> b <= x -> b <= rel_pow x n b.
Proof.
  intros Hb Hx. unfold rel_pow. destruct (Z.eqb_spec x 0); [lia|].
  apply rel_pow_fuel_ge; try assumption. destruct (n mod 2 =? 0); lia.
Qed.

Lemma kd_amount_nonneg infl secs sup : PREC <= infl -> 0 <= sup -> 0 <= kd_amount infl secs sup.
Proof.
  intros Hi Hs. unfold kd_amount.
  assert (E1 : dec_trunc_int (dec_mul infl (dec_of_int PREC)) = infl).
  { unfold dec_mul, dec_of_int, dec_trunc_int. replace (infl * (PREC * PREC)) with ((infl * PREC) * PREC) by ring.
    rewrite chop_round_exact by (unfold PREC in *; lia). apply Z.quot_mul. unfold PREC; lia. }
  rewrite E1. pose proof (rel_pow_ge infl secs PREC PREC_pos Hi) as R.
  set (rp := rel_pow infl secs PREC) in *.
  assert (E2 : dec_mul (dec_of_int rp) 1 = rp).
  { unfold dec_mul, dec_of_int. rewrite Z.mul_1_r. apply chop_round_exact. unfold PREC in *; lia. }
  rewrite E2. unfold dec_mul, dec_of_int, dec_sub, dec_trunc_int.
  replace (sup * PREC * rp) with ((sup * rp) * PREC) by ring.
  rewrite chop_round_exact by (unfold PREC in *; nia).
  apply Z.quot_pos; [|unfold PREC; lia]. nia.
Qed.

Fixpoint periods_ok (ps : list period) : Prop :=
  match ps with [] => True | p :: r => p_start p <= p_end p /\ PREC <= p_infl p /\ periods_ok r end.

Lemma mint_periods_no_panic now : forall ps i prev sup,
  prev <= now -> 0 <= sup -> periods_ok ps -> mint_periods now ps i prev sup <> None.
Proof.
  induction ps as [|p r IH]; intros i prev sup Hpn Hs HP; cbn [mint_periods]; [discriminate|].
  destruct HP as (P1 & P2 & P3).
  assert (KM : forall secs, 0 <= secs -> exists a, kd_mint (p_infl p) secs sup = Some a /\ 0 <= a).
  { intros secs Hsec. unfold kd_mint.
    destruct (Z.ltb_spec (p_infl p) 0); [unfold PREC in *; lia|]. destruct (Z.ltb_spec secs 0); [lia|]. cbn [orb].
    pose proof (kd_amount_nonneg (p_infl p) secs sup P2 Hs).
    destruct (Z.ltb_spec (kd_amount (p_infl p) secs sup) 0); [lia|]. eexists; split; [reflexivity|lia]. }
  destruct (p_end p <? prev); [apply IH; assumption|].
  unfold kd_case2, kd_case3.
  destruct (Z.ltb_spec prev (p_end p)) as [C2a|C2a]; destruct (Z.leb_spec (p_end p) now) as [C2b|C2b]; cbn [andb].
  - assert (0 <= unix (p_end p) - unix (Z.max prev (p_start p))).
    { pose proof (unix_mono (Z.max prev (p_start p)) (p_end p) ltac:(lia)). lia. }
    destruct (KM _ H) as (a & -> & Ha).
    specialize (IH (S i) (p_end p) (sup + a) C2b ltac:(lia) P3).
    destruct (mint_periods now r (S i) (p_end p) (sup + a)) as [[? ?]|]; [discriminate|contradiction].
  - destruct ((p_start p <=? prev) && (now <? p_end p)); [|apply IH; assumption].
    assert (0 <= unix now - unix prev) by (pose proof (unix_mono _ _ Hpn); lia).
    destruct (KM _ H) as (a & -> & Ha).
    specialize (IH (S i) prev (sup + a) Hpn ltac:(lia) P3).
    destruct (mint_periods now r (S i) prev (sup + a)) as [[? ?]|]; [discriminate|contradiction].
  - destruct ((p_start p <=? prev) && (now <? p_end p)) eqn:C3; [|apply IH; assumption].
    apply andb_true_iff in C3. destruct C3 as (_ & C3). apply Z.ltb_lt in C3. lia.
  - lia.
Qed.

(** * distribution of the infrastructure coins inside a block, and over histories *)

(* the pre-fix function on lists in which no period still lies in the future: the
   length of the LAST window only (regression) *)
Lemma last_cons {A} (a : A) l d : last (a :: l) d = last l a.
Proof.
  revert a d. induction l as [|b l IH]; intros a d; [reflexivity|].
  change (last (a :: b :: l) d) with (last (b :: l) d). rewrite (IH b d), (IH b a). reflexivity.
Qed.

Lemma infra_elapsed_old_last_window now : forall ps i prev sup sup' ws te,
  mint_periods now ps i prev sup = Some (sup', ws) ->
  Forall (fun p => p_start p < now) ps ->
  infra_elapsed_old now ps prev te = last (map w_len ws) te.
Proof.
  induction ps as [|p r IH]; intros i prev sup sup' ws te HM HF; cbn [mint_periods infra_elapsed_old] in *.
  - inversion HM; subst. reflexivity.
  - inversion HF as [|? ? F1 F2]; subst.
    destruct (p_end p <? prev); [eapply IH; eassumption|].
    destruct (kd_case2 now prev p).
    + destruct (kd_mint (p_infl p) (unix (p_end p) - unix (Z.max prev (p_start p))) sup) as [a|]; [|discriminate].
      destruct (mint_periods now r (S i) (p_end p) (sup + a)) as [[sup2 ws2]|] eqn:R; [|discriminate].
      inversion HM; subst; clear HM. cbn [map]. rewrite last_cons. unfold w_len at 2. cbn [w_to w_from].
      eapply IH; eassumption.
    + destruct (kd_case3 now prev p).
      * destruct (kd_mint (p_infl p) (unix now - unix prev) sup) as [a|]; [|discriminate].
        destruct (mint_periods now r (S i) prev (sup + a)) as [[sup2 ws2]|] eqn:R; [|discriminate].
        inversion HM; subst; clear HM. cbn [map]. rewrite last_cons. unfold w_len at 2. cbn [w_to w_from].
        eapply IH; eassumption.
      * destruct (Z.leb_spec now (p_start p)); [lia|]. eapply IH; eassumption.
Qed.

Lemma periods_ok_start_end ps : periods_ok ps -> Forall (fun p => p_start p <= p_end p) ps.
Proof. induction ps as [|p r IH]; cbn [periods_ok]; [constructor|]. intros (A & _ & C). constructor; auto. Qed.

(* payments go to deliverable recipients only, so they split by kind of recipient *)
Lemma amounts_split n l : Forall (fun p => 0 <= pay_amt p /\ deliverable (pay_to p) n) l ->
  amounts l = to_pool l + to_kd l + to_users l.
Proof.
  induction 1 as [|p l (_ & D) _ IH]; [reflexivity|].
  rewrite amounts_cons, to_pool_cons, to_kd_cons, to_users_cons, IH.
  destruct (pay_to p); cbn [deliverable] in D; try contradiction; lia.
Qed.

Definition ledger (s : state) : Z := pool s + sink s + kdbal s + zsum (users s).

Lemma dist_good_ledger s s' d : dist_good s s' d -> ledger s' = ledger s /\ supply s' = supply s.
Proof.
  intros (F & _ & _ & C & P & K & U & _). apply Forall_app in C. destruct C as (C1 & C2).
  pose proof (amounts_split _ _ C1). pose proof (amounts_split _ _ C2).
  assert (sink s' = sink s /\ supply s' = supply s) as (S1 & S2) by (split; apply F).
  unfold ledger, dist_to_pool, dist_paid, dist_to_kd, dist_to_users in *. split; lia.
Qed.

Lemma payout_ledger t s s' p : payout t s = Ok s' p -> ledger s' = ledger s /\ supply s' = supply s.
Proof.
  unfold payout. destruct (sr_last s =? 0).
  - destruct (valid_sr (sr_err s)); [|discriminate]. intros H; inversion H; subst. unfold ledger, zsum. cbn. split; lia.
  - destruct (calc_staking_rewards t (sr_last s) (sr_err s) (c_rate s) (dec_of_int (pool s))) as [paid e'].
    destruct (paid <? 0); [discriminate|]. destruct (pool s <? paid); [discriminate|].
    destruct (valid_sr e'); cbn [negb]; [|discriminate].
    intros H; inversion H; subst. unfold ledger, zsum. cbn. split; lia.
Qed.

(* every coin created in a block is in one of the accounts of the model: the
   accounts' total moves by exactly the change of the supply *)
Lemma block_ledger t m c s s' x : block t m c s = Ok s' x -> ledger s' - ledger s = supply s' - supply s.
Proof.
  intros HB. apply block_inv in HB. destruct HB as (s2 & pay & s3 & mm & ws & wsi & d & P & M & K & ->).
  assert (L1 : ledger (fst (check_disable t c s)) = ledger s /\ supply (fst (check_disable t c s)) = supply s).
  { unfold check_disable. destruct (switch_due t s); unfold ledger, zsum; cbn; split; lia. }
  destruct (payout_ledger _ _ _ _ P) as (L2 & S2).
  unfold mint_bb in M. inversion M; subst s3 mm; clear M.
  destruct (kavadist_full_inv _ _ _ _ _ _ K) as (s4 & KB & GD & _).
  destruct (dist_good_ledger _ _ _ GD) as (L4 & S4).
  destruct (kavadist_minted _ _ _ _ _ KB) as (_ & _ & M3 & M4 & _ & _ & M7 & _).
  apply kavadist_frame in KB. destruct KB as (_ & _ & _ & _ & _ & K6 & K7 & _).
  unfold ledger in *. fsimpl. rewrite M7 in *. fsimpl. lia.
Qed.

Definition deposits (l : list out) : Z := zsum (map (fun x => match x with OAdj d => d | _ => 0 end) l).

Lemma step_ledger s o s' x : step s o = Ok s' x ->
  ledger s' - supply s' = ledger s - supply s + deposits [x] /\
  kd_partners s' = kd_partners s /\ kd_cores s' = kd_cores s /\ length (users s') = length (users s).
Proof.
  intros HS. destruct o; cbn [step] in HS.
  - pose proof (block_ledger _ _ _ _ _ _ HS) as L.
    apply block_inv in HS. destruct HS as (s2 & pay & s3 & mm & ws & wsi & d & P & M & K & ->).
    assert (C1 : kd_partners (fst (check_disable t cons_o s)) = kd_partners s /\ kd_cores (fst (check_disable t cons_o s)) = kd_cores s /\
                 users (fst (check_disable t cons_o s)) = users s).
    { unfold check_disable. destruct (switch_due t s); cbn; auto. }
    assert (C2 : kd_partners s2 = kd_partners (fst (check_disable t cons_o s)) /\ kd_cores s2 = kd_cores (fst (check_disable t cons_o s)) /\
                 users s2 = users (fst (check_disable t cons_o s))).
    { revert P. generalize (fst (check_disable t cons_o s)). intros s1. unfold payout. destruct (sr_last s1 =? 0).
      - destruct (valid_sr (sr_err s1)); [|discriminate]. intros H; inversion H; subst. cbn. auto.
      - destruct (calc_staking_rewards t (sr_last s1) (sr_err s1) (c_rate s1) (dec_of_int (pool s1))) as [paid e'].
        destruct (paid <? 0); [discriminate|]. destruct (pool s1 <? paid); [discriminate|].
        destruct (valid_sr e'); cbn [negb]; [|discriminate]. intros H; inversion H; subst. cbn. auto. }
    unfold mint_bb in M. inversion M; subst s3 mm; clear M.
    destruct (kavadist_full_inv _ _ _ _ _ _ K) as (s4 & KB & (FR & _) & _).
    destruct (kavadist_minted _ _ _ _ _ KB) as (_ & _ & _ & _ & M5 & M6 & M7 & _). fsimpl.
    unfold frame in FR. decompose [and] FR. clear FR.
    destruct C1 as (C11 & C12 & C13). destruct C2 as (C21 & C22 & C23).
    unfold deposits, zsum. cbn [map fold_right]. repeat split; try lia; congruence.
  - destruct (pool s + d <? 0); [discriminate|]. inversion HS; subst. unfold ledger, deposits, zsum. cbn. repeat split; lia.
  - destruct (r <? 0); [discriminate|]. inversion HS; subst. unfold ledger, deposits, zsum. cbn. repeat split; lia.
  - inversion HS; subst. unfold ledger, deposits, zsum. cbn. repeat split; lia.
  - destruct (calc_staking_rewards now last err rate pool_dec). inversion HS; subst. unfold ledger, deposits, zsum. cbn. repeat split; lia.
  - unfold kd_direct in HS. destruct (mint_periods now ps 0 prev (supply s)) as [[? ?]|]; [|discriminate].
    inversion HS; subst. unfold ledger, deposits, zsum. cbn. repeat split; lia.
  - unfold kd_direct_infra in HS. destruct (mint_periods now ps 0 prev (supply s)) as [[? ?]|]; [|discriminate].
    inversion HS; subst. unfold ledger, deposits, zsum. cbn. repeat split; lia.
Qed.

Lemma deposits_cons x l : deposits (x :: l) = deposits [x] + deposits l.
Proof. unfold deposits, zsum. cbn [map fold_right]. lia. Qed.

(* what is true of the distribution in every block of every history: the coins
   distributed are exactly the coins minted for the infrastructure periods in
   that block, they are split without remainder into partner payments, core
   payments and what stays in the module account, no payment is negative, the
   total paid out never exceeds what was minted, the partner payments are the
   configured rates x one elapsed time (between 0 and the whole seconds since
   the previous block), the core payments the rounded weights of what is left *)
Definition dist_block_ok (partners : list partner) (cores : list core) (b : bout) : Prop :=
  let d := b_dist b in
  d_coins d = minted (b_wsi b) /\ 0 <= d_coins d /\
  d_coins d = amounts (d_partner d) + amounts (d_core d) + d_rem d /\
  0 <= d_rem d /\ 0 <= amounts (d_partner d) /\ 0 <= amounts (d_core d) /\
  amounts (d_partner d) + amounts (d_core d) <= minted (b_wsi b) /\
  Forall (fun p => 0 <= pay_amt p) (d_partner d ++ d_core d) /\
  ((d_partner d = [] /\ d_core d = []) \/
   (d_te d <> 0 /\
    map pay_to (d_partner d) = map pr_to partners /\ map pay_amt (d_partner d) = partner_sched (d_te d) partners /\
    map pay_to (d_core d) = map cr_to cores /\
    map pay_amt (d_core d) = core_sched cores (d_coins d - amounts (d_partner d)))).

Lemma check_disable_cfg t c s :
  kd_partners (fst (check_disable t c s)) = kd_partners s /\ kd_cores (fst (check_disable t c s)) = kd_cores s /\
  users (fst (check_disable t c s)) = users s /\ kd_infra (fst (check_disable t c s)) = kd_infra s /\
  kd_prev (fst (check_disable t c s)) = kd_prev s.
Proof. unfold check_disable. destruct (switch_due t s); cbn; auto. Qed.

Lemma payout_cfg t s s' p : payout t s = Ok s' p ->
  kd_partners s' = kd_partners s /\ kd_cores s' = kd_cores s /\ users s' = users s.
Proof.
  unfold payout. destruct (sr_last s =? 0).
  - destruct (valid_sr (sr_err s)); [|discriminate]. intros H; inversion H; subst. cbn. auto.
  - destruct (calc_staking_rewards t (sr_last s) (sr_err s) (c_rate s) (dec_of_int (pool s))) as [paid e'].
    destruct (paid <? 0); [discriminate|]. destruct (pool s <? paid); [discriminate|].
    destruct (valid_sr e'); cbn [negb]; [|discriminate]. intros H; inversion H; subst. cbn. auto.
Qed.

Lemma block_dist t m c s s' x : block t m c s = Ok s' x ->
  exists b, x = OBlock b /\ dist_block_ok (kd_partners s) (kd_cores s) b /\
    d_te (b_dist b) = win_secs (b_wsi b) /\
    (d_te (b_dist b) = 0 \/ d_te (b_dist b) = infra_elapsed t (kd_infra s) (kd_prev s) 0).
Proof.
  intros HB. apply block_inv in HB. destruct HB as (s2 & pay & s3 & mm & ws & wsi & d & P & M & K & ->).
  eexists; split; [reflexivity|]. unfold dist_block_ok. cbn [b_dist b_wsi].
  destruct (check_disable_cfg t c s) as (C1 & C2 & _ & C4 & C5).
  destruct (payout_cfg _ _ _ _ P) as (Q1 & Q2 & _).
  apply payout_frame in P. destruct P as (_ & _ & _ & _ & _ & _ & _ & P8 & _ & P10 & _).
  unfold mint_bb in M. inversion M; subst s3 mm; clear M.
  destruct (kavadist_full_inv _ _ _ _ _ _ K) as (s4 & KB & GD & DC & TE & TE2).
  destruct (kavadist_minted _ _ _ _ _ KB) as (_ & M2 & _ & _ & M5 & M6 & _). fsimpl.
  assert (NN : 0 <= d_coins d) by lia.
  destruct (dist_good_bound _ _ _ GD NN) as (B1 & B2 & B3). unfold dist_paid in B3.
  destruct GD as (_ & G2 & G3 & G4 & _ & _ & _ & _ & G9 & G10).
  split; [|split; [exact TE|rewrite P8, P10, C4, C5 in TE2; exact TE2]].
  split; [exact DC|]. split; [exact NN|]. split; [exact G2|]. split; [auto|]. split; [exact B1|]. split; [exact B2|].
  split; [lia|].
  split; [eapply Forall_impl; [|exact G4]; intros p Hp; apply Hp|].
  destruct (Z.eq_dec (d_te d) 0) as [T0|T0]; [left; destruct (G9 (or_introl T0)) as (A & B & _); auto|].
  destruct (Z.eq_dec (d_coins d) 0) as [C0|C0]; [left; destruct (G9 (or_intror C0)) as (A & B & _); auto|].
  right. split; [exact T0|]. destruct (G10 (conj T0 C0)) as (A & B & C & D).
  rewrite M5, M6, Q1, Q2, C1, C2 in *. auto.
Qed.

Lemma block_te_bound now t m c s s' x :
  InvT now s -> head_ok now (Block t m c) -> periods_valid 0 (kd_infra s) ->
  block t m c s = Ok s' x ->
  exists b, x = OBlock b /\ 0 <= d_te (b_dist b) <= unix t - unix (kd_prev s).
Proof.
  intros (HI & _ & HK) (Hn & _) V HB. destruct (block_dist _ _ _ _ _ _ HB) as (b & -> & _ & _ & TE).
  exists b. split; [reflexivity|].
  assert (PT : kd_prev s <= t) by lia. pose proof (unix_mono _ _ PT).
  destruct TE as [->| ->]; [lia|].
  eapply infra_elapsed_bounds; try eassumption; lia.
Qed.

(* the same over whole histories; and the accounts of the model always hold
   exactly the supply (up to what was deposited into / spent from the pool from outside) *)
Lemma run_dist ops : forall s sf outs,
  run_outs s ops = (sf, outs) ->
  Forall (dist_block_ok (kd_partners s) (kd_cores s)) (blocks outs) /\
  ledger sf - supply sf = ledger s - supply s + deposits outs /\
  kd_partners sf = kd_partners s /\ kd_cores sf = kd_cores s.
Proof.
  induction ops as [|o r IH]; intros s sf outs HR.
  - cbn in HR. inversion HR; subst. unfold deposits, zsum. cbn. repeat split; try constructor; lia.
  - cbn [run_outs] in HR.
    destruct (step s o) as [s' x| |] eqn:S; try (eapply IH; eassumption).
    destruct (run_outs s' r) as [sf' l] eqn:R. inversion HR; subst sf' outs; clear HR.
    destruct (step_ledger _ _ _ _ S) as (L1 & L2 & L3 & _).
    destruct (IH _ _ _ R) as (I1 & I2 & I3 & I4).
    rewrite blocks_cons, deposits_cons. rewrite L2, L3 in *.
    repeat split; try lia; try assumption.
    apply Forall_app. split; [|exact I1].
    destruct o; cbn [step] in S;
      try (unfold blocks; destruct x; cbn [flat_map app]; try constructor;
           first [ destruct (pool s + d <? 0); discriminate
                 | destruct (r0 <? 0); discriminate
                 | discriminate
                 | destruct (calc_staking_rewards now last err rate pool_dec); discriminate
                 | unfold kd_direct in S; destruct (mint_periods now ps 0 prev (supply s)) as [[? ?]|]; discriminate
                 | unfold kd_direct_infra in S; destruct (mint_periods now ps 0 prev (supply s)) as [[? ?]|]; discriminate ]).
    destruct (block_dist _ _ _ _ _ _ S) as (b & -> & D & _). unfold blocks. cbn [flat_map app]. constructor; [exact D|constructor].
Qed.

(** * the whole of MintPeriodInflation does not panic when the schedule is valid and
      non-deflationary, every reward address can be paid, rates and weights are in
      range, and the partner rewards for the elapsed time are covered by the coins
      minted in that block -- and it does panic when they are not covered *)

Lemma kavadist_bb_no_panic t s :
  kd_prev s <= t -> 0 <= supply s -> periods_ok (kd_periods s) -> periods_ok (kd_infra s) ->
  exists s1 ws wsi, kavadist_bb t s = Ok s1 (ws, wsi).
Proof.
  intros PT SU P1 P2. unfold kavadist_bb. destruct (negb (kd_active s)); [do 3 eexists; reflexivity|].
  destruct (kd_prev s =? 0); [do 3 eexists; reflexivity|].
  pose proof (mint_periods_no_panic t (kd_periods s) 0 (kd_prev s) (supply s) PT SU P1) as N1.
  destruct (mint_periods t (kd_periods s) 0 (kd_prev s) (supply s)) as [[sup1 ws1]|] eqn:M1; [|contradiction].
  destruct (mint_periods_minted _ _ _ _ _ _ _ M1) as (A1 & B1). pose proof (minted_nonneg _ B1).
  pose proof (mint_periods_no_panic t (kd_infra s) 0 (kd_prev s) sup1 PT ltac:(lia) P2) as N2.
  destruct (mint_periods t (kd_infra s) 0 (kd_prev s) sup1) as [[sup2 ws2]|] eqn:M2; [|contradiction].
  do 3 eexists; reflexivity.
Qed.

Lemma kavadist_full_no_panic t s :
  0 <= kd_prev s <= t -> 0 <= supply s -> 0 <= kdbal s ->
  periods_ok (kd_periods s) -> periods_ok (kd_infra s) -> recipients_ok s ->
  (forall s1 ws wsi, kavadist_bb t s = Ok s1 (ws, wsi) ->
     infra_elapsed t (kd_infra s) (kd_prev s) 0 * zsum (map pr_rate (kd_partners s)) <= minted wsi) ->
  exists s' w, kavadist_full t s = Ok s' w.
Proof.
  intros PT SU KB P1 P2 (RP & RC) COV.
  destruct (kavadist_bb_no_panic t s ltac:(lia) SU P1 P2) as (s1 & ws & wsi & K).
  unfold kavadist_full. rewrite K.
  destruct (negb (kd_active s) || (kd_prev s =? 0)); [do 2 eexists; reflexivity|].
  destruct (kavadist_minted _ _ _ _ _ K) as (M1 & M2 & M3 & _ & M5 & M6 & M7 & _).
  pose proof (infra_elapsed_nonneg t (kd_infra s) (kd_prev s) 0 (periods_ok_start_end _ P2) ltac:(lia) ltac:(lia)) as TB.
  destruct (distribute_some (infra_elapsed t (kd_infra s) (kd_prev s) 0) (minted wsi) s1) as (s2 & d & D).
  - unfold recipients_ok. rewrite M5, M6, M7. split; assumption.
  - exact TB.
  - exact M2.
  - lia.
  - rewrite M5. eapply COV. exact K.
  - rewrite D. do 2 eexists; reflexivity.
Qed.

Lemma kavadist_full_shortfall_panics t s s1 ws wsi :
  kd_active s = true -> kd_prev s <> 0 -> kavadist_bb t s = Ok s1 (ws, wsi) ->
  infra_elapsed t (kd_infra s) (kd_prev s) 0 <> 0 -> minted wsi <> 0 ->
  minted wsi < infra_elapsed t (kd_infra s) (kd_prev s) 0 * zsum (map pr_rate (kd_partners s)) ->
  kavadist_full t s = Panic.
Proof.
  intros A P K T C S. unfold kavadist_full. rewrite K, A. cbn [negb orb].
  destruct (Z.eqb_spec (kd_prev s) 0); [contradiction|].
  destruct (kavadist_minted _ _ _ _ _ K) as (_ & M2 & _ & _ & M5 & _).
  rewrite distribute_shortfall; try assumption; [reflexivity|]. rewrite M5. exact S.
Qed.

(** * the elapsed time against the time inside the periods *)

(* whole seconds of the block interval (prev, now] that lie inside period p / inside any period of the list *)
Definition inside_one (now prev : Z) (p : period) : Z :=
  let lo := Z.max prev (p_start p) in let hi := Z.min now (p_end p) in
  if lo <? hi then unix hi - unix lo else 0.
Definition inside_secs (now prev : Z) (ps : list period) : Z := zsum (map (inside_one now prev) ps).

(* with a single infrastructure period the elapsed time is exact: whenever
   something was minted (so that anything is distributed at all), it is the
   length of the one window, which is the time of the block interval inside the period *)
Lemma infra_single now p i prev sup sup' ws :
  prev <= now -> p_start p <= p_end p ->
  mint_periods now [p] i prev sup = Some (sup', ws) ->
  ws = [] \/ exists w, ws = [w] /\ infra_elapsed now [p] prev 0 = w_len w /\ w_len w = inside_one now prev p.
Proof.
  intros PN SE. cbn [mint_periods infra_elapsed].
  destruct (p_end p <? prev); [intros H; inversion H; auto|].
  unfold kd_case2, kd_case3, inside_one.
  destruct (Z.ltb_spec prev (p_end p)) as [C2a|C2a]; destruct (Z.leb_spec (p_end p) now) as [C2b|C2b]; cbn [andb].
  - destruct (kd_mint (p_infl p) (unix (p_end p) - unix (Z.max prev (p_start p))) sup) as [a|]; [|discriminate].
    intros H; inversion H; subst. right. eexists; split; [reflexivity|]. unfold w_len. cbn [w_to w_from].
    split; [reflexivity|]. cbv zeta. rewrite (Z.min_r now (p_end p)) by lia.
    destruct (Z.ltb_spec (Z.max prev (p_start p)) (p_end p)) as [L|L]; [reflexivity|].
    replace (Z.max prev (p_start p)) with (p_end p) by lia. lia.
  - destruct (Z.leb_spec (p_start p) prev) as [C3a|C3a]; destruct (Z.ltb_spec now (p_end p)) as [C3b|C3b]; cbn [andb];
      try (intros H; inversion H; auto; fail).
    destruct (kd_mint (p_infl p) (unix now - unix prev) sup) as [a|]; [|discriminate].
    intros H; inversion H; subst. right. eexists; split; [reflexivity|]. unfold w_len. cbn [w_to w_from].
    split; [reflexivity|]. cbv zeta. rewrite (Z.min_l now (p_end p)) by lia. rewrite (Z.max_l prev (p_start p)) by lia.
    destruct (Z.ltb_spec prev now) as [L|L]; [reflexivity|]. replace prev with now by lia. lia.
  - destruct (Z.leb_spec (p_start p) prev) as [C3a|C3a]; destruct (Z.ltb_spec now (p_end p)) as [C3b|C3b]; cbn [andb];
      try lia; intros H; inversion H; auto.
  - lia.
Qed.
