(* Lemmas and proofs about Model/Emissions.v *)
From Kava Require Import Base.Prelude Base.Dec Model.Emissions.
Local Open Scope Z_scope.

Lemma NS_pos : 0 < NS. Proof. reflexivity. Qed.

(** * calculateStakingRewards in closed form *)

Definition acc_of (gap rate err : Z) : Z := (gap * rate) / NS + err.

Lemma calc_closed now last err rate pool :
  0 <= now - last -> 0 <= rate -> 0 <= err -> 0 <= pool ->
  calc_staking_rewards now last err rate (dec_of_int pool) =
    let acc0 := acc_of (now - last) rate err in
    if pool * PREC <? acc0 then (pool, 0) else (acc0 / PREC, acc0 mod PREC).
Proof.
  intros Hg Hr He Hp. unfold calc_staking_rewards, acc_of.
  set (gap := now - last) in *.
  assert (Hmul : dec_mul (dec_of_int gap) rate = gap * rate).
  { unfold dec_mul, dec_of_int. replace (gap * PREC * rate) with ((gap * rate) * PREC) by ring.
    apply chop_round_exact. nia. }
  rewrite Hmul. unfold dec_quo_int, dec_add.
  rewrite Z.quot_div_nonneg by (unfold NS; nia).
  assert (Hq : 0 <= gap * rate / NS) by (apply Z.div_pos; [nia|apply NS_pos]).
  cbv zeta. change (dec_of_int pool) with (pool * PREC).
  destruct (Z.ltb_spec (pool * PREC) (gap * rate / NS + err)) as [Hc|Hc].
  - unfold dec_trunc_dec, dec_trunc_int, dec_sub.
    rewrite Z.quot_mul by (unfold PREC; lia). rewrite Z.quot_mul by (unfold PREC; lia).
    f_equal. lia.
  - set (a := gap * rate / NS + err) in *.
    unfold dec_trunc_dec, dec_trunc_int, dec_sub.
    rewrite Z.quot_mul by (unfold PREC; lia).
    rewrite Z.quot_div_nonneg by (unfold PREC; lia).
    f_equal. pose proof (Z.div_mod a PREC ltac:(unfold PREC; lia)). lia.
Qed.

(* the arithmetic of one payout *)
Lemma pay_arith gap rate err pool :
  0 <= gap -> 0 <= rate -> 0 <= err < PREC -> 0 <= pool ->
  let acc0 := acc_of gap rate err in
  let capped := pool * PREC <? acc0 in
  let paid := if capped then pool else acc0 / PREC in
  let e' := if capped then 0 else acc0 mod PREC in
  let rm := (gap * rate) mod NS in
  let loss := if capped then NS * (acc0 - pool * PREC) else 0 in
  0 <= paid <= pool /\ 0 <= e' < PREC /\ 0 <= rm < NS /\ 0 <= loss /\
  NS * (PREC * paid + e') + rm + loss = NS * err + gap * rate.
Proof.
  intros Hg Hr He Hp. cbv zeta. unfold acc_of.
  pose proof (Z.div_mod (gap * rate) NS ltac:(unfold NS; lia)) as E1.
  pose proof (Z.mod_pos_bound (gap * rate) NS NS_pos) as B1.
  assert (0 <= gap * rate / NS) by (apply Z.div_pos; [nia|apply NS_pos]).
  set (q := gap * rate / NS) in *. set (rm := (gap * rate) mod NS) in *.
  destruct (Z.ltb_spec (pool * PREC) (q + err)) as [Hc|Hc].
  - unfold NS, PREC in *. repeat split; lia.
  - pose proof (Z.div_mod (q + err) PREC ltac:(unfold PREC; lia)) as E2.
    pose proof (Z.mod_pos_bound (q + err) PREC PREC_pos) as B2.
    assert (0 <= (q + err) / PREC) by (apply Z.div_pos; [lia|apply PREC_pos]).
    assert ((q + err) / PREC <= pool).
    { apply Z.div_le_upper_bound; [apply PREC_pos|]. lia. }
    unfold NS, PREC in *. repeat split; lia.
Qed.

(** * invariant *)

Definition Inv (s : state) : Prop :=
  0 <= sr_err s < PREC /\ 0 <= c_rate s /\ 0 <= c_upg_rate s /\ 0 <= pool s /\
  0 <= sr_last s /\ 0 <= c_upg s /\ 0 <= kd_prev s /\ (sr_last s = 0 -> sr_err s = 0).

(* the invariant together with "the stored times are not after the clock" *)
Definition InvT (now : Z) (s : state) : Prop :=
  Inv s /\ sr_last s <= now /\ kd_prev s <= now.

Lemma inv_b_iff s : inv_b s = true <-> Inv s.
Proof.
  unfold inv_b, Inv.
  destruct (Z.leb_spec 0 (sr_err s)); destruct (Z.ltb_spec (sr_err s) PREC);
  destruct (Z.leb_spec 0 (c_rate s)); destruct (Z.leb_spec 0 (c_upg_rate s));
  destruct (Z.leb_spec 0 (pool s)); destruct (Z.leb_spec 0 (sr_last s));
  destruct (Z.leb_spec 0 (c_upg s)); destruct (Z.leb_spec 0 (kd_prev s));
  destruct (Z.eqb_spec (sr_last s) 0); destruct (Z.eqb_spec (sr_err s) 0);
  cbn; split; intros HH; try discriminate; try reflexivity; try lia.
Qed.

(** * one payout *)

Definition pay_of (t : Z) (s : state) : payrec :=
  let gap := t - sr_last s in
  let acc0 := acc_of gap (c_rate s) (sr_err s) in
  let capped := pool s * PREC <? acc0 in
  mkPay gap (c_rate s) (pool s) (sr_err s)
        (if capped then pool s else acc0 / PREC) (if capped then 0 else acc0 mod PREC).

Definition pay_good (r : payrec) : Prop :=
  0 <= p_gap r /\ 0 <= p_rate r /\ 0 <= p_err0 r < PREC /\
  0 <= p_paid r <= p_pool r /\ 0 <= p_err1 r < PREC /\ 0 <= p_rem r < NS /\ 0 <= p_loss r /\
  (p_capped r = false -> p_loss r = 0) /\
  NS * (PREC * p_paid r + p_err1 r) + p_rem r + p_loss r = NS * p_err0 r + p_gap r * p_rate r.

Lemma pay_of_good t s : Inv s -> sr_last s <= t -> pay_good (pay_of t s).
Proof.
  intros (He & Hr & _ & Hp & _) Ht.
  pose proof (pay_arith (t - sr_last s) (c_rate s) (sr_err s) (pool s) ltac:(lia) Hr He Hp) as A.
  cbv zeta in A. destruct A as (A1 & A2 & A3 & A4 & A5).
  unfold pay_good, p_rem, p_loss, p_capped, p_acc0, pay_of. cbn [p_gap p_rate p_pool p_err0 p_paid p_err1].
  rewrite Z.quot_div_nonneg by (unfold NS; nia). fold (acc_of (t - sr_last s) (c_rate s) (sr_err s)).
  repeat split; try lia.
  destruct (pool s * PREC <? acc_of (t - sr_last s) (c_rate s) (sr_err s)); [discriminate|reflexivity].
Qed.

Lemma payout_eq t s : Inv s -> sr_last s <= t ->
  payout t s =
    if sr_last s =? 0 then Ok (set_sr s t (sr_err s)) None
    else let r := pay_of t s in
         Ok (set_sr (set_bank s (pool s - p_paid r) (sink s + p_paid r) (kdbal s) (supply s)) t (p_err1 r)) (Some r).
Proof.
  intros HI Ht. pose proof (pay_of_good t s HI Ht) as G.
  destruct HI as (He & Hr & _ & Hp & _).
  unfold payout. destruct (sr_last s =? 0).
  - unfold valid_sr. destruct (Z.leb_spec 0 (sr_err s)); [|lia]. destruct (Z.ltb_spec (sr_err s) PREC); [|lia]. reflexivity.
  - rewrite calc_closed by lia. cbv zeta.
    unfold pay_good, pay_of in G. cbn [p_gap p_rate p_pool p_err0 p_paid p_err1] in G.
    unfold pay_of. cbn [p_paid p_err1].
    destruct (pool s * PREC <? acc_of (t - sr_last s) (c_rate s) (sr_err s)).
    + destruct (Z.ltb_spec (pool s) 0); [lia|]. destruct (Z.ltb_spec (pool s) (pool s)); [lia|].
      unfold valid_sr. cbn. reflexivity.
    + destruct G as (_ & _ & _ & G4 & G5 & _).
      destruct (Z.ltb_spec (acc_of (t - sr_last s) (c_rate s) (sr_err s) / PREC) 0); [lia|].
      destruct (Z.ltb_spec (pool s) (acc_of (t - sr_last s) (c_rate s) (sr_err s) / PREC)); [lia|].
      unfold valid_sr.
      destruct (Z.leb_spec 0 (acc_of (t - sr_last s) (c_rate s) (sr_err s) mod PREC)); [|lia].
      destruct (Z.ltb_spec (acc_of (t - sr_last s) (c_rate s) (sr_err s) mod PREC) PREC); [|lia].
      reflexivity.
Qed.

(** * frame lemmas for the kavadist stage *)

Lemma kavadist_frame t s s' w : kavadist_bb t s = Ok s' w ->
  sr_last s' = sr_last s /\ sr_err s' = sr_err s /\ c_rate s' = c_rate s /\ c_upg s' = c_upg s /\
  c_upg_rate s' = c_upg_rate s /\ pool s' = pool s /\ sink s' = sink s /\
  m_min s' = m_min s /\ m_max s' = m_max s /\ d_tax s' = d_tax s /\
  kd_active s' = kd_active s /\ kd_periods s' = kd_periods s /\ kd_infra s' = kd_infra s /\
  (kd_active s = false -> s' = s /\ w = ([], [])) /\
  (kd_active s = true -> kd_prev s' = t).
Proof.
  unfold kavadist_bb. destruct (kd_active s) eqn:A; cbn [negb].
  - destruct (kd_prev s =? 0).
    + intros H; inversion H; subst. cbn. repeat split; try reflexivity; intros; discriminate.
    + destruct (mint_periods t (kd_periods s) 0 (kd_prev s) (supply s)) as [[sup1 ws1]|]; [|discriminate].
      destruct (mint_periods t (kd_infra s) 0 (kd_prev s) sup1) as [[sup2 ws2]|]; [|discriminate].
      intros H; inversion H; subst. cbn. repeat split; try reflexivity; intros; discriminate.
  - intros H; inversion H; subst. repeat split; try reflexivity; intros; try discriminate; auto.
Qed.

(* decomposition of one block into its stages *)
Lemma block_inv t m c s s' x : block t m c s = Ok s' x ->
  exists s2 pay s3 mm ws wsi,
    payout t (fst (check_disable t c s)) = Ok s2 pay /\
    mint_bb m s2 = (s3, mm) /\
    kavadist_bb t s3 = Ok s' (ws, wsi) /\
    x = OBlock (mkBout t (switch_due t s) (if switch_due t s then c else 0) pay mm ws wsi).
Proof.
  unfold block. intros H.
  assert (F : snd (check_disable t c s) = switch_due t s).
  { unfold check_disable. destruct (switch_due t s); reflexivity. }
  destruct (check_disable t c s) as [s1 fired] eqn:E. cbn [fst snd] in *. subst fired.
  destruct (payout t s1) as [s2 pay| |] eqn:P; try discriminate.
  destruct (mint_bb m s2) as [s3 mm] eqn:M.
  destruct (kavadist_bb t s3) as [s4 [ws wsi]| |] eqn:K; try discriminate.
  inversion H; subst. exists s2, pay, s3, mm, ws, wsi. auto.
Qed.

Lemma check_disable_inv t c s : Inv s -> 0 <= c -> Inv (fst (check_disable t c s)).
Proof.
  intros HI Hc. unfold check_disable. destruct (switch_due t s); cbn [fst]; [|exact HI].
  unfold Inv in *. cbn. lia.
Qed.

Lemma check_disable_last t c s : sr_last (fst (check_disable t c s)) = sr_last s /\
  sr_err (fst (check_disable t c s)) = sr_err s /\ kd_prev (fst (check_disable t c s)) = kd_prev s.
Proof. unfold check_disable. destruct (switch_due t s); cbn; auto. Qed.

(** * facts about one successful step *)

Definition clock (now : Z) (o : op) : Z := match o with Block t _ _ => t | _ => now end.
Definition head_ok (now : Z) (o : op) : Prop :=
  match o with Block t m c => now <= t /\ 0 < t /\ 0 <= m /\ 0 <= c | _ => True end.

Lemma mono_cons now o r : mono now (o :: r) <-> head_ok now o /\ mono (clock now o) r.
Proof. destruct o; cbn; tauto. Qed.

Lemma InvT_weaken now now' s : InvT now s -> now <= now' -> InvT now' s.
Proof. unfold InvT. intros (H & A & B) L. split; [exact H|split; lia]. Qed.

Definition pay_ctx (s s' : state) (adj : Z) (r : payrec) : Prop :=
  p_pool r = pool s + adj /\ p_err0 r = sr_err s /\ p_gap r = sr_last s' - sr_last s /\
  p_rate r = c_rate s' /\ sr_last s <> 0.

Ltac fsimpl := cbn [sr_last sr_err c_rate c_upg c_upg_rate pool sink kdbal supply m_min m_max d_tax
  kd_active kd_prev kd_periods kd_infra set_sr set_bank set_rate set_kd
  p_gap p_rate p_pool p_err0 p_paid p_err1 fst snd zsum map fold_right flat_map app
  b_pay b_cons b_fired b_time b_mint b_ws b_wsi length filter] in *.

Lemma block_facts now t m c s s' x :
  InvT now s -> head_ok now (Block t m c) -> block t m c s = Ok s' x ->
  InvT t s' /\
  Forall pay_good (pays [x]) /\
  NS * (PREC * paid_sum [x] + sr_err s') + rem_sum [x] + loss_sum [x] = NS * sr_err s + sched_sum [x] /\
  pool s' = pool s + adj_sum [x] - paid_sum [x] /\
  Forall (pay_ctx s s' (adj_sum [x])) (pays [x]) /\
  sr_last s' = t /\ (pays [x] = [] -> sr_last s = 0).
Proof.
  intros (HI & HL & HK) (Hn & Ht & Hm & Hc) HB.
  apply block_inv in HB. destruct HB as (s2 & pay & s3 & mm & ws & wsi & P & M & K & ->).
  pose proof (check_disable_inv t c s HI Hc) as HI1.
  destruct (check_disable_last t c s) as (L1 & L2 & L3).
  assert (Pool1 : pool (fst (check_disable t c s)) = pool s + (if switch_due t s then c else 0)).
  { unfold check_disable. destruct (switch_due t s); cbn [fst pool]; lia. }
  set (s1 := fst (check_disable t c s)) in *.
  rewrite payout_eq in P by (try exact HI1; lia).
  apply kavadist_frame in K.
  destruct K as (K1 & K2 & K3 & K4 & K5 & K6 & K7 & K8 & K9 & K10 & K11 & K12 & K13 & K14 & K15).
  unfold mint_bb in M. inversion M; subst s3 mm; clear M. fsimpl.
  assert (Hkp : 0 <= kd_prev s' <= t).
  { destruct (kd_active s2) eqn:A.
    - rewrite (K15 eq_refl). lia.
    - destruct (K14 eq_refl) as (-> & _). fsimpl. destruct HI as (_ & _ & _ & _ & _ & _ & HI7 & _).
      destruct (sr_last s1 =? 0); inversion P; subst s2; fsimpl; lia. }
  unfold paid_sum, rem_sum, loss_sum, sched_sum, adj_sum, pays. fsimpl.
  destruct (Z.eqb_spec (sr_last s1) 0) as [Z0|NZ0].
  - inversion P; subst s2 pay; clear P. fsimpl.
    split; [|repeat split; try constructor; lia].
    unfold InvT, Inv in *. rewrite K1, K2, K3, K4, K5, K6. lia.
  - pose proof (pay_of_good t s1 HI1 ltac:(lia)) as G.
    assert (E1 : p_err0 (pay_of t s1) = sr_err s1) by reflexivity.
    assert (E2 : p_pool (pay_of t s1) = pool s1) by reflexivity.
    assert (E3 : p_gap (pay_of t s1) = t - sr_last s1) by reflexivity.
    assert (E4 : p_rate (pay_of t s1) = c_rate s1) by reflexivity.
    remember (pay_of t s1) as r eqn:Er. clear Er. cbv zeta in P.
    inversion P; subst s2 pay; clear P. fsimpl.
    assert (G' := G). destruct G' as (G1 & G2 & G3 & G4 & G5 & G6 & G7 & G8 & G9).
    split; [|repeat split; try (constructor; [|constructor])].
    + unfold InvT, Inv in *. rewrite K1, K2, K3, K4, K5, K6. lia.
    + exact G.
    + rewrite K2. lia.
    + rewrite K6. lia.
    + unfold pay_ctx. rewrite K1, K3. repeat split; try lia.
    + exact K1.
    + discriminate.
Qed.

Lemma payout_frame t s s' p : payout t s = Ok s' p ->
  c_rate s' = c_rate s /\ c_upg s' = c_upg s /\ c_upg_rate s' = c_upg_rate s /\
  m_min s' = m_min s /\ m_max s' = m_max s /\ d_tax s' = d_tax s /\
  kd_active s' = kd_active s /\ kd_prev s' = kd_prev s /\ kd_periods s' = kd_periods s /\
  kd_infra s' = kd_infra s /\ supply s' = supply s /\ kdbal s' = kdbal s.
Proof.
  unfold payout. destruct (sr_last s =? 0).
  - destruct (valid_sr (sr_err s)); [|discriminate]. intros H; inversion H; subst. cbn. repeat split.
  - destruct (calc_staking_rewards t (sr_last s) (sr_err s) (c_rate s) (dec_of_int (pool s))) as [paid e'].
    destruct (paid <? 0); [discriminate|]. destruct (pool s <? paid); [discriminate|].
    destruct (valid_sr e'); cbn [negb]; [|discriminate].
    intros H; inversion H; subst. cbn. repeat split.
Qed.

(* a block in which the switch is not due leaves the switched parameters alone *)
Lemma block_nofire t m c s s' x : switch_due t s = false -> block t m c s = Ok s' x ->
  c_rate s' = c_rate s /\ c_upg s' = c_upg s /\ c_upg_rate s' = c_upg_rate s /\
  m_min s' = m_min s /\ m_max s' = m_max s /\ d_tax s' = d_tax s /\ kd_active s' = kd_active s /\
  (exists b, x = OBlock b /\ b_fired b = false /\ b_cons b = 0).
Proof.
  intros D HB. apply block_inv in HB. destruct HB as (s2 & pay & s3 & mm & ws & wsi & P & M & K & ->).
  unfold check_disable in P. rewrite D in *. cbn [fst] in P.
  apply payout_frame in P. apply kavadist_frame in K. unfold mint_bb in M. inversion M; subst s3 mm; clear M.
  fsimpl. destruct P as (P1 & P2 & P3 & P4 & P5 & P6 & P7 & _).
  destruct K as (_ & _ & K3 & K4 & K5 & _ & _ & K8 & K9 & K10 & K11 & _).
  repeat split; try congruence. eexists; repeat split.
Qed.

(* the block in which the switch is due *)
Lemma block_fire t m c s s' x : switch_due t s = true -> block t m c s = Ok s' x ->
  c_rate s' = c_upg_rate s /\ c_upg s' = 0 /\ c_upg_rate s' = c_upg_rate s /\
  m_min s' = 0 /\ m_max s' = 0 /\ d_tax s' = 0 /\ kd_active s' = false /\
  supply s' = supply s /\ kdbal s' = kdbal s /\
  (exists b, x = OBlock b /\ b_fired b = true /\ b_cons b = c /\ b_mint b = 0 /\ b_ws b = [] /\ b_wsi b = []).
Proof.
  intros D HB. apply block_inv in HB. destruct HB as (s2 & pay & s3 & mm & ws & wsi & P & M & K & ->).
  unfold check_disable in P. rewrite D in *. cbn [fst] in P.
  apply payout_frame in P. cbn [c_rate c_upg c_upg_rate m_min m_max d_tax kd_active kd_prev kd_periods kd_infra supply kdbal] in P.
  destruct P as (P1 & P2 & P3 & P4 & P5 & P6 & P7 & P8 & P9 & P10 & P11 & P12).
  unfold mint_bb in M. rewrite P5 in M. cbn [Z.eqb] in M. inversion M; subst s3 mm; clear M.
  apply kavadist_frame in K. fsimpl.
  destruct K as (_ & _ & K3 & K4 & K5 & _ & _ & K8 & K9 & K10 & K11 & _ & _ & K14 & _).
  destruct (K14 P7) as (-> & E). inversion E; subst ws wsi. fsimpl.
  repeat split; try congruence; try lia. eexists; repeat split.
Qed.

(** * additivity of the ghost sums *)

Lemma zsum_app l1 l2 : zsum (l1 ++ l2) = zsum l1 + zsum l2.
Proof. unfold zsum. induction l1 as [|a l1 IH]; cbn [app fold_right]; lia. Qed.

Lemma pays_cons x l : pays (x :: l) = pays [x] ++ pays l.
Proof. unfold pays. cbn [flat_map]. rewrite app_nil_r. reflexivity. Qed.
Lemma blocks_cons x l : blocks (x :: l) = blocks [x] ++ blocks l.
Proof. unfold blocks. cbn [flat_map]. rewrite app_nil_r. reflexivity. Qed.

Lemma paid_sum_cons x l : paid_sum (x :: l) = paid_sum [x] + paid_sum l.
Proof. unfold paid_sum. rewrite pays_cons, map_app, zsum_app. reflexivity. Qed.
Lemma sched_sum_cons x l : sched_sum (x :: l) = sched_sum [x] + sched_sum l.
Proof. unfold sched_sum. rewrite pays_cons, map_app, zsum_app. reflexivity. Qed.
Lemma rem_sum_cons x l : rem_sum (x :: l) = rem_sum [x] + rem_sum l.
Proof. unfold rem_sum. rewrite pays_cons, map_app, zsum_app. reflexivity. Qed.
Lemma loss_sum_cons x l : loss_sum (x :: l) = loss_sum [x] + loss_sum l.
Proof. unfold loss_sum. rewrite pays_cons, map_app, zsum_app. reflexivity. Qed.
Lemma adj_sum_cons x l : adj_sum (x :: l) = adj_sum [x] + adj_sum l.
Proof. unfold adj_sum, zsum. cbn [map fold_right]. lia. Qed.
Lemma npays_cons x l : npays (x :: l) = npays [x] + npays l.
Proof. unfold npays. rewrite pays_cons, app_length. lia. Qed.

(** * facts about any successful step *)

Lemma step_facts now s o s' x :
  InvT now s -> head_ok now o -> step s o = Ok s' x ->
  InvT (clock now o) s' /\
  Forall pay_good (pays [x]) /\
  NS * (PREC * paid_sum [x] + sr_err s') + rem_sum [x] + loss_sum [x] = NS * sr_err s + sched_sum [x] /\
  pool s' = pool s + adj_sum [x] - paid_sum [x] /\
  Forall (pay_ctx s s' (adj_sum [x])) (pays [x]) /\
  (pays [x] = [] -> sr_last s' = sr_last s \/ sr_last s = 0).
Proof.
  intros HT HO HS. destruct o; cbn [step clock] in *.
  - destruct (block_facts now t mint_o cons_o s s' x HT HO HS) as (A & B & C & D & E & F & G).
    refine (conj A (conj B (conj C (conj D (conj E _))))). intros Hp. right. exact (G Hp).
  - destruct (Z.ltb_spec (pool s + d) 0); [discriminate|]. inversion HS; subst.
    unfold paid_sum, rem_sum, loss_sum, sched_sum, adj_sum, pays. fsimpl.
    destruct HT as (HI & HL & HK). unfold InvT, Inv in *. fsimpl.
    repeat split; try constructor; try lia; try (left; reflexivity).
  - destruct (Z.ltb_spec r 0); [discriminate|]. inversion HS; subst.
    unfold paid_sum, rem_sum, loss_sum, sched_sum, adj_sum, pays. fsimpl.
    destruct HT as (HI & HL & HK). unfold InvT, Inv in *. fsimpl.
    repeat split; try constructor; try lia; try (left; reflexivity).
  - inversion HS; subst.
    unfold paid_sum, rem_sum, loss_sum, sched_sum, adj_sum, pays. fsimpl.
    destruct HT as (HI & HL & HK). unfold InvT, Inv in *. fsimpl.
    repeat split; try constructor; try lia; try (left; reflexivity).
  - destruct (calc_staking_rewards now0 last err rate pool_dec) as [paid e]. inversion HS; subst.
    unfold paid_sum, rem_sum, loss_sum, sched_sum, adj_sum, pays. fsimpl.
    destruct HT as (HI & HL & HK). unfold InvT, Inv in *.
    repeat split; try constructor; try lia; try (left; reflexivity).
  - unfold kd_direct in HS. destruct (mint_periods now0 ps 0 prev (supply s)) as [[sup' ws]|]; [|discriminate].
    inversion HS; subst.
    unfold paid_sum, rem_sum, loss_sum, sched_sum, adj_sum, pays. fsimpl.
    destruct HT as (HI & HL & HK). unfold InvT, Inv in *. fsimpl.
    repeat split; try constructor; try lia; try (left; reflexivity).
  - unfold kd_direct in HS. destruct (mint_periods now0 ps 0 prev (supply s)) as [[sup' ws]|]; [|discriminate].
    inversion HS; subst.
    unfold paid_sum, rem_sum, loss_sum, sched_sum, adj_sum, pays. fsimpl.
    destruct HT as (HI & HL & HK). unfold InvT, Inv in *. fsimpl.
    repeat split; try constructor; try lia; try (left; reflexivity).
Qed.

(** * whole histories *)

Lemma clock_ge now o : head_ok now o -> now <= clock now o.
Proof. destruct o; cbn; lia. Qed.

Lemma run_facts ops : forall now s sf outs,
  InvT now s -> mono now ops -> run_outs s ops = (sf, outs) ->
  Inv sf /\ Forall pay_good (pays outs) /\
  NS * (PREC * paid_sum outs + sr_err sf) + rem_sum outs + loss_sum outs = NS * sr_err s + sched_sum outs /\
  pool sf = pool s + adj_sum outs - paid_sum outs.
Proof.
  induction ops as [|o r IH]; intros now s sf outs HT HM HR.
  - cbn in HR. inversion HR; subst. destruct HT as (HI & _).
    unfold paid_sum, rem_sum, loss_sum, sched_sum, adj_sum, pays. cbn [flat_map map zsum fold_right].
    repeat split; try constructor; try apply HI; lia.
  - apply mono_cons in HM. destruct HM as (HO & HM). cbn [run_outs] in HR.
    destruct (step s o) as [s' x| |] eqn:S.
    + destruct (run_outs s' r) as [sf' l] eqn:R. inversion HR; subst sf' outs; clear HR.
      destruct (step_facts now s o s' x HT HO S) as (A & B & C & D & _).
      destruct (IH _ _ _ _ A HM R) as (A' & B' & C' & D').
      rewrite pays_cons, paid_sum_cons, rem_sum_cons, loss_sum_cons, sched_sum_cons, adj_sum_cons.
      repeat split; try apply A'; try lia. apply Forall_app; split; assumption.
    + apply (IH (clock now o)); try assumption. apply (InvT_weaken now); [assumption|apply clock_ge; assumption].
    + apply (IH (clock now o)); try assumption. apply (InvT_weaken now); [assumption|apply clock_ge; assumption].
Qed.

Lemma sums_bounds l : Forall pay_good l ->
  0 <= zsum (map p_paid l) /\
  0 <= zsum (map p_rem l) <= (NS - 1) * Z.of_nat (length l) /\
  0 <= zsum (map p_loss l) /\
  0 <= zsum (map (fun r => p_gap r * p_rate r) l) /\
  (Forall (fun r => p_capped r = false) l -> zsum (map p_loss l) = 0) /\
  (Forall (fun r => p_rem r = 0) l -> zsum (map p_rem l) = 0).
Proof.
  induction 1 as [|r l G _ IH]; unfold zsum in *; cbn [map fold_right length].
  - repeat split; try lia; reflexivity.
  - destruct G as (G1 & G2 & G3 & G4 & G5 & G6 & G7 & G8 & G9).
    destruct IH as (I1 & I2 & I3 & I4 & I5 & I6).
    rewrite Nat2Z.inj_succ. repeat split; try nia.
    + intros F. inversion F; subst. rewrite (I5 H2), (G8 H1). lia.
    + intros F. inversion F; subst. rewrite (I6 H2), H1. lia.
Qed.

(* total paid never exceeds carried-in error + rate * elapsed (all scaled by 10^18 * 10^9) *)
Lemma staking_upper ops now s sf outs :
  InvT now s -> mono now ops -> run_outs s ops = (sf, outs) ->
  NS * PREC * paid_sum outs + NS * sr_err sf <= NS * sr_err s + sched_sum outs.
Proof.
  intros HT HM HR. destruct (run_facts ops now s sf outs HT HM HR) as (A & B & C & D).
  destruct (sums_bounds _ B) as (_ & S2 & S3 & _). unfold rem_sum, loss_sum in C. lia.
Qed.

Lemma staking_upper0 ops now s sf outs :
  InvT now s -> mono now ops -> run_outs s ops = (sf, outs) -> sr_err s = 0 ->
  NS * PREC * paid_sum outs <= sched_sum outs.
Proof.
  intros HT HM HR E. pose proof (staking_upper ops now s sf outs HT HM HR) as U.
  destruct (run_facts ops now s sf outs HT HM HR) as ((A & _) & _). rewrite E in U. unfold NS in *. lia.
Qed.

(* never above the pool balance *)
Lemma staking_pool ops now s sf outs :
  InvT now s -> mono now ops -> run_outs s ops = (sf, outs) ->
  Forall (fun r => 0 <= p_paid r <= p_pool r) (pays outs) /\
  0 <= pool sf /\ pool sf = pool s + adj_sum outs - paid_sum outs.
Proof.
  intros HT HM HR. destruct (run_facts ops now s sf outs HT HM HR) as (A & B & C & D).
  repeat split; try assumption.
  - eapply Forall_impl; [|exact B]. intros r G. apply G.
  - apply A.
Qed.

(* exact accounting when the pool never binds; the shortfall bound *)
Lemma staking_lower ops now s sf outs :
  InvT now s -> mono now ops -> run_outs s ops = (sf, outs) -> never_capped outs ->
  NS * sr_err s + sched_sum outs - NS * PREC * paid_sum outs = NS * sr_err sf + rem_sum outs /\
  NS * sr_err s + sched_sum outs - NS * PREC * paid_sum outs <= NS * (PREC - 1) + (NS - 1) * npays outs.
Proof.
  intros HT HM HR HC. destruct (run_facts ops now s sf outs HT HM HR) as (A & B & C & D).
  destruct (sums_bounds _ B) as (_ & S2 & _ & _ & S5 & _).
  unfold loss_sum in C. rewrite (S5 HC) in C. destruct A as (A & _).
  unfold rem_sum, npays in *. split; unfold NS in *; lia.
Qed.

Lemma staking_lower_strict ops now s sf outs :
  InvT now s -> mono now ops -> run_outs s ops = (sf, outs) -> never_capped outs ->
  Forall (fun r => (p_gap r * p_rate r) mod NS = 0) (pays outs) ->
  NS * sr_err s + sched_sum outs - NS * PREC * paid_sum outs < NS * PREC.
Proof.
  intros HT HM HR HC HD. destruct (staking_lower ops now s sf outs HT HM HR HC) as (E & _).
  destruct (run_facts ops now s sf outs HT HM HR) as ((A & _) & B & _).
  destruct (sums_bounds _ B) as (_ & _ & _ & _ & _ & S6).
  unfold rem_sum in E. rewrite (S6 HD) in E. unfold NS in *. lia.
Qed.

(* two ways of cutting the same scheduled amount into blocks *)
Lemma partition_independence ops1 ops2 now s sf1 outs1 sf2 outs2 :
  InvT now s -> mono now ops1 -> mono now ops2 ->
  run_outs s ops1 = (sf1, outs1) -> run_outs s ops2 = (sf2, outs2) ->
  never_capped outs1 -> never_capped outs2 -> sched_sum outs1 = sched_sum outs2 ->
  NS * PREC * Z.abs (paid_sum outs1 - paid_sum outs2) <=
    NS * (PREC - 1) + (NS - 1) * Z.max (npays outs1) (npays outs2).
Proof.
  intros HT M1 M2 R1 R2 C1 C2 E.
  destruct (staking_lower ops1 now s sf1 outs1 HT M1 R1 C1) as (E1 & _).
  destruct (staking_lower ops2 now s sf2 outs2 HT M2 R2 C2) as (E2 & _).
  destruct (run_facts ops1 now s sf1 outs1 HT M1 R1) as ((A1 & _) & B1 & _).
  destruct (run_facts ops2 now s sf2 outs2 HT M2 R2) as ((A2 & _) & B2 & _).
  destruct (sums_bounds _ B1) as (_ & S1 & _). destruct (sums_bounds _ B2) as (_ & S2 & _).
  unfold rem_sum, npays in *. unfold NS in *. lia.
Qed.

(** * steps other than blocks *)

Definition no_rate_change (o : op) : Prop := match o with SetRate _ => False | _ => True end.
Definition is_block (o : op) : bool := match o with Block _ _ _ => true | _ => false end.

Lemma nonblock_frame s o s' x : is_block o = false -> step s o = Ok s' x ->
  sr_last s' = sr_last s /\ sr_err s' = sr_err s /\ c_upg s' = c_upg s /\ c_upg_rate s' = c_upg_rate s /\
  m_min s' = m_min s /\ m_max s' = m_max s /\ d_tax s' = d_tax s /\ kd_prev s' = kd_prev s /\
  (no_rate_change o -> c_rate s' = c_rate s) /\
  (chain_op o -> supply s' = supply s /\ kdbal s' = kdbal s /\ (kd_active s = false -> kd_active s' = false)) /\
  blocks [x] = [] /\ pays [x] = [].
Proof.
  intros NB HS. destruct o; cbn [is_block step] in *; try discriminate.
  - destruct (pool s + d <? 0); [discriminate|]. inversion HS; subst. cbn. repeat split; auto.
  - destruct (r <? 0); [discriminate|]. inversion HS; subst. cbn. repeat split; auto. intros [].
  - inversion HS; subst. cbn. repeat split; auto; destruct b; cbn in *; try contradiction; auto.
  - destruct (calc_staking_rewards now last err rate pool_dec). inversion HS; subst. cbn. repeat split; auto; intros [].
  - unfold kd_direct in HS. destruct (mint_periods now ps 0 prev (supply s)) as [[? ?]|]; [|discriminate].
    inversion HS; subst. cbn. repeat split; auto; try contradiction; try (intros []).
  - unfold kd_direct in HS. destruct (mint_periods now ps 0 prev (supply s)) as [[? ?]|]; [|discriminate].
    inversion HS; subst. cbn. repeat split; auto; try contradiction; try (intros []).
Qed.

Lemma switch_due_unarmed t s : c_upg s = 0 -> switch_due t s = false.
Proof. intros E. unfold switch_due. rewrite E. reflexivity. Qed.

(* with the trigger cleared and no rate update, the scheduled amount of a
   history is rate * (last accumulation time at the end - at the start) *)
Lemma sched_const ops : forall now s sf outs,
  InvT now s -> mono now ops -> Forall no_rate_change ops -> c_upg s = 0 -> sr_last s <> 0 ->
  run_outs s ops = (sf, outs) ->
  sched_sum outs = (sr_last sf - sr_last s) * c_rate s /\ sr_last s <= sr_last sf.
Proof.
  induction ops as [|o r IH]; intros now s sf outs HT HM HN HU HL HR.
  - cbn in HR. inversion HR; subst. unfold sched_sum, pays. cbn. lia.
  - apply mono_cons in HM. destruct HM as (HO & HM). inversion HN as [|? ? N1 N2]; subst. cbn [run_outs] in HR.
    destruct (step s o) as [s' x| |] eqn:S.
    + destruct (run_outs s' r) as [sf' l] eqn:R. inversion HR; subst sf' outs; clear HR.
      destruct (step_facts now s o s' x HT HO S) as (A & B & C & D & E & F).
      assert (P : c_upg s' = 0 /\ c_rate s' = c_rate s).
      { destruct (is_block o) eqn:IB.
        - destruct o; try discriminate. cbn [step] in S.
          destruct (block_nofire _ _ _ _ _ _ (switch_due_unarmed t s HU) S) as (P1 & P2 & _). split; congruence.
        - destruct (nonblock_frame s o s' x IB S) as (_ & _ & P3 & _ & _ & _ & _ & _ & P9 & _). split; [congruence|auto]. }
      destruct P as (P1 & P2).
      assert (Q : sched_sum [x] = (sr_last s' - sr_last s) * c_rate s /\ sr_last s <= sr_last s' /\ sr_last s' <> 0).
      { unfold sched_sum. destruct (pays [x]) as [|p [|p' l']] eqn:EP.
        - destruct (F eq_refl) as [F1|F1]; [|contradiction]. rewrite F1. cbn. lia.
        - inversion E as [|? ? E1 _]; subst. destruct E1 as (_ & _ & E3 & E4 & _).
          inversion B as [|? ? B1 _]; subst. destruct B1 as (B1 & _).
          unfold zsum. cbn [map fold_right]. rewrite E3, E4, P2. split; [lia|]. split; [lia|].
          destruct HT as ((_ & _ & _ & _ & T5 & _) & _). lia.
        - exfalso. unfold pays in EP. cbn [flat_map] in EP. destruct x; try discriminate.
          destruct (b_pay b); discriminate. }
      destruct Q as (Q1 & Q2 & Q3).
      destruct (IH _ _ _ _ A HM N2 P1 Q3 R) as (I1 & I2).
      rewrite sched_sum_cons, Q1, I1, P2. split; lia.
    + apply (IH (clock now o)); try assumption. apply (InvT_weaken now); [assumption|apply clock_ge; assumption].
    + apply (IH (clock now o)); try assumption. apply (InvT_weaken now); [assumption|apply clock_ge; assumption].
Qed.

(** * the one-shot switch *)

Definition off (s : state) : Prop :=
  c_upg s = 0 /\ m_min s = 0 /\ m_max s = 0 /\ kd_active s = false.

Lemma fired_count_cons x l : fired_count (x :: l) = (fired_count [x] + fired_count l)%nat.
Proof. unfold fired_count. rewrite blocks_cons, filter_app, app_length. reflexivity. Qed.

(* a block with the trigger cleared, x/mint at zero and kavadist inactive creates no ukava *)
Lemma block_off_supply t m c s s' x : off s -> block t m c s = Ok s' x ->
  off s' /\ supply s' = supply s /\ kdbal s' = kdbal s /\ fired_count [x] = 0%nat.
Proof.
  intros (O1 & O2 & O3 & O4) HB.
  pose proof (block_nofire _ _ _ _ _ _ (switch_due_unarmed t s O1) HB) as (N1 & N2 & N3 & N4 & N5 & N6 & N7 & (b & -> & Fb & _)).
  apply block_inv in HB. destruct HB as (s2 & pay & s3 & mm & ws & wsi & P & M & K & E).
  unfold check_disable in P. rewrite (switch_due_unarmed t s O1) in P. cbn [fst] in P.
  apply payout_frame in P. destruct P as (P1 & P2 & P3 & P4 & P5 & P6 & P7 & P8 & P9 & P10 & P11 & P12).
  unfold mint_bb in M. rewrite P5, O3 in M. cbn [Z.eqb] in M. inversion M; subst s3 mm; clear M.
  apply kavadist_frame in K. destruct K as (_ & _ & _ & _ & _ & _ & _ & _ & _ & _ & _ & _ & _ & K14 & _).
  fsimpl. destruct (K14 ltac:(congruence)) as (-> & _). fsimpl.
  unfold off. fsimpl. repeat split; try congruence; try lia.
  unfold fired_count, blocks. cbn [flat_map app filter]. rewrite Fb. reflexivity.
Qed.

Lemma stays_off ops : forall s sf outs,
  Forall chain_op ops -> off s -> run_outs s ops = (sf, outs) ->
  off sf /\ supply sf = supply s /\ kdbal sf = kdbal s /\ fired_count outs = 0%nat.
Proof.
  induction ops as [|o r IH]; intros s sf outs HC HO HR.
  - cbn in HR. inversion HR; subst. repeat split; try apply HO.
  - inversion HC as [|? ? C1 C2]; subst. cbn [run_outs] in HR.
    destruct (step s o) as [s' x| |] eqn:S; try (eapply IH; eassumption).
    destruct (run_outs s' r) as [sf' l] eqn:R. inversion HR; subst sf' outs; clear HR.
    assert (Q : off s' /\ supply s' = supply s /\ kdbal s' = kdbal s /\ fired_count [x] = 0%nat).
    { destruct (is_block o) eqn:IB.
      - destruct o; try discriminate. cbn [step] in S. eapply block_off_supply; eassumption.
      - destruct (nonblock_frame s o s' x IB S) as (_ & _ & F3 & _ & F5 & F6 & _ & _ & _ & F10 & F11 & _).
        destruct (F10 C1) as (G1 & G2 & G3). destruct HO as (O1 & O2 & O3 & O4).
        unfold off, fired_count. rewrite F11. repeat split; try congruence; auto. }
    destruct Q as (Q1 & Q2 & Q3 & Q4).
    destruct (IH _ _ _ C2 Q1 R) as (I1 & I2 & I3 & I4).
    rewrite fired_count_cons, Q4, I4. repeat split; try apply I1; congruence.
Qed.

(* no operation of the model re-arms the trigger: it fires at most once in any history *)
Lemma upg_zero_never_fires ops : forall s sf outs,
  c_upg s = 0 -> run_outs s ops = (sf, outs) -> c_upg sf = 0 /\ fired_count outs = 0%nat.
Proof.
  induction ops as [|o r IH]; intros s sf outs HU HR.
  - cbn in HR. inversion HR; subst. auto.
  - cbn [run_outs] in HR.
    destruct (step s o) as [s' x| |] eqn:S; try (eapply IH; eassumption).
    destruct (run_outs s' r) as [sf' l] eqn:R. inversion HR; subst sf' outs; clear HR.
    assert (Q : c_upg s' = 0 /\ fired_count [x] = 0%nat).
    { destruct (is_block o) eqn:IB.
      - destruct o; try discriminate. cbn [step] in S.
        destruct (block_nofire _ _ _ _ _ _ (switch_due_unarmed t s HU) S) as (_ & N2 & _ & _ & _ & _ & _ & (b & -> & Fb & _)).
        split; [congruence|]. unfold fired_count, blocks. cbn [flat_map app filter]. rewrite Fb. reflexivity.
      - destruct (nonblock_frame s o s' x IB S) as (_ & _ & F3 & _ & _ & _ & _ & _ & _ & _ & F11 & _).
        unfold fired_count. rewrite F11. split; [congruence|reflexivity]. }
    destruct Q as (Q1 & Q2). destruct (IH _ _ _ Q1 R) as (I1 & I2).
    rewrite fired_count_cons, Q2, I2. auto.
Qed.

Lemma fires_at_most_once ops : forall s sf outs,
  run_outs s ops = (sf, outs) -> (fired_count outs <= 1)%nat.
Proof.
  induction ops as [|o r IH]; intros s sf outs HR.
  - cbn in HR. inversion HR; subst. cbn. lia.
  - cbn [run_outs] in HR.
    destruct (step s o) as [s' x| |] eqn:S; try (eapply IH; eassumption).
    destruct (run_outs s' r) as [sf' l] eqn:R. inversion HR; subst sf' outs; clear HR.
    rewrite fired_count_cons.
    destruct (is_block o) eqn:IB.
    + destruct o; try discriminate. cbn [step] in S.
      destruct (switch_due t s) eqn:D.
      * destruct (block_fire _ _ _ _ _ _ D S) as (_ & N2 & _ & _ & _ & _ & _ & _ & _ & (b & -> & Fb & _)).
        destruct (upg_zero_never_fires r s' sf l N2 R) as (_ & Z0). rewrite Z0.
        unfold fired_count, blocks. cbn [flat_map app filter]. rewrite Fb. cbn. lia.
      * destruct (block_nofire _ _ _ _ _ _ D S) as (_ & _ & _ & _ & _ & _ & _ & (b & -> & Fb & _)).
        specialize (IH _ _ _ R). unfold fired_count at 1, blocks. cbn [flat_map app filter]. rewrite Fb. cbn. lia.
    + destruct (nonblock_frame s o s' x IB S) as (_ & _ & _ & _ & _ & _ & _ & _ & _ & _ & F11 & _).
      specialize (IH _ _ _ R). unfold fired_count at 1. rewrite F11. cbn. lia.
Qed.

(** * kavadist windows *)

Lemma unix_mono a b : a <= b -> unix a <= unix b.
Proof. intros Hab. unfold unix. apply Z.div_le_mono; [apply NS_pos|exact Hab]. Qed.

Lemma kd_mint_some infl secs sup a : kd_mint infl secs sup = Some a ->
  0 <= secs /\ a = kd_amount infl secs sup /\ 0 <= a.
Proof.
  unfold kd_mint. destruct (Z.ltb_spec infl 0) as [L1|L1]; cbn [orb]; [discriminate|].
  destruct (Z.ltb_spec secs 0) as [L2|L2]; [discriminate|].
  destruct (Z.ltb_spec (kd_amount infl secs sup) 0) as [L3|L3]; [discriminate|].
  intros HS; inversion HS; subst. repeat split; lia.
Qed.

(* what is true of every window: inside the block interval (prev0, now], inside
   the period [Start, End], of non-negative length *)
Definition win_ok (now prev0 : Z) (w : window) : Prop :=
  prev0 <= w_prev w /\ w_from w = unix (w_prev w) /\ unix prev0 <= w_from w /\ w_from w <= w_to w /\
  w_to w <= unix now /\ w_to w <= unix (p_end (w_per w)) /\ 0 <= w_amt w /\
  unix (p_start (w_per w)) <= w_from w.

Lemma win_ok_weaken now p p' w : p <= p' -> win_ok now p' w -> win_ok now p w.
Proof.
  intros L (A & B & C & D). pose proof (unix_mono _ _ L). unfold win_ok. repeat split; try apply D; try lia.
Qed.

Lemma not_in_idx i ws : Forall (fun w => (S i <= w_idx w)%nat) ws -> ~ In i (map w_idx ws).
Proof.
  induction 1 as [|w l Hw _ IH]; cbn [map In]; [tauto|]. intros [E|E]; [lia|tauto].
Qed.

Lemma replay_cons sup w ws :
  replay_ws sup (w :: ws) = replay_ws (sup + kd_amount (p_infl (w_per w)) (w_to w - w_from w) sup) ws.
Proof. reflexivity. Qed.

Lemma mint_periods_windows now : forall ps i prev sup sup' ws,
  prev <= now -> mint_periods now ps i prev sup = Some (sup', ws) ->
  Forall (fun w => win_ok now prev w /\ In (w_per w) ps /\ (i <= w_idx w)%nat) ws /\
  NoDup (map w_idx ws) /\ sup' = replay_ws sup ws /\ sup <= sup'.
Proof.
  induction ps as [|p r IH]; intros i prev sup sup' ws Hpn HM; cbn [mint_periods] in HM.
  - inversion HM; subst. repeat split; try constructor; try lia.
  - assert (Lift : forall prev' sup1 ws1, prev <= prev' -> prev' <= now -> sup <= sup1 ->
              mint_periods now r (S i) prev' sup1 = Some (sup', ws1) ->
              Forall (fun w => win_ok now prev w /\ In (w_per w) (p :: r) /\ (i <= w_idx w)%nat) ws1 /\
              Forall (fun w => (S i <= w_idx w)%nat) ws1 /\ NoDup (map w_idx ws1) /\ sup' = replay_ws sup1 ws1 /\ sup <= sup').
    { intros prev' sup1 ws1 L1 L2 L3 HR. destruct (IH _ _ _ _ _ L2 HR) as (F & N & E & G).
      repeat split; try assumption; try lia.
      - eapply Forall_impl; [|exact F]. intros w (W1 & W2 & W3).
        split; [eapply win_ok_weaken; eassumption|split; [right; assumption|lia]].
      - eapply Forall_impl; [|exact F]. intros w (_ & _ & W3). exact W3. }
    destruct (Z.ltb_spec (p_end p) prev) as [C1|C1].
    { destruct (Lift prev sup ws ltac:(lia) Hpn ltac:(lia) HM) as (F & _ & N & E & G). repeat split; assumption. }
    unfold kd_case2, kd_case3 in HM.
    destruct (Z.ltb_spec prev (p_end p)) as [C2a|C2a]; destruct (Z.leb_spec (p_end p) now) as [C2b|C2b]; cbn [andb] in HM.
    + (* case 2 *)
      set (from := Z.max prev (p_start p)) in *.
      destruct (kd_mint (p_infl p) (unix (p_end p) - unix from) sup) as [a|] eqn:KM; [|discriminate].
      destruct (mint_periods now r (S i) (p_end p) (sup + a)) as [[sup2 ws2]|] eqn:R; [|discriminate].
      inversion HM; subst sup2 ws; clear HM.
      destruct (kd_mint_some _ _ _ _ KM) as (K1 & K2 & K3).
      destruct (Lift (p_end p) (sup + a) ws2 ltac:(lia) C2b ltac:(lia) R) as (F & F2 & N & E & G).
      assert (Hfrom : prev <= from /\ p_start p <= from) by (unfold from; lia).
      repeat split.
      * constructor; [|exact F]. unfold win_ok. cbn [w_per w_idx w_prev w_from w_to w_amt].
        pose proof (unix_mono _ _ (proj1 Hfrom)). pose proof (unix_mono _ _ (proj2 Hfrom)). pose proof (unix_mono _ _ C2b).
        repeat split; try lia; try (left; reflexivity).
      * cbn [map]. constructor; [apply not_in_idx; exact F2|exact N].
      * rewrite replay_cons. cbn [w_per w_to w_from]. rewrite <- K2. exact E.
      * lia.
    + (* End > now *)
      destruct (Z.leb_spec (p_start p) prev) as [C3a|C3a]; destruct (Z.ltb_spec now (p_end p)) as [C3b|C3b]; cbn [andb] in HM;
        try (destruct (Lift prev sup ws ltac:(lia) Hpn ltac:(lia) HM) as (F & _ & N & E & G); repeat split; assumption).
      destruct (kd_mint (p_infl p) (unix now - unix prev) sup) as [a|] eqn:KM; [|discriminate].
      destruct (mint_periods now r (S i) prev (sup + a)) as [[sup2 ws2]|] eqn:R; [|discriminate].
      inversion HM; subst sup2 ws; clear HM.
      destruct (kd_mint_some _ _ _ _ KM) as (K1 & K2 & K3).
      destruct (Lift prev (sup + a) ws2 ltac:(lia) Hpn ltac:(lia) R) as (F & F2 & N & E & G).
      repeat split.
      * constructor; [|exact F]. unfold win_ok. cbn [w_per w_idx w_prev w_from w_to w_amt].
        pose proof (unix_mono _ _ C3a). pose proof (unix_mono now (p_end p) ltac:(lia)).
        repeat split; try lia; try (left; reflexivity).
      * cbn [map]. constructor; [apply not_in_idx; exact F2|exact N].
      * rewrite replay_cons. cbn [w_per w_to w_from]. rewrite <- K2. exact E.
      * lia.
    + (* End = prev: neither case 2 nor (as End <= now) case 3 *)
      destruct (Z.leb_spec (p_start p) prev) as [C3a|C3a]; destruct (Z.ltb_spec now (p_end p)) as [C3b|C3b]; cbn [andb] in HM;
        try lia;
        try (destruct (Lift prev sup ws ltac:(lia) Hpn ltac:(lia) HM) as (F & _ & N & E & G); repeat split; assumption).
    + lia.
Qed.

Definition win_in (p t : Z) (w : window) : Prop :=
  unix p <= w_from w /\ w_from w <= w_to w /\ w_to w <= unix t.

Lemma win_ok_in now p w : win_ok now p w -> win_in p now w.
Proof. intros (A & B & C & D & E & _). unfold win_in. lia. Qed.

Lemma kavadist_windows t s s' ws wsi : 0 <= kd_prev s <= t -> kavadist_bb t s = Ok s' (ws, wsi) ->
  Forall (win_ok t (kd_prev s)) ws /\ Forall (win_ok t (kd_prev s)) wsi /\
  NoDup (map w_idx ws) /\ NoDup (map w_idx wsi) /\
  kd_prev s <= kd_prev s' <= t /\ (ws ++ wsi <> [] -> kd_prev s' = t) /\
  supply s' = replay_ws (replay_ws (supply s) ws) wsi /\ supply s <= supply s'.
Proof.
  intros Hp. unfold kavadist_bb. destruct (kd_active s); cbn [negb].
  - destruct (Z.eqb_spec (kd_prev s) 0) as [Z0|NZ].
    + intros H; inversion H; subst. cbn. repeat split; try constructor; try lia; try (intros C; contradiction).
    + destruct (mint_periods t (kd_periods s) 0 (kd_prev s) (supply s)) as [[sup1 ws1]|] eqn:M1; [|discriminate].
      destruct (mint_periods t (kd_infra s) 0 (kd_prev s) sup1) as [[sup2 ws2]|] eqn:M2; [|discriminate].
      intros H; inversion H; subst. fsimpl.
      destruct (mint_periods_windows _ _ _ _ _ _ _ (proj2 Hp) M1) as (F1 & N1 & E1 & G1).
      destruct (mint_periods_windows _ _ _ _ _ _ _ (proj2 Hp) M2) as (F2 & N2 & E2 & G2).
      repeat split; try assumption; try lia.
      * eapply Forall_impl; [|exact F1]. intros w W. apply W.
      * eapply Forall_impl; [|exact F2]. intros w W. apply W.
      * congruence.
  - intros H; inversion H; subst. cbn. repeat split; try constructor; try lia; try (intros C; contradiction).
Qed.

Lemma block_kd now t m c s s' x :
  InvT now s -> head_ok now (Block t m c) -> block t m c s = Ok s' x ->
  exists b, x = OBlock b /\
    Forall (win_ok t (kd_prev s)) (b_ws b) /\ Forall (win_ok t (kd_prev s)) (b_wsi b) /\
    NoDup (map w_idx (b_ws b)) /\ NoDup (map w_idx (b_wsi b)) /\
    kd_prev s <= kd_prev s' <= t /\ (b_ws b ++ b_wsi b <> [] -> kd_prev s' = t) /\
    supply s' = replay_ws (replay_ws (supply s + b_mint b) (b_ws b)) (b_wsi b).
Proof.
  intros (HI & HL & HK) (Hn & Ht & Hm & Hc) HB.
  apply block_inv in HB. destruct HB as (s2 & pay & s3 & mm & ws & wsi & P & M & K & ->).
  destruct (check_disable_last t c s) as (_ & _ & L3).
  assert (Sup1 : supply (fst (check_disable t c s)) = supply s).
  { unfold check_disable. destruct (switch_due t s); reflexivity. }
  apply payout_frame in P. destruct P as (_ & _ & _ & _ & _ & _ & _ & P8 & _ & _ & P11 & _).
  unfold mint_bb in M. inversion M; subst s3 mm; clear M.
  destruct HI as (_ & _ & _ & _ & _ & _ & HI7 & _).
  apply kavadist_windows in K; fsimpl; [|lia].
  destruct K as (K1 & K2 & K3 & K4 & K5 & K6 & K7 & _).
  eexists; split; [reflexivity|]. fsimpl. rewrite P8, L3 in *. rewrite P11, Sup1 in K7.
  repeat split; try assumption; lia.
Qed.

Definition all_windows (l : list out) : list (list window) := map (fun b => b_ws b ++ b_wsi b) (blocks l).
Definition later (W W' : list window) : Prop := forall w w', In w W -> In w' W' -> w_to w <= w_from w'.

Lemma all_windows_cons x l : all_windows (x :: l) = all_windows [x] ++ all_windows l.
Proof. unfold all_windows. rewrite blocks_cons, map_app. reflexivity. Qed.

(* windows of different blocks never overlap: no second is minted twice *)
Lemma windows_ordered ops : forall now s sf outs,
  InvT now s -> mono now ops -> run_outs s ops = (sf, outs) ->
  Forall (Forall (fun w => unix (kd_prev s) <= w_from w)) (all_windows outs) /\
  ForallOrdPairs later (all_windows outs).
Proof.
  induction ops as [|o r IH]; intros now s sf outs HT HM HR.
  - cbn in HR. inversion HR; subst. split; constructor.
  - apply mono_cons in HM. destruct HM as (HO & HM). cbn [run_outs] in HR.
    destruct (step s o) as [s' x| |] eqn:S.
    + destruct (run_outs s' r) as [sf' l] eqn:R. inversion HR; subst sf' outs; clear HR.
      destruct (step_facts now s o s' x HT HO S) as (A & _).
      destruct (IH _ _ _ _ A HM R) as (I1 & I2).
      destruct (is_block o) eqn:IB.
      * destruct o; try discriminate. cbn [step clock] in *.
        destruct (block_kd now t mint_o cons_o s s' x HT HO S) as (b & -> & B1 & B2 & _ & _ & B5 & B6 & _).
        rewrite all_windows_cons. unfold all_windows at 1 3, blocks. cbn [flat_map app map].
        assert (W : Forall (win_ok t (kd_prev s)) (b_ws b ++ b_wsi b)) by (apply Forall_app; split; assumption).
        split.
        -- constructor.
           ++ eapply Forall_impl; [|exact W]. intros w Hw. apply Hw.
           ++ eapply Forall_impl; [|exact I1]. intros W' HW'. eapply Forall_impl; [|exact HW'].
              intros w Hw. cbv beta in Hw. pose proof (unix_mono _ _ (proj1 B5)). lia.
        -- constructor; [|exact I2].
           rewrite Forall_forall. intros W' HW' w w' Hw Hw'.
           rewrite Forall_forall in I1. specialize (I1 W' HW'). rewrite Forall_forall in I1. specialize (I1 w' Hw').
           rewrite Forall_forall in W. destruct (W w Hw) as (_ & _ & _ & _ & W5 & _).
           assert (NE : b_ws b ++ b_wsi b <> []) by (intros E; rewrite E in Hw; exact Hw).
           rewrite (B6 NE) in I1. lia.
      * destruct (nonblock_frame s o s' x IB S) as (_ & _ & _ & _ & _ & _ & _ & F8 & _ & _ & F11 & _).
        rewrite all_windows_cons. unfold all_windows at 1 3. rewrite F11. cbn [map app].
        rewrite F8 in I1. split; assumption.
    + eapply (IH (clock now o)); [apply (InvT_weaken now); [eassumption|apply clock_ge; assumption]|eassumption|eassumption].
    + eapply (IH (clock now o)); [apply (InvT_weaken now); [eassumption|apply clock_ge; assumption]|eassumption|eassumption].
Qed.

(** * kavadist does not panic on valid, non-deflationary schedules (zero amounts included) *)

Lemma rel_pow_fuel_ge b : 0 < b -> forall fuel x n z, b <= x -> b <= z -> b <= rel_pow_fuel fuel x n b z.
Proof.
  intros Hb. induction fuel as [|k IH]; intros x n z Hx Hz; cbn [rel_pow_fuel]; [exact Hz|].
  destruct (n / 2 =? 0); [exact Hz|].
  assert (X : b <= (x * x + b / 2) / b).
  { apply Z.div_le_lower_bound; [lia|]. assert (0 <= b / 2) by (apply Z.div_pos; lia). nia. }
  apply IH; [exact X|].
  destruct ((n / 2) mod 2 =? 0); [exact Hz|].
  apply Z.div_le_lower_bound; [lia|]. assert (0 <= b / 2) by (apply Z.div_pos; lia). nia.
Qed.

Lemma rel_pow_ge x n b : 0 < b -> b <= x -> b <= rel_pow x n b.
Proof.
  intros Hb Hx. unfold rel_pow. destruct (Z.eqb_spec x 0); [lia|].
  apply rel_pow_fuel_ge; try assumption. destruct (n mod 2 =? 0); lia.
Qed.

Lemma kd_amount_nonneg infl secs sup : PREC <= infl -> 0 <= sup -> 0 <= kd_amount infl secs sup.
Proof.
  intros Hi Hs. unfold kd_amount.
  assert (E1 : dec_trunc_int (dec_mul infl (dec_of_int PREC)) = infl).
  { unfold dec_mul, dec_of_int, dec_trunc_int. replace (infl * (PREC * PREC)) with ((infl * PREC) * PREC) by ring.
    rewrite chop_round_exact by (unfold PREC in *; lia). apply Z.quot_mul. unfold PREC; lia. }
  rewrite E1. pose proof (rel_pow_ge infl secs PREC PREC_pos Hi) as R.
  set (rp := rel_pow infl secs PREC) in *.
  assert (E2 : dec_mul (dec_of_int rp) 1 = rp).
  { unfold dec_mul, dec_of_int. rewrite Z.mul_1_r. apply chop_round_exact. unfold PREC in *; lia. }
  rewrite E2. unfold dec_mul, dec_of_int, dec_sub, dec_trunc_int.
  replace (sup * PREC * rp) with ((sup * rp) * PREC) by ring.
  rewrite chop_round_exact by (unfold PREC in *; nia).
  apply Z.quot_pos; [|unfold PREC; lia]. nia.
Qed.

Fixpoint periods_ok (ps : list period) : Prop :=
  match ps with [] => True | p :: r => p_start p <= p_end p /\ PREC <= p_infl p /\ periods_ok r end.

Lemma mint_periods_no_panic now : forall ps i prev sup,
  prev <= now -> 0 <= sup -> periods_ok ps -> mint_periods now ps i prev sup <> None.
Proof.
  induction ps as [|p r IH]; intros i prev sup Hpn Hs HP; cbn [mint_periods]; [discriminate|].
  destruct HP as (P1 & P2 & P3).
  assert (KM : forall secs, 0 <= secs -> exists a, kd_mint (p_infl p) secs sup = Some a /\ 0 <= a).
  { intros secs Hsec. unfold kd_mint.
    destruct (Z.ltb_spec (p_infl p) 0); [unfold PREC in *; lia|]. destruct (Z.ltb_spec secs 0); [lia|]. cbn [orb].
    pose proof (kd_amount_nonneg (p_infl p) secs sup P2 Hs).
    destruct (Z.ltb_spec (kd_amount (p_infl p) secs sup) 0); [lia|]. eexists; split; [reflexivity|lia]. }
  destruct (p_end p <? prev); [apply IH; assumption|].
  unfold kd_case2, kd_case3.
  destruct (Z.ltb_spec prev (p_end p)) as [C2a|C2a]; destruct (Z.leb_spec (p_end p) now) as [C2b|C2b]; cbn [andb].
  - assert (0 <= unix (p_end p) - unix (Z.max prev (p_start p))).
    { pose proof (unix_mono (Z.max prev (p_start p)) (p_end p) ltac:(lia)). lia. }
    destruct (KM _ H) as (a & -> & Ha).
    specialize (IH (S i) (p_end p) (sup + a) C2b ltac:(lia) P3).
    destruct (mint_periods now r (S i) (p_end p) (sup + a)) as [[? ?]|]; [discriminate|contradiction].
  - destruct ((p_start p <=? prev) && (now <? p_end p)); [|apply IH; assumption].
    assert (0 <= unix now - unix prev) by (pose proof (unix_mono _ _ Hpn); lia).
    destruct (KM _ H) as (a & -> & Ha).
    specialize (IH (S i) prev (sup + a) Hpn ltac:(lia) P3).
    destruct (mint_periods now r (S i) prev (sup + a)) as [[? ?]|]; [discriminate|contradiction].
  - destruct ((p_start p <=? prev) && (now <? p_end p)) eqn:C3; [|apply IH; assumption].
    apply andb_true_iff in C3. destruct C3 as (_ & C3). apply Z.ltb_lt in C3. lia.
  - lia.
Qed.
