(* Lemmas and proofs about Model/Pricefeed.v *)
From Coq Require Import Permutation Sorted.
From Kava Require Import Base.Prelude Base.Dec Model.Pricefeed.
Local Open Scope Z_scope.

(** * Sorting: any two sorted arrangements of the same multiset are the same list *)

Lemma insert_perm x l : Permutation (insert x l) (x :: l).
Proof.
  induction l as [|y r IH]; cbn [insert]; [reflexivity|].
  destruct (x <=? y); [reflexivity|].
  rewrite IH. apply perm_swap.
Qed.

Lemma isort_perm l : Permutation (isort l) l.
Proof.
  induction l as [|x r IH]; cbn [isort]; [constructor|].
  rewrite insert_perm. constructor. exact IH.
Qed.

Lemma insert_sorted x l : StronglySorted Z.le l -> StronglySorted Z.le (insert x l).
Proof.
  induction 1 as [|y r Hs IH Hall]; cbn [insert].
  - constructor; constructor.
  - destruct (Z.leb_spec x y) as [Hxy|Hxy].
    + constructor; [constructor; assumption|].
      constructor; [lia|]. eapply Forall_impl; [|exact Hall]. intros z Hz; lia.
    + constructor; [exact IH|].
      apply Forall_forall. intros z Hz.
      apply (Permutation_in _ (insert_perm x r)) in Hz.
      destruct Hz as [<-|Hz]; [lia|]. rewrite Forall_forall in Hall. apply Hall; exact Hz.
Qed.

Lemma isort_sorted l : StronglySorted Z.le (isort l).
Proof. induction l as [|x r IH]; cbn [isort]; [constructor|]. apply insert_sorted; exact IH. Qed.

Lemma sorted_perm_unique : forall l l',
  StronglySorted Z.le l -> StronglySorted Z.le l' -> Permutation l l' -> l = l'.
Proof.
  induction l as [|x r IH]; intros l' Hs Hs' Hp.
  - apply Permutation_nil in Hp. subst; reflexivity.
  - destruct l' as [|y r']. { apply Permutation_sym, Permutation_nil in Hp. discriminate. }
    inversion Hs as [|? ? Hsr Hall]; subst. inversion Hs' as [|? ? Hsr' Hall']; subst.
    assert (Exy : x = y).
    { assert (Hx : In x (y :: r')) by (eapply Permutation_in; [exact Hp|left; reflexivity]).
      assert (Hy : In y (x :: r)) by (eapply Permutation_in; [symmetry; exact Hp|left; reflexivity]).
      rewrite Forall_forall in Hall, Hall'.
      destruct Hx as [Hx|Hx]; [congruence|]. destruct Hy as [Hy|Hy]; [congruence|].
      specialize (Hall _ Hy). specialize (Hall' _ Hx). lia. }
    subst y. f_equal. apply IH; auto. eapply Permutation_cons_inv; exact Hp.
Qed.

Lemma isort_perm_eq l l' : Permutation l l' -> isort l = isort l'.
Proof.
  intros Hp. apply sorted_perm_unique; try apply isort_sorted.
  rewrite !isort_perm. exact Hp.
Qed.

Lemma sorted_nth_le : forall s, StronglySorted Z.le s ->
  forall i j, (i <= j < length s)%nat -> nth i s 0 <= nth j s 0.
Proof.
  induction 1 as [|x r Hs IH Hall]; intros i j Hij; cbn [length] in Hij; [lia|].
  destruct i, j; cbn [nth]; try lia.
  - rewrite Forall_forall in Hall. apply Hall. apply nth_In. lia.
  - apply IH. lia.
Qed.

(** * The median *)

Lemma median_middle l : median l = middle (isort l).
Proof. destruct l as [|x [|y r]]; reflexivity. Qed.

(* independent of the order in which the store iterator delivers the prices *)
Lemma median_perm l l' : Permutation l l' -> median l = median l'.
Proof. intros Hp. rewrite !median_middle. f_equal. apply isort_perm_eq; exact Hp. Qed.

(* independent of the sorting algorithm (stable or not): whatever sorted arrangement
   sort.Slice produces, the result is its middle *)
Lemma median_any_sort l s : Permutation s l -> StronglySorted Z.le s -> median l = middle s.
Proof.
  intros Hp Hs. rewrite median_middle. f_equal.
  apply sorted_perm_unique; [apply isort_sorted|exact Hs|].
  rewrite isort_perm. symmetry; exact Hp.
Qed.

Lemma calculate_median_perm l l' : Permutation l l' -> calculate_median_price l = calculate_median_price l'.
Proof.
  intros Hp. unfold calculate_median_price.
  destruct l as [|x r]. { apply Permutation_nil in Hp; subst; reflexivity. }
  destruct l' as [|y r']. { apply Permutation_sym, Permutation_nil in Hp; discriminate. }
  f_equal. apply median_perm; exact Hp.
Qed.

Lemma calculate_median_none l : calculate_median_price l = None <-> l = [].
Proof. destruct l; cbn; split; congruence. Qed.

Lemma mean_between a b : 0 <= a -> a <= b -> a <= mean_price a b <= b.
Proof.
  intros Ha Hab. unfold mean_price, dec_add. change (dec_of_int 2) with (2 * PREC).
  pose proof (dec_quo_bounds (a + b) (2 * PREC) ltac:(lia) ltac:(unfold PREC; lia)) as B. cbv zeta in B.
  assert (E : (a + b) * PREC * PREC / (2 * PREC) = (a + b) * HALF).
  { replace ((a + b) * PREC * PREC) with ((a + b) * HALF * (2 * PREC)) by (rewrite PREC_HALF; ring).
    apply Z.div_mul. unfold PREC; lia. }
  rewrite E in B. set (q := dec_quo (a + b) (2 * PREC)) in *.
  unfold PREC, HALF in B. lia.
Qed.

(* mean of the mantissas, exact halves to the even neighbour *)
Lemma mean_exact a b : 0 <= a -> 0 <= b ->
  2 * mean_price a b = a + b \/
  (Z.odd (a + b) = true /\ Z.even (mean_price a b) = true /\ (2 * mean_price a b = a + b + 1 \/ 2 * mean_price a b = a + b - 1)).
Proof.
  intros Ha Hb. unfold mean_price, dec_add. change (dec_of_int 2) with (2 * PREC).
  unfold dec_quo. rewrite Z.quot_div_nonneg by (unfold PREC; nia).
  assert (E : (a + b) * PREC * PREC / (2 * PREC) = (a + b) * HALF).
  { replace ((a + b) * PREC * PREC) with ((a + b) * HALF * (2 * PREC)) by (rewrite PREC_HALF; ring).
    apply Z.div_mul. unfold PREC; lia. }
  rewrite E. set (t := a + b). assert (Ht : 0 <= t) by lia. clearbody t.
  unfold chop_round. destruct (Z.ltb_spec (t * HALF) 0) as [Hn|_]; [unfold HALF in Hn; lia|].
  unfold chop_round_pos.
  pose proof (Z.div_mod t 2 ltac:(lia)) as D. pose proof (Z.mod_pos_bound t 2 ltac:(lia)) as M.
  assert (Q : t * HALF / PREC = t / 2 /\ t * HALF mod PREC = (t mod 2) * HALF).
  { assert (EE : t * HALF = (t / 2) * PREC + (t mod 2) * HALF) by (rewrite PREC_HALF; nia).
    assert (0 <= (t mod 2) * HALF < PREC) by (unfold HALF, PREC; nia).
    split.
    - symmetry. apply (Z.div_unique _ _ _ ((t mod 2) * HALF)); [lia|]. rewrite EE; ring.
    - symmetry. apply (Z.mod_unique _ _ (t / 2)); [lia|]. rewrite EE; ring. }
  destruct Q as [Q1 Q2]. rewrite Q1, Q2.
  assert (Hc : t mod 2 = 0 \/ t mod 2 = 1) by lia. destruct Hc as [Hc|Hc]; rewrite Hc.
  - change (0 * HALF) with 0. change (0 =? 0) with true. cbv iota. left. lia.
  - change (1 * HALF) with HALF. change (HALF =? 0) with false. rewrite Z.ltb_irrefl. cbv iota.
    right. assert (Ho : Z.odd t = true).
    { rewrite Zodd_mod. rewrite Hc. reflexivity. }
    split; [exact Ho|].
    destruct (Z.even (t / 2)) eqn:Ev.
    + split; [exact Ev|]. right. lia.
    + split; [|left; lia]. rewrite Z.even_add, Ev. reflexivity.
Qed.

Lemma middle_between s : StronglySorted Z.le s -> s <> [] -> (forall x, In x s -> 0 <= x) ->
  exists lo hi, In lo s /\ In hi s /\ lo <= middle s <= hi.
Proof.
  intros Hs Hne Hpos. unfold middle. set (n := length s).
  assert (Hn : (0 < n)%nat) by (subst n; destruct s; [congruence|cbn; lia]).
  destruct (Nat.even n) eqn:Ev.
  - assert (H2 : (2 <= n)%nat).
    { destruct n as [|[|k]]; [lia|cbn in Ev; discriminate|lia]. }
    assert (Hd : (n / 2 < n)%nat) by (apply Nat.div_lt; lia).
    assert (Hd1 : (1 <= n / 2)%nat) by (apply Nat.div_le_lower_bound; lia).
    exists (nth (n / 2 - 1) s 0), (nth (n / 2) s 0).
    split; [apply nth_In; fold n; lia|]. split; [apply nth_In; fold n; lia|].
    apply mean_between; [apply Hpos, nth_In; fold n; lia|].
    apply sorted_nth_le; [exact Hs|fold n; lia].
  - assert (Hd : (n / 2 < n)%nat).
    { destruct (Nat.eq_dec n 1) as [->|]; [cbn; lia|apply Nat.div_lt; lia]. }
    exists (nth (n / 2) s 0), (nth (n / 2) s 0).
    split; [apply nth_In; fold n; lia|]. split; [apply nth_In; fold n; lia|]. lia.
Qed.

(* the median lies between two of the given prices *)
Lemma median_between l : l <> [] -> (forall x, In x l -> 0 <= x) ->
  exists lo hi, In lo l /\ In hi l /\ lo <= median l <= hi.
Proof.
  intros Hne Hpos. rewrite median_middle.
  destruct (middle_between (isort l) (isort_sorted l)) as [lo [hi [Hlo [Hhi B]]]].
  - intros E. apply Hne. apply Permutation_nil. rewrite <- E. apply isort_perm.
  - intros x Hx. apply Hpos. eapply Permutation_in; [apply isort_perm|exact Hx].
  - exists lo, hi. split; [eapply Permutation_in; [apply isort_perm|exact Hlo]|].
    split; [eapply Permutation_in; [apply isort_perm|exact Hhi]|exact B].
Qed.

(* at least half of the prices are <= the median's upper witness and at least half >= its lower one:
   the defining property of a median, for odd counts *)
Lemma median_odd_is_element l : Nat.odd (length l) = true ->
  exists s, Permutation s l /\ StronglySorted Z.le s /\ median l = nth (length l / 2) s 0.
Proof.
  intros Ho. exists (isort l). split; [apply isort_perm|]. split; [apply isort_sorted|].
  rewrite median_middle. unfold middle.
  rewrite (Permutation_length (isort_perm l)).
  rewrite <- Nat.negb_odd, Ho. reflexivity.
Qed.

Lemma median_even_is_mean l : Nat.even (length l) = true ->
  exists s, Permutation s l /\ StronglySorted Z.le s /\
    median l = mean_price (nth (length l / 2 - 1) s 0) (nth (length l / 2) s 0).
Proof.
  intros Ho. exists (isort l). split; [apply isort_perm|]. split; [apply isort_sorted|].
  rewrite median_middle. unfold middle.
  rewrite (Permutation_length (isort_perm l)). rewrite Ho. reflexivity.
Qed.

(** * Unexpired prices *)

Lemma in_live e s m p :
  In p (live e s m) <-> exists o ex, (o < noracles e)%nat /\ raw s m o = Some (p, ex) /\ now s < ex.
Proof.
  unfold live. rewrite in_flat_map. split.
  - intros [o [Ho Hp]]. apply in_seq in Ho. unfold live_of in Hp.
    destruct (raw s m o) as [[p' ex]|] eqn:R; [|contradiction].
    destruct (Z.ltb_spec (now s) ex); [|contradiction].
    destruct Hp as [<-|[]]. exists o, ex. repeat split; [lia|exact R|lia].
  - intros [o [ex [Ho [R Hex]]]]. exists o. split; [apply in_seq; lia|].
    unfold live_of. rewrite R. destruct (Z.ltb_spec (now s) ex); [left; reflexivity|lia].
Qed.

Lemma live_ext e s1 s2 m :
  (forall o, live_of (now s1) (raw s1 m o) = live_of (now s2) (raw s2 m o)) ->
  live e s1 m = live e s2 m.
Proof. intros H. unfold live. apply flat_map_ext. exact H. Qed.

Lemma live_length e s m : (length (live e s m) <= noracles e)%nat.
Proof.
  unfold live. generalize 0%nat. induction (noracles e) as [|n IH]; intros st; cbn [seq flat_map]; [cbn; lia|].
  rewrite app_length. specialize (IH (S st)).
  assert (length (live_of (now s) (raw s m st)) <= 1)%nat.
  { unfold live_of. destruct (raw s m st) as [[p ex]|]; [destruct (now s <? ex)|]; cbn; lia. }
  lia.
Qed.

(** * SetCurrentPricesForAllMarkets *)

Definition mprice (e : env) (s : state) (m : nat) : Z :=
  match live e s m with [] => 0 | l => median l end.

Lemma market_price_some e s m : market_price e s m = Some (mprice e s m).
Proof. unfold market_price, mprice, calculate_median_price. destruct (live e s m); reflexivity. Qed.

Lemma mem_cons x m r : mem x (m :: r) = Nat.eqb x m || mem x r.
Proof. reflexivity. Qed.

Lemma set_all_loop_spec e s0 : forall ids c, exists c',
  set_all_loop e s0 ids c = Some c' /\
  forall x, c' x = if mem x ids then Some (mprice e s0 x) else c x.
Proof.
  induction ids as [|m r IH]; intros c; cbn [set_all_loop].
  - eexists; split; [reflexivity|]. intros x; reflexivity.
  - rewrite market_price_some. destruct (IH (upd c m (Some (mprice e s0 m)))) as [c' [E H]].
    exists c'; split; [exact E|]. intros x. rewrite H, mem_cons. unfold upd.
    destruct (mem x r); [rewrite orb_true_r; reflexivity|]. rewrite orb_false_r.
    destruct (Nat.eqb_spec x m); subst; reflexivity.
Qed.

Lemma set_all_spec e s : exists s',
  set_all e s = Ok s' [] /\ now s' = now s /\ markets s' = markets s /\ raw s' = raw s /\ status s' = status s /\
  forall m, cur s' m = if mem m (active_ids (markets s)) then Some (mprice e s m) else cur s m.
Proof.
  unfold set_all. destruct (set_all_loop_spec e s (active_ids (markets s)) (cur s)) as [c' [E H]].
  rewrite E. eexists; split; [reflexivity|]. cbn. repeat split; auto.
Qed.

Lemma set_all_no_panic e s : set_all e s <> Panic.
Proof. destruct (set_all_spec e s) as [s' [E _]]. rewrite E. discriminate. Qed.

Lemma gcp_of_cur s m p : cur s m = Some p -> get_current_price s m = if p =? 0 then None else Some p.
Proof. intros H. unfold get_current_price. rewrite H. reflexivity. Qed.

Lemma avail_ext s1 s2 m : cur s1 m = cur s2 m -> avail s1 m = avail s2 m.
Proof. intros H. unfold avail, get_current_price. rewrite H. reflexivity. Qed.

(* after the end blocker: the price of an active market is the median of the unexpired
   prices; it is unavailable exactly when there is none or the median is zero *)
Lemma end_block_median e s s' out m :
  set_all e s = Ok s' out -> mem m (active_ids (markets s)) = true ->
  get_current_price s' m =
    match live e s m with
    | [] => None
    | l => if median l =? 0 then None else Some (median l)
    end.
Proof.
  intros E Hm. destruct (set_all_spec e s) as [s1 [E1 [_ [_ [_ [_ H]]]]]].
  rewrite E1 in E. injection E as <- _. specialize (H m). rewrite Hm in H.
  rewrite (gcp_of_cur _ _ _ H). unfold mprice. destruct (live e s m); reflexivity.
Qed.

Lemma end_block_inactive e s s' out m :
  set_all e s = Ok s' out -> mem m (active_ids (markets s)) = false -> cur s' m = cur s m.
Proof.
  intros E Hm. destruct (set_all_spec e s) as [s1 [E1 [_ [_ [_ [_ H]]]]]].
  rewrite E1 in E. injection E as <- _. specialize (H m). rewrite Hm in H. exact H.
Qed.

Lemma median_pos l : l <> [] -> (forall x, In x l -> 0 < x) -> 0 < median l.
Proof.
  intros Hne Hpos. destruct (median_between l Hne) as [lo [hi [Hlo [_ B]]]].
  - intros x Hx. specialize (Hpos x Hx). lia.
  - specialize (Hpos lo Hlo). lia.
Qed.

Lemma end_block_available e s s' out m :
  set_all e s = Ok s' out -> mem m (active_ids (markets s)) = true ->
  live e s m <> [] -> (forall p, In p (live e s m) -> 0 < p) ->
  get_current_price s' m = Some (median (live e s m)) /\ 0 < median (live e s m).
Proof.
  intros E Hm Hne Hpos. rewrite (end_block_median e s s' out m E Hm).
  pose proof (median_pos _ Hne Hpos) as P.
  destruct (live e s m) as [|x r]; [congruence|]. cbv zeta.
  destruct (Z.eqb_spec (median (x :: r)) 0); [lia|]. split; [reflexivity|exact P].
Qed.

(* expired entries do not influence the result *)
Lemma expired_ignored e s1 s2 s1' s2' o1 o2 :
  now s1 = now s2 -> markets s1 = markets s2 -> (forall m, cur s1 m = cur s2 m) ->
  (forall m o, live_of (now s1) (raw s1 m o) = live_of (now s1) (raw s2 m o)) ->
  set_all e s1 = Ok s1' o1 -> set_all e s2 = Ok s2' o2 ->
  forall m, cur s1' m = cur s2' m.
Proof.
  intros Hn Hm Hc Hl E1 E2 m.
  destruct (set_all_spec e s1) as [t1 [F1 [_ [_ [_ [_ H1]]]]]].
  destruct (set_all_spec e s2) as [t2 [F2 [_ [_ [_ [_ H2]]]]]].
  rewrite F1 in E1; injection E1 as <- _. rewrite F2 in E2; injection E2 as <- _.
  rewrite H1, H2, Hm, Hc. unfold mprice.
  rewrite (live_ext e s1 s2 m); [reflexivity|]. intros o. rewrite <- Hn. apply Hl.
Qed.

Definition expired_or_absent (t : Z) (v : option (Z * Z)) : Prop :=
  match v with Some (_, ex) => ex <= t | None => True end.

Lemma live_of_expired t v : expired_or_absent t v -> live_of t v = [].
Proof.
  unfold expired_or_absent, live_of. destruct v as [[p ex]|]; [|reflexivity].
  intros H. destruct (Z.ltb_spec t ex); [lia|reflexivity].
Qed.

(* replacing an expired (or absent) entry by any other expired entry, or deleting it,
   changes nothing at the end of the block *)
Lemma expired_entry_irrelevant e s m o v s1 s2 o1 o2 :
  expired_or_absent (now s) (raw s m o) -> expired_or_absent (now s) v ->
  set_all e s = Ok s1 o1 -> set_all e (with_raw s (upd2 (raw s) m o v)) = Ok s2 o2 ->
  forall x, cur s1 x = cur s2 x.
Proof.
  intros H1 H2 E1 E2. eapply expired_ignored; [| | | |exact E1|exact E2]; try reflexivity.
  intros m' o'. cbn [raw with_raw]. unfold upd2.
  destruct (Nat.eqb_spec m' m) as [->|]; [|reflexivity].
  destruct (Nat.eqb_spec o' o) as [->|]; [|reflexivity]. cbn [andb].
  rewrite (live_of_expired _ _ H1), (live_of_expired _ _ H2). reflexivity.
Qed.

(** * PostPrice *)

Lemma post_expired_refused s o m p ex : ex <= now s -> post s o m p ex = Err.
Proof.
  intros H. unfold post. destruct (p <? 0); [reflexivity|]. destruct (ex / NS <=? 0); [reflexivity|].
  destruct (find_market m (markets s)); [|reflexivity]. destruct (negb _); [reflexivity|].
  destruct (Z.leb_spec ex (now s)); [reflexivity|lia].
Qed.

Lemma post_ok_inv s o m p ex s' out : post s o m p ex = Ok s' out ->
  0 <= p /\ now s < ex /\
  (exists k, find_market m (markets s) = Some k /\ mem o (m_oracles k) = true) /\
  s' = with_raw s (upd2 (raw s) m o (Some (p, ex))).
Proof.
  unfold post. destruct (Z.ltb_spec p 0); [discriminate|]. destruct (ex / NS <=? 0); [discriminate|].
  destruct (find_market m (markets s)) as [k|]; [|discriminate].
  destruct (mem o (m_oracles k)) eqn:Mo; cbn [negb]; [|discriminate].
  destruct (Z.leb_spec ex (now s)); [discriminate|]. intros E; injection E as <- _.
  repeat split; try lia. exists k; split; reflexivity || exact Mo.
Qed.

(* key structure: a post overwrites the single entry of its (market, oracle) and nothing else *)
Lemma post_overwrites s o m p ex s' out : post s o m p ex = Ok s' out ->
  raw s' m o = Some (p, ex) /\
  (forall m' o', (m', o') <> (m, o) -> raw s' m' o' = raw s m' o') /\
  cur s' = cur s /\ status s' = status s /\ markets s' = markets s /\ now s' = now s.
Proof.
  intros E. destruct (post_ok_inv _ _ _ _ _ _ _ E) as [_ [_ [_ ->]]]. cbn. unfold upd2.
  rewrite !Nat.eqb_refl. repeat split.
  intros m' o' Hne. destruct (Nat.eqb_spec m' m) as [->|]; [|reflexivity].
  destruct (Nat.eqb_spec o' o) as [->|]; [congruence|reflexivity].
Qed.

(** * frames of the other operations *)

Lemma begin_loop_frame : forall cps s s' fl, begin_loop s cps = (s', fl) ->
  now s' = now s /\ markets s' = markets s /\ raw s' = raw s /\ cur s' = cur s.
Proof.
  induction cps as [|[sp lq] r IH]; intros s s' fl E; cbn [begin_loop update_status] in E.
  - injection E as <- _. repeat split.
  - destruct (avail s sp); cbn [negb] in E.
    + destruct (begin_loop _ r) as [s2 f2] eqn:B. injection E as <- _.
      apply IH in B. cbn in B. exact B.
    + destruct (begin_loop _ r) as [s2 f2] eqn:B. injection E as <- _.
      apply IH in B. cbn in B. exact B.
Qed.

Lemma set_one_frame e s m : forall s' r, set_one e s m = (s', r) ->
  now s' = now s /\ markets s' = markets s /\ raw s' = raw s /\ status s' = status s.
Proof.
  intros s' r. unfold set_one. destruct (find_market m (markets s)); [|intros E; injection E as <- _; repeat split].
  destruct (live e s m) as [|x l]; [intros E; injection E as <- _; repeat split|].
  cbn [calculate_median_price]. intros E; injection E as <- _; repeat split.
Qed.

Definition is_post_for (m o : nat) (x : op) : bool :=
  match x with Post o' m' _ _ => Nat.eqb o' o && Nat.eqb m' m | _ => false end.

Lemma step_raw_other e s x s' out m o :
  step e s x = Ok s' out -> is_post_for m o x = false -> raw s' m o = raw s m o.
Proof.
  destruct x as [t| |o' m' p ex|ms|m'|c rest]; cbn [step is_post_for]; intros E Hn.
  - destruct (begin_block e s t) as [s1 fl] eqn:B. injection E as <- _.
    unfold begin_block in B. apply begin_loop_frame in B. destruct B as [_ [_ [R _]]]. rewrite R. reflexivity.
  - destruct (set_all_spec e s) as [s1 [E1 [_ [_ [R _]]]]]. rewrite E1 in E. injection E as <- _. rewrite R; reflexivity.
  - destruct (_ && _); [|discriminate].
    apply post_overwrites in E. destruct E as [_ [F _]]. apply F.
    intros Eq; injection Eq as -> ->. rewrite !Nat.eqb_refl in Hn. discriminate.
  - unfold set_markets in E. destruct (negb _); [discriminate|]. destruct (negb _); [discriminate|].
    injection E as <- _. reflexivity.
  - destruct (set_one e s m'). injection E as <- _. reflexivity.
  - unfold consume in E. destruct (needs e c) as [[sts prs]|]; [|discriminate].
    destruct (_ && _); [|discriminate]. destruct rest; try discriminate. injection E as <- _. reflexivity.
Qed.

Lemma run_app e s a b : run e s (a ++ b) = run e (run e s a) b.
Proof. unfold run. apply fold_left_app. Qed.

Lemma run_raw_other e m o : forall ops s,
  forallb (fun x => negb (is_post_for m o x)) ops = true -> raw (run e s ops) m o = raw s m o.
Proof.
  induction ops as [|x r IH]; intros s H; [reflexivity|]. cbn [forallb] in H.
  apply andb_true_iff in H. destruct H as [Hx Hr]. apply negb_true_iff in Hx.
  cbn [run fold_left]. fold (run e (step' e s x) r). rewrite IH by exact Hr.
  unfold step'. destruct (step e s x) as [s1 out| |] eqn:E; [|reflexivity|reflexivity].
  eapply step_raw_other; eassumption.
Qed.

(* one entry per (market, oracle), holding that oracle's latest accepted post:
   whatever happened before, and whatever other operations follow *)
Lemma raw_is_latest_post e s ops o m p ex ops' s1 out :
  step e (run e s ops) (Post o m p ex) = Ok s1 out ->
  forallb (fun x => negb (is_post_for m o x)) ops' = true ->
  raw (run e s (ops ++ Post o m p ex :: ops')) m o = Some (p, ex).
Proof.
  intros E H. rewrite run_app. cbn [run fold_left]. fold (run e (step' e (run e s ops) (Post o m p ex)) ops').
  rewrite run_raw_other by exact H. unfold step'. rewrite E.
  cbn [step] in E. destruct (_ && _); [|discriminate]. apply post_overwrites in E. apply E.
Qed.

Definition keeps_cur (x : op) : bool := match x with EndBlock => false | _ => true end.

Lemma step_cur e s x s' out : step e s x = Ok s' out -> keeps_cur x = true -> cur s' = cur s.
Proof.
  destruct x as [t| |o' m' p ex|ms|m'|c rest]; cbn [step keeps_cur]; intros E Hn; try discriminate.
  - destruct (begin_block e s t) as [s1 fl] eqn:B. injection E as <- _.
    unfold begin_block in B. apply begin_loop_frame in B. destruct B as [_ [_ [_ R]]]. rewrite R. reflexivity.
  - destruct (_ && _); [|discriminate]. apply post_overwrites in E. apply E.
  - unfold set_markets in E. destruct (negb _); [discriminate|]. destruct (negb _); [discriminate|].
    injection E as <- _. reflexivity.
  - destruct (set_one e s m'). injection E as <- _. reflexivity.
  - unfold consume in E. destruct (needs e c) as [[sts prs]|]; [|discriminate].
    destruct (_ && _); [|discriminate]. destruct rest; try discriminate. injection E as <- _. reflexivity.
Qed.

(* between two end blockers the current prices do not move: posts, parameter changes,
   the cdp begin blocker and the consumers do not write them *)
Lemma run_cur e : forall ops s, forallb keeps_cur ops = true -> cur (run e s ops) = cur s.
Proof.
  induction ops as [|x r IH]; intros s H; [reflexivity|]. cbn [forallb] in H.
  apply andb_true_iff in H. destruct H as [Hx Hr].
  cbn [run fold_left]. fold (run e (step' e s x) r). rewrite IH by exact Hr.
  unfold step'. destruct (step e s x) as [s1 out| |] eqn:E; [|reflexivity|reflexivity].
  eapply step_cur; eassumption.
Qed.

(** * The two implementations agree *)

Lemma mem_active_find m : forall ms, mem m (active_ids ms) = true -> exists k, find_market m ms = Some k.
Proof.
  induction ms as [|k r IH]; cbn [active_ids filter map find_market]; [discriminate|].
  intros H. destruct (Nat.eqb_spec (m_id k) m) as [Eq|Ne]; [eexists; reflexivity|].
  apply IH. destruct (m_active k); [|exact H]. cbn [map] in H. rewrite mem_cons in H.
  destruct (Nat.eqb_spec m (m_id k)); [congruence|]. exact H.
Qed.

Lemma two_implementations_agree e s s' out m :
  set_all e s = Ok s' out -> mem m (active_ids (markets s)) = true ->
  cur (fst (set_one e s m)) m = cur s' m /\
  (snd (set_one e s m) = ROk <-> live e s m <> []) /\
  (snd (set_one e s m) <> RPanic) /\
  (forall x, x <> m -> cur (fst (set_one e s m)) x = cur s x).
Proof.
  intros E Hm. destruct (set_all_spec e s) as [s1 [E1 [_ [_ [_ [_ H]]]]]].
  rewrite E1 in E. injection E as <- _. rewrite H, Hm.
  destruct (mem_active_find _ _ Hm) as [k Fk]. unfold set_one. rewrite Fk. unfold mprice.
  destruct (live e s m) as [|x l]; cbn [fst snd cur with_cur calculate_median_price].
  - unfold upd. rewrite Nat.eqb_refl. repeat split; try congruence.
    intros x Hx. destruct (Nat.eqb_spec x m); [congruence|reflexivity].
  - unfold upd. rewrite Nat.eqb_refl. repeat split; try congruence.
    intros x0 Hx. destruct (Nat.eqb_spec x0 m); [congruence|reflexivity].
Qed.

Lemma set_one_unknown_market e s m : find_market m (markets s) = None -> set_one e s m = (s, RErr).
Proof. intros H. unfold set_one. rewrite H. reflexivity. Qed.

(** * cdp market status follows availability during a block *)

Definition synced (e : env) (s : state) : Prop :=
  forall sp lq, In (sp, lq) (collaterals e) ->
    status s sp = avail s sp /\ (avail s sp = true -> status s lq = avail s lq).

Lemma begin_loop_status : forall cps s s' fl, begin_loop s cps = (s', fl) ->
  (forall m, status s' m = status s m \/ status s' m = avail s m) /\
  (forall sp lq, In (sp, lq) cps ->
     status s' sp = avail s sp /\ (avail s sp = true -> status s' lq = avail s lq)) /\
  fl = map (fun c => avail s (fst c) && avail s (snd c)) cps.
Proof.
  induction cps as [|[sp lq] r IH]; intros s s' fl E.
  - cbn [begin_loop] in E. injection E as <- <-. split; [intros; left; reflexivity|split; [intros ? ? []|reflexivity]].
  - cbn [begin_loop update_status] in E.
    destruct (avail s sp) eqn:Asp; cbn [negb] in E.
    + set (s1 := with_status s (upd (status s) sp true)) in *.
      assert (A1 : forall m, avail s1 m = avail s m) by (intros; apply avail_ext; reflexivity).
      set (s2 := with_status s1 (upd (status s1) lq (avail s1 lq))) in *.
      assert (A2 : forall m, avail s2 m = avail s m) by (intros; apply avail_ext; reflexivity).
      destruct (begin_loop s2 r) as [s3 f3] eqn:B. injection E as <- <-.
      destruct (IH _ _ _ B) as [I1 [I2 I3]].
      assert (S2 : forall m, status s2 m = status s m \/ status s2 m = avail s m).
      { intros m. unfold s2. cbn [status with_status]. unfold upd. rewrite A1.
        destruct (Nat.eqb_spec m lq) as [->|]; [right; reflexivity|]. unfold s1. cbn [status with_status]. unfold upd.
        destruct (Nat.eqb_spec m sp) as [->|]; [right; congruence|left; reflexivity]. }
      assert (Ssp : status s2 sp = avail s sp).
      { unfold s2. cbn [status with_status]. unfold upd. rewrite A1.
        destruct (Nat.eqb_spec sp lq) as [->|]; [reflexivity|]. unfold s1. cbn [status with_status]. unfold upd.
        rewrite Nat.eqb_refl. congruence. }
      assert (Slq : status s2 lq = avail s lq).
      { unfold s2. cbn [status with_status]. unfold upd. rewrite Nat.eqb_refl. apply A1. }
      split; [|split].
      * intros m. destruct (I1 m) as [->| ->]; [apply S2|right; apply A2].
      * intros sp' lq' [Eq|Hin].
        -- injection Eq as <- <-. split.
           ++ destruct (I1 sp) as [->| ->]; [exact Ssp|apply A2].
           ++ intros _. destruct (I1 lq) as [->| ->]; [exact Slq|apply A2].
        -- destruct (I2 _ _ Hin) as [P Q]. rewrite !A2 in P, Q. split; [exact P|exact Q].
      * cbn [map fst snd]. rewrite Asp, A1. cbn [andb]. f_equal. rewrite I3.
        apply map_ext. intros [a b]. cbn [fst snd]. rewrite !A2. reflexivity.
    + set (s1 := with_status s (upd (status s) sp false)) in *.
      assert (A1 : forall m, avail s1 m = avail s m) by (intros; apply avail_ext; reflexivity).
      destruct (begin_loop s1 r) as [s3 f3] eqn:B. injection E as <- <-.
      destruct (IH _ _ _ B) as [I1 [I2 I3]].
      assert (S1 : forall m, status s1 m = status s m \/ status s1 m = avail s m).
      { intros m. unfold s1. cbn [status with_status]. unfold upd.
        destruct (Nat.eqb_spec m sp) as [->|]; [right; congruence|left; reflexivity]. }
      assert (Ssp : status s1 sp = avail s sp).
      { unfold s1. cbn [status with_status]. unfold upd. rewrite Nat.eqb_refl. congruence. }
      split; [|split].
      * intros m. destruct (I1 m) as [->| ->]; [apply S1|right; apply A1].
      * intros sp' lq' [Eq|Hin].
        -- injection Eq as <- <-. split.
           ++ destruct (I1 sp) as [->| ->]; [exact Ssp|apply A1].
           ++ intros; congruence.
        -- destruct (I2 _ _ Hin) as [P Q]. rewrite !A1 in P, Q. split; [exact P|exact Q].
      * cbn [map fst snd]. rewrite Asp. cbn [andb]. f_equal. rewrite I3.
        apply map_ext. intros [a b]. cbn [fst snd]. rewrite !A1. reflexivity.
Qed.

Lemma begin_block_synced e s t s' fl : begin_block e s t = (s', fl) ->
  synced e s' /\ cur s' = cur s /\
  fl = map (fun c => avail s (fst c) && avail s (snd c)) (collaterals e).
Proof.
  unfold begin_block. intros B.
  pose proof (begin_loop_frame _ _ _ _ B) as [_ [_ [_ C]]]. cbn in C.
  destruct (begin_loop_status _ _ _ _ B) as [_ [I2 I3]].
  assert (A : forall m, avail s' m = avail s m) by (intros; apply avail_ext; rewrite C; reflexivity).
  split; [|split; [exact C|]].
  - intros sp lq Hin. destruct (I2 _ _ Hin) as [P Q].
    assert (A0 : forall m, avail (with_now s t) m = avail s m) by (intros; apply avail_ext; reflexivity).
    rewrite !A0 in P, Q. rewrite !A. split; [exact P|exact Q].
  - rewrite I3. apply map_ext. intros [a b]. cbn [fst snd].
    rewrite !(avail_ext (with_now s t) s) by reflexivity. reflexivity.
Qed.

(* transactions: everything but the two block-boundary operations *)
Definition is_tx (x : op) : bool :=
  match x with BeginBlock _ | EndBlock => false | _ => true end.

Lemma step_tx_status e s x s' out : step e s x = Ok s' out -> is_tx x = true -> status s' = status s.
Proof.
  destruct x as [t| |o' m' p ex|ms|m'|c rest]; cbn [step is_tx]; intros E Hn; try discriminate.
  - destruct (_ && _); [|discriminate]. apply post_overwrites in E. apply E.
  - unfold set_markets in E. destruct (negb _); [discriminate|]. destruct (negb _); [discriminate|].
    injection E as <- _. reflexivity.
  - destruct (set_one e s m'). injection E as <- _. reflexivity.
  - unfold consume in E. destruct (needs e c) as [[sts prs]|]; [|discriminate].
    destruct (_ && _); [|discriminate]. destruct rest; try discriminate. injection E as <- _. reflexivity.
Qed.

Lemma is_tx_keeps_cur x : is_tx x = true -> keeps_cur x = true.
Proof. destruct x; cbn; congruence. Qed.

Lemma run_tx_status e : forall ops s, forallb is_tx ops = true -> status (run e s ops) = status s.
Proof.
  induction ops as [|x r IH]; intros s H; [reflexivity|]. cbn [forallb] in H.
  apply andb_true_iff in H. destruct H as [Hx Hr].
  cbn [run fold_left]. fold (run e (step' e s x) r). rewrite IH by exact Hr.
  unfold step'. destruct (step e s x) as [s1 out| |] eqn:E; [|reflexivity|reflexivity].
  eapply step_tx_status; eassumption.
Qed.

Lemma forallb_tx_keeps ops : forallb is_tx ops = true -> forallb keeps_cur ops = true.
Proof.
  induction ops as [|x r IH]; [reflexivity|]. cbn [forallb]. intros H.
  apply andb_true_iff in H. destruct H as [Hx Hr]. rewrite (is_tx_keeps_cur _ Hx), (IH Hr). reflexivity.
Qed.

(* at every point of every block (after the begin blocker, whatever transactions ran)
   the cdp status flags agree with the availability of the current prices *)
Lemma synced_in_block e s t txs : forallb is_tx txs = true ->
  synced e (run e (step' e s (BeginBlock t)) txs).
Proof.
  intros H. unfold step'. cbn [step]. destruct (begin_block e s t) as [s1 fl] eqn:B.
  destruct (begin_block_synced _ _ _ _ _ B) as [Sy _].
  intros sp lq Hin. destruct (Sy sp lq Hin) as [P Q].
  rewrite (run_tx_status e txs s1 H).
  assert (A : forall m, avail (run e s1 txs) m = avail s1 m).
  { intros m. apply avail_ext. rewrite run_cur by (apply forallb_tx_keeps; exact H). reflexivity. }
  rewrite !A. split; [exact P|exact Q].
Qed.

(** * Consumers fail safe *)

Lemma forallb_false_in {A} (f : A -> bool) l x : In x l -> f x = false -> forallb f l = false.
Proof.
  intros Hin Hf. destruct (forallb f l) eqn:E; [|reflexivity].
  rewrite forallb_forall in E. rewrite (E x Hin) in Hf. discriminate.
Qed.

Lemma consume_needs_price e s c rest sts prs m :
  needs e c = Some (sts, prs) -> In m prs -> avail s m = false -> consume e s c rest = Err.
Proof.
  intros N Hin Ha. unfold consume. rewrite N.
  rewrite (forallb_false_in (avail s) prs m Hin Ha), andb_false_r. reflexivity.
Qed.

Lemma consume_needs_status e s c rest sts prs m :
  needs e c = Some (sts, prs) -> In m sts -> status s m = false -> consume e s c rest = Err.
Proof.
  intros N Hin Ha. unfold consume. rewrite N.
  rewrite (forallb_false_in (status s) sts m Hin Ha). reflexivity.
Qed.

Lemma consume_unknown_collateral e s c rest : needs e c = None -> consume e s c rest = Err.
Proof. intros N. unfold consume. rewrite N. reflexivity. Qed.

(* whatever the rest of the entry point would do *)
Lemma consume_ok_all_available e s c rest s' out :
  consume e s c rest = Ok s' out ->
  s' = s /\ rest = ROk /\
  exists sts prs, needs e c = Some (sts, prs) /\
    (forall m, In m sts -> status s m = true) /\ (forall m, In m prs -> exists p, get_current_price s m = Some p /\ p <> 0).
Proof.
  unfold consume. destruct (needs e c) as [[sts prs]|]; [|discriminate].
  destruct (forallb (status s) sts && forallb (avail s) prs) eqn:G; [|discriminate].
  destruct rest; try discriminate. intros E; injection E as <- _.
  apply andb_true_iff in G. destruct G as [G1 G2]. rewrite forallb_forall in G1, G2.
  repeat split. exists sts, prs. repeat split; auto.
  intros m Hm. specialize (G2 m Hm). unfold avail in G2.
  destruct (get_current_price s m) as [p|] eqn:P; [|discriminate]. exists p; split; [reflexivity|].
  unfold get_current_price in P. destruct (cur s m) as [q|]; [|discriminate].
  destruct (Z.eqb_spec q 0); [discriminate|congruence].
Qed.

(* ValidateCollateral under the block invariant: spot or liquidation price missing => refused *)
Lemma cdp_validate_collateral_fail_safe e s c rest ct sp lq prs :
  synced e s -> nth_error (collaterals e) ct = Some (sp, lq) ->
  needs e c = Some ([sp; lq], prs) ->
  avail s sp = false \/ avail s lq = false -> consume e s c rest = Err.
Proof.
  intros Sy Hct N Hmiss. apply nth_error_In in Hct. destruct (Sy sp lq Hct) as [P Q].
  destruct (avail s sp) eqn:Asp.
  - destruct Hmiss as [?|Alq]; [discriminate|].
    eapply consume_needs_status; [exact N|right; left; reflexivity|]. rewrite Q by reflexivity. exact Alq.
  - eapply consume_needs_status; [exact N|left; reflexivity|]. rewrite P. reflexivity.
Qed.

(** * Invariant: no negative price anywhere *)

Definition Inv (s : state) : Prop :=
  (forall m o p ex, raw s m o = Some (p, ex) -> 0 <= p) /\ (forall m p, cur s m = Some p -> 0 <= p).

Lemma mprice_nonneg e s m : Inv s -> 0 <= mprice e s m.
Proof.
  intros [Hr _]. unfold mprice. destruct (live e s m) as [|x l] eqn:L; [lia|].
  destruct (median_between (x :: l)) as [lo [hi [Hlo [_ B]]]]; [congruence| |].
  - intros y Hy. rewrite <- L in Hy. apply in_live in Hy. destruct Hy as [o [ex [_ [R _]]]]. eapply Hr; exact R.
  - rewrite <- L in Hlo. apply in_live in Hlo. destruct Hlo as [o [ex [_ [R _]]]]. specialize (Hr _ _ _ _ R). lia.
Qed.

Lemma step_inv e s x s' out : Inv s -> step e s x = Ok s' out -> Inv s'.
Proof.
  intros I E. destruct x as [t| |o' m' p ex|ms|m'|c rest]; cbn [step] in E.
  - destruct (begin_block e s t) as [s1 fl] eqn:B. injection E as <- _.
    unfold begin_block in B. apply begin_loop_frame in B. destruct B as [_ [_ [R C]]]. cbn in R, C.
    destruct I as [I1 I2]. split; [intros ? ? ? ?; rewrite R; apply I1|intros ? ?; rewrite C; apply I2].
  - destruct (set_all_spec e s) as [s1 [E1 [_ [_ [R [_ H]]]]]]. rewrite E1 in E. injection E as <- _.
    pose proof I as [I1 I2]. split; [intros ? ? ? ?; rewrite R; apply I1|].
    intros m p. rewrite H. destruct (mem m _); [|apply I2].
    intros Eq; injection Eq as <-. apply mprice_nonneg; exact I.
  - destruct (_ && _); [|discriminate]. destruct (post_ok_inv _ _ _ _ _ _ _ E) as [Hp [_ [_ ->]]].
    destruct I as [I1 I2]. split; [|exact I2]. intros m o q ex'. cbn [raw with_raw]. unfold upd2.
    destruct (_ && _); [intros Eq; injection Eq as <- _; exact Hp|apply I1].
  - unfold set_markets in E. destruct (negb _); [discriminate|]. destruct (negb _); [discriminate|].
    injection E as <- _. exact I.
  - destruct (set_one e s m'). injection E as <- _. exact I.
  - unfold consume in E. destruct (needs e c) as [[sts prs]|]; [|discriminate].
    destruct (_ && _); [|discriminate]. destruct rest; try discriminate. injection E as <- _. exact I.
Qed.

Lemma run_inv e : forall ops s, Inv s -> Inv (run e s ops).
Proof.
  induction ops as [|x r IH]; intros s I; [exact I|]. cbn [run fold_left]. apply IH.
  unfold step'. destruct (step e s x) eqn:E; [eapply step_inv; eassumption|exact I|exact I].
Qed.

Lemma inv_inv_b e s : Inv s -> inv_b e s = true.
Proof.
  intros [I1 I2]. unfold inv_b. apply forallb_forall. intros m _. apply andb_true_iff. split.
  - apply forallb_forall. intros o _. destruct (raw s m o) as [[p ex]|] eqn:R; [|reflexivity].
    apply Z.leb_le. eapply I1; exact R.
  - destruct (cur s m) as [p|] eqn:C; [|reflexivity]. apply Z.leb_le. eapply I2; exact C.
Qed.

(* the end blocker and the per-market function never reach the empty-slice panic *)
Lemma step_no_panic_end e s : step e s EndBlock <> Panic.
Proof. apply set_all_no_panic. Qed.

Lemma avail_false_iff s m : avail s m = false <-> get_current_price s m = None.
Proof. unfold avail. destruct (get_current_price s m); split; congruence. Qed.

(* general form: any market whose status or price the entry point consults *)
Lemma consume_fail_safe e s c rest sts prs m :
  synced e s -> needs e c = Some (sts, prs) -> In m sts \/ In m prs -> avail s m = false ->
  consume e s c rest = Err.
Proof.
  intros Sy N [Hs|Hp] Ha; [|eapply consume_needs_price; eauto].
  destruct c as [ct|ct|ct rz|ct cz|ct cz|l|l|l]; cbn [needs] in N;
    try (destruct (nth_error (collaterals e) ct) as [[sp lq]|] eqn:Hct; [|discriminate]);
    injection N as <- <-; try (destruct Hs; fail).
  - eapply (cdp_validate_collateral_fail_safe e s (CdpCreate ct) rest ct sp lq); [exact Sy|exact Hct|cbn [needs]; rewrite Hct; reflexivity|].
    destruct Hs as [<-|[<-|[]]]; auto.
  - eapply (cdp_validate_collateral_fail_safe e s (CdpDeposit ct) rest ct sp lq); [exact Sy|exact Hct|cbn [needs]; rewrite Hct; reflexivity|].
    destruct Hs as [<-|[<-|[]]]; auto.
  - eapply (cdp_validate_collateral_fail_safe e s (CdpWithdraw ct rz) rest ct sp lq); [exact Sy|exact Hct|cbn [needs]; rewrite Hct; reflexivity|].
    destruct Hs as [<-|[<-|[]]]; auto.
Qed.

(* the begin blocker goes on to interest accumulation and LiquidateCdps for a collateral
   type only when both of its prices are available *)
Lemma begin_block_proceeds e s t s' fl ct sp lq :
  begin_block e s t = (s', fl) -> nth_error (collaterals e) ct = Some (sp, lq) ->
  nth_error fl ct = Some (avail s sp && avail s lq).
Proof.
  intros B Hct. destruct (begin_block_synced _ _ _ _ _ B) as [_ [_ ->]].
  rewrite nth_error_map, Hct. reflexivity.
Qed.

(** * Rank characterisation of the median *)
Definition count_le (x : Z) (l : list Z) : nat := length (filter (fun y => y <=? x) l).
Definition count_ge (x : Z) (l : list Z) : nat := length (filter (fun y => x <=? y) l).

Lemma filter_length_perm (f : Z -> bool) l l' : Permutation l l' -> length (filter f l) = length (filter f l').
Proof.
  induction 1 as [|x l l' Hp IH|x y l|l l' l'' H1 IH1 H2 IH2]; cbn [filter].
  - reflexivity.
  - destruct (f x); cbn [length]; congruence.
  - destruct (f x), (f y); reflexivity.
  - congruence.
Qed.

Lemma filter_all_length (f : Z -> bool) l : (forall y, In y l -> f y = true) -> length (filter f l) = length l.
Proof.
  induction l as [|a r IH]; intros H; [reflexivity|]. cbn [filter].
  rewrite (H a (or_introl eq_refl)). cbn [length]. rewrite IH; [reflexivity|]. intros y Hy. apply H. right; exact Hy.
Qed.

Lemma sorted_count_le : forall s, StronglySorted Z.le s ->
  forall k, (k < length s)%nat -> (k + 1 <= count_le (nth k s 0%Z) s)%nat.
Proof.
  induction 1 as [|x r Hs IH Hall]; intros k Hk; cbn [length] in Hk; [lia|].
  unfold count_le in *. destruct k as [|k]; cbn [nth filter].
  - rewrite Z.leb_refl. cbn [length]. lia.
  - assert (Hx : x <= nth k r 0).
    { rewrite Forall_forall in Hall. apply Hall. apply nth_In. lia. }
    apply Z.leb_le in Hx. rewrite Hx. cbn [length]. specialize (IH k ltac:(lia)). lia.
Qed.

Lemma sorted_count_ge : forall s, StronglySorted Z.le s ->
  forall k, (k < length s)%nat -> (length s - k <= count_ge (nth k s 0%Z) s)%nat.
Proof.
  induction 1 as [|x r Hs IH Hall]; intros k Hk; cbn [length] in Hk; [lia|].
  unfold count_ge in *. destruct k as [|k]; cbn [nth filter length].
  - rewrite Z.leb_refl. cbn [length]. rewrite filter_all_length; [lia|].
    intros y Hy. apply Z.leb_le. rewrite Forall_forall in Hall. apply Hall; exact Hy.
  - specialize (IH k ltac:(lia)). destruct (nth k r 0 <=? x); cbn [length]; lia.
Qed.

(* the defining property of a median: at least half of the prices are <= it and at least
   half are >= it (odd count: the value itself; even count: the two middle values lo <= hi
   whose mean is taken) *)
Lemma median_rank_odd l : Nat.odd (length l) = true ->
  In (median l) l /\
  (length l < 2 * count_le (median l) l)%nat /\ (length l < 2 * count_ge (median l) l)%nat.
Proof.
  intros Ho. destruct (median_odd_is_element l Ho) as [s [Hp [Hs E]]].
  pose proof (Permutation_length Hp) as L.
  assert (Hn : (0 < length l)%nat) by (destruct l; [discriminate|cbn; lia]).
  assert (Hd : (length l / 2 < length s)%nat) by (rewrite L; apply Nat.div_lt; lia).
  assert (H2 : (length l = 2 * (length l / 2) + 1)%nat).
  { pose proof (Nat.div_mod (length l) 2 ltac:(lia)) as D.
    assert (length l mod 2 = 1)%nat; [|lia].
    rewrite <- Nat.bit0_mod, Nat.bit0_odd, Ho. reflexivity. }
  split; [|split].
  - rewrite E. eapply Permutation_in; [exact Hp|]. apply nth_In; exact Hd.
  - unfold count_le. rewrite <- (filter_length_perm _ _ _ Hp). fold (count_le (median l) s).
    rewrite E. pose proof (sorted_count_le s Hs _ Hd). lia.
  - unfold count_ge. rewrite <- (filter_length_perm _ _ _ Hp). fold (count_ge (median l) s).
    rewrite E. pose proof (sorted_count_ge s Hs _ Hd). lia.
Qed.

Lemma median_rank_even l : Nat.even (length l) = true -> l <> [] ->
  exists lo hi, In lo l /\ In hi l /\ lo <= hi /\ median l = mean_price lo hi /\
    (length l <= 2 * count_le lo l)%nat /\ (length l <= 2 * count_ge hi l)%nat /\
    (forall y, In y l -> y <= lo \/ hi <= y).
Proof.
  intros He Hne. destruct (median_even_is_mean l He) as [s [Hp [Hs E]]].
  pose proof (Permutation_length Hp) as L.
  assert (Hn : (2 <= length l)%nat).
  { destruct l as [|a [|b r]]; [congruence|cbn in He; discriminate|cbn; lia]. }
  assert (H2 : (length l = 2 * (length l / 2))%nat).
  { pose proof (Nat.div_mod (length l) 2 ltac:(lia)) as D.
    assert (length l mod 2 = 0)%nat; [|lia].
    rewrite <- Nat.bit0_mod, Nat.bit0_odd, <- Nat.negb_even, He. reflexivity. }
  set (h := (length l / 2)%nat) in *.
  assert (Hh : (1 <= h /\ h < length s)%nat) by lia.
  exists (nth (h - 1) s 0), (nth h s 0).
  split; [eapply Permutation_in; [exact Hp|apply nth_In; lia]|].
  split; [eapply Permutation_in; [exact Hp|apply nth_In; lia]|].
  split; [apply sorted_nth_le; [exact Hs|lia]|].
  split; [exact E|].
  split; [|split].
  - unfold count_le. rewrite <- (filter_length_perm _ _ _ Hp). fold (count_le (nth (h - 1) s 0) s).
    pose proof (sorted_count_le s Hs (h - 1)%nat ltac:(lia)). lia.
  - unfold count_ge. rewrite <- (filter_length_perm _ _ _ Hp). fold (count_ge (nth h s 0) s).
    pose proof (sorted_count_ge s Hs h ltac:(lia)). lia.
  - intros y Hy. apply (Permutation_in _ (Permutation_sym Hp)) in Hy.
    apply (In_nth _ _ 0) in Hy. destruct Hy as [i [Hi <-]].
    destruct (Nat.le_gt_cases i (h - 1)) as [Hle|Hgt].
    + left. apply sorted_nth_le; [exact Hs|lia].
    + right. apply sorted_nth_le; [exact Hs|lia].
Qed.
