(* C02 instance: x/community and x/kavadist, with x/mint between them as an oracle (Model/Emissions.v, C19).
   In SetOrderBeginBlockers the three run in the order community, mint, (distribution, slashing, evidence,
   staking, feemarket, evm,) kavadist; the model's [block t mint_o cons_o] is exactly that sequence on the
   state the three share (the community pool, the fee collector, the kavadist account, the ukava supply, the
   mint and distribution parameters the disable-inflation switch rewrites):
     community BeginBlocker = CheckAndDisableMintAndKavaDistInflation ; PayoutAccumulatedStakingRewards
     mint      BeginBlocker = mints [mint_o] to the fee collector unless InflationMax = 0 (oracle value)
     kavadist  BeginBlocker = MintPeriodInflation (both period lists, then distributeInfrastructureCoins)
   Each of the Go blockers panics on an error (community: panic(err) on a failed transfer / invalid state;
   kavadist: panic(err)); the model keeps every one of them as a Panic branch.
   The state of the component is (clock, Model.Emissions.state): the clock is the time of the last block.
   Operations: FundCommunityPool / community-pool spends (PoolAdj), a governance change of
   StakingRewardsPerSecond (SetRate), a governance change of kavadist Active (SetKdActive).  The harness-only
   direct calls of the model (Calc, KdMint, KdInfra) are not chain operations and are refused here.

   Neither module registers an invariant with the crisis keeper.  Invariant [EInv (now, s)]:
     InvT now s (C19): carried truncation error in [0,1), rates, pool balance, kavadist balance and stored
       times >= 0, stored times <= clock                              — needed: the payout cannot fail
     0 <= supply s                                                     — needed: mintInflationaryCoins
     periods_ok of both period lists: start <= end, inflation >= 1.0   — needed: no negative mint (Period.Validate
       enforces start <= end and a POSITIVE inflation only; inflation below 1.0 is a deflationary schedule
       that makes the code panic on a negative coin — excluded as a hypothesis on the parameters, they never change
       in the model)
     recipients_ok s: every partner / core reward address can be paid, rates >= 0, weights in [0,1]
       (InfrastructureParams validation)                               — needed: distributeInfrastructureCoins
   Block guard [good_eblock]: the block time is positive and does not run backwards (CometBFT), the two oracle
   values are >= 0 (x/mint mints a non-negative amount; the consolidated community-pool amount is a balance), and
   [covered]: the partner rewards owed for the elapsed time are covered by the coins minted for the
   infrastructure periods in this block.  The last one is NOT guaranteed by any validation: when it fails
   the begin blocker panics (C19_infra_shortfall_panics) — it is a condition on the governance-chosen
   partner reward rates relative to the infrastructure inflation. *)
From Coq Require Import String.
From Kava Require Import Base.Prelude Model.World Model.WorldG Proofs.WorldG.
From Kava Require Import Base.Dec Model.Emissions Proofs.Emissions.
Local Open Scope string_scope.
Local Open Scope Z_scope.

Definition estate : Type := (Z * state)%type.

Definition EInv (cs : estate) : Prop :=
  let '(now, s) := cs in
  InvT now s /\ 0 <= supply s /\ periods_ok (kd_periods s) /\ periods_ok (kd_infra s) /\ recipients_ok s.

(* the state the kavadist stage of the block at time t starts from *)
Definition pre_kd (t m c : Z) (s : state) : option state :=
  match payout t (fst (check_disable t c s)) with
  | Ok s2 _ => Some (fst (mint_bb m s2))
  | _ => None
  end.

Definition covered (t m c : Z) (s : state) : Prop :=
  forall s3 s4 ws wsi, pre_kd t m c s = Some s3 -> kavadist_bb t s3 = Ok s4 (ws, wsi) ->
  infra_elapsed t (kd_infra s) (kd_prev s) 0 * zsum (map pr_rate (kd_partners s)) <= minted wsi.

Definition good_eblock (cs : estate) (b : Z * Z * Z) : Prop :=
  let '(now, s) := cs in let '(t, m, c) := b in
  now <= t /\ 0 < t /\ 0 <= m /\ 0 <= c /\ covered t m c s.

Definition emissions_bb (cs : estate) (b : Z * Z * Z) : outcome estate unit :=
  let '(t, m, c) := b in
  match block t m c (snd cs) with Ok s' _ => Ok (t, s') tt | Err => Err | Panic => Panic end.

Definition emissions_tx (cs : estate) (o : op) : outcome estate unit :=
  match o with
  | PoolAdj _ | SetRate _ | SetKdActive _ =>
      match step (snd cs) o with Ok s' _ => Ok (fst cs, s') tt | Err => Err | Panic => Panic end
  | _ => Err
  end.

Definition emissions_M : module :=
  mkModule ["community"; "kavadist"] estate (Z * Z * Z) op
           emissions_bb emissions_tx no_blocker EInv good_eblock (fun _ _ => True).

(** * frames *)
Lemma check_disable_frame t c s :
  supply (fst (check_disable t c s)) = supply s /\ kd_periods (fst (check_disable t c s)) = kd_periods s.
Proof. unfold check_disable. destruct (switch_due t s); cbn; auto. Qed.

Lemma recipients_ok_frame s s' :
  kd_partners s' = kd_partners s -> kd_cores s' = kd_cores s -> length (users s') = length (users s) ->
  recipients_ok s -> recipients_ok s'.
Proof. unfold recipients_ok. intros -> -> ->. auto. Qed.

(* what a successful block leaves unchanged / non-negative *)
Lemma block_cfg t m c s s' x : 0 <= m -> 0 <= supply s -> block t m c s = Ok s' x ->
  0 <= supply s' /\ kd_periods s' = kd_periods s /\ kd_infra s' = kd_infra s.
Proof.
  intros Hm Hs HB. apply block_inv in HB. destruct HB as (s2 & pay & s3 & mm & ws & wsi & d & P & M & K & _).
  destruct (check_disable_frame t c s) as (C1 & C2).
  destruct (check_disable_cfg t c s) as (_ & _ & _ & C4 & _).
  apply payout_frame in P. destruct P as (_ & _ & _ & _ & _ & _ & _ & _ & P9 & P10 & P11 & _).
  unfold mint_bb in M. inversion M; subst s3 mm; clear M.
  destruct (kavadist_full_inv _ _ _ _ _ _ K) as (s4 & KB & GD & _).
  destruct (kavadist_minted _ _ _ _ _ KB) as (M1 & M2 & _ & M4 & _).
  destruct (dist_good_ledger _ _ _ GD) as (_ & DS).
  apply kavadist_full_frame in K. destruct K as (_ & _ & _ & _ & _ & _ & _ & _ & _ & _ & _ & K12 & K13 & _).
  cbn [set_bank supply kd_periods kd_infra] in *.
  split; [|split; congruence].
  rewrite DS, M4. cbn [supply set_bank]. rewrite P11, C1. destruct (m_max s2 =? 0); lia.
Qed.

(** * the begin blockers complete *)
Lemma block_total now t m c s :
  EInv (now, s) -> good_eblock (now, s) (t, m, c) -> exists s' x, block t m c s = Ok s' x.
Proof.
  intros (HT & HS & P1 & P2 & R) (Hn & Ht & Hm & Hc & Cov). pose proof HT as (HI & HL & HK).
  pose proof (check_disable_inv t c s HI Hc) as HI1.
  destruct (check_disable_last t c s) as (L1 & L2 & L3).
  destruct (check_disable_frame t c s) as (F1 & F2).
  destruct (check_disable_cfg t c s) as (G1 & G2 & G3 & G4 & G5).
  pose proof (check_disable_kdbal t c s) as KB0.
  unfold covered, pre_kd in Cov. unfold block.
  destruct (check_disable t c s) as [s1 fired] eqn:CD. cbn [fst] in *.
  destruct (payout t s1) as [s2 pay| |] eqn:P.
  - pose proof (payout_frame _ _ _ _ P) as (_ & _ & _ & _ & _ & _ & _ & Q8 & Q9 & Q10 & Q11 & Q12).
    pose proof (payout_cfg _ _ _ _ P) as (Q13 & Q14 & Q15).
    destruct (mint_bb m s2) as [s3 mm] eqn:M. unfold mint_bb in M. inversion M; subst s3 mm; clear M.
    set (s3 := set_bank s2 (pool s2) (sink s2 + (if m_max s2 =? 0 then 0 else m)) (kdbal s2)
                        (supply s2 + (if m_max s2 =? 0 then 0 else m))) in *.
    destruct (kavadist_full_no_panic t s3) as (s' & w & K).
    + subst s3. cbn [kd_prev set_bank]. rewrite Q8, L3. destruct HI as (_ & _ & _ & _ & _ & _ & H7 & _). lia.
    + subst s3. cbn [supply set_bank]. rewrite Q11, F1. destruct (m_max s2 =? 0); lia.
    + subst s3. cbn [kdbal set_bank]. rewrite Q12, KB0. destruct HI as (_ & _ & _ & _ & _ & _ & _ & _ & H9). lia.
    + subst s3. cbn [kd_periods set_bank]. rewrite Q9, F2. exact P1.
    + subst s3. cbn [kd_infra set_bank]. rewrite Q10, G4. exact P2.
    + apply (recipients_ok_frame s); [subst s3; cbn; congruence|subst s3; cbn; congruence|subst s3; cbn; congruence|exact R].
    + intros s4 ws wsi KB.
      replace (kd_infra s3) with (kd_infra s) by (subst s3; cbn; congruence).
      replace (kd_prev s3) with (kd_prev s) by (subst s3; cbn; congruence).
      replace (kd_partners s3) with (kd_partners s) by (subst s3; cbn; congruence).
      eapply Cov; [reflexivity|exact KB].
    + rewrite K. destruct w as [[ws wsi] d]. eexists; eexists; reflexivity.
  - exfalso. rewrite payout_eq in P by (try exact HI1; lia). cbv zeta in P. destruct (sr_last s1 =? 0); discriminate.
  - exfalso. rewrite payout_eq in P by (try exact HI1; lia). cbv zeta in P. destruct (sr_last s1 =? 0); discriminate.
Qed.

Lemma emissions_M_ok : module_ok emissions_M.
Proof.
  constructor; cbn [m_S m_B m_O m_bb m_tx m_eb m_Inv m_goodB m_goodT emissions_M].
  - intros [now s] [[t m] c] HI HG.
    destruct (block_total now t m c s HI HG) as (s' & x & E).
    exists (t, s'). unfold emissions_bb. cbn [snd]. rewrite E. split; [reflexivity|].
    destruct HI as (HT & HS & P1 & P2 & R). destruct HG as (Hn & Ht & Hm & Hc & _).
    destruct (block_facts now t m c s s' x HT (conj Hn (conj Ht (conj Hm Hc))) E) as (HT' & _).
    destruct (block_cfg t m c s s' x Hm HS E) as (S' & E1 & E2).
    destruct (step_ledger s (Block t m c) s' x E) as (_ & L2 & L3 & L4).
    cbn [EInv]. split; [exact HT'|]. split; [exact S'|]. rewrite E1, E2. split; [exact P1|]. split; [exact P2|].
    eapply recipients_ok_frame; eauto.
  - intros [now s] o [now' s'] u (HT & HS & P1 & P2 & R) _ E. unfold emissions_tx in E. cbn [fst snd] in E.
    destruct o as [t m c|d|r|b|? ? ? ? ?|? ? ?|? ? ?]; try discriminate.
    + destruct (step s (PoolAdj d)) as [s1 x| |] eqn:S; try discriminate. inversion E; subst now' s1; clear E.
      destruct (step_facts now s (PoolAdj d) s' x HT I S) as (HT' & _). cbn [clock] in HT'.
      cbn [step] in S. destruct (pool s + d <? 0); [discriminate|]. inversion S; subst s'; clear S.
      cbn [EInv]. split; [exact HT'|]. cbn. split; [exact HS|]. split; [exact P1|]. split; [exact P2|]. exact R.
    + destruct (step s (SetRate r)) as [s1 x| |] eqn:S; try discriminate. inversion E; subst now' s1; clear E.
      destruct (step_facts now s (SetRate r) s' x HT I S) as (HT' & _). cbn [clock] in HT'.
      cbn [step] in S. destruct (r <? 0); [discriminate|]. inversion S; subst s'; clear S.
      cbn [EInv]. split; [exact HT'|]. cbn. split; [exact HS|]. split; [exact P1|]. split; [exact P2|]. exact R.
    + destruct (step s (SetKdActive b)) as [s1 x| |] eqn:S; try discriminate. inversion E; subst now' s1; clear E.
      destruct (step_facts now s (SetKdActive b) s' x HT I S) as (HT' & _). cbn [clock] in HT'.
      cbn [step] in S. inversion S; subst s'; clear S.
      cbn [EInv]. split; [exact HT'|]. cbn. split; [exact HS|]. split; [exact P1|]. split; [exact P2|]. exact R.
  - intros s b HI. exists s. split; [reflexivity|exact HI].
Qed.

(* with no partner rewards configured the coverage guard is vacuous *)
Lemma covered_no_partners t m c s : kd_partners s = [] -> covered t m c s.
Proof.
  intros E s3 s4 ws wsi _ KB. rewrite E. cbn [map zsum fold_right].
  destruct (kavadist_minted _ _ _ _ _ KB) as (_ & M2 & _). lia.
Qed.

(** * non-vacuity (the distribution witness of C19): one ongoing infrastructure period, two partners, two core
      recipients; a block six seconds after the previous one pays the staking rewards, mints 19946955 ukava for
      the period and distributes it; a pool deposit; then a second block *)
Definition em_t0 : Z := 1704067200 * NS.
Definition em_s0 : state :=
  mk_state [em_t0; 0; 0; 0; 0; 1000000; 0; 500; 1100000000000000; 0; 0; 0; 1; em_t0; 7; 0]
           [] [mkPeriod (em_t0 - 86400 * NS) (em_t0 + 300 * 86400 * NS) 1000000003022265980]
           [mkPartner (RUser 0) 100; mkPartner RCommunity 50]
           [mkCore (RUser 1) 500000000000000000; mkCore RKavadist PREC].
Definition em_blks : list ((Z * Z * Z) * list op) :=
  [((em_t0 + 6 * NS, 0, 0), [PoolAdj 5]); ((em_t0 + 12 * NS, 3, 0), [])].

Definition good_eblock_b (cs : estate) (b : Z * Z * Z) : bool :=
  let '(now, s) := cs in let '(t, m, c) := b in
  (now <=? t) && (0 <? t) && (0 <=? m) && (0 <=? c)
  && match pre_kd t m c s with
     | Some s3 => match kavadist_bb t s3 with
                  | Ok _ (_, wsi) => infra_elapsed t (kd_infra s) (kd_prev s) 0 * zsum (map pr_rate (kd_partners s)) <=? minted wsi
                  | _ => true
                  end
     | None => true
     end.

Lemma good_eblock_b_ok cs b : good_eblock_b cs b = true -> good_eblock cs b.
Proof.
  destruct cs as [now s], b as [[t m] c]. unfold good_eblock_b, good_eblock.
  intros H. repeat (apply andb_prop in H; destruct H as [H ?]).
  repeat match goal with X : (_ <=? _) = true |- _ => apply Z.leb_le in X | X : (_ <? _) = true |- _ => apply Z.ltb_lt in X end.
  repeat (split; [assumption|]).
  intros s3 s4 ws wsi E1 E2. rewrite E1, E2 in *. apply Z.leb_le. assumption.
Qed.

Definition em_cs0 : estate := (em_t0, em_s0).

Example emissions_nonvacuous :
  m_Inv emissions_M em_cs0 /\ good_blocks emissions_M em_cs0 em_blks /\
  match run_blocksG emissions_M em_cs0 em_blks with
  | Some (now, s) => now = em_t0 + 12 * NS /\ users s = [607 + 600; 9973028 + 9973028] /\ pool s = 1000300 + 5 + 300
  | None => False
  end.
Proof.
  split; [|split].
  - unfold em_cs0. cbn [m_Inv emissions_M EInv]. split; [|split; [|split; [|split]]].
    + split; [apply inv_b_iff; vm_compute; reflexivity|]. split; vm_compute; discriminate.
    + vm_compute. discriminate.
    + exact I.
    + cbn. repeat split; vm_compute; discriminate.
    + split; repeat constructor; try (vm_compute; discriminate); try exact I.
  - apply (good_blocks_b_ok emissions_M good_eblock_b (fun _ _ => true)).
    + exact good_eblock_b_ok.
    + intros; exact I.
    + vm_compute. reflexivity.
  - vm_compute. repeat split; reflexivity.
Qed.

(* without [covered] the kavadist stage can halt the chain: C19_infra_shortfall_panics (Proofs/Emissions.v
   kavadist_full_shortfall_panics) is the refutation; it is not repeated here. *)
Print Assumptions emissions_M_ok.
