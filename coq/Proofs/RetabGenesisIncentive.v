(* The genesis correspondence checker of Model/GenesisIncentive.v ([gcheck_history] /
   [gmismatches]) evaluates RE-TABULATED model states ([retab] after every operation and
   every step).  This file proves it equal to the same checker without any re-tabulation
   ([gcheck_history_plain]: xstep / reimport / probe only), on top of Proofs/RetabIncentive.v:
   ExportGenesis reads in-range indexes only (so ≈ states export the SAME genesis state),
   InitGenesis keeps ≈, and the probe verdicts depend on the probed genesis state only.
   No functional extensionality is used. *)
From Kava Require Import Base.Prelude Base.Dec Model.Accumulator Model.Incentive Model.GenesisIncentive
  Proofs.RetabCommon Proofs.RetabIncentive.
Local Open Scope Z_scope.

Ltac ir := (assumption || lia).
Ltac rw1 :=
  match goal with
  | Hx : ext1 _ ?f _ |- context [?f ?i] => rewrite (Hx i) by ir
  | Hx : ext2 _ _ ?f _ |- context [?f ?i ?j] => rewrite (Hx i j) by ir
  | Hx : ext3 _ _ _ ?f _ |- context [?f ?i ?j ?k] => rewrite (Hx i j k) by ir
  end.
Ltac rw := repeat rw1.
Ltac open Q :=
  let Q' := fresh "Q" in
  pose proof Q as Q';
  destruct Q' as [Qnow Qgt Qgi Qtot Qsh Qhc Qui Qrew Qmacc Qbal Qint Qdue Qns Qcl Qem Qas Qdr Qov Qex].

Theorem export_genesis_steq e s s' : steq e s s' -> export_genesis e s = export_genesis e s'.
Proof.
  intros Q. open Q. unfold export_genesis. cbv zeta. f_equal.
  - apply flat_map_seq_ext. intros p Hp. rw. reflexivity.
  - apply map_seq_ext. intros p Hp. apply f_equal. apply map_seq_ext. intros d Hd. rw. reflexivity.
  - apply flat_map_seq_ext. intros u Hu. rw. destruct (has_claim s' u); [|reflexivity].
    apply (f_equal (fun x => [x])). f_equal.
    + apply flat_map_seq_ext. intros d Hd. rw. reflexivity.
    + apply map_seq_ext. intros p Hp. apply f_equal. apply map_seq_ext. intros d Hd. rw. reflexivity.
Qed.

Theorem init_genesis_steq e s s' g : steq e s s' ->
  orel (steq e) (init_genesis e s g) (init_genesis e s' g).
Proof.
  intros Q. open Q. unfold init_genesis.
  destruct (negb (validate_genesis g)); [exact I|].
  destruct (existsb _ _); [exact I|].
  cbn [orel]. constructor; cbn [now g_time g_idx tot sh has_claim u_idx rew macc bal integral due nsync claimed
                                emitted accslack drift overshare emitted_x]; try assumption.
  all: intros ? **; reflexivity.
Qed.

Theorem reimport_steq e s s' : steq e s s' -> orel (steq e) (reimport e s) (reimport e s').
Proof.
  intros Q. unfold reimport. rewrite (export_genesis_steq e s s' Q). apply init_genesis_steq, Q.
Qed.

Lemma orel_class_g {S} (R : S -> S -> Prop) r r' : orel R r r' -> class_of r = class_of r'.
Proof. destruct r, r'; cbn; intros H; try reflexivity; contradiction. Qed.

Theorem probe_steq e s s' g : steq e s s' -> probe e s g = probe e s' g.
Proof.
  intros Q. unfold probe. rewrite (orel_class_g _ _ _ (init_genesis_steq e s s' g Q)). reflexivity.
Qed.

(** * the plain genesis checker *)

Definition gapply_plain (xs : xstate) (k : gstepk) : outcome xstate unit :=
  match k with
  | GOps os => xstep_list_plain xs os
  | GReimport => match reimport (x_env xs) (x_st xs) with
                 | Ok s' _ => Ok (mkX (x_env xs) s') tt
                 | Err => Err
                 | Panic => Panic
                 end
  | GProbe _ _ => Ok xs tt
  end.

Fixpoint gfirst_mismatch_plain (xs : xstate) (shadow : list Z) (h : list (gstepk * obs)) (i : nat) : option nat :=
  match h with
  | [] => None
  | (k, ob) :: r =>
      let res := gapply_plain xs k in
      let xs1 := match res with Ok s1 _ => s1 | _ => xs end in
      let shadow' := apply_obs shadow ob in
      let extra := match k with GProbe g v => list_eqb Z.eqb (probe (x_env xs) (x_st xs) g) v | _ => true end in
      if extra
         && rclass_eqb (class_of res) (o_class ob)
         && list_eqb Z.eqb (project (x_env xs1) (x_st xs1)) shadow'
         && inv_b (x_env xs1) (x_st xs1)
      then gfirst_mismatch_plain xs1 shadow' r (S i)
      else Some i
  end.

Definition gcheck_history_plain (h : ghistory) : option nat :=
  let s0 := init (gh_t0 h) (nthZ (gh_macc h))
                 (fun p => let x := nth p (gh_gtime h) (-1) in if x <? 0 then None else Some x)
                 (nthZ (gh_tot h)) in
  if inv_b (gh_env h) s0 && list_eqb Z.eqb (project (gh_env h) s0) (gh_init h)
  then gfirst_mismatch_plain (mkX (gh_env h) s0) (gh_init h) (gh_steps h) 0
  else Some 0%nat.

Fixpoint gmismatches_plain_from (i : nat) (hs : list ghistory) : list (nat * nat) :=
  match hs with
  | [] => []
  | h :: r =>
      match gcheck_history_plain h with
      | None => gmismatches_plain_from (S i) r
      | Some k => (i, k) :: gmismatches_plain_from (S i) r
      end
  end.
Definition gmismatches_plain := gmismatches_plain_from 0.

Lemma gapply_xeq xs xs' k : xeq xs xs' -> orel xeq (gapply xs k) (gapply_plain xs' k).
Proof.
  intros X. destruct k as [os| |g v]; cbn [gapply gapply_plain].
  - apply xstep_list_xeq, X.
  - destruct X as [E Q]. rewrite <- E.
    pose proof (reimport_steq _ _ _ Q) as H.
    destruct (reimport (x_env xs) (x_st xs)), (reimport (x_env xs) (x_st xs')); cbn in H |- *;
      try contradiction; try exact I.
    split; [reflexivity|exact H].
  - exact X.
Qed.

Lemma gfirst_mismatch_retab_eq_plain h : forall xs xs' shadow i, xeq xs xs' ->
  gfirst_mismatch xs shadow h i = gfirst_mismatch_plain xs' shadow h i.
Proof.
  induction h as [|[k ob] h IH]; intros xs xs' shadow i X; cbn [gfirst_mismatch gfirst_mismatch_plain]; [reflexivity|].
  cbv zeta.
  pose proof (gapply_xeq xs xs' k X) as H.
  set (res := gapply xs k) in *. set (res' := gapply_plain xs' k) in *.
  assert (Hc : class_of res = class_of res') by (apply (orel_class_g xeq), H).
  set (xs1 := match res with Ok s1 _ => s1 | _ => xs end).
  set (xs1' := match res' with Ok s1 _ => s1 | _ => xs' end).
  assert (X1 : xeq xs1 xs1').
  { subst xs1 xs1'. destruct res, res'; cbn in H; try contradiction; assumption. }
  assert (X2 : xeq (mkX (x_env xs1) (retab (x_env xs1) (x_st xs1))) xs1')
    by (eapply xeq_trans; [apply xeq_retab|exact X1]).
  destruct X2 as [E2 Q2]. cbn [x_env x_st] in E2, Q2.
  assert (Hx : match k with GProbe g v => list_eqb Z.eqb (probe (x_env xs) (x_st xs) g) v | _ => true end
             = match k with GProbe g v => list_eqb Z.eqb (probe (x_env xs') (x_st xs') g) v | _ => true end).
  { destruct k as [os| |g v]; try reflexivity. destruct X as [E Q]. rewrite <- E.
    rewrite (probe_steq _ _ _ g Q). reflexivity. }
  rewrite Hx, Hc.
  rewrite (project_steq _ _ _ Q2), (inv_b_steq _ _ _ Q2), E2.
  destruct (_ && _ && _ && _)%bool; [|reflexivity].
  apply IH. rewrite E2 in Q2. split; cbn [x_env x_st]; [reflexivity|exact Q2].
Qed.

Theorem gcheck_history_retab_eq_plain h : gcheck_history h = gcheck_history_plain h.
Proof.
  unfold gcheck_history, gcheck_history_plain. cbv zeta.
  destruct (_ && _)%bool; [|reflexivity].
  apply gfirst_mismatch_retab_eq_plain, xeq_refl.
Qed.

Lemma gmismatches_from_retab_eq_plain hs : forall i, gmismatches_from i hs = gmismatches_plain_from i hs.
Proof.
  induction hs as [|h hs IH]; intros i; cbn [gmismatches_from gmismatches_plain_from]; [reflexivity|].
  rewrite gcheck_history_retab_eq_plain, !IH. reflexivity.
Qed.

Theorem gmismatches_retab_eq_plain hs : gmismatches hs = gmismatches_plain hs.
Proof. apply gmismatches_from_retab_eq_plain. Qed.

Print Assumptions gmismatches_retab_eq_plain.
