(* C04, total principal vs. sum of cdp debt: the arithmetic of one interest accumulation.
   All statements are about mantissas (integers scaled by PREC = 10^18). *)
From Kava Require Import Base.Prelude Base.Dec Model.Cdp.
From Coq Require Import ZifyBool.
Local Open Scope Z_scope.

(** * Exact products and quotients *)
Lemma chop_round_exact_z k : chop_round (k * PREC) = k.
Proof.
  destruct (Z_le_gt_dec 0 k) as [H|H]; [apply chop_round_exact, H|].
  pose proof PREC_pos as HP. pose proof (chop_round_exact (- k) ltac:(lia)) as E.
  unfold chop_round in *. destruct (Z.ltb_spec (k * PREC) 0); [|nia].
  destruct (Z.ltb_spec (- k * PREC) 0); [nia|]. replace (- (k * PREC)) with (- k * PREC) by ring. lia.
Qed.

Lemma dec_mul_of_int_z d q : dec_mul (dec_of_int d) q = d * q.
Proof.
  unfold dec_mul, dec_of_int. replace (d * PREC * q) with (d * q * PREC) by ring. apply chop_round_exact_z.
Qed.
Lemma dec_mul_of_int d q : 0 <= d -> 0 <= q -> dec_mul (dec_of_int d) q = d * q.
Proof.
  intros Hd Hq. unfold dec_mul, dec_of_int. replace (d * PREC * q) with (d * q * PREC) by ring.
  apply chop_round_exact. nia.
Qed.

Lemma dec_mul_of_int_r f d : 0 <= d -> 0 <= f -> dec_mul f (dec_of_int d) = f * d.
Proof.
  intros Hd Hq. unfold dec_mul, dec_of_int. replace (f * (d * PREC)) with (f * d * PREC) by ring.
  apply chop_round_exact. nia.
Qed.

Lemma dec_quo_self g : 0 < g -> dec_quo g g = PREC.
Proof.
  intros Hg. unfold dec_quo. replace (g * PREC * PREC) with (PREC * PREC * g) by ring.
  rewrite Z.quot_mul by lia. apply chop_round_exact. unfold PREC; lia.
Qed.

Lemma dec_quo_ge_one g f : 0 < f -> f <= g -> PREC <= dec_quo g f.
Proof.
  intros Hf Hg. rewrite <- (dec_quo_self f Hf) at 1. unfold dec_quo.
  apply chop_round_mono_nonneg. pose proof PREC_pos.
  rewrite !Z.quot_div_nonneg by nia. split.
  - apply Z.div_pos; nia.
  - apply Z.div_le_mono; nia.
Qed.

(* the quotient of two factors, as the code rounds it: |Q*F - G*PREC| <= F/2 + F/PREC *)
Lemma dec_quo_err g f : 0 <= g -> 0 < f ->
  2 * g * PREC * PREC - 2 * f - PREC * f < 2 * dec_quo g f * PREC * f <= 2 * g * PREC * PREC + PREC * f.
Proof.
  intros Hg Hf. pose proof (dec_quo_bounds g f Hg Hf) as B. cbv zeta in B.
  pose proof PREC_pos as HP.
  pose proof (Z.div_mod (g * PREC * PREC) f ltac:(lia)) as D.
  pose proof (Z.mod_pos_bound (g * PREC * PREC) f Hf) as M.
  set (t := g * PREC * PREC / f) in *. set (q := dec_quo g f) in *. nia.
Qed.

(** * One accumulation step, seen from one cdp *)
(* G: global factor before, G' = Mul(G, f) after; F: the cdp's factor; Q, Q' the two quotients.
   The new quotient is the old one times f up to 2f units of the last decimal. *)
Lemma quo_step P G F f G' Q Q' :
  0 < P -> P <= F -> 0 <= G -> P <= f -> 4 <= P ->
  2 * G * f - P <= 2 * G' * P <= 2 * G * f + P ->
  2 * G * P * P - 2 * F - P * F < 2 * Q * P * F <= 2 * G * P * P + P * F ->
  2 * G' * P * P - 2 * F - P * F < 2 * Q' * P * F <= 2 * G' * P * P + P * F ->
  - (2 * f) <= Q' * P - f * Q <= 2 * f.
Proof.
  intros HP HF HG Hf H4 HG' HQ HQ'.
  assert (U : 2 * P * F * (Q' * P - f * Q) <= (2 * P * P + 2 * f + f * P) * F).
  { replace (2 * P * F * (Q' * P - f * Q)) with (P * (2 * Q' * P * F) - f * (2 * Q * P * F)) by ring.
    assert (P * (2 * Q' * P * F) <= P * (2 * G' * P * P + P * F)) by (apply Z.mul_le_mono_nonneg_l; lia).
    assert (f * (2 * G * P * P - 2 * F - P * F) <= f * (2 * Q * P * F)) by (apply Z.mul_le_mono_nonneg_l; lia).
    assert (P * P * (2 * G' * P) <= P * P * (2 * G * f + P)) by (apply Z.mul_le_mono_nonneg_l; nia).
    assert (P * P * P <= P * P * F) by (apply Z.mul_le_mono_nonneg_l; nia).
    nia. }
  assert (L : - ((2 * P * P + 2 * f + f * P) * F) <= 2 * P * F * (Q' * P - f * Q)).
  { replace (2 * P * F * (Q' * P - f * Q)) with (P * (2 * Q' * P * F) - f * (2 * Q * P * F)) by ring.
    assert (P * (2 * G' * P * P - 2 * F - P * F) <= P * (2 * Q' * P * F)) by (apply Z.mul_le_mono_nonneg_l; lia).
    assert (f * (2 * Q * P * F) <= f * (2 * G * P * P + P * F)) by (apply Z.mul_le_mono_nonneg_l; lia).
    assert (P * P * (2 * G * f - P) <= P * P * (2 * G' * P)) by (apply Z.mul_le_mono_nonneg_l; nia).
    assert (P * P * P <= P * P * F) by (apply Z.mul_le_mono_nonneg_l; nia).
    nia. }
  assert (K : 2 * P * P + 2 * f + f * P <= 4 * f * P) by nia.
  set (X := Q' * P - f * Q) in *.
  assert (F0 : 0 < F) by lia.
  split.
  - assert (- (4 * f * P * F) <= 2 * P * F * X) by nia.
    assert (0 <= (2 * P * F) * (X + 2 * f)) by nia.
    assert (0 < 2 * P * F) by nia. nia.
  - assert (2 * P * F * X <= 4 * f * P * F) by nia.
    assert ((2 * P * F) * (X - 2 * f) <= 0) by nia.
    assert (0 < 2 * P * F) by nia. nia.
Qed.

(* the cdp's debt brought up to the new factor (y') is f times the debt brought up to the old
   factor (y), up to one rounding of each and 2f*d units of the last decimal *)
Lemma debt_step P d f Q Q' y y' :
  0 < P -> 0 <= d -> 0 <= f ->
  - (2 * f) <= Q' * P - f * Q <= 2 * f ->
  2 * (d * Q) - P <= 2 * (y * P) <= 2 * (d * Q) + P ->
  2 * (d * Q') - P <= 2 * (y' * P) <= 2 * (d * Q') + P ->
  - (4 * f * d + P * P + f * P) <= 2 * (y' * P * P - f * y * P) <= 4 * f * d + P * P + f * P.
Proof.
  intros HP Hd Hf HX Hy Hy'.
  replace (2 * (y' * P * P - f * y * P)) with (P * (2 * (y' * P)) - f * (2 * (y * P))) by ring.
  assert (A1 : P * (2 * (y' * P)) <= P * (2 * (d * Q') + P)) by (apply Z.mul_le_mono_nonneg_l; lia).
  assert (A2 : P * (2 * (d * Q') - P) <= P * (2 * (y' * P))) by (apply Z.mul_le_mono_nonneg_l; lia).
  assert (A3 : f * (2 * (y * P)) <= f * (2 * (d * Q) + P)) by (apply Z.mul_le_mono_nonneg_l; lia).
  assert (A4 : f * (2 * (d * Q) - P) <= f * (2 * (y * P))) by (apply Z.mul_le_mono_nonneg_l; lia).
  assert (A5 : d * (Q' * P - f * Q) <= d * (2 * f)) by (apply Z.mul_le_mono_nonneg_l; lia).
  assert (A6 : d * (- (2 * f)) <= d * (Q' * P - f * Q)) by (apply Z.mul_le_mono_nonneg_l; lia).
  split; nia.
Qed.

(** * The type-level step *)
(* T, S: total principal and sum of synchronised debt before; T' = RoundInt(f*T); S' after, with the
   per-cdp errors summed (n live cdps, sd = sum of their stored debt).  If the drift was at most
   G*N/P, it is at most G'*N'/P with N' = N + n + 1 + (4 sd + N)/P. *)
Lemma drift_step P G G' f T T' S S' N n sd :
  4 <= P -> P <= G -> P <= f -> 0 <= N -> 0 <= n -> 0 <= sd -> 0 <= T ->
  2 * G * f - P <= 2 * G' * P <= 2 * G * f + P ->
  2 * (f * T) - P <= 2 * (T' * P) <= 2 * (f * T) + P ->
  - (4 * f * sd + (P * P + f * P) * n) <= 2 * (S' * P * P - f * S * P) <= 4 * f * sd + (P * P + f * P) * n ->
  - (G * N) <= (T - S) * P <= G * N ->
  let N' := N + n + 1 + (4 * sd + N) / P in
  - (G' * N') <= (T' - S') * P <= G' * N'.
Proof.
  intros H4 HG Hf HN Hn Hsd HT HG' HT' HS HD N'.
  assert (HP : 0 < P) by lia.
  pose proof (Z.div_mod (4 * sd + N) P ltac:(lia)) as D.
  pose proof (Z.mod_pos_bound (4 * sd + N) P HP) as M.
  set (q := (4 * sd + N) / P) in *.
  assert (Hq : 0 <= q) by (apply Z.div_pos; lia).
  assert (G'f : f <= G').
  { assert (2 * P * f - P <= 2 * G' * P) by nia. assert (P * (2 * f - 1) <= P * (2 * G')) by lia.
    assert (2 * f - 1 <= 2 * G') by nia. lia. }
  assert (G'P : P <= G') by lia.
  (* everything times 2*P *)
  assert (E1 : 2 * P * ((T' - S') * P) = P * (2 * (T' * P)) - 2 * (S' * P * P)) by ring.
  assert (B1 : P * (2 * (T' * P)) <= P * (2 * (f * T) + P)) by (apply Z.mul_le_mono_nonneg_l; lia).
  assert (B2 : P * (2 * (f * T) - P) <= P * (2 * (T' * P))) by (apply Z.mul_le_mono_nonneg_l; lia).
  assert (B3 : f * ((T - S) * P) <= f * (G * N)) by (apply Z.mul_le_mono_nonneg_l; lia).
  assert (B4 : f * (- (G * N)) <= f * ((T - S) * P)) by (apply Z.mul_le_mono_nonneg_l; lia).
  assert (B5 : N * (2 * G * f) <= N * (2 * G' * P + P)) by (apply Z.mul_le_mono_nonneg_l; lia).
  (* 2*P*(T'-S')*P = 2 f P (T - S) + [P(2T'P) - 2fTP] - [2S'PP - 2fSP] *)
  assert (U : 2 * P * ((T' - S') * P) <= 2 * G' * P * N + P * N + P * P + 4 * f * sd + (P * P + f * P) * n) by nia.
  assert (L : - (2 * G' * P * N + P * N + P * P + 4 * f * sd + (P * P + f * P) * n) <= 2 * P * ((T' - S') * P)) by nia.
  assert (C1 : P * N <= G' * N) by (apply Z.mul_le_mono_nonneg_r; lia).
  assert (C2 : P * P <= G' * P) by (apply Z.mul_le_mono_nonneg_r; lia).
  assert (C3 : 4 * f * sd <= 4 * G' * sd) by nia.
  assert (C4 : (P * P + f * P) * n <= 2 * G' * P * n) by nia.
  assert (C5 : G' * N + G' * P + 4 * G' * sd + 2 * G' * P * n <= 2 * G' * P * (n + 1 + q)).
  { assert (G' * (N + P + 4 * sd + 2 * P * n) <= G' * (2 * P * (n + 1 + q))) by (apply Z.mul_le_mono_nonneg_l; nia). nia. }
  assert (R : 2 * G' * P * N + P * N + P * P + 4 * f * sd + (P * P + f * P) * n <= 2 * P * (G' * N')).
  { unfold N'. fold q. nia. }
  split.
  - assert (2 * P * (- (G' * N')) <= 2 * P * ((T' - S') * P)) by lia. nia.
  - assert (2 * P * ((T' - S') * P) <= 2 * P * (G' * N')) by lia. nia.
Qed.

(** * The interest factor of a stability fee >= 1 is >= 1 *)
Lemma half_up_ge b x z : 0 < b -> b <= x -> b <= z -> b <= (z * x + b / 2) / b.
Proof.
  intros Hb Hx Hz. apply Z.div_le_lower_bound; [lia|].
  assert (0 <= b / 2) by (apply Z.div_pos; lia). nia.
Qed.

Lemma rel_pow_fuel_ge b : 0 < b -> forall fuel x n z, b <= x -> b <= z -> b <= rel_pow_fuel fuel x n b z.
Proof.
  intros Hb. induction fuel as [|k IH]; intros x n z Hx Hz; cbn [rel_pow_fuel]; [exact Hz|].
  destruct (n / 2 =? 0); [exact Hz|]. apply IH.
  - apply half_up_ge; assumption.
  - destruct (_ =? 0); [exact Hz|]. apply half_up_ge; [exact Hb| |exact Hz]. apply half_up_ge; assumption.
Qed.

Lemma interest_factor_ge rate secs : PREC <= rate -> PREC <= interest_factor rate secs.
Proof.
  intros Hr. unfold interest_factor, rel_pow. pose proof PREC_pos.
  destruct (Z.eqb_spec rate 0); [lia|].
  apply rel_pow_fuel_ge; [lia|exact Hr|]. destruct (_ =? 0); lia.
Qed.

(* Mul(G, f) > G when f > 1 and G >= 1 *)
Lemma dec_mul_grows G f : PREC <= G -> PREC < f -> G < dec_mul G f.
Proof.
  intros HG Hf. pose proof (dec_mul_bounds G f) as B. pose proof PREC_pos.
  assert (G * (PREC + 1) <= G * f) by (apply Z.mul_le_mono_nonneg_l; lia). nia.
Qed.

Lemma dec_mul_ge G f : PREC <= G -> PREC <= f -> G <= dec_mul G f.
Proof.
  intros HG Hf. pose proof (dec_mul_bounds G f) as B. pose proof PREC_pos.
  assert (G * PREC <= G * f) by (apply Z.mul_le_mono_nonneg_l; lia). nia.
Qed.

(** * Base units and the debt ratio key *)
Lemma to_base_eq x cf : to_base x cf = x * 10 ^ (18 - cf).
Proof. unfold to_base, dec_with_prec. rewrite Z.mul_1_l. apply dec_mul_of_int_z. Qed.

Lemma dec_quo_antimono a b b' : 0 <= a -> 0 < b -> b <= b' -> dec_quo a b' <= dec_quo a b.
Proof.
  intros Ha Hb Hbb. unfold dec_quo. pose proof PREC_pos. apply chop_round_mono_nonneg.
  rewrite !Z.quot_div_nonneg by nia. split; [apply Z.div_pos; nia|].
  apply Z.div_le_compat_l; nia.
Qed.

(* a larger debt (same collateral) never raises the index key, as long as the debt in base units stays sortable *)
Lemma rkey_c2d_mono coll cfc debt debt' cfd :
  0 <= coll -> 0 <= debt -> debt <= debt' -> (debt = 0 -> debt' = 0) -> to_base debt' cfd < MAXS ->
  rkey (c2d_ratio coll cfc debt' cfd) <= rkey (c2d_ratio coll cfc debt cfd).
Proof.
  intros Hc Hd Hdd Hz Hr. unfold rkey. apply Z.min_le_compat_r. unfold c2d_ratio.
  rewrite !to_base_eq in *. assert (Hm : 0 <= 10 ^ (18 - cfd)) by (apply Z.pow_nonneg; lia).
  assert (Hmc : 0 <= 10 ^ (18 - cfc)) by (apply Z.pow_nonneg; lia).
  set (m := 10 ^ (18 - cfd)) in *. set (mc := 10 ^ (18 - cfc)) in *.
  assert (debt * m <= debt' * m) by nia.
  destruct (Z.eqb_spec (debt * m) 0) as [E0|N0]; cbn [orb].
  - assert (debt' * m = 0) by nia. destruct (Z.eqb_spec (debt' * m) 0); [cbn [orb]; lia|contradiction].
  - destruct (Z.leb_spec MAXS (debt * m)); [lia|].
    destruct (Z.eqb_spec (debt' * m) 0); [nia|]. destruct (Z.leb_spec MAXS (debt' * m)); [lia|]. cbn [orb].
    apply dec_quo_antimono; nia.
Qed.
