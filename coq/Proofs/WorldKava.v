(* C02: the Kava modules composed — one component per module model, in the order of
   app.mm.SetOrderBeginBlockers (Kava's own modules only; Model/WorldOrder.v holds the full order and is
   compared with app/app.go on every run).

   IMPORTANT — what this composition is and is not.  The components stand SIDE BY SIDE: the product state
   is the tuple of the component states, each component has its own abstract bank (its own balances and
   supplies), a block input is the tuple of the component inputs (times, prices, oracle values), and a
   transaction addresses exactly one component.  Calls from one module into another are inside the caller's
   model where the caller's property needs them (cdp -> auction start, hard -> auction start, earn -> hard,
   liquid -> staking) and appear to the callee as its own operations (auction: Start*Auction with the callers'
   guarantees as the operation guard).  What is NOT proved compositionally: the coupling of the modules through
   the ONE shared x/bank and through hooks (incentive hooks of cdp/hard/swap/earn/savings, auction closing
   paying debt back to cdp, pricefeed prices read by cdp and hard).  That coupling is observed, not proved:
   the C02 driver runs PRNG multi-module histories through the real BeginBlock / DeliverTx / EndBlock / Commit
   and evaluates every crisis invariant route after every block.

   Modules of which nothing is modelled keep their place in the order as empty components ([mempty]):
     metrics           BeginBlocker sets a telemetry gauge, no state
     issuance          AppModule.BeginBlock is an empty function in this tree (abci.go's BeginBlocker is never called)
     validator-vesting empty BeginBlock/EndBlock
     router            empty BeginBlock/EndBlock
   End blockers: only x/pricefeed has a non-empty EndBlock among Kava's modules, so in this side-by-side product
   the order in which end blockers run is immaterial; the product runs them in list order. *)
From Coq Require Import String.
From Kava Require Import Base.Prelude Model.World Model.WorldG Model.WorldOrder Proofs.WorldG.
From Kava Require Model.Committee Model.Auction Model.Cdp Model.Bep3 Model.Hard Model.Incentive Model.Swap
  Model.Pricefeed Model.Evmutil Model.Savings Model.Staking Model.Liquid Model.Earn Model.Precisebank.
From Kava Require Proofs.Auction Proofs.Bep3 Proofs.Incentive Proofs.Evmutil Proofs.Savings Proofs.Liquid Proofs.Earn
  Proofs.Precisebank.
From Kava Require Proofs.WorldCommittee Proofs.WorldEmissions Proofs.WorldAuction Proofs.WorldCdpLive Proofs.WorldCdp
  Proofs.WorldBep3 Proofs.WorldHard Proofs.WorldIncentive Proofs.WorldSwap Proofs.WorldPricefeed Proofs.WorldEvmutil
  Proofs.WorldSavings Proofs.WorldLiquid Proofs.WorldEarn Proofs.WorldPrecisebank.
Local Open Scope string_scope.

(* the parameterisation of the chain: one environment per component *)
Record kava_env := mkKavaEnv {
  ke_committee : list Model.Committee.slot;
  ke_auction : Model.Auction.env;
  ke_cdp : Model.Cdp.env;
  ke_bep3 : Model.Bep3.env;
  ke_hard : Model.Hard.env;
  ke_incentive : Model.Incentive.env;
  ke_swap : Model.Swap.env;
  ke_pricefeed : Model.Pricefeed.env;
  ke_evmutil : Model.Evmutil.env;
  ke_savings : Model.Savings.senv;
  ke_liquid : Model.Staking.env;
  ke_earn : Model.Earn.env;
  ke_precisebank : Model.Precisebank.env
}.

(* the hypotheses on the parameterisation (each is explained in the component's file) *)
Record kava_env_ok (E : kava_env) : Prop := mkKavaEnvOk {
  ok_auction : WorldAuction.env_ok (ke_auction E);
  ok_cdp : WorldCdpLive.env_ok (ke_cdp E);
  ok_cdp_dom : WorldCdp.env_dom (ke_cdp E);
  ok_bep3 : Proofs.Bep3.env_wf (ke_bep3 E);
  ok_incentive : Proofs.Incentive.env_wf (ke_incentive E);
  ok_evmutil : Proofs.Evmutil.env_wf (ke_evmutil E);
  ok_savings : Proofs.Savings.senv_wf (ke_savings E);
  ok_liquid : Proofs.Liquid.env_wf (ke_liquid E);
  ok_earn : Proofs.Earn.env_wf (ke_earn E);
  ok_precisebank : Proofs.Precisebank.env_wf (ke_precisebank E)
}.

(* the components, in begin-blocker order *)
Definition kava_components (E : kava_env) : list module :=
  [ mempty "metrics";
    WorldCommittee.committee_M (ke_committee E);
    WorldEmissions.emissions_M;                       (* community ; (mint) ; kavadist *)
    WorldAuction.auction_M (ke_auction E);
    WorldCdp.cdp_M (ke_cdp E);
    WorldBep3.bep3_M (ke_bep3 E);
    WorldHard.hard_M (ke_hard E);
    mempty "issuance";
    WorldIncentive.incentive_M (ke_incentive E);
    WorldSwap.swap_M (ke_swap E);
    WorldPricefeed.pricefeed_M (ke_pricefeed E);
    mempty "validator-vesting";
    WorldEvmutil.evmutil_M (ke_evmutil E);
    WorldSavings.savings_M (ke_savings E);
    WorldLiquid.liquid_M (ke_liquid E);
    WorldEarn.earn_M (ke_earn E);
    mempty "router";
    WorldPrecisebank.precisebank_M (ke_precisebank E) ].

Definition kava_chain (E : kava_env) : module := mcompose (kava_components E).

Lemma kava_components_ok E : kava_env_ok E -> all_ok (kava_components E).
Proof.
  intros H. unfold kava_components.
  repeat apply all_ok_cons; try apply all_ok_nil; try apply mempty_ok.
  - apply WorldCommittee.committee_M_ok.
  - apply WorldEmissions.emissions_M_ok.
  - apply WorldAuction.auction_M_ok. exact (ok_auction E H).
  - apply WorldCdp.cdp_M_ok; [exact (ok_cdp E H)|exact (ok_cdp_dom E H)].
  - apply WorldBep3.bep3_M_ok. exact (ok_bep3 E H).
  - apply WorldHard.hard_M_ok.
  - apply WorldIncentive.incentive_M_ok. exact (ok_incentive E H).
  - apply WorldSwap.swap_M_ok.
  - apply WorldPricefeed.pricefeed_M_ok.
  - apply WorldEvmutil.evmutil_M_ok. exact (ok_evmutil E H).
  - apply WorldSavings.savings_M_ok. exact (ok_savings E H).
  - apply WorldLiquid.liquid_M_ok. exact (ok_liquid E H).
  - apply WorldEarn.earn_M_ok. exact (ok_earn E H).
  - apply WorldPrecisebank.precisebank_M_ok. exact (ok_precisebank E H).
Qed.

Theorem kava_chain_ok E : kava_env_ok E -> module_ok (kava_chain E).
Proof. intros H. apply mcompose_ok. apply kava_components_ok. exact H. Qed.

(* the composed chain never halts and every component invariant holds at every height *)
Theorem kava_modules_never_halt E : kava_env_ok E ->
  forall blks s, m_Inv (kava_chain E) s -> good_blocks (kava_chain E) s blks ->
  exists s', run_blocksG (kava_chain E) s blks = Some s' /\ m_Inv (kava_chain E) s'.
Proof. intros H. apply module_never_halts. apply kava_chain_ok. exact H. Qed.

(** * the order of the product is the order of the app *)

(* the module names of the product, in the order its begin blockers run, are exactly the Kava modules of
   app.mm.SetOrderBeginBlockers, in source order *)
Theorem product_order_is_kava_subsequence E : m_names (kava_chain E) = kava_begin_order.
Proof. unfold kava_chain. rewrite mcompose_names. vm_compute. reflexivity. Qed.

(* the component that models community ; mint ; kavadist as one sequence relies on that relative order *)
Theorem emissions_order_in_app :
  match pos_of "community" begin_blocker_order 0, pos_of "mint" begin_blocker_order 0, pos_of "kavadist" begin_blocker_order 0 with
  | Some a, Some b, Some c => Nat.ltb a b && Nat.ltb b c = true
  | _, _, _ => False
  end.
Proof. vm_compute. reflexivity. Qed.

(* same modules in the end-blocker list (an end blocker of a module missing there would never run) *)
Theorem end_order_same_kava_modules :
  forall name, In name kava_begin_order <-> In name kava_end_order.
Proof.
  assert (H : forallb (fun n => existsb (String.eqb n) kava_end_order) kava_begin_order = true /\
              forallb (fun n => existsb (String.eqb n) kava_begin_order) kava_end_order = true)
    by (split; vm_compute; reflexivity).
  destruct H as [H1 H2]. rewrite forallb_forall in H1, H2.
  intros name. split; intros Hin.
  - specialize (H1 _ Hin). apply existsb_exists in H1. destruct H1 as (x & Hx & E). apply String.eqb_eq in E. subst. exact Hx.
  - specialize (H2 _ Hin). apply existsb_exists in H2. destruct H2 as (x & Hx & E). apply String.eqb_eq in E. subst. exact Hx.
Qed.

(** * non-vacuity of the composed statement: a concrete parameterisation satisfying [kava_env_ok] and a concrete
      product state satisfying the product invariant (the witness states of the component files) *)
Definition kava_e0 : kava_env :=
  mkKavaEnv Model.Committee.std_slots WorldAuction.rf_env WorldCdp.n_env WorldBep3.bep3_e0 WorldHard.hw_env
            WorldIncentive.inc_e0 WorldSwap.swap_e0 WorldPricefeed.pf_e0 WorldEvmutil.evm_e0 WorldSavings.sav_e0
            WorldLiquid.liq_e0 WorldEarn.earn_e0 WorldPrecisebank.pb_e0.

Definition committee_s0 : Model.Committee.state :=
  Model.Committee.mkState [Model.Json.JNull; Model.Json.JNull] [] [] [] 1 [0; 0; 0]%Z 0%Z 0%Z 2%Z 0%Z [0; 0; 0; 0]%Z.

Definition kava_s0 : m_S (kava_chain kava_e0) :=
  (tt, (committee_s0, (WorldEmissions.em_cs0, (WorldAuction.rf_init, (WorldCdp.n_s0, (WorldBep3.bep3_s0,
  (WorldHard.hw_init, (tt, (WorldIncentive.inc_s0, (WorldSwap.swap_s0, (WorldPricefeed.pf_s0, (tt,
  (WorldEvmutil.evm_s0, (WorldSavings.sav_s0, (WorldLiquid.liq_s0, (WorldEarn.earn_s0, (tt,
  (WorldPrecisebank.pb_s0, tt)))))))))))))))))).

Example kava_chain_nonvacuous : kava_env_ok kava_e0 /\ m_Inv (kava_chain kava_e0) kava_s0.
Proof.
  split.
  - constructor; cbn [kava_e0 ke_auction ke_cdp ke_bep3 ke_incentive ke_evmutil ke_savings ke_liquid ke_earn ke_precisebank].
    + exact WorldAuction.env_ok_rf.
    + exact (proj1 WorldCdp.cdp_env_hypotheses_satisfiable).
    + exact (proj1 (proj2 WorldCdp.cdp_env_hypotheses_satisfiable)).
    + exact (proj1 WorldBep3.bep3_nonvacuous).
    + exact (proj1 WorldIncentive.incentive_nonvacuous).
    + exact (proj1 WorldEvmutil.evmutil_nonvacuous).
    + exact (proj1 WorldSavings.savings_nonvacuous).
    + exact (proj1 WorldLiquid.liquid_nonvacuous).
    + exact (proj1 WorldEarn.earn_nonvacuous).
    + exact (proj1 WorldPrecisebank.precisebank_nonvacuous).
  - unfold kava_chain, kava_components, kava_s0.
    cbn [mcompose fold_right mprod m_Inv fst snd mempty].
    refine (conj I (conj _ (conj _ (conj _ (conj _ (conj _ (conj _ (conj I (conj _ (conj _ (conj _ (conj I
           (conj _ (conj _ (conj _ (conj _ (conj I (conj _ I)))))))))))))))))).
    + split; [repeat constructor|constructor].
    + exact (proj1 WorldEmissions.emissions_nonvacuous).
    + exact WorldAuction.rf_init_W.
    + exact (proj2 (proj2 WorldCdp.cdp_env_hypotheses_satisfiable)).
    + exact (proj1 (proj2 WorldBep3.bep3_nonvacuous)).
    + exact (proj1 WorldHard.hard_nonvacuous).
    + exact (proj1 (proj2 WorldIncentive.incentive_nonvacuous)).
    + exact (proj1 WorldSwap.swap_nonvacuous).
    + exact (proj1 WorldPricefeed.pricefeed_nonvacuous).
    + exact (proj1 (proj2 WorldEvmutil.evmutil_nonvacuous)).
    + exact (proj1 (proj2 WorldSavings.savings_nonvacuous)).
    + exact (proj1 (proj2 WorldLiquid.liquid_nonvacuous)).
    + exact (proj1 (proj2 WorldEarn.earn_nonvacuous)).
    + exact (proj1 (proj2 WorldPrecisebank.precisebank_nonvacuous)).
Qed.

Print Assumptions kava_modules_never_halt.
Print Assumptions product_order_is_kava_subsequence.
