(* C04, total principal vs. sum of cdp debt: the begin blocker.
   AccumulateInterest is the only place where the drift can grow; the bulk synchronisation and the
   liquidation pass keep it (the cdps seized by LiquidateCdps are among those just synchronised). *)
From Kava Require Import Base.Prelude Base.Dec Model.Cdp Proofs.CdpRatio Proofs.Cdp Proofs.CdpInv Proofs.CdpInv2
  Proofs.CdpInv3 Proofs.CdpCust Proofs.CdpOwn Proofs.CdpTotalA Proofs.CdpTotalI.
From Coq Require Import Sorting.Sorted.
Local Open Scope Z_scope.

(* the drift is at most N units of the current interest factor *)
Definition DInv (s : state) (t : nat) (N : Z) : Prop :=
  - (gfac s t * N) <= drift s t * PREC <= gfac s t * N.
(* every cdp of the type was last touched strictly before the current block time *)
Definition upd_lt (s : state) (t : nat) : Prop := forall id c, cdps s t id = Some c -> c_upd c < now s.
Definition fees_ok (e : env) : Prop := forall t cp, get_cp e t = Some cp -> PREC <= cp_fee cp.
(* what an accumulation adds to the count *)
Definition bump_of (s : state) (t : nat) (N : Z) : Z := live s t + 1 + (4 * sdebt s t + N) / PREC.

(* the data of one collateral type *)
Definition tview_eq (s s' : state) (t : nat) : Prop :=
  (forall id, cdps s' t id = cdps s t id) /\ tprin s' t = tprin s t /\ gfac s' t = gfac s t /\
  ptime s' t = ptime s t /\ now s' = now s /\ nextid s' = nextid s.

Lemma tview_refl s t : tview_eq s s t. Proof. repeat split. Qed.
Lemma tview_trans s1 s2 s3 t : tview_eq s1 s2 t -> tview_eq s2 s3 t -> tview_eq s1 s3 t.
Proof.
  intros (a&b&c&d&f&g) (a'&b'&c'&d'&f'&g'). split; [intros id; rewrite a', a; reflexivity|]. repeat split; congruence.
Qed.

Lemma tview_sums s s' t : tview_eq s s' t ->
  ssum s' t = ssum s t /\ sdebt s' t = sdebt s t /\ live s' t = live s t /\ drift s' t = drift s t.
Proof.
  intros (a&b&c&d&f&g).
  assert (A : ssum s' t = ssum s t) by (unfold ssum; rewrite g; apply sumN_ext; intros i _; unfold syn; rewrite a, c; reflexivity).
  split; [exact A|]. split; [|split].
  - unfold sdebt. rewrite g. apply sumN_ext. intros i _. unfold debt_of. rewrite a. reflexivity.
  - unfold live. rewrite g. apply sumN_ext. intros i _. unfold one_of. rewrite a. reflexivity.
  - unfold drift. rewrite A, b. reflexivity.
Qed.

Lemma tview_DInv s s' t N : tview_eq s s' t -> DInv s t N -> DInv s' t N.
Proof.
  intros V H. destruct (tview_sums _ _ _ V) as (_ & _ & _ & D). destruct V as (_&_&c&_). unfold DInv in *. rewrite D, c. exact H.
Qed.

Lemma sdebt_nonneg s t : FInv s -> 0 <= sdebt s t.
Proof.
  intros HF. apply sumN_nonneg. intros i _. unfold debt_of. destruct (cdps s t i) as [c|] eqn:E; [|lia].
  apply (cdp_ok_debt s t c), (HF _ _ _ E).
Qed.
Lemma live_nonneg s t : 0 <= live s t.
Proof. apply sumN_nonneg. intros i _. unfold one_of. destruct (cdps s t i); lia. Qed.
Lemma bump_of_nonneg s t N : FInv s -> 0 <= N -> 0 <= bump_of s t N.
Proof.
  intros HF HN. unfold bump_of. pose proof (live_nonneg s t). pose proof (sdebt_nonneg s t HF).
  assert (0 <= (4 * sdebt s t + N) / PREC) by (apply Z.div_pos; [lia|reflexivity]). lia.
Qed.

(** * AccumulateInterest *)
Lemma sumN_add n f g : sumN n (fun i => f i + g i) = sumN n f + sumN n g.
Proof. induction n as [|n IH]; cbn [sumN]; [reflexivity|]. rewrite IH. lia. Qed.
Lemma sumN_scale n k f : sumN n (fun i => k * f i) = k * sumN n f.
Proof. induction n as [|n IH]; cbn [sumN]; [lia|]. rewrite IH. lia. Qed.

(* summing the per-cdp comparison of debt_step *)
Lemma sum_step n (y y' d l : nat -> Z) f P :
  (forall i, (i < n)%nat ->
     - (4 * f * d i + (P * P + f * P) * l i) <= 2 * (y' i * P * P - f * y i * P) <= 4 * f * d i + (P * P + f * P) * l i) ->
  - (4 * f * sumN n d + (P * P + f * P) * sumN n l) <= 2 * (sumN n y' * P * P - f * sumN n y * P)
    <= 4 * f * sumN n d + (P * P + f * P) * sumN n l.
Proof.
  induction n as [|n IH]; intros H; cbn [sumN]; [lia|].
  assert (A := IH ltac:(intros; apply H; lia)). assert (B := H n ltac:(lia)). nia.
Qed.

Lemma cdp_acc_step G G' f c :
  PREC <= G -> PREC <= f -> PREC <= c_ifac c -> 0 <= cdp_debt c ->
  2 * G * f - PREC <= 2 * G' * PREC <= 2 * G * f + PREC ->
  - (4 * f * cdp_debt c + (PREC * PREC + f * PREC) * 1) <= 2 * (debt_at G' c * PREC * PREC - f * debt_at G c * PREC)
    <= 4 * f * cdp_debt c + (PREC * PREC + f * PREC) * 1.
Proof.
  intros HG Hf HF Hd HG'. pose proof PREC_pos as HP.
  assert (HG0 : 0 <= G') by nia.
  pose proof (dec_quo_err G (c_ifac c) ltac:(lia) ltac:(lia)) as Q.
  pose proof (dec_quo_err G' (c_ifac c) HG0 ltac:(lia)) as Q'.
  pose proof (quo_step PREC G (c_ifac c) f G' _ _ HP HF ltac:(lia) Hf ltac:(unfold PREC; lia) HG' Q Q') as X.
  unfold debt_at.
  pose proof (chop_round_bounds (cdp_debt c * dec_quo G (c_ifac c))) as Y.
  pose proof (chop_round_bounds (cdp_debt c * dec_quo G' (c_ifac c))) as Y'.
  pose proof (debt_step PREC (cdp_debt c) f _ _ _ _ HP Hd ltac:(lia) X Y Y'). lia.
Qed.

Definition acc_frame (s s' : state) (t : nat) : Prop :=
  cdps s' = cdps s /\ ridx s' = ridx s /\ nextid s' = nextid s /\ now s' = now s /\
  forall t', t' <> t -> tprin s' t' = tprin s t' /\ gfac s' t' = gfac s t' /\ ptime s' t' = ptime s t'.

Lemma acc_frame_tview s s' t t' : acc_frame s s' t -> t' <> t -> tview_eq s s' t'.
Proof.
  intros (a&b&c&d&f) N. destruct (f t' N) as (x&y&z). repeat split; try assumption. intros id. rewrite a. reflexivity.
Qed.

(* the accrual time of the type is set to the block time, nothing else that matters moves *)
Lemma touch_ptime s s' t :
  PInv s -> upd_lt s t ->
  cdps s' = cdps s -> ridx s' = ridx s -> tprin s' = tprin s -> nextid s' = nextid s -> now s' = now s ->
  (forall t', gfac s' t' = gfac s t') -> ptime s' = upd (ptime s) t (Some (now s)) ->
  PInv s' /\ acc_frame s s' t /\ gfac s' t = gfac s t /\ drift s' t = drift s t.
Proof.
  intros (HF & HT & HR) Hu a b c d f g h.
  assert (Hss : forall t', ssum s' t' = ssum s t').
  { intros t'. unfold ssum. rewrite d. apply sumN_ext. intros i _. unfold syn. rewrite a, g. reflexivity. }
  split; [split; [|split]|split; [|split]].
  - intros t' id c0 Hc. rewrite a in Hc. pose proof (HF _ _ _ Hc) as (x1&x2&x3&x4&x5).
    unfold cdp_ok. rewrite g, f, h. split; [exact x1|split; [exact x2|split; [exact x3|split; [exact x4|]]]]. unfold upd.
    destruct (Nat.eqb_spec t' t) as [->|]; [|exact x5].
    destruct x5 as [x5|x5]; [left; exact x5|]. right. exists (now s). split; [reflexivity|]. eapply Hu, Hc.
  - intros t'. rewrite g, f, h. split; [apply HT|]. intros p. unfold upd. destruct (Nat.eqb_spec t' t).
    + intros E; inversion E; lia.
    + apply HT.
  - apply (RS_eq s); assumption.
  - repeat split; try assumption; [rewrite c; reflexivity|apply g|]. rewrite h. unfold upd. destruct (Nat.eqb_spec t' t); [contradiction|reflexivity].
  - apply g.
  - unfold drift. rewrite Hss, c. reflexivity.
Qed.

Lemma accumulate_eff e s t cp N :
  PInv s -> upd_lt s t -> PREC <= cp_fee cp -> 0 <= N -> DInv s t N ->
  let s' := accumulate_interest e s t cp in
  PInv s' /\ acc_frame s s' t /\
  ((gfac s' t = gfac s t /\ drift s' t = drift s t) \/
   (gfac s' t <> gfac s t /\ DInv s' t (N + bump_of s t N))).
Proof.
  intros HP Hu Hfee HN HD. pose proof HP as (HF & HT & HR). cbv zeta. unfold accumulate_interest.
  assert (Hsame : PInv s /\ acc_frame s s t /\ (gfac s t = gfac s t /\ drift s t = drift s t \/ gfac s t <> gfac s t /\ DInv s t (N + bump_of s t N))).
  { split; [exact HP|]. split; [repeat split|left; split; reflexivity]. }
  assert (Htouch : forall s', cdps s' = cdps s -> ridx s' = ridx s -> tprin s' = tprin s -> nextid s' = nextid s -> now s' = now s ->
     (forall t', gfac s' t' = gfac s t') -> ptime s' = upd (ptime s) t (Some (now s)) ->
     PInv s' /\ acc_frame s s' t /\ (gfac s' t = gfac s t /\ drift s' t = drift s t \/ gfac s' t <> gfac s t /\ DInv s' t (N + bump_of s t N))).
  { intros s' a b c d f g h. destruct (touch_ptime s s' t HP Hu a b c d f g h) as (x1&x2&x3&x4). split; [exact x1|]. split; [exact x2|]. left. split; assumption. }
  destruct (ptime s t) as [prev|] eqn:Ep; [|apply Htouch; reflexivity].
  destruct (round_secs (now s - prev) =? 0); [exact Hsame|].
  destruct (Z.leb_spec (tprin s t) 0) as [|Htp]; [apply Htouch; reflexivity|].
  destruct (ifac s t) as [G|] eqn:Ei.
  2:{ apply Htouch; try reflexivity. intros t'. unfold gfac. cbn. unfold upd. destruct (Nat.eqb_spec t' t) as [->|]; [rewrite Ei|]; reflexivity. }
  destruct (Z.eqb_spec (cp_fee cp) PREC); [apply Htouch; reflexivity|]. cbv zeta.
  set (f := interest_factor (cp_fee cp) (round_secs (now s - prev))).
  set (T := tprin s t) in *.
  destruct (Z.eqb_spec (dec_round_int (dec_mul f (dec_of_int T)) - T) 0) as [|Hacc]; [exact Hsame|].
  set (acc := dec_round_int (dec_mul f (dec_of_int T)) - T) in *.
  pose proof PREC_pos as HPp.
  assert (Hf : PREC <= f) by (apply interest_factor_ge, Hfee).
  assert (EG : gfac s t = G) by (unfold gfac; rewrite Ei; reflexivity).
  assert (HG : PREC <= G) by (rewrite <- EG; apply HT).
  assert (HT' : T + acc = chop_round (f * T)).
  { unfold acc, dec_round_int. rewrite dec_mul_of_int_r by lia. lia. }
  assert (Hf1 : PREC < f).
  { destruct (Z.eq_dec f PREC) as [E|]; [|lia]. exfalso. apply Hacc. unfold acc, dec_round_int. rewrite dec_mul_of_int_r by lia.
    rewrite E. replace (PREC * T) with (T * PREC) by ring. rewrite chop_round_exact by lia. lia. }
  set (G' := dec_mul G f).
  assert (HGG : G < G') by (apply dec_mul_grows; assumption).
  set (s1 := b_mint s (CDPM e) (d_debt e) acc). set (s2 := b_mint s1 (LIQM e) (d_usdx e) acc).
  assert (P2 : pv_eq s s2) by (unfold s2, s1; pv_chain).
  destruct P2 as (a & b & c & d & f2 & g & h).
  set (s' := set_ptime _ _).
  assert (A1 : cdps s' = cdps s) by (cbn; exact a).
  assert (A2 : ridx s' = ridx s) by (cbn; exact b).
  assert (A3 : nextid s' = nextid s) by (cbn; exact h).
  assert (A4 : now s' = now s) by (cbn; exact g).
  assert (A5 : forall t', gfac s' t' = if Nat.eqb t' t then G' else gfac s t').
  { intros t'. unfold gfac. cbn. unfold upd. destruct (Nat.eqb t' t); [reflexivity|rewrite d; reflexivity]. }
  assert (A6 : forall t', ptime s' t' = if Nat.eqb t' t then Some (now s) else ptime s t').
  { intros t'. cbn. unfold upd. rewrite f2. reflexivity. }
  assert (A7 : forall t', tprin s' t' = if Nat.eqb t' t then T + acc else tprin s t').
  { intros t'. cbn. unfold upd. rewrite c. reflexivity. }
  assert (Hfr : acc_frame s s' t).
  { repeat split; try assumption; [rewrite A7|rewrite A5|rewrite A6]; destruct (Nat.eqb_spec t' t); try contradiction; reflexivity. }
  split; [split; [|split]|split; [exact Hfr|right; split]].
  - (* FInv *)
    intros t' id c0 Hc. rewrite A1 in Hc. pose proof (HF _ _ _ Hc) as (x1&x2&[x3 x3']&x4&x5).
    unfold cdp_ok. rewrite A5, A4, A6. destruct (Nat.eqb_spec t' t) as [->|]; [|splits; assumption].
    splits; try assumption; try lia. right. exists (now s). split; [reflexivity|]. eapply Hu, Hc.
  - intros t'. rewrite A5, A4, A6. destruct (Nat.eqb_spec t' t) as [->|]; [|apply HT].
    split; [lia|]. intros p E; inversion E; lia.
  - apply (RS_eq s); assumption.
  - rewrite A5, Nat.eqb_refl, EG. lia.
  - (* the drift after the accumulation *)
    unfold DInv, drift. rewrite A7, A5, Nat.eqb_refl.
    assert (HS' : ssum s' t = sumN (nextid s) (fun id => match cdps s t id with Some c0 => debt_at G' c0 | None => 0 end)).
    { unfold ssum. rewrite A3. apply sumN_ext. intros i _. unfold syn. rewrite A1, A5, Nat.eqb_refl. reflexivity. }
    assert (HS : ssum s t = sumN (nextid s) (fun id => match cdps s t id with Some c0 => debt_at G c0 | None => 0 end)).
    { unfold ssum. apply sumN_ext. intros i _. unfold syn. rewrite EG. reflexivity. }
    pose proof (dec_mul_bounds G f) as BG. fold G' in BG.
    assert (Bsum := sum_step (nextid s)
       (fun id => match cdps s t id with Some c0 => debt_at G c0 | None => 0 end)
       (fun id => match cdps s t id with Some c0 => debt_at G' c0 | None => 0 end)
       (debt_of s t) (one_of s t) f PREC).
    cbv beta in Bsum. rewrite <- HS, <- HS' in Bsum.
    assert (Bs : - (4 * f * sdebt s t + (PREC * PREC + f * PREC) * live s t) <= 2 * (ssum s' t * PREC * PREC - f * ssum s t * PREC)
                 <= 4 * f * sdebt s t + (PREC * PREC + f * PREC) * live s t).
    { apply Bsum. intros i _. unfold debt_of, one_of. destruct (cdps s t i) as [c0|] eqn:E0; [|lia].
      pose proof (HF _ _ _ E0) as Hok. destruct (cdp_ok_debt _ _ _ Hok) as [Hd0 _]. destruct Hok as (_&_&[x3 _]&_).
      apply cdp_acc_step; try assumption; lia. }
    pose proof (chop_round_bounds (f * T)) as BT. rewrite <- HT' in BT.
    unfold DInv, drift in HD. rewrite EG in HD. fold T in HD.
    pose proof (drift_step PREC G G' f T (T + acc) (ssum s t) (ssum s' t) N (live s t) (sdebt s t)
      ltac:(unfold PREC; lia) HG Hf HN (live_nonneg s t) (sdebt_nonneg s t HF) ltac:(lia) ltac:(lia) BT Bs HD) as R.
    cbv zeta in R. unfold bump_of. replace (N + (live s t + 1 + (4 * sdebt s t + N) / PREC)) with (N + live s t + 1 + (4 * sdebt s t + N) / PREC) by ring.
    exact R.
Qed.

(** * SynchronizeInterestForRiskyCDPs *)
(* one iteration: the cdp is brought to the global factor; its collateral and principal are kept *)
Lemma sync_risky_one_eff e cp t gf prev s id s' u :
  key_ok s -> PInv s -> (id < nextid s)%nat -> ifac s t = Some gf -> ptime s t = Some prev ->
  sync_risky_one e cp t gf prev s id = Ok s' u ->
  exists c c', cdps s t id = Some c /\
    OpEff s s' /\ same_g s s' /\ tprin s' = tprin s /\ rep s s' t id (Some c') /\
    c_coll c' = c_coll c /\ cdp_debt c' = debt_at gf c /\ c_ifac c' = gf /\ (forall t0, drift s' t0 = drift s t0) /\
    ifac s' = ifac s.
Proof.
  intros Hk HP Hlt Ei Ep. pose proof HP as (HF & HT & HR). unfold sync_risky_one.
  destruct (cdps s t id) as [c|] eqn:Hst; [|discriminate].
  destruct (Hk _ _ _ Hst) as [Hty Hid].
  pose proof (HF _ _ _ Hst) as Hok. pose proof Hok as (Hp & Hf & [HF1 HF2] & Hu & Hfr).
  destruct (cdp_ok_debt _ _ _ Hok) as [Hd HF0].
  assert (EG : gfac s t = gf) by (unfold gfac; rewrite Ei; reflexivity). rewrite EG in *.
  pose proof (new_interest_eq gf (c_ifac c) (cdp_debt c) Hd) as Hni.
  assert (Hacc : 0 <= new_interest gf (c_ifac c) (cdp_debt c)).
  { assert (cdp_debt c <= debt_at gf c) by (apply debt_at_ge; assumption). unfold debt_at in *. lia. }
  pose proof (proj2 (HT t) prev Ep) as Hprev.
  (* the common tail: a state s' that replaces the record by c', with everything else in place *)
  assert (Tail : forall c', ifac s' = ifac s -> same_g s s' -> tprin s' = tprin s -> rep s s' t id (Some c') -> RS s' ->
     c_prin c' = c_prin c -> c_fees c' = c_fees c + new_interest gf (c_ifac c) (cdp_debt c) -> c_ifac c' = gf -> c_upd c' <= now s ->
     c_coll c' = c_coll c ->
     exists c0 c1, Some c = Some c0 /\ OpEff s s' /\ same_g s s' /\ tprin s' = tprin s /\ rep s s' t id (Some c1) /\
       c_coll c1 = c_coll c0 /\ cdp_debt c1 = debt_at gf c0 /\ c_ifac c1 = gf /\ (forall t0, drift s' t0 = drift s t0) /\ ifac s' = ifac s).
  { intros c' EI G T R S e1 e2 e3 e4 e5. exists c, c'.
    assert (Hok' : cdp_ok s t c') by (unfold cdp_ok; rewrite e1, e2, e3, EG; splits; try lia; left; reflexivity).
    assert (Hdb : cdp_debt c' = debt_at gf c) by (unfold debt_at, cdp_debt in *; rewrite e1, e2; lia).
    assert (Hdl : oc_at (gfac s t) (Some c') - syn s t id = 0).
    { unfold oc_at, syn. rewrite Hst. rewrite (fresh_debt s t c' Hok') by (rewrite EG; exact e3). rewrite Hdb, EG. lia. }
    assert (E : OpEff s s').
    { eapply (eff_replace s s' t id (Some c') (tprin s t)); [exact HP|exact Hlt|exact G|exact R|exact S| | |].
      - intros c0 E0; inversion E0; subst; exact Hok'.
      - split; [rewrite T; reflexivity|intros t' _; rewrite T; reflexivity].
      - cbv zeta. left. lia. }
    splits; try assumption; try reflexivity.
    intros t0. unfold drift. rewrite T, (ssum_rep _ _ _ _ _ G R Hlt t0). destruct (Nat.eqb t0 t); lia. }
  destruct (Z.eqb_spec (new_interest gf (c_ifac c) (cdp_debt c)) 0) as [Ez|Nz]; cbn [andb].
  - destruct (Z.eqb_spec (c_upd c) prev) as [Eu|Nu].
    + intros H; inversion H; subst s'.
      assert (c_ifac c = gf) by (destruct Hfr as [|(p & Hp0 & Hlt0)]; [assumption|rewrite Ep in Hp0; inversion Hp0; lia]).
      apply (Tail c); try reflexivity; try lia; try apply same_g_refl; try assumption.
      rewrite <- Hst. apply rep_self.
    + intros H; inversion H; subst s'; clear H.
      set (c0 := with_fees c (c_fees c) prev (c_ifac c)).
      set (c2 := with_fees c0 (c_fees c0 + new_interest gf (c_ifac c) (cdp_debt c)) prev gf).
      apply (Tail c2); try reflexivity; try exact Hprev.
      * apply same_g_eq; reflexivity.
      * intros t' id'. cbn. unfold upd2. rewrite Hty, Hid.
        destruct (Nat.eqb t' t && Nat.eqb id' id); reflexivity.
      * apply RS_ins. apply (RS_eq (ridx_del (put_cdp s c0) t (cdp_ratio e cp c0) id)); [reflexivity|]. apply RS_del.
        apply (RS_eq s); [reflexivity|exact HR].
  - intros H; inversion H; subst s'; clear H.
    set (c2 := with_fees c (c_fees c + new_interest gf (c_ifac c) (cdp_debt c)) prev gf).
    apply (Tail c2); try reflexivity; try exact Hprev.
    + apply same_g_eq; reflexivity.
    + intros t' id'. cbn. unfold upd2. rewrite Hty, Hid. reflexivity.
    + apply RS_ins. apply (RS_eq (ridx_del s t (cdp_ratio e cp c) id)); [reflexivity|]. apply RS_del. exact HR.
Qed.

Lemma sync_fold_spec e cp t gf prev : forall l s s' u,
  NoDup l -> IdxInv e s -> get_cp e t = Some cp -> PInv s -> (forall id, In id l -> (id < nextid s)%nat) ->
  ifac s t = Some gf -> ptime s t = Some prev ->
  ofold (sync_risky_one e cp t gf prev) s l = Ok s' u ->
  OpEff s s' /\ same_g s s' /\ tprin s' = tprin s /\ (forall t0, drift s' t0 = drift s t0) /\
  (forall t' id, t' <> t \/ ~ In id l -> cdps s' t' id = cdps s t' id) /\
  (forall id, In id l -> exists c c', cdps s t id = Some c /\ cdps s' t id = Some c' /\
      c_coll c' = c_coll c /\ cdp_debt c' = debt_at gf c /\ c_ifac c' = gf).
Proof.
  induction l as [|id tl IH]; intros s s' u Hnd HI Hcp HP Hlt Ei Ep H; cbn [ofold] in H.
  - inversion H; subst s'. splits; try reflexivity; try apply same_g_refl.
    + split; [exact HP|]. split; [repeat split|]. intros t0. lia.
    + intros id [].
  - destruct (sync_risky_one e cp t gf prev s id) as [s1 []| |] eqn:E1; try discriminate.
    inversion Hnd as [|? ? Hni Hnt]; subst.
    pose proof (sync_risky_one_IdxInv _ _ _ _ _ _ _ _ _ HI Hcp E1) as HI1.
    apply sync_risky_one_eff in E1; [|exact (proj1 HI)|exact HP|apply Hlt; left; reflexivity|exact Ei|exact Ep].
    destruct E1 as (c & c' & Hst & E1 & G1 & T1 & R1 & Hco & Hdb & Hif & D1 & I1).
    pose proof E1 as (HP1 & _ & _).
    apply IH in H; try assumption.
    2:{ intros id0 Hin. destruct G1 as (_&_&_&n1). rewrite n1. apply Hlt. right; exact Hin. }
    2:{ rewrite I1. exact Ei. }
    2:{ destruct G1 as (_&p1&_). rewrite p1. exact Ep. }
    destruct H as (E2 & G2 & T2 & D2 & O2 & S2).
    split; [eapply OpEff_trans; eassumption|]. split; [eapply same_g_trans; eassumption|].
    split; [congruence|]. split; [intros t0; rewrite D2, D1; reflexivity|]. split.
    + intros t' id0 Hor. rewrite O2.
      * apply (rep_other _ _ _ _ _ t' id0 R1). intros Eq; inversion Eq; subst. destruct Hor as [N|N]; [contradiction|]. apply N. left; reflexivity.
      * destruct Hor as [N|N]; [left; exact N|right]. intros Hin. apply N. right; exact Hin.
    + intros id0 [<-|Hin].
      * exists c, c'. split; [exact Hst|]. split; [|auto]. rewrite O2 by (right; exact Hni). apply (rep_get _ _ _ _ _ R1).
      * destruct (S2 id0 Hin) as (c0 & c0' & A & B & C). exists c0, c0'. split; [|split; [exact B|exact C]].
        rewrite <- A. symmetry. apply (rep_other _ _ _ _ _ t id0 R1). intros Eq; inversion Eq; subst. contradiction.
Qed.

(** * The cdps read by LiquidateCdps are among those just synchronised *)
Lemma ent_lt_fst a b : ent_lt a b -> fst a <= fst b.
Proof.
  unfold ent_lt, ent_ltb. destruct (Z.ltb_spec (fst a) (fst b)); [lia|]. destruct (Z.eqb_spec (fst a) (fst b)); [lia|discriminate].
Qed.
Lemma ent_lt_asym a b : ent_lt a b -> ent_ltb b a = false.
Proof.
  intros H. destruct (ent_ltb b a) eqn:E; [|reflexivity]. exfalso. apply (ent_lt_irrefl a). eapply ent_lt_trans; [exact H|exact E].
Qed.

(* an element outside the scanned prefix: either the scan took its full count, or the element is at or above the target *)
Lemma idx_below_rest tg : forall n l, StronglySorted ent_lt l ->
  forall y, In y l -> ~ In y (idx_below tg n l) -> length (idx_below tg n l) = n \/ tg <= fst y.
Proof.
  induction n as [|n IH]; intros l Hs y Hy Hn; [left; destruct l; reflexivity|].
  destruct l as [|h tl]; [contradiction|]. inversion Hs as [|? ? Htl Hall]; subst. cbn [idx_below] in *.
  destruct (Z.ltb_spec (fst h) tg).
  - destruct Hy as [->|Hy]; [exfalso; apply Hn; left; reflexivity|].
    destruct (IH tl Htl y Hy) as [E|E]; [intros Hin; apply Hn; right; exact Hin|left; cbn; rewrite E; reflexivity|right; exact E].
  - right. destruct Hy as [->|Hy]; [lia|]. rewrite Forall_forall in Hall. apply Hall, ent_lt_fst in Hy. lia.
Qed.

Lemma filter_lt_nil h l : (forall x, In x l -> ent_lt h x) -> filter (fun z => ent_ltb z h) l = [].
Proof.
  induction l as [|z r IH]; intros H; [reflexivity|]. cbn [filter].
  rewrite (ent_lt_asym h z) by (apply H; left; reflexivity). apply IH. intros x Hx. apply H. right; exact Hx.
Qed.

(* rank of a scanned element: fewer than n elements of the list are below it *)
Lemma idx_below_rank tg : forall n l, StronglySorted ent_lt l ->
  forall y, In y (idx_below tg n l) -> (length (filter (fun z => ent_ltb z y) l) < n)%nat.
Proof.
  induction n as [|n IH]; intros l Hs y Hy; [destruct l; contradiction|].
  destruct l as [|h tl]; [contradiction|]. inversion Hs as [|? ? Htl Hall]; subst. cbn [idx_below] in Hy.
  destruct (Z.ltb_spec (fst h) tg); [|contradiction]. rewrite Forall_forall in Hall.
  destruct Hy as [<-|Hy].
  - assert (E : filter (fun z => ent_ltb z h) (h :: tl) = []).
    { cbn [filter]. destruct (ent_ltb h h) eqn:Eh; [exfalso; apply (ent_lt_irrefl h); exact Eh|].
      apply filter_lt_nil. exact Hall. }
    rewrite E. cbn. lia.
  - assert (Hh : ent_ltb h y = true) by (apply Hall; eapply idx_below_in; exact Hy).
    cbn [filter]. rewrite Hh. cbn [length]. apply IH in Hy; [lia|exact Htl].
Qed.

Lemma sorted_app_lt l1 : forall l2, StronglySorted ent_lt (l1 ++ l2) -> forall a b, In a l1 -> In b l2 -> ent_lt a b.
Proof.
  induction l1 as [|h tl IH]; intros l2 Hs a b Ha Hb; [contradiction|].
  cbn in Hs. inversion Hs as [|? ? Htl Hall]; subst. destruct Ha as [<-|Ha].
  - rewrite Forall_forall in Hall. apply Hall, in_or_app. right; exact Hb.
  - eapply IH; eassumption.
Qed.

Lemma ent_le_lt k' k i y : k' <= k -> ent_lt (k, i) y -> ent_ltb (k', i) y = true.
Proof.
  destruct y as [r j]. unfold ent_lt, ent_ltb. cbn [fst snd]. intros Hle H.
  destruct (Z.ltb_spec k r), (Z.eqb_spec k r), (Z.ltb_spec k' r), (Z.eqb_spec k' r); cbn in *; try lia; try discriminate; auto.
Qed.

Lemma ridx_ids_nodup e s t cp : IdxInv e s -> get_cp e t = Some cp -> NoDup (map snd (ridx s t)).
Proof.
  intros (Hk & Hr & _) Hcp. destruct (Hr t cp Hcp) as [Hnd Hin].
  apply nodup_map_snd; [exact Hnd|]. intros a a' b H1 H2. apply Hin in H1. apply Hin in H2.
  destruct H1 as (c1 & G1 & ->). destruct H2 as (c2 & G2 & ->). congruence.
Qed.

Lemma sync_risky_fresh e s t cp s4 u :
  IdxInv e s -> PInv s -> get_cp e t = Some cp ->
  (forall id c, cdps s t id = Some c -> 0 <= c_coll c) ->
  (forall id c, cdps s t id = Some c -> to_base (debt_at (gfac s t) c) (dp_cf e) < MAXS) ->
  sync_risky e s t cp = Ok s4 u ->
  OpEff s s4 /\ same_g s s4 /\ tprin s4 = tprin s /\ (forall t0, drift s4 t0 = drift s t0) /\
  (forall t' id, t' <> t -> cdps s4 t' id = cdps s t' id) /\
  forall tg, tg <= MAXS -> forall x, In x (idx_below tg (scan_count cp) (ridx s4 t)) ->
    exists c, cdps s4 t (snd x) = Some c /\ c_ifac c = gfac s4 t.
Proof.
  intros HI HP Hcp Hcoll Hrange H. pose proof HP as (HF & HT & HR).
  pose proof (sync_risky_IdxInv _ _ _ _ _ _ HI Hcp H) as HI4.
  unfold sync_risky in H.
  destruct (ptime s t) as [prev|] eqn:Ep; [|discriminate].
  set (n := scan_count cp) in *. set (L := ridx s t) in *. set (P := idx_below MAXS n L) in *.
  destruct (ifac s t) as [gf|] eqn:Ei.
  2:{ (* no interest factor stored: every cdp of the type is at factor one *)
    assert (s4 = s) by (destruct (map snd P); [inversion H; reflexivity|discriminate]). subst s4.
    splits; try reflexivity; try apply same_g_refl.
    - split; [exact HP|]. split; [repeat split|]. intros t0. lia.
    - intros tg _ x Hx. apply idx_below_in in Hx. destruct HI as (Hk & Hr & _). destruct (Hr t cp Hcp) as [_ Hin].
      destruct x as [r id]. apply Hin in Hx. destruct Hx as (c & Hc & _). exists c. split; [exact Hc|].
      pose proof (HF _ _ _ Hc) as (_&_&[A B]&_). unfold gfac in *. rewrite Ei in *. lia. }
  assert (EG : gfac s t = gf) by (unfold gfac; rewrite Ei; reflexivity).
  destruct (idx_below_prefix MAXS n L) as (R & HLR). fold P in HLR.
  pose proof (ridx_ids_nodup e s t cp HI Hcp) as HndL. fold L in HndL.
  assert (HndP : NoDup (map snd P)) by (rewrite HLR, map_app in HndL; eapply nodup_app_l; exact HndL).
  pose proof HI as (Hk & Hr & Hi). destruct (Hr t cp Hcp) as [HndL0 HinL]. fold L in HndL0, HinL.
  assert (HltP : forall id, In id (map snd P) -> (id < nextid s)%nat).
  { intros id Hin. apply in_map_iff in Hin. destruct Hin as ([r id0] & E & Hin). cbn in E. subst id0.
    apply idx_below_in in Hin. apply HinL in Hin. destruct Hin as (c & Hc & _). eapply Hi, Hc. }
  apply sync_fold_spec in H; try assumption.
  destruct H as (E4 & G4 & T4 & D4 & O4 & S4).
  split; [exact E4|]. split; [exact G4|]. split; [exact T4|]. split; [exact D4|].
  split; [intros t' id N; apply O4; left; exact N|].
  intros tg Htg [r id] Hx. cbn [snd].
  pose proof E4 as ((_ & _ & HR4) & _ & _).
  pose proof HI4 as (Hk4 & Hr4 & Hi4). destruct (Hr4 t cp Hcp) as [HndL4 HinL4].
  pose proof (idx_below_in _ _ _ _ Hx) as HxL4. pose proof (idx_below_lt _ _ _ _ Hx) as Hxlt. cbn [fst] in Hxlt.
  apply HinL4 in HxL4. destruct HxL4 as (c4 & Hc4 & Hr4eq).
  exists c4. split; [exact Hc4|].
  assert (EG4 : gfac s4 t = gf) by (rewrite (proj1 G4); exact EG). rewrite EG4.
  destruct (in_dec Nat.eq_dec id (map snd P)) as [Hin|Hnin].
  { destruct (S4 id Hin) as (c & c' & A & B & _ & _ & C). congruence. }
  exfalso.
  (* the entry is an old one, outside the scanned prefix *)
  assert (Hold : cdps s t id = Some c4) by (rewrite <- Hc4; symmetry; apply O4; right; exact Hnin).
  assert (HyL : In (r, id) L) by (apply HinL; exists c4; split; [exact Hold|exact Hr4eq]).
  assert (HyP : ~ In (r, id) P) by (intros HinP; apply Hnin; apply in_map_iff; exists (r, id); split; [reflexivity|exact HinP]).
  destruct (idx_below_rest MAXS n L (HR t) (r, id) HyL HyP) as [Hlen|Hge]; [|cbn [fst] in Hge; lia].
  fold P in Hlen.
  assert (HyR : In (r, id) R) by (rewrite HLR in HyL; apply in_app_or in HyL; destruct HyL; [contradiction|assumption]).
  (* every scanned entry has, after the synchronisation, an entry that is not larger *)
  set (nk := fun i => match cdps s4 t i with Some c => rkey (cdp_ratio e cp c) | None => 0 end).
  set (Z := map (fun p : Z * nat => (nk (snd p), snd p)) P).
  assert (HZ : forall z, In z Z -> In z (filter (fun z0 => ent_ltb z0 (r, id)) (ridx s4 t))).
  { intros z Hz. apply in_map_iff in Hz. destruct Hz as ([k i] & <- & HinP). cbn [snd].
    assert (Hi_in : In i (map snd P)) by (apply in_map_iff; exists (k, i); split; [reflexivity|exact HinP]).
    destruct (S4 i Hi_in) as (c & c' & A & B & Cc & Cd & Cf).
    assert (Hk_eq : k = rkey (cdp_ratio e cp c)).
    { apply idx_below_in in HinP. apply HinL in HinP. destruct HinP as (c0 & A0 & ->). congruence. }
    assert (Hnk : nk i = rkey (cdp_ratio e cp c')) by (unfold nk; rewrite B; reflexivity).
    apply filter_In. split.
    - apply HinL4. exists c'. split; [exact B|exact Hnk].
    - (* (nk i, i) <= (k, i) < (r, id) *)
      assert (Hlt0 : ent_lt (k, i) (r, id)) by (apply (sorted_app_lt P R); [rewrite <- HLR; apply HR|exact HinP|exact HyR]).
      assert (Hle : nk i <= k).
      { rewrite Hnk, Hk_eq. unfold cdp_ratio. rewrite Cc, Cd.
        pose proof (HF _ _ _ A) as Hok. destruct (cdp_ok_debt _ _ _ Hok) as [Hd0 Hf0]. destruct Hok as (_&_&[F1 F2]&_).
        apply rkey_c2d_mono.
        - eapply Hcoll, A.
        - exact Hd0.
        - apply debt_at_ge; [exact Hf0|rewrite <- EG; exact F2|exact Hd0].
        - intros E0. unfold debt_at. rewrite E0. reflexivity.
        - rewrite <- EG. eapply Hrange, A. }
      exact (ent_le_lt _ _ _ _ Hle Hlt0). }
  assert (HndZ : NoDup Z).
  { apply (NoDup_map_inv snd). unfold Z. rewrite map_map. cbn [snd]. exact HndP. }
  pose proof (NoDup_incl_length HndZ HZ) as Hlen2.
  assert (Hlz : length Z = n) by (unfold Z; rewrite map_length; exact Hlen).
  pose proof (idx_below_rank tg n (ridx s4 t) (HR4 t) (r, id) Hx). lia.
Qed.

(** * LiquidateCdps on synchronised cdps *)
Definition oid (o : option cdp) : nat := match o with Some c => c_id c | None => O end.

Lemma liq_fold_eff e cp t p : forall l s s' u,
  PInv s ->
  (forall c, In (Some c) l -> c_type c = t /\ cdps s t (c_id c) = Some c /\ c_ifac c = gfac s t /\ (c_id c < nextid s)%nat) ->
  NoDup (map oid l) ->
  ofold (liq_step e cp p) s l = Ok s' u ->
  OpEff s s' /\ same_g s s' /\ (forall t' id, t' <> t -> cdps s' t' id = cdps s t' id) /\
  (forall t', t' <> t -> tprin s' t' = tprin s t').
Proof.
  induction l as [|o tl IH]; intros s s' u HP Hst Hnd H; cbn [ofold] in H.
  - inversion H; subst. splits; try reflexivity; try apply same_g_refl.
    split; [exact HP|]. split; [repeat split|]. intros t0; lia.
  - destruct o as [c|]; [|discriminate]. unfold liq_step in H at 1.
    cbn [map] in Hnd. apply NoDup_cons_iff in Hnd. destruct Hnd as [Hni Hnt].
    destruct (confirm_below e cp p c).
    2:{ cbv beta iota in H. eapply IH; [exact HP| |exact Hnt|exact H]. intros c' Hin. apply Hst. right; exact Hin. }
    destruct (seize e s cp c) as [s1 []| |] eqn:E; try discriminate.
    destruct (Hst c (or_introl eq_refl)) as (Hty & Hc & Hfr & Hlt).
    pose proof (seize_pv _ _ _ _ _ _ E) as (G1 & R1 & _ & T1).
    apply seize_eff in E; [|exact HP|exact Hlt|rewrite Hty; exact Hc|rewrite Hty; exact Hfr].
    pose proof E as (HP1 & _ & _).
    apply IH in H; [|exact HP1| |exact Hnt].
    + destruct H as (E2 & G2 & O2 & T2). split; [eapply OpEff_trans; eassumption|]. split; [eapply same_g_trans; eassumption|]. split.
      * intros t' id N. rewrite O2 by exact N. apply (rep_other _ _ _ _ _ t' id R1). intros Eq; inversion Eq; subst. apply N. reflexivity.
      * intros t' N. rewrite T2 by exact N. apply (proj2 T1). rewrite Hty. exact N.
    + intros c' Hin. destruct (Hst c' (or_intror Hin)) as (Hty' & Hc' & Hfr' & Hlt'). split; [exact Hty'|].
      destruct G1 as (g1 & _ & _ & n1). rewrite g1, n1. split; [|split; assumption].
      rewrite <- Hc'. apply (rep_other _ _ _ _ _ t (c_id c') R1). intros Eq; inversion Eq as [[E1 E2]].
      apply Hni. apply in_map_iff. exists (Some c'). split; [cbn; exact E2|exact Hin].
Qed.

Lemma liquidate_cdps_eff e s t cp s' u :
  IdxInv e s -> PInv s -> get_cp e t = Some cp ->
  (forall tg, tg <= MAXS -> forall x, In x (idx_below tg (scan_count cp) (ridx s t)) ->
     exists c, cdps s t (snd x) = Some c /\ c_ifac c = gfac s t) ->
  liquidate_cdps e s t cp = Ok s' u ->
  OpEff s s' /\ same_g s s' /\ (forall t' id, t' <> t -> cdps s' t' id = cdps s t' id) /\
  (forall t', t' <> t -> tprin s' t' = tprin s t').
Proof.
  intros HI HP Hcp Hfresh. unfold liquidate_cdps.
  destruct (price s (cp_liqm cp) =? 0).
  { intros H; inversion H; subst. splits; try reflexivity; try apply same_g_refl.
    split; [exact HP|]. split; [repeat split|]. intros t0; lia. }
  set (tg := rkey (liq_cut (price s (cp_liqm cp)) (cp_liq cp))).
  assert (Htg : tg <= MAXS) by (unfold tg, rkey; apply Z.le_min_r).
  set (ents := idx_below tg (scan_count cp) (ridx s t)).
  destruct (existsb _ _) eqn:Ex; [discriminate|].
  intros H. pose proof HI as (Hk & Hr & Hi).
  eapply (liq_fold_eff e cp t (price s (cp_liqm cp))); [exact HP| | |exact H].
  - intros c Hc. apply in_map_iff in Hc. destruct Hc as (x & Hx & Hin).
    unfold get_cdp in Hx. rewrite Hcp in Hx. destruct (Hk _ _ _ Hx) as [Hty Hid].
    destruct (Hfresh tg Htg x Hin) as (c0 & Hc0 & Hf0). assert (c0 = c) by congruence. subst c0.
    split; [exact Hty|]. rewrite Hid. split; [exact Hx|]. split; [exact Hf0|]. eapply Hi, Hx.
  - assert (Hids : NoDup (map snd ents)).
    { destruct (idx_below_prefix tg (scan_count cp) (ridx s t)) as (rest & Hrest). fold ents in Hrest.
      pose proof (ridx_ids_nodup e s t cp HI Hcp) as H0. rewrite Hrest, map_app in H0. eapply nodup_app_l. exact H0. }
    rewrite map_map.
    assert (Heq : map (fun x : Z * nat => oid (get_cdp e s t (snd x))) ents = map snd ents).
    { apply map_ext_in. intros x Hx. destruct (get_cdp e s t (snd x)) as [c|] eqn:Eg.
      - unfold get_cdp in Eg. rewrite Hcp in Eg. destruct (Hk _ _ _ Eg) as [_ Hid]. exact Hid.
      - exfalso. assert (existsb (fun o : option cdp => match o with None => true | Some _ => false end)
            (map (fun x0 : Z * nat => get_cdp e s t (snd x0)) ents) = true).
        { apply existsb_exists. exists None. split; [|reflexivity]. rewrite <- Eg.
          apply (in_map (fun x0 : Z * nat => get_cdp e s t (snd x0))) in Hx. exact Hx. }
        congruence. }
    rewrite Heq. exact Hids.
Qed.

Lemma DInv_OpEff s s' t N : OpEff s s' -> DInv s t N -> DInv s' t N.
Proof.
  intros (_ & (g & _) & D) H. unfold DInv in *. rewrite g. specialize (D t). pose proof PREC_pos.
  assert (Z.abs (drift s' t * PREC) <= Z.abs (drift s t * PREC)).
  { rewrite !Z.abs_mul. apply Z.mul_le_mono_nonneg_r; lia. }
  lia.
Qed.

Lemma coll_nonneg e s t id c : CustInv e s -> cdps s t id = Some c -> 0 <= c_coll c.
Proof.
  intros (A & _ & C & _) Hc. assert (Hh : has s t id = true) by (unfold has; rewrite Hc; reflexivity).
  destruct (A t id Hh) as (E & _). unfold coll_of in E. rewrite Hc in E. rewrite E.
  apply dep_total_nonneg. intros w a Hd. apply (C _ _ _ Hd).
Qed.

(** * One collateral type in the begin blocker *)
Lemma begin_type_eff e skip s t cp s' u :
  Inv3 e s -> PInv s -> get_cp e t = Some cp -> PREC <= cp_fee cp -> upd_lt s t ->
  (forall id c, cdps s t id = Some c -> to_base (debt_at (gfac s' t) c) (dp_cf e) < MAXS) ->
  begin_type e skip s (t, cp) = Ok s' u ->
  PInv s' /\ now s' = now s /\ nextid s' = nextid s /\ (forall t', t' <> t -> tview_eq s s' t') /\
  forall N, 0 <= N -> DInv s t N -> DInv s' t (N + (if gfac s' t =? gfac s t then 0 else bump_of s t N)).
Proof.
  intros (HI & HC & _) HP Hcp Hfee Hu Hrange. unfold begin_type, update_status.
  assert (Hpv : forall s1, pv_eq s s1 -> PInv s1 /\ now s1 = now s /\ nextid s1 = nextid s /\ (forall t', t' <> t -> tview_eq s s1 t') /\
     forall N, 0 <= N -> DInv s t N -> DInv s1 t (N + (if gfac s1 t =? gfac s t then 0 else bump_of s t N))).
  { intros s1 (a&b&c&d&f&g&h). destruct HP as (HF & HT & HR).
    assert (V : forall t', tview_eq s s1 t').
    { intros t'. repeat split; try congruence. unfold gfac; rewrite d; reflexivity. }
    split; [split; [|split]|].
    - intros t' id c0 Hc. rewrite a in Hc. pose proof (HF _ _ _ Hc) as Hok. unfold cdp_ok in *. unfold gfac in *. rewrite d, f, g. exact Hok.
    - intros t'. unfold gfac. rewrite d, f, g. apply HT.
    - apply (RS_eq s); assumption.
    - split; [exact g|]. split; [exact h|]. split; [intros t' _; apply V|].
      intros N HN HD. assert (E : gfac s1 t = gfac s t) by (unfold gfac; rewrite d; reflexivity). rewrite E, Z.eqb_refl, Z.add_0_r.
      eapply tview_DInv; [apply V|exact HD]. }
  destruct (negb (negb (price s (cp_spot cp) =? 0))).
  { intros H; inversion H; subst. apply Hpv. repeat split. }
  cbn [set_mstat price].
  destruct (negb (negb (price s (cp_liqm cp) =? 0))).
  { intros H; inversion H; subst. apply Hpv. repeat split. }
  set (s2 := set_mstat _ _).
  assert (P2 : pv_eq s s2) by (repeat split).
  destruct (Hpv s2 P2) as (HP2 & N2 & I2 & V2 & _).
  assert (Hu2 : upd_lt s2 t) by (intros id c Hc; apply (Hu id c Hc)).
  set (s3 := accumulate_interest e s2 t cp).
  assert (A3 : forall N, 0 <= N -> DInv s t N ->
     PInv s3 /\ acc_frame s2 s3 t /\ (gfac s3 t = gfac s t /\ DInv s3 t N \/ gfac s3 t <> gfac s t /\ DInv s3 t (N + bump_of s t N))).
  { intros N HN HD. destruct (accumulate_eff e s2 t cp N HP2 Hu2 Hfee HN HD) as (x1 & x2 & x3). fold s3 in x1, x2, x3.
    split; [exact x1|]. split; [exact x2|]. destruct x3 as [(g & d)|(g & d)]; [left|right]; split; try exact g; try exact d.
    unfold DInv in *. rewrite g, d. exact HD. }
  assert (F3 : acc_frame s2 s3 t /\ PInv s3).
  { pose proof (accumulate_interest_stores e s2 t cp) as (a1 & a2 & a3 & _). fold s3 in a1, a2, a3.
    (* the frame and the invariants do not depend on N: take the trivial count of a drift-free copy *)
    destruct (accumulate_eff e s2 t cp (Z.abs (drift s2 t * PREC)) HP2 Hu2 Hfee (Z.abs_nonneg _)) as (x1 & x2 & _); [|split; assumption].
    unfold DInv. pose proof (proj1 (proj1 (proj2 HP2) t)) as Hg. pose proof PREC_pos.
    set (x := drift s2 t * PREC). pose proof (Z.abs_nonneg x).
    assert (1 * Z.abs x <= gfac s2 t * Z.abs x) by (apply Z.mul_le_mono_nonneg_r; lia). lia. }
  destruct F3 as (Fr3 & HP3).
  assert (Fin : forall s5, OpEff s3 s5 -> same_g s3 s5 -> (forall t' id, t' <> t -> cdps s5 t' id = cdps s3 t' id) ->
     (forall t', t' <> t -> tprin s5 t' = tprin s3 t') ->
     PInv s5 /\ now s5 = now s /\ nextid s5 = nextid s /\ (forall t', t' <> t -> tview_eq s s5 t') /\
     forall N, 0 <= N -> DInv s t N -> DInv s5 t (N + (if gfac s5 t =? gfac s t then 0 else bump_of s t N))).
  { intros s5 E5 G5 O5 T5. pose proof E5 as (HP5 & _ & _). destruct G5 as (g5 & p5 & n5 & i5).
    pose proof Fr3 as (a3 & b3 & c3 & d3 & f3).
    split; [exact HP5|]. split; [rewrite n5, d3; exact N2|]. split; [rewrite i5, c3; exact I2|]. split.
    - intros t' Nt. eapply tview_trans; [apply V2, Nt|]. eapply tview_trans; [eapply acc_frame_tview; [exact Fr3|exact Nt]|].
      repeat split; try congruence; [intros id; apply O5, Nt|apply T5, Nt].
    - intros N HN HD. rewrite g5. destruct (A3 N HN HD) as (_ & _ & [(g & d)|(g & d)]).
      + rewrite g, Z.eqb_refl, Z.add_0_r. eapply DInv_OpEff; eassumption.
      + destruct (Z.eqb_spec (gfac s3 t) (gfac s t)); [contradiction|]. eapply DInv_OpEff; eassumption. }
  destruct skip.
  { intros H; inversion H; subst s'. apply Fin; try reflexivity; try apply same_g_refl.
    split; [exact HP3|]. split; [repeat split|]. intros t0; lia. }
  destruct (sync_risky _ _ _ _) as [s4 []| |] eqn:E4; try discriminate.
  destruct (liquidate_cdps e s4 t cp) as [s5 []| |] eqn:E5; try discriminate.
  intros H; inversion H; subst s'; clear H.
  pose proof Fr3 as (a3 & b3 & c3 & d3 & f3).
  assert (HI3 : IdxInv e s3).
  { apply (IdxInv_frame e s); [rewrite a3; reflexivity|rewrite b3; reflexivity|rewrite c3; reflexivity|exact HI]. }
  pose proof (sync_risky_IdxInv _ _ _ _ _ _ HI3 Hcp E4) as HI4.
  assert (G35 : gfac s5 t = gfac s3 t).
  { (* neither the synchronisation nor the liquidation pass touches the global factor *)
    assert (X4 : forall s4', sync_risky e s3 t cp = Ok s4' tt -> forall t0, gfac s4' t0 = gfac s3 t0).
    { intros s4' H4. unfold sync_risky in H4. destruct (ptime s3 t); [|discriminate]. destruct (ifac s3 t) eqn:Ei.
      - intros t0. eapply (ofold_inv (fun w => gfac w t0 = gfac s3 t0)); [|reflexivity|exact H4].
        intros w x w' u0 Pz Hz. unfold sync_risky_one in Hz. destruct (cdps w t x); [|discriminate].
        destruct (_ && _); [inversion Hz; subst; exact Pz|]. inversion Hz; subst. destruct (new_interest _ _ _ =? 0); unfold gfac in *; cbn; exact Pz.
      - destruct (map snd _); [inversion H4; reflexivity|discriminate]. }
    assert (X5 : forall t0, gfac s5 t0 = gfac s4 t0).
    { intros t0. pose proof E5 as E5'. unfold liquidate_cdps in E5'. destruct (price s4 (cp_liqm cp) =? 0); [inversion E5'; subst; reflexivity|]. destruct (existsb _ _); [discriminate|].
      eapply (ofold_inv (fun w => gfac w t0 = gfac s4 t0)); [|reflexivity|exact E5'].
      intros w o w' u0 Pz Hz. unfold liq_step in Hz. destruct o as [c|]; [|discriminate]. destruct (confirm_below _ _ _ _); [|inversion Hz; subst; exact Pz].
      apply seize_pv in Hz. destruct Hz as ((g & _) & _). rewrite g. exact Pz. }
    rewrite X5. apply X4, E4. }
  apply sync_risky_fresh in E4; try assumption.
  2:{ intros id c Hc. rewrite a3 in Hc. eapply (coll_nonneg e s); [exact HC|exact Hc]. }
  2:{ intros id c Hc. rewrite a3 in Hc. rewrite <- G35. apply (Hrange id c Hc). }
  destruct E4 as (Ef4 & G4 & T4 & D4 & O4 & Fresh4).
  pose proof Ef4 as (HP4 & _ & _).
  apply liquidate_cdps_eff in E5; try assumption.
  destruct E5 as (Ef5 & G5 & O5 & T5).
  apply Fin.
  - eapply OpEff_trans; eassumption.
  - eapply same_g_trans; eassumption.
  - intros t' id Nt. rewrite O5 by exact Nt. apply O4, Nt.
  - intros t' Nt. rewrite T5 by exact Nt. rewrite T4. reflexivity.
Qed.

(** * The whole begin blocker *)
Definition bump (s s' : state) (t : nat) (N : Z) : Z :=
  if gfac s' t =? gfac s t then 0 else bump_of s t N.

Lemma bump_tview s1 sa s2 t N : tview_eq s1 sa t -> bump sa s2 t N = bump s1 s2 t N.
Proof.
  intros V. destruct (tview_sums _ _ _ V) as (_ & B & C & _). destruct V as (_&_&g&_).
  unfold bump, bump_of. rewrite g, B, C. reflexivity.
Qed.

Lemma upd_lt_tview s s' t : tview_eq s s' t -> upd_lt s t -> upd_lt s' t.
Proof. intros (a&_&_&_&n&_) H id c Hc. rewrite a in Hc. rewrite n. eapply H, Hc. Qed.

(* frames without any invariant: what the pieces of the begin blocker write for OTHER collateral types *)
Lemma accumulate_frame e s t cp : acc_frame s (accumulate_interest e s t cp) t.
Proof.
  assert (R : acc_frame s s t) by (repeat split).
  assert (Tp : forall v, acc_frame s (set_ptime s (upd (ptime s) t v)) t).
  { intros v. repeat split; cbn. unfold upd. destruct (Nat.eqb_spec t' t); [contradiction|reflexivity]. }
  unfold accumulate_interest. destruct (ptime s t) as [prev|]; [|apply Tp].
  destruct (round_secs (now s - prev) =? 0); [exact R|]. destruct (tprin s t <=? 0); [apply Tp|].
  destruct (ifac s t) as [G|] eqn:Ei.
  2:{ repeat split; cbn; unfold gfac, upd; cbn; unfold upd; destruct (Nat.eqb_spec t' t); try contradiction; reflexivity. }
  destruct (cp_fee cp =? PREC); [apply Tp|]. cbv zeta.
  set (acc := dec_round_int _ - tprin s t). destruct (acc =? 0); [exact R|].
  set (s1 := b_mint s (CDPM e) (d_debt e) acc). set (s2 := b_mint s1 (LIQM e) (d_usdx e) acc).
  assert (P2 : pv_eq s s2) by (unfold s2, s1; pv_chain).
  destruct P2 as (a & b & c & d & f & g & h).
  repeat split; cbn; try assumption; unfold gfac, upd; cbn; unfold upd; destruct (Nat.eqb_spec t' t); try contradiction;
    try (rewrite c; reflexivity); try (rewrite d; reflexivity); try (rewrite f; reflexivity).
Qed.

Lemma sync_risky_tview e s t cp s' u t' :
  IdxInv e s -> get_cp e t = Some cp -> sync_risky e s t cp = Ok s' u -> t' <> t -> tview_eq s s' t'.
Proof.
  intros HI Hcp H Nt. unfold sync_risky in H. destruct (ptime s t) as [prev|]; [|discriminate]. destruct (ifac s t) as [gf|].
  - apply (ofold_inv (fun w => IdxInv e w /\ tview_eq s w t') (sync_risky_one e cp t gf prev)) in H; [exact (proj2 H)| |split; [exact HI|apply tview_refl]].
    intros w x w' u0 [HIw Pw] Hw. split; [eapply sync_risky_one_IdxInv; eassumption|].
    eapply tview_trans; [exact Pw|]. unfold sync_risky_one in Hw.
    destruct (cdps w t x) as [c|] eqn:Ec; [|discriminate]. destruct (proj1 HIw _ _ _ Ec) as [Ety _].
    destruct (_ && _); [inversion Hw; subst; apply tview_refl|]. inversion Hw; subst w'.
    destruct (new_interest gf (c_ifac c) (cdp_debt c) =? 0); repeat split; cbn; unfold upd2; rewrite ?Ety;
      destruct (Nat.eqb_spec t' t); try contradiction; reflexivity.
  - destruct (map snd _); [inversion H; subst; apply tview_refl|discriminate].
Qed.

Lemma liq_fold_tview e cp p t t' : t' <> t -> forall l s s' u,
  (forall c, In (Some c) l -> c_type c = t) -> ofold (liq_step e cp p) s l = Ok s' u -> tview_eq s s' t'.
Proof.
  intros Nt. induction l as [|o r IH]; intros s s' u Hty H; cbn [ofold] in H; [inversion H; subst; apply tview_refl|].
  destruct o as [c|]; [|discriminate]. unfold liq_step in H at 1.
  destruct (confirm_below _ _ _ _); [|eapply IH; [intros c' Hin; apply Hty; right; exact Hin|exact H]].
  destruct (seize e s cp c) as [w1 []| |] eqn:Es; try discriminate.
  eapply tview_trans; [|eapply IH; [intros c' Hin; apply Hty; right; exact Hin|exact H]].
  apply seize_pv in Es. destruct Es as ((g & pq & n & i) & R & _ & T).
  assert (Ety : c_type c = t) by (apply Hty; left; reflexivity).
  repeat split; try congruence.
  - intros id. apply (rep_other _ _ _ _ _ t' id R). intros Eq; inversion Eq; subst. congruence.
  - apply (proj2 T). congruence.
Qed.

Lemma liquidate_tview e s t cp s' u t' :
  key_ok s -> get_cp e t = Some cp -> liquidate_cdps e s t cp = Ok s' u -> t' <> t -> tview_eq s s' t'.
Proof.
  intros Hk Hcp H Nt. unfold liquidate_cdps in H.
  destruct (price s (cp_liqm cp) =? 0); [inversion H; subst; apply tview_refl|]. destruct (existsb _ _); [discriminate|].
  eapply liq_fold_tview; [exact Nt| |exact H].
  intros c Hc. apply in_map_iff in Hc. destruct Hc as (x & Hx & _). unfold get_cdp in Hx. rewrite Hcp in Hx. apply (Hk _ _ _ Hx).
Qed.

Lemma begin_type_tview e skip s t cp s' u t' :
  IdxInv e s -> get_cp e t = Some cp -> begin_type e skip s (t, cp) = Ok s' u -> t' <> t -> tview_eq s s' t'.
Proof.
  intros HI Hcp H Nt. revert H. unfold begin_type, update_status.
  destruct (negb (negb (price s (cp_spot cp) =? 0))); [intros E; inversion E; subst; repeat split|].
  cbn [set_mstat price]. destruct (negb (negb (price s (cp_liqm cp) =? 0))); [intros E; inversion E; subst; repeat split|].
  set (s2 := set_mstat _ _). set (s3 := accumulate_interest e s2 t cp).
  assert (V3 : tview_eq s s3 t').
  { eapply (tview_trans s s2 s3); [repeat split|]. eapply acc_frame_tview; [apply accumulate_frame|exact Nt]. }
  destruct skip; [intros E; inversion E; subst; exact V3|].
  destruct (sync_risky e s3 t cp) as [s4 []| |] eqn:E4; try discriminate.
  destruct (liquidate_cdps e s4 t cp) as [s5 []| |] eqn:E5; try discriminate.
  intros E; inversion E; subst s'; clear E.
  assert (HI3 : IdxInv e s3).
  { pose proof (accumulate_interest_stores e s2 t cp) as (a1 & a2 & a3 & _). fold s3 in a1, a2, a3.
    apply (IdxInv_frame e s); [rewrite a1; reflexivity|rewrite a2; reflexivity|rewrite a3; reflexivity|exact HI]. }
  pose proof (sync_risky_IdxInv _ _ _ _ _ _ HI3 Hcp E4) as (Hk4 & _).
  eapply tview_trans; [exact V3|]. eapply tview_trans; [eapply sync_risky_tview; [exact HI3|exact Hcp|exact E4|exact Nt]|].
  eapply liquidate_tview; [exact Hk4|exact Hcp|exact E5|exact Nt].
Qed.

Lemma types_tview e skip : forall l s1 s2 u,
  (forall t cp, In (t, cp) l -> get_cp e t = Some cp) -> IdxInv e s1 ->
  ofold (begin_type e skip) s1 l = Ok s2 u -> forall t', ~ In t' (map fst l) -> tview_eq s1 s2 t'.
Proof.
  induction l as [|[t0 cp0] tl IH]; intros s1 s2 u Hl HI H t' Hn; cbn [ofold] in H; [inversion H; subst; apply tview_refl|].
  destruct (begin_type e skip s1 (t0, cp0)) as [sa []| |] eqn:Ea; try discriminate.
  assert (Hcp0 : get_cp e t0 = Some cp0) by (apply Hl; left; reflexivity).
  eapply tview_trans.
  - eapply begin_type_tview; [exact HI|exact Hcp0|exact Ea|]. intros ->. apply Hn. left; reflexivity.
  - eapply IH; [intros t cp Hin; apply Hl; right; exact Hin| |exact H|intros Hin; apply Hn; right; exact Hin].
    eapply begin_type_IdxInv; [exact HI|exact Hcp0|exact Ea].
Qed.

Lemma types_fold e skip : forall l s1 s2 u,
  env_wf e -> fees_ok e -> NoDup (map fst l) -> (forall t cp, In (t, cp) l -> get_cp e t = Some cp) ->
  Inv3 e s1 -> PInv s1 -> (forall t, In t (map fst l) -> upd_lt s1 t) ->
  ofold (begin_type e skip) s1 l = Ok s2 u ->
  (forall t, In t (map fst l) -> forall id c, cdps s1 t id = Some c -> to_base (debt_at (gfac s2 t) c) (dp_cf e) < MAXS) ->
  PInv s2 /\ now s2 = now s1 /\ nextid s2 = nextid s1 /\
  (forall t, ~ In t (map fst l) -> tview_eq s1 s2 t) /\
  (forall t, In t (map fst l) -> forall N, 0 <= N -> DInv s1 t N -> DInv s2 t (N + bump s1 s2 t N)).
Proof.
  induction l as [|[t0 cp0] tl IH]; intros s1 s2 u Hwf Hfees Hnd Hl HI3 HP Hu H Hrange.
  - cbn [ofold] in H. inversion H; subst s2. splits; try reflexivity; try assumption; [intros; apply tview_refl|intros t []].
  - pose proof H as Hall. cbn [ofold] in H.
    destruct (begin_type e skip s1 (t0, cp0)) as [sa []| |] eqn:Ea; try discriminate.
    cbn [map fst] in Hnd. apply NoDup_cons_iff in Hnd. destruct Hnd as [Hni Hnt].
    assert (Hcp0 : get_cp e t0 = Some cp0) by (apply Hl; left; reflexivity).
    assert (Hltl : forall t cp, In (t, cp) tl -> get_cp e t = Some cp) by (intros t cp Hin; apply Hl; right; exact Hin).
    pose proof (begin_type_Inv3 _ _ _ _ _ _ _ Hwf HI3 Hcp0 Ea) as HI3a.
    assert (Va : forall t', t' <> t0 -> tview_eq s1 sa t').
    { intros t' Nt. eapply begin_type_tview; [exact (proj1 HI3)|exact Hcp0|exact Ea|exact Nt]. }
    pose proof (types_tview e skip tl sa s2 u Hltl (proj1 HI3a) H t0 Hni) as V0.
    assert (E0 : gfac s2 t0 = gfac sa t0) by (destruct V0 as (_&_&g&_); exact g).
    destruct (begin_type_eff e skip s1 t0 cp0 sa tt HI3 HP Hcp0 (Hfees _ _ Hcp0) (Hu t0 (or_introl eq_refl))) as (HPa & Na & Ia & _ & Da); [|exact Ea|].
    { intros id c Hc. rewrite <- E0. apply (Hrange t0 (or_introl eq_refl) id c Hc). }
    destruct (IH sa s2 u Hwf Hfees Hnt Hltl HI3a HPa) as (HP2 & N2 & I2 & V2 & D2); [|exact H| |].
    { intros t Hin. assert (t <> t0) by (intros ->; contradiction). eapply upd_lt_tview; [apply Va; assumption|]. apply Hu. right; exact Hin. }
    { intros t Hin id c Hc. assert (Nt : t <> t0) by (intros ->; contradiction).
      apply (Hrange t (or_intror Hin) id c). destruct (Va t Nt) as (a & _). rewrite <- a. exact Hc. }
    split; [exact HP2|]. split; [congruence|]. split; [congruence|]. split.
    + intros t Hn. assert (t <> t0) by (intros ->; apply Hn; left; reflexivity).
      eapply tview_trans; [apply Va; assumption|]. apply V2. intros Hin. apply Hn. right; exact Hin.
    + intros t [Et|Hin] N HN HD.
      * cbn [fst] in Et. subst t. eapply tview_DInv; [exact V0|]. unfold bump. rewrite E0. apply Da; assumption.
      * assert (Nt : t <> t0) by (intros ->; contradiction).
        rewrite <- (bump_tview s1 sa s2 t N (Va t Nt)). apply D2; [exact Hin|exact HN|]. eapply tview_DInv; [apply Va, Nt|exact HD].
Qed.
