(* Round trip of the x/pricefeed genesis state (Model/GenesisPricefeed.v). *)
From Coq Require Import Permutation Sorted.
From Kava Require Import Base.Prelude Base.Dec Model.Pricefeed Proofs.Pricefeed Model.GenesisPricefeed.
Local Open Scope Z_scope.

(** * The module invariant the round trip needs *)

Definition GInv (s : state) : Prop :=
  markets_valid (markets s) = true /\
  (forall m o p ex, raw s m o = Some (p, ex) -> 0 <= p /\ 0 < ex / NS) /\
  (forall m p, cur s m = Some p -> 0 <= p).

Lemma GInv_Inv s : GInv s -> Inv s.
Proof. intros [_ [R C]]. split; [intros m o p ex H; apply (R m o p ex H)|exact C]. Qed.

(** * Lists of keys *)

Definition key_of (x : ppost) : nat * nat := let '(m, o, _, _) := x in (m, o).
Definition keys (l : list ppost) := map key_of l.

Lemma pair_eqb_spec a b : pair_eqb a b = true <-> a = b.
Proof.
  destruct a as [a1 a2], b as [b1 b2]. unfold pair_eqb. cbn [fst snd]. rewrite andb_true_iff, !Nat.eqb_eq.
  split; [intros [-> ->]; reflexivity|intros E; injection E as -> ->; split; reflexivity].
Qed.

Lemma existsb_pair_false x seen : ~ In x seen -> existsb (pair_eqb x) seen = false.
Proof.
  intros H. destruct (existsb (pair_eqb x) seen) eqn:E; [|reflexivity].
  apply existsb_exists in E. destruct E as [y [Hy Hxy]]. apply pair_eqb_spec in Hxy. subst y. contradiction.
Qed.

Lemma nodup_pairs_spec : forall l seen,
  NoDup (keys l) -> (forall x, In x (keys l) -> ~ In x seen) -> nodup_pairs seen l = true.
Proof.
  induction l as [|[[[m o] p] ex] r IH]; intros seen ND Hd; [reflexivity|].
  cbn [nodup_pairs]. cbn [keys map key_of] in ND, Hd. inversion ND as [|? ? Hn ND']; subst.
  rewrite existsb_pair_false by (apply Hd; left; reflexivity). cbn [negb andb].
  apply IH; [exact ND'|]. intros x Hx [<-|Hs]; [contradiction|]. apply (Hd x); [right; exact Hx|exact Hs].
Qed.

Lemma NoDup_app_intro {A} (l1 l2 : list A) :
  NoDup l1 -> NoDup l2 -> (forall x, In x l1 -> ~ In x l2) -> NoDup (l1 ++ l2).
Proof.
  induction l1 as [|a r IH]; intros N1 N2 D; [exact N2|]. cbn. inversion N1 as [|? ? Ha Nr]; subst.
  constructor.
  - rewrite in_app_iff. intros [H|H]; [contradiction|]. apply (D a); [left; reflexivity|exact H].
  - apply IH; [exact Nr|exact N2|]. intros x Hx. apply D. right; exact Hx.
Qed.

(** * ExportGenesis *)

Definition rp_on (s : state) (m : nat) (os : list nat) : list ppost :=
  flat_map (fun o => match raw s m o with Some (p, ex) => [(m, o, p, ex)] | None => [] end) os.

Lemma in_rp_on s m os x : In x (rp_on s m os) <->
  exists o p ex, x = (m, o, p, ex) /\ In o os /\ raw s m o = Some (p, ex).
Proof.
  unfold rp_on. rewrite in_flat_map. split.
  - intros [o [Ho Hx]]. destruct (raw s m o) as [[p ex]|] eqn:R; [|contradiction].
    destruct Hx as [<-|[]]. exists o, p, ex. repeat split; assumption.
  - intros [o [p [ex [-> [Ho R]]]]]. exists o. split; [exact Ho|]. rewrite R. left; reflexivity.
Qed.

Lemma keys_rp_on_in s m os x : In x (keys (rp_on s m os)) -> fst x = m /\ In (snd x) os.
Proof.
  unfold keys. rewrite in_map_iff. intros [y [<- Hy]]. apply in_rp_on in Hy.
  destruct Hy as [o [p [ex [-> [Ho _]]]]]. cbn. split; [reflexivity|exact Ho].
Qed.

Lemma nodup_rp_on s m : forall os, NoDup os -> NoDup (keys (rp_on s m os)).
Proof.
  induction os as [|o r IH]; intros ND; [constructor|]. inversion ND as [|? ? Ho Nr]; subst.
  unfold rp_on. cbn [flat_map]. fold (rp_on s m r). unfold keys. rewrite map_app. fold (keys (rp_on s m r)).
  apply NoDup_app_intro; [|apply IH; exact Nr|].
  - destruct (raw s m o) as [[p ex]|]; cbn; [constructor; [intros []|constructor]|constructor].
  - intros x Hx Hr. apply keys_rp_on_in in Hr. destruct Hr as [_ Hr].
    destruct (raw s m o) as [[p ex]|]; cbn in Hx; [|contradiction]. destruct Hx as [<-|[]]. cbn in Hr. contradiction.
Qed.

Lemma raw_prices_rp e s m : raw_prices e s m = rp_on s m (seq 0 (noracles e)).
Proof. reflexivity. Qed.

Lemma in_raw_prices e s m x : In x (raw_prices e s m) <->
  exists o p ex, x = (m, o, p, ex) /\ (o < noracles e)%nat /\ raw s m o = Some (p, ex).
Proof.
  rewrite raw_prices_rp, in_rp_on. split; intros [o [p [ex [-> [Ho R]]]]]; exists o, p, ex; repeat split; try assumption.
  - apply in_seq in Ho. lia.
  - apply in_seq. lia.
Qed.

Definition posts_of (e : env) (s : state) (ms : list market) : list ppost :=
  flat_map (fun k => raw_prices e s (m_id k)) ms.

Lemma in_posts_of e s ms x : In x (posts_of e s ms) <->
  exists o p ex, x = (fst (fst (fst x)), o, p, ex) /\ In (fst (fst (fst x))) (map m_id ms) /\
                 (o < noracles e)%nat /\ raw s (fst (fst (fst x))) o = Some (p, ex).
Proof.
  unfold posts_of. rewrite in_flat_map. split.
  - intros [k [Hk Hx]]. apply in_raw_prices in Hx. destruct Hx as [o [p [ex [-> [Ho R]]]]]. cbn [fst].
    exists o, p, ex. repeat split; try assumption. apply in_map. exact Hk.
  - intros [o [p [ex [Ex [Hm [Ho R]]]]]]. apply in_map_iff in Hm. destruct Hm as [k [Ek Hk]].
    exists k. split; [exact Hk|]. apply in_raw_prices. exists o, p, ex. rewrite Ek. repeat split; assumption.
Qed.

Lemma in_posts_of' e s ms m o p ex : In (m, o, p, ex) (posts_of e s ms) <->
  In m (map m_id ms) /\ (o < noracles e)%nat /\ raw s m o = Some (p, ex).
Proof.
  rewrite in_posts_of. cbn [fst]. split.
  - intros [o' [p' [ex' [E [Hm [Ho R]]]]]]. injection E as -> -> ->. repeat split; assumption.
  - intros [Hm [Ho R]]. exists o, p, ex. repeat split; assumption.
Qed.

Lemma nodup_posts_of e s : forall ms, NoDup (map m_id ms) -> NoDup (keys (posts_of e s ms)).
Proof.
  induction ms as [|k r IH]; intros ND; [constructor|]. cbn [map] in ND. inversion ND as [|? ? Hk Nr]; subst.
  unfold posts_of. cbn [flat_map]. fold (posts_of e s r). unfold keys. rewrite map_app.
  apply NoDup_app_intro.
  - rewrite raw_prices_rp. apply nodup_rp_on. apply seq_NoDup.
  - apply IH. exact Nr.
  - intros x Hx Hr. rewrite raw_prices_rp in Hx. apply keys_rp_on_in in Hx. destruct Hx as [Hm _].
    apply in_map_iff in Hr. destruct Hr as [y [<- Hy]]. apply in_posts_of in Hy.
    destruct Hy as [o [p [ex [Ey [Hin _]]]]]. rewrite Ey in Hm. cbn in Hm. rewrite Hm in Hin. contradiction.
Qed.

Lemma mem_In x l : mem x l = true <-> In x l.
Proof.
  unfold mem. rewrite existsb_exists. split.
  - intros [y [Hy E]]. apply Nat.eqb_eq in E. subst. exact Hy.
  - intros H. exists x. split; [exact H|apply Nat.eqb_refl].
Qed.

Lemma nodup_nat_NoDup l : nodup_nat l = true -> NoDup l.
Proof.
  induction l as [|x r IH]; intros H; [constructor|]. cbn [nodup_nat] in H. apply andb_true_iff in H.
  destruct H as [H1 H2]. constructor; [|apply IH; exact H2].
  intros Hin. apply mem_In in Hin. rewrite Hin in H1. discriminate.
Qed.

Lemma markets_valid_nodup ms : markets_valid ms = true -> NoDup (map m_id ms).
Proof. unfold markets_valid. intros H. apply andb_true_iff in H. apply nodup_nat_NoDup. apply H. Qed.

Lemma export_posts e s : g_posts (export_genesis e s) = posts_of e s (markets s).
Proof. reflexivity. Qed.

(* what is exported: the posts of the markets that are in the params *)
Lemma in_export e s m o p ex : In (m, o, p, ex) (g_posts (export_genesis e s)) <->
  In m (map m_id (markets s)) /\ (o < noracles e)%nat /\ raw s m o = Some (p, ex).
Proof. rewrite export_posts. apply in_posts_of'. Qed.

(** * Validation of the export passes *)

Lemma export_validates e s : GInv s -> validate_genesis (export_genesis e s) = true.
Proof.
  intros [Hm [Hr _]]. unfold validate_genesis. cbn [g_markets export_genesis]. rewrite Hm. cbn [andb].
  apply andb_true_iff. split.
  - apply forallb_forall. intros [[[m o] p] ex] Hin. apply in_export in Hin. destruct Hin as [_ [_ R]].
    destruct (Hr _ _ _ _ R) as [Hp Hex]. unfold post_valid. apply andb_true_iff. split; [apply Z.leb_le; lia|apply Z.ltb_lt; lia].
  - apply nodup_pairs_spec; [|intros x _ []]. rewrite export_posts. apply nodup_posts_of. apply markets_valid_nodup. exact Hm.
Qed.

(** * InitGenesis: the posted prices *)

Lemma import_posts_some t : forall l r, exists r', import_posts t r l = Some r'.
Proof.
  induction l as [|[[[m o] p] ex] rest IH]; intros r; cbn [import_posts]; [eexists; reflexivity|].
  destruct (Z.ltb_spec t ex); [|apply IH]. destruct (Z.leb_spec ex t); [lia|apply IH].
Qed.

Lemma import_posts_spec t : forall l r r', NoDup (keys l) -> import_posts t r l = Some r' ->
  forall m o,
    (forall p ex, In (m, o, p, ex) l -> t < ex -> r' m o = Some (p, ex)) /\
    ((forall p ex, In (m, o, p, ex) l -> ex <= t) -> r' m o = r m o).
Proof.
  induction l as [|[[[m0 o0] p0] ex0] rest IH]; intros r r' ND E m o; cbn [import_posts] in E.
  - injection E as <-. split; [intros p ex []|reflexivity].
  - cbn [keys map key_of] in ND. inversion ND as [|? ? Hn ND']; subst.
    assert (Hnot : forall p ex, In (m0, o0, p, ex) rest -> False).
    { intros p ex Hin. apply Hn. unfold keys. apply in_map_iff. exists (m0, o0, p, ex). split; [reflexivity|exact Hin]. }
    destruct (Z.ltb_spec t ex0) as [Hl|Hl].
    + destruct (Z.leb_spec ex0 t); [lia|].
      destruct (IH _ _ ND' E m o) as [A B]. split.
      * intros p ex [Eq|Hin] Hlive; [|apply A; assumption].
        injection Eq as <- <- <- <-. rewrite B; [unfold upd2; rewrite !Nat.eqb_refl; reflexivity|].
        intros p' ex' Hin. exfalso. exact (Hnot _ _ Hin).
      * intros Hall. rewrite B.
        -- unfold upd2. destruct (Nat.eqb_spec m m0) as [->|]; [|reflexivity].
           destruct (Nat.eqb_spec o o0) as [->|]; [|reflexivity]. cbn [andb].
           specialize (Hall p0 ex0 (or_introl eq_refl)). lia.
        -- intros p ex Hin. apply (Hall p ex). right; exact Hin.
    + destruct (IH _ _ ND' E m o) as [A B]. split.
      * intros p ex [Eq|Hin] Hlive; [|apply A; assumption]. injection Eq as <- <- <- <-. lia.
      * intros Hall. apply B. intros p ex Hin. apply (Hall p ex). right; exact Hin.
Qed.

(* the raw-price store after the import: the entries of markets in the params that are
   unexpired at the import's block time *)
Definition kept (e : env) (s : state) (m o : nat) : option (Z * Z) :=
  if mem m (map m_id (markets s)) && Nat.ltb o (noracles e)
  then match raw s m o with
       | Some (p, ex) => if now s <? ex then Some (p, ex) else None
       | None => None
       end
  else None.

Lemma import_export_posts e s r' : GInv s ->
  import_posts (now s) (fun _ _ => None) (g_posts (export_genesis e s)) = Some r' ->
  forall m o, r' m o = kept e s m o.
Proof.
  intros [Hm _] E m o. pose proof (markets_valid_nodup _ Hm) as ND.
  destruct (import_posts_spec _ _ _ _ (nodup_posts_of e s _ ND) E m o) as [A B].
  unfold kept. destruct (mem m (map m_id (markets s))) eqn:M; cbn [andb].
  - apply mem_In in M. destruct (Nat.ltb_spec o (noracles e)) as [Ho|Ho].
    + destruct (raw s m o) as [[p ex]|] eqn:R.
      * destruct (Z.ltb_spec (now s) ex) as [Hl|Hl].
        -- apply A; [|exact Hl]. apply in_export. repeat split; assumption.
        -- apply B. intros p' ex' Hin. apply in_export in Hin. destruct Hin as [_ [_ R']]. rewrite R in R'. injection R' as <- <-. exact Hl.
      * apply B. intros p' ex' Hin. apply in_export in Hin. destruct Hin as [_ [_ R']]. rewrite R in R'. discriminate.
    + apply B. intros p' ex' Hin. apply in_export in Hin. destruct Hin as [_ [Ho' _]]. lia.
  - apply B. intros p' ex' Hin. apply in_export in Hin. destruct Hin as [Hin _]. apply mem_In in Hin. rewrite Hin in M. discriminate.
Qed.

(** * InitGenesis: the current prices *)

(* every stored entry is unexpired and inside the oracle universe *)
Definition all_live (e : env) (s : state) : Prop :=
  forall m o p ex, raw s m o = Some (p, ex) -> now s < ex /\ (o < noracles e)%nat.

Lemma has_raw_live e s m : all_live e s -> has_raw e s m = true -> live e s m <> [].
Proof.
  intros AL H. unfold has_raw in H. destruct (raw_prices e s m) as [|x l] eqn:RP; [discriminate|].
  assert (Hin : In x (raw_prices e s m)) by (rewrite RP; left; reflexivity).
  apply in_raw_prices in Hin. destruct Hin as [o [p [ex [_ [Ho R]]]]].
  intros L. assert (Hp : In p (live e s m)) by (apply in_live; exists o, ex; repeat split; [exact Ho|exact R|apply (AL _ _ _ _ R)]).
  rewrite L in Hp. contradiction.
Qed.

Lemma has_raw_false e s m : has_raw e s m = false -> live e s m = [].
Proof.
  intros H. unfold has_raw in H. destruct (raw_prices e s m) as [|x l] eqn:RP; [|discriminate].
  destruct (live e s m) as [|p l] eqn:L; [reflexivity|].
  assert (Hp : In p (live e s m)) by (rewrite L; left; reflexivity).
  apply in_live in Hp. destruct Hp as [o [ex [Ho [R _]]]].
  assert (Hin : In (m, o, p, ex) (raw_prices e s m)) by (apply in_raw_prices; exists o, p, ex; repeat split; assumption).
  rewrite RP in Hin. contradiction.
Qed.

Lemma has_raw_ext e s1 s2 m : raw s1 = raw s2 -> has_raw e s1 m = has_raw e s2 m.
Proof. intros H. unfold has_raw, raw_prices. rewrite H. reflexivity. Qed.

Lemma mprice_ext e s1 s2 m : now s1 = now s2 -> raw s1 = raw s2 -> mprice e s1 m = mprice e s2 m.
Proof. intros Hn Hr. unfold mprice. rewrite (live_ext e s1 s2 m); [reflexivity|]. intros o. rewrite Hn, Hr. reflexivity. Qed.

Lemma find_market_in k : forall ms, In k ms -> exists k', find_market (m_id k) ms = Some k'.
Proof.
  induction ms as [|x r IH]; [intros []|]. intros [<-|H]; cbn [find_market].
  - rewrite Nat.eqb_refl. eexists; reflexivity.
  - destruct (Nat.eqb (m_id x) (m_id k)); [eexists; reflexivity|apply IH; exact H].
Qed.

Lemma set_one_live e s m k : find_market m (markets s) = Some k -> live e s m <> [] ->
  set_one e s m = (with_cur s (upd (cur s) m (Some (mprice e s m))), ROk).
Proof.
  intros F L. unfold set_one, mprice. rewrite F. destruct (live e s m) as [|x l]; [congruence|]. reflexivity.
Qed.

Lemma mem_active_cons m k r : mem m (active_ids (k :: r)) = (m_active k && Nat.eqb m (m_id k)) || mem m (active_ids r).
Proof. unfold active_ids. cbn [filter]. destruct (m_active k); cbn [map andb orb]; [rewrite mem_cons|]; reflexivity. Qed.

Lemma init_cur_loop_spec e s0 : all_live e s0 -> forall ms s,
  (forall k, In k ms -> In k (markets s0)) ->
  now s = now s0 -> markets s = markets s0 -> raw s = raw s0 -> status s = status s0 ->
  exists s', init_cur_loop e s ms = Some s' /\
    now s' = now s0 /\ markets s' = markets s0 /\ raw s' = raw s0 /\ status s' = status s0 /\
    forall m, cur s' m = if mem m (active_ids ms) && has_raw e s0 m then Some (mprice e s0 m) else cur s m.
Proof.
  intros AL. induction ms as [|k r IH]; intros s Hsub Hn Hm Hr Hst; cbn [init_cur_loop].
  - exists s. repeat split; assumption.
  - assert (Hsub' : forall k', In k' r -> In k' (markets s0)) by (intros k' H; apply Hsub; right; exact H).
    destruct (m_active k) eqn:Ak; cbn [negb].
    + destruct (has_raw e s (m_id k)) eqn:HR; cbn [negb].
      * assert (AL' : all_live e s) by (unfold all_live; rewrite Hr, Hn; exact AL).
        destruct (find_market_in k (markets s0) (Hsub k (or_introl eq_refl))) as [k' F]. rewrite <- Hm in F.
        rewrite (set_one_live e s (m_id k) k' F (has_raw_live e s _ AL' HR)).
        destruct (IH (with_cur s (upd (cur s) (m_id k) (Some (mprice e s (m_id k))))) Hsub' Hn Hm Hr Hst) as [s' [E [A [B [C [D F']]]]]].
        exists s'. repeat split; try assumption. intros m. rewrite F', mem_active_cons, Ak. cbn [cur with_cur andb].
        destruct (mem m (active_ids r) && has_raw e s0 m) eqn:X.
        -- apply andb_true_iff in X. destruct X as [X1 X2]. rewrite X1, orb_true_r, X2. reflexivity.
        -- unfold upd. destruct (Nat.eqb_spec m (m_id k)) as [->|].
           ++ cbn [orb]. rewrite <- (has_raw_ext e s s0 _ Hr), HR. rewrite (mprice_ext e s s0 _ Hn Hr). reflexivity.
           ++ cbn [orb]. rewrite X. reflexivity.
      * destruct (IH s Hsub' Hn Hm Hr Hst) as [s' [E [A [B [C [D F']]]]]].
        exists s'. repeat split; try assumption. intros m. rewrite F', mem_active_cons, Ak. cbn [andb].
        destruct (Nat.eqb_spec m (m_id k)) as [->|]; [|reflexivity]. cbn [orb].
        rewrite <- (has_raw_ext e s s0 _ Hr), HR, !andb_false_r. reflexivity.
    + destruct (IH s Hsub' Hn Hm Hr Hst) as [s' [E [A [B [C [D F']]]]]].
      exists s'. repeat split; try assumption. intros m. rewrite F', mem_active_cons, Ak. reflexivity.
Qed.

(** * The round trip *)

(* the current-price store after the import *)
Definition cur_after (e : env) (s : state) (m : nat) : option Z :=
  if mem m (active_ids (markets s)) then
    match live e s m with [] => None | l => Some (median l) end
  else None.

Lemma live_of_kept e s m o : (o < noracles e)%nat -> In m (map m_id (markets s)) ->
  live_of (now s) (kept e s m o) = live_of (now s) (raw s m o).
Proof.
  intros Ho Hm. unfold kept. apply mem_In in Hm. rewrite Hm. destruct (Nat.ltb_spec o (noracles e)); [|lia]. cbn [andb].
  destruct (raw s m o) as [[p ex]|]; [|reflexivity]. destruct (Z.ltb_spec (now s) ex) as [H1|H1]; [reflexivity|].
  unfold live_of. destruct (Z.ltb_spec (now s) ex); [lia|reflexivity].
Qed.

Lemma live_flat_ext (f g : nat -> list Z) : forall l, (forall o, In o l -> f o = g o) -> flat_map f l = flat_map g l.
Proof.
  induction l as [|x r IH]; intros H; [reflexivity|]. cbn [flat_map]. rewrite (H x (or_introl eq_refl)), IH; [reflexivity|].
  intros o Ho. apply H. right; exact Ho.
Qed.

Lemma active_in_params m ms : mem m (active_ids ms) = true -> In m (map m_id ms).
Proof.
  intros H. apply mem_In in H. unfold active_ids in H. apply in_map_iff in H. destruct H as [k [<- Hk]].
  apply filter_In in Hk. apply in_map. apply Hk.
Qed.

Theorem roundtrip e s : GInv s ->
  validate_genesis (export_genesis e s) = true /\
  exists s', init_genesis e (now s) (status s) (export_genesis e s) = Ok s' [] /\
    now s' = now s /\ markets s' = markets s /\ status s' = status s /\
    (forall m o, raw s' m o = kept e s m o) /\
    (forall m, cur s' m = cur_after e s m) /\
    GInv s'.
Proof.
  intros I. split; [apply export_validates; exact I|].
  pose proof I as [Hm [Hr Hc]].
  unfold init_genesis. cbn [g_markets export_genesis]. rewrite Hm. cbn [negb].
  fold (posts_of e s (markets s)). change (posts_of e s (markets s)) with (g_posts (export_genesis e s)).
  destruct (import_posts_some (now s) (g_posts (export_genesis e s)) (fun _ _ => None)) as [r' E]. rewrite E.
  pose proof (import_export_posts e s r' I E) as K.
  set (s0 := mkState (now s) (markets s) r' (fun _ => None) (status s)).
  assert (AL : all_live e s0).
  { intros m o p ex R. cbn [raw s0] in R. rewrite K in R. unfold kept in R.
    destruct (mem m _ && Nat.ltb o (noracles e)) eqn:X; [|discriminate]. apply andb_true_iff in X. destruct X as [_ X].
    apply Nat.ltb_lt in X. destruct (raw s m o) as [[p' ex']|]; [|discriminate].
    destruct (Z.ltb_spec (now s) ex'); [|discriminate]. injection R as <- <-. split; [cbn; lia|exact X]. }
  destruct (init_cur_loop_spec e s0 AL (markets s) s0 (fun k H => H) eq_refl eq_refl eq_refl eq_refl) as [s' [E' [A [B [C [D F]]]]]].
  rewrite E'. exists s'. split; [reflexivity|]. cbn [now markets raw status s0] in A, B, C, D.
  assert (Hlive : forall m, In m (map m_id (markets s)) -> live e s0 m = live e s m).
  { intros m Hin. unfold live. apply live_flat_ext. intros o Ho. apply in_seq in Ho. cbn [raw now s0]. rewrite K.
    apply live_of_kept; [lia|exact Hin]. }
  assert (Hcur : forall m, cur s' m = cur_after e s m).
  { intros m. rewrite F. cbn [cur s0]. unfold cur_after. cbn [markets s0].
    destruct (mem m (active_ids (markets s))) eqn:M; [|reflexivity]. cbn [andb].
    pose proof (active_in_params _ _ M) as Hin. unfold mprice. rewrite (Hlive m Hin).
    destruct (has_raw e s0 m) eqn:HR.
    - pose proof (has_raw_live e s0 m AL HR) as L. rewrite (Hlive m Hin) in L. destruct (live e s m); [congruence|reflexivity].
    - apply has_raw_false in HR. rewrite (Hlive m Hin) in HR. rewrite HR. reflexivity. }
  repeat split; try assumption.
  - intros m o. rewrite C. apply K.
  - rewrite B. exact Hm.
  - rewrite C, K in H. unfold kept in H. destruct (_ && _); [|discriminate].
    destruct (raw s m o) as [[p' ex']|] eqn:R; [|discriminate]. destruct (now s <? ex'); [|discriminate].
    injection H as <- <-. apply (Hr _ _ _ _ R).
  - rewrite C, K in H. unfold kept in H. destruct (_ && _); [|discriminate].
    destruct (raw s m o) as [[p' ex']|] eqn:R; [|discriminate]. destruct (now s <? ex'); [|discriminate].
    injection H as <- <-. apply (Hr _ _ _ _ R).
  - intros m p H. rewrite Hcur in H. unfold cur_after in H. destruct (mem m _); [|discriminate].
    destruct (live e s m) as [|x l] eqn:L; [discriminate|]. injection H as <-.
    pose proof (mprice_nonneg e s m (GInv_Inv s I)) as P. unfold mprice in P. rewrite L in P. exact P.
Qed.

Lemma reimport_ok e s : GInv s -> exists s', reimport e s = Ok s' [1] /\
    now s' = now s /\ markets s' = markets s /\ status s' = status s /\
    (forall m o, raw s' m o = kept e s m o) /\ (forall m, cur s' m = cur_after e s m) /\ GInv s'.
Proof.
  intros I. destruct (roundtrip e s I) as [V [s' [E R]]]. exists s'. split; [|exact R].
  unfold reimport. rewrite E, V. reflexivity.
Qed.

(** * What the import preserves *)

(* the unexpired prices of every market in the params are the same *)
Lemma reimport_live e s s' out m : GInv s -> reimport e s = Ok s' out ->
  In m (map m_id (markets s)) -> live e s' m = live e s m.
Proof.
  intros I E Hin. destruct (reimport_ok e s I) as [s1 [E1 [A [B [C [D _]]]]]]. rewrite E1 in E. injection E as <- _.
  unfold live. apply live_flat_ext. intros o Ho. apply in_seq in Ho. rewrite A, D. apply live_of_kept; [lia|exact Hin].
Qed.

(* the next end blocker stores the same current price of every active market on the
   imported and on the original state (whatever happened to expired posts) *)
Lemma reimport_next_end_block e s s' out t1 o1 t2 o2 m : GInv s -> reimport e s = Ok s' out ->
  set_all e s = Ok t1 o1 -> set_all e s' = Ok t2 o2 ->
  mem m (active_ids (markets s)) = true -> cur t2 m = cur t1 m.
Proof.
  intros I E E1 E2 M. pose proof (reimport_live e s s' out m I E (active_in_params _ _ M)) as L.
  destruct (reimport_ok e s I) as [s1 [F [A [B _]]]]. rewrite F in E. injection E as <- _.
  destruct (set_all_spec e s) as [u1 [G1 [_ [_ [_ [_ H1]]]]]]. rewrite G1 in E1. injection E1 as <- _.
  destruct (set_all_spec e s1) as [u2 [G2 [_ [_ [_ [_ H2]]]]]]. rewrite G2 in E2. injection E2 as <- _.
  rewrite H1, H2, B, M. unfold mprice. rewrite L. reflexivity.
Qed.

(* a state as the end blocker leaves it: the current price of every active market is the
   median of its unexpired posts (zero when there is none) *)
Definition settled (e : env) (s : state) : Prop :=
  forall m, mem m (active_ids (markets s)) = true -> cur s m = Some (mprice e s m).

Lemma end_block_settled e s s' out : set_all e s = Ok s' out -> settled e s'.
Proof.
  intros E m M. destruct (set_all_spec e s) as [u [G [Hn [Hm [Hr [_ H]]]]]]. rewrite G in E. injection E as <- _.
  rewrite Hm in M. rewrite H, M. f_equal. symmetry. apply mprice_ext; assumption.
Qed.

(* exported right after an end blocker: GetCurrentPrice of every active market answers the same *)
Lemma reimport_settled_price e s s' out m : GInv s -> settled e s -> reimport e s = Ok s' out ->
  mem m (active_ids (markets s)) = true -> get_current_price s' m = get_current_price s m.
Proof.
  intros I S E M. destruct (reimport_ok e s I) as [s1 [F [_ [_ [_ [_ [C _]]]]]]]. rewrite F in E. injection E as <- _.
  unfold get_current_price. rewrite C, (S m M). unfold cur_after, mprice. rewrite M.
  destruct (live e s m) as [|x l]; reflexivity.
Qed.

(** * All reachable states *)

Lemma gstep_inv e s x s' out : GInv s -> gstep e s x = Ok s' out -> GInv s'.
Proof.
  intros I E. destruct x as [x| |g]; cbn [gstep] in E; [| |injection E as <- _; exact I].
  - pose proof I as [Hm [Hr Hc]].
    destruct (step_inv e s x s' out (GInv_Inv s I) E) as [_ Hc'].
    destruct x as [t| |o' m' p ex|ms|m'|c rest]; cbn [step] in E.
    + destruct (begin_block e s t) as [s1 fl] eqn:B. injection E as <- _.
      unfold begin_block in B. apply begin_loop_frame in B. destruct B as [_ [M [R _]]]. cbn in R, M.
      split; [rewrite M; exact Hm|]. split; [intros ? ? ? ?; rewrite R; apply Hr|exact Hc'].
    + destruct (set_all_spec e s) as [s1 [E1 [_ [M [R _]]]]]. rewrite E1 in E. injection E as <- _.
      split; [rewrite M; exact Hm|]. split; [intros ? ? ? ?; rewrite R; apply Hr|exact Hc'].
    + destruct (_ && _); [|discriminate]. pose proof E as E0. unfold post in E0.
      destruct (p <? 0); [discriminate|]. destruct (Z.leb_spec (ex / NS) 0) as [|Hex]; [discriminate|].
      destruct (post_ok_inv _ _ _ _ _ _ _ E) as [Hp [_ [_ ->]]].
      split; [exact Hm|]. split; [|exact Hc']. intros m o q ex'. cbn [raw with_raw]. unfold upd2.
      destruct (_ && _); [intros Eq; injection Eq as <- <-; split; lia|apply Hr].
    + unfold set_markets in E. destruct (negb _); [discriminate|]. destruct (markets_valid ms) eqn:V; [|discriminate].
      cbn [negb] in E. injection E as <- _. split; [exact V|]. split; [exact Hr|exact Hc].
    + destruct (set_one e s m'). injection E as <- _. exact I.
    + unfold consume in E. destruct (needs e c) as [[sts prs]|]; [|discriminate].
      destruct (_ && _); [|discriminate]. destruct rest; try discriminate. injection E as <- _. exact I.
  - destruct (reimport_ok e s I) as [s1 [E1 [_ [_ [_ [_ [_ G]]]]]]]. rewrite E1 in E. injection E as <- _. exact G.
Qed.

Lemma grun_inv e : forall ops s, GInv s -> GInv (grun e s ops).
Proof.
  induction ops as [|x r IH]; intros s I; [exact I|]. cbn [grun fold_left]. apply IH.
  unfold gstep'. destruct (gstep e s x) eqn:E; [eapply gstep_inv; eassumption|exact I|exact I].
Qed.

(* from every state reached by ordinary operations and re-imports, the export validates and
   the import succeeds *)
Lemma reimport_all_histories e s0 ops : GInv s0 ->
  validate_genesis (export_genesis e (grun e s0 ops)) = true /\
  exists s', gstep e (grun e s0 ops) GReimport = Ok s' [1] /\ GInv s'.
Proof.
  intros I. pose proof (grun_inv e ops s0 I) as G. split; [apply export_validates; exact G|].
  destruct (reimport_ok e _ G) as [s' [E [_ [_ [_ [_ [_ G']]]]]]]. exists s'. split; [exact E|exact G'].
Qed.

(* histories of ordinary operations are histories of the wrapper machine *)
Lemma grun_map_GOp e : forall ops s, grun e s (map GOp ops) = run e s ops.
Proof. induction ops as [|x r IH]; intros s; [reflexivity|]. cbn [map grun run fold_left]. apply IH. Qed.

(** * Where the round trip does lose information (closed witnesses) *)

(* 1. the frozen current price of an inactive market is not exported: GetCurrentPrice
      answers before the export and fails after the import *)
Definition w_env := mkEnv 1 1 [].
Definition w_inactive : state :=
  mk_state 10 [mkMarket 0 false [0%nat]] [] [(0%nat, 5)] [true].

Lemma inactive_price_lost :
  GInv w_inactive /\ get_current_price w_inactive 0 = Some 5 /\
  exists s', reimport w_env w_inactive = Ok s' [1] /\ get_current_price s' 0 = None.
Proof.
  split; [|split; [reflexivity|eexists; split; [vm_compute; reflexivity|]; vm_compute; reflexivity]].
  split; [reflexivity|]. split.
  - intros m o p ex. unfold w_inactive, mk_state. cbn [raw fold_left]. discriminate.
  - intros m p. unfold w_inactive, mk_state. cbn [cur fold_left fst snd]. unfold upd. destruct (Nat.eqb m 0); [intros E; injection E as <-; lia|discriminate].
Qed.

(* 2. the unexpired posts of a market that is (temporarily) not in the params are not
      exported: when the market is restored the original computes a price from them,
      the imported chain has none *)
Definition w_removed : state :=
  mk_state 10 [] [(0%nat, 0%nat, 7, 100 * NS)] [] [true].
Definition w_restore : list op := [SetMarkets [mkMarket 0 true [0%nat]]; EndBlock].

Lemma removed_market_posts_lost :
  GInv w_removed /\
  get_current_price (run w_env w_removed w_restore) 0 = Some 7 /\
  exists s', reimport w_env w_removed = Ok s' [1] /\ get_current_price (run w_env s' w_restore) 0 = None.
Proof.
  split; [|split].
  3: { eexists. split; [vm_compute; reflexivity|]. vm_compute. reflexivity. }
  2: { vm_compute. reflexivity. }
  split; [reflexivity|]. split.
  - intros m o p ex. unfold w_removed, mk_state. cbn [raw fold_left]. unfold upd2.
    destruct (_ && _); [intros E; injection E as <- <-; split; [lia|vm_compute; reflexivity]|discriminate].
  - intros m p. unfold w_removed, mk_state. cbn [cur fold_left]. discriminate.
Qed.
