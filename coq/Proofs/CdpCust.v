(* C04: custody.  The cdp module account holds exactly the collateral recorded in
   cdps, every cdp's collateral is the sum of its deposits, every deposit belongs
   to a stored cdp — preserved by every operation, hence along every history. *)
From Kava Require Import Base.Prelude Base.Dec Model.Cdp Proofs.CdpRatio Proofs.Cdp Proofs.CdpInv Proofs.CdpInv2 Proofs.CdpInv3.
Local Open Scope Z_scope.

(** * Finite sums *)
Lemma sumN_ext n f g : (forall i, (i < n)%nat -> f i = g i) -> sumN n f = sumN n g.
Proof.
  induction n as [|n IH]; intros H; cbn [sumN]; [reflexivity|]. rewrite IH, H by (intros; try apply H; lia). reflexivity.
Qed.

Lemma sumN_change n f g i d :
  (i < n)%nat -> g i = f i + d -> (forall j, (j < n)%nat -> j <> i -> g j = f j) -> sumN n g = sumN n f + d.
Proof.
  induction n as [|n IH]; intros Hi Hg Ho; [lia|]. cbn [sumN].
  destruct (Nat.eq_dec i n) as [->|Hne].
  - rewrite Hg. rewrite (sumN_ext n g f) by (intros j Hj; apply Ho; lia). lia.
  - rewrite IH by (try lia; try assumption; intros; apply Ho; lia). rewrite (Ho n) by lia. lia.
Qed.

Lemma sumN_zero n f : (forall i, (i < n)%nat -> f i = 0) -> sumN n f = 0.
Proof. induction n as [|n IH]; intros H; cbn [sumN]; [reflexivity|]. rewrite IH, H by (intros; try apply H; lia). reflexivity. Qed.

(** * The custody view of a state *)
Definition has (s : state) (t id : nat) : bool := match cdps s t id with Some _ => true | None => false end.
Definition denom_is (e : env) (t d : nat) : bool :=
  match get_cp e t with Some cp => Nat.eqb (cp_denom cp) d | None => false end.
Definition tcoll (s : state) (t : nat) : Z := sumN (nextid s) (coll_of s t).
(* collateral of denom d recorded in cdps *)
Definition custody' (e : env) (s : state) (d : nat) : Z :=
  sumN (ntypes e) (fun t => if denom_is e t d then tcoll s t else 0).

Definition CustInv (e : env) (s : state) : Prop :=
  (forall t id, has s t id = true ->
     coll_of s t id = dep_total e s id /\ get_cp e t <> None /\ (id < nextid s)%nat) /\
  (forall t t' id, has s t id = true -> has s t' id = true -> t = t') /\
  (forall id u a, deps s id u = Some a -> 0 <= a /\ (u < nusers e)%nat /\ exists t, has s t id = true) /\
  (forall t cp, get_cp e t = Some cp -> bal s (CDPM e) (cp_denom cp) = custody' e s (cp_denom cp)).

(* the stable and the debt denoms are not collateral denoms *)
Definition env_wf (e : env) : Prop :=
  forall t cp, get_cp e t = Some cp -> cp_denom cp <> d_usdx e /\ cp_denom cp <> d_debt e.

Lemma get_cp_lt e t cp : get_cp e t = Some cp -> (t < ntypes e)%nat.
Proof. unfold get_cp, ntypes. intros H. apply nth_error_Some. congruence. Qed.

Lemma coll_of_none s t id : has s t id = false -> coll_of s t id = 0.
Proof. unfold has, coll_of. destruct (cdps s t id); [discriminate|reflexivity]. Qed.

(* custody' depends only on the view *)
Lemma custody_ext e s s' d :
  nextid s' = nextid s -> (forall t id, coll_of s' t id = coll_of s t id) -> custody' e s' d = custody' e s d.
Proof.
  intros Hn Hc. unfold custody'. apply sumN_ext. intros t _. destruct (denom_is e t d); [|reflexivity].
  unfold tcoll. rewrite Hn. apply sumN_ext. intros id _. apply Hc.
Qed.

(* one cdp's collateral changes by delta *)
Lemma custody_change e s s' t0 id0 delta d :
  nextid s' = nextid s -> (t0 < ntypes e)%nat -> (id0 < nextid s)%nat ->
  coll_of s' t0 id0 = coll_of s t0 id0 + delta ->
  (forall t id, (t, id) <> (t0, id0) -> coll_of s' t id = coll_of s t id) ->
  custody' e s' d = custody' e s d + (if denom_is e t0 d then delta else 0).
Proof.
  intros Hn Ht Hi Hc Ho. unfold custody'.
  apply (sumN_change (ntypes e) _ _ t0); [exact Ht| |].
  - destruct (denom_is e t0 d); [|lia]. unfold tcoll. rewrite Hn.
    apply (sumN_change (nextid s) _ _ id0); [exact Hi|exact Hc|].
    intros j _ Hj. apply Ho. intros H; inversion H; contradiction.
  - intros t _ Hne. destruct (denom_is e t d); [|reflexivity]. unfold tcoll. rewrite Hn.
    apply sumN_ext. intros id _. apply Ho. intros H; inversion H; contradiction.
Qed.

(* a new cdp at the next id *)
Lemma custody_new e s s' t0 coll d :
  nextid s' = S (nextid s) -> (t0 < ntypes e)%nat ->
  (forall t, coll_of s t (nextid s) = 0) ->
  coll_of s' t0 (nextid s) = coll ->
  (forall t id, (t, id) <> (t0, nextid s) -> coll_of s' t id = coll_of s t id) ->
  custody' e s' d = custody' e s d + (if denom_is e t0 d then coll else 0).
Proof.
  intros Hn Ht Hz Hc Ho. unfold custody'.
  apply (sumN_change (ntypes e) _ _ t0); [exact Ht| |].
  - destruct (denom_is e t0 d); [|lia]. unfold tcoll. rewrite Hn. cbn [sumN]. rewrite Hc.
    rewrite (sumN_ext (nextid s) (coll_of s' t0) (coll_of s t0)); [lia|].
    intros id Hid. apply Ho. intros H; inversion H; lia.
  - intros t _ Hne. destruct (denom_is e t d); [|reflexivity]. unfold tcoll. rewrite Hn. cbn [sumN].
    rewrite (Ho t (nextid s)) by (intros H; inversion H; contradiction). rewrite Hz.
    rewrite (sumN_ext (nextid s) (coll_of s' t) (coll_of s t)); [lia|].
    intros id Hid. apply Ho. intros H; inversion H; contradiction.
Qed.

(* deposits of one cdp *)
Lemma dep_total_change e s s' id u delta :
  (u < nusers e)%nat -> oz0 (deps s' id u) = oz0 (deps s id u) + delta ->
  (forall w, w <> u -> deps s' id w = deps s id w) ->
  dep_total e s' id = dep_total e s id + delta.
Proof.
  intros Hu Hc Ho. unfold dep_total. apply (sumN_change (nusers e) _ _ u); [exact Hu|exact Hc|].
  intros w _ Hw. rewrite Ho by exact Hw. reflexivity.
Qed.

Lemma dep_total_same e s s' id : (forall w, deps s' id w = deps s id w) -> dep_total e s' id = dep_total e s id.
Proof. intros H. unfold dep_total. apply sumN_ext. intros w _. rewrite H. reflexivity. Qed.

(* CustInv depends only on the view *)
Lemma CustInv_view e s s' :
  (forall t id, has s' t id = has s t id /\ coll_of s' t id = coll_of s t id) ->
  deps s' = deps s -> nextid s' = nextid s ->
  (forall t cp, get_cp e t = Some cp -> bal s' (CDPM e) (cp_denom cp) = bal s (CDPM e) (cp_denom cp)) ->
  CustInv e s -> CustInv e s'.
Proof.
  intros Hv Hd Hn Hb (P1 & P2 & P3 & P4). split; [|split; [|split]].
  - intros t id H. destruct (Hv t id) as [Hh Hc]. rewrite Hh in H. destruct (P1 t id H) as (A & B & C).
    rewrite Hc, Hn. split; [|split; assumption]. rewrite A. symmetry. apply dep_total_same. intros w. rewrite Hd. reflexivity.
  - intros t t' id H H'. rewrite (proj1 (Hv t id)) in H. rewrite (proj1 (Hv t' id)) in H'. eapply P2; eassumption.
  - intros id u a H. rewrite Hd in H. destruct (P3 id u a H) as (A & B & t & C). split; [exact A|split; [exact B|]].
    exists t. rewrite (proj1 (Hv t id)). exact C.
  - intros t cp Hcp. rewrite (Hb t cp Hcp), (P4 t cp Hcp). symmetry. apply custody_ext; [exact Hn|]. intros t0 id. apply Hv.
Qed.

(** * Bank helpers: balances they do not touch *)
Lemma b_send_other s f t d x s' :
  b_send s f t d x = Some s' -> forall w d0, d0 <> d \/ (w <> f /\ w <> t) -> bal s' w d0 = bal s w d0.
Proof.
  unfold b_send. destruct (x <=? 0); [intros H; inversion H; reflexivity|].
  destruct (bal s f d <? x); [discriminate|]. intros H; inversion H; subst. intros w d0 Hd. cbn. unfold upd2.
  repeat match goal with |- context [Nat.eqb ?a ?b] => destruct (Nat.eqb_spec a b) end; cbn [andb]; subst; try reflexivity;
  destruct Hd as [Hd|[Hd1 Hd2]]; congruence.
Qed.

Lemma b_mint_other s m d x : forall w d0, d0 <> d \/ w <> m -> bal (b_mint s m d x) w d0 = bal s w d0.
Proof.
  unfold b_mint. destruct (x <=? 0); [reflexivity|]. intros w d0 Hd. cbn. unfold upd2.
  repeat match goal with |- context [Nat.eqb ?a ?b] => destruct (Nat.eqb_spec a b) end; cbn [andb]; subst; try reflexivity;
  destruct Hd; congruence.
Qed.

Lemma b_burn_other s m d x s' :
  b_burn s m d x = Some s' -> forall w d0, d0 <> d \/ w <> m -> bal s' w d0 = bal s w d0.
Proof.
  unfold b_burn. destruct (x <=? 0); [intros H; inversion H; reflexivity|].
  destruct (bal s m d <? x); [discriminate|]. intros H; inversion H; subst. intros w d0 Hd. cbn. unfold upd2.
  repeat match goal with |- context [Nat.eqb ?a ?b] => destruct (Nat.eqb_spec a b) end; cbn [andb]; subst; try reflexivity;
  destruct Hd; congruence.
Qed.

(** * Views of the record helpers *)
Lemma has_upd2_some s t0 id0 c t id :
  (match upd2 (cdps s) t0 id0 (Some c) t id with Some _ => true | None => false end) =
  if Nat.eqb t t0 && Nat.eqb id id0 then true else has s t id.
Proof. unfold upd2, has. destruct (_ && _); reflexivity. Qed.

Lemma update_cdp_view e s cp c r s' u :
  update_cdp e s cp c r = Ok s' u ->
  cdps s' = upd2 (cdps s) (c_type c) (c_id c) (Some c) /\ deps s' = deps s /\ bal s' = bal s /\
  nextid s' = nextid s /\ has s (c_type c) (c_id c) = true.
Proof.
  intros H. apply update_cdp_spec in H. destruct H as (old & Hg & ->). cbn. repeat split.
  unfold get_cdp in Hg. destruct (get_cp e (c_type c)); [|discriminate]. unfold has. rewrite Hg. reflexivity.
Qed.

(* storing, at an occupied key, a record with the given collateral *)
Lemma view_after_store s s' c :
  cdps s' = upd2 (cdps s) (c_type c) (c_id c) (Some c) -> has s (c_type c) (c_id c) = true ->
  (forall t id, has s' t id = has s t id) /\
  coll_of s' (c_type c) (c_id c) = c_coll c /\
  (forall t id, (t, id) <> (c_type c, c_id c) -> coll_of s' t id = coll_of s t id).
Proof.
  intros Hc Hh. split; [|split].
  - intros t id. unfold has at 1. rewrite Hc. unfold upd2.
    destruct (Nat.eqb_spec t (c_type c)) as [->|]; [destruct (Nat.eqb_spec id (c_id c)) as [->|]|]; cbn [andb]; auto.
  - unfold coll_of. rewrite Hc. unfold upd2. rewrite !Nat.eqb_refl. reflexivity.
  - intros t id Hne. unfold coll_of. rewrite Hc. unfold upd2.
    destruct (Nat.eqb_spec t (c_type c)) as [->|]; [destruct (Nat.eqb_spec id (c_id c)) as [->|]|]; cbn [andb]; try reflexivity.
    contradiction Hne. reflexivity.
Qed.

(* SynchronizeInterest does not change the custody view *)
Lemma sync_interest_view e s cp c s1 c1 :
  cdps s (c_type c) (c_id c) = Some c -> sync_interest e s cp c = Ok s1 c1 ->
  (forall t id, has s1 t id = has s t id /\ coll_of s1 t id = coll_of s t id) /\
  deps s1 = deps s /\ nextid s1 = nextid s /\ bal s1 = bal s.
Proof.
  intros Hst H. pose proof (sync_interest_spec _ _ _ _ _ _ H) as (Henv & _).
  destruct Henv as (_&_&Hb&_&Hd&_&_&Hn&_). split; [|auto].
  assert (Hh : has s (c_type c) (c_id c) = true) by (unfold has; rewrite Hst; reflexivity).
  assert (Hco : coll_of s (c_type c) (c_id c) = c_coll c) by (unfold coll_of; rewrite Hst; reflexivity).
  (* every record written sits at the key of c and has the collateral of c *)
  assert (G : forall s0 c', (forall t id, cdps s0 t id = upd2 (cdps s) (c_type c) (c_id c) (Some c') t id) -> c_coll c' = c_coll c ->
     forall t id, has s0 t id = has s t id /\ coll_of s0 t id = coll_of s t id).
  { intros s0 c' H0 Hc' t id. unfold has at 1, coll_of at 1. rewrite H0. unfold upd2.
    destruct (Nat.eqb_spec t (c_type c)) as [->|]; [destruct (Nat.eqb_spec id (c_id c)) as [->|]|]; cbn [andb]; auto.
    rewrite Hh, Hco. auto. }
  unfold sync_interest in H.
  destruct (ifac s (c_type c)) as [gf|].
  - destruct (ptime s (c_type c)) as [prev|]; [|inversion H; subst; auto].
    destruct (_ && _); [inversion H; subst; auto|].
    destruct (update_cdp _ _ _ _ _) as [s2 []| |] eqn:E; try discriminate. inversion H; subst.
    apply update_cdp_spec in E. destruct E as (old & _ & ->).
    destruct (new_interest gf (c_ifac c) (cdp_debt c) =? 0).
    + apply (G _ (with_fees (with_fees c (c_fees c) prev (c_ifac c)) (c_fees c + new_interest gf (c_ifac c) (cdp_debt c)) prev gf)); [|reflexivity].
      intros t id. cbn. unfold upd2.
      destruct (Nat.eqb t (c_type c) && Nat.eqb id (c_id c)); reflexivity.
    + apply (G _ (with_fees c (c_fees c + new_interest gf (c_ifac c) (cdp_debt c)) prev gf)); [|reflexivity].
      intros t id. reflexivity.
  - inversion H; subst. apply (G _ (with_fees c (c_fees c) (now s) PREC)); [|reflexivity]. intros t id. reflexivity.
Qed.

(** * The three ways the custody view changes *)
Lemma denom_is_self e t cp : get_cp e t = Some cp -> denom_is e t (cp_denom cp) = true.
Proof. intros H. unfold denom_is. rewrite H. apply Nat.eqb_refl. Qed.

(* one cdp's collateral, one of its deposits and the module balance move together by delta *)
Lemma CustInv_adjust e s s' T I u delta cp :
  CustInv e s -> get_cp e T = Some cp -> has s T I = true -> (u < nusers e)%nat ->
  (forall t id, has s' t id = has s t id) ->
  coll_of s' T I = coll_of s T I + delta ->
  (forall t id, (t, id) <> (T, I) -> coll_of s' t id = coll_of s t id) ->
  oz0 (deps s' I u) = oz0 (deps s I u) + delta ->
  (forall id w, (id, w) <> (I, u) -> deps s' id w = deps s id w) ->
  (forall a, deps s' I u = Some a -> 0 <= a) ->
  nextid s' = nextid s ->
  bal s' (CDPM e) (cp_denom cp) = bal s (CDPM e) (cp_denom cp) + delta ->
  (forall t' cp', get_cp e t' = Some cp' -> cp_denom cp' <> cp_denom cp ->
     bal s' (CDPM e) (cp_denom cp') = bal s (CDPM e) (cp_denom cp')) ->
  CustInv e s'.
Proof.
  intros (P1 & P2 & P3 & P4) Hcp Hh Hu Hhas Hc Hco Hd Hdo Hda Hn Hb Hbo.
  destruct (P1 T I Hh) as (A1 & A2 & A3).
  assert (Hdt : dep_total e s' I = dep_total e s I + delta).
  { apply (dep_total_change e s s' I u delta Hu Hd). intros w Hw. apply Hdo. intros H; inversion H; contradiction. }
  split; [|split; [|split]].
  - intros t id H. rewrite Hhas in H. destruct (P1 t id H) as (B1 & B2 & B3). rewrite Hn. split; [|split; assumption].
    destruct (Nat.eq_dec id I) as [->|Hne].
    + assert (t = T) by (eapply P2; eassumption). subst t. rewrite Hc, Hdt, A1. reflexivity.
    + rewrite Hco by (intros H0; inversion H0; contradiction). rewrite B1. symmetry. apply dep_total_same.
      intros w. apply Hdo. intros H0; inversion H0; contradiction.
  - intros t t' id H H'. rewrite Hhas in H, H'. eapply P2; eassumption.
  - intros id w a H. destruct (Nat.eq_dec id I) as [->|Hne]; [destruct (Nat.eq_dec w u) as [->|Hnw]|].
    + split; [eapply Hda; exact H|split; [exact Hu|]]. exists T. rewrite Hhas. exact Hh.
    + rewrite Hdo in H by (intros H0; inversion H0; contradiction). destruct (P3 I w a H) as (B1 & B2 & t & B3).
      split; [exact B1|split; [exact B2|]]. exists t. rewrite Hhas. exact B3.
    + rewrite Hdo in H by (intros H0; inversion H0; contradiction). destruct (P3 id w a H) as (B1 & B2 & t & B3).
      split; [exact B1|split; [exact B2|]]. exists t. rewrite Hhas. exact B3.
  - intros t' cp' Hcp'.
    rewrite (custody_change e s s' T I delta (cp_denom cp') Hn (get_cp_lt _ _ _ Hcp) A3 Hc Hco).
    destruct (Nat.eq_dec (cp_denom cp') (cp_denom cp)) as [Heq|Hne].
    + rewrite Heq, Hb, (P4 T cp Hcp), (denom_is_self e T cp Hcp). reflexivity.
    + rewrite (Hbo t' cp' Hcp' Hne), (P4 t' cp' Hcp'). unfold denom_is. rewrite Hcp.
      destruct (Nat.eqb_spec (cp_denom cp) (cp_denom cp')); [congruence|lia].
Qed.

(* a new cdp at the next id with one deposit of its whole collateral *)
Lemma CustInv_new e s s' T u coll cp :
  CustInv e s -> get_cp e T = Some cp -> (u < nusers e)%nat -> 0 <= coll ->
  nextid s' = S (nextid s) ->
  (forall t id, has s' t id = if Nat.eqb t T && Nat.eqb id (nextid s) then true else has s t id) ->
  coll_of s' T (nextid s) = coll ->
  (forall t id, (t, id) <> (T, nextid s) -> coll_of s' t id = coll_of s t id) ->
  deps s' (nextid s) u = Some coll ->
  (forall id w, (id, w) <> (nextid s, u) -> deps s' id w = deps s id w) ->
  bal s' (CDPM e) (cp_denom cp) = bal s (CDPM e) (cp_denom cp) + coll ->
  (forall t' cp', get_cp e t' = Some cp' -> cp_denom cp' <> cp_denom cp ->
     bal s' (CDPM e) (cp_denom cp') = bal s (CDPM e) (cp_denom cp')) ->
  CustInv e s'.
Proof.
  intros (P1 & P2 & P3 & P4) Hcp Hu Hc0 Hn Hhas Hc Hco Hd Hdo Hb Hbo.
  assert (Hfresh : forall t, has s t (nextid s) = false).
  { intros t. destruct (has s t (nextid s)) eqn:E; [|reflexivity]. destruct (P1 _ _ E) as (_ & _ & L). lia. }
  assert (Hnodep : forall w, deps s (nextid s) w = None).
  { intros w. destruct (deps s (nextid s) w) as [a|] eqn:E; [|reflexivity].
    destruct (P3 _ _ _ E) as (_ & _ & t & Ht). rewrite Hfresh in Ht. discriminate. }
  split; [|split; [|split]].
  - intros t id H. rewrite Hhas in H. rewrite Hn.
    destruct (Nat.eqb_spec t T) as [Et|Nt]; [destruct (Nat.eqb_spec id (nextid s)) as [Ei|Ni]|]; cbn [andb] in H; try subst t; try subst id.
    + split; [|split; [congruence|lia]]. rewrite Hc.
      assert (dep_total e s' (nextid s) = dep_total e s (nextid s) + coll).
      { apply (dep_total_change e s s' (nextid s) u coll Hu); [rewrite Hd, Hnodep; cbn; lia|].
        intros w Hw. apply Hdo. intros H0; inversion H0; contradiction. }
      rewrite H0. unfold dep_total. rewrite sumN_zero; [lia|]. intros w _. rewrite Hnodep. reflexivity.
    + destruct (P1 T id H) as (B1 & B2 & B3). split; [|split; [assumption|lia]].
      rewrite Hco by (intros H0; inversion H0; contradiction). rewrite B1. symmetry. apply dep_total_same.
      intros w. apply Hdo. intros H0; inversion H0; lia.
    + destruct (P1 t id H) as (B1 & B2 & B3). split; [|split; [assumption|lia]].
      rewrite Hco by (intros H0; inversion H0; contradiction). rewrite B1. symmetry. apply dep_total_same.
      intros w. apply Hdo. intros H0; inversion H0; lia.
  - intros t t' id H H'. rewrite Hhas in H, H'.
    destruct (Nat.eqb_spec id (nextid s)) as [Ei|Ni]; [subst id|].
    + rewrite !Hfresh in *. rewrite !andb_true_r in *.
      destruct (Nat.eqb_spec t T); [|discriminate]. destruct (Nat.eqb_spec t' T); [|discriminate]. congruence.
    + rewrite !andb_false_r in *. eapply P2; eassumption.
  - intros id w a H. destruct (Nat.eq_dec id (nextid s)) as [->|Hne]; [destruct (Nat.eq_dec w u) as [->|Hnw]|].
    + rewrite Hd in H. inversion H; subst. split; [exact Hc0|split; [exact Hu|]]. exists T. rewrite Hhas, !Nat.eqb_refl. reflexivity.
    + rewrite Hdo in H by (intros H0; inversion H0; contradiction). rewrite Hnodep in H. discriminate.
    + rewrite Hdo in H by (intros H0; inversion H0; contradiction). destruct (P3 id w a H) as (B1 & B2 & t & B3).
      split; [exact B1|split; [exact B2|]]. exists t. rewrite Hhas, B3. destruct (_ && _); reflexivity.
  - intros t' cp' Hcp'.
    rewrite (custody_new e s s' T coll (cp_denom cp') Hn (get_cp_lt _ _ _ Hcp)
               (fun t => coll_of_none s t (nextid s) (Hfresh t)) Hc Hco).
    destruct (Nat.eq_dec (cp_denom cp') (cp_denom cp)) as [Heq|Hne].
    + rewrite Heq, Hb, (P4 T cp Hcp), (denom_is_self e T cp Hcp). reflexivity.
    + rewrite (Hbo t' cp' Hcp' Hne), (P4 t' cp' Hcp'). unfold denom_is. rewrite Hcp.
      destruct (Nat.eqb_spec (cp_denom cp) (cp_denom cp')); [congruence|lia].
Qed.

(* a cdp is removed together with all its deposits; the module pays out its collateral *)
Lemma CustInv_remove e s s' T I cp :
  CustInv e s -> get_cp e T = Some cp -> has s T I = true ->
  nextid s' = nextid s ->
  (forall t id, has s' t id = if Nat.eqb t T && Nat.eqb id I then false else has s t id) ->
  (forall t id, (t, id) <> (T, I) -> coll_of s' t id = coll_of s t id) ->
  (forall w, deps s' I w = None) ->
  (forall id w, id <> I -> deps s' id w = deps s id w) ->
  bal s' (CDPM e) (cp_denom cp) = bal s (CDPM e) (cp_denom cp) - coll_of s T I ->
  (forall t' cp', get_cp e t' = Some cp' -> cp_denom cp' <> cp_denom cp ->
     bal s' (CDPM e) (cp_denom cp') = bal s (CDPM e) (cp_denom cp')) ->
  CustInv e s'.
Proof.
  intros (P1 & P2 & P3 & P4) Hcp Hh Hn Hhas Hco Hd Hdo Hb Hbo.
  destruct (P1 T I Hh) as (A1 & A2 & A3).
  assert (Hc0 : coll_of s' T I = coll_of s T I + (- coll_of s T I)).
  { rewrite coll_of_none; [lia|]. rewrite Hhas, !Nat.eqb_refl. reflexivity. }
  split; [|split; [|split]].
  - intros t id H. rewrite Hhas in H. rewrite Hn.
    destruct (Nat.eqb_spec t T) as [Et|Nt]; [destruct (Nat.eqb_spec id I) as [Ei|Ni]|]; cbn [andb] in H; try subst t; [discriminate| |].
    + destruct (P1 T id H) as (B1 & B2 & B3). split; [|split; assumption].
      rewrite Hco by (intros H0; inversion H0; contradiction). rewrite B1. symmetry. apply dep_total_same. intros w. apply Hdo, Ni.
    + destruct (P1 t id H) as (B1 & B2 & B3). split; [|split; assumption].
      rewrite Hco by (intros H0; inversion H0; contradiction). rewrite B1. symmetry. apply dep_total_same. intros w. apply Hdo.
      intros ->. apply Nt. eapply P2; eassumption.
  - intros t t' id H H'. rewrite Hhas in H, H'.
    destruct (_ && _) in H; [discriminate|]. destruct (_ && _) in H'; [discriminate|]. eapply P2; eassumption.
  - intros id w a H. destruct (Nat.eq_dec id I) as [->|Hne].
    + rewrite Hd in H. discriminate.
    + rewrite Hdo in H by exact Hne. destruct (P3 id w a H) as (B1 & B2 & t & B3).
      split; [exact B1|split; [exact B2|]]. exists t. rewrite Hhas, B3.
      destruct (Nat.eqb_spec id I); [contradiction|]. rewrite andb_false_r. reflexivity.
  - intros t' cp' Hcp'.
    rewrite (custody_change e s s' T I (- coll_of s T I) (cp_denom cp') Hn (get_cp_lt _ _ _ Hcp) A3 Hc0 Hco).
    destruct (Nat.eq_dec (cp_denom cp') (cp_denom cp)) as [Heq|Hne].
    + rewrite Heq, Hb, (P4 T cp Hcp), (denom_is_self e T cp Hcp). lia.
    + rewrite (Hbo t' cp' Hcp' Hne), (P4 t' cp' Hcp'). unfold denom_is. rewrite Hcp.
      destruct (Nat.eqb_spec (cp_denom cp) (cp_denom cp')); [congruence|lia].
Qed.

(** * Operations *)
Lemma view_of_cdps s s' : cdps s' = cdps s -> forall t id, has s' t id = has s t id /\ coll_of s' t id = coll_of s t id.
Proof. intros H t id. unfold has, coll_of. rewrite H. auto. Qed.

Lemma user_not_cdpm e u : (u < nusers e)%nat -> u <> CDPM e.
Proof. unfold CDPM. lia. Qed.

Lemma stored_view s c : cdps s (c_type c) (c_id c) = Some c ->
  has s (c_type c) (c_id c) = true /\ coll_of s (c_type c) (c_id c) = c_coll c.
Proof. intros H. unfold has, coll_of. rewrite H. auto. Qed.

Lemma sync_interest_CustInv e s cp c s1 c1 :
  CustInv e s -> cdps s (c_type c) (c_id c) = Some c -> sync_interest e s cp c = Ok s1 c1 -> CustInv e s1.
Proof.
  intros HC Hst H. destruct (sync_interest_view _ _ _ _ _ _ Hst H) as (V & D & N & B).
  apply (CustInv_view e s); try assumption. intros t cp' _. rewrite B. reflexivity.
Qed.

(* DepositCollateral *)
Lemma deposit_CustInv e s o u t cd x s' v :
  IdxInv e s -> CustInv e s -> (u < nusers e)%nat -> deposit e s o u t cd x = Ok s' v -> CustInv e s'.
Proof.
  intros HI HC Hu. unfold deposit. destruct (Z.ltb_spec 0 x) as [Hx|]; [|discriminate]. cbn [negb].
  destruct (validate_collateral e s t cd) as [cp|] eqn:Ev; [|discriminate].
  apply validate_collateral_ok in Ev. destruct Ev as (Hcp & Hcd & _).
  destruct (find_cdp e s o t) as [c0|] eqn:Ef; [|discriminate].
  destruct (find_cdp_stored' _ _ _ _ _ _ HI Ef Hcp) as [Ht Hst].
  destruct (bal s u cd <? x); [discriminate|].
  destruct (sync_interest e s cp c0) as [s1 c| |] eqn:Es; try discriminate.
  pose proof (sync_interest_spec _ _ _ _ _ _ Es) as (_ & Hid & Hty & _).
  pose proof (sync_interest_CustInv _ _ _ _ _ _ HC Hst Es) as HC1.
  apply sync_interest_IdxInv in Es; try assumption; [|rewrite Ht; assumption].
  destruct Es as (HI1 & Hst1). destruct (stored_view _ _ Hst1) as [Hh1 Hco1].
  destruct (b_send s1 u (CDPM e) cd x) as [s2|] eqn:Eb; [|discriminate].
  intros H. apply update_cdp_view in H. destruct H as (Hc' & Hd' & Hb' & Hn' & _). cbn in Hc', Hd', Hb', Hn'.
  pose proof (b_send_frame _ _ _ _ _ _ Eb) as (F1 & F2 & _ & _ & _ & _ & _ & F8 & _).
  destruct (b_send_bal _ _ _ _ _ _ Eb (user_not_cdpm e u Hu) ltac:(lia)) as [_ Hbal].
  assert (Hcpc : get_cp e (c_type c) = Some cp) by (rewrite Hty, Ht; exact Hcp).
  set (c1 := with_coll c (c_coll c + x)) in *.
  assert (Hv : (forall t0 id, has s' t0 id = has s1 t0 id) /\ coll_of s' (c_type c) (c_id c) = c_coll c + x /\
               (forall t0 id, (t0, id) <> (c_type c, c_id c) -> coll_of s' t0 id = coll_of s1 t0 id)).
  { assert (Hh3 : has s1 (c_type c1) (c_id c1) = true) by exact Hh1.
    split; [|split].
    - intros t0 id. unfold has. rewrite Hc'. unfold upd2. cbn [c1 with_coll c_type c_id]. rewrite F1.
      destruct (Nat.eqb_spec t0 (c_type c)) as [E1|]; [destruct (Nat.eqb_spec id (c_id c)) as [E2|]|]; cbn [andb]; try reflexivity.
      subst. unfold has in Hh1. destruct (cdps s1 (c_type c) (c_id c)); [reflexivity|discriminate].
    - unfold coll_of. rewrite Hc'. unfold upd2. cbn [c1 with_coll c_type c_id c_coll]. rewrite !Nat.eqb_refl. reflexivity.
    - intros t0 id Hne. unfold coll_of. rewrite Hc'. unfold upd2. cbn [c1 with_coll c_type c_id]. rewrite F1.
      destruct (Nat.eqb_spec t0 (c_type c)) as [E1|]; [destruct (Nat.eqb_spec id (c_id c)) as [E2|]|]; cbn [andb]; try reflexivity.
      subst. contradiction Hne. reflexivity. }
  destruct Hv as (V1 & V2 & V3).
  apply (CustInv_adjust e s1 s' (c_type c) (c_id c) u x cp HC1 Hcpc Hh1 Hu V1); try assumption.
  - rewrite V2, Hco1. reflexivity.
  - rewrite Hd'. unfold upd2. rewrite !Nat.eqb_refl. cbn [andb oz0]. rewrite ?F2. destruct (deps s1 (c_id c) u); cbn; lia.
  - intros id w Hne. rewrite Hd'. unfold upd2. rewrite F2.
    destruct (Nat.eqb_spec id (c_id c)) as [E1|]; [destruct (Nat.eqb_spec w u) as [E2|]|]; cbn [andb]; try reflexivity.
    subst. contradiction Hne. reflexivity.
  - intros a Ha. rewrite Hd' in Ha. unfold upd2 in Ha. rewrite !Nat.eqb_refl in Ha. cbn [andb] in Ha. inversion Ha; subst.
    rewrite ?F2. destruct (deps s1 (c_id c) u) as [a0|] eqn:Ea; [|lia].
    destruct HC1 as (_ & _ & P3 & _). destruct (P3 _ _ _ Ea) as (A & _). lia.
  - rewrite Hn'. exact F8.
  - rewrite Hb', Hbal, <- Hcd, !Nat.eqb_refl. cbn [andb].
    destruct (Nat.eqb_spec (CDPM e) u) as [E|]; [exfalso; apply (user_not_cdpm e u Hu); congruence|]. cbn [andb]. lia.
  - intros t' cp' Hcp' Hne. rewrite Hb'. apply (b_send_other _ _ _ _ _ _ Eb). left. congruence.
Qed.

(* the view after UpdateCdpAndCollateralRatioIndex on top of a state whose records are those of s1 *)
Lemma update_view s1 s3 s' c1 :
  cdps s3 = cdps s1 -> cdps s' = upd2 (cdps s3) (c_type c1) (c_id c1) (Some c1) ->
  has s1 (c_type c1) (c_id c1) = true ->
  (forall t0 id, has s' t0 id = has s1 t0 id) /\ coll_of s' (c_type c1) (c_id c1) = c_coll c1 /\
  (forall t0 id, (t0, id) <> (c_type c1, c_id c1) -> coll_of s' t0 id = coll_of s1 t0 id).
Proof.
  intros F1 Hc' Hh1. split; [|split].
  - intros t0 id. unfold has. rewrite Hc'. unfold upd2. rewrite F1.
    destruct (Nat.eqb_spec t0 (c_type c1)) as [E1|]; [destruct (Nat.eqb_spec id (c_id c1)) as [E2|]|]; cbn [andb]; try reflexivity.
    subst. unfold has in Hh1. destruct (cdps s1 (c_type c1) (c_id c1)); [reflexivity|discriminate].
  - unfold coll_of. rewrite Hc'. unfold upd2. rewrite !Nat.eqb_refl. reflexivity.
  - intros t0 id Hne. unfold coll_of. rewrite Hc'. unfold upd2. rewrite F1.
    destruct (Nat.eqb_spec t0 (c_type c1)) as [E1|]; [destruct (Nat.eqb_spec id (c_id c1)) as [E2|]|]; cbn [andb]; try reflexivity.
    subst. contradiction Hne. reflexivity.
Qed.

(* WithdrawCollateral *)
Lemma withdraw_CustInv e s o u t cd x s' v :
  IdxInv e s -> CustInv e s -> (u < nusers e)%nat -> withdraw e s o u t cd x = Ok s' v -> CustInv e s'.
Proof.
  intros HI HC Hu. unfold withdraw. destruct (Z.ltb_spec 0 x) as [Hx|]; [|discriminate]. cbn [negb].
  destruct (validate_collateral e s t cd) as [cp|] eqn:Ev; [|discriminate].
  apply validate_collateral_ok in Ev. destruct Ev as (Hcp & Hcd & _).
  destruct (find_cdp e s o t) as [c0|] eqn:Ef; [|discriminate].
  destruct (find_cdp_stored' _ _ _ _ _ _ HI Ef Hcp) as [Ht Hst].
  destruct (deps s (c_id c0) u) as [a|] eqn:Ea; [|discriminate].
  destruct (Z.ltb_spec a x) as [|Hax]; [discriminate|].
  destruct (sync_interest e s cp c0) as [s1 c| |] eqn:Es; try discriminate.
  pose proof (sync_interest_spec _ _ _ _ _ _ Es) as (Henv & Hid & Hty & _).
  pose proof (sync_interest_CustInv _ _ _ _ _ _ HC Hst Es) as HC1.
  apply sync_interest_IdxInv in Es; try assumption; [|rewrite Ht; assumption].
  destruct Es as (HI1 & Hst1). destruct (stored_view _ _ Hst1) as [Hh1 Hco1].
  destruct (Z.ltb_spec (c_coll c) x) as [|Hcx]; [discriminate|].
  destruct (ratio_gate _ _ _ _ _ _) as [[] []| |]; try discriminate.
  destruct (b_send s1 (CDPM e) u cd x) as [s2|] eqn:Eb; [|discriminate].
  destruct (update_cdp _ _ _ _ _) as [s3 []| |] eqn:Eu; try discriminate.
  intros H.
  apply update_cdp_view in Eu. destruct Eu as (Hc3 & Hd3 & Hb3 & Hn3 & _).
  pose proof (b_send_frame _ _ _ _ _ _ Eb) as (F1 & F2 & _ & _ & _ & _ & _ & F8 & _).
  destruct (b_send_bal _ _ _ _ _ _ Eb (not_eq_sym (user_not_cdpm e u Hu)) ltac:(lia)) as [_ Hbal].
  assert (Hcpc : get_cp e (c_type c) = Some cp) by (rewrite Hty, Ht; exact Hcp).
  assert (Ea1 : deps s1 (c_id c) u = Some a).
  { destruct Henv as (_&_&_&_&D&_). rewrite D, Hid. exact Ea. }
  set (c1 := with_coll c (c_coll c - x)) in *.
  assert (Hs' : cdps s' = cdps s3 /\ bal s' = bal s3 /\ nextid s' = nextid s3 /\
                deps s' = upd2 (deps s3) (c_id c) u (if a - x =? 0 then None else Some (a - x))).
  { inversion H; subst. destruct (a - x =? 0); repeat split. }
  destruct Hs' as (Q1 & Q2 & Q3 & Q4).
  destruct (update_view s1 s2 s3 c1 F1 Hc3 Hh1) as (V1 & V2 & V3).
  apply (CustInv_adjust e s1 s' (c_type c) (c_id c) u (- x) cp HC1 Hcpc Hh1 Hu).
  - intros t0 id. destruct (view_of_cdps _ _ Q1 t0 id) as [A _]. rewrite A. apply V1.
  - destruct (view_of_cdps _ _ Q1 (c_type c) (c_id c)) as [_ A]. rewrite A. change (c_type c) with (c_type c1). change (c_id c) with (c_id c1).
    rewrite V2. cbn [c1 with_coll c_coll c_type c_id]. rewrite Hco1. lia.
  - intros t0 id Hne. destruct (view_of_cdps _ _ Q1 t0 id) as [_ A]. rewrite A. apply V3. exact Hne.
  - rewrite Q4. unfold upd2. rewrite !Nat.eqb_refl. cbn [andb]. rewrite Ea1. cbn [oz0].
    destruct (Z.eqb_spec (a - x) 0); cbn [oz0]; lia.
  - intros id w Hne. rewrite Q4, Hd3, F2. unfold upd2.
    destruct (Nat.eqb_spec id (c_id c)) as [E1|]; [destruct (Nat.eqb_spec w u) as [E2|]|]; cbn [andb]; try reflexivity.
    subst. contradiction Hne. reflexivity.
  - intros a' Ha'. rewrite Q4 in Ha'. unfold upd2 in Ha'. rewrite !Nat.eqb_refl in Ha'. cbn [andb] in Ha'.
    destruct (a - x =? 0); [discriminate|]. inversion Ha'; subst. lia.
  - rewrite Q3, Hn3. exact F8.
  - rewrite Q2, Hb3, Hbal, <- Hcd, !Nat.eqb_refl. cbn [andb].
    destruct (Nat.eqb_spec (CDPM e) u) as [E|]; [exfalso; apply (user_not_cdpm e u Hu); congruence|]. cbn [andb]. lia.
  - intros t' cp' Hcp' Hne. rewrite Q2, Hb3. apply (b_send_other _ _ _ _ _ _ Eb). left. congruence.
Qed.

(* operations that move only the stable and the debt coin: draw, partial repay *)
Lemma draw_CustInv e s o t pd x s' v :
  env_wf e -> IdxInv e s -> CustInv e s -> (o < nusers e)%nat -> draw e s o t pd x = Ok s' v -> CustInv e s'.
Proof.
  intros Hwf HI HC Ho. unfold draw. destruct (0 <? x); [|discriminate]. cbn [negb].
  destruct (find_cdp e s o t) as [c0|] eqn:Ef; [|discriminate].
  destruct (get_cp e t) as [cp|] eqn:Hcp; [|discriminate].
  destruct (find_cdp_stored' _ _ _ _ _ _ HI Ef Hcp) as [Ht Hst].
  destruct (mstat s (cp_spot cp) && mstat s (cp_liqm cp)) eqn:Em; [|discriminate]. cbn [negb].
  destruct (Nat.eqb pd (d_usdx e)); [|discriminate]. cbn [negb].
  destruct (debt_limit_ok e s t cp x); [|discriminate]. cbn [negb].
  destruct (sync_interest e s cp c0) as [s1 c| |] eqn:Es; try discriminate.
  pose proof (sync_interest_CustInv _ _ _ _ _ _ HC Hst Es) as HC1.
  apply sync_interest_IdxInv in Es; try assumption; [|rewrite Ht; assumption].
  destruct Es as (HI1 & Hst1). destruct (stored_view _ _ Hst1) as [Hh1 Hco1].
  destruct (ratio_gate _ _ _ _ _ _) as [[] []| |]; try discriminate.
  destruct (b_send _ _ _ _ _) as [s3|] eqn:Eb; [|discriminate].
  intros H. apply update_cdp_view in H. destruct H as (Hc' & Hd' & Hb' & Hn' & _). cbn in Hc', Hd', Hb', Hn'.
  set (c1 := with_prin c (c_prin c + x)) in *.
  assert (F1 : cdps (b_mint s3 (CDPM e) (d_debt e) x) = cdps s1).
  { rewrite (bank_only_cdps _ _ (b_mint_frame _ _ _ _)), (bank_only_cdps _ _ (b_send_frame _ _ _ _ _ _ Eb)),
      (bank_only_cdps _ _ (b_mint_frame _ _ _ _)). reflexivity. }
  destruct (update_view s1 _ s' c1 F1 Hc' Hh1) as (V1 & V2 & V3).
  apply (CustInv_view e s1); try assumption.
  - intros t0 id. split; [apply V1|].
    destruct (Nat.eq_dec t0 (c_type c)) as [E1|N1]; [destruct (Nat.eq_dec id (c_id c)) as [E2|N2]|].
    + subst. change (c_type c) with (c_type c1). change (c_id c) with (c_id c1). rewrite V2. cbn. symmetry. exact Hco1.
    + apply V3. intros H0; inversion H0; contradiction.
    + apply V3. intros H0; inversion H0; contradiction.
  - rewrite Hd'. rewrite (bank_only_deps _ _ (b_mint_frame _ _ _ _)), (bank_only_deps _ _ (b_send_frame _ _ _ _ _ _ Eb)),
      (bank_only_deps _ _ (b_mint_frame _ _ _ _)). reflexivity.
  - rewrite Hn'. pose proof (b_mint_frame s3 (CDPM e) (d_debt e) x) as (_&_&_&_&_&_&_&N1&_).
    pose proof (b_send_frame _ _ _ _ _ _ Eb) as (_&_&_&_&_&_&_&N2&_).
    pose proof (b_mint_frame s1 (CDPM e) (d_usdx e) x) as (_&_&_&_&_&_&_&N3&_). congruence.
  - intros t' cp' Hcp'. destruct (Hwf t' cp' Hcp') as [W1 W2]. rewrite Hb'.
    rewrite b_mint_other by (left; exact W2). rewrite (b_send_other _ _ _ _ _ _ Eb) by (left; exact W1).
    rewrite b_mint_other by (left; exact W1). reflexivity.
Qed.

(* AddCdp *)
Lemma create_CustInv e s o t cd coll pd prin s' v :
  env_wf e -> CustInv e s -> (o < nusers e)%nat -> create e s o t cd coll pd prin = Ok s' v -> CustInv e s'.
Proof.
  intros Hwf HC Ho. unfold create. destruct (Z.ltb_spec 0 coll) as [Hc0|]; [|discriminate]. cbn [andb].
  destruct (0 <? prin); [|discriminate]. cbn [negb].
  destruct (validate_collateral e s t cd) as [cp|] eqn:Ev; [|discriminate].
  apply validate_collateral_ok in Ev. destruct Ev as (Hcp & Hcd & _).
  destruct (bal s o cd <? coll); [discriminate|].
  destruct (find_cdp e s o t); [discriminate|].
  destruct (Nat.eqb pd (d_usdx e)); [|discriminate]. cbn [negb].
  destruct (prin <? dp_floor e); [discriminate|].
  destruct (debt_limit_ok e s t cp prin); [|discriminate]. cbn [negb].
  destruct (ratio_gate e s cp coll prin 0) as [[] []| |]; try discriminate.
  set (s0 := match ifac s t with Some _ => s | None => set_ifac s (upd (ifac s) t (Some PREC)) end).
  destruct (b_send s0 o (CDPM e) cd coll) as [s1|] eqn:Eb1; [|discriminate].
  destruct (b_send (b_mint s1 _ _ _) _ _ _ _) as [s3|] eqn:Eb3; [|discriminate].
  intros H; inversion H; subst; clear H.
  destruct (Hwf t cp Hcp) as [W1 W2].
  assert (E0 : cdps s0 = cdps s /\ deps s0 = deps s /\ bal s0 = bal s /\ nextid s0 = nextid s) by (unfold s0; destruct (ifac s t); repeat split).
  destruct E0 as (E01 & E02 & E03 & E04).
  pose proof (b_send_frame _ _ _ _ _ _ Eb1) as (F1 & F2 & _ & _ & _ & _ & _ & F8 & _).
  pose proof (b_mint_frame s1 (CDPM e) (d_usdx e) prin) as (G1 & G2 & _ & _ & _ & _ & _ & G8 & _).
  pose proof (b_send_frame _ _ _ _ _ _ Eb3) as (K1 & K2 & _ & _ & _ & _ & _ & K8 & _).
  pose proof (b_mint_frame s3 (CDPM e) (d_debt e) prin) as (L1 & L2 & _ & _ & _ & _ & _ & L8 & _).
  destruct (b_send_bal _ _ _ _ _ _ Eb1 (user_not_cdpm e o Ho) ltac:(lia)) as [_ Hbal].
  assert (Hcd5 : forall w d0, d0 <> d_usdx e -> d0 <> d_debt e ->
     bal (b_mint s3 (CDPM e) (d_debt e) prin) w d0 = bal s1 w d0).
  { intros w d0 N1 N2. rewrite b_mint_other by (left; exact N2). rewrite (b_send_other _ _ _ _ _ _ Eb3) by (left; exact N1).
    rewrite b_mint_other by (left; exact N1). reflexivity. }
  apply (CustInv_new e s _ t o coll cp HC Hcp Ho ltac:(lia)).
  - cbn. reflexivity.
  - intros t0 id. unfold has. cbn. rewrite L1, K1, G1, F1, E01. unfold upd2. destruct (_ && _); reflexivity.
  - unfold coll_of. cbn. unfold upd2. rewrite !Nat.eqb_refl. reflexivity.
  - intros t0 id Hne. unfold coll_of. cbn. rewrite L1, K1, G1, F1, E01. unfold upd2.
    destruct (Nat.eqb_spec t0 t) as [E1|]; [destruct (Nat.eqb_spec id (nextid s)) as [E2|]|]; cbn [andb]; try reflexivity.
    subst. contradiction Hne. reflexivity.
  - cbn. unfold upd2. rewrite !Nat.eqb_refl. reflexivity.
  - intros id w Hne. cbn. rewrite L2, K2, G2, F2, E02. unfold upd2.
    destruct (Nat.eqb_spec id (nextid s)) as [E1|]; [destruct (Nat.eqb_spec w o) as [E2|]|]; cbn [andb]; try reflexivity.
    subst. contradiction Hne. reflexivity.
  - cbn. rewrite Hcd5 by assumption. rewrite Hbal, E03, !Nat.eqb_refl. cbn [andb].
    destruct (Nat.eqb_spec (CDPM e) o) as [E|]; [exfalso; apply (user_not_cdpm e o Ho); congruence|]. cbn [andb]. lia.
  - intros t' cp' Hcp' Hne. destruct (Hwf t' cp' Hcp') as [W1' W2']. cbn. rewrite Hcd5 by assumption.
    rewrite (b_send_other _ _ _ _ _ _ Eb1) by (left; congruence). rewrite E03. reflexivity.
Qed.

(* the loop of ReturnCollateral / SeizeCollateral never touches another denom of the module account *)
Lemma dep_list_total e s id : zsum (map snd (dep_list e s id)) = dep_total e s id.
Proof.
  unfold dep_total, dep_list. generalize (nusers e). intros n.
  assert (G : forall m k, zsum (map snd (flat_map (fun u0 => match deps s id u0 with Some a => [(u0, a)] | None => [] end) (seq k m))) =
     sumN m (fun j => oz0 (deps s id (k + j)%nat))).
  { induction m as [|m IH]; intros k; [reflexivity|].
    rewrite seq_S, flat_map_app, map_app, zsum_app, IH. cbn [sumN flat_map].
    destruct (deps s id (k + m)); cbn; lia. }
  rewrite G. apply sumN_ext. intros; reflexivity.
Qed.

Lemma dep_total_nonneg e s id : (forall w a, deps s id w = Some a -> 0 <= a) -> 0 <= dep_total e s id.
Proof.
  intros H. unfold dep_total. induction (nusers e) as [|n IH]; cbn [sumN]; [lia|].
  destruct (deps s id n) as [a|] eqn:E; cbn [oz0]; [specialize (H _ _ E)|]; lia.
Qed.

Lemma return_collateral_more e s cp c s' u :
  return_collateral e s cp c = Ok s' u ->
  nextid s' = nextid s /\ (forall d0, d0 <> cp_denom cp -> bal s' (CDPM e) d0 = bal s (CDPM e) d0) /\
  (forall i w, deps s' i w = if Nat.eqb i (c_id c) && existsb (Nat.eqb w) (map fst (dep_list e s (c_id c))) then None else deps s i w).
Proof.
  unfold return_collateral. intros H. split; [|split].
  - eapply (ofold_inv (fun z => nextid z = nextid s)); [|reflexivity|exact H].
    intros z d z' u0 P Hz. cbv beta in Hz. destruct (b_send z _ _ _ _) as [z2|] eqn:Ez; [|discriminate]. inversion Hz; subst. cbn.
    pose proof (b_send_frame _ _ _ _ _ _ Ez) as (_&_&_&_&_&_&_&N&_). congruence.
  - intros d0 Hd0. eapply (ofold_inv (fun z => bal z (CDPM e) d0 = bal s (CDPM e) d0)); [|reflexivity|exact H].
    intros z d z' u0 P Hz. cbv beta in Hz. destruct (b_send z _ _ _ _) as [z2|] eqn:Ez; [|discriminate]. inversion Hz; subst. cbn.
    rewrite (b_send_other _ _ _ _ _ _ Ez) by (left; exact Hd0). exact P.
  - revert H. generalize (dep_list e s (c_id c)). intros dl. revert s.
    induction dl as [|d tl IH]; intros s H; cbn [ofold] in H.
    + inversion H; subst. intros i w. cbn. rewrite andb_false_r. reflexivity.
    + destruct (b_send s _ _ _ _) as [s2|] eqn:Eb; [|discriminate]. intros i w. rewrite (IH _ H).
      cbn [map existsb del_dep set_deps deps]. unfold upd2. rewrite (bank_only_deps _ _ (b_send_frame _ _ _ _ _ _ Eb)).
      destruct (Nat.eqb_spec i (c_id c)) as [->|]; cbn [andb]; [|reflexivity].
      destruct (Nat.eqb_spec w (fst d)) as [->|]; cbn [orb]; destruct (existsb _ _); reflexivity.
Qed.

(* RepayPrincipal *)
Lemma repay_CustInv e s o t pd x s' v :
  env_wf e -> IdxInv e s -> CustInv e s -> (o < nusers e)%nat -> repay e s o t pd x = Ok s' v -> CustInv e s'.
Proof.
  intros Hwf HI HC Ho. unfold repay. destruct (0 <? x); [|discriminate]. cbn [negb].
  destruct (find_cdp e s o t) as [c0|] eqn:Ef; [|discriminate].
  destruct (get_cp e t) as [cp|] eqn:Hcp; [|discriminate].
  destruct (find_cdp_stored' _ _ _ _ _ _ HI Ef Hcp) as [Ht Hst].
  destruct (Nat.eqb pd (d_usdx e)); [|discriminate]. cbn [negb].
  destruct (bal s o pd <? x); [discriminate|].
  destruct (sync_interest e s cp c0) as [s1 c| |] eqn:Es; try discriminate.
  pose proof (sync_interest_spec _ _ _ _ _ _ Es) as (_ & Hid & Hty & _).
  pose proof (sync_interest_CustInv _ _ _ _ _ _ HC Hst Es) as HC1.
  apply sync_interest_IdxInv in Es; try assumption; [|rewrite Ht; assumption].
  destruct Es as (HI1 & Hst1). destruct (stored_view _ _ Hst1) as [Hh1 Hco1].
  destruct (calc_payment (cdp_debt c) (c_fees c) x) as [fp pp].
  destruct (_ && _); [discriminate|].
  destruct (b_send s1 o (CDPM e) (d_usdx e) (fp + pp)) as [s2|] eqn:E2; [|discriminate].
  destruct (b_burn s2 _ _ _) as [s3|] eqn:E3; [|discriminate].
  destruct (b_burn s3 _ _ _) as [s4|] eqn:E4; [|discriminate].
  set (c1 := with_fees (with_prin c (c_prin c - pp)) (c_fees c - fp) (c_upd c) (c_ifac c)).
  set (s5 := set_tprin s4 _).
  assert (Hcpc : get_cp e (c_type c) = Some cp) by (rewrite Hty, Ht; exact Hcp).
  pose proof (b_send_frame _ _ _ _ _ _ E2) as (F1 & F2 & _ & _ & _ & _ & _ & F8 & _).
  pose proof (b_burn_frame _ _ _ _ _ E3) as (G1 & G2 & _ & _ & _ & _ & _ & G8 & _).
  pose proof (b_burn_frame _ _ _ _ _ E4) as (K1 & K2 & _ & _ & _ & _ & _ & K8 & _).
  assert (Hb5 : forall t' cp', get_cp e t' = Some cp' -> bal s5 (CDPM e) (cp_denom cp') = bal s1 (CDPM e) (cp_denom cp')).
  { intros t' cp' Hcp'. destruct (Hwf t' cp' Hcp') as [W1 W2]. unfold s5. cbn.
    rewrite (b_burn_other _ _ _ _ _ E4) by (left; exact W2). rewrite (b_burn_other _ _ _ _ _ E3) by (left; exact W1).
    rewrite (b_send_other _ _ _ _ _ _ E2) by (left; exact W1). reflexivity. }
  assert (C5 : cdps s5 = cdps s1) by (unfold s5; cbn; congruence).
  assert (D5 : deps s5 = deps s1) by (unfold s5; cbn; congruence).
  assert (N5 : nextid s5 = nextid s1) by (unfold s5; cbn; congruence).
  assert (HC5 : CustInv e s5).
  { apply (CustInv_view e s1); try assumption. apply view_of_cdps, C5. }
  destruct ((c_prin c1 =? 0) && (c_fees c1 =? 0)).
  - (* close *)
    destruct (return_collateral e s5 cp c1) as [s6 []| |] eqn:E6; try discriminate.
    destruct (get_cdp e (oidx_rm s6 (c_owner c1) (c_id c1)) (c_type c1) (c_id c1)) as [old|] eqn:Eg; [|discriminate].
    intros H; injection H as Hs'; subst s'.
    pose proof HC5 as (P1 & P2 & P3 & P4).
    assert (Hh5 : has s5 (c_type c) (c_id c) = true) by (destruct (view_of_cdps _ _ C5 (c_type c) (c_id c)) as [A _]; rewrite A; exact Hh1).
    assert (Hco5 : coll_of s5 (c_type c) (c_id c) = c_coll c) by (destruct (view_of_cdps _ _ C5 (c_type c) (c_id c)) as [_ A]; rewrite A; exact Hco1).
    assert (Hpos : forall w a, deps s5 (c_id c1) w = Some a -> 0 <= a) by (intros w a Hd; destruct (P3 _ _ _ Hd) as (A & _); exact A).
    destruct (return_collateral_more _ _ _ _ _ _ E6) as (N6 & B6 & A8).
    apply return_collateral_spec in E6; [|exact Hpos].
    destruct E6 as (R1 & _ & _ & _ & R5 & _ & R7 & R8).
    destruct (P1 _ _ Hh5) as (Q1 & _ & _).
    apply (CustInv_remove e s5 _ (c_type c) (c_id c) cp HC5 Hcpc Hh5).
    + cbn. rewrite N6. reflexivity.
    + intros t0 id. unfold has. cbn. rewrite R1. unfold upd2. destruct (_ && _); reflexivity.
    + intros t0 id Hne. unfold coll_of. cbn. rewrite R1. unfold upd2.
      destruct (Nat.eqb_spec t0 (c_type c)) as [Q8|]; [destruct (Nat.eqb_spec id (c_id c)) as [Q9|]|]; cbn [andb]; try reflexivity.
      subst t0 id. contradiction Hne. reflexivity.
    + intros w. cbn. destruct (Nat.lt_ge_cases w (nusers e)) as [Hw|Hw]; [apply R5, Hw|].
      rewrite A8. destruct (_ && _); [reflexivity|].
      destruct (deps s5 (c_id c) w) as [a|] eqn:Ea; [|reflexivity].
      destruct (P3 _ _ _ Ea) as (_ & Hlt & _). lia.
    + intros id w Hne. cbn. apply R8. exact Hne.
    + cbn. rewrite R7. change (c_id c1) with (c_id c). rewrite Q1. reflexivity.
    + intros t' cp' Hcp' Hne. cbn. apply B6. exact Hne.
  - intros H. apply update_cdp_view in H. destruct H as (Hc' & Hd' & Hb' & Hn' & _).
    assert (Hh5 : has s1 (c_type c1) (c_id c1) = true) by exact Hh1.
    destruct (update_view s1 s5 s' c1 C5 Hc' Hh5) as (V1 & V2 & V3).
    apply (CustInv_view e s1); try assumption; try congruence.
    + intros t0 id. split; [apply V1|].
      destruct (Nat.eq_dec t0 (c_type c)) as [Q8|N1]; [destruct (Nat.eq_dec id (c_id c)) as [Q9|N2]|].
      * subst t0 id. change (c_type c) with (c_type c1). change (c_id c) with (c_id c1). rewrite V2. cbn. symmetry. exact Hco1.
      * apply V3. intros H0; inversion H0; contradiction.
      * apply V3. intros H0; inversion H0; contradiction.
    + intros t' cp' Hcp'. rewrite Hb'. apply (Hb5 t' cp' Hcp').
Qed.

(** * Seizure and keeper liquidation *)
(* parameters: keeper reward percentage is not negative *)
Definition params_ok (e : env) : Prop := forall t cp, get_cp e t = Some cp -> 0 <= cp_reward cp.

Lemma first_dep_ge_in r : forall dl d, first_dep_ge r dl = Some d -> In d dl /\ r <= snd d.
Proof.
  induction dl as [|h tl IH]; intros d H; [discriminate|]. cbn [first_dep_ge] in H.
  destruct (Z.leb_spec r (snd h)); [inversion H; subst; split; [left; reflexivity|assumption]|].
  destruct (IH d H). split; [right; assumption|assumption].
Qed.

Lemma payout_reward_CustInv e s cp k c s2 c1 :
  params_ok e -> CustInv e s -> (k < nusers e)%nat -> get_cp e (c_type c) = Some cp ->
  cdps s (c_type c) (c_id c) = Some c -> payout_reward e s cp k c = Ok s2 c1 -> CustInv e s2.
Proof.
  intros Hpar HC Hk Hcp Hst. unfold payout_reward.
  set (reward := dec_round_int (dec_mul (dec_of_int (c_coll c)) (cp_reward cp))).
  destruct (first_dep_ge reward (dep_list e s (c_id c))) as [[w a]|] eqn:Ef; [|intros H; inversion H; subst; exact HC].
  destruct (b_send _ _ _ _ _) as [s1|] eqn:Eb; [|discriminate].
  destruct (c_coll c <? reward); [discriminate|].
  destruct (update_cdp _ _ _ _ _) as [s3 []| |] eqn:Eu; try discriminate.
  intros H; inversion H; subst s3 c1; clear H.
  apply first_dep_ge_in in Ef. destruct Ef as [Hin Hle]. cbn in Hle.
  apply dep_list_in in Hin. destruct Hin as [Hw Ha].
  destruct (stored_view _ _ Hst) as [Hh Hco].
  pose proof HC as (P1 & P2 & P3 & P4).
  destruct (P1 _ _ Hh) as (Q1 & _ & _).
  assert (Hcoll : 0 <= c_coll c).
  { rewrite <- Hco, Q1. apply dep_total_nonneg. intros w0 a0 H0. destruct (P3 _ _ _ H0) as (A & _). exact A. }
  assert (Hr : 0 <= reward).
  { unfold reward, dec_round_int. apply chop_round_nonneg. apply dec_mul_nonneg; [unfold dec_of_int, PREC; lia|eapply Hpar; eassumption]. }
  apply update_cdp_view in Eu. destruct Eu as (Hc' & Hd' & Hb' & Hn' & _).
  pose proof (b_send_frame _ _ _ _ _ _ Eb) as (F1 & F2 & _ & _ & _ & _ & _ & F8 & _). cbn in F1, F2, F8.
  destruct (b_send_bal _ _ _ _ _ _ Eb (not_eq_sym (user_not_cdpm e k Hk)) Hr) as [_ Hbal]. cbn in Hbal.
  set (c1 := with_coll c (c_coll c - reward)) in *.
  destruct (update_view s s1 s2 c1 F1 Hc' Hh) as (V1 & V2 & V3).
  apply (CustInv_adjust e s s2 (c_type c) (c_id c) w (- reward) cp HC Hcp Hh Hw V1).
  - change (c_type c) with (c_type c1). change (c_id c) with (c_id c1). rewrite V2. cbn [c1 with_coll c_coll c_type c_id]. rewrite Hco. lia.
  - exact V3.
  - rewrite Hd', F2. unfold upd2. rewrite !Nat.eqb_refl. cbn [andb oz0]. rewrite Ha. cbn. lia.
  - intros id w0 Hne. rewrite Hd', F2. unfold upd2.
    destruct (Nat.eqb_spec id (c_id c)) as [Q8|]; [destruct (Nat.eqb_spec w0 w) as [Q9|]|]; cbn [andb]; try reflexivity.
    subst id w0. contradiction Hne. reflexivity.
  - intros a' Ha'. rewrite Hd', F2 in Ha'. unfold upd2 in Ha'. rewrite !Nat.eqb_refl in Ha'. cbn [andb] in Ha'. inversion Ha'; subst. lia.
  - rewrite Hn'. exact F8.
  - rewrite Hb', Hbal, !Nat.eqb_refl. cbn [andb].
    destruct (Nat.eqb_spec (CDPM e) k) as [E|]; [exfalso; apply (user_not_cdpm e k Hk); congruence|]. cbn [andb]. lia.
  - intros t' cp' Hcp' Hne. rewrite Hb'. apply (b_send_other _ _ _ _ _ _ Eb). left. congruence.
Qed.

(* the auction helpers never touch the cdp module account *)
Definition keeps_cdpm (e : env) (s s' : state) : Prop := forall d, bal s' (CDPM e) d = bal s (CDPM e) d.

Lemma cdpm_not_liq e : CDPM e <> LIQM e /\ CDPM e <> AUCM e.
Proof. unfold CDPM, LIQM, AUCM. lia. Qed.

Lemma start_coll_auction_cdpm e s ld lot mb debt ret s' u :
  start_coll_auction e s ld lot mb debt ret = Ok s' u -> keeps_cdpm e s s'.
Proof.
  unfold start_coll_auction. destruct (cdpm_not_liq e) as [N1 N2].
  destruct (b_send s (LIQM e) (AUCM e) ld lot) as [s1|] eqn:E1; [|discriminate].
  destruct (b_send s1 (LIQM e) (AUCM e) (d_debt e) debt) as [s2|] eqn:E2; [|discriminate].
  intros H; inversion H; subst. intros d. cbn.
  rewrite (b_send_other _ _ _ _ _ _ E2) by (right; split; assumption).
  rewrite (b_send_other _ _ _ _ _ _ E1) by (right; split; assumption). reflexivity.
Qed.

Lemma whole_auctions_cdpm e cp ret n dpa : forall s un s' un',
  whole_auctions e cp ret n dpa s un = Ok s' un' -> keeps_cdpm e s s'.
Proof.
  induction n as [|n IH]; intros s un s' un' H; cbn [whole_auctions] in H.
  - inversion H; subst. intros d. reflexivity.
  - destruct (start_coll_auction _ _ _ _ _ _ _) as [s1 []| |] eqn:E; try discriminate.
    apply start_coll_auction_cdpm in E. apply IH in H. intros d. rewrite H, E. reflexivity.
Qed.

Lemma auctions_from_deposit_cdpm e cp s ret coll debt s' u :
  auctions_from_deposit e cp s ret coll debt = Ok s' u -> keeps_cdpm e s s'.
Proof.
  unfold auctions_from_deposit. destruct (coll =? 0); [discriminate|]. cbv zeta.
  destruct (whole_auctions _ _ _ _ _ _ _) as [s1 un2| |] eqn:E; try discriminate.
  apply whole_auctions_cdpm in E.
  destruct (_ mod _ <=? 0).
  - intros H; inversion H; subst. exact E.
  - intros H. apply start_coll_auction_cdpm in H. intros d. rewrite H, E. reflexivity.
Qed.

Lemma auction_deposits_cdpm e cp total debt dl : forall s rem s' u,
  auction_deposits e cp total debt s dl rem = Ok s' u -> keeps_cdpm e s s'.
Proof.
  induction dl as [|d tl IH]; intros s rem s' u H; cbn [auction_deposits] in H.
  - inversion H; subst. intros d. reflexivity.
  - destruct (total =? 0); [discriminate|]. cbv zeta in H.
    destruct (auctions_from_deposit _ _ _ _ _ _) as [s1 []| |] eqn:E; try discriminate.
    apply auctions_from_deposit_cdpm in E. apply IH in H. intros d0. rewrite H, E. reflexivity.
Qed.

(* the deposit loop of SeizeCollateral: the module pays exactly the listed amounts of the collateral denom *)
Lemma seize_deps_bal e cp id : forall dl s1 s4 u,
  ofold (fun s2 (d : nat * Z) =>
           match b_send s2 (CDPM e) (LIQM e) (cp_denom cp) (snd d) with
           | None => Err
           | Some s3 => Ok (del_dep s3 id (fst d)) tt
           end) s1 dl = Ok s4 u ->
  Forall (fun d : nat * Z => 0 <= snd d) dl ->
  bal s4 (CDPM e) (cp_denom cp) = bal s1 (CDPM e) (cp_denom cp) - zsum (map snd dl) /\
  (forall d0, d0 <> cp_denom cp -> bal s4 (CDPM e) d0 = bal s1 (CDPM e) d0).
Proof.
  induction dl as [|d tl IH]; intros s1 s4 u H Hf; cbn [ofold] in H.
  - inversion H; subst. split; [cbn; lia|reflexivity].
  - destruct (b_send s1 _ _ _ _) as [s3|] eqn:Eb; [|discriminate].
    inversion Hf as [|? ? Hd Htl]; subst.
    apply IH in H; [|exact Htl]. destruct H as [A B]. cbn [del_dep set_deps bal] in A, B.
    destruct (b_send_bal _ _ _ _ _ _ Eb (proj1 (cdpm_not_liq e)) Hd) as [_ Hbal].
    split.
    + rewrite A, Hbal, !Nat.eqb_refl. cbn [andb map zsum fold_right]. fold (zsum (map snd tl)).
      destruct (Nat.eqb_spec (CDPM e) (LIQM e)) as [E|]; [exfalso; apply (proj1 (cdpm_not_liq e)); exact E|]. cbn [andb]. lia.
    + intros d0 Hd0. rewrite B by exact Hd0. apply (b_send_other _ _ _ _ _ _ Eb). left. exact Hd0.
Qed.

Lemma seize_CustInv e s cp c s' u :
  env_wf e -> CustInv e s -> get_cp e (c_type c) = Some cp -> cdps s (c_type c) (c_id c) = Some c ->
  seize e s cp c = Ok s' u -> CustInv e s'.
Proof.
  intros Hwf HC Hcp Hst H. pose proof H as H0. unfold seize in H.
  destruct (b_send s _ _ _ _) as [s1|] eqn:E1; [|discriminate].
  destruct (ofold _ s1 _) as [s4 []| |] eqn:E2; try discriminate.
  destruct (auction_collateral _ _ _ _ _) as [s5 []| |] eqn:E3; try discriminate.
  inversion H; subst; clear H.
  destruct (Hwf _ _ Hcp) as [W1 W2].
  destruct (stored_view _ _ Hst) as [Hh Hco].
  pose proof HC as (P1 & P2 & P3 & P4). destruct (P1 _ _ Hh) as (Q1 & _ & _).
  pose proof (b_send_frame _ _ _ _ _ _ E1) as (B1 & B2 & _ & _ & _ & _ & _ & B8 & _).
  assert (Hpos : Forall (fun d : nat * Z => 0 <= snd d) (dep_list e s (c_id c))).
  { apply Forall_forall. intros [w a] Hin. apply dep_list_in in Hin. destruct Hin as [_ Hin]. destruct (P3 _ _ _ Hin) as (A & _). exact A. }
  pose proof (seize_deps_bal _ _ _ _ _ _ _ E2 Hpos) as [L1 L2].
  apply seize_deps_spec in E2. destruct E2 as (A1 & _ & _ & _ & _ & _ & A7 & A8).
  pose proof (auction_collateral_frame _ _ _ _ _ _ _ E3) as (C1 & C2 & _ & _ & _ & _ & _ & C8 & _).
  unfold auction_collateral in E3. apply auction_deposits_cdpm in E3.
  apply (CustInv_remove e s _ (c_type c) (c_id c) cp HC Hcp Hh).
  - cbn. rewrite C8, A7, B8. reflexivity.
  - intros t0 id. unfold has. cbn. rewrite C1, A1, B1. unfold upd2. destruct (_ && _); reflexivity.
  - intros t0 id Hne. unfold coll_of. cbn. rewrite C1, A1, B1. unfold upd2.
    destruct (Nat.eqb_spec t0 (c_type c)) as [Q8|]; [destruct (Nat.eqb_spec id (c_id c)) as [Q9|]|]; cbn [andb]; try reflexivity.
    subst t0 id. contradiction Hne. reflexivity.
  - intros w. cbn. rewrite C2, A8, Nat.eqb_refl. cbn [andb].
    destruct (existsb (Nat.eqb w) (map fst (dep_list e s (c_id c)))) eqn:Ex; [reflexivity|].
    rewrite B2. destruct (deps s (c_id c) w) as [a|] eqn:Ed; [|reflexivity].
    exfalso. destruct (P3 _ _ _ Ed) as (_ & Hw & _).
    assert (In (w, a) (dep_list e s (c_id c))) as Hin by (apply dep_list_in; auto).
    apply (in_map fst) in Hin. cbn in Hin.
    assert (existsb (Nat.eqb w) (map fst (dep_list e s (c_id c))) = true).
    { apply existsb_exists. exists w. split; [assumption|apply Nat.eqb_refl]. }
    congruence.
  - intros id w Hne. cbn. rewrite C2, A8. destruct (Nat.eqb_spec id (c_id c)); [contradiction|]. cbn [andb]. rewrite B2. reflexivity.
  - cbn. rewrite E3, L1. rewrite (b_send_other _ _ _ _ _ _ E1) by (left; exact W2).
    rewrite dep_list_total, <- Q1. reflexivity.
  - intros t' cp' Hcp' Hne. cbn. rewrite E3, L2 by exact Hne.
    destruct (Hwf _ _ Hcp') as [_ W2']. apply (b_send_other _ _ _ _ _ _ E1). left. exact W2'.
Qed.

Lemma keeper_liquidate_CustInv e s k o t s' v :
  env_wf e -> params_ok e -> IdxInv e s -> CustInv e s -> (k < nusers e)%nat ->
  keeper_liquidate e s k o t = Ok s' v -> CustInv e s'.
Proof.
  intros Hwf Hpar HI HC Hk. unfold keeper_liquidate.
  destruct (find_cdp e s o t) as [c0|] eqn:Ef; [|discriminate].
  destruct (get_cp e t) as [cp|] eqn:Hcp; [|discriminate].
  destruct (find_cdp_stored' _ _ _ _ _ _ HI Ef Hcp) as [Ht Hst].
  destruct (sync_interest e s cp c0) as [s1 c| |] eqn:Es; try discriminate.
  pose proof (sync_interest_spec _ _ _ _ _ _ Es) as (_ & Hid & Hty & _).
  pose proof (sync_interest_CustInv _ _ _ _ _ _ HC Hst Es) as HC1.
  apply sync_interest_IdxInv in Es; try assumption; [|rewrite Ht; assumption].
  destruct Es as (HI1 & Hst1).
  destruct (ratio_at _ _ _ _ _ _) as [[] r| |]; try discriminate.
  destruct (cp_liq cp <=? r); [discriminate|].
  destruct (payout_reward e s1 cp k c) as [s2 c1| |] eqn:Ep; try discriminate.
  assert (Hcpc : get_cp e (c_type c) = Some cp) by (rewrite Hty, Ht; exact Hcp).
  pose proof (payout_reward_CustInv _ _ _ _ _ _ _ Hpar HC1 Hk Hcpc Hst1 Ep) as HC2.
  apply payout_reward_IdxInv in Ep; try assumption. destruct Ep as (HI2 & Hst2 & Hty2).
  intros H. eapply seize_CustInv; [exact Hwf|exact HC2| |exact Hst2|exact H]. rewrite Hty2. exact Hcpc.
Qed.

(** * The begin blocker *)
Definition Inv2 (e : env) (s : state) : Prop := IdxInv e s /\ CustInv e s.

Lemma seize_fold_Inv2 e cp t p : forall l s s' u,
  env_wf e -> get_cp e t = Some cp ->
  ofold (liq_step e cp p) s l = Ok s' u ->
  Inv2 e s ->
  (forall c, In (Some c) l -> c_type c = t /\ cdps s t (c_id c) = Some c) ->
  NoDup (map (fun o : option cdp => match o with Some c => c_id c | None => O end) l) ->
  Inv2 e s'.
Proof.
  induction l as [|o tl IH]; intros s s' u Hwf Hcp H HI Hst Hnd; cbn [ofold] in H.
  - inversion H; subst. exact HI.
  - destruct o as [c|]; [|discriminate]. unfold liq_step in H at 1.
    cbn [map] in Hnd. apply NoDup_cons_iff in Hnd. destruct Hnd as [Hni Hnt].
    destruct (confirm_below e cp p c);
      [|cbv beta iota in H; eapply IH; [exact Hwf|exact Hcp|exact H|exact HI|intros c' Hin; apply Hst; right; exact Hin|exact Hnt]].
    destruct (seize e s cp c) as [s1 []| |] eqn:E; try discriminate.
    destruct (Hst c (or_introl eq_refl)) as [Hty Hc].
    pose proof (seize_stores _ _ _ _ _ _ E) as (A & _).
    destruct HI as [HI HC].
    assert (I1 : Inv2 e s1).
    { split.
      - eapply seize_IdxInv; [exact HI| | |exact E]; rewrite Hty; assumption.
      - eapply seize_CustInv; [exact Hwf|exact HC| | |exact E]; rewrite Hty; assumption. }
    eapply IH; [exact Hwf|exact Hcp|exact H|exact I1| |exact Hnt].
    intros c' Hin. destruct (Hst c' (or_intror Hin)) as [Hty' Hc']. split; [exact Hty'|].
    rewrite A. unfold upd2. rewrite Hty, Nat.eqb_refl. cbn [andb].
    destruct (Nat.eqb_spec (c_id c') (c_id c)) as [Heq|]; [|exact Hc'].
    exfalso. apply Hni. apply in_map_iff. exists (Some c'). split; [exact Heq|exact Hin].
Qed.

Lemma liquidate_cdps_Inv2 e s t cp s' u :
  env_wf e -> Inv2 e s -> get_cp e t = Some cp -> liquidate_cdps e s t cp = Ok s' u -> Inv2 e s'.
Proof.
  intros Hwf HI2 Hcp. unfold liquidate_cdps.
  destruct (price s (cp_liqm cp) =? 0); [intros H; inversion H; subst; exact HI2|].
  set (ents := idx_below _ _ _).
  destruct (existsb _ _) eqn:Ex; [discriminate|].
  intros H. pose proof HI2 as [(Hk & Hr & Hi) HC]. destruct (Hr t cp Hcp) as [Hnd Hin].
  eapply (seize_fold_Inv2 e cp t (price s (cp_liqm cp))); [exact Hwf|exact Hcp|exact H|exact HI2| |].
  - intros c Hc. apply in_map_iff in Hc. destruct Hc as (x & Hx & _).
    unfold get_cdp in Hx. rewrite Hcp in Hx. destruct (Hk _ _ _ Hx) as [Hty Hid]. split; [exact Hty|].
    rewrite Hid. exact Hx.
  - assert (Hids : NoDup (map snd ents)).
    { destruct (idx_below_prefix (rkey (liq_cut (price s (cp_liqm cp)) (cp_liq cp))) (scan_count cp) (ridx s t)) as (rest & Hrest).
      fold ents in Hrest.
      assert (H0 : NoDup (map snd (ridx s t))).
      { apply nodup_map_snd; [exact Hnd|]. intros a a' b H1 H2. apply Hin in H1. apply Hin in H2.
        destruct H1 as (c1 & G1 & ->). destruct H2 as (c2 & G2 & ->). congruence. }
      rewrite Hrest, map_app in H0. eapply nodup_app_l. exact H0. }
    rewrite map_map.
    assert (Heq : map (fun x : Z * nat => match get_cdp e s t (snd x) with Some c => c_id c | None => O end) ents = map snd ents).
    { apply map_ext_in. intros x Hx. destruct (get_cdp e s t (snd x)) as [c|] eqn:Eg.
      - unfold get_cdp in Eg. rewrite Hcp in Eg. destruct (Hk _ _ _ Eg) as [_ Hid]. exact Hid.
      - exfalso. assert (existsb (fun o : option cdp => match o with None => true | Some _ => false end)
            (map (fun x0 : Z * nat => get_cdp e s t (snd x0)) ents) = true).
        { apply existsb_exists. exists None. split; [|reflexivity]. rewrite <- Eg.
          apply (in_map (fun x0 : Z * nat => get_cdp e s t (snd x0))) in Hx. exact Hx. }
        congruence. }
    rewrite Heq. exact Hids.
Qed.

Lemma accumulate_interest_CustInv e s t cp :
  env_wf e -> CustInv e s -> CustInv e (accumulate_interest e s t cp).
Proof.
  intros Hwf HC. pose proof (accumulate_interest_stores e s t cp) as (A1 & _ & A3 & _ & A5).
  apply (CustInv_view e s); try assumption; [apply view_of_cdps, A1|].
  intros t' cp' Hcp'. destruct (Hwf _ _ Hcp') as [W1 W2].
  unfold accumulate_interest. destruct (ptime s t); [|reflexivity].
  destruct (_ =? 0); [reflexivity|]. destruct (_ <=? 0); [reflexivity|].
  destruct (ifac s t); [|reflexivity]. destruct (_ =? PREC); [reflexivity|]. cbv zeta.
  destruct (_ =? 0); [reflexivity|]. cbn.
  rewrite b_mint_other by (left; exact W1). rewrite b_mint_other by (left; exact W2). reflexivity.
Qed.

Lemma sync_risky_one_CustInv e cp t gf prev s id s' u :
  IdxInv e s -> CustInv e s -> sync_risky_one e cp t gf prev s id = Ok s' u -> CustInv e s'.
Proof.
  intros (Hk & _) HC H. unfold sync_risky_one in H.
  destruct (cdps s t id) as [c|] eqn:Hst; [|discriminate].
  destruct (Hk _ _ _ Hst) as [Ht Hid]. subst t id.
  destruct (stored_view _ _ Hst) as [Hh Hco].
  destruct (_ && _); [inversion H; subst; exact HC|].
  inversion H; subst; clear H.
  assert (G : forall s0 c', (forall t id, cdps s0 t id = upd2 (cdps s) (c_type c) (c_id c) (Some c') t id) -> c_coll c' = c_coll c ->
     forall t id, has s0 t id = has s t id /\ coll_of s0 t id = coll_of s t id).
  { intros s0 c' H0 Hc' t id. unfold has at 1, coll_of at 1. rewrite H0. unfold upd2.
    destruct (Nat.eqb_spec t (c_type c)) as [->|]; [destruct (Nat.eqb_spec id (c_id c)) as [->|]|]; cbn [andb]; auto.
    rewrite Hh, Hco. auto. }
  destruct (new_interest gf (c_ifac c) (cdp_debt c) =? 0).
  - apply (CustInv_view e s); try assumption; try reflexivity.
    apply (G _ (with_fees (with_fees c (c_fees c) prev (c_ifac c)) (c_fees c + new_interest gf (c_ifac c) (cdp_debt c)) prev gf)); [|reflexivity].
    intros t id. cbn. unfold upd2. destruct (Nat.eqb t (c_type c) && Nat.eqb id (c_id c)); reflexivity.
  - apply (CustInv_view e s); try assumption; try reflexivity.
    apply (G _ (with_fees c (c_fees c + new_interest gf (c_ifac c) (cdp_debt c)) prev gf)); [|reflexivity].
    intros t id. reflexivity.
Qed.

Lemma sync_risky_Inv2 e s t cp s' u :
  Inv2 e s -> get_cp e t = Some cp -> sync_risky e s t cp = Ok s' u -> Inv2 e s'.
Proof.
  intros HI Hcp. unfold sync_risky. destruct (ptime s t) as [prev|]; [|discriminate].
  destruct (ifac s t) as [gf|].
  - intros H. eapply (ofold_inv (Inv2 e)); [|exact HI|exact H].
    intros s0 x s1 u0 [H0 H0'] H1. split; [eapply sync_risky_one_IdxInv; eassumption|eapply sync_risky_one_CustInv; eassumption].
  - destruct (map snd _); [intros H; inversion H; subst; exact HI|discriminate].
Qed.

Lemma begin_type_Inv2 e skip s t cp s' u :
  env_wf e -> Inv2 e s -> get_cp e t = Some cp -> begin_type e skip s (t, cp) = Ok s' u -> Inv2 e s'.
Proof.
  intros Hwf [HI HC] Hcp H. split; [eapply begin_type_IdxInv; eassumption|].
  revert H. unfold begin_type, update_status.
  destruct (negb (negb (price s (cp_spot cp) =? 0))).
  { intros H; inversion H; subst. apply (CustInv_view e s); try assumption; try reflexivity. intros; split; reflexivity. }
  cbn [set_mstat price].
  destruct (negb (negb (price s (cp_liqm cp) =? 0))).
  { intros H; inversion H; subst. apply (CustInv_view e s); try assumption; try reflexivity. intros; split; reflexivity. }
  set (s2 := set_mstat _ _).
  assert (HI2 : IdxInv e s2) by (apply (IdxInv_frame e s); [reflexivity..|exact HI]).
  assert (HC2 : CustInv e s2) by (apply (CustInv_view e s); try assumption; try reflexivity; intros; split; reflexivity).
  pose proof (accumulate_interest_stores e s2 t cp) as (A1 & A2 & A3 & _).
  assert (HI3 : IdxInv e (accumulate_interest e s2 t cp)) by (apply (IdxInv_frame e s2); assumption).
  pose proof (accumulate_interest_CustInv e s2 t cp Hwf HC2) as HC3.
  destruct skip; [intros H; inversion H; subst; exact HC3|].
  destruct (sync_risky _ _ _ _) as [s4 []| |] eqn:E4; try discriminate.
  destruct (liquidate_cdps e s4 t cp) as [s5 []| |] eqn:E5; try discriminate.
  intros H; inversion H; subst.
  assert (I4 : Inv2 e s4) by (eapply sync_risky_Inv2; [split; [exact HI3|exact HC3]|exact Hcp|exact E4]).
  destruct (liquidate_cdps_Inv2 _ _ _ _ _ _ Hwf I4 Hcp E5) as [_ R]. exact R.
Qed.

Lemma run_auctions_cdpm e s s' u : run_auctions e s = Ok s' u -> keeps_cdpm e s s'.
Proof.
  unfold run_auctions. intros H. destruct (cdpm_not_liq e) as [N1 N2].
  set (net := Z.min _ _) in H.
  destruct (if net =? 0 then Some s else _) as [s2|] eqn:E2; [|discriminate].
  assert (F2 : keeps_cdpm e s s2).
  { destruct (net =? 0); [inversion E2; intros d; reflexivity|].
    destruct (b_burn s _ _ net) as [s1|] eqn:Eb1; [|discriminate]. intros d.
    rewrite (b_burn_other _ _ _ _ _ E2) by (right; exact N1). rewrite (b_burn_other _ _ _ _ _ Eb1) by (right; exact N1). reflexivity. }
  destruct (if debt_thr e <=? _ then _ else Some s2) as [s4|] eqn:E4; [|discriminate].
  assert (F4 : keeps_cdpm e s2 s4).
  { destruct (debt_thr e <=? _); [|inversion E4; intros d; reflexivity].
    destruct (b_send s2 _ _ _ _) as [s3|] eqn:Eb3; [|discriminate]. inversion E4; subst. intros d. cbn.
    apply (b_send_other _ _ _ _ _ _ Eb3). right. split; assumption. }
  assert (F5 : keeps_cdpm e s4 s').
  { destruct (_ <? sur_thr e); [inversion H; subst; intros d; reflexivity|].
    destruct (b_send s4 _ _ _ _) as [s5|] eqn:Eb5; [|discriminate]. inversion H; subst. intros d. cbn.
    apply (b_send_other _ _ _ _ _ _ Eb5). right. split; assumption. }
  intros d. rewrite F5, F4, F2. reflexivity.
Qed.

Lemma begin_block_Inv2 e s s' u : env_wf e -> Inv2 e s -> begin_block e s = Ok s' u -> Inv2 e s'.
Proof.
  intros Hwf HI2 H. split; [eapply begin_block_IdxInv; [exact (proj1 HI2)|exact H]|].
  revert H. unfold begin_block.
  destruct (ofold _ s _) as [s1 []| |] eqn:E; try discriminate.
  destruct (run_auctions e s1) as [s2 []| |] eqn:Er; try discriminate.
  intros H; inversion H; subst.
  pose proof (run_auctions_cdpm _ _ _ _ Er) as Hb.
  apply run_auctions_stores in Er. destruct Er as (A1 & A2 & A3 & A4 & A5).
  assert (I1 : Inv2 e s1).
  { revert E. generalize (negb (Z.rem (height s) (interval e) =? 0)). intros skip E.
    assert (G : forall l s0 s3 u0,
      (forall t cp, In (t, cp) l -> get_cp e t = Some cp) ->
      Inv2 e s0 -> ofold (begin_type e skip) s0 l = Ok s3 u0 -> Inv2 e s3).
    { induction l as [|[t cp] tl IH]; intros s0 s3 u0 Hl H0 H1; cbn [ofold] in H1; [inversion H1; subst; exact H0|].
      destruct (begin_type e skip s0 (t, cp)) as [s4 []| |] eqn:E4; try discriminate.
      eapply IH; [intros t' cp' Hin; apply Hl; right; exact Hin| |exact H1].
      eapply begin_type_Inv2; [exact Hwf|exact H0|apply Hl; left; reflexivity|exact E4]. }
    eapply G; [|exact HI2|exact E].
    intros t cp Hin. unfold ntypes in Hin. apply combine_seq_nth in Hin. destruct Hin as [Hn _].
    unfold get_cp. rewrite Nat.sub_0_r in Hn. exact Hn. }
  apply (CustInv_view e s1); [apply view_of_cdps, A1|exact A5|exact A3| |exact (proj2 I1)].
  intros t cp _. apply Hb.
Qed.

(** * Every operation, every history *)
Lemma step_Inv2 e s o s' u : env_wf e -> params_ok e -> Inv2 e s -> step e s o = Ok s' u -> Inv2 e s'.
Proof.
  intros Hwf Hpar [HI HC] E. split; [eapply step_IdxInv; eassumption|].
  destruct o; cbn [step] in E.
  - unfold user_ok in E. destruct (Nat.ltb_spec o (nusers e)); [|discriminate]. eapply create_CustInv; eassumption.
  - unfold user_ok in E. destruct (Nat.ltb_spec o (nusers e)); [|discriminate].
    destruct (Nat.ltb_spec u0 (nusers e)); [|discriminate]. cbn [andb] in E. eapply deposit_CustInv; eassumption.
  - unfold user_ok in E. destruct (Nat.ltb_spec o (nusers e)); [|discriminate].
    destruct (Nat.ltb_spec u0 (nusers e)); [|discriminate]. cbn [andb] in E. eapply withdraw_CustInv; eassumption.
  - unfold user_ok in E. destruct (Nat.ltb_spec o (nusers e)); [|discriminate]. eapply draw_CustInv; eassumption.
  - unfold user_ok in E. destruct (Nat.ltb_spec o (nusers e)); [|discriminate]. eapply repay_CustInv; eassumption.
  - unfold user_ok in E. destruct (Nat.ltb_spec o (nusers e)); [|discriminate].
    destruct (Nat.ltb_spec k (nusers e)); [|discriminate]. cbn [andb] in E. eapply keeper_liquidate_CustInv; eassumption.
  - assert (I0 : Inv2 e (set_clock (set_price s (fold_left (fun f (mp : nat * Z) => upd f (fst mp) (snd mp)) prices (price s))) (now s + dt) (height s + 1))).
    { split; [apply (IdxInv_frame e s); [reflexivity..|exact HI]|].
      apply (CustInv_view e s); try assumption; try reflexivity. intros; split; reflexivity. }
    destruct (begin_block_Inv2 _ _ _ _ Hwf I0 E) as [_ R]. exact R.
Qed.

Lemma run_Inv2 e ops : env_wf e -> params_ok e -> forall s, Inv2 e s -> Inv2 e (run e s ops).
Proof.
  intros Hwf Hpar. induction ops as [|o r IH]; intros s HI; [exact HI|]. cbn [run fold_left]. fold (run e (step' e s o) r).
  apply IH. unfold step'. destruct (step e s o) as [s1 []| |] eqn:E; [|exact HI|exact HI].
  eapply step_Inv2; eassumption.
Qed.

(* genesis: empty stores, the module account holds no collateral *)
Lemma init_CustInv e bals sups prices status ifacs ptimes startid t h :
  (forall t0 cp, get_cp e t0 = Some cp -> nthZ (nth (CDPM e) bals []) (cp_denom cp) = 0) ->
  CustInv e (mk_state bals sups prices status ifacs ptimes startid t h).
Proof.
  intros Hb. split; [|split; [|split]].
  - intros t0 id H. cbn in H. discriminate.
  - intros t0 t' id H. cbn in H. discriminate.
  - intros id u a H. cbn in H. discriminate.
  - intros t0 cp Hcp. cbn [mk_state bal]. rewrite (Hb t0 cp Hcp). symmetry. unfold custody'.
    apply sumN_zero. intros t1 _. destruct (denom_is e t1 (cp_denom cp)); [|reflexivity].
    unfold tcoll. apply sumN_zero. intros id _. reflexivity.
Qed.
