(* Lemmas about Model/Json.v: maps with last-wins lookup, DeepEqual on encoded
   values, and the amino-JSON round trip  decode (encode v) = v  for stored values. *)
From Kava Require Import Base.Prelude Model.Json.
Local Open Scope Z_scope.

(** ** well-typed stored values (what a load from the store yields) *)

Definition wt_s (k : skind) (v : json) : bool :=
  match k, v with
  | KStr, JStr _ => true
  | KBool, JBool _ => true
  | KI64, JStr (SInt z) => (I64MIN <=? z) && (z <=? I64MAX)
  | KU64, JStr (SInt z) => (0 <=? z) && (z <=? U64MAX)
  | KInt, JStr (SInt z) => Z.abs z <? INT_BOUND
  | KDec, JNull => true
  | KDec, JStr (SDec m) => Z.abs m <? DEC_BOUND
  | KAddr, JStr (SAddr _) => true
  | KAddr, JStr (SText EmptyString) => true
  | _, _ => false
  end.

(* a typed struct value: exactly the schema's names in order, every value well-typed *)
Fixpoint wt_fields (fs : list sfield) (b : jmap) : bool :=
  match fs, b with
  | [], [] => true
  | (n, k, _) :: r, (n', v) :: t => String.eqb n n' && wt_s k v && wt_fields r t
  | _, _ => false
  end.

Definition wt_k (k : kind) (v : json) : bool :=
  match k with
  | KS s => wt_s s v
  | KObj fs => match v with JObj b => wt_fields fs b | _ => false end
  end.

Fixpoint wt_rec (sch : schema) (r : jmap) : bool :=
  match sch, r with
  | [], [] => true
  | f :: s, (n, v) :: t => String.eqb (f_name f) n && wt_k (f_kind f) v && wt_rec s t
  | _, _ => false
  end.

(** ** basic facts *)

Lemma jstr_eqb_eq a b : jstr_eqb a b = true -> a = b.
Proof.
  destruct a, b; cbn; intros H; try discriminate.
  - apply String.eqb_eq in H. congruence.
  - apply Z.eqb_eq in H. congruence.
  - apply Z.eqb_eq in H. congruence.
  - apply Nat.eqb_eq in H. congruence.
Qed.

Lemma jstr_eqb_refl a : jstr_eqb a a = true.
Proof.
  destruct a; cbn; [apply String.eqb_refl|apply Z.eqb_refl|apply Z.eqb_refl|apply Nat.eqb_refl].
Qed.

Definition scalar (j : json) : Prop :=
  match j with JNull | JBool _ | JStr _ => True | _ => False end.

Lemma jeq_scalar a b : scalar a -> jeq a b = true -> b = a.
Proof.
  destruct a; cbn; try contradiction; intros _; destruct b; cbn; intros H; try discriminate.
  - reflexivity.
  - apply Bool.eqb_prop in H. congruence.
  - apply jstr_eqb_eq in H. congruence.
Qed.

Definition obj_sub (y : jmap) : jmap -> bool :=
  fix sub (l : jmap) : bool :=
    match l with
    | [] => true
    | kv :: r =>
        (if has_key (fst kv) r then true
         else match oget (fst kv) y with Some w => jeq (snd kv) w | None => false end)
        && sub r
    end.

Lemma jeq_obj x y :
  jeq (JObj x) (JObj y) = obj_sub y x && Nat.eqb (List.length (dedupe x)) (List.length (dedupe y)).
Proof. reflexivity. Qed.

Lemma jeq_obj_inv x j : jeq (JObj x) j = true -> exists y, j = JObj y.
Proof. destruct j; cbn; try discriminate. eauto. Qed.

Lemma has_key_In k l : has_key k l = true <-> In k (map fst l).
Proof.
  induction l as [|[k' v] r IH]; cbn; [split; [discriminate|contradiction]|].
  rewrite Bool.orb_true_iff, IH, String.eqb_eq. tauto.
Qed.

Lemma has_key_false_notin k l : has_key k l = false <-> ~ In k (map fst l).
Proof. rewrite <- has_key_In. destruct (has_key k l); split; intros; try congruence; tauto. Qed.

Lemma oget_none_iff k l : oget k l = None <-> has_key k l = false.
Proof.
  induction l as [|[k' v] r IH]; cbn; [tauto|].
  destruct (oget k r) eqn:E.
  - split; [discriminate|]. intros H. apply Bool.orb_false_iff in H. destruct H as [_ H].
    apply IH in H. discriminate.
  - destruct (String.eqb k' k); cbn; [split; discriminate|]. tauto.
Qed.

Lemma oget_some_has k l v : oget k l = Some v -> has_key k l = true.
Proof.
  intros H. destruct (has_key k l) eqn:E; [reflexivity|].
  apply oget_none_iff in E. congruence.
Qed.

Lemma has_key_dedupe k l : has_key k (dedupe l) = has_key k l.
Proof.
  induction l as [|[k' v] r IH]; cbn; [reflexivity|].
  destruct (has_key k' r) eqn:E; cbn; rewrite IH; [|reflexivity].
  destruct (String.eqb_spec k' k) as [->|]; cbn; [|reflexivity]. now rewrite E.
Qed.

Lemma oget_dedupe k l : oget k (dedupe l) = oget k l.
Proof.
  induction l as [|[k' v] r IH]; cbn; [reflexivity|].
  destruct (has_key k' r) eqn:E; cbn; rewrite IH; [|reflexivity].
  destruct (oget k r) eqn:G; [reflexivity|].
  destruct (String.eqb_spec k' k) as [->|]; [|reflexivity].
  apply oget_none_iff in G. congruence.
Qed.

Lemma dedupe_nodup l : NoDup (map fst (dedupe l)).
Proof.
  induction l as [|[k v] r IH]; cbn; [constructor|].
  destruct (has_key k r) eqn:E; [exact IH|]. cbn. constructor; [|exact IH].
  rewrite <- has_key_In, has_key_dedupe. congruence.
Qed.

Lemma dedupe_id l : NoDup (map fst l) -> dedupe l = l.
Proof.
  induction l as [|[k v] r IH]; cbn; [reflexivity|]. intros H. inversion H as [|? ? Hn Hr]; subst.
  apply has_key_false_notin in Hn. rewrite Hn, IH by assumption. reflexivity.
Qed.

(* with unique keys, the first occurrence is the last *)
Lemma oget_unique_cons k v r k0 :
  ~ In k (map fst r) ->
  oget k0 ((k, v) :: r) = if String.eqb k k0 then Some v else oget k0 r.
Proof.
  intros Hn. cbn. destruct (String.eqb_spec k k0) as [->|Hne].
  - apply has_key_false_notin in Hn. apply oget_none_iff in Hn. now rewrite Hn.
  - destruct (oget k0 r); reflexivity.
Qed.

(* obj_sub: every key of x (its last occurrence) is in y with a DeepEqual value *)
Lemma obj_sub_spec y x : obj_sub y x = true ->
  forall k v, oget k x = Some v -> exists w, oget k y = Some w /\ jeq v w = true.
Proof.
  induction x as [|[k' v'] r IH]; cbn; [discriminate|].
  intros H k v Hg. apply Bool.andb_true_iff in H. destruct H as [H1 H2].
  destruct (oget k r) eqn:E.
  - inversion Hg; subst. eapply IH; eauto.
  - destruct (String.eqb_spec k' k) as [->|]; [|discriminate]. inversion Hg; subst.
    apply oget_none_iff in E. rewrite E in H1.
    destruct (oget k y) as [w|]; [|discriminate]. eauto.
Qed.

(* the key sets agree when the counts agree *)
Lemma jeq_obj_keys x y : jeq (JObj x) (JObj y) = true ->
  forall k, has_key k y = has_key k x.
Proof.
  rewrite jeq_obj. intros H. apply Bool.andb_true_iff in H. destruct H as [Hs Hl].
  apply Nat.eqb_eq in Hl.
  assert (Hincl : incl (map fst (dedupe x)) (map fst (dedupe y))).
  { intros k Hk. apply has_key_In in Hk. rewrite has_key_dedupe in Hk.
    destruct (oget k x) as [v|] eqn:E; [|apply oget_none_iff in E; congruence].
    destruct (obj_sub_spec _ _ Hs _ _ E) as (w & Hw & _).
    apply has_key_In. rewrite has_key_dedupe. eapply oget_some_has; eauto. }
  assert (Hback : incl (map fst (dedupe y)) (map fst (dedupe x))).
  { apply NoDup_length_incl; [apply dedupe_nodup| |exact Hincl].
    rewrite !map_length. lia. }
  intros k. destruct (has_key k y) eqn:Ey.
  - symmetry. rewrite <- has_key_dedupe. apply has_key_In. apply Hback.
    apply has_key_In. now rewrite has_key_dedupe.
  - destruct (has_key k x) eqn:Ex; [|reflexivity].
    rewrite <- has_key_dedupe in Ex. apply has_key_In in Ex. apply Hincl in Ex.
    apply has_key_In in Ex. rewrite has_key_dedupe in Ex. congruence.
Qed.

Lemma jeq_obj_get x y : jeq (JObj x) (JObj y) = true ->
  forall k v, oget k x = Some v -> exists w, oget k y = Some w /\ jeq v w = true.
Proof.
  rewrite jeq_obj. intros H. apply Bool.andb_true_iff in H. destruct H as [Hs _].
  exact (obj_sub_spec _ _ Hs).
Qed.

(** ** scalar round trip *)

Lemma json_eqb_zero_s k v : wt_s k v = true -> emp_s k v = true -> v = zero_s k.
Proof.
  unfold emp_s. destruct k, v; cbn; try discriminate; intros Hw He; try reflexivity.
  - destruct s; cbn in He; try discriminate. apply String.eqb_eq in He. now subst.
  - destruct b; [discriminate|reflexivity].
  - destruct s; cbn in He; try discriminate. apply Z.eqb_eq in He. now subst.
  - destruct s; cbn in He; try discriminate. apply Z.eqb_eq in He. now subst.
  - destruct s; cbn in He; try discriminate. apply String.eqb_eq in He. now subst.
Qed.

Lemma wt_s_scalar k v : wt_s k v = true -> scalar v.
Proof. destruct k, v; cbn; try discriminate; trivial. Qed.

Lemma enc_s_wt k v : wt_s k v = true -> enc_s k v = v.
Proof. destruct k, v; cbn; try discriminate; reflexivity. Qed.

Lemma dec_s_wt k v : wt_s k v = true -> dec_s k v = Some v.
Proof.
  destruct k, v; cbn; try discriminate; try reflexivity; intros H;
    destruct s; try discriminate; try reflexivity; try (now rewrite H).
  destruct s; try discriminate. reflexivity.
Qed.

Lemma wt_zero_omit k : omit_ok_s k = true -> wt_s k (zero_s k) = true.
Proof. destruct k; cbn; try discriminate; reflexivity. Qed.

(* DeepEqual with the encoding of a stored scalar pins the decoded value *)
Lemma dec_s_jeq k v j : wt_s k v = true -> jeq (enc_s k v) j = true -> dec_s k j = Some v.
Proof.
  intros Hw Hj. rewrite (enc_s_wt _ _ Hw) in Hj.
  apply jeq_scalar in Hj; [|eapply wt_s_scalar; eauto]. subst j. now apply dec_s_wt.
Qed.

(** ** struct-with-scalar-fields round trip *)

Lemma wt_fields_names fs b : wt_fields fs b = true -> map fst b = map (fun f => fst (fst f)) fs.
Proof.
  revert b. induction fs as [|[[n k] om] r IH]; destruct b as [|[n' v] t]; cbn; try discriminate; [reflexivity|].
  intros H. apply Bool.andb_true_iff in H. destruct H as [H Ht].
  apply Bool.andb_true_iff in H. destruct H as [Hn _]. apply String.eqb_eq in Hn. subst.
  f_equal. now apply IH.
Qed.

Lemma bget_notin k r d : ~ In k (map fst r) -> bget k r d = d.
Proof.
  induction r as [|[k' v] t IH]; cbn; [reflexivity|]. intros H.
  destruct (String.eqb_spec k' k) as [->|]; [tauto|]. apply IH. tauto.
Qed.

Lemma enc_fields_keys fs vals n : In n (map fst (enc_fields fs vals)) -> In n (map (fun f => fst (fst f)) fs).
Proof.
  induction fs as [|[[n' k] om] r IH]; cbn; [tauto|].
  destruct (om && emp_s k (bget n' vals (zero_s k))); cbn; intros H; [right; now apply IH|].
  destruct H; [now left|right; now apply IH].
Qed.

Lemma enc_fields_nodup fs vals : NoDup (map (fun f => fst (fst f)) fs) -> NoDup (map fst (enc_fields fs vals)).
Proof.
  induction fs as [|[[n k] om] r IH]; cbn; [constructor|]. intros H. inversion H; subst.
  destruct (om && emp_s k (bget n vals (zero_s k))); cbn; [now apply IH|].
  constructor; [|now apply IH]. intros Hin. apply enc_fields_keys in Hin. tauto.
Qed.

Lemma names_nodup_NoDup l : names_nodup l = true -> NoDup l.
Proof.
  induction l as [|x r IH]; cbn; [constructor|]. intros H. apply Bool.andb_true_iff in H. destruct H as [H1 H2].
  constructor; [|now apply IH]. intros Hin. apply Bool.negb_true_iff in H1.
  assert (existsb (String.eqb x) r = true); [|congruence].
  apply existsb_exists. exists x. split; [assumption|apply String.eqb_refl].
Qed.

(* what the encoding holds for a field name *)
Lemma oget_enc_fields fs vals n k om :
  NoDup (map (fun f => fst (fst f)) fs) -> In (n, k, om) fs ->
  oget n (enc_fields fs vals) =
    if om && emp_s k (bget n vals (zero_s k)) then None else Some (enc_s k (bget n vals (zero_s k))).
Proof.
  induction fs as [|[[n' k'] om'] r IH]; cbn; [tauto|]. intros Hnd Hin. inversion Hnd as [|? ? Hn Hr]; subst.
  destruct Hin as [E|Hin].
  - inversion E; subst.
    assert (Hno : oget n (enc_fields r vals) = None).
    { apply oget_none_iff. apply has_key_false_notin. intros Hx. apply enc_fields_keys in Hx. tauto. }
    destruct (om && emp_s k (bget n vals (zero_s k))); [exact Hno|].
    cbn. rewrite Hno, String.eqb_refl. reflexivity.
  - assert (Hne : n' <> n).
    { intros ->. apply Hn. apply in_map_iff. exists (n, k, om). split; [reflexivity|assumption]. }
    destruct (om' && emp_s k' (bget n' vals (zero_s k'))); [now apply IH|].
    cbn. rewrite IH by assumption.
    destruct (om && emp_s k (bget n vals (zero_s k))); [|reflexivity].
    destruct (String.eqb_spec n' n); [contradiction|reflexivity].
Qed.

Lemma wt_fields_get fs b n k om :
  wt_fields fs b = true -> NoDup (map (fun f => fst (fst f)) fs) -> In (n, k, om) fs ->
  wt_s k (bget n b (zero_s k)) = true.
Proof.
  revert b. induction fs as [|[[n' k'] om'] r IH]; destruct b as [|[n'' v] t]; cbn; try discriminate; try tauto.
  intros H Hnd Hin. inversion Hnd as [|? ? Hn Hr]; subst.
  apply Bool.andb_true_iff in H. destruct H as [H Ht].
  apply Bool.andb_true_iff in H. destruct H as [Hn' Hv]. apply String.eqb_eq in Hn'. subst n''.
  destruct Hin as [E|Hin].
  - inversion E; subst. now rewrite String.eqb_refl.
  - destruct (String.eqb_spec n' n) as [->|].
    + exfalso. apply Hn. apply in_map_iff. exists (n, k, om). split; [reflexivity|assumption].
    + eapply IH; eauto.
Qed.

Lemma bget_zero_fields fs n k om :
  NoDup (map (fun f => fst (fst f)) fs) -> In (n, k, om) fs ->
  bget n (zero_fields fs) (zero_s k) = zero_s k.
Proof.
  induction fs as [|[[n1 k1] o1] r IH]; cbn; [tauto|]. intros Hnd Hin. inversion Hnd as [|? ? Hn Hr]; subst.
  destruct Hin as [E|Hin].
  - inversion E; subst. now rewrite String.eqb_refl.
  - destruct (String.eqb_spec n1 n) as [->|]; [|now apply IH].
    exfalso. apply Hn. apply in_map_iff. exists (n, k, om). split; [reflexivity|assumption].
Qed.

(* decoding, onto the value itself or onto zero, a document DeepEqual to the
   encoding of a stored struct value gives that value back *)
Lemma dec_fields_jeq fs b base raw :
  sfields_ok fs = true -> wt_fields fs b = true ->
  (base = b \/ base = zero_fields fs) ->
  jeq (JObj (enc_fields fs b)) (JObj raw) = true ->
  dec_fields fs base raw = Some b.
Proof.
  intros Hok Hwt Hbase Hj.
  apply Bool.andb_true_iff in Hok. destruct Hok as [Hnd Hom]. apply names_nodup_NoDup in Hnd.
  pose proof (jeq_obj_keys _ _ Hj) as Hkeys. pose proof (jeq_obj_get _ _ Hj) as Hget.
  (* generalise over a suffix of the field list *)
  assert (G : forall fs' b',
    (forall f, In f fs' -> In f fs) -> NoDup (map (fun f => fst (fst f)) fs') ->
    wt_fields fs' b' = true ->
    (forall n k om, In (n, k, om) fs' -> bget n b' (zero_s k) = bget n b (zero_s k)) ->
    dec_fields fs' base raw = Some b').
  { induction fs' as [|[[n k] om] r IH]; destruct b' as [|[n' v] t]; cbn; try discriminate; [reflexivity|].
    intros Hsub Hnd' Hw Hsame. inversion Hnd' as [|? ? Hn Hr]; subst.
    apply Bool.andb_true_iff in Hw. destruct Hw as [Hw Ht].
    apply Bool.andb_true_iff in Hw. destruct Hw as [Hn' Hv]. apply String.eqb_eq in Hn'. subst n'.
    assert (Hin : In (n, k, om) fs) by (apply Hsub; now left).
    pose proof (Hsame n k om (or_introl eq_refl)) as Hb. cbn in Hb. rewrite String.eqb_refl in Hb.
    pose proof (oget_enc_fields fs b n k om Hnd Hin) as He. rewrite <- Hb in He.
    rewrite (IH t).
    - assert (Hval : match oget n raw with
                     | None => Some (if om then bget n base (zero_s k) else zero_s k)
                     | Some j => dec_s k j
                     end = Some v); [|now rewrite Hval].
      destruct (om && emp_s k v) eqn:Eo.
      + (* omitted from the encoding, hence absent from raw *)
        assert (Hr0 : oget n raw = None).
        { apply oget_none_iff. rewrite Hkeys. apply oget_none_iff. exact He. }
        rewrite Hr0. apply Bool.andb_true_iff in Eo. destruct Eo as [-> Ee].
        pose proof (json_eqb_zero_s _ _ Hv Ee) as Hz. f_equal.
        destruct Hbase as [->| ->].
        * now rewrite <- Hb.
        * rewrite Hz. eapply bget_zero_fields; eauto.
      + destruct (Hget n (enc_s k v) He) as (w & Hw' & Hjw). rewrite Hw'.
        eapply dec_s_jeq; eauto.
    - intros f Hf. apply Hsub. now right.
    - assumption.
    - assumption.
    - intros n0 k0 om0 Hin0. specialize (Hsame n0 k0 om0 (or_intror Hin0)). cbn in Hsame.
      destruct (String.eqb_spec n n0) as [->|]; [|exact Hsame].
      exfalso. apply Hn. apply in_map_iff. exists (n0, k0, om0). split; [reflexivity|assumption]. }
  apply (G fs b); auto.
Qed.

(** ** reflexivity of DeepEqual on encodings *)

Lemma jeq_scalar_refl v : scalar v -> jeq v v = true.
Proof.
  destruct v; cbn; try contradiction; intros _; [reflexivity|apply Bool.eqb_reflx|apply jstr_eqb_refl].
Qed.

Lemma In_oget_nodup k v l : NoDup (map fst l) -> In (k, v) l -> oget k l = Some v.
Proof.
  induction l as [|[k' v'] r IH]; cbn; [tauto|]. intros Hnd Hin. inversion Hnd as [|? ? Hn Hr]; subst.
  destruct Hin as [E|Hin].
  - inversion E; subst. apply has_key_false_notin in Hn. apply oget_none_iff in Hn.
    now rewrite Hn, String.eqb_refl.
  - now rewrite (IH Hr Hin).
Qed.

Lemma obj_sub_refl_gen y l :
  (forall k v, In (k, v) l -> oget k y = Some v /\ jeq v v = true) -> obj_sub y l = true.
Proof.
  induction l as [|[k v] r IH]; cbn; [reflexivity|]. intros H.
  rewrite IH by (intros; apply H; now right).
  destruct (H k v (or_introl eq_refl)) as [-> ->]. now destruct (has_key k r).
Qed.

Lemma jeq_obj_refl x :
  NoDup (map fst x) -> (forall k v, In (k, v) x -> jeq v v = true) -> jeq (JObj x) (JObj x) = true.
Proof.
  intros Hnd Hv. rewrite jeq_obj, Nat.eqb_refl, Bool.andb_true_r.
  apply obj_sub_refl_gen. intros k v Hin. split; [now apply In_oget_nodup|eauto].
Qed.

Lemma enc_fields_scalar fs b k v : wt_fields fs b = true -> NoDup (map (fun f => fst (fst f)) fs) ->
  In (k, v) (enc_fields fs b) -> scalar v.
Proof.
  intros Hw Hnd. 
  assert (G : forall fs', (forall f, In f fs' -> In f fs) -> In (k, v) (enc_fields fs' b) -> scalar v).
  { induction fs' as [|[[n k0] om] r IH]; cbn; [tauto|]. intros Hsub.
    assert (Hwv : wt_s k0 (bget n b (zero_s k0)) = true).
    { eapply wt_fields_get; [exact Hw|exact Hnd|apply Hsub; now left]. }
    destruct (om && emp_s k0 (bget n b (zero_s k0))); cbn.
    - apply IH. intros; apply Hsub; now right.
    - intros [E|Hin]; [|apply IH; [intros; apply Hsub; now right|exact Hin]].
      inversion E; subst. rewrite (enc_s_wt _ _ Hwv). eapply wt_s_scalar; eauto. }
  apply G. auto.
Qed.

(** ** records over a full schema *)

Definition kok (k : kind) : Prop := match k with KObj fs => sfields_ok fs = true | KS _ => True end.

Lemma field_ok_kok f : field_ok f = true -> kok (f_kind f).
Proof.
  unfold field_ok, kok. destruct (f_kind f); [trivial|]. intros H. apply Bool.andb_true_iff in H. tauto.
Qed.

Lemma sfields_nodup fs : sfields_ok fs = true -> NoDup (map (fun f => fst (fst f)) fs).
Proof. intros H. apply Bool.andb_true_iff in H. destruct H as [H _]. now apply names_nodup_NoDup. Qed.

Lemma jeq_enc_refl k v : kok k -> wt_k k v = true -> jeq (enc_k k v) (enc_k k v) = true.
Proof.
  destruct k as [s|fs]; cbn; intros Hk Hw.
  - rewrite (enc_s_wt _ _ Hw). apply jeq_scalar_refl. eapply wt_s_scalar; eauto.
  - destruct v; try discriminate. apply sfields_nodup in Hk.
    apply jeq_obj_refl; [now apply enc_fields_nodup|].
    intros k v Hin. apply jeq_scalar_refl. eapply enc_fields_scalar; eauto.
Qed.

Lemma dec_k_jeq k v b j :
  kok k -> wt_k k v = true -> (b = v \/ b = zero_k k) -> jeq (enc_k k v) j = true -> dec_k k b j = Some v.
Proof.
  destruct k as [s|fs]; cbn; intros Hk Hw Hb Hj.
  - eapply dec_s_jeq; eauto.
  - destruct v as [| | | | |bv]; try discriminate.
    destruct (jeq_obj_inv _ _ Hj) as (raw & ->).
    rewrite (dec_fields_jeq fs bv _ raw Hk Hw); [reflexivity| |exact Hj].
    destruct Hb as [->| ->]; [now left|now right].
Qed.

Lemma field_dec k om v b raw n :
  kok k -> wt_k k v = true -> (b = v \/ b = zero_k k) ->
  ((om && emp_k k v = false /\ jeq (enc_k k v) (mget n raw) = true)
   \/ (om && emp_k k v = true /\ oget n raw = None)) ->
  match oget n raw with
  | None => Some (if om then b else zero_k k)
  | Some j => dec_k k b j
  end = Some v.
Proof.
  intros Hk Hw Hb [[_ Hj]|[Ho Hn]].
  - unfold mget in Hj. destruct (oget n raw) as [j|]; [eapply dec_k_jeq; eauto|].
    destruct k as [s|fs]; cbn in *.
    + rewrite (enc_s_wt _ _ Hw) in Hj.
      assert (v = JNull) by (destruct v; cbn in Hj; try discriminate; reflexivity). subst v.
      destruct s; cbn in Hw; try discriminate. cbn.
      destruct Hb as [->| ->]; now destruct om.
    + destruct v; discriminate.
  - rewrite Hn. apply Bool.andb_true_iff in Ho. destruct Ho as [-> He].
    destruct k as [s|fs]; cbn in *; [|discriminate].
    rewrite (json_eqb_zero_s _ _ Hw He) in *. destruct Hb as [->| ->]; reflexivity.
Qed.

Lemma dec_rec_get sch base raw r' f d :
  NoDup (map f_name sch) -> dec_rec sch base raw = Some r' -> In f sch ->
  match oget (f_name f) raw with
  | None => Some (if f_omit f then bget (f_name f) base (zero_k (f_kind f)) else zero_k (f_kind f))
  | Some j => dec_k (f_kind f) (bget (f_name f) base (zero_k (f_kind f))) j
  end = Some (bget (f_name f) r' d).
Proof.
  revert r'. induction sch as [|g s IH]; cbn; [tauto|]. intros r' Hnd Hd Hin.
  inversion Hnd as [|? ? Hn Hr]; subst.
  destruct (match oget (f_name g) raw with
            | None => Some (if f_omit g then bget (f_name g) base (zero_k (f_kind g)) else zero_k (f_kind g))
            | Some j => dec_k (f_kind g) (bget (f_name g) base (zero_k (f_kind g))) j
            end) as [x|] eqn:Ex; [|discriminate].
  destruct (dec_rec s base raw) as [t|] eqn:Et; [|discriminate]. inversion Hd; subst r'.
  destruct Hin as [->|Hin].
  - cbn. now rewrite String.eqb_refl.
  - cbn. destruct (String.eqb_spec (f_name g) (f_name f)) as [E|].
    + exfalso. apply Hn. rewrite E. now apply in_map.
    + now apply IH.
Qed.

Lemma wt_rec_get sch r f :
  wt_rec sch r = true -> NoDup (map f_name sch) -> In f sch ->
  wt_k (f_kind f) (bget (f_name f) r (zero_k (f_kind f))) = true.
Proof.
  revert r. induction sch as [|g s IH]; destruct r as [|[n v] t]; cbn; try discriminate; try tauto.
  intros H Hnd Hin. inversion Hnd as [|? ? Hn Hr]; subst.
  apply Bool.andb_true_iff in H. destruct H as [H Ht].
  apply Bool.andb_true_iff in H. destruct H as [Hn' Hv]. apply String.eqb_eq in Hn'. subst n.
  destruct Hin as [->|Hin].
  - now rewrite String.eqb_refl.
  - destruct (String.eqb_spec (f_name g) (f_name f)) as [E|].
    + exfalso. apply Hn. rewrite E. now apply in_map.
    + now apply IH.
Qed.

Lemma bget_zero_rec sch f :
  NoDup (map f_name sch) -> In f sch -> bget (f_name f) (zero_rec sch) (zero_k (f_kind f)) = zero_k (f_kind f).
Proof.
  induction sch as [|g s IH]; cbn; [tauto|]. intros Hnd Hin. inversion Hnd as [|? ? Hn Hr]; subst.
  destruct Hin as [->|Hin].
  - now rewrite String.eqb_refl.
  - destruct (String.eqb_spec (f_name g) (f_name f)) as [E|]; [|now apply IH].
    exfalso. apply Hn. rewrite E. now apply in_map.
Qed.

Lemma enc_rec_keys sch r n : In n (map fst (enc_rec sch r)) -> In n (map f_name sch).
Proof.
  induction sch as [|g s IH]; cbn; [tauto|].
  destruct (f_omit g && emp_k (f_kind g) (bget (f_name g) r (zero_k (f_kind g)))); cbn; intros H;
    [right; now apply IH|]. destruct H; [now left|right; now apply IH].
Qed.

Lemma enc_rec_nodup sch r : NoDup (map f_name sch) -> NoDup (map fst (enc_rec sch r)).
Proof.
  induction sch as [|g s IH]; cbn; [constructor|]. intros H. inversion H; subst.
  destruct (f_omit g && emp_k (f_kind g) (bget (f_name g) r (zero_k (f_kind g)))); cbn; [now apply IH|].
  constructor; [|now apply IH]. intros Hin. apply enc_rec_keys in Hin. tauto.
Qed.

Lemma oget_enc_rec sch r f :
  NoDup (map f_name sch) -> In f sch ->
  oget (f_name f) (enc_rec sch r) =
    let v := bget (f_name f) r (zero_k (f_kind f)) in
    if f_omit f && emp_k (f_kind f) v then None else Some (enc_k (f_kind f) v).
Proof.
  induction sch as [|g s IH]; cbn; [tauto|]. intros Hnd Hin. inversion Hnd as [|? ? Hn Hr]; subst.
  destruct Hin as [->|Hin].
  - assert (Hno : oget (f_name f) (enc_rec s r) = None).
    { apply oget_none_iff. apply has_key_false_notin. intros Hx. apply enc_rec_keys in Hx. tauto. }
    destruct (f_omit f && emp_k (f_kind f) (bget (f_name f) r (zero_k (f_kind f)))); [exact Hno|].
    cbn. now rewrite Hno, String.eqb_refl.
  - assert (Hne : f_name g <> f_name f).
    { intros E. apply Hn. rewrite E. now apply in_map. }
    destruct (f_omit g && emp_k (f_kind g) (bget (f_name g) r (zero_k (f_kind g)))); [now apply IH|].
    cbn. rewrite IH by assumption. cbn.
    destruct (f_omit f && emp_k (f_kind f) (bget (f_name f) r (zero_k (f_kind f)))); [|reflexivity].
    destruct (String.eqb_spec (f_name g) (f_name f)); [contradiction|reflexivity].
Qed.

Lemma schema_ok_parts sch : schema_ok sch = true ->
  NoDup (map f_name sch) /\ (forall f, In f sch -> field_ok f = true).
Proof.
  intros H. apply Bool.andb_true_iff in H. destruct H as [H1 H2]. split; [now apply names_nodup_NoDup|].
  now apply forallb_forall.
Qed.

(* load (store r) = r : the amino round trip of a stored record, onto zero or onto itself *)
Lemma dec_rec_full sch r base raw :
  schema_ok sch = true -> wt_rec sch r = true -> (base = r \/ base = zero_rec sch) ->
  (forall f, In f sch ->
     let v := bget (f_name f) r (zero_k (f_kind f)) in
     (f_omit f && emp_k (f_kind f) v = false /\ jeq (enc_k (f_kind f) v) (mget (f_name f) raw) = true)
     \/ (f_omit f && emp_k (f_kind f) v = true /\ oget (f_name f) raw = None)) ->
  dec_rec sch base raw = Some r.
Proof.
  intros Hok Hwt Hbase Hall. destruct (schema_ok_parts _ Hok) as [Hnd Hfok].
  assert (G : forall s t,
    (forall f, In f s -> In f sch) -> NoDup (map f_name s) -> wt_rec s t = true ->
    (forall f, In f s -> bget (f_name f) t (zero_k (f_kind f)) = bget (f_name f) r (zero_k (f_kind f))) ->
    dec_rec s base raw = Some t).
  { induction s as [|g s IH]; destruct t as [|[n v] t]; cbn; try discriminate; [reflexivity|].
    intros Hsub Hnd' Hw Hsame. inversion Hnd' as [|? ? Hn Hr]; subst.
    apply Bool.andb_true_iff in Hw. destruct Hw as [Hw Ht].
    apply Bool.andb_true_iff in Hw. destruct Hw as [Hn' Hv]. apply String.eqb_eq in Hn'. subst n.
    assert (Hin : In g sch) by (apply Hsub; now left).
    pose proof (Hsame g (or_introl eq_refl)) as Hb. cbn in Hb. rewrite String.eqb_refl in Hb.
    pose proof (Hall g Hin) as Hg. cbn in Hg. rewrite <- Hb in Hg.
    rewrite (field_dec (f_kind g) (f_omit g) v _ raw (f_name g)); [| |exact Hv| |exact Hg].
    - rewrite (IH t); [reflexivity| | | |].
      + intros f Hf. apply Hsub. now right.
      + assumption.
      + assumption.
      + intros f Hf. specialize (Hsame f (or_intror Hf)). cbn in Hsame.
        destruct (String.eqb_spec (f_name g) (f_name f)) as [E|]; [|exact Hsame].
        exfalso. apply Hn. rewrite E. now apply in_map.
    - apply field_ok_kok. now apply Hfok.
    - destruct Hbase as [->| ->]; [left; now rewrite <- Hb|right; now apply bget_zero_rec]. }
  apply (G sch r); auto.
Qed.

Lemma load_store sch r :
  schema_ok sch = true -> wt_rec sch r = true ->
  dec_rec sch (zero_rec sch) (enc_rec sch r) = Some r.
Proof.
  intros Hok Hwt. apply dec_rec_full; auto. intros f Hin v.
  destruct (schema_ok_parts _ Hok) as [Hnd Hfok].
  pose proof (oget_enc_rec sch r f Hnd Hin) as He. cbn in He. fold v in He.
  destruct (f_omit f && emp_k (f_kind f) v) eqn:E; [right; now split|left; split; [reflexivity|]].
  unfold mget. rewrite He. apply jeq_enc_refl; [apply field_ok_kok; now apply Hfok|].
  unfold v. eapply wt_rec_get; eauto.
Qed.
