(* C04: index coherence lifted to keeper liquidation and to the begin blocker,
   hence to every operation and every history. *)
From Kava Require Import Base.Prelude Base.Dec Model.Cdp Proofs.CdpRatio Proofs.Cdp Proofs.CdpInv Proofs.CdpInv2.
Local Open Scope Z_scope.

(* which stores a seizure writes (no arithmetic side conditions) *)
Lemma seize_stores e s cp c s' u :
  seize e s cp c = Ok s' u ->
  cdps s' = upd2 (cdps s) (c_type c) (c_id c) None /\
  ridx s' = upd (ridx s) (c_type c) (ent_del (rkey (cdp_ratio e cp c), c_id c) (ridx s (c_type c))) /\
  oidx s' = upd (oidx s) (c_owner c) (filter (fun x => negb (Nat.eqb x (c_id c))) (oidx s (c_owner c))) /\
  nextid s' = nextid s.
Proof.
  unfold seize. intros H.
  destruct (b_send s _ _ _ _) as [s1|] eqn:E1; [|discriminate].
  destruct (ofold _ s1 _) as [s4 []| |] eqn:E2; try discriminate.
  destruct (auction_collateral _ _ _ _ _) as [s5 []| |] eqn:E3; try discriminate.
  inversion H; subst; clear H.
  apply seize_deps_spec in E2. destruct E2 as (A1 & A2 & A3 & A4 & A5 & A6 & A7 & A8).
  pose proof (auction_collateral_frame _ _ _ _ _ _ _ E3) as (C1 & C2 & C3 & C4 & C5 & _ & _ & C8 & _).
  pose proof (b_send_frame _ _ _ _ _ _ E1) as (B1 & B2 & B3 & B4 & B5 & _ & _ & B8 & _).
  cbn. rewrite C1, A1, B1, C4, A3, B4, C3, A2, B3, C8, A7, B8. repeat split.
Qed.

Lemma seize_IdxInv e s cp c s' u :
  IdxInv e s -> get_cp e (c_type c) = Some cp -> cdps s (c_type c) (c_id c) = Some c ->
  seize e s cp c = Ok s' u -> IdxInv e s'.
Proof.
  intros HI Hcp Hst H. apply seize_stores in H. destruct H as (A & B & _ & N).
  apply (IdxInv_frame e (del_cdp (ridx_del s (c_type c) (cdp_ratio e cp c) (c_id c)) c)).
  - rewrite A. reflexivity.
  - rewrite B. reflexivity.
  - rewrite N. reflexivity.
  - apply remove_IdxInv; assumption.
Qed.

(* payoutKeeperLiquidationReward *)
Lemma payout_reward_IdxInv e s cp k c s2 c1 :
  IdxInv e s -> get_cp e (c_type c) = Some cp -> cdps s (c_type c) (c_id c) = Some c ->
  payout_reward e s cp k c = Ok s2 c1 ->
  IdxInv e s2 /\ cdps s2 (c_type c1) (c_id c1) = Some c1 /\ c_type c1 = c_type c.
Proof.
  intros HI Hcp Hst. unfold payout_reward.
  destruct (first_dep_ge _ _) as [[w a]|]; [|intros H; inversion H; subst; auto].
  destruct (b_send _ _ _ _ _) as [s1|] eqn:Eb; [|discriminate].
  destruct (c_coll c <? _); [discriminate|].
  destruct (update_cdp _ _ _ _ _) as [s3 []| |] eqn:Eu; try discriminate.
  intros H; inversion H; subst; clear H.
  pose proof (update_cdp_stored _ _ _ _ _ _ _ Eu) as Hs.
  apply update_cdp_IdxInv in Eu; [auto| |exact Hcp].
  eapply bank_IdxInv; [eapply b_send_frame; eassumption|]. apply (IdxInv_frame e s); [reflexivity..|exact HI].
Qed.

Lemma keeper_liquidate_IdxInv e s k o t s' v :
  IdxInv e s -> keeper_liquidate e s k o t = Ok s' v -> IdxInv e s'.
Proof.
  intros HI. unfold keeper_liquidate.
  destruct (find_cdp e s o t) as [c0|] eqn:Ef; [|discriminate].
  destruct (get_cp e t) as [cp|] eqn:Hcp; [|discriminate].
  destruct (find_cdp_stored' _ _ _ _ _ _ HI Ef Hcp) as [Ht Hst].
  destruct (sync_interest e s cp c0) as [s1 c| |] eqn:Es; try discriminate.
  pose proof (sync_interest_spec _ _ _ _ _ _ Es) as (_ & Hid & Hty & _).
  apply sync_interest_IdxInv in Es; try assumption; [|rewrite Ht; assumption].
  destruct Es as (HI1 & Hst1).
  destruct (ratio_at _ _ _ _ _ _) as [[] r| |]; try discriminate.
  destruct (cp_liq cp <=? r); [discriminate|].
  destruct (payout_reward e s1 cp k c) as [s2 c1| |] eqn:Ep; try discriminate.
  assert (Hcpc : get_cp e (c_type c) = Some cp) by (rewrite Hty, Ht; exact Hcp).
  apply payout_reward_IdxInv in Ep; try assumption. destruct Ep as (HI2 & Hst2 & Hty2).
  intros H. eapply seize_IdxInv; [exact HI2| |exact Hst2|exact H]. rewrite Hty2. exact Hcpc.
Qed.

(** * The liquidation pass *)
Lemma nodup_map_snd {A B} (l : list (A * B)) :
  NoDup l -> (forall a a' b, In (a, b) l -> In (a', b) l -> a = a') -> NoDup (map snd l).
Proof.
  induction l as [|[a b] tl IH]; intros Hn Hf; cbn; [constructor|].
  inversion Hn as [|? ? Hni Hnt]; subst. constructor.
  - intros Hin. apply in_map_iff in Hin. destruct Hin as ([a' b'] & Hb & Hin). cbn in Hb. subst b'.
    assert (a = a') by (eapply Hf; [left; reflexivity|right; exact Hin]). subst a'. contradiction.
  - apply IH; [exact Hnt|]. intros x x' y H1 H2. eapply Hf; right; eassumption.
Qed.

Lemma idx_below_prefix tg : forall n l, exists rest, l = idx_below tg n l ++ rest.
Proof.
  induction n as [|n IH]; intros l; [exists l; destruct l; reflexivity|].
  destruct l as [|h tl]; [exists []; reflexivity|]. cbn [idx_below].
  destruct (fst h <? tg); [|exists (h :: tl); reflexivity].
  destruct (IH tl) as (rest & Hr). exists rest. cbn. rewrite <- Hr. reflexivity.
Qed.

Lemma nodup_app_l {A} (l1 l2 : list A) : NoDup (l1 ++ l2) -> NoDup l1.
Proof.
  induction l1 as [|x r IH]; intros H; [constructor|]. inversion H as [|? ? Hn Hr]; subst.
  constructor; [intros Hin; apply Hn, in_or_app; left; exact Hin|apply IH, Hr].
Qed.

Lemma seize_fold_IdxInv e cp t p : forall l s s' u,
  get_cp e t = Some cp ->
  ofold (liq_step e cp p) s l = Ok s' u ->
  IdxInv e s ->
  (forall c, In (Some c) l -> c_type c = t /\ cdps s t (c_id c) = Some c) ->
  NoDup (map (fun o : option cdp => match o with Some c => c_id c | None => O end) l) ->
  IdxInv e s'.
Proof.
  induction l as [|o tl IH]; intros s s' u Hcp H HI Hst Hnd; cbn [ofold] in H.
  - inversion H; subst. exact HI.
  - destruct o as [c|]; [|discriminate]. unfold liq_step in H at 1.
    cbn [map] in Hnd. apply NoDup_cons_iff in Hnd. destruct Hnd as [Hni Hnt].
    destruct (confirm_below e cp p c);
      [|cbv beta iota in H; eapply IH; [exact Hcp|exact H|exact HI|intros c' Hin; apply Hst; right; exact Hin|exact Hnt]].
    destruct (seize e s cp c) as [s1 []| |] eqn:E; try discriminate.
    destruct (Hst c (or_introl eq_refl)) as [Hty Hc].
    pose proof (seize_stores _ _ _ _ _ _ E) as (A & _).
    apply seize_IdxInv in E; [|exact HI|rewrite Hty; exact Hcp|rewrite Hty; exact Hc].
    eapply IH; [exact Hcp|exact H|exact E| |exact Hnt].
    intros c' Hin. destruct (Hst c' (or_intror Hin)) as [Hty' Hc']. split; [exact Hty'|].
    rewrite A. unfold upd2. rewrite Hty, Nat.eqb_refl. cbn [andb].
    destruct (Nat.eqb_spec (c_id c') (c_id c)) as [Heq|]; [|exact Hc'].
    exfalso. apply Hni. apply in_map_iff. exists (Some c'). split; [exact Heq|exact Hin].
Qed.

Lemma liquidate_cdps_IdxInv e s t cp s' u :
  IdxInv e s -> get_cp e t = Some cp -> liquidate_cdps e s t cp = Ok s' u -> IdxInv e s'.
Proof.
  intros HI Hcp. unfold liquidate_cdps.
  destruct (price s (cp_liqm cp) =? 0); [intros H; inversion H; subst; exact HI|].
  set (ents := idx_below _ _ _).
  destruct (existsb _ _) eqn:Ex; [discriminate|].
  intros H. destruct HI as (Hk & Hr & Hi). destruct (Hr t cp Hcp) as [Hnd Hin].
  eapply (seize_fold_IdxInv e cp t (price s (cp_liqm cp))); [exact Hcp|exact H|exact (conj Hk (conj Hr Hi))| |].
  - intros c Hc. apply in_map_iff in Hc. destruct Hc as (x & Hx & _).
    unfold get_cdp in Hx. rewrite Hcp in Hx. destruct (Hk _ _ _ Hx) as [-> Hid]. split; [reflexivity|].
    rewrite Hid. exact Hx.
  - (* the ids read from the scan are pairwise distinct *)
    assert (Hids : NoDup (map snd ents)).
    { destruct (idx_below_prefix (rkey (liq_cut (price s (cp_liqm cp)) (cp_liq cp))) (scan_count cp) (ridx s t)) as (rest & Hrest).
      fold ents in Hrest.
      assert (NoDup (map snd (ridx s t))).
      { apply nodup_map_snd; [exact Hnd|]. intros a a' b H1 H2. apply Hin in H1. apply Hin in H2.
        destruct H1 as (c1 & G1 & ->). destruct H2 as (c2 & G2 & ->). congruence. }
      rewrite Hrest, map_app in H0. eapply nodup_app_l. exact H0. }
    rewrite map_map.
    assert (Heq : map (fun x : Z * nat => match get_cdp e s t (snd x) with Some c => c_id c | None => O end) ents = map snd ents).
    { apply map_ext_in. intros x Hx. destruct (get_cdp e s t (snd x)) as [c|] eqn:Eg.
      - unfold get_cdp in Eg. rewrite Hcp in Eg. destruct (Hk _ _ _ Eg) as [_ Hid]. exact Hid.
      - exfalso. assert (existsb (fun o : option cdp => match o with None => true | Some _ => false end)
            (map (fun x0 : Z * nat => get_cdp e s t (snd x0)) ents) = true).
        { apply existsb_exists. exists None. split; [|reflexivity]. rewrite <- Eg.
          apply (in_map (fun x0 : Z * nat => get_cdp e s t (snd x0))) in Hx. exact Hx. }
        congruence. }
    rewrite Heq. exact Hids.
Qed.

(** * The begin blocker *)
Lemma accumulate_interest_stores e s t cp :
  let s' := accumulate_interest e s t cp in
  cdps s' = cdps s /\ ridx s' = ridx s /\ nextid s' = nextid s /\ oidx s' = oidx s /\ deps s' = deps s.
Proof.
  cbv zeta. unfold accumulate_interest. destruct (ptime s t); [|repeat split].
  destruct (_ =? 0); [repeat split|]. destruct (_ <=? 0); [repeat split|].
  destruct (ifac s t); [|repeat split]. destruct (_ =? PREC); [repeat split|]. cbv zeta.
  destruct (_ =? 0); [repeat split|]. cbn.
  pose proof (b_mint_frame s (CDPM e) (d_debt e) (dec_round_int (dec_mul (interest_factor (cp_fee cp) (round_secs (now s - z))) (dec_of_int (tprin s t))) - tprin s t)) as F1.
  set (s1 := b_mint s _ _ _) in *.
  pose proof (b_mint_frame s1 (LIQM e) (d_usdx e) (dec_round_int (dec_mul (interest_factor (cp_fee cp) (round_secs (now s - z))) (dec_of_int (tprin s t))) - tprin s t)) as F2.
  destruct F1 as (A1&A2&A3&A4&_&_&_&A8&_). destruct F2 as (B1&B2&B3&B4&_&_&_&B8&_).
  repeat split; congruence.
Qed.

Lemma sync_risky_one_IdxInv e cp t gf prev s id s' u :
  IdxInv e s -> get_cp e t = Some cp -> sync_risky_one e cp t gf prev s id = Ok s' u -> IdxInv e s'.
Proof.
  intros (Hk & Hr & Hi) Hcp H. destruct (sync_risky_one_idx _ _ _ _ _ _ _ _ _ Hk Hr Hcp H) as [A B].
  split; [exact A|split; [exact B|]].
  unfold sync_risky_one in H. destruct (cdps s t id) as [c|] eqn:Hst; [|discriminate].
  destruct (Hk _ _ _ Hst) as [Ht Hid].
  destruct (_ && _); [inversion H; subst; exact Hi|].
  inversion H; subst; clear H. intros t0 id0 c' Hc. cbn in Hc |- *.
  destruct (new_interest gf (c_ifac c) (cdp_debt c) =? 0); cbn in Hc; unfold upd2 in Hc;
  repeat match type of Hc with context [Nat.eqb ?a ?b] => destruct (Nat.eqb_spec a b) end; cbn [andb] in Hc; subst;
  try (eapply Hi; eassumption).
Qed.

Lemma sync_risky_IdxInv e s t cp s' u :
  IdxInv e s -> get_cp e t = Some cp -> sync_risky e s t cp = Ok s' u -> IdxInv e s'.
Proof.
  intros HI Hcp. unfold sync_risky. destruct (ptime s t) as [prev|]; [|discriminate].
  destruct (ifac s t) as [gf|].
  - intros H. eapply (ofold_inv (IdxInv e)); [|exact HI|exact H].
    intros s0 x s1 u0 H0 H1. eapply sync_risky_one_IdxInv; eassumption.
  - destruct (map snd _); [intros H; inversion H; subst; exact HI|discriminate].
Qed.

Lemma begin_type_IdxInv e skip s t cp s' u :
  IdxInv e s -> get_cp e t = Some cp -> begin_type e skip s (t, cp) = Ok s' u -> IdxInv e s'.
Proof.
  intros HI Hcp. unfold begin_type, update_status.
  destruct (negb (negb (price s (cp_spot cp) =? 0))).
  { intros H; inversion H; subst. apply (IdxInv_frame e s); [reflexivity..|exact HI]. }
  cbn [set_mstat price].
  destruct (negb (negb (price s (cp_liqm cp) =? 0))).
  { intros H; inversion H; subst. apply (IdxInv_frame e s); [reflexivity..|exact HI]. }
  set (s2 := set_mstat _ _).
  assert (HI2 : IdxInv e s2) by (apply (IdxInv_frame e s); [reflexivity..|exact HI]).
  pose proof (accumulate_interest_stores e s2 t cp) as (A1 & A2 & A3 & _).
  assert (HI3 : IdxInv e (accumulate_interest e s2 t cp)) by (apply (IdxInv_frame e s2); assumption).
  destruct skip; [intros H; inversion H; subst; exact HI3|].
  destruct (sync_risky _ _ _ _) as [s4 []| |] eqn:E4; try discriminate.
  destruct (liquidate_cdps e s4 t cp) as [s5 []| |] eqn:E5; try discriminate.
  intros H; inversion H; subst.
  eapply liquidate_cdps_IdxInv; [|exact Hcp|exact E5]. eapply sync_risky_IdxInv; [exact HI3|exact Hcp|exact E4].
Qed.

Lemma combine_seq_nth {A} (l : list A) : forall k t x, In (t, x) (combine (seq k (length l)) l) -> nth_error l (t - k) = Some x /\ (k <= t)%nat.
Proof.
  induction l as [|h tl IH]; intros k t x H; [contradiction|]. cbn in H. destruct H as [H|H].
  - inversion H; subst. rewrite Nat.sub_diag. split; [reflexivity|lia].
  - apply IH in H. destruct H as [H Hk]. split; [|lia]. replace (t - k)%nat with (S (t - S k)) by lia. exact H.
Qed.

Lemma run_auctions_stores e s s' u :
  run_auctions e s = Ok s' u -> cdps s' = cdps s /\ ridx s' = ridx s /\ nextid s' = nextid s /\ oidx s' = oidx s /\ deps s' = deps s.
Proof.
  unfold run_auctions. intros H.
  set (net := Z.min _ _) in H.
  destruct (if net =? 0 then Some s else _) as [s2|] eqn:E2; [|discriminate].
  assert (F2 : bank_only s s2).
  { destruct (net =? 0); [inversion E2; apply bank_only_refl|].
    destruct (b_burn s _ _ net) as [s1|] eqn:Eb1; [|discriminate].
    eapply bank_only_trans; [eapply b_burn_frame; eassumption|eapply b_burn_frame; eassumption]. }
  destruct (if debt_thr e <=? _ then _ else Some s2) as [s4|] eqn:E4; [|discriminate].
  assert (F4 : bank_only s2 s4).
  { destruct (debt_thr e <=? _); [|inversion E4; apply bank_only_refl].
    destruct (b_send s2 _ _ _ _) as [s3|] eqn:Eb3; [|discriminate]. inversion E4; subst.
    eapply bank_only_trans; [eapply b_send_frame; eassumption|apply set_aucs_frame]. }
  assert (F5 : bank_only s4 s').
  { destruct (_ <? sur_thr e); [inversion H; subst; apply bank_only_refl|].
    destruct (b_send s4 _ _ _ _) as [s5|] eqn:Eb5; [|discriminate]. inversion H; subst.
    eapply bank_only_trans; [eapply b_send_frame; eassumption|apply set_aucs_frame]. }
  pose proof (bank_only_trans _ _ _ F2 (bank_only_trans _ _ _ F4 F5)) as (A1&A2&A3&A4&_&_&_&A8&_).
  repeat split; assumption.
Qed.

Lemma begin_block_IdxInv e s s' u : IdxInv e s -> begin_block e s = Ok s' u -> IdxInv e s'.
Proof.
  intros HI. unfold begin_block.
  destruct (ofold _ s _) as [s1 []| |] eqn:E; try discriminate.
  destruct (run_auctions e s1) as [s2 []| |] eqn:Er; try discriminate.
  intros H; inversion H; subst.
  apply run_auctions_stores in Er. destruct Er as (A1 & A2 & A3 & _).
  apply (IdxInv_frame e s1); try assumption.
  revert E. generalize (negb (Z.rem (height s) (interval e) =? 0)). intros skip E.
  assert (G : forall l s0 s3 u0,
    (forall t cp, In (t, cp) l -> get_cp e t = Some cp) ->
    IdxInv e s0 -> ofold (begin_type e skip) s0 l = Ok s3 u0 -> IdxInv e s3).
  { induction l as [|[t cp] tl IH]; intros s0 s3 u0 Hl H0 H1; cbn [ofold] in H1; [inversion H1; subst; exact H0|].
    destruct (begin_type e skip s0 (t, cp)) as [s4 []| |] eqn:E4; try discriminate.
    eapply IH; [intros t' cp' Hin; apply Hl; right; exact Hin| |exact H1].
    eapply begin_type_IdxInv; [exact H0|apply Hl; left; reflexivity|exact E4]. }
  eapply G; [|exact HI|exact E].
  intros t cp Hin. unfold ntypes in Hin. apply combine_seq_nth in Hin. destruct Hin as [Hn _].
  unfold get_cp. rewrite Nat.sub_0_r in Hn. exact Hn.
Qed.

(* every operation keeps the index invariant *)
Lemma step_IdxInv e s o s' u : IdxInv e s -> step e s o = Ok s' u -> IdxInv e s'.
Proof.
  intros HI E. destruct o; cbn [step] in E.
  - destruct (user_ok e o); [|discriminate]. eapply create_IdxInv; eassumption.
  - destruct (user_ok e o && user_ok e u0); [|discriminate]. eapply deposit_IdxInv; eassumption.
  - destruct (user_ok e o && user_ok e u0); [|discriminate]. eapply withdraw_IdxInv; eassumption.
  - destruct (user_ok e o); [|discriminate]. eapply draw_IdxInv; eassumption.
  - destruct (user_ok e o); [|discriminate]. eapply repay_IdxInv; eassumption.
  - destruct (user_ok e o && user_ok e k); [|discriminate]. eapply keeper_liquidate_IdxInv; eassumption.
  - eapply begin_block_IdxInv; [|exact E]. apply (IdxInv_frame e s); [reflexivity..|exact HI].
Qed.

Lemma run_IdxInv e ops : forall s, IdxInv e s -> IdxInv e (run e s ops).
Proof.
  induction ops as [|o r IH]; intros s HI; [exact HI|]. cbn [run fold_left]. fold (run e (step' e s o) r).
  apply IH. unfold step'. destruct (step e s o) as [s1 []| |] eqn:E; [|exact HI|exact HI].
  eapply step_IdxInv; eassumption.
Qed.
