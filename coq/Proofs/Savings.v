(* Lemmas and proofs about Model/Savings.v *)
From Kava Require Import Base.Prelude Model.Savings.
Local Open Scope Z_scope.

(** ** finite sums *)
Lemma sumN_ext n f g : (forall a, (a < n)%nat -> f a = g a) -> sumN n f = sumN n g.
Proof.
  induction n as [|n IH]; intros H; cbn [sumN]; [reflexivity|].
  rewrite IH by (intros; apply H; lia). rewrite (H n) by lia. reflexivity.
Qed.

Lemma sumN_add_at n f a v : (a < n)%nat ->
  sumN n (fun x => f x + (if Nat.eqb x a then v else 0)) = sumN n f + v.
Proof.
  induction n as [|n IH]; intros H; [lia|]. cbn [sumN].
  destruct (Nat.eqb_spec n a) as [->|Hne].
  - rewrite (sumN_ext a _ f); [lia|]. intros x Hx. destruct (Nat.eqb_spec x a); lia.
  - rewrite IH by lia. lia.
Qed.

Lemma sumN_nonneg n f : (forall a, 0 <= f a) -> 0 <= sumN n f.
Proof. intros H; induction n; cbn [sumN]; [lia|]. specialize (H n). lia. Qed.

Lemma sumN_ge1 n f a : (forall x, 0 <= f x) -> (a < n)%nat -> f a <= sumN n f.
Proof.
  intros H. induction n as [|n IH]; intros Ha; [lia|]. cbn [sumN].
  destruct (Nat.eq_dec a n) as [->|].
  - pose proof (sumN_nonneg n f H). lia.
  - specialize (IH ltac:(lia)). specialize (H n). lia.
Qed.

Lemma sumN_zero n f a : (forall x, 0 <= f x) -> sumN n f = 0 -> (a < n)%nat -> f a = 0.
Proof. intros H E Ha. pose proof (sumN_ge1 n f a H Ha). specialize (H a). lia. Qed.

(** ** coins *)
Fixpoint total_of (d : nat) (c : coins) : Z :=
  match c with
  | [] => 0
  | (d', x) :: r => (if Nat.eqb d' d then x else 0) + total_of d r
  end.

Definition amounts_nonneg (c : coins) : Prop := Forall (fun p => 0 <= snd p) c.

Lemma valid_from_spec c : forall lo, coins_valid_from lo c = true ->
  Forall (fun p => 0 < snd p /\ match lo with Some l => (l < fst p)%nat | None => True end) c.
Proof.
  induction c as [|[d x] r IH]; intros lo H; [constructor|].
  cbn [coins_valid_from] in H. apply andb_prop in H. destruct H as [H H3].
  apply andb_prop in H. destruct H as [H1 H2]. apply Z.ltb_lt in H1.
  constructor.
  - cbn. split; [lia|]. destruct lo; [apply Nat.ltb_lt in H2; lia|exact I].
  - specialize (IH _ H3). eapply Forall_impl; [|exact IH].
    intros [d' x'] [Hp Hl]. cbn in *. split; [lia|]. destruct lo; [apply Nat.ltb_lt in H2; lia|exact I].
Qed.

Lemma valid_nonneg c : coins_valid c = true -> amounts_nonneg c.
Proof.
  intros H. apply valid_from_spec in H. eapply Forall_impl; [|exact H]. intros p [Hp _]. lia.
Qed.

Lemma total_of_absent d c : Forall (fun p => fst p <> d) c -> total_of d c = 0.
Proof.
  induction 1 as [|[d' x] r Hd _ IH]; cbn [total_of]; [reflexivity|].
  cbn in Hd. destruct (Nat.eqb_spec d' d); [contradiction|lia].
Qed.

Lemma total_of_nonneg d c : amounts_nonneg c -> 0 <= total_of d c.
Proof.
  induction 1 as [|[d' x] r Hx _ IH]; cbn [total_of]; [lia|]. cbn in Hx. destruct (Nat.eqb d' d); lia.
Qed.

(* the amount paid per denom by CalculateWithdrawAmount on a valid request *)
Lemma total_of_capped dep d c : forall lo, coins_valid_from lo c = true -> 0 <= dep d ->
  total_of d (map (fun p => (fst p, Z.min (snd p) (dep (fst p)))) c) = Z.min (total_of d c) (dep d).
Proof.
  induction c as [|[d0 x] r IH]; intros lo H Hd; cbn [map total_of fst snd]; [lia|].
  pose proof (valid_from_spec _ _ H) as F. inversion F as [|? ? [Hx _] _]; subst. cbn in Hx.
  cbn [coins_valid_from] in H. apply andb_prop in H. destruct H as [_ H3].
  destruct (Nat.eqb_spec d0 d) as [->|Hne].
  - pose proof (valid_from_spec _ _ H3) as F3.
    rewrite !total_of_absent; [lia| |].
    + eapply Forall_impl; [|exact F3]. intros p [_ Hl]. lia.
    + apply Forall_map. eapply Forall_impl; [|exact F3]. intros p [_ Hl]. cbn. lia.
  - rewrite (IH _ H3 Hd). lia.
Qed.

(** ** x/bank *)
Lemma upd2_eq {A} (f : nat -> nat -> A) a d v x y :
  upd2 f a d v x y = if Nat.eqb x a && Nat.eqb y d then v else f x y.
Proof. reflexivity. Qed.

Definition at2 (a d x y : nat) (v : Z) : Z := if Nat.eqb x a && Nat.eqb y d then v else 0.

Lemma bsend1_spec b f t d x b' : bsend1 b f t d x = Some b' ->
  x <= b f d /\ forall a dd, b' a dd = b a dd - at2 f d a dd x + at2 t d a dd x.
Proof.
  unfold bsend1. destruct (Z.leb_spec x (b f d)) as [Hle|Hgt]; [|discriminate]. intros H; inversion H; subst; clear H.
  split; [assumption|]. intros a dd. unfold at2. rewrite !upd2_eq.
  destruct (Nat.eqb_spec a t), (Nat.eqb_spec a f), (Nat.eqb_spec dd d); subst; cbn [andb];
    try rewrite !Nat.eqb_refl; cbn [andb]; try lia;
    repeat match goal with |- context [Nat.eqb ?p ?q] => destruct (Nat.eqb_spec p q); try congruence end; cbn [andb]; lia.
Qed.

Lemma bsend1_nonneg b f t d x b' : bsend1 b f t d x = Some b' -> 0 <= x ->
  (forall a dd, 0 <= b a dd) -> forall a dd, 0 <= b' a dd.
Proof.
  intros H Hx Hb a dd. destruct (bsend1_spec _ _ _ _ _ _ H) as [Hle E]. rewrite E. unfold at2.
  specialize (Hb a dd).
  destruct (Nat.eqb_spec a f), (Nat.eqb_spec a t), (Nat.eqb_spec dd d); subst; cbn [andb]; lia.
Qed.

Lemma bsend_spec c : forall b f t b', bsend b f t c = Some b' ->
  forall a dd, b' a dd = b a dd - (if Nat.eqb a f then total_of dd c else 0) + (if Nat.eqb a t then total_of dd c else 0).
Proof.
  induction c as [|[d x] r IH]; intros b f t b' H a dd; cbn [bsend total_of] in *.
  - inversion H; subst. destruct (Nat.eqb a f), (Nat.eqb a t); lia.
  - destruct (bsend1 b f t d x) as [b1|] eqn:E1; [|discriminate].
    rewrite (IH _ _ _ _ H). destruct (bsend1_spec _ _ _ _ _ _ E1) as [_ E]. rewrite E. unfold at2.
    rewrite (Nat.eqb_sym d dd).
    destruct (Nat.eqb_spec a f), (Nat.eqb_spec a t), (Nat.eqb_spec dd d); subst; cbn [andb]; lia.
Qed.

Lemma bsend_nonneg c : forall b f t b', bsend b f t c = Some b' -> amounts_nonneg c ->
  (forall a dd, 0 <= b a dd) -> forall a dd, 0 <= b' a dd.
Proof.
  induction c as [|[d x] r IH]; intros b f t b' H Hc Hb; cbn [bsend] in H.
  - inversion H; subst. exact Hb.
  - destruct (bsend1 b f t d x) as [b1|] eqn:E1; [|discriminate].
    inversion Hc; subst. eapply IH; eauto. eapply bsend1_nonneg; eauto.
Qed.

(** ** deposit records *)
Lemma dep_add_spec c : forall f a x dd,
  dep_add f a c x dd = f x dd + (if Nat.eqb x a then total_of dd c else 0).
Proof.
  induction c as [|[d v] r IH]; intros f a x dd; cbn [dep_add total_of].
  - destruct (Nat.eqb x a); lia.
  - rewrite IH, upd2_eq. rewrite (Nat.eqb_sym d dd).
    destruct (Nat.eqb_spec x a), (Nat.eqb_spec dd d); subst; cbn [andb]; lia.
Qed.

Lemma dep_sub_spec c : forall f a x dd,
  dep_sub f a c x dd = f x dd - (if Nat.eqb x a then total_of dd c else 0).
Proof.
  induction c as [|[d v] r IH]; intros f a x dd; cbn [dep_sub total_of].
  - destruct (Nat.eqb x a); lia.
  - rewrite IH, upd2_eq. rewrite (Nat.eqb_sym d dd).
    destruct (Nat.eqb_spec x a), (Nat.eqb_spec dd d); subst; cbn [andb]; lia.
Qed.

(** ** the savings invariant *)
Definition senv_wf (e : senv) : Prop := (sav_acc e < nacc e)%nat.

Definition SInv (e : senv) (s : sstate) : Prop :=
  (forall a d, 0 <= bal s a d) /\
  (forall a d, 0 <= sdep s a d) /\
  (forall d, bal s (sav_acc e) d = sumN (nacc e) (fun a => sdep s a d)).

(* keeper.Deposit: exact deltas *)
Lemma sav_deposit_spec e s a c s' : sav_deposit e s a c = Ok s' tt ->
  (forall x d, bal s' x d = bal s x d - (if Nat.eqb x a then total_of d c else 0)
                                   + (if Nat.eqb x (sav_acc e) then total_of d c else 0)) /\
  (forall x d, sdep s' x d = sdep s x d + (if Nat.eqb x a then total_of d c else 0)).
Proof.
  unfold sav_deposit. destruct (negb _); [discriminate|].
  destruct (bsend (bal s) a (sav_acc e) c) as [b|] eqn:E; [|discriminate].
  intros H; inversion H; subst; clear H. cbn [bal sdep]. split.
  - intros x d. apply (bsend_spec _ _ _ _ _ E).
  - intros x d. apply dep_add_spec.
Qed.

Lemma sav_deposit_inv e s a c s' : senv_wf e -> SInv e s -> amounts_nonneg c ->
  (a < nacc e)%nat -> a <> sav_acc e ->
  sav_deposit e s a c = Ok s' tt -> SInv e s'.
Proof.
  intros Hwf (Hb & Hd & Hs) Hc Ha Hne H.
  pose proof (sav_deposit_spec _ _ _ _ _ H) as [Eb Ed].
  unfold sav_deposit in H. destruct (negb _); [discriminate|].
  destruct (bsend (bal s) a (sav_acc e) c) as [b|] eqn:E; [|discriminate].
  inversion H; subst; clear H. cbn [bal sdep] in *.
  split; [|split]; cbn [bal sdep].
  - eapply bsend_nonneg; eauto.
  - intros x d. rewrite Ed. pose proof (total_of_nonneg d c Hc). specialize (Hd x d). destruct (Nat.eqb x a); lia.
  - intros d. rewrite Eb, Nat.eqb_refl. destruct (Nat.eqb_spec (sav_acc e) a); [congruence|].
    rewrite (sumN_ext _ _ (fun x => sdep s x d + (if Nat.eqb x a then total_of d c else 0))) by (intros; apply Ed).
    rewrite sumN_add_at by assumption. rewrite Hs. lia.
Qed.

(* keeper.Withdraw behind ValidateBasic-valid coins (or any request with
   strictly increasing denoms and positive amounts): pays min(request, deposit)
   per denom and deducts exactly that *)
Definition paid (s : sstate) (a : nat) (c : coins) (d : nat) : Z := Z.min (total_of d c) (sdep s a d).

Lemma sav_withdraw_spec e s a c s' out : coins_valid c = true -> (forall d, 0 <= sdep s a d) ->
  sav_withdraw e s a c = Ok s' out ->
  (forall d, total_of d out = paid s a c d) /\
  (forall x d, bal s' x d = bal s x d + (if Nat.eqb x a then paid s a c d else 0)
                                   - (if Nat.eqb x (sav_acc e) then paid s a c d else 0)) /\
  (forall x d, sdep s' x d = sdep s x d - (if Nat.eqb x a then paid s a c d else 0)).
Proof.
  intros Hv Hd. unfold sav_withdraw. destruct (negb _); [discriminate|].
  unfold calc_withdraw. destruct (forallb _ c); [|discriminate].
  set (amt := map _ c).
  destruct (bsend (bal s) (sav_acc e) a amt) as [b|] eqn:E; [|discriminate].
  intros H; inversion H; subst; clear H. cbn [bal sdep].
  assert (T : forall d, total_of d amt = paid s a c d).
  { intros d. unfold amt, paid. apply (total_of_capped (sdep s a) d c None Hv (Hd d)). }
  split; [exact T|]. split.
  - intros x d. rewrite (bsend_spec _ _ _ _ _ E), T. destruct (Nat.eqb x a), (Nat.eqb x (sav_acc e)); lia.
  - intros x d. rewrite dep_sub_spec, T. reflexivity.
Qed.

Lemma sav_withdraw_inv e s a c s' out : senv_wf e -> SInv e s -> coins_valid c = true ->
  (a < nacc e)%nat -> a <> sav_acc e ->
  sav_withdraw e s a c = Ok s' out -> SInv e s'.
Proof.
  intros Hwf (Hb & Hd & Hs) Hv Ha Hne H.
  pose proof (sav_withdraw_spec _ _ _ _ _ _ Hv (Hd a) H) as (T & Eb & Ed).
  assert (P : forall d, 0 <= paid s a c d <= sdep s a d).
  { intros d. unfold paid. pose proof (total_of_nonneg d c (valid_nonneg c Hv)). specialize (Hd a d). lia. }
  split; [|split].
  - intros x d. rewrite Eb. specialize (P d). specialize (Hb x d).
    destruct (Nat.eqb_spec x a); destruct (Nat.eqb_spec x (sav_acc e)); subst; try congruence; try lia.
    (* the module account: its balance is the sum of deposits, which covers a's deposit *)
    rewrite Hs. pose proof (sumN_ge1 (nacc e) (fun y => sdep s y d) a (fun y => Hd y d) Ha). cbn in H0. lia.
  - intros x d. rewrite Ed. specialize (P d). specialize (Hd x d). destruct (Nat.eqb_spec x a); subst; lia.
  - intros d. rewrite Eb, Nat.eqb_refl. destruct (Nat.eqb_spec (sav_acc e) a); [congruence|].
    rewrite (sumN_ext _ _ (fun x => sdep s x d + (if Nat.eqb x a then - paid s a c d else 0))).
    + rewrite sumN_add_at by assumption. rewrite Hs. lia.
    + intros x _. rewrite Ed. destruct (Nat.eqb x a); lia.
Qed.

(* message level *)
Lemma sav_msg_deposit_inv e s a c s' : senv_wf e -> SInv e s -> (a < nacc e)%nat -> a <> sav_acc e ->
  sav_msg_deposit e s a c = Ok s' tt -> SInv e s'.
Proof.
  intros Hwf HI Ha Hne. unfold sav_msg_deposit, msg_coins_ok.
  destruct (coins_valid c) eqn:V; cbn [andb]; [|discriminate]. destruct (negb _); [|discriminate].
  apply sav_deposit_inv; auto. apply valid_nonneg; assumption.
Qed.

Lemma sav_msg_withdraw_inv e s a c s' out : senv_wf e -> SInv e s -> (a < nacc e)%nat -> a <> sav_acc e ->
  sav_msg_withdraw e s a c = Ok s' out -> SInv e s'.
Proof.
  intros Hwf HI Ha Hne. unfold sav_msg_withdraw, msg_coins_ok.
  destruct (coins_valid c) eqn:V; cbn [andb]; [|discriminate]. destruct (negb _); [|discriminate].
  apply sav_withdraw_inv; auto.
Qed.

(* savings_withdraw_exact, message level: the withdrawer receives, the module
   account pays and the deposit record loses min(request, deposit) in every
   denom; nobody else is touched *)
Lemma sav_msg_withdraw_exact e s a c s' out : SInv e s -> a <> sav_acc e ->
  sav_msg_withdraw e s a c = Ok s' out ->
  (forall d, total_of d out = Z.min (total_of d c) (sdep s a d)) /\
  (forall d, bal s' a d = bal s a d + Z.min (total_of d c) (sdep s a d)) /\
  (forall d, sdep s' a d = sdep s a d - Z.min (total_of d c) (sdep s a d)) /\
  (forall d, bal s' (sav_acc e) d = bal s (sav_acc e) d - Z.min (total_of d c) (sdep s a d)) /\
  (forall x d, x <> a -> x <> sav_acc e -> bal s' x d = bal s x d) /\
  (forall x d, x <> a -> sdep s' x d = sdep s x d).
Proof.
  intros (Hb & Hd & Hs) Hne. unfold sav_msg_withdraw, msg_coins_ok.
  destruct (coins_valid c) eqn:V; cbn [andb]; [|discriminate]. destruct (negb _); [|discriminate].
  intros H. pose proof (sav_withdraw_spec _ _ _ _ _ _ V (Hd a) H) as (T & Eb & Ed). unfold paid in *.
  repeat split.
  - exact T.
  - intros d. rewrite Eb, Nat.eqb_refl. destruct (Nat.eqb_spec a (sav_acc e)); [congruence|lia].
  - intros d. rewrite Ed, Nat.eqb_refl. reflexivity.
  - intros d. rewrite Eb, Nat.eqb_refl. destruct (Nat.eqb_spec (sav_acc e) a); [congruence|lia].
  - intros x d H1 H2. rewrite Eb. destruct (Nat.eqb_spec x a), (Nat.eqb_spec x (sav_acc e)); try congruence; lia.
  - intros x d H1. rewrite Ed. destruct (Nat.eqb_spec x a); [congruence|lia].
Qed.

Lemma sav_msg_deposit_exact e s a c s' : a <> sav_acc e ->
  sav_msg_deposit e s a c = Ok s' tt ->
  (forall d, bal s' a d = bal s a d - total_of d c) /\
  (forall d, sdep s' a d = sdep s a d + total_of d c) /\
  (forall d, bal s' (sav_acc e) d = bal s (sav_acc e) d + total_of d c) /\
  (forall x d, x <> a -> x <> sav_acc e -> bal s' x d = bal s x d) /\
  (forall x d, x <> a -> sdep s' x d = sdep s x d).
Proof.
  intros Hne. unfold sav_msg_deposit. destruct (msg_coins_ok c); [|discriminate].
  intros H. pose proof (sav_deposit_spec _ _ _ _ _ H) as [Eb Ed].
  repeat split.
  - intros d. rewrite Eb, Nat.eqb_refl. destruct (Nat.eqb_spec a (sav_acc e)); [congruence|lia].
  - intros d. rewrite Ed, Nat.eqb_refl. reflexivity.
  - intros d. rewrite Eb, Nat.eqb_refl. destruct (Nat.eqb_spec (sav_acc e) a); [congruence|lia].
  - intros x d H1 H2. rewrite Eb. destruct (Nat.eqb_spec x a), (Nat.eqb_spec x (sav_acc e)); try congruence; lia.
  - intros x d H1. rewrite Ed. destruct (Nat.eqb_spec x a); [congruence|lia].
Qed.

Lemma sumN_ge2 n f a b : (forall x, 0 <= f x) -> (a < n)%nat -> (b < n)%nat -> a <> b ->
  f a + f b <= sumN n f.
Proof.
  intros H. induction n as [|n IH]; intros Ha Hb Hab; [lia|]. cbn [sumN].
  destruct (Nat.eq_dec a n) as [->|Han].
  - pose proof (sumN_ge1 n f b H ltac:(lia)). lia.
  - destruct (Nat.eq_dec b n) as [->|Hbn].
    + pose proof (sumN_ge1 n f a H ltac:(lia)). lia.
    + specialize (IH ltac:(lia) ltac:(lia) Hab). specialize (H n). lia.
Qed.
