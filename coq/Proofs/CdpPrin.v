(* C04: how the per-collateral total principal moves with the debt of the cdps (exact, per operation). *)
From Kava Require Import Base.Prelude Base.Dec Model.Cdp Proofs.CdpRatio Proofs.Cdp.
Local Open Scope Z_scope.

Lemma bank_only_tprin s s' : bank_only s s' -> tprin s' = tprin s.
Proof. intros (_&_&_&_&P&_). exact P. Qed.
Lemma env_same_tprin s s' : env_same s s' -> tprin s' = tprin s.
Proof. intros (_&_&_&_&_&_&P&_). exact P. Qed.

(* AddPrincipal: the total principal of the type and the debt of the (synchronised) cdp grow by exactly x *)
Lemma draw_tprin e s o t pd x s' u :
  draw e s o t pd x = Ok s' u ->
  tprin s' t = tprin s t + x /\ (forall t', t' <> t -> tprin s' t' = tprin s t') /\
  exists cp c0 s1 c, find_cdp e s o t = Some c0 /\ sync_interest e s cp c0 = Ok s1 c /\
    cdps s' (c_type c) (c_id c) = Some (with_prin c (c_prin c + x)).
Proof.
  unfold draw. destruct (0 <? x); [|discriminate]. cbn [negb].
  destruct (find_cdp e s o t) as [c0|]; [|discriminate].
  destruct (get_cp e t) as [cp|]; [|discriminate].
  destruct (mstat s (cp_spot cp) && mstat s (cp_liqm cp)) eqn:Em; [|discriminate]. cbn [negb].
  destruct (Nat.eqb pd (d_usdx e)); [|discriminate]. cbn [negb].
  destruct (debt_limit_ok e s t cp x); [|discriminate]. cbn [negb].
  destruct (sync_interest e s cp c0) as [s1 c| |] eqn:Es; try discriminate.
  destruct (ratio_gate _ _ _ _ _ _) as [[] []| |]; try discriminate.
  destruct (b_send _ _ _ _ _) as [s3|] eqn:Eb; [|discriminate].
  intros H. pose proof (update_cdp_stored _ _ _ _ _ _ _ H) as Hst.
  apply update_cdp_env in H. destruct H as [H _]. apply env_same_tprin in H. cbn in H.
  pose proof (sync_interest_spec _ _ _ _ _ _ Es) as (Henv & _). apply env_same_tprin in Henv.
  assert (T3 : tprin (b_mint s3 (CDPM e) (d_debt e) x) = tprin s).
  { rewrite (bank_only_tprin _ _ (b_mint_frame _ _ _ _)), (bank_only_tprin _ _ (b_send_frame _ _ _ _ _ _ Eb)),
      (bank_only_tprin _ _ (b_mint_frame _ _ _ _)). exact Henv. }
  rewrite H, T3. unfold upd. rewrite Nat.eqb_refl. split; [reflexivity|]. split.
  - intros t' Hne. destruct (Nat.eqb_spec t' t); [contradiction|reflexivity].
  - exists cp, c0, s1, c. split; [reflexivity|split; [exact Es|exact Hst]].
Qed.

(* AddCdp: the total principal grows by exactly the principal drawn *)
Lemma create_tprin e s o t cd coll pd prin s' u :
  create e s o t cd coll pd prin = Ok s' u ->
  tprin s' t = tprin s t + prin /\ (forall t', t' <> t -> tprin s' t' = tprin s t').
Proof.
  unfold create. destruct (_ && _); [|discriminate]. cbn [negb].
  destruct (validate_collateral e s t cd) as [cp|]; [|discriminate].
  destruct (bal s o cd <? coll); [discriminate|].
  destruct (find_cdp e s o t); [discriminate|].
  destruct (Nat.eqb pd (d_usdx e)); [|discriminate]. cbn [negb].
  destruct (prin <? dp_floor e); [discriminate|].
  destruct (debt_limit_ok e s t cp prin); [|discriminate]. cbn [negb].
  destruct (ratio_gate e s cp coll prin 0) as [[] []| |]; try discriminate.
  set (s0 := match ifac s t with Some _ => s | None => set_ifac s (upd (ifac s) t (Some PREC)) end).
  destruct (b_send s0 o (CDPM e) cd coll) as [s1|] eqn:Eb1; [|discriminate].
  destruct (b_send (b_mint s1 _ _ _) _ _ _ _) as [s3|] eqn:Eb3; [|discriminate].
  intros H; inversion H; subst; clear H. cbn.
  assert (T3 : tprin (b_mint s3 (CDPM e) (d_debt e) prin) = tprin s).
  { rewrite (bank_only_tprin _ _ (b_mint_frame _ _ _ _)), (bank_only_tprin _ _ (b_send_frame _ _ _ _ _ _ Eb3)),
      (bank_only_tprin _ _ (b_mint_frame _ _ _ _)), (bank_only_tprin _ _ (b_send_frame _ _ _ _ _ _ Eb1)).
    unfold s0. destruct (ifac s t); reflexivity. }
  rewrite T3. unfold upd. rewrite Nat.eqb_refl. split; [reflexivity|].
  intros t' Hne. destruct (Nat.eqb_spec t' t); [contradiction|reflexivity].
Qed.

(* SeizeCollateral: the total principal drops by exactly the debt of the seized cdp (not below zero) *)
Lemma seize_tprin e s cp c s' u :
  seize e s cp c = Ok s' u ->
  tprin s' (c_type c) = Z.max (tprin s (c_type c) - cdp_debt c) 0 /\
  (forall t', t' <> c_type c -> tprin s' t' = tprin s t').
Proof.
  unfold seize. intros H.
  destruct (b_send s _ _ _ _) as [s1|] eqn:E1; [|discriminate].
  destruct (ofold _ s1 _) as [s4 []| |] eqn:E2; try discriminate.
  destruct (auction_collateral _ _ _ _ _) as [s5 []| |] eqn:E3; try discriminate.
  inversion H; subst; clear H.
  apply seize_deps_spec in E2. destruct E2 as (_ & _ & _ & A4 & _).
  assert (T5 : tprin s5 = tprin s).
  { rewrite (bank_only_tprin _ _ (auction_collateral_frame _ _ _ _ _ _ _ E3)), A4, (bank_only_tprin _ _ (b_send_frame _ _ _ _ _ _ E1)). reflexivity. }
  cbn. rewrite T5. unfold upd. rewrite Nat.eqb_refl. split; [reflexivity|].
  intros t' Hne. destruct (Nat.eqb_spec t' (c_type c)); [contradiction|reflexivity].
Qed.

(* AccumulateInterest: total principal, debt coin of the module and the surplus of the liquidator grow by the same amount *)
Lemma accumulate_tprin e s t cp :
  let s' := accumulate_interest e s t cp in
  let acc := tprin s' t - tprin s t in
  0 <= acc -> 
  bal s' (CDPM e) (d_debt e) = bal s (CDPM e) (d_debt e) + acc \/ acc = 0.
Proof.
  cbv zeta. unfold accumulate_interest. destruct (ptime s t); [|right; cbn; lia].
  destruct (_ =? 0); [right; lia|]. destruct (_ <=? 0); [right; cbn; lia|].
  destruct (ifac s t); [|right; cbn; lia]. destruct (_ =? PREC); [right; cbn; lia|]. cbv zeta.
  destruct (_ =? 0); [right; lia|]. cbn. unfold upd. rewrite Nat.eqb_refl. intros Hacc. left.
  set (acc := dec_round_int _ - tprin s t) in *.
  destruct (Nat.eq_dec (CDPM e) (LIQM e)) as [E|N]; [unfold CDPM, LIQM in E; lia|].
  unfold b_mint. destruct (Z.leb_spec acc 0); [assert (acc = 0) by lia; lia|]. cbn. unfold upd2.
  repeat match goal with |- context [Nat.eqb ?a ?b] => destruct (Nat.eqb_spec a b) end; cbn [andb]; try lia; try congruence.
Qed.

(* RepayPrincipal: total principal and the debt of the (synchronised) cdp drop by exactly the payment applied *)
Lemma repay_tprin e s o t pd x s' u :
  repay e s o t pd x = Ok s' u ->
  exists cp c0 s1 c, find_cdp e s o t = Some c0 /\ get_cp e t = Some cp /\ sync_interest e s cp c0 = Ok s1 c /\
    let paid := fst (calc_payment (cdp_debt c) (c_fees c) x) + snd (calc_payment (cdp_debt c) (c_fees c) x) in
    tprin s' t = Z.max (tprin s t - paid) 0 /\ (forall t', t' <> t -> tprin s' t' = tprin s t') /\
    (cdps s' (c_type c) (c_id c) = None \/
     exists c', cdps s' (c_type c) (c_id c) = Some c' /\ cdp_debt c' = cdp_debt c - paid).
Proof.
  unfold repay. destruct (0 <? x); [|discriminate]. cbn [negb].
  destruct (find_cdp e s o t) as [c0|]; [|discriminate].
  destruct (get_cp e t) as [cp|]; [|discriminate].
  destruct (Nat.eqb pd (d_usdx e)); [|discriminate]. cbn [negb].
  destruct (bal s o pd <? x); [discriminate|].
  destruct (sync_interest e s cp c0) as [s1 c| |] eqn:Es; try discriminate.
  pose proof (sync_interest_spec _ _ _ _ _ _ Es) as (Henv & _). apply env_same_tprin in Henv.
  destruct (calc_payment (cdp_debt c) (c_fees c) x) as [fp pp] eqn:Ecp.
  destruct (_ && _); [discriminate|].
  destruct (b_send s1 o (CDPM e) (d_usdx e) (fp + pp)) as [s2|] eqn:E2; [|discriminate].
  destruct (b_burn s2 _ _ _) as [s3|] eqn:E3; [|discriminate].
  destruct (b_burn s3 _ _ _) as [s4|] eqn:E4; [|discriminate].
  set (c1 := with_fees (with_prin c (c_prin c - pp)) (c_fees c - fp) (c_upd c) (c_ifac c)).
  set (s5 := set_tprin s4 _).
  assert (T4 : tprin s4 = tprin s).
  { rewrite (bank_only_tprin _ _ (b_burn_frame _ _ _ _ _ E4)), (bank_only_tprin _ _ (b_burn_frame _ _ _ _ _ E3)),
      (bank_only_tprin _ _ (b_send_frame _ _ _ _ _ _ E2)). exact Henv. }
  assert (T5 : tprin s5 t = Z.max (tprin s t - (fp + pp)) 0 /\ forall t', t' <> t -> tprin s5 t' = tprin s t').
  { unfold s5. cbn. rewrite T4. unfold upd. rewrite Nat.eqb_refl. split; [reflexivity|].
    intros t' Hne. destruct (Nat.eqb_spec t' t); [contradiction|reflexivity]. }
  destruct T5 as [T5a T5b].
  intros H. exists cp, c0, s1, c. split; [reflexivity|split; [reflexivity|split; [exact Es|]]]. cbv zeta. rewrite Ecp. cbn [fst snd].
  destruct ((c_prin c1 =? 0) && (c_fees c1 =? 0)).
  - destruct (return_collateral e s5 cp c1) as [s6 []| |] eqn:E6; try discriminate.
    destruct (get_cdp e _ _ _) as [old|]; [|discriminate].
    injection H as Hs'; subst s'.
    assert (T6 : tprin s6 = tprin s5).
    { unfold return_collateral in E6. eapply (ofold_inv (fun z => tprin z = tprin s5)); [|reflexivity|exact E6].
      intros z d z' u0 P Hz. cbv beta in Hz. destruct (b_send z _ _ _ _) as [z2|] eqn:Ez; [|discriminate]. inversion Hz; subst. cbn.
      rewrite (bank_only_tprin _ _ (b_send_frame _ _ _ _ _ _ Ez)). exact P. }
    cbn. rewrite T6. split; [exact T5a|split; [exact T5b|]]. left.
    unfold upd2. change (c_type c1) with (c_type c). change (c_id c1) with (c_id c). rewrite !Nat.eqb_refl. reflexivity.
  - pose proof (update_cdp_stored _ _ _ _ _ _ _ H) as Hst.
    apply update_cdp_env in H. destruct H as [H _]. apply env_same_tprin in H. rewrite H.
    split; [exact T5a|split; [exact T5b|]]. right. exists c1. split; [exact Hst|]. unfold cdp_debt, c1. cbn. lia.
Qed.
