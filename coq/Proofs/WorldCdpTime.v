(* C02 instance for x/cdp, part 3: accrual times never lie after the block time.

   [TimeInv s]: every stored previous-accrual time is <= the block time.  With the block guard
   "the block time does not run backwards" (0 <= dt; CometBFT BFT time is monotone) this is an
   invariant, and it is what makes the elapsed time of every AccumulateInterest call >= 0
   ([elapsed_nonneg]): the Go code converts it to an unsigned integer
   (CalculateInterestFactor: sdkmath.NewUintFromBigInt panics on a negative value), a panic the
   model's [rel_pow] does not represent. *)
From Kava Require Import Base.Prelude Base.Dec Model.Cdp Proofs.CdpRatio Proofs.Cdp.
Local Open Scope Z_scope.

Definition TimeInv (s : state) : Prop := forall t p, ptime s t = Some p -> p <= now s.

Lemma round_secs_nonneg d : 0 <= d -> 0 <= round_secs d.
Proof.
  intros H. unfold round_secs, NS.
  assert (0 <= d / 1000000000) by (apply Z.div_pos; lia).
  destruct (_ <? _); [lia|]. destruct (_ <? _); [lia|]. destruct (Z.even _); lia.
Qed.

Lemma elapsed_nonneg s t prev : TimeInv s -> ptime s t = Some prev -> 0 <= round_secs (now s - prev).
Proof. intros H E. apply round_secs_nonneg. specialize (H _ _ E). lia. Qed.

(** * the stored accrual times and the clock are untouched *)
Definition clock_same (s s' : state) : Prop := ptime s' = ptime s /\ now s' = now s.

Lemma cs_refl s : clock_same s s. Proof. split; reflexivity. Qed.
Lemma cs_trans s1 s2 s3 : clock_same s1 s2 -> clock_same s2 s3 -> clock_same s1 s3.
Proof. intros [A B] [C D]. split; congruence. Qed.
Lemma cs_bank s s' : bank_only s s' -> clock_same s s'.
Proof. intros (_&_&_&_&_&_&P&_&_&_&N&_). split; assumption. Qed.
Lemma cs_env s s' : env_same s s' -> clock_same s s'.
Proof. intros (_&_&_&_&_&_&_&_&P&_&N&_). split; assumption. Qed.
Lemma cs_TimeInv s s' : clock_same s s' -> TimeInv s -> TimeInv s'.
Proof. intros [P N] H t p. rewrite P, N. apply H. Qed.

Lemma cs_send s f t d x s' : b_send s f t d x = Some s' -> clock_same s s'.
Proof. intros H. apply cs_bank. eapply b_send_frame; eassumption. Qed.
Lemma cs_burn s m d x s' : b_burn s m d x = Some s' -> clock_same s s'.
Proof. intros H. apply cs_bank. eapply b_burn_frame; eassumption. Qed.
Lemma cs_mint s m d x : clock_same s (b_mint s m d x).
Proof. apply cs_bank, b_mint_frame. Qed.
Lemma cs_update e s cp c r s' u : update_cdp e s cp c r = Ok s' u -> clock_same s s'.
Proof. intros H. apply cs_env. apply (proj1 (update_cdp_env _ _ _ _ _ _ _ H)). Qed.
Lemma cs_sync e s cp c s1 c1 : sync_interest e s cp c = Ok s1 c1 -> clock_same s s1.
Proof. intros H. apply cs_env. apply (proj1 (sync_interest_spec _ _ _ _ _ _ H)). Qed.

(* [clock_same] through a state that differs from s2 only in record stores *)
Lemma cs_via s s2 s2' s' : clock_same s s2 -> ptime s2' = ptime s2 -> now s2' = now s2 -> clock_same s2' s' -> clock_same s s'.
Proof. intros [A B] P N [C D]. split; congruence. Qed.

Lemma bank_only_ptime' s s' : bank_only s s' -> ptime s' = ptime s.
Proof. intros H. apply (proj1 (cs_bank _ _ H)). Qed.
Lemma bank_only_now' s s' : bank_only s s' -> now s' = now s.
Proof. intros H. apply (proj2 (cs_bank _ _ H)). Qed.

(** ** messages *)
Lemma deposit_cs e s o u t cd x s' v : deposit e s o u t cd x = Ok s' v -> clock_same s s'.
Proof.
  unfold deposit. destruct (0 <? x); [|discriminate]. cbn [negb].
  destruct (validate_collateral e s t cd) as [cp|]; [|discriminate].
  destruct (find_cdp e s o t) as [c0|]; [|discriminate].
  destruct (bal s u cd <? x); [discriminate|].
  destruct (sync_interest e s cp c0) as [s1 c| |] eqn:Es; try discriminate.
  destruct (b_send s1 u (CDPM e) cd x) as [s2|] eqn:Eb; [|discriminate].
  intros H. destruct (cs_trans _ _ _ (cs_sync _ _ _ _ _ _ Es) (cs_send _ _ _ _ _ _ Eb)) as [P N].
  destruct (cs_update _ _ _ _ _ _ _ H) as [P' N']. split; [rewrite P'; exact P|rewrite N'; exact N].
Qed.

Lemma withdraw_cs e s o u t cd x s' v : withdraw e s o u t cd x = Ok s' v -> clock_same s s'.
Proof.
  unfold withdraw. destruct (0 <? x); [|discriminate]. cbn [negb].
  destruct (validate_collateral e s t cd) as [cp|]; [|discriminate].
  destruct (find_cdp e s o t) as [c0|]; [|discriminate].
  destruct (deps s (c_id c0) u) as [a|]; [|discriminate].
  destruct (a <? x); [discriminate|].
  destruct (sync_interest e s cp c0) as [s1 c| |] eqn:Es; try discriminate.
  destruct (c_coll c <? x); [discriminate|].
  destruct (ratio_gate _ _ _ _ _ _) as [[] []| |]; try discriminate.
  destruct (b_send s1 (CDPM e) u cd x) as [s2|] eqn:Eb; [|discriminate].
  destruct (update_cdp _ _ _ _ _) as [s3 []| |] eqn:Eu; try discriminate.
  intros H.
  assert (C3 : clock_same s s3) by (eapply cs_trans; [eapply cs_sync; exact Es|eapply cs_trans; [eapply cs_send; exact Eb|eapply cs_update; exact Eu]]).
  inversion H; subst. destruct (a - x =? 0); exact C3.
Qed.

Lemma draw_cs e s o t pd x s' v : draw e s o t pd x = Ok s' v -> clock_same s s'.
Proof.
  unfold draw. destruct (0 <? x); [|discriminate]. cbn [negb].
  destruct (find_cdp e s o t) as [c0|]; [|discriminate].
  destruct (get_cp e t) as [cp|]; [|discriminate].
  destruct (mstat s (cp_spot cp) && mstat s (cp_liqm cp)); [|discriminate]. cbn [negb].
  destruct (Nat.eqb pd (d_usdx e)); [|discriminate]. cbn [negb].
  destruct (debt_limit_ok e s t cp x); [|discriminate]. cbn [negb].
  destruct (sync_interest e s cp c0) as [s1 c| |] eqn:Es; try discriminate.
  destruct (ratio_gate _ _ _ _ _ _) as [[] []| |]; try discriminate.
  destruct (b_send _ _ _ _ _) as [s3|] eqn:Eb; [|discriminate].
  intros H.
  assert (C : clock_same s (b_mint s3 (CDPM e) (d_debt e) x)).
  { eapply cs_trans; [eapply cs_sync; exact Es|]. eapply cs_trans; [apply cs_mint|]. eapply cs_trans; [eapply cs_send; exact Eb|apply cs_mint]. }
  destruct C as [P N]. destruct (cs_update _ _ _ _ _ _ _ H) as [P' N']. split; [rewrite P'; exact P|rewrite N'; exact N].
Qed.

Lemma create_cs e s o t cd coll pd prin s' v : create e s o t cd coll pd prin = Ok s' v -> clock_same s s'.
Proof.
  unfold create. destruct ((0 <? coll) && (0 <? prin)); [|discriminate]. cbn [negb].
  destruct (validate_collateral e s t cd) as [cp|]; [|discriminate].
  destruct (bal s o cd <? coll); [discriminate|].
  destruct (find_cdp e s o t); [discriminate|].
  destruct (Nat.eqb pd (d_usdx e)); [|discriminate]. cbn [negb].
  destruct (prin <? dp_floor e); [discriminate|].
  destruct (debt_limit_ok e s t cp prin); [|discriminate]. cbn [negb].
  destruct (ratio_gate e s cp coll prin 0) as [[] []| |]; try discriminate.
  set (s0 := match ifac s t with Some _ => s | None => set_ifac s (upd (ifac s) t (Some PREC)) end).
  destruct (b_send s0 o (CDPM e) cd coll) as [s1|] eqn:Eb1; [|discriminate].
  destruct (b_send (b_mint s1 _ _ _) _ _ _ _) as [s3|] eqn:Eb3; [|discriminate].
  intros H; inversion H; subst; clear H.
  assert (C0 : clock_same s s0) by (unfold s0; destruct (ifac s t); split; reflexivity).
  assert (C4 : clock_same s (b_mint s3 (CDPM e) (d_debt e) prin)).
  { eapply cs_trans; [exact C0|]. eapply cs_trans; [eapply cs_send; exact Eb1|]. eapply cs_trans; [apply cs_mint|].
    eapply cs_trans; [eapply cs_send; exact Eb3|apply cs_mint]. }
  exact C4.
Qed.

Lemma return_loop_cs e cp id : forall dl s s' u,
  ofold (fun s1 (d : nat * Z) =>
           match b_send s1 (CDPM e) (fst d) (cp_denom cp) (snd d) with
           | None => Panic
           | Some s2 => Ok (del_dep s2 id (fst d)) tt
           end) s dl = Ok s' u -> clock_same s s'.
Proof.
  induction dl as [|d tl IH]; intros s s' u H; cbn [ofold] in H.
  - inversion H; subst. apply cs_refl.
  - destruct (b_send s _ _ _ _) as [s2|] eqn:Eb; [|discriminate]. apply IH in H.
    destruct (cs_send _ _ _ _ _ _ Eb) as [P N]. destruct H as [P' N']. split; [rewrite P'; exact P|rewrite N'; exact N].
Qed.

Lemma repay_cs e s o t pd x s' v : repay e s o t pd x = Ok s' v -> clock_same s s'.
Proof.
  unfold repay. destruct (0 <? x); [|discriminate]. cbn [negb].
  destruct (find_cdp e s o t) as [c0|]; [|discriminate].
  destruct (get_cp e t) as [cp|]; [|discriminate].
  destruct (Nat.eqb pd (d_usdx e)); [|discriminate]. cbn [negb].
  destruct (bal s o pd <? x); [discriminate|].
  destruct (sync_interest e s cp c0) as [s1 c| |] eqn:Es; try discriminate.
  destruct (calc_payment (cdp_debt c) (c_fees c) x) as [fp pp].
  destruct (_ && _); [discriminate|].
  destruct (b_send s1 o (CDPM e) (d_usdx e) (fp + pp)) as [s2|] eqn:E2; [|discriminate].
  destruct (b_burn s2 _ _ _) as [s3|] eqn:E3; [|discriminate].
  destruct (b_burn s3 _ _ _) as [s4|] eqn:E4; [|discriminate].
  set (c1 := with_fees (with_prin c (c_prin c - pp)) (c_fees c - fp) (c_upd c) (c_ifac c)).
  set (s5 := set_tprin s4 _).
  assert (C5 : clock_same s s5).
  { assert (C4 : clock_same s s4).
    { eapply cs_trans; [eapply cs_sync; exact Es|]. eapply cs_trans; [eapply cs_send; exact E2|].
      eapply cs_trans; [eapply cs_burn; exact E3|eapply cs_burn; exact E4]. }
    destruct C4 as [P N]. split; [exact P|exact N]. }
  destruct ((c_prin c1 =? 0) && (c_fees c1 =? 0)).
  - destruct (return_collateral e s5 cp c1) as [s6 []| |] eqn:E6; try discriminate.
    destruct (get_cdp e (oidx_rm s6 (c_owner c1) (c_id c1)) (c_type c1) (c_id c1)) as [old|]; [|discriminate].
    intros H; injection H as Hs'; subst s'.
    unfold return_collateral in E6. apply return_loop_cs in E6.
    destruct (cs_trans _ _ _ C5 E6) as [P N]. split; [exact P|exact N].
  - intros H. eapply cs_trans; [exact C5|eapply cs_update; exact H].
Qed.

(** ** seizure *)
Lemma seize_loop_cs e cp id : forall dl s1 s4 u,
  ofold (fun s2 (d : nat * Z) =>
           match b_send s2 (CDPM e) (LIQM e) (cp_denom cp) (snd d) with
           | None => Err
           | Some s3 => Ok (del_dep s3 id (fst d)) tt
           end) s1 dl = Ok s4 u -> clock_same s1 s4.
Proof.
  induction dl as [|d tl IH]; intros s1 s4 u H; cbn [ofold] in H.
  - inversion H; subst. apply cs_refl.
  - destruct (b_send s1 _ _ _ _) as [s3|] eqn:Eb; [|discriminate]. apply IH in H.
    destruct (cs_send _ _ _ _ _ _ Eb) as [P N]. destruct H as [P' N']. split; [rewrite P'; exact P|rewrite N'; exact N].
Qed.

Lemma seize_cs e s cp c s' u : seize e s cp c = Ok s' u -> clock_same s s'.
Proof.
  unfold seize. intros H.
  destruct (b_send s _ _ _ _) as [s1|] eqn:E1; [|discriminate].
  destruct (ofold _ s1 _) as [s4 []| |] eqn:E2; try discriminate.
  destruct (auction_collateral _ _ _ _ _) as [s5 []| |] eqn:E3; try discriminate.
  inversion H; subst; clear H.
  assert (C : clock_same s s5).
  { eapply cs_trans; [eapply cs_send; exact E1|]. eapply cs_trans; [eapply seize_loop_cs; exact E2|].
    apply cs_bank. eapply auction_collateral_frame; exact E3. }
  destruct C as [P N]. split; [exact P|exact N].
Qed.

Lemma payout_cs e s cp k c s2 c1 : payout_reward e s cp k c = Ok s2 c1 -> clock_same s s2.
Proof.
  unfold payout_reward.
  destruct (first_dep_ge _ _) as [[w a]|]; [|intros H; inversion H; subst; apply cs_refl].
  destruct (b_send _ _ _ _ _) as [s1|] eqn:Eb; [|discriminate].
  destruct (c_coll c <? _); [discriminate|].
  destruct (update_cdp _ _ _ _ _) as [s3 []| |] eqn:Eu; try discriminate.
  intros H; inversion H; subst s3 c1; clear H.
  destruct (cs_trans _ _ _ (cs_send _ _ _ _ _ _ Eb) (cs_update _ _ _ _ _ _ _ Eu)) as [P N]. split; [exact P|exact N].
Qed.

Lemma keeper_liquidate_cs e s k o t s' v : keeper_liquidate e s k o t = Ok s' v -> clock_same s s'.
Proof.
  unfold keeper_liquidate.
  destruct (find_cdp e s o t) as [c0|]; [|discriminate].
  destruct (get_cp e t) as [cp|]; [|discriminate].
  destruct (sync_interest e s cp c0) as [s1 c| |] eqn:Es; try discriminate.
  destruct (ratio_at _ _ _ _ _ _) as [[] r| |]; try discriminate.
  destruct (cp_liq cp <=? r); [discriminate|].
  destruct (payout_reward e s1 cp k c) as [s2 c1| |] eqn:Ep; try discriminate.
  intros H. eapply cs_trans; [eapply cs_sync; exact Es|]. eapply cs_trans; [eapply payout_cs; exact Ep|eapply seize_cs; exact H].
Qed.

Lemma tx_TimeInv e s o s' u :
  TimeInv s -> (forall dt p, o <> Block dt p) -> step e s o = Ok s' u -> TimeInv s'.
Proof.
  intros HT Hnb H. eapply cs_TimeInv; [|exact HT].
  destruct o; cbn [step] in H.
  - destruct (user_ok e o); [|discriminate]. eapply create_cs; eassumption.
  - destruct (user_ok e o && user_ok e u0); [|discriminate]. eapply deposit_cs; eassumption.
  - destruct (user_ok e o && user_ok e u0); [|discriminate]. eapply withdraw_cs; eassumption.
  - destruct (user_ok e o); [|discriminate]. eapply draw_cs; eassumption.
  - destruct (user_ok e o); [|discriminate]. eapply repay_cs; eassumption.
  - destruct (user_ok e o && user_ok e k); [|discriminate]. eapply keeper_liquidate_cs; eassumption.
  - exfalso. eapply Hnb. reflexivity.
Qed.

(** ** the begin blocker *)
Lemma accumulate_TimeInv e s t cp : TimeInv s -> TimeInv (accumulate_interest e s t cp) /\ now (accumulate_interest e s t cp) = now s.
Proof.
  intros HT.
  assert (Hset : forall s0, now s0 = now s -> ptime s0 = ptime s ->
            TimeInv (set_ptime s0 (upd (ptime s0) t (Some (now s)))) /\ now (set_ptime s0 (upd (ptime s0) t (Some (now s)))) = now s).
  { intros s0 N0 P0. split; [|exact N0]. intros t0 p. cbn [set_ptime ptime now]. unfold upd. rewrite N0, P0.
    destruct (Nat.eqb t0 t); [intros E; inversion E; lia|apply HT]. }
  unfold accumulate_interest. destruct (ptime s t); [|apply (Hset s); reflexivity].
  destruct (_ =? 0); [split; [exact HT|reflexivity]|].
  destruct (_ <=? 0); [apply (Hset s); reflexivity|].
  destruct (ifac s t).
  2:{ apply (Hset (set_ifac s _)); reflexivity. }
  destruct (_ =? PREC); [apply (Hset s); reflexivity|]. cbv zeta.
  set (acc := dec_round_int _ - tprin s t).
  destruct (acc =? 0); [split; [exact HT|reflexivity]|].
  set (sb := b_mint (b_mint s (CDPM e) (d_debt e) acc) (LIQM e) (d_usdx e) acc).
  assert (C : clock_same s sb) by (eapply cs_trans; apply cs_mint).
  destruct C as [CP CN].
  cbn [set_ptime set_ifac set_tprin ptime now].
  rewrite <- CN at 1 3.
  split.
  - intros t0 p. cbn [set_ptime set_ifac set_tprin ptime now]. unfold upd. rewrite CP.
    destruct (Nat.eqb t0 t); [intros E; inversion E; lia|rewrite CN; apply HT].
  - reflexivity.
Qed.

Lemma sync_risky_cs e s t cp s' u : sync_risky e s t cp = Ok s' u -> clock_same s s'.
Proof.
  unfold sync_risky. destruct (ptime s t) as [prev|]; [|discriminate].
  destruct (ifac s t) as [gf|].
  - intros H. eapply (ofold_inv (fun x => clock_same s x)); [|apply cs_refl|exact H].
    intros s0 id s1 u0 C0 H0. eapply cs_trans; [exact C0|]. unfold sync_risky_one in H0.
    destruct (cdps s0 t id); [|discriminate]. destruct (_ && _); [inversion H0; apply cs_refl|].
    inversion H0; subst. destruct (_ =? 0); split; reflexivity.
  - destruct (map snd _); [intros H; inversion H; apply cs_refl|discriminate].
Qed.

Lemma liquidate_cs e s t cp s' u : liquidate_cdps e s t cp = Ok s' u -> clock_same s s'.
Proof.
  unfold liquidate_cdps. destruct (_ =? 0); [intros H; inversion H; apply cs_refl|].
  destruct (existsb _ _); [discriminate|].
  intros H. eapply (ofold_inv (fun x => clock_same s x)); [|apply cs_refl|exact H].
  intros s0 o s1 u0 C0 H0. eapply cs_trans; [exact C0|]. unfold liq_step in H0.
  destruct o as [c|]; [|discriminate]. destruct (confirm_below e cp _ c); [eapply seize_cs; exact H0|inversion H0; apply cs_refl].
Qed.

Lemma begin_type_TimeInv e skip s t cp s' u :
  TimeInv s -> begin_type e skip s (t, cp) = Ok s' u -> TimeInv s' /\ now s' = now s.
Proof.
  intros HT. unfold begin_type, update_status.
  destruct (negb (negb (price s (cp_spot cp) =? 0))); [intros H; inversion H; subst; split; [exact HT|reflexivity]|].
  cbn [set_mstat price].
  destruct (negb (negb (price s (cp_liqm cp) =? 0))); [intros H; inversion H; subst; split; [exact HT|reflexivity]|].
  set (s2 := set_mstat _ _).
  destruct (accumulate_TimeInv e s2 t cp HT) as [T3 N3].
  destruct skip; [intros H; inversion H; subst; split; [exact T3|exact N3]|].
  destruct (sync_risky _ _ _ _) as [s4 []| |] eqn:E4; try discriminate.
  destruct (liquidate_cdps e s4 t cp) as [s5 []| |] eqn:E5; try discriminate.
  intros H; inversion H; subst.
  pose proof (cs_trans _ _ _ (sync_risky_cs _ _ _ _ _ _ E4) (liquidate_cs _ _ _ _ _ _ E5)) as C.
  split; [eapply cs_TimeInv; eassumption|]. destruct C as [_ N]. rewrite N. exact N3.
Qed.

Lemma run_auctions_cs e s s' u : run_auctions e s = Ok s' u -> clock_same s s'.
Proof.
  unfold run_auctions. set (net := Z.min _ _).
  destruct (if net =? 0 then Some s else _) as [s2|] eqn:E2; [|discriminate].
  assert (C2 : clock_same s s2).
  { destruct (net =? 0); [inversion E2; apply cs_refl|].
    destruct (b_burn s _ _ _) as [s1|] eqn:E1; [|discriminate].
    eapply cs_trans; eapply cs_burn; eassumption. }
  destruct (if debt_thr e <=? _ then _ else _) as [s4|] eqn:E4; [|discriminate].
  assert (C4 : clock_same s2 s4).
  { destruct (debt_thr e <=? _); [|inversion E4; apply cs_refl].
    destruct (b_send s2 _ _ _ _) as [s3|] eqn:E3; [|discriminate]. inversion E4; subst.
    destruct (cs_send _ _ _ _ _ _ E3) as [P N]. split; [exact P|exact N]. }
  destruct (_ <? sur_thr e); [intros H; inversion H; subst; eapply cs_trans; eassumption|].
  destruct (b_send s4 _ _ _ _) as [s5|] eqn:E5; [|discriminate].
  intros H; inversion H; subst.
  destruct (cs_trans _ _ _ C2 (cs_trans _ _ _ C4 (cs_send _ _ _ _ _ _ E5))) as [P N]. split; [exact P|exact N].
Qed.

Lemma begin_block_TimeInv e s s' u : TimeInv s -> begin_block e s = Ok s' u -> TimeInv s'.
Proof.
  intros HT. unfold begin_block.
  destruct (ofold _ s _) as [s1 []| |] eqn:E1; try discriminate.
  destruct (run_auctions e s1) as [s2 []| |] eqn:E2; try discriminate.
  intros H; inversion H; subst.
  eapply cs_TimeInv; [eapply run_auctions_cs; exact E2|].
  apply (ofold_inv (fun x => TimeInv x /\ now x = now s) (begin_type e (negb (Z.rem (height s) (interval e) =? 0)))
           ) with (l := combine (seq 0 (ntypes e)) (cps e)) (s := s) (s' := s1) (u := tt); [|split; [exact HT|reflexivity]|exact E1].
  intros s0 [t cp] s3 u0 [T0 N0] H0. destruct (begin_type_TimeInv _ _ _ _ _ _ _ T0 H0) as [T3 N3]. split; [exact T3|congruence].
Qed.

(* the block step: the clock moves forward by dt >= 0 *)
Lemma block_TimeInv e s dt prices s' u :
  0 <= dt -> TimeInv s -> step e s (Block dt prices) = Ok s' u -> TimeInv s'.
Proof.
  intros Hdt HT H. cbn [step] in H. eapply begin_block_TimeInv; [|exact H].
  intros t p. cbn. intros E. specialize (HT _ _ E). lia.
Qed.
