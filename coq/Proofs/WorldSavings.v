(* C02 instance: x/savings on its own (Model/Savings.v; no begin or end blocker).
   Operations: MsgDeposit and MsgWithdraw (ValidateBasic, then the keeper).
   Invariant = Proofs.Savings.SInv:
     balances >= 0 (bank); deposit records >= 0, 0 = no record   — "deposits" (Deposit.Validate, all positive)
     savings module balance = sum of deposit records, per denom   — "solvency"
   Guard [sav_signer_ok]: the signer of a message is one of the accounts and not the savings module
   account (module accounts have no key); discharged by the ante handler's signature check.
   [senv_wf]: the module account is one of the accounts. *)
From Coq Require Import String.
From Kava Require Import Base.Prelude Model.World Model.WorldG Proofs.WorldG.
From Kava Require Import Model.Savings Proofs.Savings.
Local Open Scope string_scope.

Inductive sav_op :=
| SavDeposit (a : nat) (c : coins)
| SavWithdraw (a : nat) (c : coins).

Definition sav_step (e : senv) (s : sstate) (o : sav_op) : outcome sstate unit :=
  match o with
  | SavDeposit a c => sav_msg_deposit e s a c
  | SavWithdraw a c => forget (sav_msg_withdraw e s a c)
  end.

Definition sav_signer_ok (e : senv) (o : sav_op) : Prop :=
  let a := match o with SavDeposit a _ | SavWithdraw a _ => a end in
  (a < nacc e)%nat /\ a <> sav_acc e.

Definition savings_M (e : senv) : module :=
  mkModule ["savings"] sstate unit sav_op no_blocker (sav_step e) no_blocker
           (SInv e) (fun _ _ => True) (fun _ o => sav_signer_ok e o).

Lemma savings_M_ok e : senv_wf e -> module_ok (savings_M e).
Proof.
  intros Hwf. apply no_blockers_ok. intros s o s' u HI [Ha Hne] E. destruct u.
  destruct o as [a c|a c]; cbn [sav_step] in E.
  - eapply sav_msg_deposit_inv; eauto.
  - apply forget_ok in E. destruct E as (out & E). eapply sav_msg_withdraw_inv; eauto.
Qed.

(** * non-vacuity: accounts 0..2 users, 3 the savings module account; denoms 0,1 supported *)
Definition sav_e0 : senv := {| nacc := 4; sav_acc := 3; sav_supported := fun d => Nat.ltb d 2; denoms := [0;1]%nat |}.
Definition sav_s0 : sstate := mkS (fun a _ => if Nat.ltb a 3 then 1000 else 0) (fun _ _ => 0).
Definition sav_blk : list (unit * list sav_op) :=
  [(tt, [SavDeposit 2 [(0%nat, 5)]; SavWithdraw 2 [(0%nat, 9)]; SavDeposit 1 [(1%nat, 7)]])].

Example savings_nonvacuous :
  senv_wf sav_e0 /\ m_Inv (savings_M sav_e0) sav_s0 /\
  good_blocks (savings_M sav_e0) sav_s0 sav_blk /\
  match run_blocksG (savings_M sav_e0) sav_s0 sav_blk with
  | Some s => bal s 2%nat 0%nat = 1000 /\ bal s 3%nat 1%nat = 7 /\ sdep s 1%nat 1%nat = 7
  | None => False
  end.
Proof.
  split; [unfold senv_wf; cbn; lia|]. split; [|split].
  - unfold savings_M, m_Inv, SInv, sav_s0. cbn [bal sdep]. split; [|split].
    + intros a d. destruct (Nat.ltb a 3); lia.
    + intros; lia.
    + intros d. cbn. reflexivity.
  - unfold sav_blk. cbn [good_blocks fst snd]. split; [exact I|]. split; [|intros; exact I].
    intros s1 _. cbn [good_txs].
    repeat (split; [intros _ _ _; unfold savings_M, m_goodT, sav_signer_ok, sav_e0; cbn [nacc sav_acc]; split; [lia|discriminate]|]).
    exact I.
  - vm_compute. repeat split; reflexivity.
Qed.
Print Assumptions savings_M_ok.
