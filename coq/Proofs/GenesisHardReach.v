(* x/hard genesis round trip on REACHABLE states: the hypotheses of Proofs/GenesisHard.v
   ([Ready]: a property of the exporting STATE) derived from hypotheses on the HISTORY.

   Of [Ready]:
     rd_inv   C08's invariant: holds on every reachable state (Proofs/HardInv.v).
     rd_prev  every money market of the params has an accrual time: an invariant of every
              operation except SetParams; RESTORED by every begin blocker that does not panic
              ([begin_block_prev]); false between a SetParams that adds a market and the next
              begin blocker (recorded finding, Proofs/GenesisHard.v export_panics_for_new_market).
     rd_mk    the money markets of the params are valid: kept when every SetParams of the
              history carries valid markets (Go: the x/params validator of the key).
     rd_bb    borrow interest factors at most 10^18: NOT an invariant.  One accrual multiplies
              the factor by the interval's factor f (rounded to 18 decimals), so the factor after
              the history is at most  prod (f_i + 10^-18); the hypothesis on the history
              [within_budget] says that this product is at most 10^18.  It is needed: with a
              factor of 3*10^18 the export panics ([unbounded_factor_export_panics]).
     rd_sb    supply interest factors at most 10^18: not derivable from the oracle values (the
              supply factor of a block divides by cash + borrows - reserves) and NOT NEEDED for
              the round trip: [Ready0] is [Ready] without it and [roundtrip0] the same theorem. *)
From Kava Require Import Base.Prelude Base.Dec Model.Hard Proofs.Hard Proofs.HardInv Proofs.HardSync.
From Kava Require Import Model.GenesisHard Proofs.GenesisHard.
Require Import ZifyBool ZifyNat.
Local Open Scope Z_scope.

(** * The round trip without the bound on the supply factors *)

Record Ready0 (e : env) (s : state) : Prop := mkReady0 {
  r0_inv : HInv e s;
  r0_bb : bounded (bfac s);
  r0_prev : forall d m, (d < nd e)%nat -> params s d = Some m -> prev s d <> None;
  r0_mk : forall d m, (d < nd e)%nat -> params s d = Some m -> market_valid m = true;
  r0_minb : 0 <= min_borrow e
}.

Lemma ready0_of_ready e s : Ready e s -> Ready0 e s.
Proof. intros R. constructor; apply R. Qed.
Lemma ready_of_ready0 e s : Ready0 e s -> bounded (sfac s) -> Ready e s.
Proof. intros R B. constructor; try apply R. exact B. Qed.

Lemma export_ok0 e s : Ready0 e s -> export_genesis e s = Ok (the_genesis e s) tt.
Proof.
  intros R. pose proof (r0_inv _ _ R) as I. unfold export_genesis. rewrite !export_recs_fold.
  rewrite (export_recs_ok load_synced_sup (nd e) (sfac s) (dep s) (seq 0 (nu e)) []).
  2:{ intros u r _ E. pose proof (hi_dep _ _ I u r E) as S. split; [eapply hook_ok_sound; exact S|].
      destruct (synced_rec_ok _ _ _ _ (loads_deposit _ _) S) as [c [_ [_ X]]]. eexists; exact X. }
  cbn [bind app].
  rewrite (export_recs_ok load_synced (nd e) (bfac s) (bor s) (seq 0 (nu e)) []).
  2:{ intros u r _ E. pose proof (hi_bor _ _ I u r E) as S. split; [eapply hook_ok_sound; exact S|].
      destruct (synced_rec_ok _ _ _ _ (loads_borrow _ _ (hi_bfac _ _ I) (r0_bb _ _ R)) S) as [c [_ [_ X]]]. eexists; exact X. }
  cbn [bind app].
  change (export_gats e s) with (fold_left (gat_step s) (seq 0 (nd e)) (ret [])).
  rewrite (export_gats_ok s (seq 0 (nd e)) []).
  2:{ intros d m Hd. apply in_seq in Hd. apply (r0_prev _ _ R); lia. }
  reflexivity.
Qed.

Lemma export_validates0 e s : Ready0 e s -> validate_genesis (the_genesis e s) = true.
Proof.
  intros R. pose proof (r0_inv _ _ R) as I. unfold validate_genesis, the_genesis.
  cbn [g_minb g_mms g_gats g_deps g_bors g_tsup g_tbor g_tres].
  destruct (recs_list_valid load_synced_sup (nd e) (sfac s) (dep s) (seq 0 (nu e)) (hi_sfac _ _ I) (loads_deposit _ _) (hi_dep _ _ I) (seq_NoDup _ _)) as [D1 D2].
  destruct (recs_list_valid load_synced (nd e) (bfac s) (bor s) (seq 0 (nu e)) (hi_bfac _ _ I) (loads_borrow _ _ (hi_bfac _ _ I) (r0_bb _ _ R)) (hi_bor _ _ I) (seq_NoDup _ _)) as [B1 B2].
  rewrite D1, D2, B1, B2.
  rewrite !clist_valid_to_clist by (apply I).
  assert (M : forallb (fun p => market_valid (snd p)) (export_mms e s) = true).
  { apply forallb_forall. intros [d m] Hin. change (export_mms e s) with (opt_list (params s) (fun d m => (d, m)) (seq 0 (nd e))) in Hin.
    apply in_opt_list in Hin. destruct Hin as [d' [m' [Hd [P E]]]]. injection E as -> ->. apply in_seq in Hd.
    cbn [snd]. apply (r0_mk _ _ R d' m'); [lia|exact P]. }
  assert (Gt : forallb gat_valid (opt_list (params s) (gat_of s) (seq 0 (nd e))) = true).
  { apply forallb_forall. intros g Hin. apply in_opt_list in Hin. destruct Hin as [d [m [_ [_ ->]]]].
    unfold gat_valid, gat_of. cbn [ga_sf ga_bf]. apply andb_true_iff. split; apply Z.leb_le.
    - destruct (sfac s d) as [f|] eqn:E; [apply (hi_sfac _ _ I d f E)|lia].
    - destruct (bfac s d) as [f|] eqn:E; [apply (hi_bfac _ _ I d f E)|lia]. }
  rewrite M, Gt. pose proof (r0_minb _ _ R). assert (E0 : (0 <=? min_borrow e) = true) by lia. rewrite E0. reflexivity.
Qed.

Theorem roundtrip0 e s : Ready0 e s ->
  export_genesis e s = Ok (the_genesis e s) tt /\
  validate_genesis (the_genesis e s) = true /\
  exists s', init_genesis e s (the_genesis e s) = Ok s' tt /\ reimport e s = Ok s' tt /\ Imported e s s'.
Proof.
  intros R. pose proof (export_ok0 e s R) as X. pose proof (export_validates0 e s R) as V.
  split; [exact X|]. split; [exact V|].
  unfold reimport. rewrite X. cbn [bind]. unfold init_genesis. rewrite V. cbn [panic_unless bind ret].
  eexists. split; [reflexivity|]. split; [reflexivity|].
  constructor; cbn [bal price params mkts sfac bfac prev dep bor tsup tbor tres the_genesis
                    g_minb g_mms g_gats g_deps g_bors g_tsup g_tbor g_tres]; try reflexivity.
  - intros d. change (export_mms e s) with (opt_list (params s) (fun d m => (d, m)) (seq 0 (nd e))).
    rewrite set_all_opt_list_id by reflexivity. destruct (Nat.ltb d (nd e)); [|reflexivity]. destruct (params s d); reflexivity.
  - intros d. change (export_mms e s) with (opt_list (params s) (fun d m => (d, m)) (seq 0 (nd e))).
    rewrite set_all_opt_list_id by reflexivity. destruct (Nat.ltb d (nd e)); [|reflexivity]. destruct (params s d); reflexivity.
  - intros d. rewrite (set_all_opt_list (params s) (gat_of s) (fun a => (ga_denom a, ga_sf a))) by reflexivity.
    destruct (Nat.ltb d (nd e)); [|reflexivity]. destruct (params s d); reflexivity.
  - intros d. rewrite (set_all_opt_list (params s) (gat_of s) (fun a => (ga_denom a, ga_bf a))) by reflexivity.
    destruct (Nat.ltb d (nd e)); [|reflexivity]. destruct (params s d); reflexivity.
  - intros d. rewrite (set_all_opt_list (params s) (gat_of s) (fun a => (ga_denom a, ga_prev a))) by reflexivity.
    destruct (Nat.ltb_spec d (nd e)) as [Hd|]; [|reflexivity]. destruct (params s d) as [m|] eqn:P; [|reflexivity].
    cbn [option_map snd gat_of ga_prev]. pose proof (r0_prev _ _ R d m Hd P). destruct (prev s d); [reflexivity|congruence].
  - intros u. unfold recs_list. rewrite (set_all_opt_list (dep s) _ (fun r => (gr_user r, urec_of r))) by reflexivity.
    destruct (Nat.ltb u (nu e)); [|reflexivity]. destruct (dep s u); reflexivity.
  - intros u. unfold recs_list. rewrite (set_all_opt_list (bor s) _ (fun r => (gr_user r, urec_of r))) by reflexivity.
    destruct (Nat.ltb u (nu e)); [|reflexivity]. destruct (bor s u); reflexivity.
  - intros d. apply of_list_to_clist.
  - intros d. apply of_list_to_clist.
  - intros d. apply of_list_to_clist.
Qed.

(* the invariant after the import, without the bound on the supply factors *)
Theorem imported_inv0 e s s' : Ready0 e s -> positions_in_params e s -> Imported e s s' -> HInv e s'.
Proof.
  intros R PP Im. pose proof (r0_inv _ _ R) as I. constructor.
  - intros d f E. rewrite (im_sfac _ _ _ Im) in E. destruct (Nat.ltb d (nd e)); [|discriminate]. destruct (params s d); [|discriminate].
    cbn in E. injection E as <-. unfold dflt. destruct (sfac s d) as [x|] eqn:X; [apply (hi_sfac _ _ I d x X)|lia].
  - intros d f E. rewrite (im_bfac _ _ _ Im) in E. destruct (Nat.ltb d (nd e)); [|discriminate]. destruct (params s d); [|discriminate].
    cbn in E. injection E as <-. unfold dflt. destruct (bfac s d) as [x|] eqn:X; [apply (hi_bfac _ _ I d x X)|lia].
  - apply (imported_recs_sound sup_interest e s (sfac s) (sfac s') (dep s) (dep s') (hi_sfac _ _ I) (loads_deposit _ _) (hi_dep _ _ I) (im_sfac _ _ _ Im) (im_dep _ _ _ Im)).
    intros u r d T. apply (PP u r d). left; exact T.
  - assert (Lb : loads (load_synced_f bor_interest) (nd e) (bfac s)) by (rewrite <- load_synced_is_f; apply loads_borrow; [apply I|apply R]).
    apply (imported_recs_sound bor_interest e s (bfac s) (bfac s') (bor s) (bor s') (hi_bfac _ _ I) Lb (hi_bor _ _ I) (im_bfac _ _ _ Im)).
    + rewrite <- load_synced_is_f. apply (im_bor _ _ _ Im).
    + intros u r d T. apply (PP u r d). right; exact T.
  - intros d. rewrite (im_tsup _ _ _ Im). destruct (Nat.ltb d (nd e)); [apply I|lia].
  - intros d. rewrite (im_tbor _ _ _ Im). destruct (Nat.ltb d (nd e)); [apply I|lia].
  - intros d. rewrite (im_tres _ _ _ Im). destruct (Nat.ltb d (nd e)); [apply I|lia].
Qed.

(** * What the messages leave alone: accrual times, borrow factors (up to the 1.0 a first
      borrow stores for a denom without factor), params *)

Lemma dflt_init_facs mk cl : forall get d, dflt (init_facs mk get cl d) = dflt (get d).
Proof.
  unfold init_facs. induction cl as [|d0 cl IH]; intros get d; cbn [fold_left]; [reflexivity|].
  rewrite IH. destruct (get d0) eqn:G; [reflexivity|]. destruct (mk d0); [|reflexivity].
  unfold upd. destruct (Nat.eqb_spec d d0) as [->|]; [rewrite G; reflexivity|reflexivity].
Qed.

Definition Frame (s s' : state) : Prop :=
  prev s' = prev s /\ (forall d, dflt (bfac s' d) = dflt (bfac s d)) /\ params s' = params s.

Lemma deposit_frame e s u c s' : deposit e s u c = Ok s' tt -> Frame s s'.
Proof.
  unfold deposit. intros H. cbv zeta in H.
  inv_bind H as u1 G1. inv_bind H as s1 E1. inv_bind H as u2 G2. inv_bind H as s2 E2. apply ret_ok in H.
  destruct (sync_supply_frame _ _ _ _ E1) as (_ & _ & _ & _ & S5 & S6 & _).
  pose proof (sync_supply_params _ _ _ _ E1) as Sp.
  apply bsend_ok in E2. destruct E2 as [_ ->]. subst s'. cbn in S5, S6, Sp. unfold Frame. cbn.
  split; [exact S6|]. split; [intros d; rewrite S5; reflexivity|exact Sp].
Qed.

Lemma withdraw_frame e s u c s' : withdraw e s u c = Ok s' tt -> Frame s s'.
Proof.
  unfold withdraw. intros H.
  inv_bind H as u1 G1. inv_bind H as u2 G2. inv_bind H as u3 G3. inv_bind H as s1 E2. inv_bind H as s2 E3.
  destruct (dep s2 u) as [r|] eqn:Er; [|discriminate].
  inv_bind H as u4 G4. inv_bind H as u5 G5. inv_bind H as w E6. inv_bind H as u6 E7.
  inv_bind H as s3 E8. inv_bind H as ix E9.
  apply dec_supplied_ok in H. apply bsend_ok in E8. destruct E8 as [_ ->].
  destruct (sync_borrow_frame _ _ _ _ E2) as (_ & _ & _ & _ & B5 & B6 & _).
  destruct (sync_supply_frame _ _ _ _ E3) as (_ & _ & _ & _ & S5 & S6 & _).
  pose proof (sync_borrow_params _ _ _ _ E2) as Bp. pose proof (sync_supply_params _ _ _ _ E3) as Sp.
  subst s'. unfold Frame. cbn. split; [congruence|]. split; [intros d; rewrite S5, B5; reflexivity|congruence].
Qed.

Lemma borrow_frame e s u c s' : borrow e s u c = Ok s' tt -> Frame s s'.
Proof.
  unfold borrow. intros H. cbv zeta in H.
  inv_bind H as u1 G1. inv_bind H as u2 G2. inv_bind H as s1 E1. inv_bind H as s2 E2.
  inv_bind H as u3 G3. inv_bind H as s3 E3. apply ret_ok in H.
  destruct (sync_supply_frame _ _ _ _ E1) as (_ & _ & _ & _ & S5 & S6 & _).
  destruct (sync_borrow_frame _ _ _ _ E2) as (_ & _ & _ & _ & B5 & B6 & _).
  pose proof (sync_supply_params _ _ _ _ E1) as Sp. pose proof (sync_borrow_params _ _ _ _ E2) as Bp.
  apply bsend_ok in E3. destruct E3 as [_ ->]. subst s'. cbn in S5, S6, Sp. unfold Frame. cbn.
  split; [congruence|]. split; [|congruence]. intros d. rewrite B5, S5. apply dflt_init_facs.
Qed.

Lemma repay_frame e s a o c s' : repay e s a o c = Ok s' tt -> Frame s s'.
Proof.
  unfold repay. intros H.
  inv_bind H as u1 G1. inv_bind H as u2 G2. inv_bind H as s2 E2.
  destruct (bor s2 o) as [r|] eqn:Er; [|discriminate].
  inv_bind H as u3 G3. inv_bind H as u4 G4. inv_bind H as u5 G5. inv_bind H as u6 G6.
  inv_bind H as s3 E3. inv_bind H as ix E4. inv_bind H as u7 G7.
  apply dec_borrowed_ok in H. apply bsend_ok in E3. destruct E3 as [_ ->].
  destruct (sync_borrow_frame _ _ _ _ E2) as (_ & _ & _ & _ & B5 & B6 & _).
  pose proof (sync_borrow_params _ _ _ _ E2) as Bp.
  subst s'. unfold Frame. cbn. split; [congruence|]. split; [intros d; rewrite B5; reflexivity|congruence].
Qed.

Definition plain_op (o : op) : Prop :=
  match o with BeginBlock _ _ | SetParams _ => False | _ => True end.

Lemma step_frame e s o s' : step e s o = Ok s' tt -> plain_op o -> Frame s s'.
Proof.
  destruct o as [u c|u c|u c|a b c|k b|d p|u d x|t fs|ps]; cbn [step plain_op]; intros H Hp; try contradiction.
  - destruct (_ && _); [|discriminate]. eapply deposit_frame; eauto.
  - destruct (_ && _); [|discriminate]. eapply withdraw_frame; eauto.
  - destruct (_ && _); [|discriminate]. eapply borrow_frame; eauto.
  - destruct (_ && _); [|discriminate]. eapply repay_frame; eauto.
  - destruct (_ && _); [|discriminate]. destruct (liquidate_frame _ _ _ _ _ H) as (_ & B & P & _ & _ & Q).
    split; [exact P|]. split; [intros d; rewrite B; reflexivity|exact Q].
  - destruct (_ && _); [|discriminate]. apply ret_ok in H. subst s'. repeat split.
  - destruct (_ && _); [|discriminate]. apply bsend_ok in H. destruct H as [_ ->]. repeat split.
Qed.

(** * One accrual *)

Lemma accrue_prev e s d t f s' : accrue e s d t f = Ok s' tt ->
  (forall d', d' <> d -> prev s' d' = prev s d') /\ prev s' d <> None.
Proof.
  unfold accrue. intros H.
  assert (Tp : (forall d', d' <> d -> prev (set_prev s (upd (prev s) d (Some t))) d' = prev s d') /\
               prev (set_prev s (upd (prev s) d (Some t))) d <> None).
  { cbn. unfold upd. split; [intros d' Hd; destruct (Nat.eqb_spec d' d); [contradiction|reflexivity]|].
    rewrite Nat.eqb_refl. discriminate. }
  destruct (prev s d) as [p|] eqn:Ep; [|apply ret_ok in H; subst; exact Tp].
  assert (T0 : (forall d', d' <> d -> prev s d' = prev s d') /\ prev s d <> None) by (split; [reflexivity|congruence]).
  destruct (t - p =? 0); [apply ret_ok in H; subst; exact T0|].
  destruct (tbor s d =? 0); [apply ret_ok in H; subst; exact Tp|].
  cbn [mkts set_sfac set_bfac] in H. destruct (mkts s d) as [m|]; [|discriminate].
  inv_bind H as apy E1. inv_bind H as u1 G1.
  match type of H with (if ?c then _ else _) = _ => destruct c end.
  - apply ret_ok in H. subst s'. cbn. exact T0.
  - inv_bind H as u2 G2. inv_bind H as u3 G3. inv_bind H as u4 G4. apply ret_ok in H. subst s'. exact Tp.
Qed.

Lemma dec_mul_envelope bf f : PREC <= bf -> 0 <= f -> dec_mul bf f * PREC <= bf * (Z.max PREC f + 1).
Proof.
  intros Hb Hf. pose proof (dec_mul_bounds bf f) as B. assert (M : f <= Z.max PREC f) by lia.
  assert (bf * f <= bf * Z.max PREC f) by nia. unfold PREC in *. lia.
Qed.

(* the borrow factor of the accrued denom: unchanged (as a value, 1.0 when none is stored), or
   multiplied once, and then the accrual time is the block time; a second accrual at the
   same block time changes nothing *)
Lemma accrue_bf e s d t f s' : accrue e s d t f = Ok s' tt -> fac_ge1 (bfac s) ->
  (forall d', d' <> d -> bfac s' d' = bfac s d') /\
  (prev s d = Some t -> bfac s' d = bfac s d /\ prev s' d = Some t) /\
  (dflt (bfac s' d) = dflt (bfac s d) \/
   (prev s' d = Some t /\ dflt (bfac s' d) * PREC <= dflt (bfac s d) * (Z.max PREC f + 1))).
Proof.
  unfold accrue. intros H G.
  assert (Tp : (forall d', d' <> d -> bfac (set_prev s (upd (prev s) d (Some t))) d' = bfac s d') /\
               (prev s d = Some t -> bfac (set_prev s (upd (prev s) d (Some t))) d = bfac s d /\
                                     prev (set_prev s (upd (prev s) d (Some t))) d = Some t) /\
               (dflt (bfac (set_prev s (upd (prev s) d (Some t))) d) = dflt (bfac s d) \/
                (prev (set_prev s (upd (prev s) d (Some t))) d = Some t /\
                 dflt (bfac (set_prev s (upd (prev s) d (Some t))) d) * PREC <= dflt (bfac s d) * (Z.max PREC f + 1)))).
  { cbn. split; [reflexivity|]. split; [|left; reflexivity]. intros _. split; [reflexivity|]. unfold upd. rewrite Nat.eqb_refl. reflexivity. }
  assert (T0 : (forall d', d' <> d -> bfac s d' = bfac s d') /\ (prev s d = Some t -> bfac s d = bfac s d /\ prev s d = Some t) /\
               (dflt (bfac s d) = dflt (bfac s d) \/ (prev s d = Some t /\ dflt (bfac s d) * PREC <= dflt (bfac s d) * (Z.max PREC f + 1))))
    by (split; [reflexivity|split; [intros X; split; [reflexivity|exact X]|left; reflexivity]]).
  destruct (prev s d) as [p|] eqn:Ep; [|apply ret_ok in H; subst; exact Tp].
  destruct (Z.eqb_spec (t - p) 0) as [Hz|Hz]; [apply ret_ok in H; subst; rewrite Ep; exact T0|].
  assert (Np : Some p <> Some t) by (intros X; inversion X; lia).
  destruct (tbor s d =? 0); [apply ret_ok in H; subst; exact Tp|].
  set (bf := match bfac s d with Some x => x | None => PREC end) in *.
  assert (Hbf : PREC <= bf) by (unfold bf; destruct (bfac s d) eqn:E; [eapply G; eauto|lia]).
  assert (Ebf : dflt (bfac s d) = bf) by reflexivity.
  cbn [mkts set_sfac set_bfac] in H. destruct (mkts s d) as [m|]; [|discriminate].
  inv_bind H as apy E1. inv_bind H as u1 G1. apply err_unless_ok in G1. apply Z.leb_le in G1.
  match type of H with (if ?c then _ else _) = _ => destruct c end.
  - apply ret_ok in H. subst s'. cbn. split; [|split; [intros X; congruence|]].
    + intros d' Hd. unfold upd. destruct (Nat.eqb_spec d' d); [contradiction|reflexivity].
    + left. unfold upd. rewrite Nat.eqb_refl. reflexivity.
  - inv_bind H as u2 G2. inv_bind H as u3 G3. inv_bind H as u4 G4. apply ret_ok in H. subst s'. cbn.
    split; [|split; [intros X; congruence|]].
    + intros d' Hd. unfold upd. destruct (Nat.eqb_spec d' d); [contradiction|reflexivity].
    + right. unfold upd. rewrite !Nat.eqb_refl. split; [reflexivity|]. cbn [dflt]. rewrite Ebf. apply dec_mul_envelope; assumption.
Qed.

(** * One begin blocker *)

(* every borrow factor grows by at most the interval's factor (plus 10^-18 for the rounding of
   Dec.Mul); factors outside the denom universe are untouched *)
Lemma begin_block_bf e s t fs s' : begin_block e s t fs = Ok s' tt -> HInv e s ->
  forall d, ((nd e <= d)%nat -> bfac s' d = bfac s d) /\
            dflt (bfac s' d) * PREC <= dflt (bfac s d) * (Z.max PREC (nthZ fs d) + 1).
Proof.
  intros H I.
  assert (K : HInv e s' /\ (forall d, (nd e <= d)%nat -> bfac s' d = bfac s d) /\
              forall d, dflt (bfac s' d) = dflt (bfac s d) \/
                        (prev s' d = Some t /\ dflt (bfac s' d) * PREC <= dflt (bfac s d) * (Z.max PREC (nthZ fs d) + 1))).
  { refine (begin_block_inv (fun x => HInv e x /\ (forall d, (nd e <= d)%nat -> bfac x d = bfac s d) /\
              forall d, dflt (bfac x d) = dflt (bfac s d) \/
                        (prev x d = Some t /\ dflt (bfac x d) * PREC <= dflt (bfac s d) * (Z.max PREC (nthZ fs d) + 1)))
              e s t fs s' _ _ H _).
    - intros a b a2 Hb G (P0 & P1 & P2).
      destruct (accrue_inv _ _ _ _ _ _ G P0) as (Q0 & _).
      destruct (accrue_bf _ _ _ _ _ _ G (hi_bfac _ _ P0)) as (F1 & F2 & F3).
      destruct (accrue_prev _ _ _ _ _ _ G) as (R1 & _).
      split; [exact Q0|]. split.
      + intros d Hd. rewrite F1 by lia. apply P1, Hd.
      + intros d. destruct (Nat.eq_dec d b) as [->|Hne].
        * destruct (P2 b) as [L|[Rp Rb]].
          -- destruct F3 as [L'|[Rp' Rb']]; [left; congruence|right; split; [exact Rp'|rewrite <- L; exact Rb']].
          -- destruct (F2 Rp) as [Eb Ep]. right. split; [exact Ep|rewrite Eb; exact Rb].
        * rewrite (F1 d Hne), (R1 d Hne). apply P2.
    - intros s0 m (Q0 & Q1 & Q2). split; [eapply HInv_ext; [..|exact Q0]; reflexivity|]. split; [exact Q1|exact Q2].
    - split; [exact I|]. split; [reflexivity|]. intros d. left; reflexivity. }
  destruct K as (_ & K1 & K2). intros d. split; [apply K1|].
  destruct (K2 d) as [L|[_ R]]; [|exact R]. rewrite L.
  assert (PREC <= dflt (bfac s d)).
  { unfold dflt. destruct (bfac s d) as [x|] eqn:E; [apply (hi_bfac _ _ I d x E)|lia]. }
  unfold PREC in *. nia.
Qed.

Lemma fold_establish {A B} (I R : A -> Prop) (f : res A -> B -> res A) (g : A -> B -> res A) b0 :
  (forall acc b, f acc b = bind acc (fun a => g a b)) ->
  (forall a b a2, I a -> g a b = Ok a2 tt -> I a2) ->
  (forall a a2, I a -> g a b0 = Ok a2 tt -> R a2) ->
  (forall a b a2, I a -> R a -> g a b = Ok a2 tt -> R a2) ->
  forall l a0 a', In b0 l -> fold_left f l (ret a0) = Ok a' tt -> I a0 -> I a' /\ R a'.
Proof.
  intros Hf HI He HR. induction l as [|b l IH]; intros a0 a' Hin H I0; [contradiction|].
  cbn [fold_left] in H. rewrite Hf in H. cbn [bind ret] in H.
  destruct (g a0 b) as [a1 []| |] eqn:G.
  2,3: exfalso; eapply (fold_not_ok f g l _ Hf); [|exact H]; discriminate.
  pose proof (HI _ _ _ I0 G) as I1.
  destruct Hin as [->|Hin]; [|apply (IH a1 a' Hin H I1)].
  pose proof (He _ _ I0 G) as R1.
  refine (fold_bind_inv (fun a => I a /\ R a) f g l Hf _ a1 a' H (conj I1 R1)).
  intros a b a2 [Ia Ra] Ga. split; [eapply HI; eauto|eapply HR; eauto].
Qed.

(* accrual times are never unset, and after a begin blocker that did not panic every money
   market of the params has one *)
Lemma begin_block_prev e s t fs s' : begin_block e s t fs = Ok s' tt ->
  (forall d, prev s d <> None -> prev s' d <> None) /\
  (forall d m, (d < nd e)%nat -> params s' d = Some m -> prev s' d <> None).
Proof.
  intros H. split.
  - refine (begin_block_inv (fun x => forall d, prev s d <> None -> prev x d <> None) e s t fs s' _ _ H _).
    + intros a b a2 Hb G P d Hd. destruct (accrue_prev _ _ _ _ _ _ G) as (R1 & R2).
      destruct (Nat.eq_dec d b) as [->|Hne]; [exact R2|rewrite (R1 d Hne); apply P, Hd].
    + intros s0 m Q. exact Q.
    + intros d Hd. exact Hd.
  - intros d0 m Hd0 Pm. destruct (begin_block_syncs_markets _ _ _ _ _ H) as [Ps _]. rewrite Ps in Pm.
    unfold begin_block in H.
    destruct (fold_left (apply_param_market e t fs) (seq 0 (nd e)) (ret s)) as [s1 []| |] eqn:F1.
    2,3: exfalso; match type of H with match ?x with _ => _ end = _ => destruct x as [s2 []| |] eqn:F2 end; try discriminate;
         eapply (fold_not_ok _ _ _ _ (drop_removed_market_bind e t fs)); [|exact F2]; discriminate.
    match type of H with match ?x with _ => _ end = _ => destruct x as [s2 []| |] eqn:F2 end; try discriminate.
    apply ret_ok in H. subst s2.
    assert (K1 : params s1 = params s /\ prev s1 d0 <> None).
    { refine (fold_establish (fun a => params a = params s) (fun a => prev a d0 <> None) _ _ d0
                (apply_param_market_bind e t fs) _ _ _ (seq 0 (nd e)) s s1 _ F1 eq_refl).
      - intros a b a2 Ia G. unfold apply_param_market in G. cbn [bind ret] in G.
        destruct (params a b) as [pm|]; [|apply ret_ok in G; subst; exact Ia].
        inv_bind G as a1 E. apply ret_ok in G. destruct (accrue_frame_mk _ _ _ _ _ _ E) as [_ Q].
        assert (Q' : params a1 = params a) by (rewrite Q; destruct (mkts a b); reflexivity).
        subst a2. destruct (market_eqb _ pm); cbn; congruence.
      - intros a a2 Ia G. unfold apply_param_market in G. cbn [bind ret] in G.
        rewrite Ia, Pm in G. inv_bind G as a1 E. apply ret_ok in G. destruct (accrue_prev _ _ _ _ _ _ E) as (_ & R2).
        subst a2. destruct (market_eqb _ m); cbn; exact R2.
      - intros a b a2 Ia Ra G. unfold apply_param_market in G. cbn [bind ret] in G.
        destruct (params a b) as [pm|]; [|apply ret_ok in G; subst; exact Ra].
        inv_bind G as a1 E. apply ret_ok in G. destruct (accrue_prev _ _ _ _ _ _ E) as (R1 & R2).
        assert (Ra1 : prev a1 d0 <> None).
        { destruct (Nat.eq_dec d0 b) as [->|Hne]; [exact R2|]. rewrite (R1 d0 Hne). destruct (mkts a b); exact Ra. }
        subst a2. destruct (market_eqb _ pm); cbn; exact Ra1.
      - apply in_seq. lia. }
    destruct K1 as [_ K1].
    refine (fold_bind_inv (fun a => prev a d0 <> None) _ _ _ (drop_removed_market_bind e t fs) _ _ _ F2 K1).
    intros a b a2 Ra G. unfold drop_removed_market in G. cbn [bind ret] in G.
    destruct (mkts a b) as [mm|]; [|apply ret_ok in G; subst; exact Ra].
    destruct (params a b); [apply ret_ok in G; subst; exact Ra|].
    inv_bind G as a1 E. apply ret_ok in G. destruct (accrue_prev _ _ _ _ _ _ E) as (R1 & R2). subst a2. cbn.
    destruct (Nat.eq_dec d0 b) as [->|Hne]; [exact R2|rewrite (R1 d0 Hne); exact Ra].
Qed.

(** * Along histories *)

(* the envelope of the borrow factor of denom d over a history: per begin blocker the
   interval's factor (at least 1.0) plus one unit of the 18th decimal, as a fraction
   bnum / bden of mantissas *)
Fixpoint bnum (d : nat) (ops : list op) : Z :=
  match ops with
  | [] => 1
  | BeginBlock _ fs :: r => (Z.max PREC (nthZ fs d) + 1) * bnum d r
  | _ :: r => bnum d r
  end.
Fixpoint bden (ops : list op) : Z :=
  match ops with
  | [] => 1
  | BeginBlock _ _ :: r => PREC * bden r
  | _ :: r => bden r
  end.

Lemma bnum_pos d ops : 0 < bnum d ops.
Proof. induction ops as [|o r IH]; cbn [bnum]; [lia|]. destruct o; try exact IH. unfold PREC in *. nia. Qed.
Lemma bden_pos ops : 0 < bden ops.
Proof. induction ops as [|o r IH]; cbn [bden]; [lia|]. destruct o; try exact IH. unfold PREC in *. nia. Qed.

(* HYPOTHESIS ON THE HISTORY: for every denom the product of the intervals' borrow interest
   factors (each plus 10^-18) is at most 10^18 *)
Definition within_budget (e : env) (ops : list op) : Prop :=
  forall d, (d < nd e)%nat -> bnum d ops <= PREC * bden ops.

(* every SetParams of the history carries valid money markets *)
Definition op_ok (o : op) : Prop :=
  match o with
  | SetParams ps => forall d m, nth d ps None = Some m -> market_valid m = true
  | _ => True
  end.

Definition BB (e : env) (s : state) (ops : list op) : Prop :=
  forall d, ((nd e <= d)%nat -> dflt (bfac s d) = PREC) /\
            ((d < nd e)%nat -> dflt (bfac s d) * bnum d ops <= PREC * PREC * bden ops).
Definition MV (s : state) : Prop := forall d m, params s d = Some m -> market_valid m = true.
Definition PV (e : env) (s : state) : Prop :=
  forall d m, (d < nd e)%nat -> params s d = Some m -> prev s d <> None.

Lemma dflt_ge1 e s d : HInv e s -> PREC <= dflt (bfac s d).
Proof. intros I. unfold dflt. destruct (bfac s d) as [x|] eqn:E; [apply (hi_bfac _ _ I d x E)|lia]. Qed.

Lemma BB_skip e s o r : HInv e s -> BB e s (o :: r) -> BB e s r.
Proof.
  intros I B d. destruct (B d) as [B1 B2]. split; [exact B1|]. intros Hd. specialize (B2 Hd).
  destruct o; cbn [bnum bden] in B2; try exact B2.
  pose proof (dflt_ge1 e s d I) as G. pose proof (bnum_pos d r) as N. pose proof (bden_pos r) as D.
  set (A := dflt (bfac s d)) in *. set (M := Z.max PREC (nthZ fs d)) in *. assert (HM : PREC <= M) by (unfold M; lia).
  assert (X : A * bnum d r * PREC <= PREC * PREC * bden r * PREC) by (unfold PREC in *; nia).
  unfold PREC in *. nia.
Qed.

Lemma step_BB e s o r : HInv e s -> BB e s (o :: r) -> BB e (step' e s o) r.
Proof.
  intros I B. unfold step'. destruct (step e s o) as [s' []| |] eqn:E; [|eapply BB_skip; eauto..].
  destruct o as [u c|u c|u c|a b c|k b|d p|u d x|t fs|ps].
  1-7: destruct (step_frame _ _ _ _ E Logic.I) as (_ & F & _);
       intros d0; destruct (B d0) as [B1 B2]; rewrite F; split; [exact B1|exact B2].
  - cbn [step] in E. intros d. destruct (B d) as [B1 B2]. destruct (begin_block_bf _ _ _ _ _ E I d) as [F1 F2]. split.
    + intros Hd. rewrite (F1 Hd). apply B1, Hd.
    + intros Hd. specialize (B2 Hd). cbn [bnum bden] in B2.
      pose proof (bnum_pos d r) as N. pose proof (bden_pos r) as D.
      set (A' := dflt (bfac s' d)) in *. set (A := dflt (bfac s d)) in *. set (M1 := Z.max PREC (nthZ fs d) + 1) in *.
      assert (X : A' * bnum d r * PREC <= PREC * PREC * bden r * PREC) by (unfold PREC in *; nia).
      unfold PREC in *. nia.
  - cbn [step] in E. apply ret_ok in E. subst s'. exact B.
Qed.

Lemma step_params e s o s' : step e s o = Ok s' tt ->
  match o with SetParams ps => params s' = (fun d => nth d ps None) | _ => params s' = params s end.
Proof.
  intros E. destruct o as [u c|u c|u c|a b c|k b|d p|u d x|t fs|ps].
  1-7: apply (step_frame _ _ _ _ E Logic.I).
  - cbn [step] in E. apply (begin_block_syncs_markets _ _ _ _ _ E).
  - cbn [step] in E. apply ret_ok in E. subst s'. reflexivity.
Qed.

Lemma step_MV e s o : MV s -> op_ok o -> MV (step' e s o).
Proof.
  intros M Ho. unfold step'. destruct (step e s o) as [s' []| |] eqn:E; [|exact M..].
  pose proof (step_params _ _ _ _ E) as P. destruct o; try (intros d0 m0; rewrite P; apply M).
  intros d0 m0. rewrite P. apply Ho.
Qed.

Lemma run_reach e : forall ops s, HInv e s -> BB e s ops -> MV s -> Forall op_ok ops ->
  HInv e (run e s ops) /\ BB e (run e s ops) [] /\ MV (run e s ops).
Proof.
  unfold run. induction ops as [|o r IH]; intros s I B M F; cbn [fold_left]; [auto|].
  inversion F as [|? ? Ho Fr]; subst. apply IH; [apply step'_inv, I|apply step_BB; assumption|apply step_MV; assumption|exact Fr].
Qed.

Definition no_setparams (o : op) : Prop := match o with SetParams _ => False | _ => True end.

Lemma step_PV e s o : PV e s -> no_setparams o -> PV e (step' e s o).
Proof.
  intros P Ho. unfold step'. destruct (step e s o) as [s' []| |] eqn:E; [|exact P..].
  destruct o as [u c|u c|u c|a b c|k b|d p|u d x|t fs|ps]; try contradiction.
  1-7: destruct (step_frame _ _ _ _ E Logic.I) as (Fp & _ & Fq); intros d0 m Hd; rewrite Fp, Fq; apply P, Hd.
  cbn [step] in E. intros d m Hd Pm. apply (proj2 (begin_block_prev _ _ _ _ _ E) d m Hd Pm).
Qed.

Lemma run_PV e : forall ops s, PV e s -> Forall no_setparams ops -> PV e (run e s ops).
Proof.
  unfold run. induction ops as [|o r IH]; intros s P F; cbn [fold_left]; [exact P|].
  inversion F as [|? ? Ho Fr]; subst. apply IH; [apply step_PV; assumption|exact Fr].
Qed.

Lemma bounded_of_BB e s : BB e s [] -> bounded (bfac s).
Proof.
  intros B d F E. destruct (B d) as [B1 B2]. unfold dflt in *. rewrite E in *. cbn [bnum bden] in B2.
  destruct (Nat.ltb_spec d (nd e)) as [Hd|Hd]; [specialize (B2 Hd); lia|specialize (B1 Hd); unfold PREC in *; lia].
Qed.

Lemma market_valid_reserve m : market_valid m = true -> 0 <= m_reserve m <= PREC.
Proof.
  unfold market_valid. intros H. repeat (apply andb_prop in H; destruct H as [H ?]). lia.
Qed.

Lemma op_ok_params_ok o : op_ok o -> op_params_ok o.
Proof. destruct o; cbn; auto. intros H d m E. apply market_valid_reserve. eapply H; eauto. Qed.

(* from a state whose params markets all have an accrual time, along a history without
   parameter changes *)
Theorem ready_reachable_from e s ops :
  HInv e s -> MV s -> PV e s -> 0 <= min_borrow e ->
  (forall d, (nd e <= d)%nat -> dflt (bfac s d) = PREC) ->
  (forall d, (d < nd e)%nat -> dflt (bfac s d) * bnum d ops <= PREC * PREC * bden ops) ->
  Forall no_setparams ops ->
  Ready0 e (run e s ops).
Proof.
  intros I M P Mb B1 B2 F.
  assert (Fo : Forall op_ok ops).
  { eapply Forall_impl; [|exact F]. intros o Ho. destruct o; cbn; auto; contradiction. }
  destruct (run_reach e ops s I (fun d => conj (B1 d) (B2 d)) M Fo) as (I' & B' & M').
  constructor; [exact I'|apply (bounded_of_BB e), B'|apply (run_PV e ops s P F)| |exact Mb].
  intros d m _ Pm. apply (M' d m Pm).
Qed.

(* THE THEOREM ON HISTORIES.  From every genesis of the machine, along every history
   ops1 ++ BeginBlock t fs :: ops2 such that
     - the genesis money markets and those of every SetParams are valid,
     - the borrow-factor budget holds ([within_budget]),
     - the oracle factors of that begin blocker are >= 1.0 for every denom (not the error marker),
     - no SetParams comes after that begin blocker (ops2),
   the begin blocker does not panic and the state at the end of the history satisfies [Ready0]:
   ExportGenesis does not panic, the export validates, InitGenesis does not panic and the
   imported state is [Imported]. *)
Theorem roundtrip_reachable e bals prices prevs mms ops1 t fs ops2 :
  let ops := ops1 ++ BeginBlock t fs :: ops2 in
  let s := run e (mk_state bals prices prevs mms) ops in
  0 <= min_borrow e ->
  (forall d m, nthO mms d = Some m -> market_valid m = true) ->
  Forall op_ok ops ->
  within_budget e ops ->
  (forall d, (d < nd e)%nat -> PREC <= nthZ fs d) ->
  Forall no_setparams ops2 ->
  Ready0 e s /\
  export_genesis e s = Ok (the_genesis e s) tt /\
  validate_genesis (the_genesis e s) = true /\
  exists s', reimport e s = Ok s' tt /\ Imported e s s'.
Proof.
  intros ops s Mb Mg Fo Bud Hf F2. set (g := mk_state bals prices prevs mms) in *.
  assert (Ig : HInv e g) by apply genesis_inv.
  assert (Bg : BB e g ops).
  { intros d. split; [intros _; reflexivity|]. intros Hd. cbn [g mk_state bfac dflt]. specialize (Bud d Hd).
    pose proof (bden_pos ops). unfold PREC in *. nia. }
  assert (MVg : MV g) by (intros d m E; apply (Mg d m E)).
  destruct (run_reach e ops g Ig Bg MVg Fo) as (I' & B' & M'). fold s in I', B', M'.
  (* the begin blocker goes through *)
  assert (Fo1 : Forall op_params_ok ops1).
  { apply Forall_app in Fo. destruct Fo as [Fo1 _]. eapply Forall_impl; [|exact Fo1]. apply op_ok_params_ok. }
  destruct (begin_block_no_panic_reachable e g ops1 t fs Ig
              (genesis_mkts_ok bals prices prevs mms (fun d m E => market_valid_reserve m (Mg d m E))) Fo1 Hf) as [s1 E1].
  assert (Es : s = run e s1 ops2).
  { unfold s, ops, run. rewrite fold_left_app. cbn [fold_left]. unfold step' at 2. cbn [step]. fold (run e g ops1). rewrite E1. reflexivity. }
  assert (P1 : PV e s1) by (intros d m Hd Pm; apply (proj2 (begin_block_prev _ _ _ _ _ E1) d m Hd Pm)).
  assert (R : Ready0 e s).
  { constructor; [exact I'|apply (bounded_of_BB e), B'|rewrite Es; apply (run_PV e ops2 s1 P1 F2)| |exact Mb].
    intros d m _ Pm. apply (M' d m Pm). }
  split; [exact R|]. destruct (roundtrip0 e s R) as (X & V & s' & _ & E & Im).
  split; [exact X|]. split; [exact V|]. exists s'. split; assumption.
Qed.

(** * The bound on the borrow factors is needed *)

(* a borrow of one base unit taken when the borrow factor already was 3*10^18: the position's
   index equals the global factor; loadSyncedBorrow computes 1/(3*10^18) = 0 at 18 decimals,
   so the "interest" is 0 * factor - 1 = -1 and sdk.NewCoin panics: ExportGenesis panics *)
Definition wb_env : env := mk_env 1 1 0.
Definition wb_market : market := mkMarket 1 (PREC / 2) false 0 0 0 0 0 0 0.
Definition wb_state : state :=
  mkState (fun _ _ => 0) (fun _ => PREC) (fun _ => None)
          (fun u => if Nat.eqb u 0 then Some (mkU (fun d => if Nat.eqb d 0 then 1 else 0) [(0%nat, 3 * PREC * PREC)]) else None)
          (fun _ => None) (fun d => if Nat.eqb d 0 then Some (3 * PREC * PREC) else None) (fun d => if Nat.eqb d 0 then Some 5 else None)
          czero (fun d => if Nat.eqb d 0 then 1 else 0) czero
          (fun d => if Nat.eqb d 0 then Some wb_market else None) (fun d => if Nat.eqb d 0 then Some wb_market else None).

Lemma unbounded_factor_export_panics :
  inv_b wb_env wb_state = true /\ market_valid wb_market = true /\ prev wb_state 0%nat = Some 5 /\
  export_genesis wb_env wb_state = Panic /\ reimport wb_env wb_state = Panic.
Proof. repeat split; vm_compute; reflexivity. Qed.

(* a parameter change that only lists money markets which already have an accrual time keeps
   [PV] (a market removed and listed again, changed parameters of an existing market); only a
   NEW market breaks it until the next begin blocker *)
Lemma setparams_PV e s ps :
  (forall d m, (d < nd e)%nat -> nth d ps None = Some m -> prev s d <> None) -> PV e (step' e s (SetParams ps)).
Proof. intros H. unfold step'. cbn [step ret]. intros d m Hd Pm. cbn in Pm |- *. apply (H d m Hd Pm). Qed.

(* non-vacuity of the budget: two begin blockers with interval factors 1.5 and 2.0 *)
Example budget_nonvacuous :
  within_budget (mk_env 1 1 0) [BeginBlock 10 [PREC + PREC / 2]; Deposit 0 [(0%nat, 5)]; BeginBlock 20 [2 * PREC]] /\
  ~ within_budget (mk_env 1 1 0) [BeginBlock 10 [PREC * PREC]; BeginBlock 20 [2 * PREC]].
Proof.
  split.
  - intros d Hd. destruct d; [|cbn in Hd; lia]. vm_compute. discriminate.
  - intros H. specialize (H 0%nat ltac:(cbn; lia)). vm_compute in H. apply H. reflexivity.
Qed.
