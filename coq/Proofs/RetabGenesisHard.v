(* The genesis correspondence checker of Model/GenesisHard.v ([gcheck_history] /
   [gmismatches]) evaluates RE-TABULATED model states ([normalize] after every step).  This
   file proves it equal to the same checker without [normalize] ([gcheck_history_plain]:
   gstep only), on top of Proofs/RetabHard.v: ExportGenesis reads in-range indexes only (so ≈
   states export the SAME result), InitGenesis keeps ≈ (it takes bank balances and prices from
   the state and everything else from the genesis state), and the probe verdicts depend on the
   probed genesis state only.  No functional extensionality is used. *)
From Kava Require Import Base.Prelude Base.Dec Model.Hard Model.GenesisHard Proofs.RetabCommon Proofs.RetabHard.
Local Open Scope Z_scope.

Lemma to_clist_ext n c c' : ext1 n c c' -> to_clist n c = to_clist n c'.
Proof.
  intros H. unfold to_clist. rewrite (denoms_ext _ _ _ H). apply map_ext_in.
  intros d Hd. rewrite (H d (denoms_lt _ _ _ Hd)). reflexivity.
Qed.

Definition loader_ok (n : nat) (ld : loader) : Prop :=
  forall gf gf' r r', ext1 n gf gf' -> ureq n r r' -> orel (ext1 n) (ld n gf r) (ld n gf' r').

Lemma loader_ok_sup n : loader_ok n load_synced_sup.
Proof. intros gf gf' r r' H1 H2. apply (load_synced_f_rel sup_interest n gf gf' r r' H1 H2). Qed.
Lemma loader_ok_bor n : loader_ok n load_synced.
Proof. intros gf gf' r r' H1 H2. apply load_synced_rel; assumption. Qed.

Lemma export_recs_eq ld n k gf gf' tbl tbl' us :
  loader_ok n ld -> ext1 n gf gf' ->
  (forall u, (u < k)%nat -> oureq n (tbl u) (tbl' u)) -> (forall u, In u us -> (u < k)%nat) ->
  export_recs ld n gf tbl us = export_recs ld n gf' tbl' us.
Proof.
  intros Hld Hgf Htbl Hus. unfold export_recs. apply (fold_left_rel eq); [|reflexivity].
  intros u acc acc' Hu ->. destruct acc' as [l []| |]; cbn [bind]; try reflexivity.
  pose proof (Htbl u (Hus u Hu)) as H. orec H r r' Ha Hi; [|reflexivity].
  rewrite (hook_ok_eq n (Some r) (Some r') (conj Ha Hi)).
  destruct (hook_ok n (Some r')); cbn [panic_unless bind ret]; [|reflexivity].
  unfold synced_rec. pose proof (Hld gf gf' r r' Hgf (conj Ha Hi)) as HL.
  destruct (ld n gf r) as [c []| |], (ld n gf' r') as [c' []| |]; cbn in HL |- *; try contradiction; try reflexivity.
  unfold grec_of. cbn [amt idx]. rewrite (to_clist_ext _ _ _ HL), (denoms_ext _ _ _ Ha).
  rewrite (map_ext_in (fun d => (d, fac0 gf d)) (fun d => (d, fac0 gf' d)) (denoms n (amt r'))); [reflexivity|].
  intros d Hd. unfold fac0. rewrite (Hgf d (denoms_lt _ _ _ Hd)). reflexivity.
Qed.

Lemma export_gats_eq e s s' : steq e s s' -> export_gats e s = export_gats e s'.
Proof.
  intros Q. open Q. unfold export_gats. apply (fold_left_rel eq); [|reflexivity].
  intros d acc acc' Hd ->. apply in_seq0 in Hd. rw. reflexivity.
Qed.

Lemma export_mms_eq e s s' : steq e s s' -> export_mms e s = export_mms e s'.
Proof. intros Q. open Q. unfold export_mms. apply flat_map_seq_ext. intros d Hd. rw. reflexivity. Qed.

Theorem export_genesis_steq e s s' : steq e s s' -> export_genesis e s = export_genesis e s'.
Proof.
  intros Q. open Q. unfold export_genesis.
  rewrite (export_recs_eq load_synced_sup (nd e) (nu e) (sfac s) (sfac s') (dep s) (dep s') _
             (loader_ok_sup _) Qsfac Qdep (in_seq0 _)).
  rewrite (export_recs_eq load_synced (nd e) (nu e) (bfac s) (bfac s') (bor s) (bor s') _
             (loader_ok_bor _) Qbfac Qbor (in_seq0 _)).
  rewrite (export_gats_eq e s s' Q), (export_mms_eq e s s' Q).
  rewrite (to_clist_ext _ _ _ Qtsup), (to_clist_ext _ _ _ Qtbor), (to_clist_ext _ _ _ Qtres).
  reflexivity.
Qed.

Theorem init_genesis_steq e s s' g : steq e s s' ->
  orel (steq e) (init_genesis e s g) (init_genesis e s' g).
Proof.
  intros Q. open Q. unfold init_genesis. gd. cbv zeta. cbn [ret orel].
  fields; try apply ext1_refl; intros; apply oureq_refl.
Qed.

Theorem reimport_steq e s s' : steq e s s' -> orel (steq e) (reimport e s) (reimport e s').
Proof.
  intros Q. unfold reimport. rewrite (export_genesis_steq e s s' Q).
  destruct (export_genesis e s') as [g []| |]; cbn [bind]; try exact I. apply init_genesis_steq, Q.
Qed.

Theorem gstep_steq e s s' o : steq e s s' -> orel (steq e) (gstep e s o) (gstep e s' o).
Proof.
  intros Q. destruct o; cbn [gstep].
  - apply step_steq, Q.
  - apply reimport_steq, Q.
  - exact Q.
Qed.

Corollary gstep'_steq e s s' o : steq e s s' -> steq e (gstep' e s o) (gstep' e s' o).
Proof.
  intros Q. unfold gstep'. pose proof (gstep_steq e s s' o Q) as H.
  destruct (gstep e s o), (gstep e s' o); cbn in H; try contradiction; assumption.
Qed.

Theorem probe_steq e s s' g : steq e s s' -> probe e s g = probe e s' g.
Proof.
  intros Q. unfold probe. rewrite (orel_class _ _ _ (init_genesis_steq e s s' g Q)). reflexivity.
Qed.

Theorem export_matches_steq e s s' g : steq e s s' -> export_matches e s g = export_matches e s' g.
Proof. intros Q. unfold export_matches. rewrite (export_genesis_steq e s s' Q). reflexivity. Qed.

(** * the plain genesis checker *)

Fixpoint gfirst_mismatch_plain (e : env) (s : state) (sh : view) (h : list (gop * gobs)) (i : nat) : option nat :=
  match h with
  | [] => None
  | (o, gb) :: r =>
      let s' := gstep' e s o in
      let ob := match gb with ObsStep x => x | ObsReimport x _ => x | ObsProbe _ => no_change end in
      let sh' := apply_obs sh ob in
      let extra := match o, gb with
                   | GOp x, ObsStep _ => oracle_ok x
                   | GReimport, ObsReimport _ g => export_matches e s g
                   | GProbe g, ObsProbe v => list_eqb Z.eqb (probe e s g) v
                   | _, _ => false
                   end in
      if extra
         && rclass_eqb (class_of (gstep e s o)) (o_class ob)
         && view_eqb (project e s') sh'
         && inv_b e s'
      then gfirst_mismatch_plain e s' sh' r (S i)
      else Some i
  end.

Definition gcheck_history_plain (h : ghistory) : option nat :=
  if inv_b (gh_env h) (gh_init h)
  then gfirst_mismatch_plain (gh_env h) (gh_init h) (project (gh_env h) (gh_init h)) (gh_steps h) 0
  else Some 0%nat.

Fixpoint gmismatches_plain_from (i : nat) (hs : list ghistory) : list (nat * nat) :=
  match hs with
  | [] => []
  | h :: r =>
      match gcheck_history_plain h with
      | None => gmismatches_plain_from (S i) r
      | Some k => (i, k) :: gmismatches_plain_from (S i) r
      end
  end.
Definition gmismatches_plain := gmismatches_plain_from 0.

Lemma gfirst_mismatch_retab_eq_plain e h : forall s s' sh i, steq e s s' ->
  gfirst_mismatch e s sh h i = gfirst_mismatch_plain e s' sh h i.
Proof.
  induction h as [|[o gb] h IH]; intros s s' sh i Q; cbn [gfirst_mismatch gfirst_mismatch_plain]; [reflexivity|].
  cbv zeta.
  assert (Q1 : steq e (normalize e (match gstep e s o with Ok s1 _ => s1 | _ => s end)) (gstep' e s' o)).
  { eapply steq_trans; [apply normalize_steq|]. apply (gstep'_steq e s s' o Q). }
  assert (Hx : match o, gb with
               | GOp x, ObsStep _ => oracle_ok x
               | GReimport, ObsReimport _ g => export_matches e s g
               | GProbe g, ObsProbe v => list_eqb Z.eqb (probe e s g) v
               | _, _ => false
               end
             = match o, gb with
               | GOp x, ObsStep _ => oracle_ok x
               | GReimport, ObsReimport _ g => export_matches e s' g
               | GProbe g, ObsProbe v => list_eqb Z.eqb (probe e s' g) v
               | _, _ => false
               end).
  { destruct o, gb; try reflexivity.
    - apply export_matches_steq, Q.
    - rewrite (probe_steq e s s' _ Q). reflexivity. }
  rewrite Hx, (orel_class _ _ _ (gstep_steq e s s' o Q)), (project_steq _ _ _ Q1), (inv_b_steq _ _ _ Q1).
  destruct (_ && _ && _ && _)%bool; [|reflexivity].
  apply IH, Q1.
Qed.

Theorem gcheck_history_retab_eq_plain h : gcheck_history h = gcheck_history_plain h.
Proof.
  unfold gcheck_history, gcheck_history_plain. destruct (inv_b _ _); [|reflexivity].
  apply gfirst_mismatch_retab_eq_plain, steq_refl.
Qed.

Lemma gmismatches_from_retab_eq_plain hs : forall i, gmismatches_from i hs = gmismatches_plain_from i hs.
Proof.
  induction hs as [|h hs IH]; intros i; cbn [gmismatches_from gmismatches_plain_from]; [reflexivity|].
  rewrite gcheck_history_retab_eq_plain, !IH. reflexivity.
Qed.

Theorem gmismatches_retab_eq_plain hs : gmismatches hs = gmismatches_plain hs.
Proof. apply gmismatches_from_retab_eq_plain. Qed.

Print Assumptions gmismatches_retab_eq_plain.
