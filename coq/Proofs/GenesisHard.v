(* Round trip of the x/hard genesis state (Model/GenesisHard.v). *)
From Kava Require Import Base.Prelude Base.Dec Model.Hard Proofs.Hard Proofs.HardInv Proofs.HardSync Model.GenesisHard.
Require Import ZifyBool ZifyNat.
Local Open Scope Z_scope.

(** * generic: lists built from a table, set_all *)

Definition opt_list {A B} (f : nat -> option A) (g : nat -> A -> B) (us : list nat) : list B :=
  flat_map (fun u => match f u with Some x => [g u x] | None => [] end) us.

Lemma in_opt_list {A B} (f : nat -> option A) (g : nat -> A -> B) us y :
  In y (opt_list f g us) <-> exists u x, In u us /\ f u = Some x /\ y = g u x.
Proof.
  unfold opt_list. rewrite in_flat_map. split.
  - intros [u [Hu Hy]]. destruct (f u) as [x|] eqn:E; [|contradiction]. destruct Hy as [<-|[]]. exists u, x. auto.
  - intros [u [x [Hu [E ->]]]]. exists u. split; [exact Hu|]. rewrite E. left; reflexivity.
Qed.

Lemma NoDup_app_intro {A} (l1 l2 : list A) :
  NoDup l1 -> NoDup l2 -> (forall x, In x l1 -> ~ In x l2) -> NoDup (l1 ++ l2).
Proof.
  induction l1 as [|a r IH]; intros N1 N2 D; [exact N2|]. cbn. inversion N1 as [|? ? Ha Nr]; subst.
  constructor.
  - rewrite in_app_iff. intros [H|H]; [contradiction|]. apply (D a); [left; reflexivity|exact H].
  - apply IH; [exact Nr|exact N2|]. intros x Hx. apply D. right; exact Hx.
Qed.

Lemma nodup_opt_list_keys {A B} (f : nat -> option A) (g : nat -> A -> B) (key : B -> nat) :
  (forall u x, key (g u x) = u) -> forall us, NoDup us -> NoDup (map key (opt_list f g us)).
Proof.
  intros K. induction us as [|u r IH]; intros ND; [constructor|]. inversion ND as [|? ? Hu Nr]; subst.
  unfold opt_list. cbn [flat_map]. fold (opt_list f g r). rewrite map_app. apply NoDup_app_intro; [| apply IH; exact Nr|].
  - destruct (f u); cbn; [constructor; [intros []|constructor]|constructor].
  - intros k Hk Hr. apply in_map_iff in Hr. destruct Hr as [y [<- Hy]]. apply in_opt_list in Hy.
    destruct Hy as [u' [x' [Hu' [_ ->]]]]. rewrite K in Hk.
    destruct (f u) as [x|]; cbn in Hk; [|contradiction]. destruct Hk as [Hk|[]]. rewrite K in Hk. subst u'. contradiction.
Qed.

Lemma set_all_notin {A} : forall (l : list (nat * A)) f k, ~ In k (map fst l) -> set_all f l k = f k.
Proof.
  induction l as [|[k0 v0] r IH]; intros f k H; [reflexivity|]. unfold set_all. cbn [fold_left fst snd].
  fold (set_all (upd f k0 (Some v0)) r). rewrite IH by (intros X; apply H; right; exact X).
  unfold upd. destruct (Nat.eqb_spec k k0); [subst; exfalso; apply H; left; reflexivity|reflexivity].
Qed.

Lemma set_all_in {A} : forall (l : list (nat * A)) f k v, NoDup (map fst l) -> In (k, v) l -> set_all f l k = Some v.
Proof.
  induction l as [|[k0 v0] r IH]; intros f k v ND Hin; [contradiction|]. cbn [map fst] in ND. inversion ND as [|? ? Hn Nr]; subst.
  unfold set_all. cbn [fold_left fst snd]. fold (set_all (upd f k0 (Some v0)) r).
  destruct Hin as [E|Hin].
  - injection E as -> ->. rewrite set_all_notin by exact Hn. unfold upd. rewrite Nat.eqb_refl. reflexivity.
  - apply IH; assumption.
Qed.

(* the table read back from the list built from it *)
Lemma set_all_opt_list {A B C} (f : nat -> option A) (g : nat -> A -> B) (kv : B -> nat * C) n u :
  (forall u x, fst (kv (g u x)) = u) ->
  set_all (fun _ => None) (map kv (opt_list f g (seq 0 n))) u =
    if Nat.ltb u n then option_map (fun x => snd (kv (g u x))) (f u) else None.
Proof.
  intros K.
  assert (ND : NoDup (map fst (map kv (opt_list f g (seq 0 n))))).
  { rewrite map_map. apply (nodup_opt_list_keys f g (fun y => fst (kv y)) K). apply seq_NoDup. }
  destruct (Nat.ltb_spec u n) as [Hu|Hu].
  - destruct (f u) as [x|] eqn:E; cbn [option_map].
    + apply set_all_in; [exact ND|]. apply in_map_iff. exists (g u x). split.
      * rewrite (surjective_pairing (kv (g u x))), K. reflexivity.
      * apply in_opt_list. exists u, x. split; [apply in_seq; lia|auto].
    + rewrite set_all_notin; [reflexivity|]. rewrite map_map. intros H. apply in_map_iff in H. destruct H as [y [Ey Hy]].
      apply in_opt_list in Hy. destruct Hy as [u' [x' [_ [E' ->]]]]. rewrite K in Ey. subst u'. congruence.
  - rewrite set_all_notin; [reflexivity|]. rewrite map_map. intros H. apply in_map_iff in H. destruct H as [y [Ey Hy]].
    apply in_opt_list in Hy. destruct Hy as [u' [x' [Hu' [_ ->]]]]. rewrite K in Ey. subst u'. apply in_seq in Hu'. lia.
Qed.

(** * coins <-> coin lists *)

Lemma clist_valid_from_seq (c : coins) (nz : nat -> bool) : (forall d, nz d = true -> 0 < c d) ->
  forall k a lo, (match lo with Some p => (p < a)%nat | None => True end) ->
  clist_valid_from lo (map (fun d => (d, c d)) (filter nz (seq a k))) = true.
Proof.
  intros P. induction k as [|k IH]; intros a lo Hlo; [reflexivity|]. cbn [seq filter].
  destruct (nz a) eqn:N.
  - cbn [map clist_valid_from]. rewrite IH by lia. specialize (P a N).
    assert (E : (0 <? c a) = true) by lia. rewrite E. destruct lo as [p|]; [|reflexivity].
    assert (E2 : Nat.ltb p a = true) by (apply Nat.ltb_lt; exact Hlo). rewrite E2. reflexivity.
  - apply IH. destruct lo; [lia|exact I].
Qed.

Lemma clist_valid_to_clist n (c : coins) : (forall d, 0 <= c d) -> clist_valid (to_clist n c) = true.
Proof.
  intros H. unfold clist_valid, to_clist, denoms. apply clist_valid_from_seq; [|exact I].
  intros d Hd. specialize (H d). destruct (Z.eqb_spec (c d) 0); [discriminate|lia].
Qed.

Lemma of_list_notin : forall l d, ~ In d (map fst l) -> of_list l d = 0.
Proof.
  induction l as [|[k v] r IH]; intros d H; [reflexivity|]. cbn [of_list].
  destruct (Nat.eqb_spec d k); [subst; exfalso; apply H; left; reflexivity|]. apply IH. intros X. apply H. right; exact X.
Qed.

Lemma of_list_in : forall l d v, NoDup (map fst l) -> In (d, v) l -> of_list l d = v.
Proof.
  induction l as [|[k w] r IH]; intros d v ND Hin; [contradiction|]. cbn [map fst] in ND. inversion ND as [|? ? Hn Nr]; subst.
  cbn [of_list]. destruct Hin as [E|Hin].
  - injection E as -> ->. rewrite Nat.eqb_refl. reflexivity.
  - destruct (Nat.eqb_spec d k) as [->|]; [|apply IH; assumption].
    exfalso. apply Hn. apply in_map_iff. exists (k, v). split; [reflexivity|exact Hin].
Qed.

Lemma of_list_to_clist n (c : coins) d : of_list (to_clist n c) d = if Nat.ltb d n then c d else 0.
Proof.
  assert (ND : NoDup (map fst (to_clist n c))).
  { unfold to_clist. rewrite map_map. cbn [fst]. rewrite map_id. apply denoms_nodup. }
  destruct (Nat.ltb_spec d n) as [Hd|Hd].
  - destruct (Z.eq_dec (c d) 0) as [Z0|NZ].
    + rewrite Z0. apply of_list_notin. unfold to_clist. rewrite map_map. cbn [fst]. rewrite map_id.
      intros H. apply denoms_lt in H. lia.
    + apply of_list_in; [exact ND|]. unfold to_clist. apply in_map_iff. exists d. split; [reflexivity|apply denoms_in; assumption].
  - apply of_list_notin. unfold to_clist. rewrite map_map. cbn [fst]. rewrite map_id. intros H. apply denoms_lt in H. lia.
Qed.

(** * ExportGenesis *)

Definition syn (ld : loader) (n : nat) (gf : nat -> option Z) (r : urec) : urec :=
  match synced_rec ld n gf r with Ok r' _ => r' | _ => r end.

Definition exp_step (ld : loader) (n : nat) (gf : nat -> option Z) (tbl : nat -> option urec) (acc : res (list grec)) (u : nat) : res (list grec) :=
  l <- acc ;;
  match tbl u with
  | None => ret l
  | Some r =>
      _ <- panic_unless (hook_ok n (Some r)) ;;
      r' <- synced_rec ld n gf r ;;
      ret (l ++ [grec_of n u r'])
  end.

Lemma export_recs_fold ld n gf tbl us : export_recs ld n gf tbl us = fold_left (exp_step ld n gf tbl) us (ret []).
Proof. reflexivity. Qed.

Definition recs_list (ld : loader) (n : nat) (gf : nat -> option Z) (tbl : nat -> option urec) (us : list nat) : list grec :=
  opt_list tbl (fun u r => grec_of n u (syn ld n gf r)) us.

Lemma export_recs_ok ld n gf tbl : forall us l0,
  (forall u r, In u us -> tbl u = Some r -> hook_ok n (Some r) = true /\ exists r', synced_rec ld n gf r = Ok r' tt) ->
  fold_left (exp_step ld n gf tbl) us (ret l0) = Ok (l0 ++ recs_list ld n gf tbl us) tt.
Proof.
  induction us as [|u r IH]; intros l0 H; cbn [fold_left].
  - unfold recs_list, opt_list. cbn. rewrite app_nil_r. reflexivity.
  - assert (E : exp_step ld n gf tbl (ret l0) u = ret (l0 ++ recs_list ld n gf tbl [u])).
    { unfold exp_step, recs_list, opt_list. cbn [bind ret flat_map]. destruct (tbl u) as [x|] eqn:T.
      - destruct (H u x (or_introl eq_refl) T) as [Hk [x' Hx]]. rewrite Hk. cbn [panic_unless bind ret].
        unfold syn. rewrite Hx. cbn [bind ret]. rewrite app_nil_r. reflexivity.
      - cbn. rewrite app_nil_r. reflexivity. }
    rewrite E, IH by (intros u' r' Hin; apply H; right; exact Hin).
    f_equal. unfold recs_list, opt_list. cbn [flat_map]. rewrite app_nil_r, <- app_assoc. reflexivity.
Qed.

Lemma hook_ok_sound n gf r : rec_sound n gf r -> hook_ok n (Some r) = true.
Proof.
  intros (_ & B & C). unfold hook_ok. apply forallb_forall. intros d Hd. apply denoms_lt in Hd. destruct Hd as [Hd Hnz].
  specialize (B d Hd Hnz). destruct (idx_get d (idx r)) as [f|] eqn:E; [|congruence].
  apply idx_get_in in E. destruct (C d f E) as [Hf _]. apply Z.leb_le. exact Hf.
Qed.

Definition bounded (gf : nat -> option Z) : Prop := forall d F, gf d = Some F -> F <= PREC * PREC.

(* the loaders succeed on sound records: the borrow side for factors up to 10^18
   (load_synced_ok), the deposit side always (load_synced_sup_ok) *)
Definition loads (ld : loader) (n : nat) (gf : nat -> option Z) : Prop :=
  forall r, rec_sound n gf r -> exists c, ld n gf r = Ok c tt /\ forall d, amt r d <= c d.

Lemma loads_borrow n gf : fac_ge1 gf -> bounded gf -> loads load_synced n gf.
Proof. intros G B r R. apply load_synced_ok; assumption. Qed.
Lemma loads_deposit n gf : loads load_synced_sup n gf.
Proof. intros r R. apply load_synced_sup_ok; assumption. Qed.

Lemma synced_rec_ok ld n gf r : loads ld n gf -> rec_sound n gf r ->
  exists c, ld n gf r = Ok c tt /\ (forall d, amt r d <= c d) /\
    synced_rec ld n gf r = Ok (mkU c (map (fun d => (d, fac0 gf d)) (denoms n (amt r)))) tt.
Proof.
  intros Ld R. destruct (Ld r R) as [c [E L]]. exists c. split; [exact E|]. split; [exact L|].
  unfold synced_rec. rewrite E. reflexivity.
Qed.

Definition gat_step (s : state) (acc : res (list ggat)) (d : nat) : res (list ggat) :=
  l <- acc ;;
  match params s d with
  | None => ret l
  | Some _ =>
      match prev s d with
      | None => Panic
      | Some t =>
          ret (l ++ [mkGat d t (match sfac s d with Some f => f | None => PREC end)
                               (match bfac s d with Some f => f | None => PREC end)])
      end
  end.

Definition gat_of (s : state) (d : nat) (_ : market) : ggat :=
  mkGat d (match prev s d with Some t => t | None => 0 end)
        (match sfac s d with Some f => f | None => PREC end) (match bfac s d with Some f => f | None => PREC end).

Lemma export_gats_ok s : forall ds l0,
  (forall d m, In d ds -> params s d = Some m -> prev s d <> None) ->
  fold_left (gat_step s) ds (ret l0) = Ok (l0 ++ opt_list (params s) (gat_of s) ds) tt.
Proof.
  induction ds as [|d r IH]; intros l0 H; cbn [fold_left].
  - unfold opt_list. cbn. rewrite app_nil_r. reflexivity.
  - assert (E : gat_step s (ret l0) d = ret (l0 ++ opt_list (params s) (gat_of s) [d])).
    { unfold gat_step, opt_list, gat_of. cbn [bind ret flat_map]. destruct (params s d) as [m|] eqn:P.
      - specialize (H d m (or_introl eq_refl) P). destruct (prev s d); [|congruence]. cbn [app]. reflexivity.
      - cbn. rewrite app_nil_r. reflexivity. }
    rewrite E, IH by (intros d' m' Hin; apply H; right; exact Hin).
    f_equal. unfold opt_list. cbn [flat_map]. rewrite app_nil_r, <- app_assoc. reflexivity.
Qed.

(* what must hold for the export to go through and validate *)
Record Ready (e : env) (s : state) : Prop := mkReady {
  rd_inv : HInv e s;
  rd_sb : bounded (sfac s);
  rd_bb : bounded (bfac s);
  rd_prev : forall d m, (d < nd e)%nat -> params s d = Some m -> prev s d <> None;   (* every money market of the params has accrued once *)
  rd_mk : forall d m, (d < nd e)%nat -> params s d = Some m -> market_valid m = true;
  rd_minb : 0 <= min_borrow e
}.

Definition the_genesis (e : env) (s : state) : genesis :=
  mkGen (min_borrow e) (export_mms e s) (opt_list (params s) (gat_of s) (seq 0 (nd e)))
        (recs_list load_synced_sup (nd e) (sfac s) (dep s) (seq 0 (nu e))) (recs_list load_synced (nd e) (bfac s) (bor s) (seq 0 (nu e)))
        (to_clist (nd e) (tsup s)) (to_clist (nd e) (tbor s)) (to_clist (nd e) (tres s)).

Lemma export_ok e s : Ready e s -> export_genesis e s = Ok (the_genesis e s) tt.
Proof.
  intros R. pose proof (rd_inv _ _ R) as I. unfold export_genesis. rewrite !export_recs_fold.
  rewrite (export_recs_ok load_synced_sup (nd e) (sfac s) (dep s) (seq 0 (nu e)) []).
  2:{ intros u r _ E. pose proof (hi_dep _ _ I u r E) as S. split; [eapply hook_ok_sound; exact S|].
      destruct (synced_rec_ok _ _ _ _ (loads_deposit _ _) S) as [c [_ [_ X]]]. eexists; exact X. }
  cbn [bind app].
  rewrite (export_recs_ok load_synced (nd e) (bfac s) (bor s) (seq 0 (nu e)) []).
  2:{ intros u r _ E. pose proof (hi_bor _ _ I u r E) as S. split; [eapply hook_ok_sound; exact S|].
      destruct (synced_rec_ok _ _ _ _ (loads_borrow _ _ (hi_bfac _ _ I) (rd_bb _ _ R)) S) as [c [_ [_ X]]]. eexists; exact X. }
  cbn [bind app].
  change (export_gats e s) with (fold_left (gat_step s) (seq 0 (nd e)) (ret [])).
  rewrite (export_gats_ok s (seq 0 (nd e)) []).
  2:{ intros d m Hd. apply in_seq in Hd. apply (rd_prev _ _ R); lia. }
  reflexivity.
Qed.

(** * Validation of the export passes *)

Lemma nodup_users_spec : forall l seen,
  NoDup (map gr_user l) -> (forall u, In u (map gr_user l) -> ~ In u seen) -> nodup_users seen l = true.
Proof.
  induction l as [|r rest IH]; intros seen ND Hd; [reflexivity|]. cbn [nodup_users]. cbn [map] in ND, Hd.
  inversion ND as [|? ? Hn ND']; subst.
  assert (E : existsb (Nat.eqb (gr_user r)) seen = false).
  { destruct (existsb _ seen) eqn:X; [|reflexivity]. apply existsb_exists in X. destruct X as [y [Hy Ey]].
    apply Nat.eqb_eq in Ey. subst y. exfalso. apply (Hd (gr_user r)); [left; reflexivity|exact Hy]. }
  rewrite E. cbn [negb andb]. apply IH; [exact ND'|].
  intros u Hu [<-|Hs]; [contradiction|]. apply (Hd u); [right; exact Hu|exact Hs].
Qed.

Lemma fac0_nonneg gf d : fac_ge1 gf -> 0 <= fac0 gf d.
Proof. intros G. unfold fac0. destruct (gf d) as [f|] eqn:E; [|lia]. specialize (G d f E). unfold PREC in G. lia. Qed.

Lemma syn_shape ld n gf r : loads ld n gf -> rec_sound n gf r ->
  exists c, ld n gf r = Ok c tt /\ (forall d, amt r d <= c d) /\
    syn ld n gf r = mkU c (map (fun d => (d, fac0 gf d)) (denoms n (amt r))).
Proof.
  intros Ld R. destruct (synced_rec_ok ld n gf r Ld R) as [c [E [L X]]]. exists c. split; [exact E|]. split; [exact L|].
  unfold syn. rewrite X. reflexivity.
Qed.

Lemma recs_list_valid ld n gf tbl us : fac_ge1 gf -> loads ld n gf -> recs_sound n gf tbl -> NoDup us ->
  forallb grec_valid (recs_list ld n gf tbl us) = true /\ nodup_users [] (recs_list ld n gf tbl us) = true.
Proof.
  intros G B S ND. split.
  - apply forallb_forall. intros y Hy. apply in_opt_list in Hy. destruct Hy as [u [r [_ [E ->]]]].
    destruct (syn_shape ld n gf r B (S u r E)) as [c [_ [L ->]]]. unfold grec_valid, grec_of. cbn [gr_amt gr_idx amt idx].
    apply andb_true_iff. split.
    + apply clist_valid_to_clist. intros d. destruct (S u r E) as [A _]. specialize (A d). specialize (L d). lia.
    + apply forallb_forall. intros p Hp. apply in_map_iff in Hp. destruct Hp as [d [<- _]]. cbn [snd]. apply Z.leb_le. apply fac0_nonneg. exact G.
  - apply nodup_users_spec; [|intros u _ []]. unfold recs_list. apply nodup_opt_list_keys; [intros; reflexivity|exact ND].
Qed.

Lemma export_validates e s : Ready e s -> validate_genesis (the_genesis e s) = true.
Proof.
  intros R. pose proof (rd_inv _ _ R) as I. unfold validate_genesis, the_genesis.
  cbn [g_minb g_mms g_gats g_deps g_bors g_tsup g_tbor g_tres].
  destruct (recs_list_valid load_synced_sup (nd e) (sfac s) (dep s) (seq 0 (nu e)) (hi_sfac _ _ I) (loads_deposit _ _) (hi_dep _ _ I) (seq_NoDup _ _)) as [D1 D2].
  destruct (recs_list_valid load_synced (nd e) (bfac s) (bor s) (seq 0 (nu e)) (hi_bfac _ _ I) (loads_borrow _ _ (hi_bfac _ _ I) (rd_bb _ _ R)) (hi_bor _ _ I) (seq_NoDup _ _)) as [B1 B2].
  rewrite D1, D2, B1, B2.
  rewrite !clist_valid_to_clist by (apply I).
  assert (M : forallb (fun p => market_valid (snd p)) (export_mms e s) = true).
  { apply forallb_forall. intros [d m] Hin. change (export_mms e s) with (opt_list (params s) (fun d m => (d, m)) (seq 0 (nd e))) in Hin.
    apply in_opt_list in Hin. destruct Hin as [d' [m' [Hd [P E]]]]. injection E as -> ->. apply in_seq in Hd.
    cbn [snd]. apply (rd_mk _ _ R d' m'); [lia|exact P]. }
  assert (Gt : forallb gat_valid (opt_list (params s) (gat_of s) (seq 0 (nd e))) = true).
  { apply forallb_forall. intros g Hin. apply in_opt_list in Hin. destruct Hin as [d [m [_ [_ ->]]]].
    unfold gat_valid, gat_of. cbn [ga_sf ga_bf]. apply andb_true_iff. split; apply Z.leb_le.
    - destruct (sfac s d) as [f|] eqn:E; [apply (hi_sfac _ _ I d f E)|lia].
    - destruct (bfac s d) as [f|] eqn:E; [apply (hi_bfac _ _ I d f E)|lia]. }
  rewrite M, Gt. pose proof (rd_minb _ _ R). assert (E0 : (0 <=? min_borrow e) = true) by lia. rewrite E0. reflexivity.
Qed.

(** * InitGenesis of the export *)

Definition dflt (o : option Z) : Z := match o with Some f => f | None => PREC end.

(* the imported state, component by component *)
Record Imported (e : env) (s s' : state) : Prop := mkImported {
  im_bal : bal s' = bal s;
  im_price : price s' = price s;
  im_params : forall d, params s' d = if Nat.ltb d (nd e) then params s d else None;
  im_mkts : forall d, mkts s' d = if Nat.ltb d (nd e) then params s d else None;
  im_sfac : forall d, sfac s' d = if Nat.ltb d (nd e) then option_map (fun _ => dflt (sfac s d)) (params s d) else None;
  im_bfac : forall d, bfac s' d = if Nat.ltb d (nd e) then option_map (fun _ => dflt (bfac s d)) (params s d) else None;
  im_prev : forall d, prev s' d = if Nat.ltb d (nd e) then match params s d with Some _ => prev s d | None => None end else None;
  im_dep : forall u, dep s' u = if Nat.ltb u (nu e)
             then option_map (fun r => mkU (of_list (to_clist (nd e) (amt (syn load_synced_sup (nd e) (sfac s) r)))) (idx (syn load_synced_sup (nd e) (sfac s) r))) (dep s u)
             else None;
  im_bor : forall u, bor s' u = if Nat.ltb u (nu e)
             then option_map (fun r => mkU (of_list (to_clist (nd e) (amt (syn load_synced (nd e) (bfac s) r)))) (idx (syn load_synced (nd e) (bfac s) r))) (bor s u)
             else None;
  im_tsup : forall d, tsup s' d = if Nat.ltb d (nd e) then tsup s d else 0;
  im_tbor : forall d, tbor s' d = if Nat.ltb d (nd e) then tbor s d else 0;
  im_tres : forall d, tres s' d = if Nat.ltb d (nd e) then tres s d else 0
}.

Lemma set_all_opt_list_id {A C} (f : nat -> option A) (g : nat -> A -> nat * C) n u :
  (forall u x, fst (g u x) = u) ->
  set_all (fun _ => None) (opt_list f g (seq 0 n)) u =
    if Nat.ltb u n then option_map (fun x => snd (g u x)) (f u) else None.
Proof.
  intros K. rewrite <- (map_id (opt_list f g (seq 0 n))). apply (set_all_opt_list f g (fun x => x) n u K).
Qed.

Theorem roundtrip e s : Ready e s ->
  export_genesis e s = Ok (the_genesis e s) tt /\
  validate_genesis (the_genesis e s) = true /\
  exists s', init_genesis e s (the_genesis e s) = Ok s' tt /\ reimport e s = Ok s' tt /\ Imported e s s'.
Proof.
  intros R. pose proof (export_ok e s R) as X. pose proof (export_validates e s R) as V.
  split; [exact X|]. split; [exact V|].
  unfold reimport. rewrite X. cbn [bind]. unfold init_genesis. rewrite V. cbn [panic_unless bind ret].
  eexists. split; [reflexivity|]. split; [reflexivity|].
  constructor; cbn [bal price params mkts sfac bfac prev dep bor tsup tbor tres the_genesis
                    g_minb g_mms g_gats g_deps g_bors g_tsup g_tbor g_tres]; try reflexivity.
  - intros d. change (export_mms e s) with (opt_list (params s) (fun d m => (d, m)) (seq 0 (nd e))).
    rewrite set_all_opt_list_id by reflexivity. destruct (Nat.ltb d (nd e)); [|reflexivity]. destruct (params s d); reflexivity.
  - intros d. change (export_mms e s) with (opt_list (params s) (fun d m => (d, m)) (seq 0 (nd e))).
    rewrite set_all_opt_list_id by reflexivity. destruct (Nat.ltb d (nd e)); [|reflexivity]. destruct (params s d); reflexivity.
  - intros d. rewrite (set_all_opt_list (params s) (gat_of s) (fun a => (ga_denom a, ga_sf a))) by reflexivity.
    destruct (Nat.ltb d (nd e)); [|reflexivity]. destruct (params s d); reflexivity.
  - intros d. rewrite (set_all_opt_list (params s) (gat_of s) (fun a => (ga_denom a, ga_bf a))) by reflexivity.
    destruct (Nat.ltb d (nd e)); [|reflexivity]. destruct (params s d); reflexivity.
  - intros d. rewrite (set_all_opt_list (params s) (gat_of s) (fun a => (ga_denom a, ga_prev a))) by reflexivity.
    destruct (Nat.ltb_spec d (nd e)) as [Hd|]; [|reflexivity]. destruct (params s d) as [m|] eqn:P; [|reflexivity].
    cbn [option_map snd gat_of ga_prev]. pose proof (rd_prev _ _ R d m Hd P). destruct (prev s d); [reflexivity|congruence].
  - intros u. unfold recs_list. rewrite (set_all_opt_list (dep s) _ (fun r => (gr_user r, urec_of r))) by reflexivity.
    destruct (Nat.ltb u (nu e)); [|reflexivity]. destruct (dep s u); reflexivity.
  - intros u. unfold recs_list. rewrite (set_all_opt_list (bor s) _ (fun r => (gr_user r, urec_of r))) by reflexivity.
    destruct (Nat.ltb u (nu e)); [|reflexivity]. destruct (bor s u); reflexivity.
  - intros d. apply of_list_to_clist.
  - intros d. apply of_list_to_clist.
  - intros d. apply of_list_to_clist.
Qed.

(** * What the import preserves: the value of every position *)

Lemma quot_small_abs x : - PREC < x < PREC -> Z.quot x PREC = 0.
Proof.
  intros H. destruct (Z_lt_le_dec x 0).
  - rewrite <- (Z.opp_involutive x), Z.quot_opp_l by (unfold PREC; lia). rewrite Z.quot_small by lia. lia.
  - apply Z.quot_small. lia.
Qed.

Lemma bor_interest_self a f : 0 <= a -> PREC <= f -> f <= PREC * PREC -> bor_interest a f f = 0.
Proof.
  intros Ha Hf Hb. unfold bor_interest, dec_trunc_int. apply quot_small_abs.
  assert (H5 : 5 <= PREC) by (unfold PREC; lia).
  assert (Ha' : 0 <= dec_of_int a) by (unfold dec_of_int; nia).
  pose proof (dec_quo_bounds (dec_of_int a) f Ha' ltac:(lia)) as Hq. cbn zeta in Hq.
  pose proof (dec_mul_bounds (dec_quo (dec_of_int a) f) f) as Hm.
  pose proof (dec_quo_nonneg (dec_of_int a) f Ha' ltac:(lia)) as Hq0.
  set (q := dec_quo (dec_of_int a) f) in *. set (m := dec_mul q f) in *.
  unfold dec_of_int in *.
  pose proof (Z.div_mod (a * PREC * PREC * PREC) f ltac:(lia)) as Hdm.
  pose proof (Z.mod_pos_bound (a * PREC * PREC * PREC) f ltac:(lia)) as Hmb.
  assert (Ht0 : 0 <= a * PREC * PREC * PREC / f) by (apply Z.div_pos; nia).
  set (t := a * PREC * PREC * PREC / f) in *.
  set (rm := (a * PREC * PREC * PREC) mod f) in *.
  clearbody q m t rm. generalize dependent PREC. intros P Hf Hb H5 Ha' Hq Hm Hdm.
  (* 2qP in [2t-P, 2t+P]; tf in (aP^3 - f, aP^3]; 2mP in [2qf - P, 2qf + P] *)
  assert (A1 : 2 * q * P * f >= 2 * t * f - P * f) by nia.
  assert (A2 : 2 * q * P * f <= 2 * t * f + P * f) by nia.
  assert (A3 : 2 * (m * P) * P >= 2 * q * f * P - P * P) by nia.
  assert (A4 : 2 * (m * P) * P <= 2 * q * f * P + P * P) by nia.
  assert (A5 : 2 * f + P * f + P * P < 2 * P * P * P) by nia.
  split; nia.
Qed.

(* an interest formula under which a position whose index equals the global factor accrues nothing *)
Definition intf_self (intf : Z -> Z -> Z -> Z) : Prop :=
  forall a f, 0 <= a -> PREC <= f -> f <= PREC * PREC -> intf a f f = 0.

(* the deposit side (Proofs/HardSync.v sup_interest_self: exact, for every positive factor) and the
   borrow side (bor_interest_self above: factors up to 10^18) *)
Lemma sup_self : intf_self sup_interest.
Proof. intros a f Ha Hf _. apply sup_interest_self; [exact Ha|pose proof PREC_pos; lia]. Qed.
Lemma bor_self : intf_self bor_interest.
Proof. exact bor_interest_self. Qed.

Lemma load_fold_support intf gf r : forall l (tot0 tot : coins),
  fold_left (load_coin_f intf gf r) l (ret tot0) = Ok tot tt -> forall x, ~ In x l -> tot x = tot0 x.
Proof.
  induction l as [|d l IH]; intros tot0 tot H x Hx; cbn [fold_left] in H.
  - apply ret_ok in H. subst. reflexivity.
  - destruct (load_coin_f intf gf r (ret tot0) d) as [t1 []| |] eqn:G.
    2,3: exfalso; eapply (fold_not_ok _ _ l _ (load_coin_f_bind intf gf r)); [|exact H]; discriminate.
    rewrite (IH t1 tot H x) by (intros X; apply Hx; right; exact X).
    unfold load_coin_f in G. cbn [bind ret] in G. destruct (gf d); [|apply ret_ok in G; subst; reflexivity].
    destruct (idx_get d (idx r)); [|apply ret_ok in G; subst; reflexivity].
    destruct (_ =? 0); [discriminate|]. destruct (_ <? 0); [discriminate|]. apply ret_ok in G. subst t1.
    unfold upd. destruct (Nat.eqb_spec x d); [subst; exfalso; apply Hx; left; reflexivity|reflexivity].
Qed.

(* interest is only ever added to coins the position holds *)
Lemma load_synced_support intf n gf r c : load_synced_f intf n gf r = Ok c tt -> forall d, amt r d = 0 -> c d = 0.
Proof.
  unfold load_synced_f. intros H d Hd. inv_bind H as tot E. apply ret_ok in H. subst c.
  unfold cadd. rewrite (load_fold_support intf gf r _ _ _ E d); [unfold czero; lia|].
  intros X. apply denoms_lt in X. lia.
Qed.

Lemma idx_get_map (f : nat -> Z) : forall l d, In d l -> idx_get d (map (fun d => (d, f d)) l) = Some (f d).
Proof.
  induction l as [|x r IH]; [intros d []|]. intros d [->|H]; cbn [map idx_get].
  - rewrite Nat.eqb_refl. reflexivity.
  - destruct (Nat.eqb_spec x d) as [->|]; [reflexivity|apply IH; exact H].
Qed.

Lemma load_fold_settled intf gf r : intf_self intf -> forall l (tot0 : coins),
  (forall d, In d l -> exists F, gf d = Some F /\ idx_get d (idx r) = Some F /\ PREC <= F <= PREC * PREC /\ 0 <= amt r d) ->
  (forall x, tot0 x = 0) ->
  exists tot, fold_left (load_coin_f intf gf r) l (ret tot0) = Ok tot tt /\ forall x, tot x = 0.
Proof.
  intros SF. induction l as [|d l IH]; intros tot0 H Z0; cbn [fold_left].
  - exists tot0. split; [reflexivity|exact Z0].
  - destruct (H d (or_introl eq_refl)) as [F [G [Ix [[B1 B2] A]]]].
    assert (E : load_coin_f intf gf r (ret tot0) d = ret (upd tot0 d 0)).
    { unfold load_coin_f. cbn [bind ret]. rewrite G, Ix. pose proof PREC_pos. destruct (Z.eqb_spec F 0); [lia|].
      rewrite (SF (amt r d) F A B1 B2). reflexivity. }
    rewrite E. apply IH; [intros d' Hd'; apply H; right; exact Hd'|].
    intros x. unfold upd. destruct (Nat.eqb x d); [reflexivity|apply Z0].
Qed.

(* the record the export writes for a position, read back under global factors that agree
   with the exported ones on the position's coins: it reports exactly the exported amounts *)
Lemma settled_rec_value intf n gf gf' r c : intf_self intf -> fac_ge1 gf -> bounded gf -> rec_sound n gf r ->
  load_synced_f intf n gf r = Ok c tt -> (forall d, amt r d <= c d) ->
  (forall d, (d < n)%nat -> amt r d <> 0 -> gf' d = gf d) ->
  exists c', load_synced_f intf n gf' (mkU (of_list (to_clist n c)) (map (fun d => (d, fac0 gf d)) (denoms n (amt r)))) = Ok c' tt /\
             forall d, (d < n)%nat -> c' d = c d.
Proof.
  intros SF G B R L Lc Hg. set (r' := mkU _ _). pose proof R as (Ra & Rb & Rc).
  assert (S : forall d, In d (denoms n (amt r')) ->
    exists F, gf' d = Some F /\ idx_get d (idx r') = Some F /\ PREC <= F <= PREC * PREC /\ 0 <= amt r' d).
  { intros d Hd. apply denoms_lt in Hd. destruct Hd as [Hd Hnz]. cbn [amt r'] in Hnz. rewrite of_list_to_clist in Hnz.
    destruct (Nat.ltb_spec d n); [|lia].
    assert (Hr : amt r d <> 0) by (intros Z0; apply Hnz; eapply load_synced_support; eauto).
    specialize (Rb d Hd Hr). destruct (idx_get d (idx r)) as [uf|] eqn:Ei; [|congruence].
    apply idx_get_in in Ei. destruct (Rc d uf Ei) as (_ & F & HF & _).
    exists F. rewrite (Hg d Hd Hr). split; [exact HF|]. split.
    - cbn [idx r']. rewrite (idx_get_map (fac0 gf)) by (apply denoms_in; assumption). unfold fac0. rewrite HF. reflexivity.
    - split; [split; [apply (G d F HF)|apply (B d F HF)]|]. cbn [amt r']. rewrite of_list_to_clist.
      destruct (Nat.ltb_spec d n); [|lia]. specialize (Ra d). specialize (Lc d). lia. }
  destruct (load_fold_settled intf gf' r' SF (denoms n (amt r')) czero S (fun _ => eq_refl)) as [tot [E Z0]].
  exists (cadd (amt r') tot). split.
  - unfold load_synced_f. rewrite E. reflexivity.
  - intros d Hd. unfold cadd. rewrite Z0. cbn [amt r']. rewrite of_list_to_clist. destruct (Nat.ltb_spec d n); lia.
Qed.

(* every coin of every position belongs to a money market of the params *)
Definition positions_in_params (e : env) (s : state) : Prop :=
  forall u r d, dep s u = Some r \/ bor s u = Some r -> (d < nd e)%nat -> amt r d <> 0 -> params s d <> None.

Lemma imported_factor e (s s' : state) (gf gf' : nat -> option Z) d F :
  (forall d, gf' d = if Nat.ltb d (nd e) then option_map (fun _ => dflt (gf d)) (params s d) else None) ->
  (d < nd e)%nat -> params s d <> None -> gf d = Some F -> gf' d = gf d.
Proof.
  intros H Hd P E. rewrite H. destruct (Nat.ltb_spec d (nd e)); [|lia]. destruct (params s d); [|congruence].
  cbn. rewrite E. reflexivity.
Qed.

(* GetSyncedDeposit / GetSyncedBorrow answer exactly the same on the imported state (the deposit
   side additionally needs the supply factors to be at most 10^18, like the borrow side) *)
Theorem synced_deposit_preserved e s s' u c : Ready e s -> positions_in_params e s -> Imported e s s' -> (u < nu e)%nat ->
  synced_deposit e s u = Some (Ok c tt) ->
  exists c', synced_deposit e s' u = Some (Ok c' tt) /\ forall d, (d < nd e)%nat -> c' d = c d.
Proof.
  intros R PP Im Hu H. pose proof (rd_inv _ _ R) as I. unfold synced_deposit in *. rewrite (im_dep _ _ _ Im).
  destruct (Nat.ltb_spec u (nu e)); [|lia]. destruct (dep s u) as [r|] eqn:D; [|discriminate]. cbn [option_map].
  pose proof (hi_dep _ _ I u r D) as S.
  destruct (syn_shape load_synced_sup (nd e) (sfac s) r (loads_deposit _ _) S) as [c0 [L [Lc ->]]]. cbn [amt idx].
  assert (c0 = c) by congruence. subst c0.
  destruct (settled_rec_value sup_interest (nd e) (sfac s) (sfac s') r c sup_self (hi_sfac _ _ I) (rd_sb _ _ R) S L Lc) as [c' [E Q]].
  - intros d Hd Hnz. destruct S as (_ & Sb & Sc). specialize (Sb d Hd Hnz).
    destruct (idx_get d (idx r)) as [uf|] eqn:Ei; [|congruence]. apply idx_get_in in Ei. destruct (Sc d uf Ei) as (_ & F & HF & _).
    apply (imported_factor e s s' _ _ d F (im_sfac _ _ _ Im) Hd); [|exact HF]. eapply PP; eauto.
  - exists c'. unfold load_synced_sup. rewrite E. split; [reflexivity|exact Q].
Qed.

Theorem synced_borrow_preserved e s s' u c : Ready e s -> positions_in_params e s -> Imported e s s' -> (u < nu e)%nat ->
  synced_borrow e s u = Some (Ok c tt) ->
  exists c', synced_borrow e s' u = Some (Ok c' tt) /\ forall d, (d < nd e)%nat -> c' d = c d.
Proof.
  intros R PP Im Hu H. pose proof (rd_inv _ _ R) as I. unfold synced_borrow in *. rewrite (im_bor _ _ _ Im).
  destruct (Nat.ltb_spec u (nu e)); [|lia]. destruct (bor s u) as [r|] eqn:D; [|discriminate]. cbn [option_map].
  pose proof (hi_bor _ _ I u r D) as S.
  destruct (syn_shape load_synced (nd e) (bfac s) r (loads_borrow _ _ (hi_bfac _ _ I) (rd_bb _ _ R)) S) as [c0 [L [Lc ->]]]. cbn [amt idx].
  assert (c0 = c) by congruence. subst c0. rewrite load_synced_is_f in L |- *.
  destruct (settled_rec_value bor_interest (nd e) (bfac s) (bfac s') r c bor_self (hi_bfac _ _ I) (rd_bb _ _ R) S L Lc) as [c' [E Q]].
  - intros d Hd Hnz. destruct S as (_ & Sb & Sc). specialize (Sb d Hd Hnz).
    destruct (idx_get d (idx r)) as [uf|] eqn:Ei; [|congruence]. apply idx_get_in in Ei. destruct (Sc d uf Ei) as (_ & F & HF & _).
    apply (imported_factor e s s' _ _ d F (im_bfac _ _ _ Im) Hd); [|exact HF]. eapply PP; eauto.
  - exists c'. rewrite E. split; [reflexivity|exact Q].
Qed.

(** * The invariant holds again *)

Lemma imported_recs_sound intf e s (gf gf' : nat -> option Z) (tbl tbl' : nat -> option urec) :
  fac_ge1 gf -> loads (load_synced_f intf) (nd e) gf -> recs_sound (nd e) gf tbl ->
  (forall d, gf' d = if Nat.ltb d (nd e) then option_map (fun _ => dflt (gf d)) (params s d) else None) ->
  (forall u, tbl' u = if Nat.ltb u (nu e)
     then option_map (fun r => mkU (of_list (to_clist (nd e) (amt (syn (load_synced_f intf) (nd e) gf r)))) (idx (syn (load_synced_f intf) (nd e) gf r))) (tbl u) else None) ->
  (forall u r d, tbl u = Some r -> (d < nd e)%nat -> amt r d <> 0 -> params s d <> None) ->
  recs_sound (nd e) gf' tbl'.
Proof.
  intros G B S Hg Ht PP u r' E. rewrite Ht in E. destruct (Nat.ltb u (nu e)); [|discriminate].
  destruct (tbl u) as [r|] eqn:T; [|discriminate]. cbn [option_map] in E. injection E as <-.
  pose proof (S u r T) as R. pose proof R as (Ra & Rb & Rc).
  destruct (syn_shape (load_synced_f intf) (nd e) gf r B R) as [c [L [Lc ->]]]. cbn [amt idx].
  split; [|split].
  - intros d. cbn [amt]. rewrite of_list_to_clist. destruct (Nat.ltb d (nd e)); [|lia]. specialize (Ra d). specialize (Lc d). lia.
  - intros d Hd Hnz. cbn [amt idx] in *. rewrite of_list_to_clist in Hnz. destruct (Nat.ltb_spec d (nd e)); [|lia].
    assert (Hr : amt r d <> 0) by (intros Z0; apply Hnz; eapply load_synced_support; eauto).
    rewrite (idx_get_map (fac0 gf)) by (apply denoms_in; assumption). discriminate.
  - intros d uf Hin. cbn [idx] in Hin. apply in_map_iff in Hin. destruct Hin as [d' [Eq Hd']]. injection Eq as -> <-.
    apply denoms_lt in Hd'. destruct Hd' as [Hd Hnz]. specialize (Rb d Hd Hnz).
    destruct (idx_get d (idx r)) as [uf|] eqn:Ei; [|congruence]. apply idx_get_in in Ei. destruct (Rc d uf Ei) as (_ & F & HF & _).
    unfold fac0. rewrite HF. split; [apply (G d F HF)|]. exists F. split; [|lia].
    rewrite (imported_factor e s s gf gf' d F Hg Hd (PP u r d T Hd Hnz) HF). exact HF.
Qed.

Theorem imported_inv e s s' : Ready e s -> positions_in_params e s -> Imported e s s' -> HInv e s'.
Proof.
  intros R PP Im. pose proof (rd_inv _ _ R) as I. constructor.
  - intros d f E. rewrite (im_sfac _ _ _ Im) in E. destruct (Nat.ltb d (nd e)); [|discriminate]. destruct (params s d); [|discriminate].
    cbn in E. injection E as <-. unfold dflt. destruct (sfac s d) as [x|] eqn:X; [apply (hi_sfac _ _ I d x X)|lia].
  - intros d f E. rewrite (im_bfac _ _ _ Im) in E. destruct (Nat.ltb d (nd e)); [|discriminate]. destruct (params s d); [|discriminate].
    cbn in E. injection E as <-. unfold dflt. destruct (bfac s d) as [x|] eqn:X; [apply (hi_bfac _ _ I d x X)|lia].
  - apply (imported_recs_sound sup_interest e s (sfac s) (sfac s') (dep s) (dep s') (hi_sfac _ _ I) (loads_deposit _ _) (hi_dep _ _ I) (im_sfac _ _ _ Im) (im_dep _ _ _ Im)).
    intros u r d T. apply (PP u r d). left; exact T.
  - assert (Lb : loads (load_synced_f bor_interest) (nd e) (bfac s)) by (rewrite <- load_synced_is_f; apply loads_borrow; [apply I|apply R]).
    apply (imported_recs_sound bor_interest e s (bfac s) (bfac s') (bor s) (bor s') (hi_bfac _ _ I) Lb (hi_bor _ _ I) (im_bfac _ _ _ Im)).
    + rewrite <- load_synced_is_f. apply (im_bor _ _ _ Im).
    + intros u r d T. apply (PP u r d). right; exact T.
  - intros d. rewrite (im_tsup _ _ _ Im). destruct (Nat.ltb d (nd e)); [apply I|lia].
  - intros d. rewrite (im_tbor _ _ _ Im). destruct (Nat.ltb d (nd e)); [apply I|lia].
  - intros d. rewrite (im_tres _ _ _ Im). destruct (Nat.ltb d (nd e)); [apply I|lia].
Qed.

(** * Where the round trip fails (closed witnesses) *)

Definition wh_env : env := mk_env 1 1 0.
Definition wh_market : market := mkMarket 1 (PREC / 2) false 0 0 0 0 0 0 0.

(* 1. governance adds a money market; the chain is exported before the next begin blocker
      gave it an accrual time: ExportGenesis panics *)
Definition wh_new : state := mk_state [[0]; [0]; [0]] [PREC] [None] [None].
Lemma export_panics_for_new_market :
  reimport wh_env (run wh_env wh_new [SetParams [Some wh_market]]) = Panic.
Proof. vm_compute. reflexivity. Qed.

(* 2. a money market with an open deposit is not in the params at export time: its interest
      factor is not exported.  The first import keeps the deposit (index 2.0) but no global
      factor; a second export/import writes index 0; the third export panics in the incentive
      hook ("interest factor < 1") - as does every later Deposit or Withdraw of that user. *)
Definition wh_removed : state :=
  mkState (fun _ _ => 0) (fun _ => PREC) (fun u => if Nat.eqb u 0 then Some (mkU (fun d => if Nat.eqb d 0 then 100 else 0) [(0%nat, PREC + PREC / 2)]) else None)
          (fun _ => None) (fun d => if Nat.eqb d 0 then Some (2 * PREC) else None) (fun _ => None) (fun d => if Nat.eqb d 0 then Some 5 else None)
          (fun d => if Nat.eqb d 0 then 133 else 0) czero czero (fun _ => None) (fun _ => None).

Lemma removed_market_factor_lost :
  exists s1 s2, reimport wh_env wh_removed = Ok s1 tt /\ sfac wh_removed 0%nat = Some (2 * PREC) /\ sfac s1 0%nat = None /\
    reimport wh_env s1 = Ok s2 tt /\ reimport wh_env s2 = Panic /\
    step wh_env s2 (Withdraw 0 [(0%nat, 1)]) = Panic.
Proof.
  eexists. eexists. split; [vm_compute; reflexivity|]. split; [reflexivity|]. split; [reflexivity|].
  split; [vm_compute; reflexivity|]. split; vm_compute; reflexivity.
Qed.
