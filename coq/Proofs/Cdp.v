(* Lemmas about Model/Cdp.v: frames of the bank / auction helpers, the ratio
   gates, block liquidation, seizure. *)
From Kava Require Import Base.Prelude Base.Dec Model.Cdp Proofs.CdpRatio.
Local Open Scope Z_scope.

(** * Frames: which components a helper can change *)

(* only balances, supplies and the list of started auctions may differ *)
Definition bank_only (s s' : state) : Prop :=
  cdps s' = cdps s /\ deps s' = deps s /\ oidx s' = oidx s /\ ridx s' = ridx s /\
  tprin s' = tprin s /\ ifac s' = ifac s /\ ptime s' = ptime s /\ nextid s' = nextid s /\
  mstat s' = mstat s /\ price s' = price s /\ now s' = now s /\ height s' = height s.

Lemma bank_only_refl s : bank_only s s.
Proof. repeat split. Qed.

Lemma bank_only_trans s1 s2 s3 : bank_only s1 s2 -> bank_only s2 s3 -> bank_only s1 s3.
Proof.
  unfold bank_only. intros (a1&a2&a3&a4&a5&a6&a7&a8&a9&a10&a11&a12) (b1&b2&b3&b4&b5&b6&b7&b8&b9&b10&b11&b12).
  repeat split; congruence.
Qed.

Lemma bank_only_price s s' : bank_only s s' -> price s' = price s.
Proof. intros (_&_&_&_&_&_&_&_&_&P&_). exact P. Qed.
Lemma bank_only_mstat s s' : bank_only s s' -> mstat s' = mstat s.
Proof. intros (_&_&_&_&_&_&_&_&P&_). exact P. Qed.
Lemma bank_only_cdps s s' : bank_only s s' -> cdps s' = cdps s.
Proof. intros (P&_). exact P. Qed.
Lemma bank_only_deps s s' : bank_only s s' -> deps s' = deps s.
Proof. intros (_&P&_). exact P. Qed.
Lemma bank_only_oidx s s' : bank_only s s' -> oidx s' = oidx s.
Proof. intros (_&_&P&_). exact P. Qed.
Lemma bank_only_ridx s s' : bank_only s s' -> ridx s' = ridx s.
Proof. intros (_&_&_&P&_). exact P. Qed.

Lemma b_send_frame s f t d x s' : b_send s f t d x = Some s' -> bank_only s s'.
Proof.
  unfold b_send. destruct (x <=? 0); [intros H; inversion H; apply bank_only_refl|].
  destruct (bal s f d <? x); [discriminate|]. intros H; inversion H; subst. repeat split.
Qed.

Lemma b_mint_frame s m d x : bank_only s (b_mint s m d x).
Proof. unfold b_mint. destruct (x <=? 0); repeat split. Qed.

Lemma b_burn_frame s m d x s' : b_burn s m d x = Some s' -> bank_only s s'.
Proof.
  unfold b_burn. destruct (x <=? 0); [intros H; inversion H; apply bank_only_refl|].
  destruct (bal s m d <? x); [discriminate|]. intros H; inversion H; subst. repeat split.
Qed.

Lemma set_aucs_frame s v : bank_only s (set_aucs s v).
Proof. repeat split. Qed.

Lemma start_coll_auction_frame e s ld lot mb debt ret s' u :
  start_coll_auction e s ld lot mb debt ret = Ok s' u -> bank_only s s'.
Proof.
  unfold start_coll_auction.
  destruct (b_send s (LIQM e) (AUCM e) ld lot) as [s1|] eqn:E1; [|discriminate].
  destruct (b_send s1 (LIQM e) (AUCM e) (d_debt e) debt) as [s2|] eqn:E2; [|discriminate].
  intros H; inversion H; subst.
  eapply bank_only_trans; [eapply b_send_frame; eassumption|].
  eapply bank_only_trans; [eapply b_send_frame; eassumption|]. apply set_aucs_frame.
Qed.

Lemma whole_auctions_frame e cp ret n dpa : forall s un s' un',
  whole_auctions e cp ret n dpa s un = Ok s' un' -> bank_only s s'.
Proof.
  induction n as [|n IH]; intros s un s' un' H; cbn [whole_auctions] in H.
  - inversion H; subst. apply bank_only_refl.
  - destruct (start_coll_auction _ _ _ _ _ _ _) as [s1 []| |] eqn:E; try discriminate.
    eapply bank_only_trans; [eapply start_coll_auction_frame; eassumption|]. eapply IH; eassumption.
Qed.

Lemma auctions_from_deposit_frame e cp s ret coll debt s' u :
  auctions_from_deposit e cp s ret coll debt = Ok s' u -> bank_only s s'.
Proof.
  unfold auctions_from_deposit. destruct (coll =? 0); [discriminate|]. cbv zeta.
  destruct (whole_auctions _ _ _ _ _ _ _) as [s1 un2| |] eqn:E; try discriminate.
  apply whole_auctions_frame in E.
  destruct (_ mod _ <=? 0).
  - intros H; inversion H; subst. exact E.
  - intros H. eapply bank_only_trans; [exact E|]. eapply start_coll_auction_frame; eassumption.
Qed.

Lemma auction_deposits_frame e cp total debt dl : forall s rem s' u,
  auction_deposits e cp total debt s dl rem = Ok s' u -> bank_only s s'.
Proof.
  induction dl as [|d tl IH]; intros s rem s' u H; cbn [auction_deposits] in H.
  - inversion H; subst. apply bank_only_refl.
  - destruct (total =? 0); [discriminate|]. cbv zeta in H.
    destruct (auctions_from_deposit _ _ _ _ _ _) as [s1 []| |] eqn:E; try discriminate.
    eapply bank_only_trans; [eapply auctions_from_deposit_frame; eassumption|]. eapply IH; eassumption.
Qed.

Lemma auction_collateral_frame e cp s dl debt s' u :
  auction_collateral e cp s dl debt = Ok s' u -> bank_only s s'.
Proof. apply auction_deposits_frame. Qed.

(** generic facts about [ofold] *)
Lemma ofold_inv {A} (P : state -> Prop) (f : state -> A -> outcome state unit) :
  (forall s x s' u, P s -> f s x = Ok s' u -> P s') ->
  forall l s s' u, P s -> ofold f s l = Ok s' u -> P s'.
Proof.
  intros Hf. induction l as [|x r IH]; intros s s' u HP H; cbn [ofold] in H.
  - inversion H; subst; assumption.
  - destruct (f s x) as [s1 []| |] eqn:E; try discriminate. eapply IH; [|eassumption]. eapply Hf; eassumption.
Qed.

(** * Record-store helpers: they never touch the bank, prices, deposits, owner index *)
Definition env_same (s s' : state) : Prop :=
  price s' = price s /\ mstat s' = mstat s /\ bal s' = bal s /\ sup s' = sup s /\ deps s' = deps s /\
  oidx s' = oidx s /\ tprin s' = tprin s /\ nextid s' = nextid s /\ ptime s' = ptime s /\
  aucs s' = aucs s /\ now s' = now s /\ height s' = height s.

Lemma env_same_refl s : env_same s s.
Proof. repeat split. Qed.
Lemma env_same_trans s1 s2 s3 : env_same s1 s2 -> env_same s2 s3 -> env_same s1 s3.
Proof.
  unfold env_same. intros (a1&a2&a3&a4&a5&a6&a7&a8&a9&a10&a11&a12) (b1&b2&b3&b4&b5&b6&b7&b8&b9&b10&b11&b12).
  repeat split; congruence.
Qed.

Lemma update_cdp_spec e s cp c r s' u :
  update_cdp e s cp c r = Ok s' u ->
  exists old, get_cdp e s (c_type c) (c_id c) = Some old /\
    s' = ridx_ins (put_cdp (ridx_del s (c_type old) (cdp_ratio e cp old) (c_id old)) c) (c_type c) r (c_id c).
Proof.
  unfold update_cdp. destruct (get_cdp e s (c_type c) (c_id c)) as [old|]; [|discriminate].
  intros H; inversion H; subst. exists old. split; reflexivity.
Qed.

Lemma update_cdp_env e s cp c r s' u : update_cdp e s cp c r = Ok s' u -> env_same s s' /\ ifac s' = ifac s.
Proof. intros H. apply update_cdp_spec in H. destruct H as (old & _ & ->). repeat split. Qed.

Lemma update_cdp_stored e s cp c r s' u :
  update_cdp e s cp c r = Ok s' u -> cdps s' (c_type c) (c_id c) = Some c.
Proof.
  intros H. apply update_cdp_spec in H. destruct H as (old & _ & ->).
  cbn. unfold upd2. rewrite !Nat.eqb_refl. reflexivity.
Qed.

(* SynchronizeInterest only rewrites the cdp's fee fields *)
Lemma sync_interest_spec e s cp c s1 c1 :
  sync_interest e s cp c = Ok s1 c1 ->
  env_same s s1 /\ c_id c1 = c_id c /\ c_type c1 = c_type c /\ c_owner c1 = c_owner c /\
  c_coll c1 = c_coll c /\ c_prin c1 = c_prin c.
Proof.
  unfold sync_interest.
  destruct (ifac s (c_type c)) as [gf|].
  - destruct (ptime s (c_type c)) as [prev|].
    + destruct ((new_interest gf (c_ifac c) (cdp_debt c) =? 0) && (c_upd c =? prev)).
      * intros H; inversion H; subst. repeat split.
      * destruct (update_cdp _ _ _ _ _) as [s2 []| |] eqn:E; try discriminate.
        intros H; inversion H; subst. apply update_cdp_env in E. destruct E as [E _].
        split; [|destruct (_ =? 0); repeat split].
        eapply env_same_trans; [|exact E]. destruct (_ =? 0); repeat split.
    + intros H; inversion H; subst. repeat split.
  - intros H; inversion H; subst. repeat split.
Qed.

(* after a successful synchronisation that wrote, or not, the returned cdp is what later code stores;
   the stored record after a following update is the updated one *)

(** * C05: ratio gates *)

(* the check made by ValidateCollateralizationRatio / WithdrawCollateral *)
Lemma ratio_gate_ok e s cp coll prin fees u :
  ratio_gate e s cp coll prin fees = Ok tt u ->
  exists r, ratio_at e cp (price s (cp_spot cp)) coll prin fees = Ok tt r /\ cp_liq cp <= r.
Proof.
  unfold ratio_gate. destruct (ratio_at _ _ _ _ _ _) as [[] r| |]; try discriminate.
  destruct (Z.ltb_spec r (cp_liq cp)); [discriminate|]. intros _. exists r. split; [reflexivity|lia].
Qed.

Lemma ratio_at_price_zero e cp coll prin fees r :
  ratio_at e cp 0 coll prin fees = Ok tt r -> coll = 0 /\ r = 0.
Proof.
  unfold ratio_at. destruct (Z.eqb_spec coll 0); [intros H; inversion H; auto|]. cbn. discriminate.
Qed.

Ltac ok_inv H := let s := fresh "s" in let u := fresh "u" in
  match type of H with
  | Err = Ok _ _ => discriminate H
  | Panic = Ok _ _ => discriminate H
  end.

(* AddPrincipal: a successful draw leaves the stored cdp at or above the liquidation ratio at the spot price *)
Lemma draw_gate e s o t pd x s' u :
  draw e s o t pd x = Ok s' u ->
  exists cp c0 c' r,
    get_cp e t = Some cp /\ find_cdp e s o t = Some c0 /\
    c_id c' = c_id c0 /\ c_type c' = c_type c0 /\ c_owner c' = c_owner c0 /\ c_coll c' = c_coll c0 /\
    c_prin c' = c_prin c0 + x /\ 0 < x /\
    mstat s (cp_spot cp) = true /\ mstat s (cp_liqm cp) = true /\
    cdps s' (c_type c') (c_id c') = Some c' /\ price s' = price s /\
    ratio_at e cp (price s' (cp_spot cp)) (c_coll c') (c_prin c') (c_fees c') = Ok tt r /\ cp_liq cp <= r.
Proof.
  unfold draw. destruct (Z.ltb_spec 0 x) as [Hx|]; [|discriminate]. cbn [negb].
  destruct (find_cdp e s o t) as [c0|] eqn:Ef; [|discriminate].
  destruct (get_cp e t) as [cp|] eqn:Ecp; [|discriminate].
  destruct (mstat s (cp_spot cp) && mstat s (cp_liqm cp)) eqn:Em; [|discriminate]. cbn [negb].
  destruct (Nat.eqb pd (d_usdx e)); [|discriminate]. cbn [negb].
  destruct (debt_limit_ok e s t cp x); [|discriminate]. cbn [negb].
  destruct (sync_interest e s cp c0) as [s1 c| |] eqn:Es; try discriminate.
  destruct (ratio_gate e s1 cp (c_coll c) (c_prin c + x) (c_fees c)) as [[] []| |] eqn:Eg; try discriminate.
  destruct (b_send _ _ _ _ _) as [s3|] eqn:Eb; [|discriminate].
  intros H.
  apply sync_interest_spec in Es. destruct Es as (Henv & Hid & Hty & How & Hco & Hpr).
  apply ratio_gate_ok in Eg. destruct Eg as (r & Hr & Hle).
  pose proof (update_cdp_stored _ _ _ _ _ _ _ H) as Hst.
  pose proof (update_cdp_env _ _ _ _ _ _ _ H) as [Henv2 _].
  exists cp, c0, (with_prin c (c_prin c + x)), r.
  assert (Hp : price s' = price s).
  { destruct Henv2 as (P2 & _). rewrite P2. cbn.
    rewrite (bank_only_price _ _ (b_mint_frame s3 (CDPM e) (d_debt e) x)).
    rewrite (bank_only_price _ _ (b_send_frame _ _ _ _ _ _ Eb)).
    rewrite (bank_only_price _ _ (b_mint_frame s1 (CDPM e) (d_usdx e) x)).
    destruct Henv as (P1 & _). exact P1. }
  cbn [with_prin c_id c_type c_owner c_coll c_prin c_fees] in *.
  apply andb_true_iff in Em. destruct Em as [Em1 Em2].
  repeat split; try assumption; try congruence.
  rewrite Hp. destruct Henv as (P1 & _). rewrite <- P1. exact Hr.
Qed.

Lemma validate_collateral_ok e s t cd cp :
  validate_collateral e s t cd = Some cp ->
  get_cp e t = Some cp /\ cp_denom cp = cd /\ mstat s (cp_spot cp) = true /\ mstat s (cp_liqm cp) = true.
Proof.
  unfold validate_collateral. destruct (get_cp e t) as [cp0|]; [|discriminate].
  destruct (Nat.eqb_spec (cp_denom cp0) cd); [|discriminate]. cbn [andb].
  destruct (mstat s (cp_spot cp0)) eqn:M1; [|discriminate]. destruct (mstat s (cp_liqm cp0)) eqn:M2; [|discriminate].
  intros H; inversion H; subst. repeat split; auto.
Qed.

(* WithdrawCollateral *)
Lemma withdraw_gate e s o u t cd x s' v :
  withdraw e s o u t cd x = Ok s' v ->
  exists cp c0 c' r,
    get_cp e t = Some cp /\ find_cdp e s o t = Some c0 /\
    mstat s (cp_spot cp) = true /\ mstat s (cp_liqm cp) = true /\
    c_id c' = c_id c0 /\ c_type c' = c_type c0 /\ c_owner c' = c_owner c0 /\
    c_coll c' = c_coll c0 - x /\ c_prin c' = c_prin c0 /\ 0 < x /\
    cdps s' (c_type c') (c_id c') = Some c' /\ price s' = price s /\
    ratio_at e cp (price s' (cp_spot cp)) (c_coll c') (c_prin c') (c_fees c') = Ok tt r /\ cp_liq cp <= r.
Proof.
  unfold withdraw. destruct (Z.ltb_spec 0 x) as [Hx|]; [|discriminate]. cbn [negb].
  destruct (validate_collateral e s t cd) as [cp|] eqn:Ev; [|discriminate].
  destruct (find_cdp e s o t) as [c0|] eqn:Ef; [|discriminate].
  destruct (deps s (c_id c0) u) as [a|]; [|discriminate].
  destruct (a <? x); [discriminate|].
  destruct (sync_interest e s cp c0) as [s1 c| |] eqn:Es; try discriminate.
  destruct (c_coll c <? x); [discriminate|].
  destruct (ratio_gate e s1 cp (c_coll c - x) (c_prin c) (c_fees c)) as [[] []| |] eqn:Eg; try discriminate.
  destruct (b_send _ _ _ _ _) as [s2|] eqn:Eb; [|discriminate].
  destruct (update_cdp _ _ _ _ _) as [s3 []| |] eqn:Eu; try discriminate.
  intros H. apply validate_collateral_ok in Ev. destruct Ev as (Hcp & _ & Hm1 & Hm2).
  apply sync_interest_spec in Es. destruct Es as (Henv & Hid & Hty & How & Hco & Hpr).
  apply ratio_gate_ok in Eg. destruct Eg as (r & Hr & Hle).
  pose proof (update_cdp_stored _ _ _ _ _ _ _ Eu) as Hst.
  pose proof (update_cdp_env _ _ _ _ _ _ _ Eu) as [Henv2 _].
  assert (Hp3 : price s3 = price s).
  { destruct Henv2 as (P2 & _). rewrite P2. rewrite (bank_only_price _ _ (b_send_frame _ _ _ _ _ _ Eb)).
    destruct Henv as (P1 & _). exact P1. }
  assert (Hs' : cdps s' = cdps s3 /\ price s' = price s3).
  { inversion H; subst. destruct (a - x =? 0); split; reflexivity. }
  destruct Hs' as [Hc' Hp'].
  exists cp, c0, (with_coll c (c_coll c - x)), r.
  cbn [with_coll c_id c_type c_owner c_coll c_prin c_fees] in *.
  repeat split; try assumption; try congruence.
  rewrite Hp', Hp3. destruct Henv as (P1 & _). rewrite <- P1. exact Hr.
Qed.

(* AddCdp *)
Lemma create_gate e s o t cd coll pd prin s' v :
  create e s o t cd coll pd prin = Ok s' v ->
  exists cp r,
    get_cp e t = Some cp /\ mstat s (cp_spot cp) = true /\ mstat s (cp_liqm cp) = true /\
    find_cdp e s o t = None /\ dp_floor e <= prin /\
    cdps s' t (nextid s) =
      Some (mkCdp (nextid s) o t coll prin 0 (now s) (match ifac s t with None => PREC | Some f => f end)) /\
    price s' = price s /\ nextid s' = S (nextid s) /\
    ratio_at e cp (price s' (cp_spot cp)) coll prin 0 = Ok tt r /\ cp_liq cp <= r.
Proof.
  unfold create. destruct ((0 <? coll) && (0 <? prin)); [|discriminate]. cbn [negb].
  destruct (validate_collateral e s t cd) as [cp|] eqn:Ev; [|discriminate].
  destruct (bal s o cd <? coll); [discriminate|].
  destruct (find_cdp e s o t) as [?|] eqn:Ef; [discriminate|].
  destruct (Nat.eqb pd (d_usdx e)); [|discriminate]. cbn [negb].
  destruct (Z.ltb_spec prin (dp_floor e)) as [|Hfl]; [discriminate|].
  destruct (debt_limit_ok e s t cp prin); [|discriminate]. cbn [negb].
  destruct (ratio_gate e s cp coll prin 0) as [[] []| |] eqn:Eg; try discriminate.
  destruct (b_send _ _ _ _ _) as [s1|] eqn:Eb1; [|discriminate].
  destruct (b_send (b_mint s1 _ _ _) _ _ _ _) as [s3|] eqn:Eb3; [|discriminate].
  intros H; inversion H; subst; clear H.
  apply validate_collateral_ok in Ev. destruct Ev as (Hcp & _ & Hm1 & Hm2).
  apply ratio_gate_ok in Eg. destruct Eg as (r & Hr & Hle).
  exists cp, r.
  assert (Hp : price s3 = price s).
  { rewrite (bank_only_price _ _ (b_send_frame _ _ _ _ _ _ Eb3)).
    rewrite (bank_only_price _ _ (b_mint_frame s1 (CDPM e) (d_usdx e) prin)).
    rewrite (bank_only_price _ _ (b_send_frame _ _ _ _ _ _ Eb1)).
    destruct (ifac s t); reflexivity. }
  repeat split; try assumption; try reflexivity; try lia.
  - cbn. unfold upd2. rewrite !Nat.eqb_refl. cbn. reflexivity.
  - cbn. rewrite (bank_only_price _ _ (b_mint_frame s3 (CDPM e) (d_debt e) prin)). exact Hp.
  - cbn. rewrite (bank_only_price _ _ (b_mint_frame s3 (CDPM e) (d_debt e) prin)). rewrite Hp. exact Hr.
Qed.

(* DepositCollateral is refused unless both feeds are up *)
Lemma deposit_feed_gate e s o u t cd x s' v :
  deposit e s o u t cd x = Ok s' v ->
  exists cp, get_cp e t = Some cp /\ mstat s (cp_spot cp) = true /\ mstat s (cp_liqm cp) = true.
Proof.
  unfold deposit. destruct (0 <? x); [|discriminate]. cbn [negb].
  destruct (validate_collateral e s t cd) as [cp|] eqn:Ev; [|discriminate].
  intros _. apply validate_collateral_ok in Ev. destruct Ev as (Hcp & _ & Hm1 & Hm2). eauto.
Qed.

(* AttemptKeeperLiquidation succeeds only below the liquidation ratio at the liquidation price *)
Lemma keeper_gate e s k o t s' v :
  keeper_liquidate e s k o t = Ok s' v ->
  exists cp c0 s1 c r,
    get_cp e t = Some cp /\ find_cdp e s o t = Some c0 /\ sync_interest e s cp c0 = Ok s1 c /\
    c_coll c = c_coll c0 /\ c_prin c = c_prin c0 /\
    ratio_at e cp (price s (cp_liqm cp)) (c_coll c) (c_prin c) (c_fees c) = Ok tt r /\ r < cp_liq cp.
Proof.
  unfold keeper_liquidate.
  destruct (find_cdp e s o t) as [c0|] eqn:Ef; [|discriminate].
  destruct (get_cp e t) as [cp|] eqn:Ecp; [|discriminate].
  destruct (sync_interest e s cp c0) as [s1 c| |] eqn:Es; try discriminate.
  destruct (ratio_at _ _ _ _ _ _) as [[] r| |] eqn:Er; try discriminate.
  destruct (Z.leb_spec (cp_liq cp) r); [discriminate|].
  intros _. pose proof (sync_interest_spec _ _ _ _ _ _ Es) as (Henv & Hid & Hty & How & Hco & Hpr).
  exists cp, c0, s1, c, r. repeat split; try assumption.
  destruct Henv as (P1 & _). rewrite <- P1. exact Er.
Qed.

(** * Auctions: what is handed to x/auction *)
Definition lots (l : list auc) : Z := zsum (map a_lot l).
Definition adebts (l : list auc) : Z := zsum (map a_debt l).
Definition auc_of (cp : cparam) (ret : nat) (a : auc) : Prop :=
  a_kind a = 0%nat /\ a_lotd a = cp_denom cp /\ a_ret a = ret.

Lemma zsum_app l1 l2 : zsum (l1 ++ l2) = zsum l1 + zsum l2.
Proof. induction l1 as [|x r IH]; cbn; [reflexivity|]. unfold zsum in *. cbn. lia. Qed.
Lemma lots_app l1 l2 : lots (l1 ++ l2) = lots l1 + lots l2.
Proof. unfold lots. rewrite map_app. apply zsum_app. Qed.
Lemma adebts_app l1 l2 : adebts (l1 ++ l2) = adebts l1 + adebts l2.
Proof. unfold adebts. rewrite map_app. apply zsum_app. Qed.

Lemma b_send_aucs s f t d x s' : b_send s f t d x = Some s' -> aucs s' = aucs s.
Proof.
  unfold b_send. destruct (x <=? 0); [intros H; inversion H; reflexivity|].
  destruct (bal s f d <? x); [discriminate|]. intros H; inversion H; reflexivity.
Qed.

Lemma start_coll_auction_aucs e s ld lot mb debt ret s' u :
  start_coll_auction e s ld lot mb debt ret = Ok s' u ->
  aucs s' = aucs s ++ [mkAuc 0 ld lot mb debt ret].
Proof.
  unfold start_coll_auction.
  destruct (b_send s (LIQM e) (AUCM e) ld lot) as [s1|] eqn:E1; [|discriminate].
  destruct (b_send s1 (LIQM e) (AUCM e) (d_debt e) debt) as [s2|] eqn:E2; [|discriminate].
  intros H; inversion H; subst. cbn. rewrite (b_send_aucs _ _ _ _ _ _ E2), (b_send_aucs _ _ _ _ _ _ E1). reflexivity.
Qed.

Lemma whole_auctions_spec e cp ret dpa : forall n s un s' un',
  whole_auctions e cp ret n dpa s un = Ok s' un' ->
  exists l, aucs s' = aucs s ++ l /\ Forall (auc_of cp ret) l /\
    lots l = Z.of_nat n * cp_asize cp /\
    adebts l = Z.of_nat n * dpa + (un - un') /\
    ((un <= 0 /\ un' = un) \/ (0 < un /\ un' = Z.max 0 (un - Z.of_nat n))).
Proof.
  induction n as [|n IH]; intros s un s' un' H; cbn [whole_auctions] in H.
  - inversion H; subst. exists []. rewrite app_nil_r.
    split; [reflexivity|]. split; [constructor|]. split; [cbn; lia|]. split; [cbn; lia|].
    destruct (Z_le_gt_dec un' 0); [left|right]; lia.
  - destruct (start_coll_auction _ _ _ _ _ _ _) as [s1 []| |] eqn:E; try discriminate.
    apply start_coll_auction_aucs in E. apply IH in H. destruct H as (l & Ha & Hf & Hl & Hd & Hu).
    eexists (_ :: l). rewrite Ha, E, <- app_assoc. cbn [app]. split; [reflexivity|].
    split; [constructor; [repeat split|exact Hf]|].
    unfold lots, adebts in *. cbn [map zsum fold_right a_lot a_debt].
    fold (zsum (map a_lot l)). fold (zsum (map a_debt l)).
    rewrite Nat2Z.inj_succ. destruct (Z.ltb_spec 0 un); nia.
Qed.

(* CreateAuctionsFromDeposit: the lots add up to the deposit, the debts to the share *)
Lemma auctions_from_deposit_spec e cp s ret coll debt s' u :
  auctions_from_deposit e cp s ret coll debt = Ok s' u ->
  0 <= coll -> 0 < cp_asize cp -> 0 <= debt ->
  exists l, aucs s' = aucs s ++ l /\ Forall (auc_of cp ret) l /\ lots l = coll /\ adebts l = debt.
Proof.
  unfold auctions_from_deposit. intros H Hc0 Hz Hd.
  destruct (Z.eqb_spec coll 0) as [|Hne]; [discriminate|]. cbv zeta in H.
  assert (Hc : 0 < coll) by lia.
  set (z := cp_asize cp) in *.
  set (n := coll / z) in *. set (dpa := debt * z / coll) in *. set (lastc := coll mod z) in *.
  set (lastd := debt * lastc / coll) in *.
  set (werr := (debt * z) mod coll) in *. set (lerr := (debt * lastc) mod coll) in *.
  pose proof (Z.div_mod coll z ltac:(lia)) as D0. fold n in D0. fold lastc in D0.
  pose proof (Z.mod_pos_bound coll z Hz) as B0. fold lastc in B0.
  pose proof (Z.div_mod (debt * z) coll ltac:(lia)) as D1. fold dpa in D1. fold werr in D1.
  pose proof (Z.mod_pos_bound (debt * z) coll Hc) as B1. fold werr in B1.
  pose proof (Z.div_mod (debt * lastc) coll ltac:(lia)) as D2. fold lastd in D2. fold lerr in D2.
  pose proof (Z.mod_pos_bound (debt * lastc) coll Hc) as B2. fold lerr in B2.
  assert (Hn : 0 <= n) by (apply Z.div_pos; lia).
  (* un0 * coll = n * werr + lerr *)
  set (un0 := debt - (n * dpa + lastd)) in *.
  assert (Hun0 : un0 * coll = n * werr + lerr) by (unfold un0; nia).
  assert (Hun0b : 0 <= un0 <= n) by nia.
  destruct (whole_auctions _ _ _ _ _ _ _) as [s1 un2| |] eqn:E; try discriminate.
  apply whole_auctions_spec in E. destruct E as (l & Ha & Hf & Hl & Hdb & Hu).
  assert (En : Z.of_nat (Z.to_nat n) = n) by (apply Z2Nat.id; lia).
  rewrite En in Hl, Hdb, Hu. clear En.
  assert (Hun2 : un2 = 0).
  { destruct (Z.ltb_spec werr lerr); [assert (1 <= un0) by nia|]; lia. }
  subst un2.
  destruct (Z.leb_spec lastc 0).
  - assert (Es : s' = s1) by congruence. subst s'. exists l. repeat split; try assumption; [unfold z in *; nia|].
    assert (lastc = 0) by lia. assert (lerr = 0) by (unfold lerr; replace lastc with 0 by lia; rewrite Z.mul_0_r; apply Z.mod_0_l; lia).
    assert (lastd = 0) by (unfold lastd; replace lastc with 0 by lia; rewrite Z.mul_0_r; apply Z.div_0_l; lia).
    destruct (Z.ltb_spec werr lerr); lia.
  - apply start_coll_auction_aucs in H. cbn [Z.ltb] in H.
    eexists (l ++ [_]). rewrite H, Ha, <- app_assoc. split; [reflexivity|].
    split; [apply Forall_app; split; [exact Hf|constructor; [repeat split|constructor]]|].
    rewrite lots_app, adebts_app. unfold lots at 2, adebts at 2. cbn [map zsum fold_right a_lot a_debt].
    change (0 <? 0) with false. cbv iota. unfold z in *.
    destruct (Z.ltb_spec werr lerr); split; nia.
Qed.

Lemma debt_share_nonneg dep total debt : 0 <= dep -> 0 < total -> 0 <= debt -> 0 <= debt_share dep total debt.
Proof.
  intros Hd Ht Hb. unfold debt_share, dec_round_int. apply chop_round_nonneg.
  apply dec_mul_nonneg; [|unfold dec_of_int, PREC; lia].
  apply dec_quo_nonneg; unfold dec_of_int, PREC; lia.
Qed.

Definition auc_in (cp : cparam) (a : auc) : Prop := a_kind a = 0%nat /\ a_lotd a = cp_denom cp.

Lemma auc_of_in cp ret l : Forall (auc_of cp ret) l -> Forall (auc_in cp) l.
Proof. apply Forall_impl. intros a (A & B & _). split; assumption. Qed.

(* AuctionCollateral (fixed): every deposit's collateral and exactly the seized debt enter auctions *)
Lemma auction_deposits_spec e cp total debt : forall dl s rem s' u,
  auction_deposits e cp total debt s dl rem = Ok s' u ->
  Forall (fun d : nat * Z => 0 <= snd d) dl -> 0 < cp_asize cp -> 0 <= total -> 0 <= debt -> 0 <= rem ->
  exists l, aucs s' = aucs s ++ l /\ Forall (auc_in cp) l /\ lots l = zsum (map snd dl) /\
    (dl <> [] -> adebts l = rem) /\ (dl = [] -> l = []).
Proof.
  induction dl as [|d tl IH]; intros s rem s' u H Hpos Hz Ht Hdb Hrem; cbn [auction_deposits] in H.
  - inversion H; subst. exists []. rewrite app_nil_r. repeat split; [constructor|congruence].
  - destruct (Z.eqb_spec total 0); [discriminate|]. cbv zeta in H.
    inversion Hpos as [|? ? Hd Htl]; subst.
    set (sh0 := debt_share (snd d) total debt) in *.
    assert (Hsh0 : 0 <= sh0) by (apply debt_share_nonneg; lia).
    set (sh := if (match tl with [] => true | _ :: _ => false end) || (rem <? sh0) then rem else sh0) in *.
    assert (Hsh : 0 <= sh <= rem).
    { unfold sh. destruct tl; cbn [orb]; [lia|]. destruct (Z.ltb_spec rem sh0); lia. }
    destruct (auctions_from_deposit _ _ _ _ _ _) as [s1 []| |] eqn:E; try discriminate.
    apply auctions_from_deposit_spec in E; try lia. destruct E as (l1 & Ha1 & Hf1 & Hl1 & Hd1).
    apply IH in H; try assumption; try lia. destruct H as (l2 & Ha2 & Hf2 & Hl2 & Hd2 & Hnil).
    exists (l1 ++ l2). rewrite Ha2, Ha1, <- app_assoc. split; [reflexivity|].
    split; [apply Forall_app; split; [eapply auc_of_in; eassumption|assumption]|].
    rewrite lots_app, adebts_app. cbn [map zsum fold_right]. fold (zsum (map snd tl)). split; [lia|].
    split; [|discriminate].
    intros _. rewrite Hd1. destruct tl as [|d2 tl2].
    + unfold sh. cbn [orb]. rewrite (Hnil eq_refl). cbn. lia.
    + rewrite Hd2 by discriminate. lia.
Qed.

(** * Seizure *)
Lemma dep_list_in e s id u a :
  In (u, a) (dep_list e s id) <-> (u < nusers e)%nat /\ deps s id u = Some a.
Proof.
  unfold dep_list. rewrite in_flat_map. split.
  - intros (w & Hw & Hin). apply in_seq in Hw. destruct (deps s id w) as [a0|] eqn:E; [|contradiction].
    destruct Hin as [Hin|[]]. inversion Hin; subst. split; [lia|assumption].
  - intros (Hu & Hd). exists u. split; [apply in_seq; lia|]. rewrite Hd. left. reflexivity.
Qed.

(* the loop of SeizeCollateral over the deposits: everything but balances and deposits is kept,
   the listed deposits are deleted *)
Lemma seize_deps_spec e cp id : forall dl s1 s4 u,
  ofold (fun s2 (d : nat * Z) =>
           match b_send s2 (CDPM e) (LIQM e) (cp_denom cp) (snd d) with
           | None => Err
           | Some s3 => Ok (del_dep s3 id (fst d)) tt
           end) s1 dl = Ok s4 u ->
  cdps s4 = cdps s1 /\ oidx s4 = oidx s1 /\ ridx s4 = ridx s1 /\ tprin s4 = tprin s1 /\ aucs s4 = aucs s1 /\
  price s4 = price s1 /\ nextid s4 = nextid s1 /\
  (forall i w, deps s4 i w =
     if Nat.eqb i id && existsb (Nat.eqb w) (map fst dl) then None else deps s1 i w).
Proof.
  induction dl as [|d tl IH]; intros s1 s4 u H; cbn [ofold] in H.
  - inversion H; subst. repeat split. intros i w. cbn. rewrite andb_false_r. reflexivity.
  - destruct (b_send s1 _ _ _ _) as [s3|] eqn:Eb; [|discriminate].
    apply IH in H. destruct H as (A1 & A2 & A3 & A4 & A5 & A6 & A7 & A8).
    pose proof (b_send_frame _ _ _ _ _ _ Eb) as (B1 & B2 & B3 & B4 & B5 & _ & _ & B8 & _ & B10 & _).
    pose proof (b_send_aucs _ _ _ _ _ _ Eb) as B13.
    cbn in A1, A2, A3, A4, A5, A6, A7.
    repeat split; try congruence.
    intros i w. rewrite A8. cbn [map existsb del_dep set_deps deps]. unfold upd2. rewrite B2.
    destruct (Nat.eqb_spec i id) as [->|]; cbn [andb]; [|reflexivity].
    destruct (Nat.eqb_spec w (fst d)) as [->|]; cbn [orb].
    + destruct (existsb _ _); reflexivity.
    + destruct (existsb _ _); reflexivity.
Qed.

Lemma seize_spec e s cp c s' u :
  seize e s cp c = Ok s' u ->
  (forall w a, deps s (c_id c) w = Some a -> 0 <= a) -> 0 < cp_asize cp ->
  0 <= cdp_debt c -> 0 <= bal s (CDPM e) (d_debt e) ->
  cdps s' = upd2 (cdps s) (c_type c) (c_id c) None /\
  (forall w, (w < nusers e)%nat -> deps s' (c_id c) w = None) /\
  (forall i w, i <> c_id c -> deps s' i w = deps s i w) /\
  oidx s' = upd (oidx s) (c_owner c) (filter (fun x => negb (Nat.eqb x (c_id c))) (oidx s (c_owner c))) /\
  ridx s' = upd (ridx s) (c_type c) (ent_del (rkey (cdp_ratio e cp c), c_id c) (ridx s (c_type c))) /\
  price s' = price s /\ nextid s' = nextid s /\
  exists l, aucs s' = aucs s ++ l /\ Forall (auc_in cp) l /\
    lots l = zsum (map snd (dep_list e s (c_id c))) /\
    (dep_list e s (c_id c) <> [] -> adebts l = Z.min (cdp_debt c) (bal s (CDPM e) (d_debt e))).
Proof.
  unfold seize. intros H Hdep Hz Hdebt Hbal.
  destruct (b_send s _ _ _ _) as [s1|] eqn:E1; [|discriminate].
  destruct (ofold _ s1 _) as [s4 []| |] eqn:E2; try discriminate.
  destruct (auction_collateral _ _ _ _ _) as [s5 []| |] eqn:E3; try discriminate.
  inversion H; subst; clear H.
  pose proof (b_send_frame _ _ _ _ _ _ E1) as (B1 & B2 & B3 & B4 & B5 & _ & _ & B8 & _ & B10 & _).
  pose proof (b_send_aucs _ _ _ _ _ _ E1) as B13.
  assert (Edl : dep_list e s1 (c_id c) = dep_list e s (c_id c)) by (unfold dep_list; rewrite B2; reflexivity).
  apply seize_deps_spec in E2. destruct E2 as (A1 & A2 & A3 & A4 & A5 & A6 & A7 & A8).
  pose proof (auction_collateral_frame _ _ _ _ _ _ _ E3) as (C1 & C2 & C3 & C4 & C5 & _ & _ & C8 & _ & C10 & _).
  unfold auction_collateral in E3.
  apply auction_deposits_spec in E3; try assumption; try lia.
  2:{ apply Forall_forall. intros [w a] Hin. apply dep_list_in in Hin. destruct Hin as [_ Hin]. cbn. eapply Hdep; eassumption. }
  2:{ assert (Forall (fun d : nat * Z => 0 <= snd d) (dep_list e s (c_id c))) as Hf.
      { apply Forall_forall. intros [w a] Hin. apply dep_list_in in Hin. destruct Hin as [_ Hin]. cbn. eapply Hdep; eassumption. }
      clear - Hf. induction Hf as [|x l Hx _ IH]; cbn; [lia|]. fold (zsum (map snd l)). lia. }
  destruct E3 as (l & Ha & Hf & Hl & Hd & _).
  cbn [del_cdp ridx_del oidx_rm set_cdps set_ridx set_oidx set_tprin cdps deps oidx ridx price nextid aucs].
  rewrite C1, A1, B1, C2, C3, A2, B3, C4, A3, B4, C10, A6, B10, C8, A7, B8.
  repeat split.
  - intros w Hw. rewrite A8, Nat.eqb_refl. cbn [andb].
    destruct (existsb (Nat.eqb w) (map fst (dep_list e s (c_id c)))) eqn:Ex; [reflexivity|].
    rewrite B2. destruct (deps s (c_id c) w) as [a|] eqn:Ed; [|reflexivity].
    exfalso. assert (In (w, a) (dep_list e s (c_id c))) as Hin by (apply dep_list_in; auto).
    apply (in_map fst) in Hin. cbn in Hin.
    assert (existsb (Nat.eqb w) (map fst (dep_list e s (c_id c))) = true).
    { apply existsb_exists. exists w. split; [assumption|apply Nat.eqb_refl]. }
    congruence.
  - intros i w Hi. rewrite A8. destruct (Nat.eqb_spec i (c_id c)); [contradiction|]. cbn [andb]. rewrite B2. reflexivity.
  - exists l. rewrite Ha, A5, B13. repeat split; assumption.
Qed.

(* seizing a cdp removes its record and no other *)
Lemma seize_cdps e s cp c s' u :
  seize e s cp c = Ok s' u -> cdps s' = upd2 (cdps s) (c_type c) (c_id c) None.
Proof.
  unfold seize. intros H.
  destruct (b_send s _ _ _ _) as [s1|] eqn:E1; [|discriminate].
  destruct (ofold _ s1 _) as [s4 []| |] eqn:E2; try discriminate.
  destruct (auction_collateral _ _ _ _ _) as [s5 []| |] eqn:E3; try discriminate.
  inversion H; subst; clear H.
  apply seize_deps_spec in E2. destruct E2 as (A1 & _).
  cbn. rewrite (bank_only_cdps _ _ (auction_collateral_frame _ _ _ _ _ _ _ E3)), A1,
    (bank_only_cdps _ _ (b_send_frame _ _ _ _ _ _ E1)). reflexivity.
Qed.

Lemma idx_below_lt tg : forall n l x, In x (idx_below tg n l) -> fst x < tg.
Proof.
  induction n as [|n IH]; intros l x H; [destruct l; contradiction|].
  destruct l as [|h tl]; [contradiction|]. cbn [idx_below] in H.
  destruct (Z.ltb_spec (fst h) tg); [|contradiction].
  destruct H as [<-|H]; [assumption|]. eapply IH; eassumption.
Qed.

Lemma idx_below_in tg : forall n l x, In x (idx_below tg n l) -> In x l.
Proof.
  induction n as [|n IH]; intros l x H; [destruct l; contradiction|].
  destruct l as [|h tl]; [contradiction|]. cbn [idx_below] in H.
  destruct (fst h <? tg); [|contradiction].
  destruct H as [<-|H]; [left; reflexivity|right]. eapply IH; eassumption.
Qed.

Lemma seize_fold_none e cp p : forall l s s' u,
  ofold (liq_step e cp p) s l = Ok s' u ->
  (forall t id, cdps s t id = None -> cdps s' t id = None) /\
  (forall c, In (Some c) l -> confirm_below e cp p c = true -> cdps s' (c_type c) (c_id c) = None).
Proof.
  induction l as [|o tl IH]; intros s s' u H; cbn [ofold] in H.
  - inversion H; subst. split; [auto|intros c []].
  - destruct o as [c|]; [|discriminate]. unfold liq_step in H at 1.
    destruct (confirm_below e cp p c) eqn:Ecb.
    + destruct (seize e s cp c) as [s1 []| |] eqn:E; try discriminate.
      apply seize_cdps in E. apply IH in H. destruct H as [Hk Hin].
      assert (Hk1 : forall t id, cdps s t id = None -> cdps s1 t id = None).
      { intros t id Hn. rewrite E. unfold upd2. destruct (_ && _); [reflexivity|assumption]. }
      split; [intros t id Hn; apply Hk, Hk1, Hn|].
      intros c' [Heq|Hc'] Hcb.
      * inversion Heq; subst. apply Hk. rewrite E. unfold upd2. rewrite !Nat.eqb_refl. reflexivity.
      * apply Hin; assumption.
    + cbv beta iota in H. apply IH in H. destruct H as [Hk Hin]. split; [exact Hk|].
      intros c' [Heq|Hc'] Hcb; [inversion Heq; subst; congruence|apply Hin; assumption].
Qed.

(* LiquidateCdps: every cdp read from the scan of the ratio index whose value ratio is confirmed below the
   liquidation ratio is seized *)
Lemma liquidate_cdps_complete e s t cp s' u :
  liquidate_cdps e s t cp = Ok s' u -> price s (cp_liqm cp) <> 0 ->
  forall x, In x (idx_below (rkey (liq_cut (price s (cp_liqm cp)) (cp_liq cp))) (scan_count cp) (ridx s t)) ->
  exists c, get_cdp e s t (snd x) = Some c /\
    (confirm_below e cp (price s (cp_liqm cp)) c = true -> cdps s' (c_type c) (c_id c) = None).
Proof.
  unfold liquidate_cdps. intros H Hp x Hx.
  destruct (Z.eqb_spec (price s (cp_liqm cp)) 0); [contradiction|].
  destruct (existsb _ _) eqn:Ex; [discriminate|].
  apply seize_fold_none in H. destruct H as [_ Hin].
  destruct (get_cdp e s t (snd x)) as [c|] eqn:Eg.
  - exists c. split; [reflexivity|]. apply Hin. rewrite <- Eg.
    apply (in_map (fun x0 : Z * nat => get_cdp e s t (snd x0))) in Hx. exact Hx.
  - exfalso. assert (existsb (fun o : option cdp => match o with None => true | Some _ => false end)
      (map (fun x0 : Z * nat => get_cdp e s t (snd x0))
         (idx_below (rkey (liq_cut (price s (cp_liqm cp)) (cp_liq cp))) (scan_count cp) (ridx s t))) = true).
    { apply existsb_exists. exists None. split; [|reflexivity]. rewrite <- Eg.
      apply (in_map (fun x0 : Z * nat => get_cdp e s t (snd x0))) in Hx. exact Hx. }
    congruence.
Qed.

(* LiquidateCdps touches only cdps read from the scan AND confirmed below the liquidation ratio *)
Lemma liquidate_cdps_only_scanned e s t cp s' u :
  liquidate_cdps e s t cp = Ok s' u ->
  forall t' id, cdps s' t' id <> cdps s t' id ->
  exists x c, In x (idx_below (rkey (liq_cut (price s (cp_liqm cp)) (cp_liq cp))) (scan_count cp) (ridx s t)) /\
    fst x < rkey (liq_cut (price s (cp_liqm cp)) (cp_liq cp)) /\
    get_cdp e s t (snd x) = Some c /\ t' = c_type c /\ id = c_id c /\
    price s (cp_liqm cp) <> 0 /\ confirm_below e cp (price s (cp_liqm cp)) c = true.
Proof.
  unfold liquidate_cdps. intros H t' id Hne.
  destruct (Z.eqb_spec (price s (cp_liqm cp)) 0) as [|Hp]; [inversion H; subst; contradiction|].
  destruct (existsb _ _); [discriminate|].
  set (ents := idx_below _ _ _) in *. set (p := price s (cp_liqm cp)) in *.
  assert (G : forall l s0 s1 u0,
    ofold (liq_step e cp p) s0 l = Ok s1 u0 ->
    cdps s1 t' id <> cdps s0 t' id -> exists c, In (Some c) l /\ t' = c_type c /\ id = c_id c /\ confirm_below e cp p c = true).
  { induction l as [|o tl IH]; intros s0 s1 u0 H0 Hn; cbn [ofold] in H0.
    - inversion H0; subst. contradiction.
    - destruct o as [c|]; [|discriminate]. unfold liq_step in H0 at 1.
      destruct (confirm_below e cp p c) eqn:Ecb.
      + destruct (seize e s0 cp c) as [s2 []| |] eqn:E; try discriminate.
        apply seize_cdps in E.
        destruct (Nat.eqb_spec t' (c_type c)) as [->|N1]; [destruct (Nat.eqb_spec id (c_id c)) as [->|N2]|].
        * exists c. split; [left; reflexivity|repeat split; assumption].
        * assert (cdps s2 (c_type c) id = cdps s0 (c_type c) id).
          { rewrite E. unfold upd2. destruct (Nat.eqb_spec id (c_id c)); [contradiction|]. rewrite andb_false_r. reflexivity. }
          destruct (IH _ _ _ H0) as (c' & Hin & Hc'); [congruence|]. exists c'. split; [right; assumption|assumption].
        * assert (cdps s2 t' id = cdps s0 t' id).
          { rewrite E. unfold upd2. destruct (Nat.eqb_spec t' (c_type c)); [contradiction|]. reflexivity. }
          destruct (IH _ _ _ H0) as (c' & Hin & Hc'); [congruence|]. exists c'. split; [right; assumption|assumption].
      + cbv beta iota in H0. destruct (IH _ _ _ H0 Hn) as (c' & Hin & Hc'). exists c'. split; [right; assumption|assumption]. }
  destruct (G _ _ _ _ H Hne) as (c & Hin & -> & -> & Hcb).
  apply in_map_iff in Hin. destruct Hin as (x & Hx & Hxin).
  exists x, c. repeat split; try assumption. eapply idx_below_lt. exact Hxin.
Qed.

(* the confirmation is the value ratio of CalculateCollateralizationRatio at the liquidation price *)
Lemma to_base_zero cf : to_base 0 cf = 0.
Proof. unfold to_base, dec_mul, dec_of_int. cbn [Z.mul]. reflexivity. Qed.

Lemma confirm_below_ratio e cp p c r :
  confirm_below e cp p c = true -> 0 < to_base (c_prin c) (dp_cf e) + to_base (c_fees c) (dp_cf e) ->
  ratio_at e cp p (c_coll c) (c_prin c) (c_fees c) = Ok tt r -> r < cp_liq cp.
Proof.
  unfold confirm_below, ratio_at, coll_ratio. intros H Hd.
  destruct (Z.ltb_spec 0 (to_base (c_prin c) (dp_cf e) + to_base (c_fees c) (dp_cf e))); [|lia].
  apply Z.ltb_lt in H.
  destruct (Z.eqb_spec (c_coll c) 0) as [E0|].
  - intros Hr; inversion Hr; subst. rewrite E0, to_base_zero in H. 
    assert (Hz : dec_quo (dec_mul 0 p) (to_base (c_prin c) (dp_cf e) + to_base (c_fees c) (dp_cf e)) = 0).
    { unfold dec_mul. cbn [Z.mul]. unfold dec_quo. cbn [Z.mul]. rewrite Z.quot_0_l by lia. reflexivity. }
    lia.
  - destruct (p =? 0); [discriminate|].
    destruct (Z.eqb_spec (to_base (c_prin c) (dp_cf e) + to_base (c_fees c) (dp_cf e)) 0); [lia|].
    intros Hr; inversion Hr; subst. exact H.
Qed.

(* Only-below with explicit slack: an index entry below the cut, for a cdp whose
   collateral and debt in base units are C and D, satisfies C*q < D*(1 + q*10^-36),
   q = price/liqRatio as rounded by the code (and q*liqRatio >= price - liqRatio*(1/2 ulp + 10^-36)). *)
Lemma below_cut_partial coll cfc debt cfd p liq :
  rkey (c2d_ratio coll cfc debt cfd) < rkey (liq_cut p liq) ->
  0 <= to_base coll cfc -> 0 < to_base debt cfd < MAXS -> 0 <= p -> 0 < liq ->
  to_base coll cfc * cut_div p liq * PREC * PREC < to_base debt cfd * (PREC * PREC * PREC + cut_div p liq) /\
  2 * p * PREC * PREC < 2 * cut_div p liq * liq * PREC + liq * PREC + 2 * liq.
Proof.
  intros Hlt HC HD Hp Hl. split; [|apply cut_div_lower; assumption].
  apply rkey_lt in Hlt. rewrite liq_cut_eq in Hlt. unfold c2d_ratio in Hlt.
  destruct (Z.eqb_spec (to_base debt cfd) 0); [lia|]. destruct (Z.leb_spec MAXS (to_base debt cfd)); [lia|].
  cbn [orb] in Hlt. apply index_below_cut; try assumption; try lia. apply cut_div_pos; assumption.
Qed.

(* the begin blocker of a collateral type whose feeds are up, at the interval, ends with LiquidateCdps *)
Lemma begin_type_liquidates e s t cp s' u :
  begin_type e false s (t, cp) = Ok s' u ->
  price s (cp_spot cp) <> 0 -> price s (cp_liqm cp) <> 0 ->
  exists s4, liquidate_cdps e s4 t cp = Ok s' u /\ price s4 = price s.
Proof.
  unfold begin_type, update_status. intros H H1 H2.
  destruct (Z.eqb_spec (price s (cp_spot cp)) 0); [contradiction|]. cbn [negb] in H.
  cbn [set_mstat price] in H. destruct (Z.eqb_spec (price s (cp_liqm cp)) 0); [contradiction|]. cbn [negb] in H.
  destruct (sync_risky _ _ _ _) as [s4 []| |] eqn:E; try discriminate.
  destruct (liquidate_cdps e s4 t cp) as [s5 []| |] eqn:El; try discriminate.
  inversion H; subst. exists s4. split; [exact El|].
  (* prices are not touched by interest accumulation and synchronisation *)
  assert (Hacc : forall s0, price (accumulate_interest e s0 t cp) = price s0).
  { intros s0. unfold accumulate_interest. destruct (ptime s0 t); [|reflexivity].
    destruct (_ =? 0); [reflexivity|]. destruct (_ <=? 0); [reflexivity|].
    destruct (ifac s0 t); [|reflexivity]. destruct (_ =? PREC); [reflexivity|]. cbv zeta.
    destruct (_ =? 0); [reflexivity|]. cbn.
    rewrite (bank_only_price _ _ (b_mint_frame _ _ _ _)), (bank_only_price _ _ (b_mint_frame _ _ _ _)). reflexivity. }
  assert (Hone : forall gf prev s0 id s1 u0, sync_risky_one e cp t gf prev s0 id = Ok s1 u0 -> price s1 = price s0).
  { intros gf prev s0 id s1 u0 H0. unfold sync_risky_one in H0. destruct (cdps s0 t id); [|discriminate].
    destruct (_ && _); [inversion H0; reflexivity|]. inversion H0; subst. destruct (_ =? 0); reflexivity. }
  unfold sync_risky in E. destruct (ptime _ t); [|discriminate].
  set (s3 := accumulate_interest e _ t cp) in *.
  assert (Hs3 : price s3 = price s) by (unfold s3; rewrite Hacc; reflexivity).
  rewrite <- Hs3.
  destruct (ifac s3 t) as [gf|].
  - eapply (ofold_inv (fun x => price x = price s3)); [|reflexivity|exact E].
    intros s0 x s1 u0 HP H0. apply Hone in H0. congruence.
  - destruct (map snd _); [inversion E; reflexivity|discriminate].
Qed.
