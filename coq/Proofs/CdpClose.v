(* C04: a repayment that closes the cdp returns to every depositor exactly the recorded deposit. *)
From Kava Require Import Base.Prelude Base.Dec Model.Cdp Proofs.CdpRatio Proofs.Cdp Proofs.CdpInv Proofs.CdpInv2 Proofs.CdpInv3 Proofs.CdpCust.
Local Open Scope Z_scope.

Lemma repay_close e s o t pd x s' u c0 cp :
  env_wf e -> IdxInv e s -> CustInv e s ->
  repay e s o t pd x = Ok s' u -> find_cdp e s o t = Some c0 -> get_cp e t = Some cp ->
  cdps s' (c_type c0) (c_id c0) = None ->
  forall w, (w < nusers e)%nat ->
    bal s' w (cp_denom cp) = bal s w (cp_denom cp) + oz0 (deps s (c_id c0) w) /\ deps s' (c_id c0) w = None.
Proof.
  intros Hwf HI HC H Ef Hcp Hgone. unfold repay in H. destruct (0 <? x); [|discriminate]. cbn [negb] in H.
  rewrite Ef, Hcp in H.
  destruct (find_cdp_stored' _ _ _ _ _ _ HI Ef Hcp) as [Ht Hst].
  destruct (Nat.eqb pd (d_usdx e)); [|discriminate]. cbn [negb] in H.
  destruct (bal s o pd <? x); [discriminate|].
  destruct (sync_interest e s cp c0) as [s1 c| |] eqn:Es; try discriminate.
  pose proof (sync_interest_spec _ _ _ _ _ _ Es) as ((_&_&Hb1&_&Hd1&_) & Hid & Hty & _).
  pose proof (sync_interest_CustInv _ _ _ _ _ _ HC Hst Es) as HC1.
  destruct (calc_payment (cdp_debt c) (c_fees c) x) as [fp pp].
  destruct (_ && _); [discriminate|].
  destruct (b_send s1 o (CDPM e) (d_usdx e) (fp + pp)) as [s2|] eqn:E2; [|discriminate].
  destruct (b_burn s2 _ _ _) as [s3|] eqn:E3; [|discriminate].
  destruct (b_burn s3 _ _ _) as [s4|] eqn:E4; [|discriminate].
  set (c1 := with_fees (with_prin c (c_prin c - pp)) (c_fees c - fp) (c_upd c) (c_ifac c)) in *.
  set (s5 := set_tprin s4 _) in *.
  destruct (Hwf _ _ Hcp) as [W1 W2].
  assert (B5 : forall w, bal s5 w (cp_denom cp) = bal s w (cp_denom cp)).
  { intros w. unfold s5. cbn. rewrite (b_burn_other _ _ _ _ _ E4) by (left; exact W2).
    rewrite (b_burn_other _ _ _ _ _ E3) by (left; exact W1). rewrite (b_send_other _ _ _ _ _ _ E2) by (left; exact W1).
    rewrite Hb1. reflexivity. }
  assert (D5 : deps s5 = deps s).
  { unfold s5. cbn. rewrite (bank_only_deps _ _ (b_burn_frame _ _ _ _ _ E4)), (bank_only_deps _ _ (b_burn_frame _ _ _ _ _ E3)),
      (bank_only_deps _ _ (b_send_frame _ _ _ _ _ _ E2)). exact Hd1. }
  destruct ((c_prin c1 =? 0) && (c_fees c1 =? 0)).
  - destruct (return_collateral e s5 cp c1) as [s6 []| |] eqn:E6; try discriminate.
    destruct (get_cdp e _ _ _) as [old|]; [|discriminate].
    injection H as Hs'; subst s'.
    apply return_collateral_spec in E6.
    2:{ intros w a Hd. rewrite D5 in Hd. destruct HC as (_ & _ & P3 & _). destruct (P3 _ _ _ Hd) as (A & _). exact A. }
    destruct E6 as (_ & _ & _ & _ & R5 & _).
    intros w Hw. destruct (R5 w Hw) as [Rb Rd]. change (c_id c1) with (c_id c) in Rb, Rd. rewrite Hid in Rb, Rd.
    cbn. rewrite Rb, B5, D5. split; [reflexivity|exact Rd].
  - (* a partial repayment keeps the cdp stored *)
    exfalso. apply update_cdp_stored in H. cbn [c1 with_fees with_prin c_type c_id] in H. rewrite Hty, Hid in H. congruence.
Qed.
