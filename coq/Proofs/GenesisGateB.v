(* InitGenesis is the gate of a chain start: x/hard, x/swap, x/savings and x/incentive call
   gs.Validate() first and panic on an error, so what GenesisState.Validate refuses is never
   imported.  x/pricefeed's InitGenesis does not call it: a closed witness of a refused genesis
   state that is imported.  Qualified names: every Genesis model has its own [genesis] /
   [validate_genesis] / [init_genesis]. *)
From Kava Require Import Base.Prelude Base.Dec.
From Kava Require Model.Pricefeed Model.Hard Model.Swap Model.Savings Model.Earn Model.Incentive
  Model.GenesisPricefeed Model.GenesisHard Model.GenesisSwap Model.GenesisSavings Model.GenesisIncentive.
Local Open Scope Z_scope.

Lemma swap_import_implies_valid :
  forall e s0 g s' o, GenesisSwap.init_genesis e s0 g = Ok s' o -> GenesisSwap.validate_genesis g = true.
Proof.
  intros e s0 g s' o H. unfold GenesisSwap.init_genesis in H.
  destruct (GenesisSwap.validate_genesis g); [reflexivity | cbn in H; discriminate].
Qed.

Lemma savings_import_implies_valid :
  forall e s0 g s' o, GenesisSavings.init_genesis e s0 g = Ok s' o -> GenesisSavings.validate_genesis g = true.
Proof.
  intros e s0 g s' o H. unfold GenesisSavings.init_genesis in H.
  destruct (GenesisSavings.validate_genesis g); [reflexivity | cbn in H; discriminate].
Qed.

Lemma incentive_import_implies_valid :
  forall e s0 g s' o, GenesisIncentive.init_genesis e s0 g = Ok s' o -> GenesisIncentive.validate_genesis g = true.
Proof.
  intros e s0 g s' o H. unfold GenesisIncentive.init_genesis in H.
  destruct (GenesisIncentive.validate_genesis g); [reflexivity | cbn in H; discriminate].
Qed.

Lemma hard_import_implies_valid :
  forall e s0 g s' o, GenesisHard.init_genesis e s0 g = Ok s' o -> GenesisHard.validate_genesis g = true.
Proof.
  intros e s0 g s' o H. unfold GenesisHard.init_genesis in H.
  destruct (GenesisHard.validate_genesis g); [reflexivity | cbn in H; discriminate].
Qed.

(* x/pricefeed: a post with a negative price is refused by GenesisState.Validate and imported by
   InitGenesis, which stores it and makes it the market's current price *)
Definition pf_env := Pricefeed.mkEnv 1 1 [].
Definition pf_bad : GenesisPricefeed.genesis :=
  GenesisPricefeed.mkGen [Pricefeed.mkMarket 0 true [0%nat]] [(0%nat, 0%nat, -1, 5000000000)].

Lemma pricefeed_import_does_not_validate :
  GenesisPricefeed.validate_genesis pf_bad = false /\
  exists s', GenesisPricefeed.init_genesis pf_env 1000000000 (fun _ => true) pf_bad = Ok s' [] /\
             Pricefeed.raw s' 0%nat 0%nat = Some (-1, 5000000000) /\
             Pricefeed.get_current_price s' 0 = Some (-1).
Proof.
  split; [vm_compute; reflexivity|].
  eexists. split; [vm_compute; reflexivity|]. split; vm_compute; reflexivity.
Qed.
