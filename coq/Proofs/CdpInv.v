(* C04: coherence of the collateral-ratio index along the code paths that rewrite
   it (UpdateCdpAndCollateralRatioIndex, the hand-written rewrite of
   SynchronizeInterestForRiskyCDPs, insertion at creation, removal at close and
   seizure), and ReturnCollateral. *)
From Kava Require Import Base.Prelude Base.Dec Model.Cdp Proofs.CdpRatio Proofs.Cdp.
Local Open Scope Z_scope.

(** * Key-list operations *)
Lemma ent_eqb_eq a b : ent_eqb a b = true <-> a = b.
Proof.
  unfold ent_eqb. destruct a as [r i], b as [r' i']. cbn. rewrite andb_true_iff, Z.eqb_eq, Nat.eqb_eq.
  split; [intros [-> ->]; reflexivity|intros H; inversion H; auto].
Qed.

Lemma in_ent_ins x y l : In x (ent_ins y l) <-> x = y \/ In x l.
Proof.
  induction l as [|h tl IH]; cbn [ent_ins].
  - cbn. intuition.
  - destruct (ent_eqb y h) eqn:E.
    + apply ent_eqb_eq in E. subst h. cbn. intuition.
    + destruct (ent_ltb y h); cbn; [intuition|]. rewrite IH. intuition.
Qed.

Lemma nodup_ent_ins y l : ~ In y l -> NoDup l -> NoDup (ent_ins y l).
Proof.
  induction l as [|h tl IH]; intros Hn H; cbn [ent_ins].
  - constructor; [intros []|constructor].
  - destruct (ent_eqb y h) eqn:E; [assumption|].
    inversion H as [|? ? Hh Ht]; subst.
    destruct (ent_ltb y h).
    + constructor; assumption.
    + constructor.
      * rewrite in_ent_ins. intros [->|Hin]; [apply Hn; left; reflexivity|contradiction].
      * apply IH; [intros Hin; apply Hn; right; assumption|assumption].
Qed.

Lemma in_ent_del x y l : In x (ent_del y l) <-> In x l /\ x <> y.
Proof.
  unfold ent_del. rewrite filter_In. split; intros [H1 H2]; split; try assumption.
  - intros ->. assert (ent_eqb y y = true) by (apply ent_eqb_eq; reflexivity). rewrite H in H2. discriminate.
  - destruct (ent_eqb y x) eqn:E; [|reflexivity]. apply ent_eqb_eq in E. congruence.
Qed.

Lemma nodup_ent_del y l : NoDup l -> NoDup (ent_del y l).
Proof. apply NoDup_filter. Qed.

(** * Index coherence *)
(* every stored record sits under its own (type, id) *)
Definition key_ok (s : state) : Prop :=
  forall t id c, cdps s t id = Some c -> c_type c = t /\ c_id c = id.

(* the ratio index of every collateral type holds exactly one entry per stored cdp,
   keyed by the ratio recomputed from the stored record *)
Definition ridx_ok (e : env) (s : state) : Prop :=
  forall t cp, get_cp e t = Some cp ->
    NoDup (ridx s t) /\
    forall r id, In (r, id) (ridx s t) <-> exists c, cdps s t id = Some c /\ r = rkey (cdp_ratio e cp c).

Lemma put_cdp_key_ok s c : key_ok s -> key_ok (put_cdp s c).
Proof.
  intros H t id c' Hc. cbn in Hc. unfold upd2 in Hc.
  destruct (Nat.eqb_spec t (c_type c)); [destruct (Nat.eqb_spec id (c_id c))|]; cbn [andb] in Hc.
  - inversion Hc; subst. auto.
  - apply H, Hc.
  - apply H, Hc.
Qed.

(* the core of all rewriting paths: delete the entry of the stored record, store the new record, insert its entry *)
Lemma reindex_ok e s cp c old :
  key_ok s -> ridx_ok e s -> get_cp e (c_type c) = Some cp ->
  cdps s (c_type c) (c_id c) = Some old ->
  let s' := ridx_ins (put_cdp (ridx_del s (c_type c) (cdp_ratio e cp old) (c_id c)) c) (c_type c) (cdp_ratio e cp c) (c_id c) in
  key_ok s' /\ ridx_ok e s'.
Proof.
  intros Hk Hr Hcp Hold s'. split.
  - intros t id c' Hc. apply (put_cdp_key_ok (ridx_del s (c_type c) (cdp_ratio e cp old) (c_id c)) c); [exact Hk|exact Hc].
  - intros t cp' Hcp'. destruct (Hr t cp' Hcp') as [Hnd Hin]. cbn. unfold upd, upd2.
    destruct (Nat.eqb_spec t (c_type c)) as [->|Nt].
    + assert (cp' = cp) by congruence. subst cp'. rewrite ?Nat.eqb_refl.
      assert (Hold_in : forall r, In (r, c_id c) (ridx s (c_type c)) <-> r = rkey (cdp_ratio e cp old)).
      { intros r. rewrite Hin. split; [intros (c0 & H0 & ->); congruence|intros ->; eauto]. }
      split.
      * apply nodup_ent_ins; [|apply nodup_ent_del, Hnd].
        rewrite in_ent_del. intros [H1 H2]. apply Hold_in in H1. apply H2. rewrite H1. reflexivity.
      * intros r id. rewrite in_ent_ins, in_ent_del. cbn [andb].
        destruct (Nat.eqb_spec id (c_id c)) as [->|Ni].
        -- split.
           ++ intros [Heq|[H1 H2]]; [inversion Heq; subst; eauto|].
              apply Hold_in in H1. subst r. contradiction H2. reflexivity.
           ++ intros (c0 & H0 & ->). inversion H0; subst. left. reflexivity.
        -- rewrite Hin. split.
           ++ intros [Heq|[H1 _]]; [inversion Heq; subst; contradiction|exact H1].
           ++ intros H1. right. split; [exact H1|]. intros Heq. inversion Heq; subst. contradiction.
    + split; [exact Hnd|]. intros r id. rewrite Hin. reflexivity.
Qed.

(* UpdateCdpAndCollateralRatioIndex *)
Lemma update_cdp_idx e s cp c s' u :
  key_ok s -> ridx_ok e s -> get_cp e (c_type c) = Some cp ->
  update_cdp e s cp c (cdp_ratio e cp c) = Ok s' u -> key_ok s' /\ ridx_ok e s'.
Proof.
  intros Hk Hr Hcp H. apply update_cdp_spec in H. destruct H as (old & Hg & ->).
  unfold get_cdp in Hg. rewrite Hcp in Hg. destruct (Hk _ _ _ Hg) as [-> ->].
  apply reindex_ok; assumption.
Qed.

(* storing a record that differs only in fields that do not enter the ratio keeps the index coherent *)
Lemma put_same_ratio_ok e s c old :
  key_ok s -> ridx_ok e s -> cdps s (c_type c) (c_id c) = Some old ->
  c_coll c = c_coll old -> c_prin c = c_prin old -> c_fees c = c_fees old ->
  key_ok (put_cdp s c) /\ ridx_ok e (put_cdp s c).
Proof.
  intros Hk Hr Hold E1 E2 E3. split; [apply put_cdp_key_ok, Hk|].
  intros t cp Hcp. destruct (Hr t cp Hcp) as [Hnd Hin]. cbn. split; [exact Hnd|].
  intros r id. rewrite Hin. unfold upd2.
  destruct (Nat.eqb_spec t (c_type c)) as [->|]; [destruct (Nat.eqb_spec id (c_id c)) as [->|]|]; cbn [andb]; try reflexivity.
  assert (Er : cdp_ratio e cp c = cdp_ratio e cp old) by (unfold cdp_ratio, cdp_debt; rewrite E1, E2, E3; reflexivity).
  split; intros (c0 & H0 & ->).
  - exists c. split; [reflexivity|]. rewrite Er. congruence.
  - inversion H0; subst. exists old. split; [assumption|]. rewrite Er. reflexivity.
Qed.

(* SynchronizeInterest *)
Lemma sync_interest_idx e s cp c s1 c1 :
  key_ok s -> ridx_ok e s -> get_cp e (c_type c) = Some cp -> cdps s (c_type c) (c_id c) = Some c ->
  sync_interest e s cp c = Ok s1 c1 ->
  key_ok s1 /\ ridx_ok e s1 /\ cdps s1 (c_type c1) (c_id c1) = Some c1.
Proof.
  intros Hk Hr Hcp Hst. unfold sync_interest.
  destruct (ifac s (c_type c)) as [gf|].
  - destruct (ptime s (c_type c)) as [prev|].
    + destruct ((new_interest gf (c_ifac c) (cdp_debt c) =? 0) && (c_upd c =? prev)).
      * intros H; inversion H; subst. auto.
      * destruct (new_interest gf (c_ifac c) (cdp_debt c) =? 0) eqn:Ez.
        -- set (c0 := with_fees c (c_fees c) prev (c_ifac c)).
           destruct (put_same_ratio_ok e s c0 c Hk Hr Hst eq_refl eq_refl eq_refl) as [Hk1 Hr1].
           destruct (update_cdp _ _ _ _ _) as [s2 []| |] eqn:E; try discriminate.
           intros H; inversion H; subst.
           pose proof (update_cdp_stored _ _ _ _ _ _ _ E) as Hs.
           apply update_cdp_idx in E; try assumption. destruct E. auto.
        -- destruct (update_cdp _ _ _ _ _) as [s2 []| |] eqn:E; try discriminate.
           intros H; inversion H; subst.
           pose proof (update_cdp_stored _ _ _ _ _ _ _ E) as Hs.
           apply update_cdp_idx in E; try assumption. destruct E. auto.
    + intros H; inversion H; subst. auto.
  - intros H; inversion H; subst.
    set (c0 := with_fees c (c_fees c) (now s) PREC).
    destruct (put_same_ratio_ok e (set_ifac s (upd (ifac s) (c_type c) (Some PREC))) c0 c Hk Hr Hst eq_refl eq_refl eq_refl) as [Hk1 Hr1].
    split; [exact Hk1|split; [exact Hr1|]]. cbn. unfold upd2. rewrite !Nat.eqb_refl. reflexivity.
Qed.

(* one iteration of SynchronizeInterestForRiskyCDPs: the index keys are rewritten by hand *)
Lemma sync_risky_one_idx e cp t gf prev s id s' u :
  key_ok s -> ridx_ok e s -> get_cp e t = Some cp ->
  sync_risky_one e cp t gf prev s id = Ok s' u -> key_ok s' /\ ridx_ok e s'.
Proof.
  intros Hk Hr Hcp. unfold sync_risky_one.
  destruct (cdps s t id) as [c|] eqn:Hst; [|discriminate].
  destruct (Hk _ _ _ Hst) as [Ht Hi]. subst t id.
  destruct ((new_interest gf (c_ifac c) (cdp_debt c) =? 0) && (c_upd c =? prev)); [intros H; inversion H; subst; auto|].
  destruct (new_interest gf (c_ifac c) (cdp_debt c) =? 0) eqn:Ez; intros H; inversion H; subst; clear H.
  - set (c0 := with_fees c (c_fees c) prev (c_ifac c)).
    destruct (put_same_ratio_ok e s c0 c Hk Hr Hst eq_refl eq_refl eq_refl) as [Hk1 Hr1].
    set (c2 := with_fees c0 (c_fees c0 + new_interest gf (c_ifac c) (cdp_debt c)) prev gf).
    apply (reindex_ok e (put_cdp s c0) cp c2 c0 Hk1 Hr1 Hcp).
    cbn. unfold upd2. rewrite !Nat.eqb_refl. reflexivity.
  - set (c2 := with_fees c (c_fees c + new_interest gf (c_ifac c) (cdp_debt c)) prev gf).
    apply (reindex_ok e s cp c2 c Hk Hr Hcp Hst).
Qed.

(* SynchronizeInterestForRiskyCDPs (the bulk path that bypasses the keeper helpers) keeps the index exact *)
Lemma sync_risky_idx e s t cp s' u :
  key_ok s -> ridx_ok e s -> get_cp e t = Some cp ->
  sync_risky e s t cp = Ok s' u -> key_ok s' /\ ridx_ok e s'.
Proof.
  intros Hk Hr Hcp. unfold sync_risky. destruct (ptime s t) as [prev|]; [|discriminate].
  destruct (ifac s t) as [gf|].
  - intros H. eapply (ofold_inv (fun x => key_ok x /\ ridx_ok e x)); [|split; eassumption|exact H].
    intros s0 x s1 u0 [Hk0 Hr0] H0. eapply sync_risky_one_idx; eassumption.
  - destruct (map snd _); [intros H; inversion H; subst; auto|discriminate].
Qed.

(* insertion of a new cdp (AddCdp) *)
Lemma insert_new_ok e s cp c :
  key_ok s -> ridx_ok e s -> get_cp e (c_type c) = Some cp ->
  (forall t, cdps s t (c_id c) = None) ->
  let s' := ridx_ins (put_cdp s c) (c_type c) (cdp_ratio e cp c) (c_id c) in
  key_ok s' /\ ridx_ok e s'.
Proof.
  intros Hk Hr Hcp Hfresh s'. split; [apply (put_cdp_key_ok s c Hk)|].
  intros t cp' Hcp'. destruct (Hr t cp' Hcp') as [Hnd Hin]. cbn. unfold upd, upd2.
  destruct (Nat.eqb_spec t (c_type c)) as [->|Nt].
  - assert (cp' = cp) by congruence. subst cp'.
    assert (Hno : forall r, ~ In (r, c_id c) (ridx s (c_type c))).
    { intros r Hr0. apply Hin in Hr0. destruct Hr0 as (c0 & H0 & _). rewrite Hfresh in H0. discriminate. }
    split; [apply nodup_ent_ins; [apply Hno|exact Hnd]|].
    intros r id. rewrite in_ent_ins. cbn [andb]. destruct (Nat.eqb_spec id (c_id c)) as [->|Ni].
    + split; [intros [Heq|H1]; [inversion Heq; subst; eauto|exfalso; eapply Hno; eassumption]|].
      intros (c0 & H0 & ->). inversion H0; subst. left; reflexivity.
    + rewrite Hin. split; [intros [Heq|H1]; [inversion Heq; subst; contradiction|exact H1]|auto].
  - split; [exact Hnd|]. intros r id. rewrite Hin. reflexivity.
Qed.

(* removal of a cdp with its entry (close of a repaid cdp, SeizeCollateral) *)
Lemma remove_ok e s cp c :
  key_ok s -> ridx_ok e s -> get_cp e (c_type c) = Some cp ->
  cdps s (c_type c) (c_id c) = Some c ->
  let s' := del_cdp (ridx_del s (c_type c) (cdp_ratio e cp c) (c_id c)) c in
  key_ok s' /\ ridx_ok e s'.
Proof.
  intros Hk Hr Hcp Hst s'. split.
  - intros t id c' Hc. cbn in Hc. unfold upd2 in Hc. destruct (_ && _); [discriminate|]. apply Hk, Hc.
  - intros t cp' Hcp'. destruct (Hr t cp' Hcp') as [Hnd Hin]. cbn. unfold upd, upd2.
    destruct (Nat.eqb_spec t (c_type c)) as [->|Nt].
    + assert (cp' = cp) by congruence. subst cp'. split; [apply nodup_ent_del, Hnd|].
      intros r id. rewrite in_ent_del, Hin. cbn [andb]. destruct (Nat.eqb_spec id (c_id c)) as [->|Ni].
      * split; [intros [(c0 & H0 & ->) H2]; exfalso; apply H2; congruence|intros (c0 & H0 & _); discriminate].
      * split; [intros [H1 _]; exact H1|intros H1; split; [exact H1|intros Heq; inversion Heq; contradiction]].
    + split; [exact Hnd|]. intros r id. rewrite Hin. reflexivity.
Qed.

(* x/bank send of one coin: exact deltas *)
Lemma b_send_bal s f t d x s' :
  b_send s f t d x = Some s' -> f <> t -> 0 <= x ->
  sup s' = sup s /\
  forall w d0, bal s' w d0 = bal s w d0 - (if Nat.eqb w f && Nat.eqb d0 d then x else 0)
                                        + (if Nat.eqb w t && Nat.eqb d0 d then x else 0).
Proof.
  unfold b_send. intros H Hft Hx. destruct (Z.leb_spec x 0).
  - inversion H; subst. split; [reflexivity|]. intros w d0. assert (x = 0) by lia.
    destruct (_ && _), (_ && _); lia.
  - destruct (bal s f d <? x); [discriminate|]. inversion H; subst. split; [reflexivity|].
    intros w d0. cbn. unfold upd2.
    repeat match goal with |- context [Nat.eqb ?a ?b] => destruct (Nat.eqb_spec a b) end;
      cbn [andb]; subst; try lia; try congruence.
Qed.

(** * ReturnCollateral: every depositor receives exactly the recorded deposit *)
Definition amt_of (w : nat) (dl : list (nat * Z)) : Z :=
  zsum (map (fun d : nat * Z => if Nat.eqb (fst d) w then snd d else 0) dl).

Lemma return_loop_spec e cp id : forall dl s s' u,
  ofold (fun s1 (d : nat * Z) =>
           match b_send s1 (CDPM e) (fst d) (cp_denom cp) (snd d) with
           | None => Panic
           | Some s2 => Ok (del_dep s2 id (fst d)) tt
           end) s dl = Ok s' u ->
  Forall (fun d : nat * Z => 0 <= snd d /\ fst d <> CDPM e) dl ->
  cdps s' = cdps s /\ oidx s' = oidx s /\ ridx s' = ridx s /\ tprin s' = tprin s /\ sup s' = sup s /\
  (forall w d, w <> CDPM e -> bal s' w d = bal s w d + (if Nat.eqb d (cp_denom cp) then amt_of w dl else 0)) /\
  bal s' (CDPM e) (cp_denom cp) = bal s (CDPM e) (cp_denom cp) - zsum (map snd dl) /\
  (forall i w, deps s' i w = if Nat.eqb i id && existsb (Nat.eqb w) (map fst dl) then None else deps s i w).
Proof.
  induction dl as [|d tl IH]; intros s s' u H Hf; cbn [ofold] in H.
  - inversion H; subst. repeat split; try reflexivity.
    + intros w d _. unfold amt_of. cbn. destruct (Nat.eqb d (cp_denom cp)); lia.
    + cbn. lia.
    + intros i w. cbn. rewrite andb_false_r. reflexivity.
  - inversion Hf as [|? ? [Hd Hne] Htl]; subst.
    destruct (b_send s _ _ _ _) as [s2|] eqn:Eb; [|discriminate].
    apply IH in H; [|assumption]. destruct H as (A1 & A2 & A3 & A4 & A5 & A6 & A7 & A8).
    pose proof (b_send_frame _ _ _ _ _ _ Eb) as (B1 & B2 & B3 & B4 & B5 & _).
    cbn in A1, A2, A3, A4, A5.
    destruct (b_send_bal _ _ _ _ _ _ Eb (not_eq_sym Hne) Hd) as [Hs Hb].
    repeat split; try congruence.
    + intros w d0 Hw. rewrite A6 by assumption. cbn [del_dep set_deps bal]. rewrite Hb.
      destruct (Nat.eqb_spec w (CDPM e)); [contradiction|]. cbn [andb].
      unfold amt_of. cbn [map zsum fold_right]. fold (zsum (map (fun d1 : nat * Z => if Nat.eqb (fst d1) w then snd d1 else 0) tl)).
      rewrite (Nat.eqb_sym w (fst d)).
      destruct (Nat.eqb (fst d) w); destruct (Nat.eqb d0 (cp_denom cp)); cbn [andb]; lia.
    + rewrite A7. cbn [del_dep set_deps bal]. rewrite Hb, !Nat.eqb_refl. cbn [andb].
      destruct (Nat.eqb_spec (CDPM e) (fst d)); [congruence|]. cbn [andb map zsum fold_right]. fold (zsum (map snd tl)). lia.
    + intros i w. rewrite A8. cbn [map existsb del_dep set_deps deps]. unfold upd2. rewrite B2.
      destruct (Nat.eqb_spec i id) as [->|]; cbn [andb]; [|reflexivity].
      destruct (Nat.eqb_spec w (fst d)) as [->|]; cbn [orb]; destruct (existsb _ _); reflexivity.
Qed.

Lemma amt_of_dep_list e s id w :
  (w < nusers e)%nat -> amt_of w (dep_list e s id) = oz0 (deps s id w).
Proof.
  unfold dep_list, amt_of. intros Hw.
  set (g := fun d : nat * Z => if Nat.eqb (fst d) w then snd d else 0).
  set (f := fun u => match deps s id u with Some a => [(u, a)] | None => [] end).
  assert (G : forall m k, zsum (map g (flat_map f (seq k m))) =
     if (Nat.leb k w && Nat.ltb w (k + m))%nat then oz0 (deps s id w) else 0).
  { induction m as [|m IH]; intros k; cbn [seq flat_map].
    - cbn [map zsum fold_right]. destruct (Nat.leb_spec k w); destruct (Nat.ltb_spec w (k + 0)); cbn [andb]; try reflexivity; lia.
    - rewrite map_app, zsum_app, IH.
      assert (Hh : zsum (map g (f k)) = if Nat.eqb k w then oz0 (deps s id k) else 0).
      { unfold f, g. destruct (deps s id k); cbn; destruct (Nat.eqb k w); cbn; lia. }
      rewrite Hh.
      destruct (Nat.eqb_spec k w) as [Ekw|Nkw].
      + rewrite Ekw.
        destruct (Nat.leb_spec (S w) w); destruct (Nat.leb_spec w w);
        destruct (Nat.ltb_spec w (S w + m)); destruct (Nat.ltb_spec w (w + S m)); cbn [andb]; try lia.
      + destruct (Nat.leb_spec (S k) w); destruct (Nat.leb_spec k w);
        destruct (Nat.ltb_spec w (S k + m)); destruct (Nat.ltb_spec w (k + S m)); cbn [andb]; try lia. }
  rewrite G. destruct (Nat.leb_spec 0 w); destruct (Nat.ltb_spec w (0 + nusers e)); cbn [andb]; try reflexivity; lia.
Qed.

(* ReturnCollateral *)
Lemma return_collateral_spec e s cp c s' u :
  return_collateral e s cp c = Ok s' u ->
  (forall w a, deps s (c_id c) w = Some a -> 0 <= a) ->
  cdps s' = cdps s /\ oidx s' = oidx s /\ ridx s' = ridx s /\ sup s' = sup s /\
  (forall w, (w < nusers e)%nat ->
     bal s' w (cp_denom cp) = bal s w (cp_denom cp) + oz0 (deps s (c_id c) w) /\ deps s' (c_id c) w = None) /\
  (forall w d, (w < nusers e)%nat -> d <> cp_denom cp -> bal s' w d = bal s w d) /\
  bal s' (CDPM e) (cp_denom cp) = bal s (CDPM e) (cp_denom cp) - dep_total e s (c_id c) /\
  (forall i w, i <> c_id c -> deps s' i w = deps s i w).
Proof.
  unfold return_collateral. intros H Hpos.
  apply return_loop_spec in H.
  2:{ apply Forall_forall. intros [w a] Hin. apply dep_list_in in Hin. destruct Hin as [Hw Hin]. cbn.
      split; [eapply Hpos; eassumption|unfold CDPM; lia]. }
  destruct H as (A1 & A2 & A3 & A4 & A5 & A6 & A7 & A8).
  repeat split; try assumption.
  - rewrite A6 by (unfold CDPM; lia). rewrite Nat.eqb_refl, amt_of_dep_list by assumption. reflexivity.
  - rewrite A8, Nat.eqb_refl. cbn [andb].
    destruct (existsb (Nat.eqb w) (map fst (dep_list e s (c_id c)))) eqn:Ex; [reflexivity|].
    destruct (deps s (c_id c) w) as [a|] eqn:Ed; [|reflexivity].
    exfalso. assert (In (w, a) (dep_list e s (c_id c))) as Hin by (apply dep_list_in; auto).
    apply (in_map fst) in Hin. cbn in Hin.
    assert (existsb (Nat.eqb w) (map fst (dep_list e s (c_id c))) = true).
    { apply existsb_exists. exists w. split; [assumption|apply Nat.eqb_refl]. }
    congruence.
  - intros w d Hw Hd. rewrite A6 by (unfold CDPM; lia). destruct (Nat.eqb_spec d (cp_denom cp)); [contradiction|lia].
  - rewrite A7. f_equal. unfold dep_total, dep_list.
    generalize (nusers e). intros n.
    assert (G : forall k m, zsum (map snd (flat_map (fun u0 => match deps s (c_id c) u0 with Some a => [(u0, a)] | None => [] end) (seq k m))) =
       sumN m (fun j => oz0 (deps s (c_id c) (k + j)%nat))).
    { intros k m. revert k. induction m as [|m IH]; intros k; [reflexivity|].
      rewrite seq_S, flat_map_app, map_app, zsum_app, IH. cbn [sumN flat_map].
      destruct (deps s (c_id c) (k + m)); cbn; lia. }
    rewrite G. clear. induction n; cbn [sumN]; [reflexivity|]. rewrite IHn. reflexivity.
  - intros i w Hi. rewrite A8. destruct (Nat.eqb_spec i (c_id c)); [contradiction|reflexivity].
Qed.

(** * Lifting to whole operations: the indexes of DepositCollateral, WithdrawCollateral, AddPrincipal *)
Lemma idx_frame e s s' : cdps s' = cdps s -> ridx s' = ridx s -> key_ok s /\ ridx_ok e s -> key_ok s' /\ ridx_ok e s'.
Proof.
  intros Hc Hr [Hk Hx]. split.
  - intros t id c H. rewrite Hc in H. apply Hk, H.
  - intros t cp Hcp. rewrite Hr, Hc. apply Hx, Hcp.
Qed.

Lemma first_cdp_stored e s t : forall ids c, first_cdp e s t ids = Some c -> exists id, get_cdp e s t id = Some c.
Proof.
  induction ids as [|id r IH]; intros c H; [discriminate|]. cbn [first_cdp] in H.
  destruct (get_cdp e s t id) as [c'|] eqn:E; [inversion H; subst; eauto|apply IH, H].
Qed.

Lemma find_cdp_stored e s o t c cp :
  key_ok s -> find_cdp e s o t = Some c -> get_cp e t = Some cp ->
  c_type c = t /\ cdps s (c_type c) (c_id c) = Some c.
Proof.
  intros Hk Hf Hcp. apply first_cdp_stored in Hf. destruct Hf as (id & Hg).
  unfold get_cdp in Hg. rewrite Hcp in Hg. destruct (Hk _ _ _ Hg) as [-> ->]. auto.
Qed.

Lemma deposit_idx e s o u t cd x s' v :
  key_ok s -> ridx_ok e s -> deposit e s o u t cd x = Ok s' v -> key_ok s' /\ ridx_ok e s'.
Proof.
  intros Hk Hr. unfold deposit. destruct (0 <? x); [|discriminate]. cbn [negb].
  destruct (validate_collateral e s t cd) as [cp|] eqn:Ev; [|discriminate].
  apply validate_collateral_ok in Ev. destruct Ev as (Hcp & _).
  destruct (find_cdp e s o t) as [c0|] eqn:Ef; [|discriminate].
  destruct (find_cdp_stored _ _ _ _ _ _ Hk Ef Hcp) as [Ht Hst].
  destruct (bal s u cd <? x); [discriminate|].
  destruct (sync_interest e s cp c0) as [s1 c| |] eqn:Es; try discriminate.
  pose proof (sync_interest_spec _ _ _ _ _ _ Es) as (_ & Hid & Hty & _).
  apply sync_interest_idx in Es; try assumption; [|rewrite Ht; assumption].
  destruct Es as (Hk1 & Hr1 & Hst1).
  destruct (b_send s1 u (CDPM e) cd x) as [s2|] eqn:Eb; [|discriminate].
  intros H. apply update_cdp_idx in H; try assumption.
  - cbn. apply (idx_frame e s1); [| |split; assumption];
    cbn; [rewrite (bank_only_cdps _ _ (b_send_frame _ _ _ _ _ _ Eb))|rewrite (bank_only_ridx _ _ (b_send_frame _ _ _ _ _ _ Eb))]; reflexivity.
  - cbn. apply (idx_frame e s1); [| |split; assumption];
    cbn; [rewrite (bank_only_cdps _ _ (b_send_frame _ _ _ _ _ _ Eb))|rewrite (bank_only_ridx _ _ (b_send_frame _ _ _ _ _ _ Eb))]; reflexivity.
  - cbn. rewrite Hty, Ht. exact Hcp.
Qed.

Lemma draw_idx e s o t pd x s' v :
  key_ok s -> ridx_ok e s -> draw e s o t pd x = Ok s' v -> key_ok s' /\ ridx_ok e s'.
Proof.
  intros Hk Hr. unfold draw. destruct (0 <? x); [|discriminate]. cbn [negb].
  destruct (find_cdp e s o t) as [c0|] eqn:Ef; [|discriminate].
  destruct (get_cp e t) as [cp|] eqn:Hcp; [|discriminate].
  destruct (find_cdp_stored _ _ _ _ _ _ Hk Ef Hcp) as [Ht Hst].
  destruct (mstat s (cp_spot cp) && mstat s (cp_liqm cp)) eqn:Em; [|discriminate]. cbn [negb].
  destruct (Nat.eqb pd (d_usdx e)); [|discriminate]. cbn [negb].
  destruct (debt_limit_ok e s t cp x); [|discriminate]. cbn [negb].
  destruct (sync_interest e s cp c0) as [s1 c| |] eqn:Es; try discriminate.
  pose proof (sync_interest_spec _ _ _ _ _ _ Es) as (_ & Hid & Hty & _).
  apply sync_interest_idx in Es; try assumption; [|rewrite Ht; assumption].
  destruct Es as (Hk1 & Hr1 & Hst1).
  destruct (ratio_gate _ _ _ _ _ _) as [[] []| |]; try discriminate.
  destruct (b_send _ _ _ _ _) as [s3|] eqn:Eb; [|discriminate].
  intros H.
  assert (Hf : key_ok (set_tprin (b_mint s3 (CDPM e) (d_debt e) x)
                 (upd (tprin (b_mint s3 (CDPM e) (d_debt e) x)) t (tprin (b_mint s3 (CDPM e) (d_debt e) x) t + x))) /\
               ridx_ok e (set_tprin (b_mint s3 (CDPM e) (d_debt e) x)
                 (upd (tprin (b_mint s3 (CDPM e) (d_debt e) x)) t (tprin (b_mint s3 (CDPM e) (d_debt e) x) t + x)))).
  { apply (idx_frame e s1); [| |split; assumption]; cbn.
    - rewrite (bank_only_cdps _ _ (b_mint_frame _ _ _ _)), (bank_only_cdps _ _ (b_send_frame _ _ _ _ _ _ Eb)),
        (bank_only_cdps _ _ (b_mint_frame _ _ _ _)). reflexivity.
    - rewrite (bank_only_ridx _ _ (b_mint_frame _ _ _ _)), (bank_only_ridx _ _ (b_send_frame _ _ _ _ _ _ Eb)),
        (bank_only_ridx _ _ (b_mint_frame _ _ _ _)). reflexivity. }
  destruct Hf as [Hk3 Hr3].
  apply update_cdp_idx in H; try assumption. cbn. rewrite Hty, Ht. exact Hcp.
Qed.

Lemma withdraw_idx e s o u t cd x s' v :
  key_ok s -> ridx_ok e s -> withdraw e s o u t cd x = Ok s' v -> key_ok s' /\ ridx_ok e s'.
Proof.
  intros Hk Hr. unfold withdraw. destruct (0 <? x); [|discriminate]. cbn [negb].
  destruct (validate_collateral e s t cd) as [cp|] eqn:Ev; [|discriminate].
  apply validate_collateral_ok in Ev. destruct Ev as (Hcp & _).
  destruct (find_cdp e s o t) as [c0|] eqn:Ef; [|discriminate].
  destruct (find_cdp_stored _ _ _ _ _ _ Hk Ef Hcp) as [Ht Hst].
  destruct (deps s (c_id c0) u) as [a|]; [|discriminate].
  destruct (a <? x); [discriminate|].
  destruct (sync_interest e s cp c0) as [s1 c| |] eqn:Es; try discriminate.
  pose proof (sync_interest_spec _ _ _ _ _ _ Es) as (_ & Hid & Hty & _).
  apply sync_interest_idx in Es; try assumption; [|rewrite Ht; assumption].
  destruct Es as (Hk1 & Hr1 & Hst1).
  destruct (c_coll c <? x); [discriminate|].
  destruct (ratio_gate _ _ _ _ _ _) as [[] []| |]; try discriminate.
  destruct (b_send _ _ _ _ _) as [s2|] eqn:Eb; [|discriminate].
  destruct (update_cdp _ _ _ _ _) as [s3 []| |] eqn:Eu; try discriminate.
  intros H.
  assert (Hf : key_ok s2 /\ ridx_ok e s2).
  { apply (idx_frame e s1); [| |split; assumption].
    - apply (bank_only_cdps _ _ (b_send_frame _ _ _ _ _ _ Eb)).
    - apply (bank_only_ridx _ _ (b_send_frame _ _ _ _ _ _ Eb)). }
  destruct Hf as [Hk2 Hr2].
  apply update_cdp_idx in Eu; try assumption; [|cbn; rewrite Hty, Ht; exact Hcp].
  inversion H; subst. apply (idx_frame e s3); [| |assumption]; destruct (a - x =? 0); reflexivity.
Qed.

(* the empty stores of genesis satisfy the index invariants *)
Lemma init_idx_ok e bals sups prices status ifacs ptimes startid t h :
  let s := mk_state bals sups prices status ifacs ptimes startid t h in key_ok s /\ ridx_ok e s.
Proof.
  cbv zeta. split.
  - intros t0 id c H. cbn in H. discriminate.
  - intros t0 cp _. cbn. split; [constructor|]. intros r id. split; [intros []|intros (c & H & _); discriminate].
Qed.
