(* Lemmas about Model/SavListing.v: the savings SupportedDenoms parameter inside a C12 history.
   The flag gates deposits only; the tally, withdrawals and every other operation are those of
   Model/LiquidMsg.v on the state component, so invariant and backing carry over, and a tally does
   not depend on the flag. *)
From Kava Require Import Base.Prelude Base.Dec Model.Staking Model.Tally Model.Liquid Model.TallyTie Model.LiquidMsg Model.SavListing.
From Kava Require Import Proofs.Liquid Proofs.Tally Proofs.LiquidMsg.
Local Open Scope Z_scope.

Lemma sstep_ok_cases e s l o sl out :
  sstep e s l o = Ok sl out ->
  (exists b, o = SSetListed b /\ sl = (s, b) /\ out = ONone) \/
  (exists m, o = SMsg m /\ mstep e s m = Ok (fst sl) out /\ snd sl = l).
Proof.
  destruct o as [m|b]; cbn [sstep]; intros H.
  - right. exists m. split; [reflexivity|].
    destruct (deposits_to_savings m && negb l); [discriminate|].
    destruct (mstep e s m) as [s' x| |]; try discriminate. injection H as <- <-. auto.
  - left. exists b. injection H as <- <-. auto.
Qed.

Lemma sstep'_cases e sl o :
  fst (sstep' e sl o) = fst sl \/ exists m, fst (sstep' e sl o) = mstep' e (fst sl) m.
Proof.
  unfold sstep'. destruct (sstep e (fst sl) (snd sl) o) as [sl' out| |] eqn:E; auto.
  destruct (sstep_ok_cases _ _ _ _ _ _ E) as [(b & -> & -> & ->)|(m & -> & Hm & _)]; [left; reflexivity|].
  right. exists m. unfold mstep'. now rewrite Hm.
Qed.

Theorem sstep_inv e s l o sl out : env_wf e -> Inv e s -> sstep e s l o = Ok sl out -> Inv e (fst sl).
Proof.
  intros Hwf HI H. destruct (sstep_ok_cases _ _ _ _ _ _ H) as [(b & _ & -> & _)|(m & _ & Hm & _)]; [exact HI|].
  eapply mstep_inv; eauto.
Qed.

Theorem sstep_backed e s l o sl out : backed_all e s -> sstep e s l o = Ok sl out -> backed_all e (fst sl).
Proof.
  intros HB H. destruct (sstep_ok_cases _ _ _ _ _ _ H) as [(b & _ & -> & _)|(m & _ & Hm & _)]; [exact HB|].
  eapply mstep_backed; eauto.
Qed.

Theorem srun_inv e os : forall sl, env_wf e -> Inv e (fst sl) -> Inv e (fst (srun e sl os)).
Proof.
  induction os as [|o r IH]; intros sl Hwf HI; [exact HI|]. cbn [srun fold_left]. apply IH; auto.
  destruct (sstep'_cases e sl o) as [E|(m & E)]; rewrite E; [exact HI|].
  exact (mrun_inv e [m] (fst sl) Hwf HI).
Qed.

Theorem srun_backed e os : forall sl, backed_all e (fst sl) -> backed_all e (fst (srun e sl os)).
Proof.
  induction os as [|o r IH]; intros sl HB; [exact HB|]. cbn [srun fold_left]. apply IH.
  destruct (sstep'_cases e sl o) as [E|(m & E)]; rewrite E; [exact HB|].
  exact (mrun_backed e [m] (fst sl) HB).
Qed.

(* the tally does not read the parameter: whatever the flag, a tally is the tally of the state
   (votes, delegations, wallet + savings + earn holdings) *)
Theorem sstep_tally_any_listing e s l votes :
  sstep e s l (SMsg (MPlain (Tally votes))) =
  match tally e s votes with Some t => Ok (s, l) (OTally t) | None => Panic end.
Proof. cbn [sstep deposits_to_savings andb mstep step]. destruct (tally e s votes); reflexivity. Qed.

(* changing the parameter moves no holding *)
Theorem set_listed_keeps_state e s l b : sstep e s l (SSetListed b) = Ok (s, b) ONone.
Proof. reflexivity. Qed.

(* withdrawals are not gated *)
Theorem sstep_unstash_any_listing e s l p a i amt :
  sstep e s l (SMsg (MPlain (Unstash p a i amt))) =
  match step e s (Unstash p a i amt) with Ok s' x => Ok (s', l) x | Err => Err | Panic => Panic end.
Proof. reflexivity. Qed.

(* deposits are refused while the denom is not listed, and are the plain deposits while it is *)
Theorem sstep_stash_delisted e s p a i amt : sstep e s false (SMsg (MPlain (Stash p a i amt))) = Err.
Proof. reflexivity. Qed.

Theorem sstep_listed_is_mstep e s m :
  sstep e s true (SMsg m) = match mstep e s m with Ok s' x => Ok (s', true) x | Err => Err | Panic => Panic end.
Proof. cbn [sstep negb]. now rewrite andb_false_r. Qed.

(* de-listing (or re-listing) between two tallies of the same votes changes nothing *)
Theorem tally_same_after_set_listed e s l b votes sl :
  sstep e s l (SSetListed b) = Ok sl ONone ->
  class_of (sstep e (fst sl) (snd sl) (SMsg (MPlain (Tally votes)))) = class_of (sstep e s l (SMsg (MPlain (Tally votes)))) /\
  forall s1 l1 s2 l2 x1 x2,
    sstep e (fst sl) (snd sl) (SMsg (MPlain (Tally votes))) = Ok (s1, l1) x1 ->
    sstep e s l (SMsg (MPlain (Tally votes))) = Ok (s2, l2) x2 -> x1 = x2 /\ s1 = s2.
Proof.
  intros H. cbn [sstep] in H. injection H as <-. cbn [fst snd].
  rewrite !sstep_tally_any_listing. destruct (tally e s votes) as [t|].
  - split; [reflexivity|]. intros s1 l1 s2 l2 x1 x2 H1 H2. injection H1 as <- _ <-. injection H2 as <- _ <-. auto.
  - split; [reflexivity|]. intros; discriminate.
Qed.
