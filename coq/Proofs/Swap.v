(* Lemmas and proofs about Model/Swap.v *)
From Kava Require Import Base.Prelude Base.Dec Model.Swap.
Local Open Scope Z_scope.

(** * Arithmetic *)

Lemma quot_spec a b : 0 <= a -> 0 < b ->
  Z.quot a b = a / b /\ 0 <= a / b /\ (a / b) * b <= a < (a / b + 1) * b.
Proof.
  intros Ha Hb. split; [apply Z.quot_div_nonneg; lia|].
  pose proof (Z.div_mod a b ltac:(lia)) as E.
  pose proof (Z.mod_pos_bound a b Hb) as B.
  assert (0 <= a / b) by (apply Z.div_pos; lia). nia.
Qed.

Lemma div_ge_of_mul a b q : 0 < b -> q * b <= a -> q <= a / b.
Proof. intros Hb H. apply Z.div_le_lower_bound; lia. Qed.

Lemma div_lt_of_mul a b q : 0 < b -> a < q * b -> a / b < q.
Proof. intros Hb H. apply Z.div_lt_upper_bound; lia. Qed.

(* floor square root: the specification of big.Int.Sqrt *)
Lemma initial_shares_spec a b : 0 <= a * b ->
  let s := initial_shares a b in 0 <= s /\ s * s <= a * b < (s + 1) * (s + 1).
Proof.
  intros H s. unfold s, initial_shares. split; [apply Z.sqrt_nonneg|].
  pose proof (Z.sqrt_spec (a * b) H) as S. cbv zeta in S. unfold Z.succ in S. lia.
Qed.

Lemma initial_shares_pos a b : 1 <= a -> 1 <= b -> 1 <= initial_shares a b.
Proof.
  intros Ha Hb. unfold initial_shares.
  assert (0 < Z.sqrt (a * b)) by (apply Z.sqrt_pos; nia). lia.
Qed.

(* in.Mul(1 - fee).TruncateInt() = floor(in * (1 - fee)) *)
Lemma in_after_fee_eq inn f : 0 <= inn -> 0 <= f < PREC ->
  dec_trunc_int (dec_mul (dec_of_int inn) (dec_sub dec_one f)) = (inn * (PREC - f)) / PREC.
Proof.
  intros Hi Hf. unfold dec_trunc_int, dec_mul, dec_of_int, dec_sub, dec_one.
  replace (inn * PREC * (PREC - f)) with ((inn * (PREC - f)) * PREC) by ring.
  rewrite chop_round_exact by nia.
  apply Z.quot_div_nonneg; [nia | apply PREC_pos].
Qed.

(* the fee of an exact-input swap is exactly ceil(in * fee) *)
Lemma fee_is_ceil inn f : 0 <= inn -> 0 <= f < PREC ->
  let iaf := (inn * (PREC - f)) / PREC in
  0 <= iaf <= inn /\ inn * f <= (inn - iaf) * PREC < inn * f + PREC.
Proof.
  intros Hi Hf iaf.
  pose proof PREC_pos as PP.
  pose proof (Z.div_mod (inn * (PREC - f)) PREC ltac:(lia)) as E.
  pose proof (Z.mod_pos_bound (inn * (PREC - f)) PREC PP) as B.
  fold iaf in E.
  assert (0 <= iaf) by (apply Z.div_pos; nia).
  assert (iaf <= inn) by (apply Z.div_le_upper_bound; nia).
  split; [lia|]. nia.
Qed.

(* constant product: the truncated output never decreases the product *)
Lemma out_product inRes outRes i : 1 <= inRes -> 1 <= outRes -> 0 <= i ->
  let out := (outRes * i) / (inRes + i) in
  0 <= out < outRes /\ (inRes + i) * (outRes - out) >= inRes * outRes.
Proof.
  intros Ha Hb Hi out.
  assert (Hd : 0 < inRes + i) by lia.
  pose proof (Z.div_mod (outRes * i) (inRes + i) ltac:(lia)) as E.
  pose proof (Z.mod_pos_bound (outRes * i) (inRes + i) Hd) as B.
  fold out in E.
  assert (0 <= out) by (apply Z.div_pos; nia).
  assert (out < outRes) by (apply Z.div_lt_upper_bound; nia).
  split; [lia|]. nia.
Qed.

Lemma dec_ceil_multiple a : exists k, dec_ceil a = k * PREC.
Proof.
  unfold dec_ceil. destruct (Z.rem a PREC <=? 0); eexists; reflexivity.
Qed.

(* Dec.Quo followed by Ceil and TruncateInt never undershoots w / (1 - fee):
   the double rounding of Quo loses less than one ulp, and w*P/D, when it is
   not an integer, exceeds its floor by at least one ulp (because D <= P). *)
Lemma quo_ceil_ge w D : 1 <= w -> 0 < D <= PREC ->
  dec_trunc_int (dec_ceil (dec_quo (dec_of_int w) D)) * D >= w * PREC.
Proof.
  intros Hw HD. pose proof PREC_pos as PP.
  unfold dec_quo, dec_of_int.
  rewrite Z.quot_div_nonneg by nia.
  set (T := (w * PREC * PREC * PREC) / D).
  set (n := (w * PREC) / D).
  set (r := (w * PREC) mod D).
  pose proof (Z.div_mod (w * PREC) D ltac:(lia)) as E. fold n r in E.
  pose proof (Z.mod_pos_bound (w * PREC) D ltac:(lia)) as B. fold r in B.
  assert (Hn : 0 <= n) by (apply Z.div_pos; nia).
  (* lower bound on the 36-digit truncation *)
  assert (HT : (n * PREC + (if r =? 0 then 0 else 1)) * PREC <= T).
  { apply div_ge_of_mul; [lia|].
    replace (w * PREC * PREC * PREC) with ((D * n + r) * (PREC * PREC)) by (rewrite <- E; ring).
    destruct (Z.eqb_spec r 0) as [R0|R0].
    - nia.
    - assert (1 <= r) by lia.
      assert (D * PREC <= r * (PREC * PREC)) by nia. nia. }
  set (m := n * PREC + (if r =? 0 then 0 else 1)) in *.
  assert (Hm : 0 <= m) by (unfold m; destruct (r =? 0); nia).
  assert (HQ : m <= chop_round T).
  { rewrite <- (chop_round_exact m Hm). apply chop_round_mono_nonneg. nia. }
  set (Q := chop_round T) in *.
  assert (HQ0 : 0 <= Q) by lia.
  pose proof (dec_ceil_ge Q HQ0) as C.
  destruct (dec_ceil_multiple Q) as [k Hk]. rewrite Hk in *.
  unfold dec_trunc_int. rewrite Z.quot_mul by lia.
  unfold m in HQ. destruct (Z.eqb_spec r 0) as [R0|R0].
  - assert (n <= k) by nia. nia.
  - assert (n + 1 <= k) by nia. nia.
Qed.

(** * BasePool *)

Definition wf (p : pool) : Prop := 1 <= ra p /\ 1 <= rb p /\ 1 <= sh p.

Lemma fee_ok_spec f : fee_ok f = true <-> 0 <= f < PREC.
Proof. unfold fee_ok. rewrite andb_true_iff, Z.leb_le, Z.ltb_lt. tauto. Qed.

Ltac dif H :=
  match type of H with
  | context [if ?c then _ else _] => destruct c eqn:?; [try discriminate H | try discriminate H]
  end.

(** ** exact-input swaps *)

Lemma calc_out_exact_in_spec inn inRes outRes fee out fv :
  1 <= inRes -> 1 <= outRes ->
  calc_out_exact_in inn inRes outRes fee = POk (out, fv) ->
  1 <= inn /\ 0 <= fee < PREC /\
  inn - fv = (inn * (PREC - fee)) / PREC /\ 0 <= inn - fv <= inn /\
  out = (outRes * (inn - fv)) / (inRes + (inn - fv)) /\ 0 <= out < outRes /\
  (inRes + (inn - fv)) * (outRes - out) >= inRes * outRes /\
  inn * fee <= fv * PREC < inn * fee + PREC.
Proof.
  intros Ha Hb H. unfold calc_out_exact_in in H.
  destruct (Z.leb_spec inn 0) as [|Hin]; [discriminate|].
  destruct (fee_ok fee) eqn:Hf; cbn [negb] in H; [|discriminate].
  apply fee_ok_spec in Hf.
  rewrite in_after_fee_eq in H by lia.
  destruct (fee_is_ceil inn fee ltac:(lia) Hf) as (Hi1 & Hi2).
  set (iaf := inn * (PREC - fee) / PREC) in *.
  repeat dif H.
  destruct (out_product inRes outRes iaf Ha Hb ltac:(lia)) as (Ho1 & Ho2).
  destruct (quot_spec (outRes * iaf) (inRes + iaf) ltac:(nia) ltac:(lia)) as (Q & _).
  rewrite Q in H. inversion H; subst out fv; clear H.
  replace (inn - (inn - iaf)) with iaf by ring.
  repeat split; try lia.
Qed.

Lemma calc_out_exact_in_not_broken inn inRes outRes fee :
  calc_out_exact_in inn inRes outRes fee <> PPanic InvariantBroken.
Proof.
  unfold calc_out_exact_in. repeat (match goal with |- context [if ?c then _ else _] => destruct c end); discriminate.
Qed.

Lemma update_reserves_spec p na fa nb fb p' :
  update_reserves p na fa nb fb = POk p' ->
  ra p' = na /\ rb p' = nb /\ sh p' = sh p /\ (na - fa) * (nb - fb) >= ra p * rb p.
Proof.
  unfold update_reserves. intros H. repeat dif H. inversion H; subst; cbn.
  match goal with E : (_ <? _) = false |- _ => apply Z.ltb_ge in E end. repeat split; lia.
Qed.

Lemma update_reserves_not_broken p na fa nb fb :
  (na - fa) * (nb - fb) >= ra p * rb p ->
  update_reserves p na fa nb fb <> PPanic InvariantBroken.
Proof.
  intros H. unfold update_reserves.
  destruct (negb _); [discriminate|].
  destruct (Z.ltb_spec ((na - fa) * (nb - fb)) (ra p * rb p)); [lia|discriminate].
Qed.

Lemma swap_exact_a_for_b_spec p a fee p' b fv : wf p ->
  swap_exact_a_for_b p a fee = POk (p', (b, fv)) ->
  1 <= a /\ 0 <= fee < PREC /\
  ra p' = ra p + a /\ rb p' = rb p - b /\ sh p' = sh p /\
  0 <= b < rb p /\ 0 <= fv <= a /\
  (ra p + a - fv) * (rb p - b) >= ra p * rb p /\
  a * fee <= fv * PREC < a * fee + PREC.
Proof.
  intros (Ha & Hb & Hs) H. unfold swap_exact_a_for_b in H.
  destruct (calc_out_exact_in a (ra p) (rb p) fee) as [[b0 fv0]|] eqn:C; [|discriminate].
  apply calc_out_exact_in_spec in C; try assumption.
  dif H.
  destruct (update_reserves p (ra p + a) fv0 (rb p - b0) 0) as [q|] eqn:U; [|discriminate].
  apply update_reserves_spec in U. inversion H; subst. clear H.
  destruct C as (? & ? & ? & ? & ? & ? & ? & ?), U as (? & ? & ? & ?).
  repeat split; try lia; nia.
Qed.

Lemma swap_exact_b_for_a_spec p b fee p' a fv : wf p ->
  swap_exact_b_for_a p b fee = POk (p', (a, fv)) ->
  1 <= b /\ 0 <= fee < PREC /\
  ra p' = ra p - a /\ rb p' = rb p + b /\ sh p' = sh p /\
  0 <= a < ra p /\ 0 <= fv <= b /\
  (ra p - a) * (rb p + b - fv) >= ra p * rb p /\
  b * fee <= fv * PREC < b * fee + PREC.
Proof.
  intros (Ha & Hb & Hs) H. unfold swap_exact_b_for_a in H.
  destruct (calc_out_exact_in b (rb p) (ra p) fee) as [[a0 fv0]|] eqn:C; [|discriminate].
  apply calc_out_exact_in_spec in C; try assumption.
  dif H.
  destruct (update_reserves p (ra p - a0) 0 (rb p + b) fv0) as [q|] eqn:U; [|discriminate].
  apply update_reserves_spec in U. inversion H; subst. clear H.
  destruct C as (? & ? & ? & ? & ? & ? & ? & ?), U as (? & ? & ? & ?).
  repeat split; try lia; nia.
Qed.

(* the internal product assertion can never fire on a well-formed pool *)
Lemma swap_exact_a_for_b_not_broken p a fee : wf p ->
  swap_exact_a_for_b p a fee <> PPanic InvariantBroken.
Proof.
  intros (Ha & Hb & Hs). unfold swap_exact_a_for_b.
  destruct (calc_out_exact_in a (ra p) (rb p) fee) as [[b0 fv0]|w] eqn:C.
  - apply calc_out_exact_in_spec in C; try assumption.
    destruct (negb _); [discriminate|].
    destruct (update_reserves p (ra p + a) fv0 (rb p - b0) 0) eqn:U; [discriminate|].
    intros X. inversion X; subst.
    eapply update_reserves_not_broken; [|exact U].
    destruct C as (? & ? & ? & ? & ? & ? & ? & ?).
    replace (ra p + a - fv0) with (ra p + (a - fv0)) by ring. lia.
  - intros X. inversion X; subst. eapply calc_out_exact_in_not_broken; exact C.
Qed.

Lemma swap_exact_b_for_a_not_broken p b fee : wf p ->
  swap_exact_b_for_a p b fee <> PPanic InvariantBroken.
Proof.
  intros (Ha & Hb & Hs). unfold swap_exact_b_for_a.
  destruct (calc_out_exact_in b (rb p) (ra p) fee) as [[a0 fv0]|w] eqn:C.
  - apply calc_out_exact_in_spec in C; try assumption.
    destruct (negb _); [discriminate|].
    destruct (update_reserves p (ra p - a0) 0 (rb p + b) fv0) eqn:U; [discriminate|].
    intros X. inversion X; subst.
    eapply update_reserves_not_broken; [|exact U].
    destruct C as (? & ? & ? & ? & ? & ? & ? & ?).
    replace (rb p + b - fv0) with (rb p + (b - fv0)) by ring. nia.
  - intros X. inversion X; subst. eapply calc_out_exact_in_not_broken; exact C.
Qed.

(** ** exact-output swaps *)

Lemma calc_in_exact_out_spec out outRes inRes fee inn fv :
  1 <= inRes -> 1 <= outRes ->
  calc_in_exact_out out outRes inRes fee = POk (inn, fv) ->
  1 <= out < outRes /\ 0 <= fee < PREC /\
  1 <= inn - fv /\
  (inn - fv) * (outRes - out) >= inRes * out /\
  (inn - fv - 1) * (outRes - out) < inRes * out /\
  inn * (PREC - fee) >= (inn - fv) * PREC /\
  (inRes + (inn - fv)) * (outRes - out) >= inRes * outRes.
Proof.
  intros Ha Hb H. unfold calc_in_exact_out in H.
  destruct (Z.leb_spec out 0) as [|Ho]; [discriminate|].
  destruct (Z.leb_spec outRes out) as [|Ho2]; [discriminate|].
  destruct (fee_ok fee) eqn:Hf; cbn [negb] in H; [|discriminate].
  apply fee_ok_spec in Hf.
  assert (Hd : 0 < outRes - out) by lia.
  destruct (quot_spec (inRes * out) (outRes - out) ltac:(nia) Hd) as (Q & Q0 & Q1).
  rewrite Q in H.
  rewrite Z.rem_mod_nonneg in H by nia.
  pose proof (Z.div_mod (inRes * out) (outRes - out) ltac:(lia)) as E.
  pose proof (Z.mod_pos_bound (inRes * out) (outRes - out) Hd) as B.
  set (q := inRes * out / (outRes - out)) in *.
  set (r := (inRes * out) mod (outRes - out)) in *.
  set (w := if r =? 0 then q else q + 1) in *.
  assert (Hw : 1 <= w /\ w * (outRes - out) >= inRes * out /\ (w - 1) * (outRes - out) < inRes * out).
  { unfold w. destruct (Z.eqb_spec r 0); [|nia].
    assert (1 <= q) by nia. nia. }
  repeat dif H.
  pose proof (quo_ceil_ge w (dec_sub dec_one fee) ltac:(lia) ltac:(unfold dec_sub, dec_one; lia)) as G.
  unfold dec_sub at 2, dec_one at 2 in G.
  set (i := dec_trunc_int (dec_ceil (dec_quo (dec_of_int w) (dec_sub dec_one fee)))) in *.
  clearbody i. clearbody w.
  assert (Hi : i = inn /\ i - w = fv) by (split; congruence).
  destruct Hi as [<- <-]. clear H.
  replace (i - (i - w)) with w by ring.
  repeat split; try lia; nia.
Qed.

Lemma calc_in_exact_out_not_broken out outRes inRes fee :
  calc_in_exact_out out outRes inRes fee <> PPanic InvariantBroken.
Proof.
  unfold calc_in_exact_out. repeat (match goal with |- context [if ?c then _ else _] => destruct c end); discriminate.
Qed.

Lemma swap_a_for_exact_b_spec p b fee p' a fv : wf p ->
  swap_a_for_exact_b p b fee = POk (p', (a, fv)) ->
  1 <= b < rb p /\ 0 <= fee < PREC /\
  ra p' = ra p + a /\ rb p' = rb p - b /\ sh p' = sh p /\
  1 <= a - fv /\ 0 <= fv /\
  (ra p + a - fv) * (rb p - b) >= ra p * rb p /\
  a * fee <= fv * PREC.
Proof.
  intros (Ha & Hb & Hs) H. unfold swap_a_for_exact_b in H.
  destruct (calc_in_exact_out b (rb p) (ra p) fee) as [[a0 fv0]|] eqn:C; [|discriminate].
  apply calc_in_exact_out_spec in C; try assumption.
  dif H.
  destruct (update_reserves p (ra p + a0) fv0 (rb p - b) 0) as [q|] eqn:U; [|discriminate].
  apply update_reserves_spec in U. inversion H; subst. clear H.
  destruct C as (? & ? & ? & ? & ? & ? & ?), U as (? & ? & ? & ?).
  assert (0 <= fv) by nia.
  repeat split; try lia; nia.
Qed.

Lemma swap_b_for_exact_a_spec p a fee p' b fv : wf p ->
  swap_b_for_exact_a p a fee = POk (p', (b, fv)) ->
  1 <= a < ra p /\ 0 <= fee < PREC /\
  ra p' = ra p - a /\ rb p' = rb p + b /\ sh p' = sh p /\
  1 <= b - fv /\ 0 <= fv /\
  (ra p - a) * (rb p + b - fv) >= ra p * rb p /\
  b * fee <= fv * PREC.
Proof.
  intros (Ha & Hb & Hs) H. unfold swap_b_for_exact_a in H.
  destruct (calc_in_exact_out a (ra p) (rb p) fee) as [[b0 fv0]|] eqn:C; [|discriminate].
  apply calc_in_exact_out_spec in C; try assumption.
  dif H.
  destruct (update_reserves p (ra p - a) 0 (rb p + b0) fv0) as [q|] eqn:U; [|discriminate].
  apply update_reserves_spec in U. inversion H; subst. clear H.
  destruct C as (? & ? & ? & ? & ? & ? & ?), U as (? & ? & ? & ?).
  assert (0 <= fv) by nia.
  repeat split; try lia; nia.
Qed.

Lemma swap_a_for_exact_b_not_broken p b fee : wf p ->
  swap_a_for_exact_b p b fee <> PPanic InvariantBroken.
Proof.
  intros (Ha & Hb & Hs). unfold swap_a_for_exact_b.
  destruct (calc_in_exact_out b (rb p) (ra p) fee) as [[a0 fv0]|w] eqn:C.
  - apply calc_in_exact_out_spec in C; try assumption.
    destruct (negb _); [discriminate|].
    destruct (update_reserves p (ra p + a0) fv0 (rb p - b) 0) eqn:U; [discriminate|].
    intros X. inversion X; subst.
    eapply update_reserves_not_broken; [|exact U].
    destruct C as (? & ? & ? & ? & ? & ? & ?).
    replace (ra p + a0 - fv0) with (ra p + (a0 - fv0)) by ring. lia.
  - intros X. inversion X; subst. eapply calc_in_exact_out_not_broken; exact C.
Qed.

Lemma swap_b_for_exact_a_not_broken p a fee : wf p ->
  swap_b_for_exact_a p a fee <> PPanic InvariantBroken.
Proof.
  intros (Ha & Hb & Hs). unfold swap_b_for_exact_a.
  destruct (calc_in_exact_out a (ra p) (rb p) fee) as [[b0 fv0]|w] eqn:C.
  - apply calc_in_exact_out_spec in C; try assumption.
    destruct (negb _); [discriminate|].
    destruct (update_reserves p (ra p - a) 0 (rb p + b0) fv0) eqn:U; [discriminate|].
    intros X. inversion X; subst.
    eapply update_reserves_not_broken; [|exact U].
    destruct C as (? & ? & ? & ? & ? & ? & ?).
    replace (rb p + b0 - fv0) with (rb p + (b0 - fv0)) by ring. nia.
  - intros X. inversion X; subst. eapply calc_in_exact_out_not_broken; exact C.
Qed.

(** ** liquidity *)

Lemma wf_not_empty p : wf p -> is_empty p = false.
Proof.
  intros (Ha & Hb & Hs). unfold is_empty.
  destruct (Z.eqb_spec (ra p) 0); [lia|reflexivity].
Qed.

Lemma add_liquidity_spec p da db p' a b s : wf p ->
  add_liquidity p da db = POk (p', (a, b, s)) ->
  1 <= da /\ 1 <= db /\ 0 <= a <= da /\ 0 <= b <= db /\ 0 <= s /\
  ra p' = ra p + a /\ rb p' = rb p + b /\ sh p' = sh p + s /\
  s * ra p <= a * sh p /\ s * rb p <= b * sh p /\
  (a = da \/ b = db).
Proof.
  intros W H. pose proof W as (Ha & Hb & Hs). unfold add_liquidity in H.
  destruct (Z.leb_spec da 0) as [|Hda]; [discriminate|].
  destruct (Z.leb_spec db 0) as [|Hdb]; [discriminate|]. cbn [orb] in H.
  rewrite (wf_not_empty p W) in H.
  destruct (Z.leb_spec (ra p) 0); [lia|]. destruct (Z.leb_spec (rb p) 0); [lia|]. cbn [orb] in H.
  set (prodA := rb p * da) in *. set (prodB := ra p * db) in *.
  destruct (quot_spec prodB (rb p) ltac:(unfold prodB; nia) ltac:(lia)) as (QB & QB0 & QB1).
  destruct (quot_spec prodA (ra p) ltac:(unfold prodA; nia) ltac:(lia)) as (QA & QA0 & QA1).
  rewrite QA, QB in H.
  set (actA := if prodA <=? prodB then da else prodB / rb p) in *.
  set (actB := if prodA <=? prodB then prodA / ra p else db) in *.
  assert (HA : 0 <= actA <= da /\ 0 <= actB <= db /\ (actA = da \/ actB = db)).
  { unfold actA, actB. destruct (Z.leb_spec prodA prodB) as [L|L].
    - split; [lia|]. split; [|left; reflexivity]. split; [lia|].
      apply Z.div_le_upper_bound; [lia|]. unfold prodA, prodB in *. nia.
    - split; [|split; [lia|right; reflexivity]]. split; [lia|].
      apply Z.div_le_upper_bound; [lia|]. unfold prodA, prodB in *. nia. }
  destruct HA as (HA1 & HA2 & HA3).
  destruct (quot_spec (actA * sh p) (ra p) ltac:(nia) ltac:(lia)) as (SA & SA0 & SA1).
  destruct (quot_spec (actB * sh p) (rb p) ltac:(nia) ltac:(lia)) as (SB & SB0 & SB1).
  rewrite SA, SB in H.
  set (shA := actA * sh p / ra p) in *. set (shB := actB * sh p / rb p) in *.
  set (s0 := if shA <=? shB then shA else shB) in *.
  assert (HS : 0 <= s0 /\ s0 <= shA /\ s0 <= shB).
  { unfold s0. destruct (Z.leb_spec shA shB); lia. }
  repeat dif H.
  clearbody actA actB s0.
  assert (E : mkPool (ra p + actA) (rb p + actB) (sh p + s0) = p' /\ actA = a /\ actB = b /\ s0 = s)
    by (repeat split; congruence).
  destruct E as (<- & <- & <- & <-). cbn [ra rb sh].
  repeat split; try lia; try nia.
Qed.

(* the pool re-initialised by a deposit into an emptied pool *)
Lemma add_liquidity_empty p da db : is_empty p = true -> 1 <= da -> 1 <= db ->
  add_liquidity p da db = POk (mkPool da db (initial_shares da db), (da, db, initial_shares da db)).
Proof.
  intros E Ha Hb. unfold add_liquidity. rewrite E.
  destruct (Z.leb_spec da 0); [lia|]. destruct (Z.leb_spec db 0); [lia|]. reflexivity.
Qed.

Lemma add_liquidity_not_broken p da db : add_liquidity p da db <> PPanic InvariantBroken.
Proof.
  unfold add_liquidity. repeat (match goal with |- context [if ?c then _ else _] => destruct c end); discriminate.
Qed.

Lemma remove_liquidity_spec p s p' wa wb : wf p ->
  remove_liquidity p s = POk (p', (wa, wb)) ->
  1 <= s <= sh p /\ 0 <= wa <= ra p /\ 0 <= wb <= rb p /\
  ra p' = ra p - wa /\ rb p' = rb p - wb /\ sh p' = sh p - s /\
  wa * sh p <= ra p * s /\ wb * sh p <= rb p * s /\
  (s < sh p -> 1 <= ra p' /\ 1 <= rb p') /\
  (s = sh p -> ra p' = 0 /\ rb p' = 0).
Proof.
  intros (Ha & Hb & Hs) H. unfold remove_liquidity, share_value in H.
  destruct (Z.leb_spec s 0) as [|Hs1]; [discriminate|].
  destruct (Z.ltb_spec (sh p) s) as [|Hs2]; [discriminate|].
  destruct (quot_spec (ra p * s) (sh p) ltac:(nia) ltac:(lia)) as (QA & QA0 & QA1).
  destruct (quot_spec (rb p * s) (sh p) ltac:(nia) ltac:(lia)) as (QB & QB0 & QB1).
  rewrite QA, QB in H.
  set (qa := ra p * s / sh p) in *. set (qb := rb p * s / sh p) in *.
  dif H. clearbody qa qb.
  assert (E : mkPool (ra p - qa) (rb p - qb) (sh p - s) = p' /\ qa = wa /\ qb = wb) by (repeat split; congruence).
  destruct E as (<- & <- & <-). cbn [ra rb sh].
  assert (qa <= ra p) by nia. assert (qb <= rb p) by nia.
  repeat split; try lia; try nia.
Qed.

Lemma remove_liquidity_not_broken p s : wf p -> remove_liquidity p s <> PPanic InvariantBroken.
Proof.
  intros (Ha & Hb & Hs). unfold remove_liquidity, share_value.
  destruct (Z.leb_spec s 0) as [|Hs1]; [discriminate|].
  destruct (Z.ltb_spec (sh p) s) as [|Hs2]; [discriminate|].
  destruct (quot_spec (ra p * s) (sh p) ltac:(nia) ltac:(lia)) as (QA & QA0 & QA1).
  destruct (quot_spec (rb p * s) (sh p) ltac:(nia) ltac:(lia)) as (QB & QB0 & QB1).
  rewrite QA, QB.
  set (qa := ra p * s / sh p) in *. set (qb := rb p * s / sh p) in *.
  assert (qa <= ra p) by nia. assert (qb <= rb p) by nia.
  destruct (Z.ltb_spec (ra p - qa) 0); [lia|]. destruct (Z.ltb_spec (rb p - qb) 0); [lia|].
  discriminate.
Qed.

(* reserves per share never decrease: ra'/S' >= ra/S and rb'/S' >= rb/S *)
Lemma add_share_value p da db p' a b s : wf p ->
  add_liquidity p da db = POk (p', (a, b, s)) ->
  ra p' * sh p >= ra p * sh p' /\ rb p' * sh p >= rb p * sh p'.
Proof.
  intros W H. destruct (add_liquidity_spec _ _ _ _ _ _ _ W H) as (_ & _ & _ & _ & _ & -> & -> & -> & ? & ? & _).
  split; nia.
Qed.

Lemma remove_share_value p s p' wa wb : wf p ->
  remove_liquidity p s = POk (p', (wa, wb)) ->
  ra p' * sh p >= ra p * sh p' /\ rb p' * sh p >= rb p * sh p'.
Proof.
  intros W H. destruct (remove_liquidity_spec _ _ _ _ _ W H) as (_ & _ & _ & -> & -> & -> & ? & ? & _).
  split; nia.
Qed.

(* depositing and immediately withdrawing the minted shares returns at most what was put in *)
Lemma deposit_withdraw_no_profit p da db p' a b s p'' wa wb :
  wf p \/ is_empty p = true ->
  add_liquidity p da db = POk (p', (a, b, s)) ->
  remove_liquidity p' s = POk (p'', (wa, wb)) ->
  wa <= a /\ wb <= b.
Proof.
  intros [W|E] HA HR.
  - destruct (add_liquidity_spec _ _ _ _ _ _ _ W HA) as (? & ? & ? & ? & ? & Ea & Eb & Es & ? & ? & _).
    pose proof W as (Ha & Hb & Hs).
    unfold remove_liquidity, share_value in HR.
    destruct (Z.leb_spec s 0) as [|Hs1]; [discriminate|].
    destruct (Z.ltb_spec (sh p') s) as [|Hs2]; [discriminate|].
    rewrite Ea, Eb, Es in HR.
    destruct (quot_spec ((ra p + a) * s) (sh p + s) ltac:(nia) ltac:(lia)) as (QA & QA0 & QA1).
    destruct (quot_spec ((rb p + b) * s) (sh p + s) ltac:(nia) ltac:(lia)) as (QB & QB0 & QB1).
    rewrite QA, QB in HR.
    set (qa := (ra p + a) * s / (sh p + s)) in *. set (qb := (rb p + b) * s / (sh p + s)) in *.
    dif HR. clearbody qa qb.
    assert (E : qa = wa /\ qb = wb) by (split; congruence). destruct E as (<- & <-).
    split.
    + assert ((ra p + a) * s <= a * (sh p + s)) by nia. nia.
    + assert ((rb p + b) * s <= b * (sh p + s)) by nia. nia.
  - unfold add_liquidity in HA. rewrite E in HA.
    destruct ((da <=? 0) || (db <=? 0)) eqn:G; [discriminate|].
    apply orb_false_elim in G. destruct G as (G1 & G2). apply Z.leb_gt in G1, G2.
    assert (X : mkPool da db (initial_shares da db) = p' /\ da = a /\ db = b /\ initial_shares da db = s)
      by (repeat split; congruence).
    destruct X as (<- & <- & <- & <-).
    unfold remove_liquidity, share_value in HR. cbn [ra rb sh] in HR.
    destruct (Z.leb_spec (initial_shares da db) 0) as [|Hs1]; [discriminate|].
    rewrite Z.ltb_irrefl in HR.
    rewrite !Z.quot_mul in HR by lia.
    dif HR. assert (X : da = wa /\ db = wb) by (split; congruence). lia.
Qed.

(** ** sequences of swaps on an otherwise untouched pool *)

Inductive sop :=
| SAB (a fee : Z) | SBA (b fee : Z) | SForB (b fee : Z) | SForA (a fee : Z).

Definition sexec (p : pool) (o : sop) : pres (pool * (Z * Z)) :=
  match o with
  | SAB a f => swap_exact_a_for_b p a f
  | SBA b f => swap_exact_b_for_a p b f
  | SForB b f => swap_a_for_exact_b p b f
  | SForA a f => swap_b_for_exact_a p a f
  end.

(* a failed swap leaves the pool unchanged *)
Definition sstep (p : pool) (o : sop) : pool :=
  match sexec p o with POk (p', _) => p' | PPanic _ => p end.

Definition sruns (p : pool) (l : list sop) : pool := fold_left sstep l p.

Lemma sstep_mono p o : wf p ->
  let p' := sstep p o in
  wf p' /\ sh p' = sh p /\ ra p' * rb p' >= ra p * rb p.
Proof.
  intros W p'. unfold p', sstep. pose proof W as (Ha & Hb & Hs).
  destruct (sexec p o) as [[q [u v]]|w] eqn:E; [|repeat split; try lia; exact W].
  destruct o; cbn [sexec] in E.
  - apply swap_exact_a_for_b_spec in E; [|exact W].
    destruct E as (? & ? & Ea & Eb & Es & ? & ? & ? & ?). unfold wf. rewrite Ea, Eb, Es.
    repeat split; try lia; nia.
  - apply swap_exact_b_for_a_spec in E; [|exact W].
    destruct E as (? & ? & Ea & Eb & Es & ? & ? & ? & ?). unfold wf. rewrite Ea, Eb, Es.
    repeat split; try lia; nia.
  - apply swap_a_for_exact_b_spec in E; [|exact W].
    destruct E as (? & ? & Ea & Eb & Es & ? & ? & ? & ?). unfold wf. rewrite Ea, Eb, Es.
    repeat split; try lia; nia.
  - apply swap_b_for_exact_a_spec in E; [|exact W].
    destruct E as (? & ? & Ea & Eb & Es & ? & ? & ? & ?). unfold wf. rewrite Ea, Eb, Es.
    repeat split; try lia; nia.
Qed.

Lemma sruns_mono l : forall p, wf p ->
  let p' := sruns p l in
  wf p' /\ sh p' = sh p /\ ra p' * rb p' >= ra p * rb p.
Proof.
  induction l as [|o l IH]; intros p W; cbn [sruns fold_left].
  - repeat split; try lia; apply W.
  - destruct (sstep_mono p o W) as (W1 & S1 & P1).
    destruct (IH (sstep p o) W1) as (W2 & S2 & P2). unfold sruns in *.
    repeat split; try lia; apply W2.
Qed.

(* the trader holds (ta, tb); what leaves the pool reaches the trader and conversely.
   No sequence of swaps gives the trader more of one token without less of the other. *)
Lemma swaps_no_free_lunch p l : wf p ->
  let p' := sruns p l in
  (ra p' < ra p -> rb p' > rb p) /\
  (rb p' < rb p -> ra p' > ra p) /\
  (ra p' = ra p -> rb p' >= rb p) /\
  (rb p' = rb p -> ra p' >= ra p).
Proof.
  intros W p'. destruct (sruns_mono l p W) as ((Ha' & Hb' & _) & _ & P). fold p' in Ha', Hb', P.
  destruct W as (Ha & Hb & _).
  repeat split; intros; nia.
Qed.

(** ** symmetry: exchanging the roles of A and B commutes with every operation *)

Definition flip2 (r : pres (pool * (Z * Z))) : pres (pool * (Z * Z)) :=
  match r with POk (p, o) => POk (flip p, o) | PPanic w => PPanic w end.
Definition flip_rm (r : pres (pool * (Z * Z))) : pres (pool * (Z * Z)) :=
  match r with POk (p, (a, b)) => POk (flip p, (b, a)) | PPanic w => PPanic w end.
Definition flip_add (r : pres (pool * (Z * Z * Z))) : pres (pool * (Z * Z * Z)) :=
  match r with POk (p, (a, b, s)) => POk (flip p, (b, a, s)) | PPanic w => PPanic w end.

Lemma flip_flip p : flip (flip p) = p.
Proof. destruct p; reflexivity. Qed.

Lemma update_reserves_flip p na fa nb fb :
  update_reserves (flip p) nb fb na fa =
  match update_reserves p na fa nb fb with POk q => POk (flip q) | PPanic w => PPanic w end.
Proof.
  unfold update_reserves, flip; cbn [ra rb sh].
  rewrite (andb_comm (int_ok (nb - fb))), (Z.mul_comm (nb - fb)), (Z.mul_comm (rb p)).
  destruct (negb _); [reflexivity|]. destruct (_ <? _); reflexivity.
Qed.

Lemma swap_exact_in_flip p x f : swap_exact_a_for_b (flip p) x f = flip2 (swap_exact_b_for_a p x f).
Proof.
  unfold swap_exact_a_for_b, swap_exact_b_for_a. cbn [flip ra rb sh].
  destruct (calc_out_exact_in x (rb p) (ra p) f) as [[a fv]|w]; [|reflexivity].
  rewrite (andb_comm (int_ok (rb p + x))).
  destruct (negb _); [reflexivity|].
  change (mkPool (rb p) (ra p) (sh p)) with (flip p).
  rewrite update_reserves_flip.
  destruct (update_reserves p (ra p - a) 0 (rb p + x) fv); reflexivity.
Qed.

Lemma swap_exact_in_flip' p x f : swap_exact_b_for_a (flip p) x f = flip2 (swap_exact_a_for_b p x f).
Proof.
  pose proof (swap_exact_in_flip (flip p) x f) as H. rewrite flip_flip in H. rewrite H.
  destruct (swap_exact_b_for_a (flip p) x f) as [[q o]|]; cbn [flip2]; [rewrite flip_flip|]; reflexivity.
Qed.

Lemma swap_exact_out_flip p x f : swap_a_for_exact_b (flip p) x f = flip2 (swap_b_for_exact_a p x f).
Proof.
  unfold swap_a_for_exact_b, swap_b_for_exact_a. cbn [flip ra rb sh].
  destruct (calc_in_exact_out x (ra p) (rb p) f) as [[b fv]|w]; [|reflexivity].
  rewrite (andb_comm (int_ok (rb p + b))).
  destruct (negb _); [reflexivity|].
  change (mkPool (rb p) (ra p) (sh p)) with (flip p).
  rewrite update_reserves_flip.
  destruct (update_reserves p (ra p - x) 0 (rb p + b) fv); reflexivity.
Qed.

Lemma swap_exact_out_flip' p x f : swap_b_for_exact_a (flip p) x f = flip2 (swap_a_for_exact_b p x f).
Proof.
  pose proof (swap_exact_out_flip (flip p) x f) as H. rewrite flip_flip in H. rewrite H.
  destruct (swap_b_for_exact_a (flip p) x f) as [[q o]|]; cbn [flip2]; [rewrite flip_flip|]; reflexivity.
Qed.

Lemma remove_liquidity_flip p s : remove_liquidity (flip p) s = flip_rm (remove_liquidity p s).
Proof.
  unfold remove_liquidity, share_value. cbn [flip ra rb sh].
  destruct (s <=? 0); [reflexivity|]. destruct (sh p <? s); [reflexivity|].
  rewrite (orb_comm (rb p - _ <? 0)).
  destruct (_ || _); reflexivity.
Qed.

Lemma min_sym a b : (if a <=? b then a else b) = (if b <=? a then b else a).
Proof. destruct (Z.leb_spec a b), (Z.leb_spec b a); lia. Qed.

Lemma add_liquidity_flip p da db : add_liquidity (flip p) db da = flip_add (add_liquidity p da db).
Proof.
  unfold add_liquidity, is_empty. cbn [flip ra rb sh].
  rewrite (orb_comm (db <=? 0)). destruct (_ || _); [reflexivity|].
  rewrite (andb_comm (rb p =? 0)). unfold initial_shares. rewrite (Z.mul_comm db da).
  destruct (_ && _); [reflexivity|].
  rewrite (orb_comm (rb p <=? 0)).
  destruct (Z.leb_spec (ra p) 0) as [|Ha]; [reflexivity|].
  destruct (Z.leb_spec (rb p) 0) as [|Hb]; [reflexivity|]. cbn [orb].
  set (A := rb p * da). set (B := ra p * db).
  (* the chosen amounts are exchanged *)
  assert (EA : (if B <=? A then db else Z.quot A (ra p)) = (if A <=? B then Z.quot A (ra p) else db)).
  { destruct (Z.leb_spec B A), (Z.leb_spec A B); try reflexivity; try lia.
    assert (A = B) by lia. subst A. rewrite H1. unfold B. rewrite Z.mul_comm, Z.quot_mul by lia. reflexivity. }
  assert (EB : (if B <=? A then Z.quot B (rb p) else da) = (if A <=? B then da else Z.quot B (rb p))).
  { destruct (Z.leb_spec B A), (Z.leb_spec A B); try reflexivity; try lia.
    assert (B = A) by lia. rewrite H1. unfold A. rewrite Z.mul_comm, Z.quot_mul by lia. reflexivity. }
  rewrite EA, EB.
  set (actA := if A <=? B then da else Z.quot B (rb p)).
  set (actB := if A <=? B then Z.quot A (ra p) else db).
  rewrite (min_sym (Z.quot (actB * sh p) (rb p))).
  set (s := if Z.quot (actA * sh p) (ra p) <=? Z.quot (actB * sh p) (rb p) then _ else _).
  destruct (negb (int_ok s)); [reflexivity|].
  rewrite (andb_comm (int_ok (rb p + actB))).
  destruct (negb _); reflexivity.
Qed.

(** ** DenominatedPool: the result does not depend on which denom is called A *)

Definition dp_map (r : pres (dpool * (Z * Z))) : pres (dpool * (Z * Z)) :=
  match r with POk (d, o) => POk (dp_flip d, o) | PPanic w => PPanic w end.

Lemma dp_swap_exact_in_flip d denom amt fee : dp_a d <> dp_b d ->
  dp_swap_exact_in (dp_flip d) denom amt fee = dp_map (dp_swap_exact_in d denom amt fee).
Proof.
  intros N. unfold dp_swap_exact_in, dp_flip. cbn [dp_pool dp_a dp_b].
  destruct (Nat.eqb_spec denom (dp_a d)) as [Ea|Ea]; destruct (Nat.eqb_spec denom (dp_b d)) as [Eb|Eb]; try congruence.
  - rewrite swap_exact_in_flip'. destruct (swap_exact_a_for_b (dp_pool d) amt fee) as [[q o]|]; reflexivity.
  - rewrite swap_exact_in_flip. destruct (swap_exact_b_for_a (dp_pool d) amt fee) as [[q o]|]; reflexivity.
  - reflexivity.
Qed.

Lemma dp_swap_exact_out_flip d denom amt fee : dp_a d <> dp_b d ->
  dp_swap_exact_out (dp_flip d) denom amt fee = dp_map (dp_swap_exact_out d denom amt fee).
Proof.
  intros N. unfold dp_swap_exact_out, dp_flip. cbn [dp_pool dp_a dp_b].
  destruct (Nat.eqb_spec denom (dp_a d)) as [Ea|Ea]; destruct (Nat.eqb_spec denom (dp_b d)) as [Eb|Eb]; try congruence.
  - rewrite swap_exact_out_flip. destruct (swap_b_for_exact_a (dp_pool d) amt fee) as [[q o]|]; reflexivity.
  - rewrite swap_exact_out_flip'. destruct (swap_a_for_exact_b (dp_pool d) amt fee) as [[q o]|]; reflexivity.
  - reflexivity.
Qed.

(** * keeper *)

Lemma sumN_ext n f g : (forall i, (i < n)%nat -> f i = g i) -> sumN n f = sumN n g.
Proof.
  induction n as [|n IH]; intros H; cbn [sumN]; [reflexivity|].
  rewrite IH by (intros; apply H; lia). rewrite H by lia. reflexivity.
Qed.

Lemma sw_sumN_upd_below f a v : forall k, (k <= a)%nat -> sumN k (upd f a v) = sumN k f.
Proof.
  intros k Hk. apply sumN_ext. intros i Hi. unfold upd. destruct (Nat.eqb_spec i a); [lia|reflexivity].
Qed.

Lemma sw_sumN_upd n f a v : (a < n)%nat -> sumN n (upd f a v) = sumN n f - f a + v.
Proof.
  induction n as [|n IH]; intros H; [lia|].
  cbn [sumN]. unfold upd at 2.
  destruct (Nat.eqb_spec n a) as [->|Hne].
  - rewrite sw_sumN_upd_below by lia. lia.
  - rewrite IH by lia. lia.
Qed.

Lemma sum2_upd2 n f x y v : (x < n)%nat -> (y < n)%nat ->
  sum2 n (upd2 f x y v) = sum2 n f - f x y + v.
Proof.
  intros Hx Hy. unfold sum2.
  rewrite (sumN_ext n _ (upd (fun x' => sumN n (f x')) x (sumN n (f x) - f x y + v))).
  - rewrite sw_sumN_upd by exact Hx. lia.
  - intros i Hi. unfold upd. destruct (Nat.eqb_spec i x) as [->|Ne].
    + rewrite <- (sw_sumN_upd n (f x) y v Hy). apply sumN_ext. intros j Hj.
      unfold upd2, upd. rewrite Nat.eqb_refl. reflexivity.
    + apply sumN_ext. intros j Hj. unfold upd2. destruct (Nat.eqb_spec i x); [congruence|reflexivity].
Qed.

Definition res_v (d x y : nat) (po : option pool) : Z :=
  match po with
  | Some p => (if Nat.eqb x d then ra p else 0) + (if Nat.eqb y d then rb p else 0)
  | None => 0
  end.

Lemma res_in_v d pools x y : res_in d pools x y = res_v d x y (pools x y).
Proof. reflexivity. Qed.

Definition Inv (e : env) (s : kstate) : Prop :=
  (forall d, (d < nden e)%nat -> k_bal s (macc e) d = sum2 (nden e) (res_in d (k_pool s))) /\
  (forall x y, (x < nden e)%nat -> (y < nden e)%nat ->
     pool_shares (k_pool s x y) = sumN (S (nusers e)) (fun a => k_sh s a x y)) /\
  (forall x y p, k_pool s x y = Some p -> wf p /\ (x < y)%nat) /\
  (forall a x y, 0 <= k_sh s a x y).

Definition lo (d1 d2 : nat) : nat := if Nat.ltb d1 d2 then d1 else d2.
Definition hi (d1 d2 : nat) : nat := if Nat.ltb d1 d2 then d2 else d1.
Definition sel {A} (d1 d2 : nat) (a1 a2 : A) : A := if Nat.ltb d1 d2 then a1 else a2.

Definition opt_ra (po : option pool) : Z := match po with Some p => ra p | None => 0 end.
Definition opt_rb (po : option pool) : Z := match po with Some p => rb p | None => 0 end.

(* the effect of a successful keeper operation: pool (x,y) becomes po', the caller pays
   (dx, dy) to the module account (negative: receives), the caller's shares change by ds *)
Definition applies (e : env) (s s' : kstate) (who x y : nat) (po' : option pool) (dx dy ds : Z) : Prop :=
  (x < y)%nat /\ (y < nden e)%nat /\ (who < nusers e)%nat /\
  (forall x' y', k_pool s' x' y' = upd2 (k_pool s) x y po' x' y') /\
  (forall a x' y', k_sh s' a x' y' = upd3 (k_sh s) who x y (k_sh s who x y + ds) a x' y') /\
  (forall a d, k_bal s' a d = k_bal s a d
       - (if Nat.eqb a who then (if Nat.eqb d x then dx else 0) + (if Nat.eqb d y then dy else 0) else 0)
       + (if Nat.eqb a (macc e) then (if Nat.eqb d x then dx else 0) + (if Nat.eqb d y then dy else 0) else 0)).

Lemma inv_effect e s s' who x y po' dx dy ds :
  Inv e s -> applies e s s' who x y po' dx dy ds ->
  (forall p', po' = Some p' -> wf p') ->
  opt_ra po' = opt_ra (k_pool s x y) + dx ->
  opt_rb po' = opt_rb (k_pool s x y) + dy ->
  pool_shares po' = pool_shares (k_pool s x y) + ds ->
  0 <= k_sh s who x y + ds ->
  Inv e s'.
Proof.
  intros (I1 & I2 & I3 & I4) (Hxy & Hy & Hw & EP & ES & EB) Wf Ra Rb Sh Nn.
  assert (Hx : (x < nden e)%nat) by lia.
  split; [|split; [|split]].
  - (* custody *)
    intros d Hd. rewrite EB, I1 by exact Hd.
    unfold macc. destruct (Nat.eqb_spec (nusers e) who) as [|_]; [lia|]. rewrite Nat.eqb_refl.
    assert (SS : sum2 (nden e) (res_in d (k_pool s')) = sum2 (nden e) (upd2 (res_in d (k_pool s)) x y (res_v d x y po'))).
    { unfold sum2. apply sumN_ext. intros i Hi. apply sumN_ext. intros j Hj.
      unfold res_in at 1. rewrite EP. unfold upd2.
      destruct (Nat.eqb i x && Nat.eqb j y) eqn:B; [|reflexivity].
      apply andb_true_iff in B. destruct B as (B1 & B2). apply Nat.eqb_eq in B1, B2. subst. reflexivity. }
    rewrite SS.
    rewrite sum2_upd2 by assumption. rewrite res_in_v.
    assert (res_v d x y po' - res_v d x y (k_pool s x y) =
            (if Nat.eqb d x then dx else 0) + (if Nat.eqb d y then dy else 0)).
    { unfold res_v. rewrite (Nat.eqb_sym d x), (Nat.eqb_sym d y).
      destruct po' as [p'|], (k_pool s x y) as [p|]; cbn [opt_ra opt_rb] in Ra, Rb;
      destruct (Nat.eqb x d), (Nat.eqb y d); lia. }
    lia.
  - (* shares *)
    intros x' y' Hx' Hy'. rewrite EP.
    rewrite (sumN_ext _ _ (fun a => upd3 (k_sh s) who x y (k_sh s who x y + ds) a x' y')) by (intros; apply ES).
    unfold upd2, upd3.
    destruct (Nat.eqb_spec x' x) as [->|Nx]; destruct (Nat.eqb_spec y' y) as [->|Ny]; cbn [andb].
    + rewrite (sumN_ext _ _ (upd (fun a => k_sh s a x y) who (k_sh s who x y + ds))).
      2:{ intros i Hi. unfold upd. destruct (Nat.eqb i who); reflexivity. }
      rewrite sw_sumN_upd by lia. rewrite Sh, (I2 x y) by assumption. lia.
    + rewrite (sumN_ext _ _ (fun a => k_sh s a x y')).
      2:{ intros i Hi. rewrite andb_false_r. reflexivity. }
      apply I2; assumption.
    + rewrite (sumN_ext _ _ (fun a => k_sh s a x' y)).
      2:{ intros i Hi. destruct (Nat.eqb i who); reflexivity. }
      apply I2; assumption.
    + rewrite (sumN_ext _ _ (fun a => k_sh s a x' y')).
      2:{ intros i Hi. destruct (Nat.eqb i who); reflexivity. }
      apply I2; assumption.
  - intros x0 y0 p H. rewrite EP in H. unfold upd2 in H.
    destruct (Nat.eqb x0 x && Nat.eqb y0 y) eqn:B.
    + apply andb_true_iff in B. destruct B as (B1 & B2). apply Nat.eqb_eq in B1, B2. subst x0 y0.
      split; [apply Wf; exact H|exact Hxy].
    + apply (I3 x0 y0 p H).
  - intros a x' y'. rewrite ES. unfold upd3.
    destruct (Nat.eqb a who && Nat.eqb x' x && Nat.eqb y' y); [exact Nn|apply I4].
Qed.

Lemma bank_send_spec s f t d amt s' : f <> t ->
  bank_send s f t d amt = Some s' ->
  (forall x y, k_pool s' x y = k_pool s x y) /\ (forall a x y, k_sh s' a x y = k_sh s a x y) /\
  (amt = 0 \/ amt <= k_bal s f d) /\
  forall a d', k_bal s' a d' = k_bal s a d'
     - (if Nat.eqb a f && Nat.eqb d' d then amt else 0) + (if Nat.eqb a t && Nat.eqb d' d then amt else 0).
Proof.
  intros Nft H. unfold bank_send in H.
  destruct (Z.eqb_spec amt 0) as [->|Nz].
  - injection H as <-. repeat split; try (left; reflexivity).
    intros a d'. destruct (_ && _), (_ && _); lia.
  - destruct (Z.ltb_spec (k_bal s f d) amt) as [|Le]; [discriminate|].
    injection H as <-. cbn [set_bal k_bal k_pool k_sh]. repeat split; try (right; exact Le).
    intros a d'. unfold upd2.
    destruct (Nat.eqb_spec a f), (Nat.eqb_spec a t), (Nat.eqb_spec t f), (Nat.eqb_spec d' d), (Nat.eqb_spec d d);
      cbn [andb]; subst; try congruence; try lia.
Qed.

Lemma new_pool_shares_wf p : wf p -> new_pool_shares (ra p) (rb p) (sh p) = Some p.
Proof.
  intros (Ha & Hb & Hs). unfold new_pool_shares.
  destruct (Z.leb_spec (ra p) 0); [lia|]. destruct (Z.leb_spec (rb p) 0); [lia|].
  destruct (Z.leb_spec (sh p) 0); [lia|]. destruct p; reflexivity.
Qed.

Lemma pool_valid_wf p : pool_valid p = true <-> wf p.
Proof.
  unfold pool_valid, wf. rewrite !andb_true_iff, !Z.ltb_lt. lia.
Qed.

Lemma lo_hi d1 d2 : d1 <> d2 -> (lo d1 d2 < hi d1 d2)%nat.
Proof. intros N. unfold lo, hi. destruct (Nat.ltb_spec d1 d2); lia. Qed.

Lemma hi_lt d1 d2 n : (d1 < n)%nat -> (d2 < n)%nat -> (hi d1 d2 < n)%nat.
Proof. intros. unfold hi. destruct (Nat.ltb d1 d2); assumption. Qed.

(* the part of Deposit after the pool computation *)
Definition deposit_tail (e : env) (s : kstate) (who x y : nat) (ax ay slip : Z)
  (p' : pool) (actx acty shs : Z) : outcome kstate (list Z) :=
      if (actx =? 0) || (acty =? 0) then Err else
      if shs =? 0 then Err else
      let qx := dec_quo (dec_of_int ax) (dec_of_int actx) in
      let qy := dec_quo (dec_of_int ay) (dec_of_int acty) in
      if negb (dec_ok qx && dec_ok qy) then Panic else
      let slippage := dec_sub (Z.max qx qy) dec_one in
      if slip <? slippage then Err else
      if negb (pool_valid p') then Panic else
      let s1 := update_pool s x y p' in
      let owned := k_sh s1 who x y in
      if negb (int_ok (owned + shs)) then Panic else
      let s2 := set_shares s1 who x y (owned + shs) in
      match bank_send s2 who (macc e) x actx with
      | None => Err
      | Some s3 =>
          match bank_send s3 who (macc e) y acty with
          | None => Err
          | Some s4 => Ok s4 [actx; acty; shs]
          end
      end.

Lemma applies_of_sends e s s2 s3 s4 who x y po' dx dy ds :
  (x < y)%nat -> (y < nden e)%nat -> (who < nusers e)%nat ->
  (forall x' y', k_pool s2 x' y' = upd2 (k_pool s) x y po' x' y') ->
  (forall a x' y', k_sh s2 a x' y' = upd3 (k_sh s) who x y (k_sh s who x y + ds) a x' y') ->
  (forall a d, k_bal s2 a d = k_bal s a d) ->
  bank_send s2 who (macc e) x dx = Some s3 ->
  bank_send s3 who (macc e) y dy = Some s4 ->
  applies e s s4 who x y po' dx dy ds /\ (dx = 0 \/ dx <= k_bal s who x) /\ (dy = 0 \/ dy <= k_bal s who y).
Proof.
  intros Hxy Hy Hw EP ES EB B1 B2.
  assert (N : who <> macc e) by (unfold macc; lia).
  destruct (bank_send_spec _ _ _ _ _ _ N B1) as (P1 & S1 & F1 & Bal1).
  destruct (bank_send_spec _ _ _ _ _ _ N B2) as (P2 & S2 & F2 & Bal2).
  split; [|split].
  - repeat split; try assumption.
    + intros. rewrite P2, P1. apply EP.
    + intros. rewrite S2, S1. apply ES.
    + intros a d. rewrite Bal2, Bal1, EB.
      destruct (Nat.eqb_spec a who), (Nat.eqb_spec a (macc e)); cbn [andb]; subst; try congruence;
        destruct (Nat.eqb d x), (Nat.eqb d y); lia.
  - rewrite <- EB. exact F1.
  - destruct F2 as [F2|F2]; [left; exact F2|right].
    rewrite Bal1, EB in F2. destruct (Nat.eqb_spec y x); [lia|].
    rewrite !andb_false_r in F2. lia.
Qed.

Lemma deposit_tail_inv e s who x y ax ay sl p' actx acty shs s' outs :
  (x < y)%nat -> (y < nden e)%nat -> (who < nusers e)%nat ->
  0 <= actx -> 0 <= acty -> 0 <= shs ->
  deposit_tail e s who x y ax ay sl p' actx acty shs = Ok s' outs ->
  outs = [actx; acty; shs] /\ 1 <= actx /\ 1 <= acty /\ 1 <= shs /\ wf p' /\
  dec_sub (Z.max (dec_quo (dec_of_int ax) (dec_of_int actx)) (dec_quo (dec_of_int ay) (dec_of_int acty))) dec_one <= sl /\
  actx <= k_bal s who x /\ acty <= k_bal s who y /\
  applies e s s' who x y (Some p') actx acty shs.
Proof.
  intros Hxy Hy Hw Px Py Ps H. unfold deposit_tail in H.
  destruct (Z.eqb_spec actx 0); [discriminate|]. destruct (Z.eqb_spec acty 0); [discriminate|]. cbn [orb] in H.
  destruct (Z.eqb_spec shs 0); [discriminate|].
  destruct (negb (dec_ok _ && dec_ok _)); [discriminate|].
  destruct (Z.ltb_spec sl (dec_sub (Z.max (dec_quo (dec_of_int ax) (dec_of_int actx)) (dec_quo (dec_of_int ay) (dec_of_int acty))) dec_one)) as [|Sl]; [discriminate|].
  destruct (pool_valid p') eqn:PV; cbn [negb] in H; [|discriminate].
  apply pool_valid_wf in PV.
  assert (UP : update_pool s x y p' = set_pool s x y (Some p')).
  { unfold update_pool. destruct (Z.eqb_spec (sh p') 0); [destruct PV as (_ & _ & ?); lia|reflexivity]. }
  rewrite UP in H. cbn [set_pool k_sh] in H.
  destruct (negb (int_ok _)); [discriminate|].
  match type of H with match bank_send ?st _ _ _ _ with _ => _ end = _ => set (s2 := st) in * end.
  destruct (bank_send s2 who (macc e) x actx) as [s3|] eqn:B1; [|discriminate].
  destruct (bank_send s3 who (macc e) y acty) as [s4|] eqn:B2; [|discriminate].
  injection H as <- <-.
  destruct (applies_of_sends e s s2 s3 s4 who x y (Some p') actx acty shs Hxy Hy Hw) as (A & F1 & F2); try assumption; try (intros; reflexivity).
  do 8 (split; [solve [reflexivity | lia | exact PV | exact Sl]|]). exact A.
Qed.

Lemma deposit_unfold e s who d1 a1 d2 a2 slip :
  deposit e s who d1 a1 d2 a2 slip =
  if (a1 <=? 0) || (a2 <=? 0) || Nat.eqb d1 d2 then Panic else
  let x := lo d1 d2 in let y := hi d1 d2 in
  let ax := sel d1 d2 a1 a2 in let ay := sel d1 d2 a2 a1 in
  match
    match k_pool s x y with
    | Some p =>
        match new_pool_shares (ra p) (rb p) (sh p) with
        | None => Err
        | Some p0 =>
            match add_liquidity p0 ax ay with
            | PPanic _ => Panic
            | POk r => Ok r tt
            end
        end
    | None =>
        if negb (allowed_b (allowed e) x y) then Err else
        match new_pool ax ay with
        | None => Err
        | Some p => Ok (p, (ax, ay, sh p)) tt
        end
    end
  with
  | Err => Err | Panic => Panic
  | Ok (p', (actx, acty, shs)) _ => deposit_tail e s who x y ax ay slip p' actx acty shs
  end.
Proof. reflexivity. Qed.

Lemma deposit_inv e s who d1 a1 d2 a2 sl s' outs :
  Inv e s -> (who < nusers e)%nat -> (d1 < nden e)%nat -> (d2 < nden e)%nat ->
  deposit e s who d1 a1 d2 a2 sl = Ok s' outs ->
  let x := lo d1 d2 in let y := hi d1 d2 in
  let ax := sel d1 d2 a1 a2 in let ay := sel d1 d2 a2 a1 in
  exists p' actx acty shs,
    outs = [actx; acty; shs] /\ d1 <> d2 /\ 1 <= ax /\ 1 <= ay /\
    1 <= actx <= ax /\ 1 <= acty <= ay /\ 1 <= shs /\ wf p' /\
    match k_pool s x y with
    | Some p => add_liquidity p ax ay = POk (p', (actx, acty, shs))
    | None => allowed_b (allowed e) x y = true /\ p' = mkPool ax ay (initial_shares ax ay) /\
              actx = ax /\ acty = ay /\ shs = initial_shares ax ay
    end /\
    dec_sub (Z.max (dec_quo (dec_of_int ax) (dec_of_int actx)) (dec_quo (dec_of_int ay) (dec_of_int acty))) dec_one <= sl /\
    actx <= k_bal s who x /\ acty <= k_bal s who y /\
    applies e s s' who x y (Some p') actx acty shs.
Proof.
  intros I Hw H1 H2 H x y ax ay. rewrite deposit_unfold in H. fold x y ax ay in H. cbv zeta in H.
  destruct (Z.leb_spec a1 0) as [|P1]; [discriminate|].
  destruct (Z.leb_spec a2 0) as [|P2]; [discriminate|].
  destruct (Nat.eqb_spec d1 d2) as [|N]; [discriminate|]. cbn [orb] in H.
  assert (Hxy : (x < y)%nat) by (apply lo_hi; exact N).
  assert (Hy : (y < nden e)%nat) by (apply hi_lt; assumption).
  assert (Pax : 1 <= ax) by (unfold ax, sel; destruct (Nat.ltb d1 d2); lia).
  assert (Pay : 1 <= ay) by (unfold ay, sel; destruct (Nat.ltb d1 d2); lia).
  destruct I as (I1 & I2 & I3 & I4).
  destruct (k_pool s x y) as [p|] eqn:KP.
  - destruct (I3 x y p KP) as (W & _).
    rewrite (new_pool_shares_wf p W) in H.
    destruct (add_liquidity p ax ay) as [[p' [[actx acty] shs]]|] eqn:AL; [|discriminate].
    destruct (add_liquidity_spec _ _ _ _ _ _ _ W AL) as (_ & _ & Bx & By & Bs & _).
    apply deposit_tail_inv in H; try assumption; try lia.
    destruct H as (-> & ? & ? & ? & ? & ? & ? & ? & A).
    exists p', actx, acty, shs.
    do 12 (split; [solve [reflexivity | lia | assumption]|]). exact A.
  - destruct (allowed_b (allowed e) x y) eqn:AL; cbn [negb] in H; [|discriminate].
    unfold new_pool in H.
    destruct (Z.leb_spec ax 0); [lia|]. destruct (Z.leb_spec ay 0); [lia|]. cbn [orb sh] in H.
    pose proof (initial_shares_pos ax ay Pax Pay).
    apply deposit_tail_inv in H; try assumption; try lia.
    destruct H as (-> & ? & ? & ? & ? & ? & ? & ? & A).
    exists (mkPool ax ay (initial_shares ax ay)), ax, ay, (initial_shares ax ay).
    do 12 (split; [solve [reflexivity | lia | assumption | repeat split; reflexivity]|]). exact A.
Qed.

(* a transfer between the caller and the module account, as a signed payment of the caller *)
Lemma send_signed e s f t d amt s' who sg :
  (who < nusers e)%nat ->
  (f = who /\ t = macc e /\ sg = amt) \/ (f = macc e /\ t = who /\ sg = - amt) ->
  bank_send s f t d amt = Some s' ->
  (forall x y, k_pool s' x y = k_pool s x y) /\ (forall a x y, k_sh s' a x y = k_sh s a x y) /\
  forall a d', k_bal s' a d' = k_bal s a d'
     - (if Nat.eqb a who then (if Nat.eqb d' d then sg else 0) else 0)
     + (if Nat.eqb a (macc e) then (if Nat.eqb d' d then sg else 0) else 0).
Proof.
  intros Hw Dir H.
  assert (N : who <> macc e) by (unfold macc; lia).
  assert (Nft : f <> t) by (destruct Dir as [(-> & -> & _)|(-> & -> & _)]; congruence).
  destruct (bank_send_spec _ _ _ _ _ _ Nft H) as (P & S & _ & B).
  split; [exact P|split; [exact S|]].
  intros a d'. rewrite B.
  destruct Dir as [(-> & -> & ->)|(-> & -> & ->)];
    destruct (Nat.eqb_spec a who), (Nat.eqb_spec a (macc e)); cbn [andb]; subst; try congruence;
    destruct (Nat.eqb d' d); lia.
Qed.

Lemma applies_of_two_sends e s s2 s3 s4 who x y po' dx dy ds f1 t1 dA v1 sg1 f2 t2 dB v2 sg2 :
  (x < y)%nat -> (y < nden e)%nat -> (who < nusers e)%nat ->
  (forall x' y', k_pool s2 x' y' = upd2 (k_pool s) x y po' x' y') ->
  (forall a x' y', k_sh s2 a x' y' = upd3 (k_sh s) who x y (k_sh s who x y + ds) a x' y') ->
  (forall a d, k_bal s2 a d = k_bal s a d) ->
  (f1 = who /\ t1 = macc e /\ sg1 = v1) \/ (f1 = macc e /\ t1 = who /\ sg1 = - v1) ->
  (f2 = who /\ t2 = macc e /\ sg2 = v2) \/ (f2 = macc e /\ t2 = who /\ sg2 = - v2) ->
  bank_send s2 f1 t1 dA v1 = Some s3 ->
  bank_send s3 f2 t2 dB v2 = Some s4 ->
  (forall d, (if Nat.eqb d x then dx else 0) + (if Nat.eqb d y then dy else 0)
           = (if Nat.eqb d dA then sg1 else 0) + (if Nat.eqb d dB then sg2 else 0)) ->
  applies e s s4 who x y po' dx dy ds.
Proof.
  intros Hxy Hy Hw EP ES EB D1 D2 B1 B2 Pay.
  destruct (send_signed e _ _ _ _ _ _ who sg1 Hw D1 B1) as (P1 & S1 & Bal1).
  destruct (send_signed e _ _ _ _ _ _ who sg2 Hw D2 B2) as (P2 & S2 & Bal2).
  repeat split; try assumption.
  - intros. rewrite P2, P1. apply EP.
  - intros. rewrite S2, S1. apply ES.
  - intros a d. rewrite Bal2, Bal1, EB. rewrite (Pay d).
    destruct (Nat.eqb a who), (Nat.eqb a (macc e)); lia.
Qed.

Lemma withdraw_inv e s who shares d1 m1 d2 m2 s' outs :
  Inv e s -> (who < nusers e)%nat -> (d1 < nden e)%nat -> (d2 < nden e)%nat ->
  withdraw e s who shares d1 m1 d2 m2 = Ok s' outs ->
  let x := lo d1 d2 in let y := hi d1 d2 in
  let mx := sel d1 d2 m1 m2 in let my := sel d1 d2 m2 m1 in
  exists p p' wx wy,
    outs = [wx; wy] /\ d1 <> d2 /\ k_pool s x y = Some p /\ wf p /\
    remove_liquidity p shares = POk (p', (wx, wy)) /\
    1 <= shares <= k_sh s who x y /\ 1 <= wx /\ 1 <= wy /\ mx <= wx /\ my <= wy /\
    applies e s s' who x y (if sh p' =? 0 then None else Some p') (- wx) (- wy) (- shares).
Proof.
  intros I Hw H1 H2 H x y mx my. unfold withdraw in H.
  change (if Nat.ltb d1 d2 then d1 else d2) with x in H.
  change (if Nat.ltb d1 d2 then d2 else d1) with y in H.
  change (if Nat.ltb d1 d2 then m1 else m2) with mx in H.
  change (if Nat.ltb d1 d2 then m2 else m1) with my in H.
  destruct (Nat.eqb_spec d1 d2) as [|N]; [discriminate|].
  assert (Hxy : (x < y)%nat) by (apply lo_hi; exact N).
  assert (Hy : (y < nden e)%nat) by (apply hi_lt; assumption).
  destruct I as (I1 & I2 & I3 & I4).
  destruct (Z.eqb_spec (k_sh s who x y) 0) as [|Own]; [discriminate|].
  destruct (Z.ltb_spec (k_sh s who x y) shares) as [|Le]; [discriminate|].
  destruct (k_pool s x y) as [p|] eqn:KP; [|discriminate].
  destruct (I3 x y p KP) as (W & _).
  rewrite (new_pool_shares_wf p W) in H.
  destruct (remove_liquidity p shares) as [[p' [wx wy]]|] eqn:RL; [|discriminate].
  destruct (remove_liquidity_spec _ _ _ _ _ W RL) as (Sh1 & Wx & Wy & _).
  destruct (Z.eqb_spec wx 0); [discriminate|]. destruct (Z.eqb_spec wy 0); [discriminate|]. cbn [orb] in H.
  destruct (Z.ltb_spec wx mx); [discriminate|]. destruct (Z.ltb_spec wy my); [discriminate|]. cbn [orb] in H.
  destruct (negb (sh p' =? 0) && negb (pool_valid p')); [discriminate|].
  match type of H with match bank_send ?st _ _ _ _ with _ => _ end = _ => set (s2 := st) in * end.
  destruct (bank_send s2 (macc e) who x wx) as [s3|] eqn:B1; [|discriminate].
  destruct (bank_send s3 (macc e) who y wy) as [s4|] eqn:B2; [|discriminate].
  injection H as <- <-.
  exists p, p', wx, wy.
  do 10 (split; [solve [reflexivity | lia | assumption]|]).
  eapply (applies_of_two_sends e s s2 s3 s4 who x y _ (- wx) (- wy) (- shares)
            (macc e) who x wx (- wx) (macc e) who y wy (- wy)); try assumption; try eassumption.
  - intros x' y'. unfold s2, update_pool. destruct (sh p' =? 0); reflexivity.
  - intros a x' y'. unfold s2, update_pool. destruct (sh p' =? 0); reflexivity.
  - intros a d. unfold s2, update_pool. destruct (sh p' =? 0); reflexivity.
  - right. repeat split; reflexivity.
  - right. repeat split; reflexivity.
  - intros d. reflexivity.
Qed.

Lemma load_pool_inv e s d1 d2 dp x y : Inv e s -> (d1 < nden e)%nat -> (d2 < nden e)%nat ->
  load_pool s d1 d2 = Ok dp (x, y) ->
  d1 <> d2 /\ x = lo d1 d2 /\ y = hi d1 d2 /\ (x < y)%nat /\ (y < nden e)%nat /\
  exists p, k_pool s x y = Some p /\ wf p /\ dp = mkDP p x y.
Proof.
  intros (I1 & I2 & I3 & I4) H1 H2 H. unfold load_pool in H.
  change (if Nat.ltb d1 d2 then d1 else d2) with (lo d1 d2) in H.
  change (if Nat.ltb d1 d2 then d2 else d1) with (hi d1 d2) in H.
  destruct (Nat.eqb_spec d1 d2) as [|N]; [discriminate|].
  destruct (k_pool s (lo d1 d2) (hi d1 d2)) as [p|] eqn:KP; [|discriminate].
  destruct (I3 _ _ p KP) as (W & _).
  rewrite (new_pool_shares_wf p W) in H.
  injection H as <- <- <-.
  repeat split; try reflexivity; try assumption.
  - apply lo_hi; exact N.
  - apply hi_lt; assumption.
  - exists p. repeat split; try assumption; apply W.
Qed.

Lemma lo_or_hi d1 d2 : d1 <> d2 -> (d1 = lo d1 d2 /\ d2 = hi d1 d2) \/ (d1 = hi d1 d2 /\ d2 = lo d1 d2).
Proof. intros N. unfold lo, hi. destruct (Nat.ltb d1 d2); [left|right]; split; reflexivity. Qed.

Lemma commit_swap_inv e s x y p' who din ain dout aout fv s' outs :
  (x < y)%nat -> (y < nden e)%nat -> (who < nusers e)%nat ->
  (din = x /\ dout = y) \/ (din = y /\ dout = x) ->
  commit_swap e s x y p' who din ain dout aout fv = Ok s' outs ->
  outs = [ain; aout; fv] /\ wf p' /\
  applies e s s' who x y (Some p')
    (if Nat.eqb din x then ain else - aout) (if Nat.eqb din x then - aout else ain) 0.
Proof.
  intros Hxy Hy Hw Dn H. unfold commit_swap in H.
  destruct (pool_valid p') eqn:PV; cbn [negb] in H; [|discriminate]. apply pool_valid_wf in PV.
  match type of H with match bank_send ?st _ _ _ _ with _ => _ end = _ => set (s1 := st) in * end.
  destruct (bank_send s1 who (macc e) din ain) as [s2|] eqn:B1; [|discriminate].
  destruct (bank_send s2 (macc e) who dout aout) as [s3|] eqn:B2; [|discriminate].
  injection H as <- <-.
  split; [reflexivity|split; [exact PV|]].
  eapply (applies_of_two_sends e s s1 s2 s3 who x y _ _ _ 0
            who (macc e) din ain ain (macc e) who dout aout (- aout)); try assumption; try eassumption.
  - intros; reflexivity.
  - intros a x' y'. unfold s1. cbn [set_pool k_sh]. unfold upd3.
    destruct (Nat.eqb a who && Nat.eqb x' x && Nat.eqb y' y) eqn:B; [|reflexivity].
    apply andb_true_iff in B. destruct B as (B & B3). apply andb_true_iff in B. destruct B as (B1' & B2').
    apply Nat.eqb_eq in B1', B2', B3. subst. lia.
  - intros; reflexivity.
  - left. repeat split; reflexivity.
  - right. repeat split; reflexivity.
  - intros d. destruct Dn as [(-> & ->)|(-> & ->)].
    + rewrite Nat.eqb_refl. reflexivity.
    + destruct (Nat.eqb_spec y x); [lia|]. destruct (Nat.eqb d x), (Nat.eqb d y); lia.
Qed.

Lemma swap_in_inv e s who din ain dout bdes sl s' outs :
  Inv e s -> (who < nusers e)%nat -> (din < nden e)%nat -> (dout < nden e)%nat ->
  swap_exact_for_tokens e s who din ain dout bdes sl = Ok s' outs ->
  let x := lo din dout in let y := hi din dout in
  exists p p' out fv,
    outs = [ain; out; fv] /\ din <> dout /\ k_pool s x y = Some p /\ wf p /\ wf p' /\
    (if Nat.eqb din x then swap_exact_a_for_b p ain (swap_fee e) else swap_exact_b_for_a p ain (swap_fee e))
      = POk (p', (out, fv)) /\
    1 <= out /\
    dec_sub dec_one (dec_quo (dec_of_int out) (dec_of_int bdes)) <= sl /\
    applies e s s' who x y (Some p') (if Nat.eqb din x then ain else - out) (if Nat.eqb din x then - out else ain) 0.
Proof.
  intros I Hw H1 H2 H x y. unfold swap_exact_for_tokens in H.
  destruct (load_pool s din dout) as [dp [x0 y0]| |] eqn:LP; try discriminate.
  destruct (load_pool_inv e s din dout dp x0 y0 I H1 H2 LP) as (N & -> & -> & Hxy & Hy & p & KP & W & ->).
  fold x y in H, KP, Hxy, Hy.
  unfold dp_swap_exact_in in H. cbn [dp_pool dp_a dp_b] in H.
  destruct (lo_or_hi din dout N) as [(Ex & Ey)|(Ey & Ex)]; fold x y in Ex, Ey.
  - (* the input is denom A *)
    rewrite <- Ex in *. rewrite Nat.eqb_refl in *.
    destruct (swap_exact_a_for_b p ain (swap_fee e)) as [[p' [out fv]]|] eqn:SW; [|discriminate].
    cbn [dp_pool] in H.
    destruct (swap_exact_a_for_b_spec _ _ _ _ _ _ W SW) as (_ & _ & _ & _ & _ & Ob & _).
    destruct (Z.eqb_spec out 0); [discriminate|].
    destruct (bdes =? 0); [discriminate|].
    destruct (negb (dec_ok (dec_quo _ _))); [discriminate|].
    destruct (negb (dec_ok (dec_sub _ _))); [discriminate|].
    destruct (Z.ltb_spec sl (dec_sub dec_one (dec_quo (dec_of_int out) (dec_of_int bdes)))) as [|Sl]; [discriminate|].
    apply commit_swap_inv in H; try assumption; [|left; split; first [reflexivity|assumption]].
    destruct H as (-> & W' & A). rewrite Nat.eqb_refl in A.
    exists p, p', out, fv.
    do 8 (split; [solve [reflexivity | lia | assumption]|]). exact A.
  - (* the input is denom B *)
    assert (NE : Nat.eqb din x = false) by (apply Nat.eqb_neq; lia).
    rewrite NE in *. rewrite <- Ey in *. rewrite Nat.eqb_refl in H.
    destruct (swap_exact_b_for_a p ain (swap_fee e)) as [[p' [out fv]]|] eqn:SW; [|discriminate].
    cbn [dp_pool] in H.
    destruct (swap_exact_b_for_a_spec _ _ _ _ _ _ W SW) as (_ & _ & _ & _ & _ & Ob & _).
    destruct (Z.eqb_spec out 0); [discriminate|].
    destruct (bdes =? 0); [discriminate|].
    destruct (negb (dec_ok (dec_quo _ _))); [discriminate|].
    destruct (negb (dec_ok (dec_sub _ _))); [discriminate|].
    destruct (Z.ltb_spec sl (dec_sub dec_one (dec_quo (dec_of_int out) (dec_of_int bdes)))) as [|Sl]; [discriminate|].
    apply commit_swap_inv in H; try assumption; [|right; split; first [reflexivity|assumption]].
    destruct H as (-> & W' & A). rewrite NE in A.
    exists p, p', out, fv.
    do 8 (split; [solve [reflexivity | lia | assumption]|]). exact A.
Qed.

Lemma swap_out_inv e s who din amax dout bex sl s' outs :
  Inv e s -> (who < nusers e)%nat -> (din < nden e)%nat -> (dout < nden e)%nat ->
  swap_for_exact_tokens e s who din amax dout bex sl = Ok s' outs ->
  let x := lo din dout in let y := hi din dout in
  exists p p' inn fv,
    outs = [inn; bex; fv] /\ din <> dout /\ k_pool s x y = Some p /\ wf p /\ wf p' /\
    (if Nat.eqb din x then swap_a_for_exact_b p bex (swap_fee e) else swap_b_for_exact_a p bex (swap_fee e))
      = POk (p', (inn, fv)) /\
    1 <= inn - fv /\
    dec_sub dec_one (dec_quo (dec_of_int amax) (dec_of_int (inn - fv))) <= sl /\
    applies e s s' who x y (Some p') (if Nat.eqb din x then inn else - bex) (if Nat.eqb din x then - bex else inn) 0.
Proof.
  intros I Hw H1 H2 H x y. unfold swap_for_exact_tokens in H.
  destruct (load_pool s din dout) as [dp [x0 y0]| |] eqn:LP; try discriminate.
  destruct (load_pool_inv e s din dout dp x0 y0 I H1 H2 LP) as (N & -> & -> & Hxy & Hy & p & KP & W & ->).
  fold x y in H, KP, Hxy, Hy.
  unfold dp_swap_exact_out, dp_reserve in H. cbn [dp_pool dp_a dp_b] in H.
  destruct (lo_or_hi din dout N) as [(Ex & Ey)|(Ey & Ex)]; fold x y in Ex, Ey.
  - (* the input is denom A, the output denom B *)
    rewrite <- Ex in *. rewrite Nat.eqb_refl in *.
    assert (NE : Nat.eqb dout din = false) by (apply Nat.eqb_neq; lia).
    rewrite NE in H. rewrite <- Ey in *. rewrite Nat.eqb_refl in H.
    destruct (rb p <=? bex); [discriminate|].
    destruct (swap_a_for_exact_b p bex (swap_fee e)) as [[p' [inn fv]]|] eqn:SW; [|discriminate].
    cbn [dp_pool] in H.
    destruct (swap_a_for_exact_b_spec _ _ _ _ _ _ W SW) as (_ & _ & _ & _ & _ & Ob & _).
    destruct (inn - fv <? 0); [discriminate|]. destruct (inn - fv =? 0); [discriminate|].
    destruct (negb (dec_ok (dec_quo _ _))); [discriminate|].
    destruct (negb (dec_ok (dec_sub _ _))); [discriminate|].
    destruct (Z.ltb_spec sl (dec_sub dec_one (dec_quo (dec_of_int amax) (dec_of_int (inn - fv))))) as [|Sl]; [discriminate|].
    apply commit_swap_inv in H; try assumption; [|left; split; first [reflexivity|assumption]].
    destruct H as (-> & W' & A). rewrite Nat.eqb_refl in A.
    exists p, p', inn, fv.
    do 8 (split; [solve [reflexivity | lia | assumption]|]). exact A.
  - (* the input is denom B, the output denom A *)
    assert (NE : Nat.eqb din x = false) by (apply Nat.eqb_neq; lia).
    rewrite NE in *. rewrite <- Ex in *. rewrite Nat.eqb_refl in H.
    destruct (ra p <=? bex); [discriminate|].
    destruct (swap_b_for_exact_a p bex (swap_fee e)) as [[p' [inn fv]]|] eqn:SW; [|discriminate].
    cbn [dp_pool] in H.
    destruct (swap_b_for_exact_a_spec _ _ _ _ _ _ W SW) as (_ & _ & _ & _ & _ & Ob & _).
    destruct (inn - fv <? 0); [discriminate|]. destruct (inn - fv =? 0); [discriminate|].
    destruct (negb (dec_ok (dec_quo _ _))); [discriminate|].
    destruct (negb (dec_ok (dec_sub _ _))); [discriminate|].
    destruct (Z.ltb_spec sl (dec_sub dec_one (dec_quo (dec_of_int amax) (dec_of_int (inn - fv))))) as [|Sl]; [discriminate|].
    apply commit_swap_inv in H; try assumption; [|right; split; first [reflexivity|assumption]].
    destruct H as (-> & W' & A). rewrite NE in A.
    exists p, p', inn, fv.
    do 8 (split; [solve [reflexivity | lia | assumption]|]). exact A.
Qed.

(** ** the module invariant is preserved by every operation, hence by every history *)

Lemma in_range_inv e o : op_in_range e o = true ->
  (op_who o < nusers e)%nat /\ (fst (op_denoms o) < nden e)%nat /\ (snd (op_denoms o) < nden e)%nat.
Proof.
  unfold op_in_range. intros R. apply andb_true_iff in R. destruct R as (R & R3).
  apply andb_true_iff in R. destruct R as (R1 & R2). apply Nat.ltb_lt in R1, R2, R3. auto.
Qed.

Lemma deposit_preserves e s who d1 a1 d2 a2 sl s' outs :
  Inv e s -> (who < nusers e)%nat -> (d1 < nden e)%nat -> (d2 < nden e)%nat ->
  deposit e s who d1 a1 d2 a2 sl = Ok s' outs -> Inv e s'.
Proof.
  intros I Hw H1 H2 H.
  destruct (deposit_inv _ _ _ _ _ _ _ _ _ _ I Hw H1 H2 H) as (p' & actx & acty & shs & _ & N & ? & ? & ? & ? & ? & W' & M & _ & _ & _ & A).
  pose proof I as (_ & _ & I3 & I4).
  assert (F : opt_ra (Some p') = opt_ra (k_pool s (lo d1 d2) (hi d1 d2)) + actx /\
              opt_rb (Some p') = opt_rb (k_pool s (lo d1 d2) (hi d1 d2)) + acty /\
              pool_shares (Some p') = pool_shares (k_pool s (lo d1 d2) (hi d1 d2)) + shs).
  { destruct (k_pool s (lo d1 d2) (hi d1 d2)) as [p|] eqn:KP.
    - destruct (I3 _ _ p KP) as (W & _).
      destruct (add_liquidity_spec _ _ _ _ _ _ _ W M) as (_ & _ & _ & _ & _ & Ea & Eb & Es & _).
      cbn [opt_ra opt_rb pool_shares]. lia.
    - destruct M as (_ & -> & -> & -> & ->). cbn [opt_ra opt_rb pool_shares ra rb sh]. lia. }
  destruct F as (F1 & F2 & F3).
  eapply inv_effect; [exact I|exact A| | exact F1 | exact F2 | exact F3 |].
  - intros q E. injection E as <-. exact W'.
  - specialize (I4 who (lo d1 d2) (hi d1 d2)). lia.
Qed.

Lemma withdraw_preserves e s who shares d1 m1 d2 m2 s' outs :
  Inv e s -> (who < nusers e)%nat -> (d1 < nden e)%nat -> (d2 < nden e)%nat ->
  withdraw e s who shares d1 m1 d2 m2 = Ok s' outs -> Inv e s'.
Proof.
  intros I Hw H1 H2 H.
  destruct (withdraw_inv _ _ _ _ _ _ _ _ _ _ I Hw H1 H2 H) as (p & p' & wx & wy & _ & N & KP & W & RL & Sh1 & ? & ? & _ & _ & A).
  destruct (remove_liquidity_spec _ _ _ _ _ W RL) as (Sh2 & Wx & Wy & Ea & Eb & Es & _ & _ & Lt & Eq).
  eapply inv_effect; [exact I|exact A| | | | |]; rewrite ?KP; cbn [opt_ra opt_rb pool_shares].
  - intros q E. destruct (Z.eqb_spec (sh p') 0); [discriminate|]. injection E as <-.
    assert (HL : shares < sh p) by lia. destruct (Lt HL). unfold wf. lia.
  - destruct (Z.eqb_spec (sh p') 0) as [Z0|]; cbn [opt_ra]; [|lia].
    assert (HE : shares = sh p) by lia. destruct (Eq HE). lia.
  - destruct (Z.eqb_spec (sh p') 0) as [Z0|]; cbn [opt_rb]; [|lia].
    assert (HE : shares = sh p) by lia. destruct (Eq HE). lia.
  - destruct (Z.eqb_spec (sh p') 0) as [Z0|]; cbn [pool_shares]; lia.
  - lia.
Qed.

Lemma swap_in_preserves e s who din ain dout bdes sl s' outs :
  Inv e s -> (who < nusers e)%nat -> (din < nden e)%nat -> (dout < nden e)%nat ->
  swap_exact_for_tokens e s who din ain dout bdes sl = Ok s' outs -> Inv e s'.
Proof.
  intros I Hw H1 H2 H.
  destruct (swap_in_inv _ _ _ _ _ _ _ _ _ _ I Hw H1 H2 H) as (p & p' & out & fv & _ & N & KP & W & W' & SW & _ & _ & A).
  pose proof I as (_ & _ & _ & I4).
  eapply inv_effect; [exact I|exact A| | | | |]; rewrite ?KP; cbn [opt_ra opt_rb pool_shares].
  - intros q E. injection E as <-. exact W'.
  - destruct (Nat.eqb din (lo din dout)).
    + destruct (swap_exact_a_for_b_spec _ _ _ _ _ _ W SW) as (_ & _ & Ea & Eb & Es & _). lia.
    + destruct (swap_exact_b_for_a_spec _ _ _ _ _ _ W SW) as (_ & _ & Ea & Eb & Es & _). lia.
  - destruct (Nat.eqb din (lo din dout)).
    + destruct (swap_exact_a_for_b_spec _ _ _ _ _ _ W SW) as (_ & _ & Ea & Eb & Es & _). lia.
    + destruct (swap_exact_b_for_a_spec _ _ _ _ _ _ W SW) as (_ & _ & Ea & Eb & Es & _). lia.
  - destruct (Nat.eqb din (lo din dout)).
    + destruct (swap_exact_a_for_b_spec _ _ _ _ _ _ W SW) as (_ & _ & Ea & Eb & Es & _). lia.
    + destruct (swap_exact_b_for_a_spec _ _ _ _ _ _ W SW) as (_ & _ & Ea & Eb & Es & _). lia.
  - specialize (I4 who (lo din dout) (hi din dout)). lia.
Qed.

Lemma swap_out_preserves e s who din amax dout bex sl s' outs :
  Inv e s -> (who < nusers e)%nat -> (din < nden e)%nat -> (dout < nden e)%nat ->
  swap_for_exact_tokens e s who din amax dout bex sl = Ok s' outs -> Inv e s'.
Proof.
  intros I Hw H1 H2 H.
  destruct (swap_out_inv _ _ _ _ _ _ _ _ _ _ I Hw H1 H2 H) as (p & p' & inn & fv & _ & N & KP & W & W' & SW & _ & _ & A).
  pose proof I as (_ & _ & _ & I4).
  eapply inv_effect; [exact I|exact A| | | | |]; rewrite ?KP; cbn [opt_ra opt_rb pool_shares].
  - intros q E. injection E as <-. exact W'.
  - destruct (Nat.eqb din (lo din dout)).
    + destruct (swap_a_for_exact_b_spec _ _ _ _ _ _ W SW) as (_ & _ & Ea & Eb & Es & _). lia.
    + destruct (swap_b_for_exact_a_spec _ _ _ _ _ _ W SW) as (_ & _ & Ea & Eb & Es & _). lia.
  - destruct (Nat.eqb din (lo din dout)).
    + destruct (swap_a_for_exact_b_spec _ _ _ _ _ _ W SW) as (_ & _ & Ea & Eb & Es & _). lia.
    + destruct (swap_b_for_exact_a_spec _ _ _ _ _ _ W SW) as (_ & _ & Ea & Eb & Es & _). lia.
  - destruct (Nat.eqb din (lo din dout)).
    + destruct (swap_a_for_exact_b_spec _ _ _ _ _ _ W SW) as (_ & _ & Ea & Eb & Es & _). lia.
    + destruct (swap_b_for_exact_a_spec _ _ _ _ _ _ W SW) as (_ & _ & Ea & Eb & Es & _). lia.
  - specialize (I4 who (lo din dout) (hi din dout)). lia.
Qed.

Lemma step_inv e s o s' outs : Inv e s -> step e s o = Ok s' outs -> Inv e s'.
Proof.
  intros I H. unfold step in H.
  destruct (op_in_range e o) eqn:R; cbn [negb] in H; [|discriminate].
  destruct (in_range_inv e o R) as (R1 & R2 & R3).
  destruct o; cbn [op_who op_denoms fst snd] in R1, R2, R3.
  - exact (deposit_preserves _ _ _ _ _ _ _ _ _ _ I R1 R2 R3 H).
  - exact (withdraw_preserves _ _ _ _ _ _ _ _ _ _ I R1 R2 R3 H).
  - exact (swap_in_preserves _ _ _ _ _ _ _ _ _ _ I R1 R2 R3 H).
  - exact (swap_out_preserves _ _ _ _ _ _ _ _ _ _ I R1 R2 R3 H).
  - discriminate.
Qed.

Lemma step'_inv e s o : Inv e s -> Inv e (step' e s o).
Proof.
  intros I. unfold step'. destruct (step e s o) as [s' outs| |] eqn:E; try exact I.
  eapply step_inv; eassumption.
Qed.

Lemma run_inv e ops : forall s, Inv e s -> Inv e (run e s ops).
Proof.
  induction ops as [|o ops IH]; intros s I; cbn [run fold_left]; [exact I|].
  apply IH. apply step'_inv. exact I.
Qed.

Lemma sumN_zero n f : (forall i, (i < n)%nat -> f i = 0) -> sumN n f = 0.
Proof.
  induction n as [|n IH]; intros H; cbn [sumN]; [reflexivity|].
  rewrite IH by (intros; apply H; lia). rewrite H by lia. reflexivity.
Qed.

(* a genesis without pools: the module account holds nothing *)
Lemma inv_init e bal : (forall d, (d < nden e)%nat -> bal (macc e) d = 0) ->
  Inv e (mkK bal (fun _ _ => None) (fun _ _ _ => 0)).
Proof.
  intros H. split; [|split; [|split]]; cbn [k_bal k_pool k_sh].
  - intros d Hd. rewrite H by exact Hd. symmetry. unfold sum2.
    apply sumN_zero. intros i Hi. apply sumN_zero. intros j Hj. reflexivity.
  - intros x y Hx Hy. cbn [pool_shares]. symmetry. apply sumN_zero. reflexivity.
  - intros x y p E. discriminate.
  - intros. lia.
Qed.

(** ** what a successful operation does to the coins *)

Lemma step_applies e s o s' outs : Inv e s -> step e s o = Ok s' outs ->
  exists x y po' dx dy ds, applies e s s' (op_who o) x y po' dx dy ds.
Proof.
  intros I H. unfold step in H.
  destruct (op_in_range e o) eqn:R; cbn [negb] in H; [|discriminate].
  destruct (in_range_inv e o R) as (R1 & R2 & R3).
  destruct o; cbn [op_who op_denoms fst snd] in R1, R2, R3 |- *.
  - destruct (deposit_inv _ _ _ _ _ _ _ _ _ _ I R1 R2 R3 H) as (p' & actx & acty & shs & _ & _ & _ & _ & _ & _ & _ & _ & _ & _ & _ & _ & A).
    do 6 eexists; exact A.
  - destruct (withdraw_inv _ _ _ _ _ _ _ _ _ _ I R1 R2 R3 H) as (p & p' & wx & wy & _ & _ & _ & _ & _ & _ & _ & _ & _ & _ & A).
    do 6 eexists; exact A.
  - destruct (swap_in_inv _ _ _ _ _ _ _ _ _ _ I R1 R2 R3 H) as (p & p' & out & fv & _ & _ & _ & _ & _ & _ & _ & _ & A).
    do 6 eexists; exact A.
  - destruct (swap_out_inv _ _ _ _ _ _ _ _ _ _ I R1 R2 R3 H) as (p & p' & inn & fv & _ & _ & _ & _ & _ & _ & _ & _ & A).
    do 6 eexists; exact A.
  - discriminate.
Qed.

(* coins only move between the caller and the module account, and are conserved *)
Lemma step_coins e s o s' outs : Inv e s -> step e s o = Ok s' outs ->
  (forall a d, a <> op_who o -> a <> macc e -> k_bal s' a d = k_bal s a d) /\
  (forall d, k_bal s' (op_who o) d + k_bal s' (macc e) d = k_bal s (op_who o) d + k_bal s (macc e) d).
Proof.
  intros I H. destruct (step_applies e s o s' outs I H) as (x & y & po' & dx & dy & ds & (_ & _ & Hw & _ & _ & EB)).
  assert (N : op_who o <> macc e) by (unfold macc; lia).
  split.
  - intros a d Na Nm. rewrite EB.
    destruct (Nat.eqb_spec a (op_who o)); [congruence|]. destruct (Nat.eqb_spec a (macc e)); [congruence|]. lia.
  - intros d. rewrite !EB. rewrite !Nat.eqb_refl.
    destruct (Nat.eqb_spec (op_who o) (macc e)); [congruence|].
    destruct (Nat.eqb_spec (macc e) (op_who o)); [congruence|]. lia.
Qed.

(** ** keeper level: deposit, then withdraw the minted shares *)

Lemma keeper_round_trip e s who d1 a1 d2 a2 sl s1 actx acty shs m1 m2 s2 outs2 :
  Inv e s -> (who < nusers e)%nat -> (d1 < nden e)%nat -> (d2 < nden e)%nat ->
  deposit e s who d1 a1 d2 a2 sl = Ok s1 [actx; acty; shs] ->
  withdraw e s1 who shs d1 m1 d2 m2 = Ok s2 outs2 ->
  forall d, k_bal s2 who d <= k_bal s who d.
Proof.
  intros I Hw H1 H2 HD HW.
  pose proof (deposit_preserves _ _ _ _ _ _ _ _ _ _ I Hw H1 H2 HD) as I1.
  destruct (deposit_inv _ _ _ _ _ _ _ _ _ _ I Hw H1 H2 HD) as (p' & actx' & acty' & shs' & EO & N & ? & ? & ? & ? & ? & W' & M & _ & _ & _ & A1).
  injection EO as <- <- <-.
  destruct (withdraw_inv _ _ _ _ _ _ _ _ _ _ I1 Hw H1 H2 HW) as (q & q' & wx & wy & _ & _ & KP & W & RL & _ & _ & _ & _ & _ & A2).
  set (x := lo d1 d2) in *. set (y := hi d1 d2) in *.
  destruct A1 as (Hxy & Hy & _ & EP1 & _ & EB1). destruct A2 as (_ & _ & _ & _ & _ & EB2).
  assert (Q : q = p').
  { rewrite EP1 in KP. unfold upd2 in KP. rewrite !Nat.eqb_refl in KP. cbn [andb] in KP. congruence. }
  subst q.
  assert (NP : wx <= actx /\ wy <= acty).
  { destruct (k_pool s x y) as [p|] eqn:KP0.
    - pose proof I as (_ & _ & I3 & _). destruct (I3 _ _ p KP0) as (Wp & _).
      eapply deposit_withdraw_no_profit; [left; exact Wp|exact M|exact RL].
    - destruct M as (_ & Ep & Ex & Ey & Es).
      eapply (deposit_withdraw_no_profit (mkPool 0 0 0) (sel d1 d2 a1 a2) (sel d1 d2 a2 a1));
        [right; reflexivity| |exact RL].
      rewrite add_liquidity_empty by (try reflexivity; lia). subst. reflexivity. }
  intros d. rewrite EB2, EB1. rewrite Nat.eqb_refl.
  destruct (Nat.eqb_spec who (macc e)); [unfold macc in *; lia|].
  destruct (Nat.eqb_spec d x), (Nat.eqb_spec d y); lia.
Qed.

(** ** denom order: naming the two tokens in the other order gives the same result *)

Lemma deposit_arg_order e s who d1 a1 d2 a2 sl :
  deposit e s who d1 a1 d2 a2 sl = deposit e s who d2 a2 d1 a1 sl.
Proof.
  rewrite !deposit_unfold. unfold lo, hi, sel.
  rewrite (Nat.eqb_sym d2 d1), (orb_comm (a2 <=? 0)).
  destruct (Nat.eqb_spec d1 d2) as [->|N]; [rewrite !orb_true_r; reflexivity|].
  destruct (Nat.ltb_spec d1 d2), (Nat.ltb_spec d2 d1); try lia; reflexivity.
Qed.

Lemma withdraw_arg_order e s who shares d1 m1 d2 m2 :
  withdraw e s who shares d1 m1 d2 m2 = withdraw e s who shares d2 m2 d1 m1.
Proof.
  unfold withdraw. rewrite (Nat.eqb_sym d2 d1).
  destruct (Nat.eqb_spec d1 d2) as [->|N]; [reflexivity|].
  destruct (Nat.ltb_spec d1 d2), (Nat.ltb_spec d2 d1); try lia; reflexivity.
Qed.

(** ** what the slippage comparison means for the amounts *)

Lemma slippage_meaning got wanted sl : 0 <= got -> 0 < wanted ->
  dec_sub dec_one (dec_quo (dec_of_int got) (dec_of_int wanted)) <= sl ->
  2 * got * PREC >= (2 * (PREC - sl) - 1) * wanted.
Proof.
  intros Hg Hw H. pose proof PREC_pos as PP.
  unfold dec_sub, dec_one, dec_of_int in H.
  pose proof (dec_quo_bounds (got * PREC) (wanted * PREC) ltac:(nia) ltac:(nia)) as B. cbv zeta in B.
  set (t := got * PREC * PREC * PREC / (wanted * PREC)) in *.
  set (pc := dec_quo (got * PREC) (wanted * PREC)) in *.
  assert (T : t * (wanted * PREC) <= got * PREC * PREC * PREC).
  { pose proof (Z.div_mod (got * PREC * PREC * PREC) (wanted * PREC) ltac:(nia)) as E.
    pose proof (Z.mod_pos_bound (got * PREC * PREC * PREC) (wanted * PREC) ltac:(nia)) as M.
    fold t in E. nia. }
  assert (T2 : t * wanted <= got * PREC * PREC) by nia.
  assert (L : (2 * (PREC - sl) - 1) * PREC <= 2 * t) by nia.
  assert (L2 : (2 * (PREC - sl) - 1) * PREC * wanted <= 2 * t * wanted).
  { apply Z.mul_le_mono_nonneg_r; lia. }
  assert (L3 : (2 * (PREC - sl) - 1) * wanted * PREC <= 2 * got * PREC * PREC) by nia.
  nia.
Qed.

Lemma deposit_slippage_meaning des act sl : 0 <= des -> 0 < act ->
  dec_sub (dec_quo (dec_of_int des) (dec_of_int act)) dec_one <= sl ->
  2 * des * PREC * PREC < (2 * (PREC + sl) * PREC + PREC + 2) * act.
Proof.
  intros Hg Hw H. pose proof PREC_pos as PP.
  unfold dec_sub, dec_one, dec_of_int in H.
  pose proof (dec_quo_bounds (des * PREC) (act * PREC) ltac:(nia) ltac:(nia)) as B. cbv zeta in B.
  set (t := des * PREC * PREC * PREC / (act * PREC)) in *.
  set (q := dec_quo (des * PREC) (act * PREC)) in *.
  assert (T : des * PREC * PREC * PREC < (t + 1) * (act * PREC)).
  { pose proof (Z.div_mod (des * PREC * PREC * PREC) (act * PREC) ltac:(nia)) as E.
    pose proof (Z.mod_pos_bound (des * PREC * PREC * PREC) (act * PREC) ltac:(nia)) as M.
    fold t in E. nia. }
  assert (T2 : des * PREC * PREC < (t + 1) * act) by nia.
  assert (L : 2 * t <= 2 * (PREC + sl) * PREC + PREC) by nia.
  assert (L2 : (2 * t + 2) * act <= (2 * (PREC + sl) * PREC + PREC + 2) * act).
  { apply Z.mul_le_mono_nonneg_r; lia. }
  nia.
Qed.

Lemma max_slippage_each qx qy sl : dec_sub (Z.max qx qy) dec_one <= sl ->
  dec_sub qx dec_one <= sl /\ dec_sub qy dec_one <= sl.
Proof. unfold dec_sub. lia. Qed.

(** * The message level: deadline gate and ValidateBasic *)

(* a swap message whose deadline is at or before the block time fails *)
Lemma msg_step_deadline_exceeded e t s m :
  is_swap_msg (m_op m) = true -> m_deadline m <= t -> msg_step e t s m = Err.
Proof.
  intros W D. unfold msg_step, deadline_exceeded. rewrite W.
  destruct (Z.leb_spec (m_deadline m) t); [reflexivity|lia].
Qed.

(* before its deadline a message behaves exactly as the keeper call it carries *)
Lemma msg_step_before_deadline e t s m : t < m_deadline m -> msg_step e t s m = step e s (m_op m).
Proof.
  intros D. unfold msg_step, deadline_exceeded.
  destruct (Z.leb_spec (m_deadline m) t); [lia|]. rewrite andb_false_r. reflexivity.
Qed.

(* x/bank's MsgSend is not gated *)
Lemma msg_step_bank e t s m : is_swap_msg (m_op m) = false -> msg_step e t s m = step e s (m_op m).
Proof. intros W. unfold msg_step, deadline_exceeded. rewrite W. reflexivity. Qed.

(* the gate decides by the block time alone: exceeded iff deadline <= block time *)
Lemma msg_step_cases e t s m :
  (is_swap_msg (m_op m) = true /\ m_deadline m <= t /\ msg_step e t s m = Err) \/
  ((is_swap_msg (m_op m) = false \/ t < m_deadline m) /\ msg_step e t s m = step e s (m_op m)).
Proof.
  destruct (is_swap_msg (m_op m)) eqn:W.
  - destruct (Z.le_gt_cases (m_deadline m) t) as [D|D].
    + left. repeat split; try assumption. apply msg_step_deadline_exceeded; assumption.
    + right. split; [right; lia|apply msg_step_before_deadline; lia].
  - right. split; [left; reflexivity|apply msg_step_bank; exact W].
Qed.

(* whatever a transaction does, the keeper call it carries does: every theorem
   about a successful [step] speaks about successful messages *)
Lemma tx_step_ok e t s m s' outs : tx_step e t s m = Ok s' outs ->
  validate_basic m = true /\ (is_swap_msg (m_op m) = true -> t < m_deadline m) /\ step e s (m_op m) = Ok s' outs.
Proof.
  unfold tx_step. destruct (validate_basic m); cbn [negb]; [|discriminate]. intros H.
  split; [reflexivity|]. destruct (msg_step_cases e t s m) as [(W & D & E)|(W & E)]; rewrite E in H; [discriminate|].
  split; [|exact H]. intros W'. destruct W as [W|W]; [congruence|exact W].
Qed.

(* a message that fails ValidateBasic, or whose deadline has passed, changes nothing *)
Lemma tx_step'_rejected e t s m :
  validate_basic m = false \/ (is_swap_msg (m_op m) = true /\ m_deadline m <= t) -> tx_step' e s (t, m) = s.
Proof.
  intros H. unfold tx_step', tx_step. cbn [fst snd]. destruct (validate_basic m) eqn:V; cbn [negb]; [|reflexivity].
  destruct H as [H|(W & D)]; [discriminate|]. rewrite msg_step_deadline_exceeded by assumption. reflexivity.
Qed.

Lemma tx_step'_eq e s tm : tx_step' e s tm = s \/ tx_step' e s tm = step' e s (m_op (snd tm)).
Proof.
  unfold tx_step'. destruct (tx_step e (fst tm) s (snd tm)) as [s' outs| |] eqn:E; try (left; reflexivity).
  right. apply tx_step_ok in E. destruct E as (_ & _ & E). unfold step'. rewrite E. reflexivity.
Qed.

(* the keeper invariant holds after every history of transactions, at any block times *)
Lemma tx_run_inv e l : forall s, Inv e s -> Inv e (tx_run e s l).
Proof.
  induction l as [|tm l IH]; intros s I; cbn [tx_run fold_left]; [exact I|].
  apply IH. destruct (tx_step'_eq e s tm) as [-> | ->]; [exact I|apply step'_inv; exact I].
Qed.

(* ValidateBasic keeps the keeper's sdk.NewCoins panics (zero, negative or
   duplicate coins) out of reach: a validated deposit never takes that branch *)
Lemma validated_deposit_not_malformed m w d1 a1 d2 a2 sl :
  m_op m = Deposit w d1 a1 d2 a2 sl -> validate_basic m = true ->
  ((a1 <=? 0) || (a2 <=? 0) || Nat.eqb d1 d2) = false.
Proof.
  intros E V. unfold validate_basic in V. rewrite E in V.
  repeat (apply andb_true_iff in V; destruct V as (V & ?)).
  apply Z.ltb_lt in V. apply Z.ltb_lt in H2. apply negb_true_iff in H1.
  destruct (Z.leb_spec a1 0); [lia|]. destruct (Z.leb_spec a2 0); [lia|]. rewrite H1. reflexivity.
Qed.
