(* Lemmas and proofs about Model/Swap.v *)
From Kava Require Import Base.Prelude Base.Dec Model.Swap.
Local Open Scope Z_scope.

(** * Arithmetic *)

Lemma quot_spec a b : 0 <= a -> 0 < b ->
  Z.quot a b = a / b /\ 0 <= a / b /\ (a / b) * b <= a < (a / b + 1) * b.
Proof.
  intros Ha Hb. split; [apply Z.quot_div_nonneg; lia|].
  pose proof (Z.div_mod a b ltac:(lia)) as E.
  pose proof (Z.mod_pos_bound a b Hb) as B.
  assert (0 <= a / b) by (apply Z.div_pos; lia). nia.
Qed.

Lemma div_ge_of_mul a b q : 0 < b -> q * b <= a -> q <= a / b.
Proof. intros Hb H. apply Z.div_le_lower_bound; lia. Qed.

Lemma div_lt_of_mul a b q : 0 < b -> a < q * b -> a / b < q.
Proof. intros Hb H. apply Z.div_lt_upper_bound; lia. Qed.

(* floor square root: the specification of big.Int.Sqrt *)
Lemma initial_shares_spec a b : 0 <= a * b ->
  let s := initial_shares a b in 0 <= s /\ s * s <= a * b < (s + 1) * (s + 1).
Proof.
  intros H s. unfold s, initial_shares. split; [apply Z.sqrt_nonneg|].
  pose proof (Z.sqrt_spec (a * b) H) as S. cbv zeta in S. unfold Z.succ in S. lia.
Qed.

Lemma initial_shares_pos a b : 1 <= a -> 1 <= b -> 1 <= initial_shares a b.
Proof.
  intros Ha Hb. unfold initial_shares.
  assert (0 < Z.sqrt (a * b)) by (apply Z.sqrt_pos; nia). lia.
Qed.

(* in.Mul(1 - fee).TruncateInt() = floor(in * (1 - fee)) *)
Lemma in_after_fee_eq inn f : 0 <= inn -> 0 <= f < PREC ->
  dec_trunc_int (dec_mul (dec_of_int inn) (dec_sub dec_one f)) = (inn * (PREC - f)) / PREC.
Proof.
  intros Hi Hf. unfold dec_trunc_int, dec_mul, dec_of_int, dec_sub, dec_one.
  replace (inn * PREC * (PREC - f)) with ((inn * (PREC - f)) * PREC) by ring.
  rewrite chop_round_exact by nia.
  apply Z.quot_div_nonneg; [nia | apply PREC_pos].
Qed.

(* the fee of an exact-input swap is exactly ceil(in * fee) *)
Lemma fee_is_ceil inn f : 0 <= inn -> 0 <= f < PREC ->
  let iaf := (inn * (PREC - f)) / PREC in
  0 <= iaf <= inn /\ inn * f <= (inn - iaf) * PREC < inn * f + PREC.
Proof.
  intros Hi Hf iaf.
  pose proof PREC_pos as PP.
  pose proof (Z.div_mod (inn * (PREC - f)) PREC ltac:(lia)) as E.
  pose proof (Z.mod_pos_bound (inn * (PREC - f)) PREC PP) as B.
  fold iaf in E.
  assert (0 <= iaf) by (apply Z.div_pos; nia).
  assert (iaf <= inn) by (apply Z.div_le_upper_bound; nia).
  split; [lia|]. nia.
Qed.

(* constant product: the truncated output never decreases the product *)
Lemma out_product inRes outRes i : 1 <= inRes -> 1 <= outRes -> 0 <= i ->
  let out := (outRes * i) / (inRes + i) in
  0 <= out < outRes /\ (inRes + i) * (outRes - out) >= inRes * outRes.
Proof.
  intros Ha Hb Hi out.
  assert (Hd : 0 < inRes + i) by lia.
  pose proof (Z.div_mod (outRes * i) (inRes + i) ltac:(lia)) as E.
  pose proof (Z.mod_pos_bound (outRes * i) (inRes + i) Hd) as B.
  fold out in E.
  assert (0 <= out) by (apply Z.div_pos; nia).
  assert (out < outRes) by (apply Z.div_lt_upper_bound; nia).
  split; [lia|]. nia.
Qed.

Lemma dec_ceil_multiple a : exists k, dec_ceil a = k * PREC.
Proof.
  unfold dec_ceil. destruct (Z.rem a PREC <=? 0); eexists; reflexivity.
Qed.

(* Dec.Quo followed by Ceil and TruncateInt never undershoots w / (1 - fee):
   the double rounding of Quo loses less than one ulp, and w*P/D, when it is
   not an integer, exceeds its floor by at least one ulp (because D <= P). *)
Lemma quo_ceil_ge w D : 1 <= w -> 0 < D <= PREC ->
  dec_trunc_int (dec_ceil (dec_quo (dec_of_int w) D)) * D >= w * PREC.
Proof.
  intros Hw HD. pose proof PREC_pos as PP.
  unfold dec_quo, dec_of_int.
  rewrite Z.quot_div_nonneg by nia.
  set (T := (w * PREC * PREC * PREC) / D).
  set (n := (w * PREC) / D).
  set (r := (w * PREC) mod D).
  pose proof (Z.div_mod (w * PREC) D ltac:(lia)) as E. fold n r in E.
  pose proof (Z.mod_pos_bound (w * PREC) D ltac:(lia)) as B. fold r in B.
  assert (Hn : 0 <= n) by (apply Z.div_pos; nia).
  (* lower bound on the 36-digit truncation *)
  assert (HT : (n * PREC + (if r =? 0 then 0 else 1)) * PREC <= T).
  { apply div_ge_of_mul; [lia|].
    replace (w * PREC * PREC * PREC) with ((D * n + r) * (PREC * PREC)) by (rewrite <- E; ring).
    destruct (Z.eqb_spec r 0) as [R0|R0].
    - nia.
    - assert (1 <= r) by lia.
      assert (D * PREC <= r * (PREC * PREC)) by nia. nia. }
  set (m := n * PREC + (if r =? 0 then 0 else 1)) in *.
  assert (Hm : 0 <= m) by (unfold m; destruct (r =? 0); nia).
  assert (HQ : m <= chop_round T).
  { rewrite <- (chop_round_exact m Hm). apply chop_round_mono_nonneg. nia. }
  set (Q := chop_round T) in *.
  assert (HQ0 : 0 <= Q) by lia.
  pose proof (dec_ceil_ge Q HQ0) as C.
  destruct (dec_ceil_multiple Q) as [k Hk]. rewrite Hk in *.
  unfold dec_trunc_int. rewrite Z.quot_mul by lia.
  unfold m in HQ. destruct (Z.eqb_spec r 0) as [R0|R0].
  - assert (n <= k) by nia. nia.
  - assert (n + 1 <= k) by nia. nia.
Qed.

(** * BasePool *)

Definition wf (p : pool) : Prop := 1 <= ra p /\ 1 <= rb p /\ 1 <= sh p.

Lemma fee_ok_spec f : fee_ok f = true <-> 0 <= f < PREC.
Proof. unfold fee_ok. rewrite andb_true_iff, Z.leb_le, Z.ltb_lt. tauto. Qed.

Ltac dif H :=
  match type of H with
  | context [if ?c then _ else _] => destruct c eqn:?; [try discriminate H | try discriminate H]
  end.

(** ** exact-input swaps *)

Lemma calc_out_exact_in_spec inn inRes outRes fee out fv :
  1 <= inRes -> 1 <= outRes ->
  calc_out_exact_in inn inRes outRes fee = POk (out, fv) ->
  1 <= inn /\ 0 <= fee < PREC /\
  inn - fv = (inn * (PREC - fee)) / PREC /\ 0 <= inn - fv <= inn /\
  out = (outRes * (inn - fv)) / (inRes + (inn - fv)) /\ 0 <= out < outRes /\
  (inRes + (inn - fv)) * (outRes - out) >= inRes * outRes /\
  inn * fee <= fv * PREC < inn * fee + PREC.
Proof.
  intros Ha Hb H. unfold calc_out_exact_in in H.
  destruct (Z.leb_spec inn 0) as [|Hin]; [discriminate|].
  destruct (fee_ok fee) eqn:Hf; cbn [negb] in H; [|discriminate].
  apply fee_ok_spec in Hf.
  rewrite in_after_fee_eq in H by lia.
  destruct (fee_is_ceil inn fee ltac:(lia) Hf) as (Hi1 & Hi2).
  set (iaf := inn * (PREC - fee) / PREC) in *.
  repeat dif H.
  destruct (out_product inRes outRes iaf Ha Hb ltac:(lia)) as (Ho1 & Ho2).
  destruct (quot_spec (outRes * iaf) (inRes + iaf) ltac:(nia) ltac:(lia)) as (Q & _).
  rewrite Q in H. inversion H; subst out fv; clear H.
  replace (inn - (inn - iaf)) with iaf by ring.
  repeat split; try lia.
Qed.

Lemma calc_out_exact_in_not_broken inn inRes outRes fee :
  calc_out_exact_in inn inRes outRes fee <> PPanic InvariantBroken.
Proof.
  unfold calc_out_exact_in. repeat (match goal with |- context [if ?c then _ else _] => destruct c end); discriminate.
Qed.

Lemma update_reserves_spec p na fa nb fb p' :
  update_reserves p na fa nb fb = POk p' ->
  ra p' = na /\ rb p' = nb /\ sh p' = sh p /\ (na - fa) * (nb - fb) >= ra p * rb p.
Proof.
  unfold update_reserves. intros H. repeat dif H. inversion H; subst; cbn.
  match goal with E : (_ <? _) = false |- _ => apply Z.ltb_ge in E end. repeat split; lia.
Qed.

Lemma update_reserves_not_broken p na fa nb fb :
  (na - fa) * (nb - fb) >= ra p * rb p ->
  update_reserves p na fa nb fb <> PPanic InvariantBroken.
Proof.
  intros H. unfold update_reserves.
  destruct (negb _); [discriminate|].
  destruct (Z.ltb_spec ((na - fa) * (nb - fb)) (ra p * rb p)); [lia|discriminate].
Qed.

Lemma swap_exact_a_for_b_spec p a fee p' b fv : wf p ->
  swap_exact_a_for_b p a fee = POk (p', (b, fv)) ->
  1 <= a /\ 0 <= fee < PREC /\
  ra p' = ra p + a /\ rb p' = rb p - b /\ sh p' = sh p /\
  0 <= b < rb p /\ 0 <= fv <= a /\
  (ra p + a - fv) * (rb p - b) >= ra p * rb p /\
  a * fee <= fv * PREC < a * fee + PREC.
Proof.
  intros (Ha & Hb & Hs) H. unfold swap_exact_a_for_b in H.
  destruct (calc_out_exact_in a (ra p) (rb p) fee) as [[b0 fv0]|] eqn:C; [|discriminate].
  apply calc_out_exact_in_spec in C; try assumption.
  dif H.
  destruct (update_reserves p (ra p + a) fv0 (rb p - b0) 0) as [q|] eqn:U; [|discriminate].
  apply update_reserves_spec in U. inversion H; subst. clear H.
  destruct C as (? & ? & ? & ? & ? & ? & ? & ?), U as (? & ? & ? & ?).
  repeat split; try lia; nia.
Qed.

Lemma swap_exact_b_for_a_spec p b fee p' a fv : wf p ->
  swap_exact_b_for_a p b fee = POk (p', (a, fv)) ->
  1 <= b /\ 0 <= fee < PREC /\
  ra p' = ra p - a /\ rb p' = rb p + b /\ sh p' = sh p /\
  0 <= a < ra p /\ 0 <= fv <= b /\
  (ra p - a) * (rb p + b - fv) >= ra p * rb p /\
  b * fee <= fv * PREC < b * fee + PREC.
Proof.
  intros (Ha & Hb & Hs) H. unfold swap_exact_b_for_a in H.
  destruct (calc_out_exact_in b (rb p) (ra p) fee) as [[a0 fv0]|] eqn:C; [|discriminate].
  apply calc_out_exact_in_spec in C; try assumption.
  dif H.
  destruct (update_reserves p (ra p - a0) 0 (rb p + b) fv0) as [q|] eqn:U; [|discriminate].
  apply update_reserves_spec in U. inversion H; subst. clear H.
  destruct C as (? & ? & ? & ? & ? & ? & ? & ?), U as (? & ? & ? & ?).
  repeat split; try lia; nia.
Qed.

(* the internal product assertion can never fire on a well-formed pool *)
Lemma swap_exact_a_for_b_not_broken p a fee : wf p ->
  swap_exact_a_for_b p a fee <> PPanic InvariantBroken.
Proof.
  intros (Ha & Hb & Hs). unfold swap_exact_a_for_b.
  destruct (calc_out_exact_in a (ra p) (rb p) fee) as [[b0 fv0]|w] eqn:C.
  - apply calc_out_exact_in_spec in C; try assumption.
    destruct (negb _); [discriminate|].
    destruct (update_reserves p (ra p + a) fv0 (rb p - b0) 0) eqn:U; [discriminate|].
    intros X. inversion X; subst.
    eapply update_reserves_not_broken; [|exact U].
    destruct C as (? & ? & ? & ? & ? & ? & ? & ?).
    replace (ra p + a - fv0) with (ra p + (a - fv0)) by ring. lia.
  - intros X. inversion X; subst. eapply calc_out_exact_in_not_broken; exact C.
Qed.

Lemma swap_exact_b_for_a_not_broken p b fee : wf p ->
  swap_exact_b_for_a p b fee <> PPanic InvariantBroken.
Proof.
  intros (Ha & Hb & Hs). unfold swap_exact_b_for_a.
  destruct (calc_out_exact_in b (rb p) (ra p) fee) as [[a0 fv0]|w] eqn:C.
  - apply calc_out_exact_in_spec in C; try assumption.
    destruct (negb _); [discriminate|].
    destruct (update_reserves p (ra p - a0) 0 (rb p + b) fv0) eqn:U; [discriminate|].
    intros X. inversion X; subst.
    eapply update_reserves_not_broken; [|exact U].
    destruct C as (? & ? & ? & ? & ? & ? & ? & ?).
    replace (rb p + b - fv0) with (rb p + (b - fv0)) by ring. nia.
  - intros X. inversion X; subst. eapply calc_out_exact_in_not_broken; exact C.
Qed.

(** ** exact-output swaps *)

Lemma calc_in_exact_out_spec out outRes inRes fee inn fv :
  1 <= inRes -> 1 <= outRes ->
  calc_in_exact_out out outRes inRes fee = POk (inn, fv) ->
  1 <= out < outRes /\ 0 <= fee < PREC /\
  1 <= inn - fv /\
  (inn - fv) * (outRes - out) >= inRes * out /\
  (inn - fv - 1) * (outRes - out) < inRes * out /\
  inn * (PREC - fee) >= (inn - fv) * PREC /\
  (inRes + (inn - fv)) * (outRes - out) >= inRes * outRes.
Proof.
  intros Ha Hb H. unfold calc_in_exact_out in H.
  destruct (Z.leb_spec out 0) as [|Ho]; [discriminate|].
  destruct (Z.leb_spec outRes out) as [|Ho2]; [discriminate|].
  destruct (fee_ok fee) eqn:Hf; cbn [negb] in H; [|discriminate].
  apply fee_ok_spec in Hf.
  assert (Hd : 0 < outRes - out) by lia.
  destruct (quot_spec (inRes * out) (outRes - out) ltac:(nia) Hd) as (Q & Q0 & Q1).
  rewrite Q in H.
  rewrite Z.rem_mod_nonneg in H by nia.
  pose proof (Z.div_mod (inRes * out) (outRes - out) ltac:(lia)) as E.
  pose proof (Z.mod_pos_bound (inRes * out) (outRes - out) Hd) as B.
  set (q := inRes * out / (outRes - out)) in *.
  set (r := (inRes * out) mod (outRes - out)) in *.
  set (w := if r =? 0 then q else q + 1) in *.
  assert (Hw : 1 <= w /\ w * (outRes - out) >= inRes * out /\ (w - 1) * (outRes - out) < inRes * out).
  { unfold w. destruct (Z.eqb_spec r 0); [|nia].
    assert (1 <= q) by nia. nia. }
  repeat dif H.
  pose proof (quo_ceil_ge w (dec_sub dec_one fee) ltac:(lia) ltac:(unfold dec_sub, dec_one; lia)) as G.
  unfold dec_sub at 2, dec_one at 2 in G.
  set (i := dec_trunc_int (dec_ceil (dec_quo (dec_of_int w) (dec_sub dec_one fee)))) in *.
  clearbody i. clearbody w.
  assert (Hi : i = inn /\ i - w = fv) by (split; congruence).
  destruct Hi as [<- <-]. clear H.
  replace (i - (i - w)) with w by ring.
  repeat split; try lia; nia.
Qed.

Lemma calc_in_exact_out_not_broken out outRes inRes fee :
  calc_in_exact_out out outRes inRes fee <> PPanic InvariantBroken.
Proof.
  unfold calc_in_exact_out. repeat (match goal with |- context [if ?c then _ else _] => destruct c end); discriminate.
Qed.

Lemma swap_a_for_exact_b_spec p b fee p' a fv : wf p ->
  swap_a_for_exact_b p b fee = POk (p', (a, fv)) ->
  1 <= b < rb p /\ 0 <= fee < PREC /\
  ra p' = ra p + a /\ rb p' = rb p - b /\ sh p' = sh p /\
  1 <= a - fv /\ 0 <= fv /\
  (ra p + a - fv) * (rb p - b) >= ra p * rb p /\
  a * fee <= fv * PREC.
Proof.
  intros (Ha & Hb & Hs) H. unfold swap_a_for_exact_b in H.
  destruct (calc_in_exact_out b (rb p) (ra p) fee) as [[a0 fv0]|] eqn:C; [|discriminate].
  apply calc_in_exact_out_spec in C; try assumption.
  dif H.
  destruct (update_reserves p (ra p + a0) fv0 (rb p - b) 0) as [q|] eqn:U; [|discriminate].
  apply update_reserves_spec in U. inversion H; subst. clear H.
  destruct C as (? & ? & ? & ? & ? & ? & ?), U as (? & ? & ? & ?).
  assert (0 <= fv) by nia.
  repeat split; try lia; nia.
Qed.

Lemma swap_b_for_exact_a_spec p a fee p' b fv : wf p ->
  swap_b_for_exact_a p a fee = POk (p', (b, fv)) ->
  1 <= a < ra p /\ 0 <= fee < PREC /\
  ra p' = ra p - a /\ rb p' = rb p + b /\ sh p' = sh p /\
  1 <= b - fv /\ 0 <= fv /\
  (ra p - a) * (rb p + b - fv) >= ra p * rb p /\
  b * fee <= fv * PREC.
Proof.
  intros (Ha & Hb & Hs) H. unfold swap_b_for_exact_a in H.
  destruct (calc_in_exact_out a (ra p) (rb p) fee) as [[b0 fv0]|] eqn:C; [|discriminate].
  apply calc_in_exact_out_spec in C; try assumption.
  dif H.
  destruct (update_reserves p (ra p - a) 0 (rb p + b0) fv0) as [q|] eqn:U; [|discriminate].
  apply update_reserves_spec in U. inversion H; subst. clear H.
  destruct C as (? & ? & ? & ? & ? & ? & ?), U as (? & ? & ? & ?).
  assert (0 <= fv) by nia.
  repeat split; try lia; nia.
Qed.

Lemma swap_a_for_exact_b_not_broken p b fee : wf p ->
  swap_a_for_exact_b p b fee <> PPanic InvariantBroken.
Proof.
  intros (Ha & Hb & Hs). unfold swap_a_for_exact_b.
  destruct (calc_in_exact_out b (rb p) (ra p) fee) as [[a0 fv0]|w] eqn:C.
  - apply calc_in_exact_out_spec in C; try assumption.
    destruct (negb _); [discriminate|].
    destruct (update_reserves p (ra p + a0) fv0 (rb p - b) 0) eqn:U; [discriminate|].
    intros X. inversion X; subst.
    eapply update_reserves_not_broken; [|exact U].
    destruct C as (? & ? & ? & ? & ? & ? & ?).
    replace (ra p + a0 - fv0) with (ra p + (a0 - fv0)) by ring. lia.
  - intros X. inversion X; subst. eapply calc_in_exact_out_not_broken; exact C.
Qed.

Lemma swap_b_for_exact_a_not_broken p a fee : wf p ->
  swap_b_for_exact_a p a fee <> PPanic InvariantBroken.
Proof.
  intros (Ha & Hb & Hs). unfold swap_b_for_exact_a.
  destruct (calc_in_exact_out a (ra p) (rb p) fee) as [[b0 fv0]|w] eqn:C.
  - apply calc_in_exact_out_spec in C; try assumption.
    destruct (negb _); [discriminate|].
    destruct (update_reserves p (ra p - a) 0 (rb p + b0) fv0) eqn:U; [discriminate|].
    intros X. inversion X; subst.
    eapply update_reserves_not_broken; [|exact U].
    destruct C as (? & ? & ? & ? & ? & ? & ?).
    replace (rb p + b0 - fv0) with (rb p + (b0 - fv0)) by ring. nia.
  - intros X. inversion X; subst. eapply calc_in_exact_out_not_broken; exact C.
Qed.
